import EmbitModel.Proofs.KeysBasic
import EmbitModel.Spec.Bip341Tweak
/-
  The taproot tweak of public and private keys against BIP341, and their commutation.
-/
namespace Embit.Keys
open Embit Embit.Spec.Bip341

variable {E : EcOps}

theorem tag_eq : tapTweakTag = tapTweak := rfl

/-- `PublicKey.parse(b"\x02" + x)` is `lift_x` -/
theorem parse_02 (v : Nat) (hv : v < 2 ^ 256) :
    PublicKey.parse E (0x02 :: beN 32 v) = (E.liftX v).map (fun P => ⟨P, true⟩) := by
  have hr : PublicKey.readFrom E (0x02 :: beN 32 v) = (E.liftX v).map (fun P => (⟨P, true⟩, [])) := by
    simp only [PublicKey.readFrom]
    rw [if_pos (by simp)]
    have h4 : ((2:UInt8) = 4) = False := by simp
    simp only [h4, if_false, take_len _ 32 (beN_length 32 v), pubkeyParse, beN_length, if_true, ofBe_beN32 v hv]
    cases E.liftX v with
    | none => rfl
    | some P => simp
  unfold PublicKey.parse
  rw [hr]
  cases E.liftX v with
  | none => rfl
  | some P => rfl

theorem fromXonly_beN (v : Nat) (hv : v < 2 ^ 256) :
    PublicKey.fromXonly E (beN 32 v) = (E.liftX v).map (fun P => ⟨P, true⟩) := by
  simp [PublicKey.fromXonly, parse_02 v hv]

/-- the even-Y representative of ±Q -/
def evenY (E : EcOps) (Q : E.Pt) : E.Pt := if E.yOdd Q then E.neg Q else Q

theorem evenY_spec (L : EcLaws E) (Q : E.Pt) (hQ : E.isInf Q = false) :
    E.yOdd (evenY E Q) = false ∧ E.x (evenY E Q) = E.x Q ∧ E.isInf (evenY E Q) = false := by
  unfold evenY
  cases h : E.yOdd Q
  · simp [h, hQ]
  · simp [h, L.yOdd_neg Q hQ, L.x_neg Q hQ, L.neg_inf, hQ]

/-- `PublicKey.taproot_tweak(h)` is BIP341's `taproot_tweak_pubkey` (embit refuses `t = 0` in addition) -/
theorem tweakPub_eq (L : EcLaws E) (env : Env) (htag : ∀ t m, (env.tagged t m).length = 32)
    (k : PublicKey E) (hP : E.isInf k.point = false) (h : Bytes) :
    k.taprootTweak env h =
      if tweakOf env.tagged (E.x k.point) h = 0 then none
      else (outputPoint E env.tagged (E.x k.point) h).map (fun Q => ⟨evenY E Q, true⟩) := by
  have hx := (L.coord_lt k.point hP).1
  unfold PublicKey.taprootTweak
  simp only [PublicKey.xonly, PublicKey.sec, xslice_serialize, tag_eq]
  rw [if_neg (by simp [htag])]
  unfold outputPoint
  have ht : ofBe (env.tagged tapTweak (beN 32 (E.x k.point) ++ h)) = tweakOf env.tagged (E.x k.point) h := rfl
  rw [ht]
  generalize tweakOf env.tagged (E.x k.point) h = t
  have hparse : pubkeyParse E (0x02 :: beN 32 (E.x k.point)) = E.liftX (E.x k.point) := by
    simp [pubkeyParse, ofBe_beN32 _ hx]
  rw [hparse]
  by_cases h0 : t = 0
  · simp [h0, seckeyValid]
  · by_cases hn : t ≥ E.n
    · have : seckeyValid E t = false := by simp [seckeyValid]; omega
      simp [this, h0, hn]
    · have hvalid : seckeyValid E t = true := by rw [seckeyValid_iff]; omega
      rw [if_neg (by simp [hvalid]), if_neg h0, if_neg hn]
      cases hl : E.liftX (E.x k.point) with
      | none => rfl
      | some P0 =>
        simp only [pubkeyAdd, show t < E.n by omega, if_true]
        cases hQ : E.isInf (E.add P0 (E.mulG t))
        · simp only [Bool.false_eq_true, if_false, Option.map_some, xslice_serialize]
          rw [fromXonly_beN _ (L.coord_lt _ hQ).1, L.liftX_of _ hQ]
          rfl
        · simp

/-- `PrivateKey.taproot_tweak(h)` is BIP341's `taproot_tweak_seckey`, followed by the normalisation to the
    even-Y representative (embit refuses `t = 0` and a zero result) -/
theorem tweakPriv_eq (L : EcLaws E) (env : Env) (htag : ∀ t m, (env.tagged t m).length = 32)
    (k : PrivateKey) (hv : seckeyValid E k.secret = true) (h : Bytes) :
    k.taprootTweak E env h =
      if tweakOf env.tagged (E.x (E.mulG k.secret)) h = 0 then none
      else match tweakSeckey E env.tagged k.secret h with
        | none => none
        | some s =>
          if s = 0 then none
          else some ⟨if E.yOdd (E.mulG s) then E.n - s else s, true, Generated.privDefaultNet⟩ := by
  have hvv := (seckeyValid_iff E k.secret).mp hv
  unfold PrivateKey.taprootTweak tweakSeckey
  simp only [pubkeyCreate, hv, if_true, xslice_serialize, tag_eq]
  rw [if_neg (by simp [htag])]
  have ht : ofBe (env.tagged tapTweak (beN 32 (E.x (E.mulG k.secret)) ++ h)) = tweakOf env.tagged (E.x (E.mulG k.secret)) h := rfl
  rw [ht]
  generalize tweakOf env.tagged (E.x (E.mulG k.secret)) h = t
  have hneg : ((pubkeySerialize E (E.mulG k.secret) true).head? ≠ some 0x02) ↔ E.yOdd (E.mulG k.secret) = true := by
    cases hy : E.yOdd (E.mulG k.secret) <;> simp [pubkeySerialize, hy]
  have hsec : (if (pubkeySerialize E (E.mulG k.secret) true).head? ≠ some 0x02 then privkeyNegate E k.secret else k.secret)
      = (if E.yOdd (E.mulG k.secret) = true then E.n - k.secret else k.secret) := by
    have hm : (E.n - k.secret) % E.n = E.n - k.secret := Nat.mod_eq_of_lt (by omega)
    cases hy : E.yOdd (E.mulG k.secret)
    · rw [if_neg (by rw [hneg, hy]; simp)]; simp
    · rw [if_pos (by rw [hneg, hy])]; simp [privkeyNegate, hm]
  rw [hsec]
  generalize hd' : (if E.yOdd (E.mulG k.secret) = true then E.n - k.secret else k.secret) = d'
  have hd'v : seckeyValid E d' = true := by
    rw [seckeyValid_iff, ← hd']; split <;> omega
  by_cases h0 : t = 0
  · simp [h0, seckeyValid]
  · by_cases hn : t ≥ E.n
    · have : seckeyValid E t = false := by simp [seckeyValid]; omega
      simp [this, h0, hn]
    · have hvalid : seckeyValid E t = true := by rw [seckeyValid_iff]; omega
      rw [if_neg (by simp [hvalid]), if_neg h0, if_neg hn]
      simp only [privkeyAdd, hd'v, show t < E.n by omega, decide_true, Bool.and_self, if_true]
      by_cases hz : (d' + t) % E.n = 0
      · simp [hz]
      · have hs : seckeyValid E ((d' + t) % E.n) = true := by
          rw [seckeyValid_iff]; exact ⟨Nat.pos_of_ne_zero hz, Nat.mod_lt _ L.n_pos⟩
        have hsv := (seckeyValid_iff E _).mp hs
        rw [if_neg hz, if_neg hz]
        simp only [privInit_beN' E L _ hs, PrivateKey.sec, PrivateKey.getPublicKey, pubkeyCreate, hs, if_true,
          Option.map_some, PublicKey.sec]
        have hm : (E.n - (d' + t) % E.n) % E.n = E.n - (d' + t) % E.n := Nat.mod_eq_of_lt (by omega)
        have hs2 : seckeyValid E (E.n - (d' + t) % E.n) = true := by rw [seckeyValid_iff]; omega
        cases hy : E.yOdd (E.mulG ((d' + t) % E.n))
        · simp [pubkeySerialize, hy]
        · simp [pubkeySerialize, hy, privkeyNegate, hm, privInit_beN' E L _ hs2]

theorem mulG_finite (L : EcLaws E) (d : Nat) (hv : seckeyValid E d = true) : E.isInf (E.mulG d) = false := by
  have hvv := (seckeyValid_iff E d).mp hv
  cases h : E.isInf (E.mulG d)
  · rfl
  · have := (L.mulG_inf d).mp h
    rw [Nat.mod_eq_of_lt hvv.2] at this
    omega

/-- the even-Y representative of `dG` is `d'G` with `d' = d` or `n - d` -/
theorem evenY_mulG (L : EcLaws E) (d : Nat) (hd : d ≤ E.n) :
    evenY E (E.mulG d) = E.mulG (if E.yOdd (E.mulG d) = true then E.n - d else d) := by
  unfold evenY
  cases E.yOdd (E.mulG d)
  · simp
  · simp [L.neg_mulG d hd]

/-- tweaking a private key and taking its public key equals tweaking the public key — both Y parities, both
    compression flags, any `h` (incl. empty), including the cases in which both fail -/
theorem taproot_commutes_gen (L : EcLaws E) (env : Env) (htag : ∀ t m, (env.tagged t m).length = 32)
    (k : PrivateKey) (hv : seckeyValid E k.secret = true) (h : Bytes) :
    (k.taprootTweak E env h).bind (fun r => r.getPublicKey E)
      = (k.getPublicKey E).bind (fun P => P.taprootTweak env h) := by
  have hvv := (seckeyValid_iff E k.secret).mp hv
  have hP := mulG_finite L k.secret hv
  rw [tweakPriv_eq L env htag k hv h]
  simp only [PrivateKey.getPublicKey, pubkeyCreate, hv, if_true, Option.map_some, Option.bind_some]
  rw [tweakPub_eq L env htag ⟨E.mulG k.secret, k.compressed⟩ hP h]
  simp only
  generalize ht : tweakOf env.tagged (E.x (E.mulG k.secret)) h = t
  by_cases h0 : t = 0
  · simp [h0]
  · rw [if_neg h0, if_neg h0]
    simp only [tweakSeckey, outputPoint, ht]
    by_cases hn : t ≥ E.n
    · simp [hn]
    · rw [if_neg hn, if_neg hn]
      rw [L.liftX_of _ hP]
      have he := evenY_mulG L k.secret (by omega)
      unfold evenY at he
      rw [he]
      generalize hd' : (if E.yOdd (E.mulG k.secret) = true then E.n - k.secret else k.secret) = d'
      dsimp only
      rw [L.mulG_add, ← L.mulG_mod (d' + t)]
      by_cases hz : (d' + t) % E.n = 0
      · have : E.isInf (E.mulG ((d' + t) % E.n)) = true := (L.mulG_inf _).mpr (by simp [hz])
        rw [if_pos this]
        simp [hz]
      · have hs : seckeyValid E ((d' + t) % E.n) = true := by
          rw [seckeyValid_iff]; exact ⟨Nat.pos_of_ne_zero hz, Nat.mod_lt _ L.n_pos⟩
        have hsv := (seckeyValid_iff E _).mp hs
        have hfin := mulG_finite L _ hs
        simp only [hz, if_false, hfin, Bool.false_eq_true, Option.map_some, Option.bind_some]
        have hs2 : seckeyValid E (E.n - (d' + t) % E.n) = true := by rw [seckeyValid_iff]; omega
        have he2 := evenY_mulG L ((d' + t) % E.n) (by omega)
        rw [he2]
        cases hy : E.yOdd (E.mulG ((d' + t) % E.n))
        · simp [hs]
        · simp [hs2]

end Embit.Keys
