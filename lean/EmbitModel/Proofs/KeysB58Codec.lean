import EmbitModel.Proofs.KeysB58Canon
/-
  The encode-then-decode half of the codec law for the concrete Base58Check text layer of the key models
  (`Model/Base58Check.lean`, over ASCII codes — the functions the driver runs as `env.b58enc` / `env.b58dec`):

    decode (encode b) = some b                                   for EVERY byte string (empty, leading zeros),
    decodeCheck dsha (encodeCheck dsha b) = some b               as soon as `dsha b` has at least four bytes,

  and the latter condition is exact: the round trip at `b` holds IFF `b = []` or `4 ≤ (dsha b).length`
  (embit slices `b[:-4]` / `b[-4:]` whatever the length of the checksum that was appended).
  Proof: `Proofs/KeysB58Canon.lean` reads this model as C11's `Model/Base58.lean` (over `Char`) through the
  character codes (`decode_eq`, `encode_eq`); C11's `decode_encode` transfers because the characters `encode`
  emits are alphabet characters, on which `chr ∘ code` is the identity.
  The other half (`decode s = some b → encode b = s`, `decodeCheck_sound`) is in `Proofs/KeysB58Canon.lean`.
-/
namespace Embit.Keys.B58
open Embit Embit.Keys

/-! ### `chr ∘ code` is the identity on what `encode` emits -/

theorem chr_code_digits : ∀ c ∈ Model.Base58.digits, chr (code c) = c := by decide +kernel

theorem model_encode_mem (b : Bytes) : ∀ c ∈ Model.Base58.encode b, c ∈ Model.Base58.digits := by
  have h := Model.Base58.decode_encode b
  have := (Model.Base58.decode_isSome_iff (Model.Base58.encode b)).mp (by rw [h]; rfl)
  exact this

theorem map_chr_code (l : List Char) (h : ∀ c ∈ l, c ∈ Model.Base58.digits) : (l.map code).map chr = l := by
  induction l with
  | nil => rfl
  | cons x xs ih =>
    simp only [List.map_cons]
    rw [chr_code_digits x (h x (by simp)), ih (fun c hc => h c (by simp [hc]))]

/-! ### Base58 -/

/-- `decode (encode b) = b` for every byte string -/
theorem decode_encode (b : Bytes) : decode (encode b) = some b := by
  rw [decode_eq, encode_eq, map_chr_code _ (model_encode_mem b)]
  exact Model.Base58.decode_encode b

/-- the two directions side by side: `decode` accepts exactly the `encode` texts -/
theorem decode_iff (s : Text) (b : Bytes) : decode s = some b ↔ s = encode b :=
  ⟨fun h => (encode_decode s b h).symm, fun h => h ▸ decode_encode b⟩

/-! ### Base58Check -/

/-- `decode_check (encode_check b) = b` when the checksum function yields at least four bytes at `b` -/
theorem decodeCheck_encodeCheck (dsha : Bytes → Bytes) (b : Bytes) (h4 : 4 ≤ (dsha b).length) :
    decodeCheck dsha (encodeCheck dsha b) = some b := by
  unfold decodeCheck encodeCheck
  rw [decode_encode]
  have hl : ((dsha b).take 4).length = 4 := by simp [List.length_take]; omega
  have h1 : (b ++ (dsha b).take 4).length - 4 = b.length := by simp [hl]
  simp only [h1, List.take_left', List.drop_left']
  simp

/-- the empty payload needs nothing of the checksum function -/
theorem decodeCheck_encodeCheck_nil (dsha : Bytes → Bytes) : decodeCheck dsha (encodeCheck dsha []) = some [] := by
  unfold decodeCheck encodeCheck
  rw [decode_encode]
  have h1 : ((dsha []).take 4).length - 4 = 0 := by simp [List.length_take]; omega
  simp only [List.nil_append, h1, List.take_zero, List.drop_zero]
  simp

/-- a checksum function that yields fewer than four bytes at a non-empty `b` breaks the round trip there -/
theorem decodeCheck_encodeCheck_short (dsha : Bytes → Bytes) (b : Bytes) (hb : b ≠ []) (h4 : (dsha b).length < 4) :
    decodeCheck dsha (encodeCheck dsha b) ≠ some b := by
  unfold decodeCheck encodeCheck
  rw [decode_encode]
  simp only
  split
  · intro h
    have h := congrArg List.length (Option.some.inj h)
    have hbl : 0 < b.length := List.length_pos_iff.mpr hb
    simp [List.length_take] at h
    omega
  · simp

/-- exactly when the round trip holds -/
theorem decodeCheck_encodeCheck_iff (dsha : Bytes → Bytes) (b : Bytes) :
    decodeCheck dsha (encodeCheck dsha b) = some b ↔ (b = [] ∨ 4 ≤ (dsha b).length) := by
  constructor
  · intro h
    by_cases hb : b = []
    · exact Or.inl hb
    · by_cases h4 : 4 ≤ (dsha b).length
      · exact Or.inr h4
      · exact absurd h (decodeCheck_encodeCheck_short dsha b hb (by omega))
  · rintro (rfl | h4)
    · exact decodeCheck_encodeCheck_nil dsha
    · exact decodeCheck_encodeCheck dsha b h4

/-- `decode_check` accepts exactly the `encode_check` texts -/
theorem decodeCheck_iff (dsha : Bytes → Bytes) (h4 : ∀ b, 4 ≤ (dsha b).length) (s : Text) (b : Bytes) :
    decodeCheck dsha s = some b ↔ s = encodeCheck dsha b :=
  ⟨fun h => (decodeCheck_sound dsha s b h).symm, fun h => h ▸ decodeCheck_encodeCheck dsha b (h4 b)⟩

/-- the hypothesis `hcodec` of C10's text round trips, for every environment whose text layer is the concrete one -/
theorem codec_of_concrete (env : Env) (dsha : Bytes → Bytes) (h4 : ∀ b, 4 ≤ (dsha b).length)
    (henc : env.b58enc = encodeCheck dsha) (hdec : env.b58dec = decodeCheck dsha) :
    ∀ b, env.b58dec (env.b58enc b) = some b := by
  intro b
  rw [henc, hdec]
  exact decodeCheck_encodeCheck dsha b (h4 b)

/-- an environment with its text layer replaced by the concrete Base58Check over `dsha` (what `keyEnv` of
    `Driver/Keys.lean` is, with `dsha` the double SHA-256) -/
def withB58 (env : Env) (dsha : Bytes → Bytes) : Env :=
  { env with b58enc := encodeCheck dsha, b58dec := decodeCheck dsha }

end Embit.Keys.B58
