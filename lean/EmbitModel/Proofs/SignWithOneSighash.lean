import EmbitModel.Proofs.ViewSignBytes
/-
  `PSBT.sign_with` written over the C01X model of `PSBT.sighash` (`Model.Psbt.sighash`, keyword arguments `extraOf leaf`):
  the same loops as Model/SignWith.lean (`signInputs` / `signSingle` / `signKeys` / `signWith`) with the digest call replaced,
  proved equal to them — every theorem of C02X / C02Y / C02Z about `signWith` is a theorem about `signWithM`.
-/
set_option linter.unusedSimpArgs false
set_option linter.unusedVariables false
namespace Embit.Model.SignWith
open Embit Embit.Model

variable {HD : Type}

/-- `signInputs` with `self.sighash(…)` modelled by `Psbt.sighash` -/
def signInputsM (O : Ops HD) (sg : Single HD) (auth : Option Nat) :
    List Nat → List (Nat × Slot) → Psbt → Option (Psbt × Nat × List Write)
  | [], _, p => some (p, 0, [])
  | i :: is, G, p =>
    match p.inputs[i]? with
    | none => none
    | some s =>
      match signInput O sg auth
          (fun s' f leaf => Psbt.sighash O.sha (Psbt.setInput p i s') i f (extraOf leaf)) (slotsOf G i) s with
      | none => none
      | some (s', k, ws) =>
        match signInputsM O sg auth is (G ++ ws.map (fun w => (i, w.1))) (Psbt.setInput p i s') with
        | none => none
        | some (p', k', ws') => some (p', k + k', ws.map (fun w => (i, w)) ++ ws')

def signSingleM (O : Ops HD) (sg : Single HD) (auth : Option Nat) (G : List (Nat × Slot)) (p : Psbt) :
    Option (Psbt × Nat × List Write) :=
  match sg with
  | .keyPub => some (p, 0, [])
  | _ => signInputsM O sg auth (List.range p.inputs.length) G p

def signKeysM (O : Ops HD) (auth : Option Nat) :
    List (Single HD) → List (Nat × Slot) → Psbt → Option (Psbt × Nat × List Write)
  | [], _, p => some (p, 0, [])
  | k :: ks, G, p =>
    match signSingleM O k auth G p with
    | none => none
    | some (p1, n1, w1) =>
      match signKeysM O auth ks (G ++ w1.map Write.slot) p1 with
      | none => none
      | some (p2, n2, w2) => some (p2, n1 + n2, w1 ++ w2)

/-- `PSBT.sign_with(root, sighash)` over the C01X model of `PSBT.sighash` -/
def signWithM (O : Ops HD) (signer : Signer HD) (auth : Option Nat) (p : Psbt) : Option (Psbt × Nat × List Write) :=
  match signer with
  | .single sg => signSingleM O sg auth [] p
  | .descriptor keys => signKeysM O auth keys [] p

theorem signInputsM_eq (O : Ops HD) (sg : Single HD) (auth : Option Nat) (is : List Nat) (G : List (Nat × Slot))
    (p : Psbt) : signInputsM O sg auth is G p = signInputs O sg auth is G p := by
  induction is generalizing G p with
  | nil => rfl
  | cons i r ih =>
    unfold signInputsM signInputs
    cases hs : p.inputs[i]? with
    | none => rfl
    | some s =>
      dsimp only
      have h : signInput O sg auth (fun s' f leaf => psbtSighash O.sha (Psbt.setInput p i s') i f leaf) (slotsOf G i) s
          = signInput O sg auth (fun s' f leaf => Psbt.sighash O.sha (Psbt.setInput p i s') i f (extraOf leaf))
              (slotsOf G i) s := signInput_dgModel O sg auth p i (slotsOf G i) s hs
      rw [← h]
      cases h1 : signInput O sg auth (fun s' f leaf => psbtSighash O.sha (Psbt.setInput p i s') i f leaf)
          (slotsOf G i) s with
      | none => rfl
      | some r1 =>
        obtain ⟨s', k, ws⟩ := r1
        dsimp only
        rw [ih]
        try rfl

theorem signSingleM_eq (O : Ops HD) (sg : Single HD) (auth : Option Nat) (G : List (Nat × Slot)) (p : Psbt) :
    signSingleM O sg auth G p = signSingle O sg auth G p := by
  cases sg <;> simp only [signSingleM, signSingle, signInputsM_eq]

theorem signKeysM_eq (O : Ops HD) (auth : Option Nat) (ks : List (Single HD)) (G : List (Nat × Slot)) (p : Psbt) :
    signKeysM O auth ks G p = signKeys O auth ks G p := by
  induction ks generalizing G p with
  | nil => rfl
  | cons k r ih =>
    unfold signKeysM signKeys
    rw [signSingleM_eq]
    cases signSingle O k auth G p with
    | none => rfl
    | some r1 => obtain ⟨p1, n1, w1⟩ := r1; dsimp only; rw [ih]; try rfl

theorem signWithM_eq (O : Ops HD) (signer : Signer HD) (auth : Option Nat) (p : Psbt) :
    signWithM O signer auth p = signWith O signer auth p := by
  cases signer with
  | single sg => exact signSingleM_eq O sg auth [] p
  | descriptor ks => exact signKeysM_eq O auth ks [] p

end Embit.Model.SignWith
