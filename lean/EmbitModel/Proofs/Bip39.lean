import EmbitModel.Model.Bip39
import EmbitModel.Proofs.Bip39Bits
import EmbitModel.Proofs.Bip39Tables
/-
  Helper lemmas for C15: the packing loop of `mnemonic_to_bytes` maintains "the bytearray is the big-endian
  number of the bits seen so far, left-aligned", `_extract_index` reads a slice of the bit string, and the
  resulting equalities model = specification.
-/
namespace Embit.Model.Bip39
open Embit.Spec.Bip39
set_option maxRecDepth 8000
set_option linter.unusedSimpArgs false

/-- The loop state `(binary_seed, offset)` holds the `L`-bit string whose value is `N`:
    ⌈L/8⌉ bytes, the bits left-aligned (the unused low bits of the last byte are zero), `offset = L mod 8`. -/
def Rep (st : Pack) (N L : Nat) : Prop :=
  st.offset = L % 8 ∧ st.seed.length = (L + 7) / 8 ∧ ofBe st.seed = N * 2 ^ (8 * st.seed.length - L)

theorem baAppend_ok (seed : Bytes) (v : Nat) (h : v < 256) : baAppend seed v = some (seed ++ [UInt8.ofNat v]) := by
  simp [baAppend, h]

theorem baOrLast_snoc (init : Bytes) (l : UInt8) (v : Nat) :
    baOrLast (init ++ [l]) v =
      if l.toNat ||| v < 256 then some (init ++ [UInt8.ofNat (l.toNat ||| v)]) else none := by
  simp [baOrLast]

theorem or_eq_add (a b k : Nat) (ha : a % 2 ^ k = 0) (hb : b < 2 ^ k) : a ||| b = a + b := by
  have : a = 2 ^ k * (a / 2 ^ k) := by
    have := Nat.div_add_mod a (2 ^ k); omega
  rw [this, Nat.two_pow_add_eq_or_of_lt hb]

theorem toNat_ofNat_lt (v : Nat) (h : v < 256) : (UInt8.ofNat v).toNat = v := by
  simp [UInt8.toNat_ofNat']; omega

theorem snoc_of_length_pos (s : Bytes) (h : 0 < s.length) : ∃ init l, s = init ++ [l] := by
  rcases List.eq_nil_or_concat s with rfl | ⟨i, l, rfl⟩
  · simp at h
  · exact ⟨i, l, by simp⟩

theorem and_mask (i k : Nat) : i &&& (2 ^ k - 1) = i % 2 ^ k := Nat.and_two_pow_sub_one_eq_mod i k

def StepGoal (seed : Bytes) (o N L i : Nat) : Prop :=
  ∃ st', packIndex ⟨seed, o⟩ i = some st' ∧ Rep st' (N * 2048 + i) (L + 11)

theorem pack_step0 (seed : Bytes) (N L i : Nat) (hi : i < 2048) (hL : L % 8 = 0)
    (h2 : seed.length = (L + 7) / 8) (h3 : ofBe seed = N * 2 ^ (8 * seed.length - L)) : StepGoal seed 0 N L i := by
  have m3 := and_mask i 3
  norm_num at m3
  unfold StepGoal
  simp [packIndex, packLoop]
  simp [Nat.shiftRight_eq_div_pow, Nat.shiftLeft_eq, m3]
  rw [baAppend_ok _ _ (by omega)]
  simp only [Option.bind_some]
  rw [baAppend_ok _ _ (by omega)]
  refine ⟨_, rfl, ?_, ?_, ?_⟩
  · simp; omega
  · simp; omega
  · simp only [ofBe_snoc, toNat_ofNat_lt _ (show i / 8 < 256 by omega),
      toNat_ofNat_lt _ (show i % 8 * 32 < 256 by omega), List.length_append, List.length_cons, List.length_nil]
    have e1 : 8 * seed.length - L = 0 := by omega
    have e2 : 8 * (seed.length + (0 + 1) + (0 + 1)) - (L + 11) = 5 := by omega
    rw [e1] at h3
    rw [e2, h3]
    omega

theorem pack_step1 (seed : Bytes) (N L i : Nat) (hi : i < 2048) (hL : L % 8 = 1)
    (h2 : seed.length = (L + 7) / 8) (h3 : ofBe seed = N * 2 ^ (8 * seed.length - L)) : StepGoal seed 1 N L i := by
  have ma := and_mask i 4
  norm_num at ma
  unfold StepGoal
  obtain ⟨init, last, rfl⟩ := snoc_of_length_pos seed (by omega)
  simp [packIndex, packLoop]
  simp [Nat.shiftRight_eq_div_pow, Nat.shiftLeft_eq, ma]
  simp only [List.length_append, List.length_cons, List.length_nil] at h2 h3
  have e1 : 8 * (init.length + (0 + 1)) - L = 7 := by omega
  rw [e1, ofBe_snoc] at h3
  have hl := last.toNat_lt
  have hm : last.toNat % 2 ^ 7 = 0 := by norm_num at h3 ⊢; omega
  have hb : i / 16 < 2 ^ 7 := by norm_num; omega
  rw [baOrLast_snoc, or_eq_add _ _ 7 hm hb, if_pos (by omega)]
  simp only [Option.bind_some]
  rw [baAppend_ok _ _ (by omega)]
  simp only [Option.bind_some]
  refine ⟨_, rfl, ?_, ?_, ?_⟩
  · simp; omega
  · simp; omega
  · simp only [ofBe_snoc, toNat_ofNat_lt _ (show last.toNat + i / 16 < 256 by omega), toNat_ofNat_lt _ (show i % 16 * 16 < 256 by omega),
      List.length_append, List.length_cons, List.length_nil]
    have e2 : 8 * (init.length + (0 + 1) + (0 + 1)) - (L + 11) = 4 := by omega
    rw [e2]
    clear hm hb ma
    norm_num at h3 ⊢
    omega

theorem pack_step2 (seed : Bytes) (N L i : Nat) (hi : i < 2048) (hL : L % 8 = 2)
    (h2 : seed.length = (L + 7) / 8) (h3 : ofBe seed = N * 2 ^ (8 * seed.length - L)) : StepGoal seed 2 N L i := by
  have ma := and_mask i 5
  norm_num at ma
  unfold StepGoal
  obtain ⟨init, last, rfl⟩ := snoc_of_length_pos seed (by omega)
  simp [packIndex, packLoop]
  simp [Nat.shiftRight_eq_div_pow, Nat.shiftLeft_eq, ma]
  simp only [List.length_append, List.length_cons, List.length_nil] at h2 h3
  have e1 : 8 * (init.length + (0 + 1)) - L = 6 := by omega
  rw [e1, ofBe_snoc] at h3
  have hl := last.toNat_lt
  have hm : last.toNat % 2 ^ 6 = 0 := by norm_num at h3 ⊢; omega
  have hb : i / 32 < 2 ^ 6 := by norm_num; omega
  rw [baOrLast_snoc, or_eq_add _ _ 6 hm hb, if_pos (by omega)]
  simp only [Option.bind_some]
  rw [baAppend_ok _ _ (by omega)]
  simp only [Option.bind_some]
  refine ⟨_, rfl, ?_, ?_, ?_⟩
  · simp; omega
  · simp; omega
  · simp only [ofBe_snoc, toNat_ofNat_lt _ (show last.toNat + i / 32 < 256 by omega), toNat_ofNat_lt _ (show i % 32 * 8 < 256 by omega),
      List.length_append, List.length_cons, List.length_nil]
    have e2 : 8 * (init.length + (0 + 1) + (0 + 1)) - (L + 11) = 3 := by omega
    rw [e2]
    clear hm hb ma
    norm_num at h3 ⊢
    omega

theorem pack_step3 (seed : Bytes) (N L i : Nat) (hi : i < 2048) (hL : L % 8 = 3)
    (h2 : seed.length = (L + 7) / 8) (h3 : ofBe seed = N * 2 ^ (8 * seed.length - L)) : StepGoal seed 3 N L i := by
  have ma := and_mask i 6
  norm_num at ma
  unfold StepGoal
  obtain ⟨init, last, rfl⟩ := snoc_of_length_pos seed (by omega)
  simp [packIndex, packLoop]
  simp [Nat.shiftRight_eq_div_pow, Nat.shiftLeft_eq, ma]
  simp only [List.length_append, List.length_cons, List.length_nil] at h2 h3
  have e1 : 8 * (init.length + (0 + 1)) - L = 5 := by omega
  rw [e1, ofBe_snoc] at h3
  have hl := last.toNat_lt
  have hm : last.toNat % 2 ^ 5 = 0 := by norm_num at h3 ⊢; omega
  have hb : i / 64 < 2 ^ 5 := by norm_num; omega
  rw [baOrLast_snoc, or_eq_add _ _ 5 hm hb, if_pos (by omega)]
  simp only [Option.bind_some]
  rw [baAppend_ok _ _ (by omega)]
  simp only [Option.bind_some]
  refine ⟨_, rfl, ?_, ?_, ?_⟩
  · simp; omega
  · simp; omega
  · simp only [ofBe_snoc, toNat_ofNat_lt _ (show last.toNat + i / 64 < 256 by omega), toNat_ofNat_lt _ (show i % 64 * 4 < 256 by omega),
      List.length_append, List.length_cons, List.length_nil]
    have e2 : 8 * (init.length + (0 + 1) + (0 + 1)) - (L + 11) = 2 := by omega
    rw [e2]
    clear hm hb ma
    norm_num at h3 ⊢
    omega

theorem pack_step4 (seed : Bytes) (N L i : Nat) (hi : i < 2048) (hL : L % 8 = 4)
    (h2 : seed.length = (L + 7) / 8) (h3 : ofBe seed = N * 2 ^ (8 * seed.length - L)) : StepGoal seed 4 N L i := by
  have ma := and_mask i 7
  norm_num at ma
  unfold StepGoal
  obtain ⟨init, last, rfl⟩ := snoc_of_length_pos seed (by omega)
  simp [packIndex, packLoop]
  simp [Nat.shiftRight_eq_div_pow, Nat.shiftLeft_eq, ma]
  simp only [List.length_append, List.length_cons, List.length_nil] at h2 h3
  have e1 : 8 * (init.length + (0 + 1)) - L = 4 := by omega
  rw [e1, ofBe_snoc] at h3
  have hl := last.toNat_lt
  have hm : last.toNat % 2 ^ 4 = 0 := by norm_num at h3 ⊢; omega
  have hb : i / 128 < 2 ^ 4 := by norm_num; omega
  rw [baOrLast_snoc, or_eq_add _ _ 4 hm hb, if_pos (by omega)]
  simp only [Option.bind_some]
  rw [baAppend_ok _ _ (by omega)]
  simp only [Option.bind_some]
  refine ⟨_, rfl, ?_, ?_, ?_⟩
  · simp; omega
  · simp; omega
  · simp only [ofBe_snoc, toNat_ofNat_lt _ (show last.toNat + i / 128 < 256 by omega), toNat_ofNat_lt _ (show i % 128 * 2 < 256 by omega),
      List.length_append, List.length_cons, List.length_nil]
    have e2 : 8 * (init.length + (0 + 1) + (0 + 1)) - (L + 11) = 1 := by omega
    rw [e2]
    clear hm hb ma
    norm_num at h3 ⊢
    omega

theorem pack_step5 (seed : Bytes) (N L i : Nat) (hi : i < 2048) (hL : L % 8 = 5)
    (h2 : seed.length = (L + 7) / 8) (h3 : ofBe seed = N * 2 ^ (8 * seed.length - L)) : StepGoal seed 5 N L i := by
  have ma := and_mask i 8
  norm_num at ma
  unfold StepGoal
  obtain ⟨init, last, rfl⟩ := snoc_of_length_pos seed (by omega)
  simp [packIndex, packLoop]
  simp [Nat.shiftRight_eq_div_pow, Nat.shiftLeft_eq, ma]
  simp only [List.length_append, List.length_cons, List.length_nil] at h2 h3
  have e1 : 8 * (init.length + (0 + 1)) - L = 3 := by omega
  rw [e1, ofBe_snoc] at h3
  have hl := last.toNat_lt
  have hm : last.toNat % 2 ^ 3 = 0 := by norm_num at h3 ⊢; omega
  have hb : i / 256 < 2 ^ 3 := by norm_num; omega
  rw [baOrLast_snoc, or_eq_add _ _ 3 hm hb, if_pos (by omega)]
  simp only [Option.bind_some]
  rw [baAppend_ok _ _ (by omega)]
  simp only [Option.bind_some]
  refine ⟨_, rfl, ?_, ?_, ?_⟩
  · simp; omega
  · simp; omega
  · simp only [ofBe_snoc, toNat_ofNat_lt _ (show last.toNat + i / 256 < 256 by omega), toNat_ofNat_lt _ (show i % 256 < 256 by omega),
      List.length_append, List.length_cons, List.length_nil]
    have e2 : 8 * (init.length + (0 + 1) + (0 + 1)) - (L + 11) = 0 := by omega
    rw [e2]
    clear hm hb ma
    norm_num at h3 ⊢
    omega

theorem pack_step6 (seed : Bytes) (N L i : Nat) (hi : i < 2048) (hL : L % 8 = 6)
    (h2 : seed.length = (L + 7) / 8) (h3 : ofBe seed = N * 2 ^ (8 * seed.length - L)) : StepGoal seed 6 N L i := by
  have ma := and_mask i 9
  have mb := and_mask (i % 512) 1
  norm_num at ma mb
  unfold StepGoal
  obtain ⟨init, last, rfl⟩ := snoc_of_length_pos seed (by omega)
  simp [packIndex, packLoop]
  simp [Nat.shiftRight_eq_div_pow, Nat.shiftLeft_eq, ma, mb]
  simp only [List.length_append, List.length_cons, List.length_nil] at h2 h3
  have e1 : 8 * (init.length + (0 + 1)) - L = 2 := by omega
  rw [e1, ofBe_snoc] at h3
  have hl := last.toNat_lt
  have hm : last.toNat % 2 ^ 2 = 0 := by norm_num at h3 ⊢; omega
  have hb : i / 512 < 2 ^ 2 := by norm_num; omega
  rw [baOrLast_snoc, or_eq_add _ _ 2 hm hb, if_pos (by omega)]
  simp only [Option.bind_some]
  rw [baAppend_ok _ _ (by omega)]
  simp only [Option.bind_some]
  rw [baAppend_ok _ _ (by omega)]
  simp only [Option.bind_some]
  refine ⟨_, rfl, ?_, ?_, ?_⟩
  · simp; omega
  · simp; omega
  · simp only [ofBe_snoc, toNat_ofNat_lt _ (show last.toNat + i / 512 < 256 by omega), toNat_ofNat_lt _ (show i % 512 / 2 < 256 by omega), toNat_ofNat_lt _ (show i % 512 % 2 * 128 < 256 by omega),
      List.length_append, List.length_cons, List.length_nil]
    have e2 : 8 * (init.length + (0 + 1) + (0 + 1) + (0 + 1)) - (L + 11) = 7 := by omega
    rw [e2]
    clear hm hb ma
    norm_num at h3 ⊢
    omega

theorem pack_step7 (seed : Bytes) (N L i : Nat) (hi : i < 2048) (hL : L % 8 = 7)
    (h2 : seed.length = (L + 7) / 8) (h3 : ofBe seed = N * 2 ^ (8 * seed.length - L)) : StepGoal seed 7 N L i := by
  have ma := and_mask i 10
  have mb := and_mask (i % 1024) 2
  norm_num at ma mb
  unfold StepGoal
  obtain ⟨init, last, rfl⟩ := snoc_of_length_pos seed (by omega)
  simp [packIndex, packLoop]
  simp [Nat.shiftRight_eq_div_pow, Nat.shiftLeft_eq, ma, mb]
  simp only [List.length_append, List.length_cons, List.length_nil] at h2 h3
  have e1 : 8 * (init.length + (0 + 1)) - L = 1 := by omega
  rw [e1, ofBe_snoc] at h3
  have hl := last.toNat_lt
  have hm : last.toNat % 2 ^ 1 = 0 := by norm_num at h3 ⊢; omega
  have hb : i / 1024 < 2 ^ 1 := by norm_num; omega
  rw [baOrLast_snoc, or_eq_add _ _ 1 hm hb, if_pos (by omega)]
  simp only [Option.bind_some]
  rw [baAppend_ok _ _ (by omega)]
  simp only [Option.bind_some]
  rw [baAppend_ok _ _ (by omega)]
  simp only [Option.bind_some]
  refine ⟨_, rfl, ?_, ?_, ?_⟩
  · simp; omega
  · simp; omega
  · simp only [ofBe_snoc, toNat_ofNat_lt _ (show last.toNat + i / 1024 < 256 by omega), toNat_ofNat_lt _ (show i % 1024 / 4 < 256 by omega), toNat_ofNat_lt _ (show i % 1024 % 4 * 64 < 256 by omega),
      List.length_append, List.length_cons, List.length_nil]
    have e2 : 8 * (init.length + (0 + 1) + (0 + 1) + (0 + 1)) - (L + 11) = 6 := by omega
    rw [e2]
    clear hm hb ma
    norm_num at h3 ⊢
    omega

theorem pack_step (st : Pack) (N L i : Nat) (hr : Rep st N L) (hi : i < 2048) :
    ∃ st', packIndex st i = some st' ∧ Rep st' (N * 2048 + i) (L + 11) := by
  obtain ⟨seed, off⟩ := st
  obtain ⟨h1, h2, h3⟩ := hr
  simp only at h1 h2 h3
  have ho : L % 8 < 8 := Nat.mod_lt _ (by decide)
  subst h1
  interval_cases hL : L % 8
  · exact pack_step0 seed N L i hi hL h2 h3
  · exact pack_step1 seed N L i hi hL h2 h3
  · exact pack_step2 seed N L i hi hL h2 h3
  · exact pack_step3 seed N L i hi hL h2 h3
  · exact pack_step4 seed N L i hi hL h2 h3
  · exact pack_step5 seed N L i hi hL h2 h3
  · exact pack_step6 seed N L i hi hL h2 h3
  · exact pack_step7 seed N L i hi hL h2 h3

/-! ### the whole `for word in words` loop -/

/-- value of the bit string after appending 11-bit groups -/
def valOf (N : Nat) (idxs : List Nat) : Nat := idxs.foldl (fun n i => n * 2048 + i) N

theorem indexOf?_lt {W : Type} [DecidableEq W] (wl : List W) (w : W) (i : Nat) (h : indexOf? wl w = some i) :
    i < wl.length ∧ wl[i]? = some w := by
  induction wl generalizing i with
  | nil => simp [indexOf?] at h
  | cons x xs ih =>
    unfold indexOf? at h
    split at h
    · rename_i hx; simp at h; subst h; simp [hx]
    · cases hj : indexOf? xs w with
      | none => simp [hj] at h
      | some j =>
        simp [hj] at h; subst h
        obtain ⟨a, b⟩ := ih j hj
        exact ⟨by simp; omega, by simpa using b⟩

theorem indexOf?_get {W : Type} [DecidableEq W] (wl : List W) (hnd : wl.Nodup) (i : Nat) (w : W)
    (h : wl[i]? = some w) : indexOf? wl w = some i := by
  induction wl generalizing i with
  | nil => simp at h
  | cons x xs ih =>
    rw [List.nodup_cons] at hnd
    cases i with
    | zero => simp at h; subst h; simp [indexOf?]
    | succ i =>
      simp at h
      have hm : w ∈ xs := List.mem_of_getElem? h
      have hne : x ≠ w := fun e => hnd.1 (e ▸ hm)
      simp [indexOf?, hne, ih hnd.2 i h]

theorem indexOf?_eq_spec {W : Type} [DecidableEq W] (wl : List W) (w : W) : indexOf? wl w = wordIndex wl w := by
  induction wl with
  | nil => rfl
  | cons x xs ih => simp [indexOf?, wordIndex, ih]

theorem mapM_cons_opt {α β : Type} (f : α → Option β) (a : α) (l : List α) :
    (a :: l).mapM f = (f a).bind fun b => (l.mapM f).bind fun bs => some (b :: bs) := by
  simp [List.mapM_cons]

/-- **Loop invariant** of `for word in words`: after any number of words the bytearray holds exactly the
    concatenated 11-bit indices, left-aligned, and `offset` is the bit count modulo 8. -/
theorem pack_words {W : Type} [DecidableEq W] (wl : List W) (hlen : wl.length = 2048) (ws : List W) (idxs : List Nat)
    (st : Pack) (N L : Nat) (hr : Rep st N L) (hm : ws.mapM (indexOf? wl) = some idxs) :
    ∃ st', packWords wl st ws = some st' ∧ Rep st' (valOf N idxs) (L + 11 * ws.length) := by
  induction ws generalizing idxs st N L with
  | nil => simp at hm; subst hm; exact ⟨st, rfl, by simpa [valOf] using hr⟩
  | cons w ws ih =>
    rw [mapM_cons_opt] at hm
    cases hi : indexOf? wl w with
    | none => simp [hi] at hm
    | some i =>
      cases hrest : ws.mapM (indexOf? wl) with
      | none => simp [hi, hrest] at hm
      | some rest =>
        simp [hi, hrest] at hm; subst hm
        have hlt : i < 2048 := hlen ▸ (indexOf?_lt wl w i hi).1
        obtain ⟨st1, hp, hr1⟩ := pack_step st N L i hr hlt
        obtain ⟨st2, hp2, hr2⟩ := ih rest st1 _ _ hr1 hrest
        refine ⟨st2, ?_, ?_⟩
        · simp [packWords, hi, hp, hp2]
        · have : L + 11 * (w :: ws).length = L + 11 + 11 * ws.length := by simp; omega
          rw [this]; simpa [valOf] using hr2

/-- a word outside the list stops the loop with an exception, wherever it stands -/
theorem pack_words_none {W : Type} [DecidableEq W] (wl : List W) (ws : List W) (st : Pack)
    (hm : ws.mapM (indexOf? wl) = none) : packWords wl st ws = none := by
  induction ws generalizing st with
  | nil => simp at hm
  | cons w ws ih =>
    rw [mapM_cons_opt] at hm
    cases hi : indexOf? wl w with
    | none => simp [packWords, hi]
    | some i =>
      cases hrest : ws.mapM (indexOf? wl) with
      | some rest => simp [hi, hrest] at hm
      | none =>
        simp only [packWords, hi, Option.bind_eq_bind, Option.bind_some]
        cases packIndex st i with
        | none => rfl
        | some st1 => simpa using ih st1 hrest

theorem mapM_lt {W : Type} [DecidableEq W] (wl : List W) (ws : List W) (idxs : List Nat)
    (hm : ws.mapM (indexOf? wl) = some idxs) : idxs.length = ws.length ∧ ∀ i ∈ idxs, i < wl.length := by
  induction ws generalizing idxs with
  | nil => simp at hm; subst hm; simp
  | cons w ws ih =>
    rw [mapM_cons_opt] at hm
    cases hi : indexOf? wl w with
    | none => simp [hi] at hm
    | some i =>
      cases hrest : ws.mapM (indexOf? wl) with
      | none => simp [hi, hrest] at hm
      | some rest =>
        simp [hi, hrest] at hm; subst hm
        obtain ⟨a, b⟩ := ih rest hrest
        refine ⟨by simp [a], ?_⟩
        intro j hj
        simp at hj
        rcases hj with rfl | hj
        · exact (indexOf?_lt wl w j hi).1
        · exact b j hj

theorem bits_valOf (N L : Nat) (idxs : List Nat) (h : ∀ i ∈ idxs, i < 2048) :
    bitsOfNat (L + 11 * idxs.length) (valOf N idxs) = bitsOfNat L N ++ idxs.flatMap (bitsOfNat 11) := by
  induction idxs generalizing N L with
  | nil => simp [valOf]
  | cons i is ih =>
    have hi : i < 2 ^ 11 := h i (by simp)
    have : L + 11 * (i :: is).length = (L + 11) + 11 * is.length := by simp; omega
    rw [this]
    show bitsOfNat _ (valOf (N * 2048 + i) is) = _
    rw [ih _ _ (fun j hj => h j (by simp [hj]))]
    have := bitsOfNat_append L 11 N i hi
    norm_num at this
    rw [this]; simp

/-! ### after the loop: split, hash, mask, compare -/

theorem baAndLast_snoc (init : Bytes) (l : UInt8) (m : Nat) :
    baAndLast (init ++ [l]) m = some (init ++ [UInt8.ofNat (l.toNat &&& m)]) := by
  simp [baAndLast]

theorem final_stage (H : Bytes → Bytes) (hH : ∀ x, (H x).length = 32) (raw : Bytes) (bits : List Bool) (k p : Nat)
    (hk : 4 ≤ k) (hk2 : k ≤ 256) (hbits : bits.length = 33 * k) (hp : p = 8 * ((k + 7) / 8) - k)
    (hraw : bytesToBits raw = bits ++ List.replicate p false) :
    bytesToBits (raw.take (raw.length - (k + 7) / 8)) = bits.take (32 * k) ∧
    ∃ c', baAndLast ((H (raw.take (raw.length - (k + 7) / 8))).take ((k + 7) / 8)) (256 - (1 <<< ((p + 1) - 1))) = some c' ∧
      (raw.drop (raw.length - (k + 7) / 8) = c' ↔
        bits.drop (32 * k) = (bytesToBits (H (raw.take (raw.length - (k + 7) / 8)))).take k) := by
  have hlen : 8 * raw.length = 33 * k + p := by
    have := congrArg List.length hraw
    simpa [hbits] using this
  have hrl : raw.length - (k + 7) / 8 = 4 * k := by omega
  have hp8 : p < 8 := by omega
  rw [hrl]
  generalize hd : raw.take (4 * k) = data
  have hdata : bytesToBits data = bits.take (32 * k) := by
    rw [← hd, bytesToBits_take, hraw, List.take_append_of_le_length (by omega)]
    congr 1; omega
  refine ⟨hdata, ?_⟩
  have hcs : bytesToBits (raw.drop (4 * k)) = bits.drop (32 * k) ++ List.replicate p false := by
    rw [bytesToBits_drop, hraw, List.drop_append_of_le_length (by omega)]
    congr 2; omega
  have hcl : ((H data).take ((k + 7) / 8)).length = (k + 7) / 8 := by
    simp [hH]; omega
  obtain ⟨init, l, hsn⟩ := snoc_of_length_pos ((H data).take ((k + 7) / 8)) (by omega)
  rw [hsn, baAndLast_snoc]
  refine ⟨_, rfl, ?_⟩
  have hil : init.length + 1 = (k + 7) / 8 := by
    have := congrArg List.length hsn; simp [hcl] at this; omega
  have hcomp : bytesToBits init ++ bitsOfNat 8 l.toNat = (bytesToBits (H data)).take (8 * ((k + 7) / 8)) := by
    rw [← bytesToBits_take, hsn]; simp
  have hmask : bitsOfNat 8 (UInt8.ofNat (l.toNat &&& (256 - 1 <<< (p + 1 - 1)))).toNat =
      (bitsOfNat 8 l.toNat).take (8 - p) ++ List.replicate p false := by
    have hle : l.toNat &&& (256 - 1 <<< (p + 1 - 1)) ≤ l.toNat := Nat.and_le_left
    have hl := l.toNat_lt
    rw [toNat_ofNat_lt _ (by omega)]
    exact mask_bits ⟨p, hp8⟩ ⟨l.toNat, by omega⟩
  have hc' : bytesToBits (init ++ [UInt8.ofNat (l.toNat &&& (256 - 1 <<< (p + 1 - 1)))]) =
      (bytesToBits (H data)).take k ++ List.replicate p false := by
    rw [bytesToBits_append, bytesToBits_cons, bytesToBits_nil, List.append_nil, hmask, ← List.append_assoc]
    congr 1
    have e : k = (bytesToBits init).length + (8 - p) := by simp; omega
    have : (bytesToBits (H data)).take k = ((bytesToBits (H data)).take (8 * ((k + 7) / 8))).take k := by
      rw [List.take_take]; congr 1; omega
    rw [this, ← hcomp]
    conv => rhs; rw [e]
    rw [List.take_length_add_append]
  constructor
  · intro h
    have := congrArg bytesToBits h
    rw [hcs, hc'] at this
    exact List.append_cancel_right this
  · intro h
    apply bytesToBits_inj
    rw [hcs, hc', h]

theorem rep_init : Rep ⟨[], 0⟩ 0 0 := by simp [Rep, ofBe, ofLe]

/-- what the loop leaves in `binary_seed`: the concatenated 11-bit groups, zero-padded to a whole byte -/
theorem pack_result {W : Type} [DecidableEq W] (wl : List W) (hwl : wl.length = 2048) (ws : List W) (idxs : List Nat)
    (hm : ws.mapM (indexOf? wl) = some idxs) :
    ∃ st', packWords wl ⟨[], 0⟩ ws = some st' ∧
      bytesToBits st'.seed = idxs.flatMap (bitsOfNat 11) ++ List.replicate (8 * st'.seed.length - 11 * ws.length) false
      ∧ st'.seed.length = (11 * ws.length + 7) / 8 := by
  obtain ⟨st', hp, ho, hl, hv⟩ := pack_words wl hwl ws idxs _ 0 0 rep_init hm
  obtain ⟨hil, hlt⟩ := mapM_lt wl ws idxs hm
  refine ⟨st', hp, ?_, by simpa using hl⟩
  simp only [Nat.zero_add] at hl hv
  rw [bytesToBits_eq_bitsOfNat, hv]
  obtain ⟨p, hpp⟩ : ∃ p, 8 * st'.seed.length = 11 * ws.length + p := ⟨8 * st'.seed.length - 11 * ws.length, by omega⟩
  have e : 8 * st'.seed.length - 11 * ws.length = p := by omega
  rw [e, hpp, bitsOfNat_shift]
  congr 1
  have := bits_valOf 0 0 idxs (fun i hi => hwl ▸ hlt i hi)
  simpa [hil, bitsOfNat] using this

theorem toBytes_finish (H : Bytes → Bytes) (raw c' ent : Bytes) (cl m : Nat) (ign : Bool) (P : Prop) [Decidable P]
    (hcl : cl ≠ 0) (hc' : baAndLast ((H ent).take cl) m = some c') (hd : raw.take (raw.length - cl) = ent)
    (hiff : raw.drop (raw.length - cl) = c' ↔ P) :
    ((baAndLast (List.take cl (H (sliceToNeg raw cl))) m).bind fun a =>
      if (!ign && sliceFromNeg raw cl != a) = true then none else some (sliceToNeg raw cl)) =
    if ign = false ∧ ¬ P then none else some ent := by
  simp only [sliceToNeg, sliceFromNeg, hcl, if_false, hd, hc', Option.bind_some]
  cases ign
  · by_cases hP : P
    · simp [hP, hiff.mpr hP]
    · have : raw.drop (raw.length - cl) ≠ c' := fun h => hP (hiff.mp h)
      simp [hP, this]
  · simp

theorem toBytes_some {W : Type} [DecidableEq W] (H : Bytes → Bytes) (hH : ∀ x, (H x).length = 32) (wl : List W)
    (hwl : wl.length = 2048) (ign : Bool) (ws : List W) (idxs : List Nat)
    (h3 : ws.length % 3 = 0) (h12 : 12 ≤ ws.length) (hmax : ws.length ≤ 768)
    (hm : ws.mapM (indexOf? wl) = some idxs) :
    toBytes H wl ign ws =
      if ign = false ∧ checksumBits idxs ≠ (bytesToBits (H (bitsToBytes (entropyBits idxs)))).take (checksumBits idxs).length
      then none else some (bitsToBytes (entropyBits idxs)) := by
  obtain ⟨st', hp, hbits, hl⟩ := pack_result wl hwl ws idxs hm
  obtain ⟨hil, hlt⟩ := mapM_lt wl ws idxs hm
  obtain ⟨k, hk⟩ : ∃ k, ws.length = 3 * k := ⟨ws.length / 3, by omega⟩
  have hbl : (idxs.flatMap (bitsOfNat 11)).length = 33 * k := by
    have : ∀ l : List Nat, (l.flatMap (bitsOfNat 11)).length = 11 * l.length := by
      intro l; induction l with
      | nil => rfl
      | cons a as ih => simp [ih]; omega
    rw [this, hil, hk]; omega
  have hraw := hbits
  rw [hl] at hraw
  have hp8 : 8 * ((11 * ws.length + 7) / 8) - 11 * ws.length = 8 * ((k + 7) / 8) - k := by omega
  rw [hp8] at hraw
  obtain ⟨hdata, c', hc', hiff⟩ := final_stage H hH st'.seed _ k _ (by omega) (by omega) hbl rfl hraw
  have hent : entropyBits idxs = (idxs.flatMap (bitsOfNat 11)).take (32 * k) := by
    simp only [entropyBits, hbl]; congr 1; omega
  have hcs : checksumBits idxs = (idxs.flatMap (bitsOfNat 11)).drop (32 * k) := by
    simp only [checksumBits, hbl]; congr 1; omega
  have hcsl : (checksumBits idxs).length = k := by rw [hcs]; simp [hbl]; omega
  have hd : st'.seed.take (st'.seed.length - (k + 7) / 8) = bitsToBytes (entropyBits idxs) := by
    rw [hent, ← hdata, bitsToBytes_bytesToBits]
  rw [hd] at hc' hiff
  rw [hcsl, hcs]
  unfold toBytes
  have hg : (ws.length % 3 != 0 || decide (ws.length < 12)) = false := by simp [h3]; omega
  have hk' : ws.length * 11 / 33 = k := by omega
  simp only [hg, Bool.false_eq_true, if_false, hp, Option.bind_eq_bind, Option.bind_some, hk']
  by_cases hr : k % 8 = 0
  · have e1 : k / 8 = (k + 7) / 8 := by omega
    have e2 : 0 = 8 * ((k + 7) / 8) - k := by omega
    simp only [hr, bne_self_eq_false, Bool.false_eq_true, if_false]
    rw [← e2] at hc'
    rw [e1]
    exact toBytes_finish H _ c' _ _ _ ign _ (by omega) hc' hd hiff
  · have e2 : 8 - k % 8 = 8 * ((k + 7) / 8) - k := by omega
    have e1 : k / 8 + 1 = (k + 7) / 8 := by omega
    have hb : (k % 8 != 0) = true := by simp [hr]
    simp only [hb, if_true]
    rw [e1, e2]
    exact toBytes_finish H _ c' _ _ _ ign _ (by omega) hc' hd hiff

theorem toBytes_finish_long (H : Bytes → Bytes) (hH : ∀ x, (H x).length = 32) (raw : Bytes) (cl m : Nat)
    (hcl : 32 < cl) (hrl : cl ≤ raw.length) :
    ((baAndLast (List.take cl (H (sliceToNeg raw cl))) m).bind fun a =>
      if (!false && sliceFromNeg raw cl != a) = true then none else some (sliceToNeg raw cl)) = none := by
  rw [List.take_of_length_le (by rw [hH]; omega)]
  obtain ⟨init, l, hsn⟩ := snoc_of_length_pos (H (sliceToNeg raw cl)) (by rw [hH]; decide)
  have hil : init.length + 1 = 32 := by
    have := congrArg List.length hsn; rw [hH] at this; simpa using this.symm
  rw [hsn, baAndLast_snoc]
  have hne : sliceFromNeg raw cl ≠ init ++ [UInt8.ofNat (l.toNat &&& m)] := by
    intro h
    have := congrArg List.length h
    simp [sliceFromNeg, show cl ≠ 0 by omega] at this
    omega
  simp only [Option.bind_some, Bool.not_false, Bool.true_and, bne_iff_ne.mpr hne, if_true]

/-- beyond 768 words (more checksum bits than SHA-256 has) nothing is accepted -/
theorem toBytes_long {W : Type} [DecidableEq W] (H : Bytes → Bytes) (hH : ∀ x, (H x).length = 32) (wl : List W)
    (hwl : wl.length = 2048) (ws : List W) (idxs : List Nat)
    (h3 : ws.length % 3 = 0) (hmin : 768 < ws.length)
    (hm : ws.mapM (indexOf? wl) = some idxs) :
    toBytes H wl false ws = none ∧ decodeIdx H idxs = none := by
  obtain ⟨st', hp, hbits, hl⟩ := pack_result wl hwl ws idxs hm
  obtain ⟨hil, hlt⟩ := mapM_lt wl ws idxs hm
  obtain ⟨k, hk⟩ : ∃ k, ws.length = 3 * k := ⟨ws.length / 3, by omega⟩
  have hbl : (idxs.flatMap (bitsOfNat 11)).length = 33 * k := by
    have : ∀ l : List Nat, (l.flatMap (bitsOfNat 11)).length = 11 * l.length := by
      intro l; induction l with
      | nil => rfl
      | cons a as ih => simp [ih]; omega
    rw [this, hil, hk]; omega
  constructor
  · unfold toBytes
    have hg : (ws.length % 3 != 0 || decide (ws.length < 12)) = false := by simp [h3]; omega
    have hk' : ws.length * 11 / 33 = k := by omega
    simp only [hg, Bool.false_eq_true, if_false, hp, Option.bind_eq_bind, Option.bind_some, hk']
    by_cases hr : k % 8 = 0
    · simp only [hr, bne_self_eq_false, Bool.false_eq_true, if_false]
      exact toBytes_finish_long H hH _ _ _ (by omega) (by omega)
    · have hb : (k % 8 != 0) = true := by simp [hr]
      simp only [hb, if_true]
      exact toBytes_finish_long H hH _ _ _ (by omega) (by omega)
  · unfold decodeIdx
    have : (idxs.flatMap (bitsOfNat 11)).drop ((idxs.flatMap (bitsOfNat 11)).length / 33 * 32) ≠
        (bytesToBits (H (bitsToBytes ((idxs.flatMap (bitsOfNat 11)).take
          ((idxs.flatMap (bitsOfNat 11)).length / 33 * 32))))).take
          ((idxs.flatMap (bitsOfNat 11)).drop ((idxs.flatMap (bitsOfNat 11)).length / 33 * 32)).length := by
      intro h
      have := congrArg List.length h
      simp [hbl, hH] at this
      omega
    simp only [this, if_false]

/-- `mnemonic_to_bytes` = the bit-string rule, for every word sequence of any length:
    fewer than 12 words or not a multiple of three: rejected; otherwise the extended BIP39 rule. -/
theorem toBytes_eq_decodeExt {W : Type} [DecidableEq W] (H : Bytes → Bytes) (hH : ∀ x, (H x).length = 32) (wl : List W)
    (hwl : wl.length = 2048) (ws : List W) :
    toBytes H wl false ws = if ws.length < 12 then none else decodeExt H wl ws := by
  by_cases h12 : ws.length < 12
  · simp [toBytes, h12]
  by_cases h3 : ws.length % 3 = 0
  · simp only [h12, if_false, decodeExt, h3, ne_eq, not_true_eq_false]
    have hfun : wordIndex wl = indexOf? wl := funext fun w => (indexOf?_eq_spec wl w).symm
    rw [hfun]
    cases hm : ws.mapM (indexOf? wl) with
    | none =>
      simp only [toBytes, pack_words_none wl ws _ hm]
      simp
    | some idxs =>
      simp only
      by_cases hmax : ws.length ≤ 768
      · rw [toBytes_some H hH wl hwl false ws idxs h3 (by omega) hmax hm]
        simp only [decodeIdx, entropyBits, checksumBits, true_and]
        split <;> simp_all
      · obtain ⟨a, b⟩ := toBytes_long H hH wl hwl ws idxs h3 (by omega) hm
        rw [a, b]
  · simp [toBytes, h12, decodeExt, h3]

/-- with `ignore_checksum=True`: the entropy part of the bit string, whatever the checksum bits are -/
theorem toBytes_ignore {W : Type} [DecidableEq W] (H : Bytes → Bytes) (hH : ∀ x, (H x).length = 32) (wl : List W)
    (hwl : wl.length = 2048) (ws : List W) (idxs : List Nat) (h3 : ws.length % 3 = 0) (h12 : 12 ≤ ws.length)
    (hmax : ws.length ≤ 768) (hm : ws.mapM (indexOf? wl) = some idxs) :
    toBytes H wl true ws = some (bitsToBytes (entropyBits idxs)) := by
  rw [toBytes_some H hH wl hwl true ws idxs h3 h12 hmax hm]; simp

/-! ### `_extract_index` reads a slice of the bit string -/

theorem bit_at (buf : Bytes) (pos : Nat) :
    (bytesToBits buf)[pos]? = buf[pos / 8]?.map fun byte => byte.toNat &&& (1 <<< (7 - pos % 8)) != 0 := by
  induction buf generalizing pos with
  | nil => simp
  | cons x xs ih =>
    rw [bytesToBits_cons]
    by_cases h : pos < 8
    · rw [List.getElem?_append_left (by simpa using h)]
      have := bit_test ⟨pos, h⟩ ⟨x.toNat, x.toNat_lt⟩
      simp only at this
      rw [this]
      have e1 : pos / 8 = 0 := by omega
      have e2 : pos % 8 = pos := by omega
      simp [e1, e2]
    · rw [List.getElem?_append_right (by simp; omega)]
      simp only [bitsOfNat_length]
      rw [ih]
      have e1 : pos / 8 = (pos - 8) / 8 + 1 := by omega
      have e2 : pos % 8 = (pos - 8) % 8 := by omega
      rw [e1, e2]; simp

theorem natOfBits_cons (b : Bool) (l : List Bool) : natOfBits (b :: l) = b.toNat * 2 ^ l.length + natOfBits l := by
  have := natOfBits_append [b] l
  simpa [natOfBits] using this

theorem extract_loop (buf : Bytes) (start len acc : Nat) (h : start + len ≤ 8 * buf.length) :
    (List.range' start len).foldlM (extractStep buf) acc
    = some (acc * 2 ^ len + natOfBits (((bytesToBits buf).drop start).take len)) := by
  induction len generalizing start acc with
  | zero => simp [natOfBits]
  | succ len ih =>
    have hlt : start < (bytesToBits buf).length := by simp; omega
    have hb := bit_at buf start
    rw [List.getElem?_eq_getElem hlt] at hb
    have hbyte : start / 8 < buf.length := by omega
    rw [List.getElem?_eq_getElem hbyte] at hb
    simp only [Option.map_some, Option.some.injEq] at hb
    rw [List.range'_succ, List.foldlM_cons]
    simp only [extractStep, List.getElem?_eq_getElem hbyte, Option.bind_eq_bind, Option.bind_some, Option.pure_def]
    rw [ih (start + 1) _ (by omega)]
    congr 1
    have hd : (bytesToBits buf).drop start = (bytesToBits buf)[start] :: (bytesToBits buf).drop (start + 1) :=
      List.drop_eq_getElem_cons hlt
    rw [hd, List.take_succ_cons, natOfBits_cons, hb]
    have hl : (((bytesToBits buf).drop (start + 1)).take len).length = len := by simp; omega
    rw [hl]
    generalize (buf[start / 8].toNat &&& 1 <<< (7 - start % 8) != 0) = c
    have e : acc <<< 1 = acc * 2 := by rw [Nat.shiftLeft_eq]
    rw [e, Nat.pow_succ]
    cases c <;> simp <;> ring

theorem extractIndex_eq (buf : Bytes) (n : Nat) (h : 11 * (n + 1) ≤ 8 * buf.length) :
    extractIndex 11 buf n = some (natOfBits (((bytesToBits buf).drop (11 * n)).take 11)) := by
  unfold extractIndex
  rw [Nat.mul_comm n 11, extract_loop buf _ _ _ (by omega)]
  simp

theorem mapM_congr_opt {α β : Type} (f g : α → Option β) (l : List α) (h : ∀ a ∈ l, f a = g a) :
    l.mapM f = l.mapM g := by
  induction l with
  | nil => rfl
  | cons a as ih =>
    rw [mapM_cons_opt, mapM_cons_opt, h a (by simp), ih (fun b hb => h b (by simp [hb]))]

theorem mapM_map_opt {α β γ : Type} (f : α → β) (g : β → Option γ) (l : List α) :
    (l.map f).mapM g = l.mapM (fun a => g (f a)) := by
  induction l with
  | nil => rfl
  | cons a as ih => rw [List.map_cons, mapM_cons_opt, mapM_cons_opt, ih]

theorem codeBits_length (H : Bytes → Bytes) (hH : ∀ x, (H x).length = 32) (e : Bytes) (k : Nat)
    (hk : e.length = 4 * k) (hk2 : k ≤ 256) : (codeBits H e).length = 33 * k := by
  simp [codeBits, hH, hk]; omega

/-- `mnemonic_from_bytes` = the BIP39 encoding (ENT ‖ checksum cut into 11-bit groups), for every
    entropy whose length is a multiple of 4 up to 1024 bytes -/
theorem fromBytes_eq_encode {W : Type} (H : Bytes → Bytes) (hH : ∀ x, (H x).length = 32) (wl : List W)
    (e : Bytes) (h4 : e.length % 4 = 0) (hmax : e.length ≤ 1024) :
    fromBytes H wl e = encode H wl e := by
  obtain ⟨k, hk⟩ : ∃ k, e.length = 4 * k := ⟨e.length / 4, by omega⟩
  have hcl := codeBits_length H hH e k hk (by omega)
  unfold fromBytes encode encodeIdx
  have hg : (e.length % 4 != 0) = false := by simp [h4]
  have ht : (e.length * 8 + e.length * 8 / 32) / 11 = 3 * k := by omega
  simp only [hg, Bool.false_eq_true, if_false, ht]
  rw [groups_eq_map_range 11 (by decide) (3 * k) _ (by rw [hcl]; omega), List.map_map, mapM_map_opt]
  apply mapM_congr_opt
  intro i hi
  simp only [List.mem_range] at hi
  rw [extractIndex_eq _ _ (by simp [hH]; omega)]
  simp only [Option.bind_eq_bind, Option.bind_some, Function.comp]
  congr 2
  -- the slice of `ENT ‖ SHA256(ENT)` and of `ENT ‖ checksum` agree
  have hcb : codeBits H e = (bytesToBits (e ++ H e)).take (33 * k) := by
    rw [bytesToBits_append, codeBits]
    have : 33 * k = (bytesToBits e).length + k := by simp [hk]; omega
    rw [this, List.take_length_add_append]
    congr 2; omega
  rw [hcb, List.drop_take, List.take_take]
  congr 1; omega

/-! ### the specification's own round trips -/

theorem flatMap_bits_length (l : List Nat) : (l.flatMap (bitsOfNat 11)).length = 11 * l.length := by
  induction l with
  | nil => rfl
  | cons a as ih => simp [ih]; omega

theorem flatMap_congr_mem {α β : Type} (f g : α → List β) (l : List α) (h : ∀ a ∈ l, f a = g a) :
    l.flatMap f = l.flatMap g := by
  induction l with
  | nil => rfl
  | cons a as ih =>
    rw [List.flatMap_cons, List.flatMap_cons, h a (by simp), ih (fun b hb => h b (by simp [hb]))]

theorem encodeIdx_props (H : Bytes → Bytes) (hH : ∀ x, (H x).length = 32) (e : Bytes) (k : Nat)
    (hk : e.length = 4 * k) (hk2 : k ≤ 256) :
    (encodeIdx H e).length = 3 * k ∧ (∀ i ∈ encodeIdx H e, i < 2048) ∧
    (encodeIdx H e).flatMap (bitsOfNat 11) = codeBits H e := by
  have hcl := codeBits_length H hH e k hk hk2
  obtain ⟨hfl, hgl⟩ := groups_flatten 11 (by decide) (3 * k) (codeBits H e) (by rw [hcl]; omega)
  unfold encodeIdx
  refine ⟨?_, ?_, ?_⟩
  · rw [groups_eq_map_range 11 (by decide) (3 * k) _ (by rw [hcl]; omega)]; simp
  · intro i hi
    simp only [List.mem_map] at hi
    obtain ⟨g, hg, rfl⟩ := hi
    have := natOfBits_lt g
    rw [hgl g hg] at this; exact this
  · rw [List.flatMap_map]
    conv => rhs; rw [← hfl]
    apply flatMap_congr_mem
    intro g hg
    simp only [Function.comp, id]
    have := bitsOfNat_natOfBits g
    rw [hgl g hg] at this
    exact this

/-- decoding the encoding gives the entropy back (checksum rule satisfied by construction) -/
theorem decodeIdx_encodeIdx (H : Bytes → Bytes) (hH : ∀ x, (H x).length = 32) (e : Bytes) (k : Nat)
    (hk : e.length = 4 * k) (hk2 : k ≤ 256) : decodeIdx H (encodeIdx H e) = some e := by
  obtain ⟨_, _, hb⟩ := encodeIdx_props H hH e k hk hk2
  have hcl := codeBits_length H hH e k hk hk2
  unfold decodeIdx
  simp only [hb, hcl]
  have e32 : 33 * k / 33 * 32 = (bytesToBits e).length := by simp [hk]; omega
  have ht : (codeBits H e).take (33 * k / 33 * 32) = bytesToBits e := by
    rw [e32, codeBits]; simp
  have hd : (codeBits H e).drop (33 * k / 33 * 32) = (bytesToBits (H e)).take (8 * e.length / 32) := by
    rw [e32, codeBits]; simp
  rw [ht, hd, bitsToBytes_bytesToBits]
  simp [hH]

theorem groups_flatMap_bits (idxs : List Nat) :
    groups 11 (idxs.flatMap (bitsOfNat 11)) = idxs.map (bitsOfNat 11) := by
  induction idxs with
  | nil => rfl
  | cons i is ih =>
    rw [List.flatMap_cons, groups_append 11 (by decide) _ _ (by simp), ih, List.map_cons]

/-- whatever decodes is the encoding of its entropy: the phrase is determined by the entropy -/
theorem encodeIdx_decodeIdx (H : Bytes → Bytes) (idxs : List Nat) (e : Bytes) (k : Nat)
    (hl : idxs.length = 3 * k) (hlt : ∀ i ∈ idxs, i < 2048) (hd : decodeIdx H idxs = some e) :
    encodeIdx H e = idxs ∧ e.length = 4 * k := by
  have hbl : (idxs.flatMap (bitsOfNat 11)).length = 33 * k := by rw [flatMap_bits_length, hl]; omega
  unfold decodeIdx at hd
  simp only [hbl] at hd
  split at hd
  · rename_i hc
    simp only [Option.some.injEq] at hd
    have e32 : 33 * k / 33 * 32 = 8 * (4 * k) := by omega
    rw [e32] at hc hd
    obtain ⟨hbe, hel⟩ := bytesToBits_bitsToBytes (4 * k) ((idxs.flatMap (bitsOfNat 11)).take (8 * (4 * k)))
      (by simp [hbl]; omega)
    rw [hd] at hbe hel hc
    refine ⟨?_, hel⟩
    have hcs : ((idxs.flatMap (bitsOfNat 11)).drop (8 * (4 * k))).length = 8 * e.length / 32 := by
      simp [hbl, hel]; omega
    rw [hcs] at hc
    have hcode : codeBits H e = idxs.flatMap (bitsOfNat 11) := by
      rw [codeBits, hbe, ← hc, List.take_append_drop]
    rw [encodeIdx, hcode, groups_flatMap_bits, List.map_map]
    conv => rhs; rw [← List.map_id idxs]
    apply List.map_congr_left
    intro i hi
    exact natOfBits_bitsOfNat 11 i (hlt i hi)
  · simp at hd

/-! ### indices ↔ words -/

theorem lookup_words {W : Type} [DecidableEq W] (wl : List W) (idxs : List Nat) (hlt : ∀ i ∈ idxs, i < wl.length) :
    ∃ ws, idxs.mapM (fun i => wl[i]?) = some ws ∧ ws.length = idxs.length ∧
      (wl.Nodup → ws.mapM (indexOf? wl) = some idxs) := by
  induction idxs with
  | nil => exact ⟨[], rfl, rfl, fun _ => rfl⟩
  | cons i is ih =>
    obtain ⟨ws, h1, h2, h3⟩ := ih (fun j hj => hlt j (by simp [hj]))
    have hi : i < wl.length := hlt i (by simp)
    refine ⟨wl[i] :: ws, ?_, by simp [h2], ?_⟩
    · rw [mapM_cons_opt, h1, List.getElem?_eq_getElem hi]; rfl
    · intro hnd
      rw [mapM_cons_opt, indexOf?_get wl hnd i _ (List.getElem?_eq_getElem hi), h3 hnd]; rfl

theorem words_lookup {W : Type} [DecidableEq W] (wl : List W) (ws : List W) (idxs : List Nat)
    (hm : ws.mapM (indexOf? wl) = some idxs) : idxs.mapM (fun i => wl[i]?) = some ws := by
  induction ws generalizing idxs with
  | nil => simp at hm; subst hm; rfl
  | cons w ws ih =>
    rw [mapM_cons_opt] at hm
    cases hi : indexOf? wl w with
    | none => simp [hi] at hm
    | some i =>
      cases hrest : ws.mapM (indexOf? wl) with
      | none => simp [hi, hrest] at hm
      | some rest =>
        simp [hi, hrest] at hm; subst hm
        rw [mapM_cons_opt, (indexOf?_lt wl w i hi).2, ih rest hrest]; rfl

/-! ### `find_candidates`, `split`/`join` -/

theorem findCandidates_eq {W : Type} (p : W → Bool) (nmax : Nat) (cands l : List W) (h : cands.length < nmax) :
    findCandidates p nmax cands l = cands ++ (l.filter p).take (nmax - cands.length) := by
  induction l generalizing cands with
  | nil => simp [findCandidates]
  | cons w ws ih =>
    unfold findCandidates
    by_cases hp : p w = true
    · simp only [hp, if_true, List.filter_cons_of_pos]
      by_cases hge : (cands ++ [w]).length ≥ nmax
      · simp only [hge, if_true]
        have : nmax - cands.length = 1 := by simp at hge; omega
        simp [this]
      · simp only [hge, if_false]
        rw [ih _ (by omega)]
        have : nmax - cands.length = (nmax - (cands ++ [w]).length) + 1 := by simp at hge ⊢; omega
        rw [this]; simp
    · have hge : ¬ cands.length ≥ nmax := by omega
      simp only [hp, Bool.false_eq_true, if_false, hge, List.filter_cons_of_neg hp]
      exact ih _ h

theorem splitWs_word {C : Type} (isSpace : C → Bool) (cur w rest : List C) (hw : ∀ c ∈ w, isSpace c = false) :
    splitWs isSpace cur (w ++ rest) = splitWs isSpace (cur ++ w) rest := by
  induction w generalizing cur with
  | nil => simp
  | cons c cs ih =>
    have hc : isSpace c = false := hw c (by simp)
    simp only [List.cons_append, splitWs, hc, Bool.false_eq_true, if_false]
    rw [ih _ (fun d hd => hw d (by simp [hd]))]
    simp

theorem split_join {C : Type} (isSpace : C → Bool) (sp : C) (hsp : isSpace sp = true) (ws : List (List C))
    (hws : ∀ w ∈ ws, w ≠ [] ∧ ∀ c ∈ w, isSpace c = false) : splitWs isSpace [] (joinSp sp ws) = ws := by
  induction ws with
  | nil => rfl
  | cons w ws ih =>
    obtain ⟨hne, hw⟩ := hws w (by simp)
    have ih' := ih (fun v hv => hws v (by simp [hv]))
    cases ws with
    | nil =>
      have := splitWs_word isSpace [] w [] hw
      simp only [List.append_nil, List.nil_append] at this
      simp [joinSp, this, splitWs, hne]
    | cons v vs =>
      simp only [joinSp]
      rw [splitWs_word isSpace [] w _ hw]
      simp only [List.nil_append, splitWs, hsp, if_true]
      rw [ih']
      simp [hne]

end Embit.Model.Bip39
