import EmbitModel.Proofs.Bech32Sound
/-
  Completeness of the segwit decoder: every string that is a valid BIP173/BIP350 segwit address in the sense of
  `Spec.Bech32.IsSegwitAddress` (in particular the all-upper-case spelling) is decoded by `bech32.decode`, with
  exactly the specified version and program. Together with `decode_sound` this is an exact characterisation.
-/
namespace Embit.Model.Bech32
open Embit Digits

/-! ### ASCII case facts (converse directions) -/

theorem ascii_case_conv : ∀ n, n < 127 →
    ((Char.ofNat n).toLower ≠ Char.ofNat n → Spec.Bech32.isUpper (Char.ofNat n) = true)
    ∧ ((Char.ofNat n).toUpper ≠ Char.ofNat n → Spec.Bech32.isLower (Char.ofNat n) = true)
    ∧ (Char.ofNat n).toLower.toLower = (Char.ofNat n).toLower
    ∧ (Spec.Bech32.isUpper (Char.ofNat n) = false → (Char.ofNat n).toLower = Char.ofNat n)
    ∧ (Spec.Bech32.isUpper (Char.ofNat n) = true → 33 ≤ n)
    ∧ (Spec.Bech32.isUpper (Char.ofNat n) = true →
        Spec.Bech32.isUpper (Char.ofNat ((Char.ofNat n).toNat + 32)) = false) := by
  decide +kernel

theorem isUpper_le (c : Char) (h : Spec.Bech32.isUpper c = true) : c.toNat ≤ 126 := by
  unfold Spec.Bech32.isUpper at h
  simp only [Bool.and_eq_true, decide_eq_true_eq, Char.le_def, UInt32.le_iff_toNat_le] at h
  have : c.toNat = c.val.toNat := rfl
  have h2 : ('Z' : Char).val.toNat = 90 := by decide
  omega

theorem exists_ne_of_map_ne {α : Type} (f : α → α) (l : List α) (h : l.map f ≠ l) : ∃ x ∈ l, f x ≠ x := by
  induction l with
  | nil => simp at h
  | cons y ys ih =>
    by_cases hy : f y = y
    · have : ys.map f ≠ ys := by
        intro e; apply h; simp [hy, e]
      obtain ⟨x, hx, hne⟩ := ih this
      exact ⟨x, by simp [hx], hne⟩
    · exact ⟨y, by simp, hy⟩

/-- every character of the specification's lower-casing is not an upper-case letter -/
theorem toLower_not_upper (s : List Char) : ∀ c ∈ Spec.Bech32.toLower s, Spec.Bech32.isUpper c = false := by
  intro c hc
  unfold Spec.Bech32.toLower at hc
  simp only [List.mem_map] at hc
  obtain ⟨x, _, rfl⟩ := hc
  by_cases hu : Spec.Bech32.isUpper x = true
  · rw [if_pos hu]
    exact ascii_cases (fun x => Spec.Bech32.isUpper x = true →
        Spec.Bech32.isUpper (Char.ofNat (x.toNat + 32)) = false)
      (fun n hn => (ascii_case_conv n hn).2.2.2.2.2) x (isUpper_le x hu) hu
  · rw [if_neg hu]; simpa using hu

/-- a string whose specified lower-casing is printable ASCII is printable ASCII -/
theorem printable_of_toLower (s : List Char)
    (h : ∀ c ∈ Spec.Bech32.toLower s, 33 ≤ c.toNat ∧ c.toNat ≤ 126) : ∀ c ∈ s, 33 ≤ c.toNat ∧ c.toNat ≤ 126 := by
  intro c hc
  by_cases hu : Spec.Bech32.isUpper c = true
  · have h1 := isUpper_le c hu
    refine ⟨?_, h1⟩
    have := ascii_cases (fun x => Spec.Bech32.isUpper x = true → 33 ≤ x.toNat)
      (fun n hn hh => by
        have e : (Char.ofNat n).toNat = n := by
          have : ∀ n, n < 127 → (Char.ofNat n).toNat = n := by decide +kernel
          exact this n hn
        rw [e]; exact (ascii_case_conv n hn).2.2.2.2.1 hh) c h1 hu
    exact this
  · apply h
    unfold Spec.Bech32.toLower
    simp only [List.mem_map]
    exact ⟨c, hc, by rw [if_neg hu]⟩

/-- "not mixed case" of the specification is the negation of embit's `lower != s and upper != s` -/
theorem not_mixed_of_spec (s : List Char) (hr : ∀ c ∈ s, 33 ≤ c.toNat ∧ c.toNat ≤ 126)
    (hm : Spec.Bech32.mixedCase s = false) : ¬ (lower s ≠ s ∧ upper s ≠ s) := by
  rintro ⟨h1, h2⟩
  obtain ⟨u, hu, hune⟩ := exists_ne_of_map_ne _ s h1
  obtain ⟨l, hl, hlne⟩ := exists_ne_of_map_ne _ s h2
  have hU : Spec.Bech32.isUpper u = true :=
    ascii_cases (fun c => c.toLower ≠ c → Spec.Bech32.isUpper c = true)
      (fun n hn => (ascii_case_conv n hn).1) u (hr u hu).2 hune
  have hL : Spec.Bech32.isLower l = true :=
    ascii_cases (fun c => c.toUpper ≠ c → Spec.Bech32.isLower c = true)
      (fun n hn => (ascii_case_conv n hn).2.1) l (hr l hl).2 hlne
  have : Spec.Bech32.mixedCase s = true := by
    unfold Spec.Bech32.mixedCase
    simp only [Bool.and_eq_true, List.any_eq_true]
    exact ⟨⟨u, hu, hU⟩, ⟨l, hl, hL⟩⟩
  rw [hm] at this; exact absurd this (by decide)

theorem lower_lower (s : List Char) (hr : ∀ c ∈ s, 33 ≤ c.toNat ∧ c.toNat ≤ 126) : lower (lower s) = lower s := by
  unfold lower
  rw [List.map_map]
  apply List.map_congr_left
  intro c hc
  exact ascii_cases (fun c => c.toLower.toLower = c.toLower) (fun n hn => (ascii_case_conv n hn).2.2.1) c (hr c hc).2

/-! ### `bech32_decode` only looks at the lower-cased string once the guards have passed -/

theorem bech32Decode_lower (s : List Char) (hr : ∀ c ∈ s, 33 ≤ c.toNat ∧ c.toNat ≤ 126)
    (hm : ¬ (lower s ≠ s ∧ upper s ≠ s)) : bech32Decode s = bech32Decode (lower s) := by
  obtain ⟨_, _, hr'⟩ := case_facts s hr hm
  have hll := lower_lower s hr
  have g1 : (s.any (fun x => x.toNat < 33 || x.toNat > 126) || (lower s != s && upper s != s)) = false := by
    rw [Bool.or_eq_false_iff]
    refine ⟨?_, ?_⟩
    · rw [List.any_eq_false]; intro x hx; have := hr x hx; simp; omega
    · cases h1 : (lower s != s) <;> cases h2 : (upper s != s) <;> simp
      exact hm ⟨by simpa using h1, by simpa using h2⟩
  have g2 : ((lower s).any (fun x => x.toNat < 33 || x.toNat > 126)
      || (lower (lower s) != lower s && upper (lower s) != lower s)) = false := by
    rw [Bool.or_eq_false_iff]
    refine ⟨?_, ?_⟩
    · rw [List.any_eq_false]; intro x hx; have := hr' x hx; simp; omega
    · rw [hll]; simp
  rw [hll] at g2
  conv => lhs; unfold bech32Decode
  conv => rhs; unfold bech32Decode
  simp only [g1, hll, g2, Bool.false_eq_true, if_false]

theorem decode_lower (hrp s : List Char) (hr : ∀ c ∈ s, 33 ≤ c.toNat ∧ c.toNat ≤ 126)
    (hm : ¬ (lower s ≠ s ∧ upper s ≠ s)) : decode hrp s = decode hrp (lower s) := by
  unfold decode; rw [bech32Decode_lower s hr hm]

/-! ### completeness -/

theorem segwitText_printable (hrp : List Char) (ver : Nat) (conv : List Nat)
    (hh : ∀ c ∈ hrp, 33 ≤ c.toNat ∧ c.toNat ≤ 126) (hv : ver < 32) (hc : ∀ x ∈ conv, x < 32) :
    ∀ c ∈ segwitText hrp ver conv, 33 ≤ c.toNat ∧ c.toNat ≤ 126 := by
  intro c hcm
  unfold segwitText at hcm
  simp only [List.mem_append, List.mem_map, List.mem_cons, List.not_mem_nil, or_false] at hcm
  rcases hcm with (h | rfl) | ⟨d, hd, rfl⟩
  · exact hh c h
  · decide
  · have hd32 : d < 32 := by
      rcases hd with (rfl | hd) | hd
      · exact hv
      · exact hc d hd
      · exact createChecksum_lt _ _ _ d hd
    have := chr_props d hd32
    exact ⟨this.2.2.1, this.2.2.2.1⟩

theorem convOf_length (pb : Bytes) : (Address.convOf pb).length = (8 * pb.length + 4) / 5 := by
  have hb : ∀ v ∈ pb.map UInt8.toNat, v < 256 := by
    intro v hv; simp at hv; obtain ⟨x, _, rfl⟩ := hv; exact x.toNat_lt
  obtain ⟨k, p, hk, hp, hc⟩ := convertbits_8_5 (pb.map UInt8.toNat) hb
  unfold Address.convOf
  rw [hc]
  simp only [Option.getD_some, fixedBE_length, List.length_map] at hk ⊢
  omega

/-- completeness of `bech32.decode`: a valid segwit address (any permitted spelling) is decoded -/
theorem decode_of_spec (hrp s : List Char) (ver : Nat) (pb : Bytes)
    (h : Spec.Bech32.IsSegwitAddress hrp s ver pb) : decode hrp s = some (ver, pb.map UInt8.toNat) := by
  obtain ⟨⟨hv16, hlo, hhi, hv0⟩, hlen, hmix, ⟨hh1, _, hhr⟩, _, henc⟩ := h
  have hv32 : ver < 32 := by omega
  have htext : Spec.Bech32.toLower s = segwitText hrp ver (Address.convOf pb) := by
    rw [henc, segwitText_eq_spec hrp ver pb hv32]; rfl
  have hprint' := segwitText_printable hrp ver (Address.convOf pb) hhr hv32 (convOf_lt pb)
  rw [← htext] at hprint'
  have hprint := printable_of_toLower s hprint'
  have hnm := not_mixed_of_spec s hprint hmix
  obtain ⟨cf1, _, _⟩ := case_facts s hprint hnm
  -- the human-readable part is lower case
  have hlow : ∀ c ∈ hrp, c.toLower = c := by
    intro c hc
    have hmem : c ∈ Spec.Bech32.toLower s := by
      rw [htext]; unfold segwitText; simp [hc]
    have hnu := toLower_not_upper s c hmem
    exact ascii_cases (fun c => Spec.Bech32.isUpper c = false → c.toLower = c)
      (fun n hn => (ascii_case_conv n hn).2.2.2.1) c (hhr c hc).2 hnu
  have hne : hrp ≠ [] := by
    intro e; rw [e] at hh1; simp at hh1
  have hsl : s.length = hrp.length + 1 + (1 + (8 * pb.length + 4) / 5) + 6 := by
    have : (Spec.Bech32.toLower s).length = s.length := by simp [Spec.Bech32.toLower]
    rw [← this, htext, Address.segwitText_length, convOf_length]
  have hok : SegwitOk hrp ver (pb.map UInt8.toNat) := by
    refine ⟨⟨hne, hhr, hlow⟩, hv16, ?_, by simpa using hlo, by simpa using hhi, ?_, ?_⟩
    · intro v hv; simp at hv; obtain ⟨x, _, rfl⟩ := hv; exact x.toNat_lt
    · intro hz; simpa using hv0 hz
    · simp only [List.length_map]; omega
  obtain ⟨conv, h1, _, _, _, _, h6⟩ := encode_segwit hrp ver _ hok
  have hc : Address.convOf pb = conv := by simp [Address.convOf, h1]
  rw [decode_lower hrp s hprint hnm, ← cf1, htext, hc]
  exact h6

/-- `bech32.decode` accepts exactly the valid BIP173/BIP350 segwit addresses for `hrp` and returns their version
    and program -/
theorem decode_iff_spec (hrp s : List Char) (ver : Nat) (prog : List Nat) :
    decode hrp s = some (ver, prog) ↔
      ∃ pb : Bytes, prog = pb.map UInt8.toNat ∧ Spec.Bech32.IsSegwitAddress hrp s ver pb := by
  constructor
  · exact decode_sound hrp s ver prog
  · rintro ⟨pb, rfl, h⟩
    exact decode_of_spec hrp s ver pb h

end Embit.Model.Bech32
