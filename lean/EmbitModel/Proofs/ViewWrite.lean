import EmbitModel.Model.ViewWrite
import EmbitModel.Proofs.ViewFrame
/-
  C05Y helpers: `View.writeToL` over a view that presents a parsed PSBT (`ViewOf`) writes the original global
  scope followed by the scopes of the PSBT merged and compressed in memory; the one-stream `View.writeTo` of
  Model/View.lean is the special case of `View.writeToL`.
-/
set_option linter.unusedSimpArgs false
set_option linter.unusedVariables false
namespace Embit
open Model Props.C05X

/-! ### the one-stream model is the list model on lists of length ≤ 1 -/

theorem updateInFrom_toList (ko : KeyOps) (sha : Bytes → Bytes) (s : InScope) (e : Option Bytes) :
    (match extraIn ko sha e with
      | some (x, e') => some ((match x with | some o => s.update o | none => s), e'.toList)
      | none => none) = updateInFrom ko sha s e.toList := by
  cases e with
  | none => simp [extraIn, updateInFrom]
  | some e =>
    simp only [extraIn, Option.toList_some, updateInFrom]
    cases readKVs e with
    | none => rfl
    | some r =>
      obtain ⟨kvs, rest⟩ := r
      simp only []
      cases InScope.addPairs ko sha 0 {} kvs with
      | none => rfl
      | some o => simp [updateInFrom]

theorem updateOutFrom_toList (ko : KeyOps) (s : OutScope) (e : Option Bytes) :
    (match extraOut ko e with
      | some (x, e') => some ((match x with | some o => s.update o | none => s), e'.toList)
      | none => none) = updateOutFrom ko s e.toList := by
  cases e with
  | none => simp [extraOut, updateOutFrom]
  | some e =>
    simp only [extraOut, Option.toList_some, updateOutFrom]
    cases readKVs e with
    | none => rfl
    | some r =>
      obtain ⟨kvs, rest⟩ := r
      simp only []
      cases OutScope.addPairs ko {} kvs with
      | none => rfl
      | some o => simp [updateOutFrom]

theorem writeTo_ins_eq (ko : KeyOps) (sha : Bytes → Bytes) (buf : Bytes) (v : View) (vc cm : Nat) :
    ∀ (n i : Nat) (e : Option Bytes),
      (View.writeTo.ins ko sha buf v vc cm n i e).map Prod.fst
        = View.writeToL.ins ko sha buf v vc cm n i e.toList := by
  intro n
  induction n with
  | zero => intro i e; simp [View.writeTo.ins, View.writeToL.ins]
  | succ n ih =>
    intro i e
    simp only [View.writeTo.ins, View.writeToL.ins]
    cases hin : View.input ko sha buf v i vc with
    | none => simp
    | some s =>
      simp only []
      rw [← updateInFrom_toList ko sha s e]
      cases hx : extraIn ko sha e with
      | none => simp
      | some r =>
        obtain ⟨x, e'⟩ := r
        simp only []
        rw [← ih (i+1) e']
        cases View.writeTo.ins ko sha buf v vc cm n (i+1) e' with
        | none => simp
        | some r2 =>
          obtain ⟨rest, e''⟩ := r2
          cases x <;> simp [InScope.compressed]

theorem writeTo_outs_eq (ko : KeyOps) (buf : Bytes) (v : View) (cm : Nat) :
    ∀ (n j : Nat) (e : Option Bytes),
      View.writeTo.outs ko buf v cm n j e = View.writeToL.outs ko buf v cm n j e.toList := by
  intro n
  induction n with
  | zero => intro j e; simp [View.writeTo.outs, View.writeToL.outs]
  | succ n ih =>
    intro j e
    simp only [View.writeTo.outs, View.writeToL.outs]
    cases hout : View.output ko buf v j with
    | none => simp
    | some s =>
      simp only []
      rw [← updateOutFrom_toList ko s e]
      cases hx : extraOut ko e with
      | none => simp
      | some r =>
        obtain ⟨x, e'⟩ := r
        simp only []
        rw [← ih (j+1) e']
        cases View.writeTo.outs ko buf v cm n (j+1) e' with
        | none => simp
        | some rest => cases x <;> simp [OutScope.compressed]

/-- `View.writeTo` (Model/View.lean, the function behind the `view.write` correspondence op) is `View.writeToL`
    with zero or one extra stream of each kind -/
theorem View.writeTo_eq_writeToL (ko : KeyOps) (sha : Bytes → Bytes) (buf : Bytes) (v : View) (vc cm : Nat)
    (ei eo : Option Bytes) :
    View.writeTo ko sha buf v vc cm ei eo = View.writeToL ko sha buf v vc cm ei.toList eo.toList := by
  unfold View.writeTo View.writeToL
  simp only []
  rw [← writeTo_ins_eq ko sha buf v vc cm v.numIn 0 ei, writeTo_outs_eq ko buf v cm v.numOut 0 eo]
  cases View.writeTo.ins ko sha buf v vc cm v.numIn 0 ei with
  | none => simp
  | some r =>
    obtain ⟨ib, e'⟩ := r
    simp only [Option.map_some]
    cases View.writeToL.outs ko buf v cm v.numOut 0 eo.toList <;> rfl

/-! ### the write loops over a view that presents a parsed PSBT -/

theorem writeToL_ins_spec (ko : KeyOps) (sha : Bytes → Bytes) (buf : Bytes) (v : View) (vc cm : Nat)
    (inputs : List InScope) (hin : ∀ i, View.input ko sha buf v i vc = inputs[i]?) :
    ∀ (n i : Nat) (es : List Bytes), i + n = inputs.length →
      View.writeToL.ins ko sha buf v vc cm n i es
        = (mergeIns ko sha cm (inputs.drop i) es).map fun l => l.flatMap fun s => writeKVs (s.pairs v.version) := by
  intro n
  induction n with
  | zero =>
    intro i es h
    have : inputs.drop i = [] := List.drop_eq_nil_of_le (by omega)
    simp [View.writeToL.ins, this, mergeIns]
  | succ n ih =>
    intro i es h
    have hi : i < inputs.length := by omega
    have hd : inputs.drop i = inputs[i] :: inputs.drop (i+1) := List.drop_eq_getElem_cons hi
    simp only [View.writeToL.ins, hin i, List.getElem?_eq_getElem hi, hd, mergeIns]
    cases updateInFrom ko sha inputs[i] es with
    | none => rfl
    | some r =>
      obtain ⟨s1, es'⟩ := r
      simp only []
      rw [ih (i+1) es' (by omega)]
      cases mergeIns ko sha cm (inputs.drop (i+1)) es' with
      | none => rfl
      | some l => simp

theorem writeToL_outs_spec (ko : KeyOps) (buf : Bytes) (v : View) (cm : Nat)
    (outputs : List OutScope) (hout : ∀ j, View.output ko buf v j = outputs[j]?) :
    ∀ (n j : Nat) (es : List Bytes), j + n = outputs.length →
      View.writeToL.outs ko buf v cm n j es
        = (mergeOuts ko cm (outputs.drop j) es).map fun l => l.flatMap fun s => writeKVs (s.pairs v.version) := by
  intro n
  induction n with
  | zero =>
    intro j es h
    have : outputs.drop j = [] := List.drop_eq_nil_of_le (by omega)
    simp [View.writeToL.outs, this, mergeOuts]
  | succ n ih =>
    intro j es h
    have hj : j < outputs.length := by omega
    have hd : outputs.drop j = outputs[j] :: outputs.drop (j+1) := List.drop_eq_getElem_cons hj
    simp only [View.writeToL.outs, hout j, List.getElem?_eq_getElem hj, hd, mergeOuts]
    cases updateOutFrom ko outputs[j] es with
    | none => rfl
    | some r =>
      obtain ⟨s1, es'⟩ := r
      simp only []
      rw [ih (j+1) es' (by omega)]
      cases mergeOuts ko cm (outputs.drop (j+1)) es' with
      | none => rfl
      | some l => simp

theorem mergeIns_length (ko : KeyOps) (sha : Bytes → Bytes) (cm : Nat) :
    ∀ (l : List InScope) (es : List Bytes) (r : List InScope), mergeIns ko sha cm l es = some r → r.length = l.length := by
  intro l
  induction l with
  | nil => intro es r h; simp [mergeIns] at h; subst h; rfl
  | cons s ss ih =>
    intro es r h
    simp only [mergeIns] at h
    split at h
    · simp at h
    · split at h
      · simp at h
      · rename_i r' hr
        simp at h; subst h
        simp [ih _ _ hr]

theorem mergeOuts_length (ko : KeyOps) (cm : Nat) :
    ∀ (l : List OutScope) (es : List Bytes) (r : List OutScope), mergeOuts ko cm l es = some r → r.length = l.length := by
  intro l
  induction l with
  | nil => intro es r h; simp [mergeOuts] at h; subst h; rfl
  | cons s ss ih =>
    intro es r h
    simp only [mergeOuts] at h
    split at h
    · simp at h
    · split at h
      · simp at h
      · rename_i r' hr
        simp at h; subst h
        simp [ih _ _ hr]

/-- the global scope the view copies verbatim -/
theorem ViewOf.globalBytes {ko : KeyOps} {sha : Bytes → Bytes} {c : Nat} {pre post b : Bytes} {p : Psbt} {v : View}
    (vo : ViewOf ko sha c pre post b p v) :
    readAt (pre ++ (b ++ post)) v.offset (v.firstScope - v.offset) = psbtMagic ++ writeKVs (globalKVs b) := by
  rw [vo.offset, vo.firstScope]
  have hn : pre.length + (5 + (writeKVs (globalKVs b)).length) - pre.length = 5 + (writeKVs (globalKVs b)).length := by
    omega
  rw [hn, readAt, drop_pre _ _ _ rfl]
  have hle : 5 + (writeKVs (globalKVs b)).length ≤ b.length := by
    have := congrArg List.length vo.global
    simp only [List.length_take, List.length_append] at this
    have h5 : psbtMagic.length = 5 := rfl
    omega
  rw [List.take_append_of_le_length hle]
  exact vo.global

/-- `PSBTView.write_to` over a view that presents the parsed PSBT `p`: the original global scope, then the scopes
    of `p` merged with the extra streams and compressed in memory — or a refusal exactly when the in-memory
    procedure refuses -/
theorem ViewOf.writeToL {ko : KeyOps} {sha : Bytes → Bytes} {c : Nat} {pre post b : Bytes} {p : Psbt} {v : View}
    (vo : ViewOf ko sha c pre post b p v) (cm : Nat) (ei eo : List Bytes) :
    View.writeToL ko sha (pre ++ (b ++ post)) v c cm ei eo
      = (Psbt.mergeExtra ko sha cm ei eo p).map fun p' => psbtMagic ++ writeKVs (globalKVs b) ++ p'.scopeBytes := by
  unfold View.writeToL
  simp only []
  rw [vo.globalBytes, vo.numIn, vo.numOut,
    writeToL_ins_spec ko sha _ v c cm p.inputs vo.input p.inputs.length 0 ei (by omega),
    writeToL_outs_spec ko _ v cm p.outputs vo.output p.outputs.length 0 eo (by omega)]
  simp only [List.drop_zero, Psbt.mergeExtra, vo.version]
  cases mergeIns ko sha cm p.inputs ei with
  | none => rfl
  | some li =>
    cases mergeOuts ko cm p.outputs eo with
    | none => rfl
    | some lo => simp [Psbt.scopeBytes, List.append_assoc]

end Embit
