import EmbitModel.Proofs.Bech32Detect
import EmbitModel.Proofs.Bech32Codec
/-
  Error detection lifted from symbol words to bech32 strings.
-/
namespace Embit.Model.Bech32.Detect
open Embit Gf2

/-- number of positions at which two strings differ (compared up to the shorter length) -/
def charHamming : List Char → List Char → Nat
  | a :: as, b :: bs => (if a = b then 0 else 1) + charHamming as bs
  | _, _ => 0

theorem charHamming_map (f : Char → Char) (a b : List Char) :
    charHamming (a.map f) (b.map f) ≤ charHamming a b := by
  induction a generalizing b with
  | nil => simp [charHamming]
  | cons x xs ih =>
    cases b with
    | nil => simp [charHamming]
    | cons y ys =>
      simp only [List.map_cons, charHamming]
      have := ih ys
      by_cases e : x = y
      · simp [e]; exact this
      · by_cases e2 : f x = f y <;> simp [e, e2] <;> omega

theorem charHamming_prefix (p a b : List Char) : charHamming (p ++ a) (p ++ b) = charHamming a b := by
  induction p with
  | nil => rfl
  | cons x xs ih => simp [charHamming, ih]

theorem chr_inj (a b : Nat) (ha : a < 32) (hb : b < 32) (h : chr a = chr b) : a = b := by
  have h1 := (chr_props a ha).1
  have h2 := (chr_props b hb).1
  rw [h] at h1
  rw [h1] at h2
  exact Option.some.inj h2

theorem hamming_le_chars (u v : List Nat) (hu : ∀ x ∈ u, x < 32) (hv : ∀ x ∈ v, x < 32) :
    hamming u v ≤ charHamming (u.map chr) (v.map chr) := by
  unfold hamming
  induction u generalizing v with
  | nil => simp [xorW, weight]
  | cons x xs ih =>
    cases v with
    | nil => simp [xorW, weight]
    | cons y ys =>
      simp only [xorW, weight, List.map_cons, charHamming]
      have := ih ys (fun z hz => hu z (by simp [hz])) (fun z hz => hv z (by simp [hz]))
      by_cases e : x = y
      · subst e; simp; exact this
      · have hne : chr x ≠ chr y := fun h => e (chr_inj x y (hu x (by simp)) (hv y (by simp)) h)
        have hx : x ^^^ y ≠ 0 := fun h => e (xor_eq_zero h)
        simp [hne, hx]; omega

/-- two strings of the same length that `bech32_decode` accepts with the same checksum variant and the same
    human-readable part, and that differ in at most four characters, are the same string up to case -/
theorem detect_strings (hchk : topCheck 3 (table 89) = true) (s s' : List Char) (e : Encoding) (h : List Char)
    (d d' : List Nat) (hd : bech32Decode s = some (e, h, d)) (hd' : bech32Decode s' = some (e, h, d'))
    (hlen : s.length = s'.length) (hham : charHamming s s' ≤ 4) : lower s = lower s' := by
  obtain ⟨vals, h1, h2, _, h4, _, h6, h7⟩ := bech32Decode_some s e h d hd
  obtain ⟨vals', h1', h2', _, h4', _, _, _⟩ := bech32Decode_some s' e h d' hd'
  have hl : (lower s).length = (lower s').length := by simp [lower, hlen]
  have hvl : vals.length = vals'.length := by
    rw [h1, h1'] at hl; simpa using hl
  have hW : vals.length ≤ 89 := by
    have : (lower s).length = s.length := by simp [lower]
    rw [h1] at this; simp at this; omega
  have hc : charHamming (vals.map chr) (vals'.map chr) ≤ 4 := by
    have a1 := charHamming_map Char.toLower s s'
    have a2 : charHamming (lower s) (lower s') = charHamming (vals.map chr) (vals'.map chr) := by
      rw [h1, h1']
      have := charHamming_prefix (h ++ ['1']) (vals.map chr) (vals'.map chr)
      simpa using this
    unfold lower at a2
    omega
  have hh : hamming vals vals' ≤ 4 := Nat.le_trans (hamming_le_chars vals vals' h2 h2') hc
  rw [verifyChecksum_eq_some] at h4 h4'
  have := detect_words 89 hchk 1 (hrpExpand h) [] vals vals' hvl hW h2 h2' hh
    (by simp only [List.append_nil]; unfold polymod at h4 h4'; rw [h4, h4'])
  rw [h1, h1', this]

end Embit.Model.Bech32.Detect
