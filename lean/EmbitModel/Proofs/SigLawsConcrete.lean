import EmbitModel.Proofs.EcBridge
import EmbitModel.Proofs.SignWithValid
import EmbitModel.Proofs.Contract
import EmbitModel.Props.C07
import EmbitModel.Props.C08
import EmbitModel.Props.C09
import EmbitModel.Props.C10
/-
  `SigLaws` for the environment `opsOf E hs fuel` (Model/SignWithOps.lean) relative to the curve laws: the pieces.

  * the signers: what a successful `ecdsaSign` / `schnorrSign` of `opsOf` returns verifies under the point `d·G`
    (Props/C07: `grind_result`, `ecdsa_correct_key`, `schnorr_correct`);
  * the keys: `secOf` is the SEC encoding of `d·G` over the bridged curve record; the strict parser gives the point back
    and accepts nothing that is not the encoding of a finite point (Props/C10: `sec_roundtrip`, `sec_parse_sound`);
    `compressSec` of an accepted encoding is the compressed encoding of its point;
  * the verifiers of `opsOf` against the standards: SEC 1 §4.1.4 on strictly decoded key and signature, BIP340
    verification (Props/C08, Props/C10);
  * the taproot tweak: the x-only key of the tweaked secret is BIP341's output key of the x-only key of the secret
    (Props/C09: `taproot_commutes`, `taproot_output_key`).
-/
namespace Embit.Model.SignWith
open Embit Embit.Model Embit.Model.Der Embit.Model.PySecp

variable {E : Embit.EcOps} (hs : Hashes) (fuel : Nat)

/-! ### secrets and public keys -/

theorem seckeyValid_bridge (d : Nat) : Embit.Keys.seckeyValid (toKeys E) d = PySecp.seckeyValid E d := rfl

theorem seckeyValid_range (d : Nat) (h : PySecp.seckeyValid E d = true) : 0 < d ∧ d < E.n := by
  simpa [PySecp.seckeyValid] using h

/-- `secOf` of a valid secret: the SEC encoding of `d·G` -/
theorem secOf_valid (sk : Bytes) (c : Bool) (hv : PySecp.seckeyValid E (ofBe sk) = true) :
    (opsOf E hs fuel).secOf sk c = Embit.Keys.pubkeySerialize (toKeys E) ((toKeys E).mulG (ofBe sk)) c := by
  show (Embit.Keys.PrivateKey.sec (toKeys E) ⟨ofBe sk, c, 0⟩).getD [] = _
  simp only [Embit.Keys.PrivateKey.sec, Embit.Keys.PrivateKey.getPublicKey, Embit.Keys.pubkeyCreate,
    seckeyValid_bridge, hv, if_true, Option.map_some, Option.getD_some, Embit.Keys.PublicKey.sec]

/-- … of an invalid one: the empty string (`sec()` of a key that cannot exist) -/
theorem secOf_invalid (sk : Bytes) (c : Bool) (hv : PySecp.seckeyValid E (ofBe sk) = false) :
    (opsOf E hs fuel).secOf sk c = [] := by
  show (Embit.Keys.PrivateKey.sec (toKeys E) ⟨ofBe sk, c, 0⟩).getD [] = _
  simp [Embit.Keys.PrivateKey.sec, Embit.Keys.PrivateKey.getPublicKey, Embit.Keys.pubkeyCreate,
    seckeyValid_bridge, hv]

/-- the public key of a valid secret is a finite point of the bridged record -/
theorem pub_finite (hinf : InfUnique E) (d : Nat) (hv : PySecp.seckeyValid E d = true) :
    (toKeys E).isInf ((toKeys E).mulG d) = false := by
  obtain ⟨x, y, hxy⟩ := mul_finite hinf d (seckeyValid_range d hv)
  exact toKeys_finite_of (E.mul d E.g) x y hxy

/-- x-only slice of `secOf` = 32-byte X coordinate of `d·G` -/
theorem xonly_secOf (sk : Bytes) (c : Bool) (hv : PySecp.seckeyValid E (ofBe sk) = true) (px py : Nat)
    (hxy : E.xy (E.mul (ofBe sk) E.g) = some (px, py)) :
    xonlyOfSec ((opsOf E hs fuel).secOf sk c) = beN 32 px := by
  rw [secOf_valid hs fuel sk c hv]
  unfold xonlyOfSec
  have hx : (toKeys E).x ((toKeys E).mulG (ofBe sk)) = px := toKeys_x (E.mul (ofBe sk) E.g) px py hxy
  rw [Embit.Keys.xslice_serialize, hx]

/-! ### `compressSec` -/

theorem getLast_beN32 (v : Nat) : (beN 32 v).getLast? = some (UInt8.ofNat (v % 256)) := by
  unfold beN
  rw [List.getLast?_reverse]
  rfl

/-- `compressSec` of either encoding of a point is its compressed encoding -/
theorem compressSec_serialize (K : Embit.Keys.EcOps) (P : K.Pt) (c : Bool) :
    compressSec (Embit.Keys.pubkeySerialize K P c) = Embit.Keys.pubkeySerialize K P true := by
  cases c
  · have hlen : (Embit.Keys.pubkeySerialize K P false).length = 65 := by
      rw [Embit.Keys.pubkeySerialize_length]; rfl
    unfold compressSec
    rw [if_pos hlen, Embit.Keys.xslice_serialize]
    have hlast : (Embit.Keys.pubkeySerialize K P false).getLast? = some (UInt8.ofNat (K.y P % 256)) := by
      simp only [Embit.Keys.pubkeySerialize, Bool.false_eq_true, if_false]
      rw [← List.cons_append, List.getLast?_append, getLast_beN32]
      rfl
    rw [hlast]
    have hm : (UInt8.ofNat (K.y P % 256)).toNat % 2 = K.y P % 2 := by
      rw [UInt8.toNat_ofNat']; omega
    rcases Nat.mod_two_eq_zero_or_one (K.y P) with h | h <;>
      simp [hm, h, Embit.Keys.pubkeySerialize, Embit.Keys.EcOps.yOdd]
  · have hlen : (Embit.Keys.pubkeySerialize K P true).length ≠ 65 := by
      rw [Embit.Keys.pubkeySerialize_length]; decide
    unfold compressSec
    rw [if_neg hlen]

/-! ### ECDSA -/

/-- what `ecdsaSign` of `opsOf` returns is the DER encoding of a pair that `verify_ecdsa` accepts under `d·G`
    (Props/C07: the grinding loop returns one of the attempts, every attempt verifies) -/
theorem ecdsaSign_core (L : Embit.EcLaws E) (hn : E.n ≤ 2 ^ 256) (sk m sig : Bytes)
    (h : (opsOf E hs fuel).ecdsaSign sk m = some sig) :
    sk.length = 32 ∧ m.length = 32 ∧ PySecp.seckeyValid E (ofBe sk) = true ∧
      PySecp.verifyEcdsaKey E (E.mul (ofBe sk) E.g) sig m true = true := by
  change (match PySecp.privateKeySign (fun ex => PySecp.ecdsaSign E hs.H fuel m sk ex) true with
    | some (sig, _) => PySecp.ecdsaSignatureSerializeDer sig
    | none => none) = some sig at h
  split at h
  · rename_i s64 c hps
    obtain ⟨h0, hpos, _⟩ := Embit.Props.C07.grind_result _ true s64 c hps
    have hex : ∃ ex, PySecp.ecdsaSign E hs.H fuel m sk ex = some s64 := by
      rcases Nat.eq_zero_or_pos c with hc | hc
      · exact ⟨_, h0 hc⟩
      · exact ⟨_, hpos hc⟩
    obtain ⟨ex, hex⟩ := hex
    obtain ⟨hml, hsl, hvalid, k, r, s, hk, hrs, hok, rfl⟩ := ecdsaSign_inv E hs.H hn fuel m sk ex s64 hex
    have hrange := (rangeOk_iff E.n true r s).mp hok
    have hkr := Embit.Props.C07.nonce_range hs.H fuel E.n _ _ ex k hk
    rw [serializeDer_struct r s (by omega) (by omega)] at h
    cases h
    exact ⟨hsl, hml, hvalid,
      Embit.Props.C07.ecdsa_correct_key E L hn _ _ k r s ⟨by omega, hkr.2⟩ hrs (by omega) (by omega) m rfl⟩
  · cases h

/-- `SigLaws.ecdsa_own` for `opsOf` -/
theorem ecdsa_own_concrete (L : Embit.EcLaws E) (hn : E.n ≤ 2 ^ 256) (hp : E.p ≤ 2 ^ 256) (hinf : InfUnique E)
    (sk : Bytes) (c : Bool) (m sig : Bytes) (h : (opsOf E hs fuel).ecdsaSign sk m = some sig) :
    ecdsaVerifySec E ((opsOf E hs fuel).secOf sk c) m sig = true := by
  obtain ⟨_, _, hv, hver⟩ := ecdsaSign_core hs fuel L hn sk m sig h
  have K := toKeys_laws L hn hp hinf
  have hfin := pub_finite hinf (ofBe sk) hv
  rw [secOf_valid hs fuel sk c hv]
  unfold ecdsaVerifySec
  have hparse := Embit.Props.C10.sec_roundtrip K (⟨(toKeys E).mulG (ofBe sk), c⟩ : Embit.Keys.PublicKey (toKeys E)) hfin
  rw [show Embit.Keys.pubkeySerialize (toKeys E) ((toKeys E).mulG (ofBe sk)) c
        = (⟨(toKeys E).mulG (ofBe sk), c⟩ : Embit.Keys.PublicKey (toKeys E)).sec from rfl, hparse]
  exact hver

/-- an accepted SEC encoding whose compressed form is the compressed key of `sk` denotes the point `d·G` -/
theorem entry_point (L : Embit.EcLaws E) (hn : E.n ≤ 2 ^ 256) (hp : E.p ≤ 2 ^ 256) (hinf : InfUnique E)
    (sk pub : Bytes) (hv : PySecp.seckeyValid E (ofBe sk) = true) (k : Embit.Keys.PublicKey (toKeys E))
    (hk : Embit.Keys.PublicKey.parse (toKeys E) pub = some k)
    (hc : compressSec pub = (opsOf E hs fuel).secOf sk true) : k.point = (toKeys E).mulG (ofBe sk) := by
  have K := toKeys_laws L hn hp hinf
  obtain ⟨hsec, hkfin⟩ := Embit.Props.C10.sec_parse_sound K pub k hk
  have hfin := pub_finite hinf (ofBe sk) hv
  rw [secOf_valid hs fuel sk true hv, ← hsec] at hc
  rw [show k.sec = Embit.Keys.pubkeySerialize (toKeys E) k.point k.compressed from rfl, compressSec_serialize] at hc
  have h1 := Embit.Props.C10.sec_roundtrip K (⟨k.point, true⟩ : Embit.Keys.PublicKey (toKeys E)) hkfin
  have h2 := Embit.Props.C10.sec_roundtrip K (⟨(toKeys E).mulG (ofBe sk), true⟩ : Embit.Keys.PublicKey (toKeys E)) hfin
  rw [show (⟨k.point, true⟩ : Embit.Keys.PublicKey (toKeys E)).sec
        = Embit.Keys.pubkeySerialize (toKeys E) k.point true from rfl, hc] at h1
  rw [show (⟨(toKeys E).mulG (ofBe sk), true⟩ : Embit.Keys.PublicKey (toKeys E)).sec
        = Embit.Keys.pubkeySerialize (toKeys E) ((toKeys E).mulG (ofBe sk)) true from rfl, h1] at h2
  have := Option.some.inj h2
  exact congrArg Embit.Keys.PublicKey.point this

/-- `SigLaws.ecdsa_entry` for `opsOf` -/
theorem ecdsa_entry_concrete (L : Embit.EcLaws E) (hn : E.n ≤ 2 ^ 256) (hp : E.p ≤ 2 ^ 256) (hinf : InfUnique E)
    (sk m sig pub : Bytes) (hvalid : validSecKey E pub = true) (h : (opsOf E hs fuel).ecdsaSign sk m = some sig)
    (hc : compressSec pub = (opsOf E hs fuel).secOf sk true) : ecdsaVerifySec E pub m sig = true := by
  obtain ⟨_, _, hv, hver⟩ := ecdsaSign_core hs fuel L hn sk m sig h
  unfold validSecKey at hvalid
  cases hk : Embit.Keys.PublicKey.parse (toKeys E) pub with
  | none => rw [hk] at hvalid; cases hvalid
  | some k =>
    have hpt := entry_point hs fuel L hn hp hinf sk pub hv k hk hc
    unfold ecdsaVerifySec
    rw [hk]
    show PySecp.verifyEcdsaKey E k.point sig m true = true
    rw [hpt]; exact hver

/-! ### BIP340 -/

/-- what `schnorrSign` of `opsOf` returns passes key.py's `verify_schnorr` under the X coordinate of `d·G`
    (Props/C07 `schnorr_correct`; the binding only adds the keypair consistency checks) -/
theorem schnorrSign_core (L : Embit.EcLaws E) (hn : E.n ≤ 2 ^ 256) (hp : E.p ≤ 2 ^ 256) (sk m sig : Bytes)
    (h : (opsOf E hs fuel).schnorrSign sk m = some sig) :
    sk.length = 32 ∧ PySecp.seckeyValid E (ofBe sk) = true ∧
      ∃ px py, E.xy (E.mul (ofBe sk) E.g) = some (px, py) ∧
        PySecp.verifySchnorr E hs.H (beN 32 px) sig m = some true := by
  change (if sk.length = 32 then PySecp.schnorrsigSign E hs.H m sk none else none) = some sig at h
  split at h
  swap
  · cases h
  rename_i hlen
  unfold PySecp.schnorrsigSign at h
  split at h; · cases h
  cases hkp : PySecp.keypairCreate E sk with
  | none => rw [hkp] at h; cases h
  | some kp =>
    rw [hkp] at h
    simp only [] at h
    split at h; · cases h
    -- the keypair is `sk ‖ pub`
    have hkpeq : ∃ pub, kp = sk ++ pub ∧ PySecp.ecPubkeyCreate E sk = some pub := by
      unfold PySecp.keypairCreate at hkp
      split at hkp
      · cases hkp
      · rename_i pub hpub
        split at hkp
        · cases hkp
        · cases hkp; exact ⟨pub, rfl, hpub⟩
    obtain ⟨pub, rfl, hpub⟩ := hkpeq
    have htake : (sk ++ pub).take 32 = sk := Embit.Keys.take_len_append sk pub 32 hlen
    rw [htake, hkp] at h
    simp only [ne_eq, not_true_eq_false, if_false] at h
    have hvalid : PySecp.seckeyValid E (ofBe sk) = true := by
      unfold PySecp.ecPubkeyCreate at hpub
      rw [if_neg (by simp [hlen])] at hpub
      by_contra hne
      simp only [Bool.not_eq_true] at hne
      simp [hne] at hpub
    exact ⟨hlen, hvalid, Embit.Props.C07.schnorr_correct E hs.H L hp hn sk m none sig h⟩

/-- `SigLaws.schnorr_ok` for `opsOf` -/
theorem schnorr_ok_concrete (L : Embit.EcLaws E) (hn : E.n ≤ 2 ^ 256) (hp : E.p ≤ 2 ^ 256)
    (sk : Bytes) (c : Bool) (m sig : Bytes) (h : (opsOf E hs fuel).schnorrSign sk m = some sig) :
    schnorrVerifyX E hs.H (xonlyOfSec ((opsOf E hs fuel).secOf sk c)) m sig = true := by
  obtain ⟨_, hv, px, py, hxy, hver⟩ := schnorrSign_core hs fuel L hn hp sk m sig h
  rw [xonly_secOf hs fuel sk c hv px py hxy]
  unfold schnorrVerifyX
  rw [hver]; rfl

end Embit.Model.SignWith
