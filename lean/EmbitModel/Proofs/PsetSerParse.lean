import EmbitModel.Proofs.PsetEmit
import EmbitModel.Proofs.PsbtSerParse
import EmbitModel.Proofs.PsbtParseWFScope
/-
  C18 (deepening): serialise-then-parse of PSET scopes and of whole version-2 PSET objects.
  `LInScope.addPairs` over the pairs `LInputScope.write_to` emits (from the seed `read_from` starts with) gives the
  scope back — up to the ORDER of the liquid-field table `lf`, which the model keeps in reading order while Python
  keeps the fields as attributes (no order): `norm` puts the table into the order `write_to` uses.
  The bitcoin part of a scope is delegated to the C04X lemmas through `addPairs_base` (a key that is neither a
  utxo key nor a liquid key is handled by the bitcoin `read_value`).
-/
set_option linter.unusedSimpArgs false
set_option linter.unusedVariables false
namespace Embit
open Model Spec.LWire

/-! ### well-formed scopes -/

/-- the bitcoin part of a scope without its unknown keys -/
def Model.InScope.typed (b : InScope) : InScope := { b with unknown := [] }
def Model.OutScope.typed (b : OutScope) : OutScope := { b with unknown := [] }

/-- well-formed Liquid input scope: what `LInputScope.read_from` (KEEP_ALL) can return. The utxos live in the Liquid
    fields (`TX_CLS = LTransaction`), every typed bitcoin key is free of the two proprietary tags (Python's substring
    test would send it to the liquid branch otherwise), unknown keys are bitcoin-unknown or liquid-unknown. -/
structure LInWF (ko : KeyOps) (s : LInScope) : Prop where
  baseNwu : s.base.nonWitnessUtxo = none
  baseWu : s.base.witnessUtxo = none
  typed : InWF ko s.base.typed
  typedNL : ∀ kv ∈ s.base.typed.pairs (some 2), isLiquidKey kv.1 = false
  unknown : ∀ kv ∈ s.base.unknown, KVWF kv ∧
    ((isLiquidKey kv.1 = false ∧ unkKeyIn kv.1 = true) ∨ (isLiquidKey kv.1 = true ∧ LInField.ofKey kv.1 = none))
  unknownNodup : (s.base.unknown.map Prod.fst).Nodup
  nwu : OptP (fun t => WF t ∧ Fits (LTx.ser t)) s.nonWitnessUtxo
  wu : OptP (fun o => WFOut o ∧ o.witness = {} ∧ Fits (LTxOut.ser o)) s.witnessUtxo
  lf : ∀ e ∈ s.lf, lenOK e.1.len e.2 = true ∧ Fits e.2
  /-- (since fix `d53`) the scope keeps no peg-in flag / issuance of a global transaction beside its fields -/
  txparts : s.isPegin = false ∧ s.txIssuance = none
  /-- (since fix `c18-kf1`) a commitment field of the scope starts with 08 / 09 (`_set_commitment`) -/
  lfPfx : ∀ e ∈ s.lf, e.1.pfxOK e.2 = true

/-- the liquid table in the order `write_to` uses -/
def Model.LInScope.normLf (lf : List (LInField × Bytes)) : List (LInField × Bytes) :=
  LInField.order.filterMap (fun f => (lget lf f).map (fun v => (f, v)))

def Model.LInScope.norm (s : LInScope) : LInScope := { s with lf := LInScope.normLf s.lf }

/-- the scope `read_from` starts with -/
def Model.LInScope.seedOf (version : Option Nat) (s : LInScope) : LInScope :=
  if version = some 2 then {} else { base := { txid := s.base.txid, vout := s.base.vout, sequence := s.base.sequence } }

/-! ### folding in sequence -/

theorem LInScope.addPairs_append (ko : KeyOps) : ∀ (a b : List KV) (s : LInScope),
    LInScope.addPairs ko s (a ++ b) = (LInScope.addPairs ko s a).bind (fun s' => LInScope.addPairs ko s' b) := by
  intro a
  induction a with
  | nil => intro b s; simp [LInScope.addPairs]
  | cons kv a ih =>
    intro b s
    obtain ⟨k, v⟩ := kv
    simp only [List.cons_append, LInScope.addPairs]
    cases LInScope.addPair ko s k v with
    | none => rfl
    | some s1 => exact ih b s1

theorem LInScope.bind_step {ko : KeyOps} {s s' : LInScope} {a b : List KV} {r : Option LInScope}
    (h1 : LInScope.addPairs ko s a = some s') (h2 : LInScope.addPairs ko s' b = r) :
    LInScope.addPairs ko s (a ++ b) = r := by
  rw [LInScope.addPairs_append, h1]; exact h2

/-! ### the steps -/

theorem LTx.parse_ser (t : LTx) (h : WF t) : LTx.parse (LTx.ser t) = some t := by
  have := LTx.read_ser t [] h
  simp only [List.append_nil] at this
  simp [LTx.parse, parseAll, this]

theorem LTxOut.parse_ser (o : LTxOut) (h : WFOut o) (hw : o.witness = {}) : LTxOut.parse (LTxOut.ser o) = some o := by
  have := LTxOut.read_ser o [] h
  simp only [List.append_nil] at this
  have e : ({ o with witness := {} } : LTxOut) = o := by cases o; simp at hw; simp [hw]
  simp [LTxOut.parse, parseAll, this, e]

theorem lin_step_nwu (ko : KeyOps) (s : LInScope) (o : Option LTx) (hs : s.nonWitnessUtxo = none)
    (ho : OptP (fun t => WF t ∧ Fits (LTx.ser t)) o) :
    LInScope.addPairs ko s (optKV [0x00] (o.map LTx.ser)) = some { s with nonWitnessUtxo := o } := by
  cases o with
  | none => cases s; simp at hs; subst hs; rfl
  | some t =>
    have := LTx.parse_ser t ho.1
    have hl : isLiquidKey [0x00] = false := by decide
    simp [optKV, LInScope.addPairs, LInScope.addPair, hs, this, hl]

theorem lin_step_wu (ko : KeyOps) (s : LInScope) (o : Option LTxOut) (hs : s.witnessUtxo = none)
    (ho : OptP (fun o => WFOut o ∧ o.witness = {} ∧ Fits (LTxOut.ser o)) o) :
    LInScope.addPairs ko s (optKV [0x01] (o.map LTxOut.ser)) = some { s with witnessUtxo := o } := by
  cases o with
  | none => cases s; simp at hs; subst hs; rfl
  | some t =>
    have := LTxOut.parse_ser t ho.1 ho.2.1
    have hl : isLiquidKey [0x01] = false := by decide
    simp [optKV, LInScope.addPairs, LInScope.addPair, hs, this, hl]

/-- keys that the Liquid scope hands to the bitcoin `read_value` -/
def baseKey (k : Bytes) : Bool :=
  !isLiquidKey k && (match k with | [] => false | k0 :: _ => k0 != 0x00 && k0 != 0x01)

theorem LInScope.addPair_base (ko : KeyOps) (s : LInScope) (k v : Bytes) (hk : baseKey k = true) :
    LInScope.addPair ko s k v
      = (InScope.addPair ko (fun _ => []) 0 s.base k v).map (fun b => { s with base := b }) := by
  unfold baseKey at hk
  simp only [Bool.and_eq_true, Bool.not_eq_true'] at hk
  obtain ⟨hl, hk0⟩ := hk
  cases k with
  | nil => simp at hk0
  | cons k0 kr =>
    simp only [Bool.and_eq_true, bne_iff_ne, ne_eq] at hk0
    simp only [LInScope.addPair, hl, Bool.not_false, if_true, hk0.1, hk0.2, if_false]
    cases InScope.addPair ko (fun _ => []) 0 s.base (k0 :: kr) v <;> rfl

theorem LInScope.addPairs_base (ko : KeyOps) : ∀ (kvs : List KV) (s : LInScope), (∀ kv ∈ kvs, baseKey kv.1 = true) →
    LInScope.addPairs ko s kvs
      = (InScope.addPairs ko (fun _ => []) 0 s.base kvs).map (fun b => { s with base := b }) := by
  intro kvs
  induction kvs with
  | nil => intro s _; simp [LInScope.addPairs, InScope.addPairs]
  | cons kv kvs ih =>
    intro s h
    obtain ⟨k, v⟩ := kv
    simp only [LInScope.addPairs, InScope.addPairs, LInScope.addPair_base ko s k v (h (k, v) (by simp))]
    cases hb : InScope.addPair ko (fun _ => []) 0 s.base k v with
    | none => rfl
    | some b =>
      simp only [Option.map_some]
      rw [ih { s with base := b } (fun x hx => h x (by simp [hx]))]

theorem unkKeyIn_baseKey (k : Bytes) (hl : isLiquidKey k = false) (hu : unkKeyIn k = true) : baseKey k = true := by
  cases k with
  | nil => simp [unkKeyIn] at hu
  | cons k0 kr =>
    simp only [unkKeyIn, typedIn, Bool.and_eq_true, Bool.not_eq_true', Bool.or_eq_false_iff, beq_eq_false_iff_ne,
      ne_eq] at hu
    simp only [baseKey, hl, Bool.not_false, Bool.true_and, Bool.and_eq_true, bne_iff_ne, ne_eq]
    obtain ⟨ht, _⟩ := hu
    simp_all

theorem LInScope.addPair_unknown (ko : KeyOps) (s : LInScope) (k v : Bytes)
    (hcls : (isLiquidKey k = false ∧ unkKeyIn k = true) ∨ (isLiquidKey k = true ∧ LInField.ofKey k = none))
    (hl : lookup k s.base.unknown = none) :
    LInScope.addPair ko s k v = some { s with base := { s.base with unknown := s.base.unknown ++ [(k, v)] } } := by
  rcases hcls with ⟨hliq, hu⟩ | ⟨hliq, hof⟩
  · rw [LInScope.addPair_base ko s k v (unkKeyIn_baseKey k hliq hu),
      InScope.addPair_unknown ko (fun _ => []) s.base k v hu hl]
    rfl
  · simp [LInScope.addPair, hliq, hof, hl]

theorem lin_step_unknown (ko : KeyOps) : ∀ (l : List KV) (s : LInScope),
    (∀ kv ∈ l, (isLiquidKey kv.1 = false ∧ unkKeyIn kv.1 = true) ∨ (isLiquidKey kv.1 = true ∧ LInField.ofKey kv.1 = none)) →
    ((s.base.unknown ++ l).map Prod.fst).Nodup →
    LInScope.addPairs ko s l = some { s with base := { s.base with unknown := s.base.unknown ++ l } } := by
  intro l
  induction l with
  | nil => intro s _ _; simp [LInScope.addPairs]
  | cons e l ih =>
    intro s hv hn
    obtain ⟨k, v⟩ := e
    obtain ⟨hp, hn'⟩ := nodup_snoc_split _ _ _ _ hn
    have h1 := LInScope.addPair_unknown ko s k v (hv (k, v) (by simp)) hp
    simp only [LInScope.addPairs, h1]
    rw [ih _ (fun x hx => hv x (by simp [hx])) hn']
    simp [List.append_assoc]

theorem lget_mem {φ : Type} [DecidableEq φ] : ∀ (l : List (φ × Bytes)) (f : φ) (v : Bytes), lget l f = some v → (f, v) ∈ l := by
  intro l
  induction l with
  | nil => intro f v h; simp [lget] at h
  | cons x xs ih =>
    intro f v h
    obtain ⟨g, w⟩ := x
    simp only [lget] at h
    split at h
    · rename_i e; simp at h; subst h; subst e; simp
    · exact List.mem_cons_of_mem _ (ih f v h)

theorem LInField.key_liquid (f : LInField) : isLiquidKey f.key = true := by cases f <;> decide
theorem LInField.ofKey_key (f : LInField) : LInField.ofKey f.key = some f := by cases f <;> decide

/-- the liquid fields, in the order `write_to` emits them, re-enter the table in that order -/
theorem lin_step_lf (ko : KeyOps) (src : List (LInField × Bytes)) (hsrc : ∀ e ∈ src, lenOK e.1.len e.2 = true)
    (hpfx : ∀ e ∈ src, e.1.pfxOK e.2 = true) :
    ∀ (l : List LInField), l.Nodup → ∀ (s : LInScope), (∀ f ∈ l, lget s.lf f = none) →
    LInScope.addPairs ko s (l.filterMap (fun f => (lget src f).map (fun v => (f.key, v))))
      = some { s with lf := s.lf ++ l.filterMap (fun f => (lget src f).map (fun v => (f, v))) } := by
  intro l
  induction l with
  | nil => intro _ s _; simp [LInScope.addPairs]
  | cons f r ih =>
    intro hnd s hdis
    simp only [List.nodup_cons] at hnd
    cases hv : lget src f with
    | none =>
      simp only [List.filterMap_cons, hv, Option.map_none]
      exact ih hnd.2 s (fun g hg => hdis g (by simp [hg]))
    | some v =>
      simp only [List.filterMap_cons, hv, Option.map_some]
      have hlen := hsrc (f, v) (lget_mem src f v hv)
      have hpf := hpfx (f, v) (lget_mem src f v hv)
      have hn : lget s.lf f = none := hdis f (by simp)
      have h1 : LInScope.addPair ko s f.key v = some { s with lf := s.lf ++ [(f, v)] } := by
        simp [LInScope.addPair, LInField.key_liquid, LInField.ofKey_key, hn, hlen, hpf]
      simp only [LInScope.addPairs, h1]
      rw [ih hnd.2 { s with lf := s.lf ++ [(f, v)] } (fun g hg => by
        have hne : g ≠ f := fun e => hnd.1 (e ▸ hg)
        simp only []
        rw [lget_append_ne _ _ _ _ (fun e => hne e.symm)]
        exact hdis g (by simp [hg]))]
      simp [List.append_assoc]

/-! ### the bitcoin part -/

theorem optKV_mem {k : Bytes} {o : Option Bytes} {kv : KV} (h : kv ∈ optKV k o) : kv.1 = k := by
  cases o with
  | none => simp [optKV] at h
  | some v => simp [optKV] at h; rw [h]

theorem InScope.pairs_sub_v2 (s : InScope) (ver : Option Nat) : ∀ kv ∈ s.pairs ver, kv ∈ s.pairs (some 2) := by
  intro kv hkv
  by_cases hv : ver = some 2
  · rw [hv] at hkv; exact hkv
  · rw [InScope.pairs_eq] at hkv ⊢
    simp only [hv, if_false, List.append_nil, if_true, List.mem_append] at hkv ⊢
    grind

/-- without utxos, every key `write_to` emits for the typed bitcoin fields starts with a byte other than 00 / 01 -/
theorem InScope.typed_pairs_head (b : InScope) (hn : b.nonWitnessUtxo = none) (hw : b.witnessUtxo = none)
    (ver : Option Nat) : ∀ kv ∈ b.typed.pairs ver, ∃ k0 kr, kv.1 = k0 :: kr ∧ k0 ≠ 0x00 ∧ k0 ≠ 0x01 := by
  intro kv hkv
  rw [InScope.pairs_eq] at hkv
  simp only [InScope.typed, hn, hw, Option.map_none, List.mem_append] at hkv
  rcases hkv with (((((((((((((((h | h) | h) | h) | h) | h) | h) | h) | h) | h) | h) | h) | h) | h) | h) | h)
  · simp [optKV] at h
  · simp [optKV] at h
  · obtain ⟨e, _, rfl⟩ := List.mem_map.mp h; exact ⟨_, _, rfl, by decide, by decide⟩
  · exact ⟨_, _, optKV_mem h, by decide, by decide⟩
  · exact ⟨_, _, optKV_mem h, by decide, by decide⟩
  · exact ⟨_, _, optKV_mem h, by decide, by decide⟩
  · obtain ⟨e, _, rfl⟩ := List.mem_map.mp h; exact ⟨_, _, rfl, by decide, by decide⟩
  · exact ⟨_, _, optKV_mem h, by decide, by decide⟩
  · exact ⟨_, _, optKV_mem h, by decide, by decide⟩
  · split at h
    · simp only [List.mem_append] at h
      rcases h with (h | h) | h
      · exact ⟨_, _, optKV_mem h, by decide, by decide⟩
      · exact ⟨_, _, optKV_mem h, by decide, by decide⟩
      · exact ⟨_, _, optKV_mem h, by decide, by decide⟩
    · simp at h
  · obtain ⟨e, _, rfl⟩ := List.mem_map.mp h; exact ⟨_, _, rfl, by decide, by decide⟩
  · obtain ⟨e, _, rfl⟩ := List.mem_map.mp h; exact ⟨_, _, rfl, by decide, by decide⟩
  · obtain ⟨e, _, rfl⟩ := List.mem_map.mp h; exact ⟨_, _, rfl, by decide, by decide⟩
  · exact ⟨_, _, optKV_mem h, by decide, by decide⟩
  · exact ⟨_, _, optKV_mem h, by decide, by decide⟩
  · simp at h

theorem InScope.pairs_typed (b : InScope) (ver : Option Nat) : b.pairs ver = b.typed.pairs ver ++ b.unknown := by
  simp [InScope.pairs, InScope.typed]

theorem InScope.typed_restore (b : InScope) : ({ b.typed with unknown := [] ++ b.unknown } : InScope) = b := by
  cases b; rfl

/-! ### serialise-then-parse of an input scope -/

theorem LInScope.addPairs_pairs (ko : KeyOps) (version : Option Nat) (s : LInScope) (h : LInWF ko s) :
    LInScope.addPairs ko (LInScope.seedOf version s) (s.pairs version) = some s.norm := by
  -- the seed
  have hseed : (LInScope.seedOf version s).nonWitnessUtxo = none ∧ (LInScope.seedOf version s).witnessUtxo = none
      ∧ (LInScope.seedOf version s).lf = [] ∧ (LInScope.seedOf version s).base = InScope.seedOf version s.base.typed := by
    unfold LInScope.seedOf InScope.seedOf
    split <;> simp [InScope.typed]
  obtain ⟨sd1, sd2, sd3, sd4⟩ := hseed
  have hbk : ∀ kv ∈ s.base.typed.pairs version, baseKey kv.1 = true := by
    intro kv hkv
    obtain ⟨k0, kr, e, h0, h1⟩ := InScope.typed_pairs_head s.base h.baseNwu h.baseWu version kv hkv
    have hl := h.typedNL kv (InScope.pairs_sub_v2 _ version kv hkv)
    rw [e] at hl
    simp [baseKey, hl, e, h0, h1]
  have step1 := lin_step_nwu ko (LInScope.seedOf version s) s.nonWitnessUtxo sd1 h.nwu
  have step2 := lin_step_wu ko { LInScope.seedOf version s with nonWitnessUtxo := s.nonWitnessUtxo } s.witnessUtxo sd2 h.wu
  have step3 : LInScope.addPairs ko
      { LInScope.seedOf version s with nonWitnessUtxo := s.nonWitnessUtxo, witnessUtxo := s.witnessUtxo }
      (s.base.typed.pairs version)
      = some { LInScope.seedOf version s with nonWitnessUtxo := s.nonWitnessUtxo, witnessUtxo := s.witnessUtxo,
                                              base := s.base.typed } := by
    rw [LInScope.addPairs_base ko _ _ hbk]
    simp only [sd4]
    rw [InScope.addPairs_pairs ko (fun _ => []) version s.base.typed h.typed]
    rfl
  have step4 := lin_step_unknown ko s.base.unknown
    { LInScope.seedOf version s with nonWitnessUtxo := s.nonWitnessUtxo, witnessUtxo := s.witnessUtxo,
                                     base := s.base.typed }
    (fun kv hkv => (h.unknown kv hkv).2) (by simpa [InScope.typed] using h.unknownNodup)
  have step5 := lin_step_lf ko s.lf (fun e he => (h.lf e he).1) h.lfPfx LInField.order LInField.order_nodup
    { LInScope.seedOf version s with nonWitnessUtxo := s.nonWitnessUtxo, witnessUtxo := s.witnessUtxo,
                                     base := { s.base.typed with unknown := s.base.typed.unknown ++ s.base.unknown } }
    (fun f _ => by simp [sd3, lget])
  have hpairs : s.pairs version = optKV [0x00] (s.nonWitnessUtxo.map LTx.ser)
      ++ (optKV [0x01] (s.witnessUtxo.map LTxOut.ser)
      ++ (s.base.typed.pairs version ++ (s.base.unknown
      ++ LInField.order.filterMap (fun f => (lget s.lf f).map (fun v => (f.key, v)))))) := by
    rw [LInScope.pairs, InScope.pairs_typed]
    simp only [LInScope.lpairs, List.append_assoc]
  rw [hpairs]
  refine LInScope.bind_step step1 (LInScope.bind_step step2 (LInScope.bind_step step3 (LInScope.bind_step step4 ?_)))
  rw [step5]
  have sd5 : (LInScope.seedOf version s).isPegin = s.isPegin ∧ (LInScope.seedOf version s).txIssuance = s.txIssuance := by
    rw [h.txparts.1, h.txparts.2]; unfold LInScope.seedOf; split <;> exact ⟨rfl, rfl⟩
  simp only [LInScope.norm, LInScope.normLf, sd3, List.nil_append, InScope.typed, sd5.1, sd5.2]

/-! ### output scopes (PSETv2) -/

/-- well-formed Liquid output scope of a version-2 PSET: no raw commitment in the place of the value -/
structure LOutWF (ko : KeyOps) (s : LOutScope) : Prop where
  valueConf : s.valueConf = none
  typed : OutWF ko s.base.typed
  typedNL : ∀ kv ∈ s.base.typed.pairs (some 2), isLiquidKey kv.1 = false
  unknown : ∀ kv ∈ s.base.unknown, KVWF kv ∧
    ((isLiquidKey kv.1 = false ∧ unkKeyOut kv.1 = true) ∨ (isLiquidKey kv.1 = true ∧ LOutField.ofKey kv.1 = none))
  unknownNodup : (s.base.unknown.map Prod.fst).Nodup
  lf : ∀ e ∈ s.lf, lenOK e.1.len e.2 = true ∧ Fits e.2
  /-- (since fix `d53`) the scope keeps no nonce of a global transaction beside its fields -/
  txNonce : s.txNonce = none

def Model.LOutScope.normLf (lf : List (LOutField × Bytes)) : List (LOutField × Bytes) :=
  LOutField.order.filterMap (fun f => (lget lf f).map (fun v => (f, v)))

def Model.LOutScope.norm (s : LOutScope) : LOutScope := { s with lf := LOutScope.normLf s.lf }

theorem LOutScope.addPairs_append (ko : KeyOps) : ∀ (a b : List KV) (s : LOutScope),
    LOutScope.addPairs ko s (a ++ b) = (LOutScope.addPairs ko s a).bind (fun s' => LOutScope.addPairs ko s' b) := by
  intro a
  induction a with
  | nil => intro b s; simp [LOutScope.addPairs]
  | cons kv a ih =>
    intro b s
    obtain ⟨k, v⟩ := kv
    simp only [List.cons_append, LOutScope.addPairs]
    cases LOutScope.addPair ko s k v with
    | none => rfl
    | some s1 => exact ih b s1

theorem LOutScope.bind_step {ko : KeyOps} {s s' : LOutScope} {a b : List KV} {r : Option LOutScope}
    (h1 : LOutScope.addPairs ko s a = some s') (h2 : LOutScope.addPairs ko s' b = r) :
    LOutScope.addPairs ko s (a ++ b) = r := by
  rw [LOutScope.addPairs_append, h1]; exact h2

theorem LOutScope.addPair_base (ko : KeyOps) (s : LOutScope) (k v : Bytes) (hk : isLiquidKey k = false)
    (hc : s.valueConf = none) :
    LOutScope.addPair ko s k v = (OutScope.addPair ko s.base k v).map (fun b => { s with base := b }) := by
  simp only [LOutScope.addPair, hk, Bool.not_false, if_true, hc, Option.isSome_none, Bool.and_false,
    Bool.false_eq_true, if_false]
  cases OutScope.addPair ko s.base k v <;> rfl

theorem LOutScope.addPairs_base (ko : KeyOps) : ∀ (kvs : List KV) (s : LOutScope),
    (∀ kv ∈ kvs, isLiquidKey kv.1 = false) → s.valueConf = none →
    LOutScope.addPairs ko s kvs = (OutScope.addPairs ko s.base kvs).map (fun b => { s with base := b }) := by
  intro kvs
  induction kvs with
  | nil => intro s _ _; simp [LOutScope.addPairs, OutScope.addPairs]
  | cons kv kvs ih =>
    intro s h hc
    obtain ⟨k, v⟩ := kv
    simp only [LOutScope.addPairs, OutScope.addPairs, LOutScope.addPair_base ko s k v (h (k, v) (by simp)) hc]
    cases hb : OutScope.addPair ko s.base k v with
    | none => rfl
    | some b =>
      simp only [Option.map_some]
      rw [ih { s with base := b } (fun x hx => h x (by simp [hx])) hc]

theorem LOutScope.addPair_unknown (ko : KeyOps) (s : LOutScope) (k v : Bytes) (hc : s.valueConf = none)
    (hcls : (isLiquidKey k = false ∧ unkKeyOut k = true) ∨ (isLiquidKey k = true ∧ LOutField.ofKey k = none))
    (hl : lookup k s.base.unknown = none) :
    LOutScope.addPair ko s k v = some { s with base := { s.base with unknown := s.base.unknown ++ [(k, v)] } } := by
  rcases hcls with ⟨hliq, hu⟩ | ⟨hliq, hof⟩
  · rw [LOutScope.addPair_base ko s k v hliq hc, OutScope.addPair_unknown ko s.base k v hu hl]
    rfl
  · simp [LOutScope.addPair, hliq, hof, hl]

theorem lout_step_unknown (ko : KeyOps) : ∀ (l : List KV) (s : LOutScope), s.valueConf = none →
    (∀ kv ∈ l, (isLiquidKey kv.1 = false ∧ unkKeyOut kv.1 = true) ∨ (isLiquidKey kv.1 = true ∧ LOutField.ofKey kv.1 = none)) →
    ((s.base.unknown ++ l).map Prod.fst).Nodup →
    LOutScope.addPairs ko s l = some { s with base := { s.base with unknown := s.base.unknown ++ l } } := by
  intro l
  induction l with
  | nil => intro s _ _ _; simp [LOutScope.addPairs]
  | cons e l ih =>
    intro s hc hv hn
    obtain ⟨k, v⟩ := e
    obtain ⟨hp, hn'⟩ := nodup_snoc_split _ _ _ _ hn
    have h1 := LOutScope.addPair_unknown ko s k v hc (hv (k, v) (by simp)) hp
    simp only [LOutScope.addPairs, h1]
    rw [ih { s with base := { s.base with unknown := s.base.unknown ++ [(k, v)] } } hc
      (fun x hx => hv x (by simp [hx])) hn']
    simp [List.append_assoc]

theorem lout_step_lf (ko : KeyOps) (src : List (LOutField × Bytes)) (hsrc : ∀ e ∈ src, lenOK e.1.len e.2 = true) :
    ∀ (l : List LOutField), l.Nodup → ∀ (s : LOutScope), (∀ f ∈ l, lget s.lf f = none) →
    LOutScope.addPairs ko s (l.filterMap (fun f => (lget src f).map (fun v => (f.key true, v))))
      = some { s with lf := s.lf ++ l.filterMap (fun f => (lget src f).map (fun v => (f, v))) } := by
  intro l
  induction l with
  | nil => intro _ s _; simp [LOutScope.addPairs]
  | cons f r ih =>
    intro hnd s hdis
    simp only [List.nodup_cons] at hnd
    cases hv : lget src f with
    | none =>
      simp only [List.filterMap_cons, hv, Option.map_none]
      exact ih hnd.2 s (fun g hg => hdis g (by simp [hg]))
    | some v =>
      simp only [List.filterMap_cons, hv, Option.map_some]
      have hlen := hsrc (f, v) (lget_mem src f v hv)
      have hn : lget s.lf f = none := hdis f (by simp)
      have h1 : LOutScope.addPair ko s (f.key true) v = some { s with lf := s.lf ++ [(f, v)] } := by
        simp [LOutScope.addPair, LOutField.key_liquid, LOutField.ofKey_key, hn, hlen]
      simp only [LOutScope.addPairs, h1]
      rw [ih hnd.2 { s with lf := s.lf ++ [(f, v)] } (fun g hg => by
        have hne : g ≠ f := fun e => hnd.1 (e ▸ hg)
        simp only []
        rw [lget_append_ne _ _ _ _ (fun e => hne e.symm)]
        exact hdis g (by simp [hg]))]
      simp [List.append_assoc]

theorem OutScope.pairs_typed (b : OutScope) (ver : Option Nat) : b.pairs ver = b.typed.pairs ver ++ b.unknown := by
  simp [OutScope.pairs, OutScope.typed]

/-- serialise-then-parse of a version-2 output scope -/
theorem LOutScope.addPairs_pairs (ko : KeyOps) (s : LOutScope) (h : LOutWF ko s) :
    LOutScope.addPairs ko {} (s.pairsL (some 2)) = some s.norm := by
  have step3 : LOutScope.addPairs ko {} (s.base.typed.pairs (some 2)) = some { base := s.base.typed } := by
    rw [LOutScope.addPairs_base ko _ _ h.typedNL rfl]
    have := OutScope.addPairs_pairs ko (some 2) s.base.typed h.typed
    simp only [OutScope.seedOf, if_true] at this
    show (OutScope.addPairs ko {} (s.base.typed.pairs (some 2))).map _ = _
    rw [this]
    rfl
  have step4 := lout_step_unknown ko s.base.unknown { base := s.base.typed } rfl
    (fun kv hkv => (h.unknown kv hkv).2) (by simpa [OutScope.typed] using h.unknownNodup)
  have step5 := lout_step_lf ko s.lf (fun e he => (h.lf e he).1) LOutField.order LOutField.order_nodup
    { base := { s.base.typed with unknown := s.base.typed.unknown ++ s.base.unknown } }
    (fun f _ => by simp [lget])
  have hpairs : s.pairsL (some 2) = s.base.typed.pairs (some 2) ++ (s.base.unknown
      ++ LOutField.order.filterMap (fun f => (lget s.lf f).map (fun v => (f.key true, v)))) := by
    rw [LOutScope.pairsL, OutScope.pairs_typed]
    simp [LOutScope.lpairs, List.append_assoc]
  rw [hpairs]
  refine LOutScope.bind_step step3 (LOutScope.bind_step step4 ?_)
  rw [step5]
  have hc := h.valueConf
  have hn := h.txNonce
  cases s with
  | mk base vc lf tn =>
    simp only at hc hn
    subst hc
    subst hn
    simp only [LOutScope.norm, LOutScope.normLf, List.nil_append, OutScope.typed]

/-! ### every pair `write_to` emits fits the key-value framing -/

theorem LInField.key_fits (f : LInField) : f.key ≠ [] ∧ Fits f.key := by cases f <;> decide
theorem LOutField.key_fits (f : LOutField) (b : Bool) : f.key b ≠ [] ∧ Fits (f.key b) := by cases f <;> cases b <;> decide

theorem LInScope.pairs_wf (ko : KeyOps) (version : Option Nat) (s : LInScope) (h : LInWF ko s) :
    ∀ kv ∈ s.pairs version, KVWF kv := by
  have b1 : ∀ k0 : UInt8, ([k0] : Bytes) ≠ [] ∧ Fits [k0] := fun k0 => ⟨by simp, by simp [Fits]⟩
  intro kv hkv
  rw [LInScope.pairs, InScope.pairs_typed] at hkv
  simp only [List.mem_append] at hkv
  rcases hkv with (((hkv | hkv) | (hkv | hkv)) | hkv)
  · exact optKV_wf _ _ (b1 _) (OptP_map h.nwu (fun t ht => ht.2)) kv hkv
  · exact optKV_wf _ _ (b1 _) (OptP_map h.wu (fun t ht => ht.2.2)) kv hkv
  · exact InScope.pairs_wf ko version _ h.typed kv hkv
  · exact (h.unknown kv hkv).1
  · simp only [LInScope.lpairs, List.mem_filterMap] at hkv
    obtain ⟨f, _, hf⟩ := hkv
    cases hv : lget s.lf f with
    | none => simp [hv] at hf
    | some v =>
      simp [hv] at hf; subst hf
      exact ⟨(LInField.key_fits f).1, (LInField.key_fits f).2, (h.lf (f, v) (lget_mem _ _ _ hv)).2⟩

theorem LOutScope.pairsL_wf (ko : KeyOps) (s : LOutScope) (h : LOutWF ko s) :
    ∀ kv ∈ s.pairsL (some 2), KVWF kv := by
  intro kv hkv
  rw [LOutScope.pairsL, OutScope.pairs_typed] at hkv
  simp only [List.mem_append] at hkv
  rcases hkv with ((hkv | hkv) | hkv)
  · exact OutScope.pairs_wf ko (some 2) _ h.typed kv hkv
  · exact (h.unknown kv hkv).1
  · simp only [LOutScope.lpairs, List.mem_filterMap] at hkv
    obtain ⟨f, _, hf⟩ := hkv
    split at hf
    · simp at hf
    · cases hv : lget s.lf f with
      | none => simp [hv] at hf
      | some v =>
        simp [hv] at hf; subst hf
        exact ⟨(LOutField.key_fits f _).1, (LOutField.key_fits f _).2, (h.lf (f, v) (lget_mem _ _ _ hv)).2⟩

/-! ### scopes in sequence (PSETv2: no global transaction) -/

theorem readLIns_write (ko : KeyOps) : ∀ (ins : List LInScope) (i : Nat) (r : Bytes), (∀ s ∈ ins, LInWF ko s) →
    readLIns ko none ins.length i (ins.flatMap (fun s => writeKVs (s.pairs (some 2))) ++ r)
      = some (ins.map LInScope.norm, r) := by
  intro ins
  induction ins with
  | nil => intro i r _; simp [readLIns]
  | cons s ins ih =>
    intro i r hwf
    have h1 := readKVs_write (s.pairs (some 2)) (ins.flatMap (fun s => writeKVs (s.pairs (some 2))) ++ r)
      (LInScope.pairs_wf ko (some 2) s (hwf s (by simp)))
    have h2 := LInScope.addPairs_pairs ko (some 2) s (hwf s (by simp))
    have h3 : lseedIn none i = LInScope.seedOf (some 2) s := by simp [lseedIn, LInScope.seedOf]
    have h4 := ih (i + 1) r (fun x hx => hwf x (by simp [hx]))
    simp only [List.flatMap_cons, List.append_assoc, List.length_cons, readLIns, h1, h3, h2, h4, List.map_cons]

theorem readLOuts_write (ko : KeyOps) : ∀ (outs : List LOutScope) (i : Nat) (r : Bytes), (∀ s ∈ outs, LOutWF ko s) →
    readLOuts ko none outs.length i (outs.flatMap (fun s => writeKVs (s.pairsL (some 2))) ++ r)
      = some (outs.map LOutScope.norm, r) := by
  intro outs
  induction outs with
  | nil => intro i r _; simp [readLOuts]
  | cons s outs ih =>
    intro i r hwf
    have h1 := readKVs_write (s.pairsL (some 2)) (outs.flatMap (fun s => writeKVs (s.pairsL (some 2))) ++ r)
      (LOutScope.pairsL_wf ko s (hwf s (by simp)))
    have h2 := LOutScope.addPairs_pairs ko s (hwf s (by simp))
    have h3 : lseedOut none i = {} := by simp [lseedOut]
    have h4 := ih (i + 1) r (fun x hx => hwf x (by simp [hx]))
    simp only [List.flatMap_cons, List.append_assoc, List.length_cons, readLOuts, h1, h3, h2, h4, List.map_cons]

/-! ### the global scope (as C04X, the global fold being the Liquid one) -/

theorem lglobalFold_unknown_seg : ∀ (l : List KV) (tx : Option LTx) (ver : Option Nat) (unk rest : List KV),
    (∀ kv ∈ l, notTxVer kv = true) → ((unk ++ l).map Prod.fst).Nodup →
    lglobalFold tx ver unk (l ++ rest) = lglobalFold tx ver (unk ++ l) rest := by
  intro l
  induction l with
  | nil => intro tx ver unk rest _ _; simp
  | cons kv l ih =>
    intro tx ver unk rest hk hn
    obtain ⟨k, v⟩ := kv
    obtain ⟨hp, hn'⟩ := nodup_snoc_split _ _ _ _ hn
    have := hk (k, v) (by simp)
    simp only [notTxVer, Bool.and_eq_true, Bool.not_eq_true', beq_eq_false_iff_ne, ne_eq] at this
    simp only [List.cons_append, lglobalFold, this.1, this.2, if_false, hp, Option.isSome_none, Bool.false_eq_true]
    rw [ih _ _ _ _ (fun x hx => hk x (by simp [hx])) hn']
    simp [List.append_assoc]

theorem lglobalFold_ver_step (tx : Option LTx) (o : Option Nat) (ho : OptP (· < 2^32) o) (unk rest : List KV) :
    lglobalFold tx none unk (optKV [0xfb] (o.map (leN 4)) ++ rest) = lglobalFold tx o unk rest := by
  cases o with
  | none => simp [optKV]
  | some n =>
    have := ofLe_leN 4 n (by simp at ho; omega)
    simp [optKV, lglobalFold, this]

/-- the global fields of a PSET as a PSBT object without scopes' content: the global scope of `PSET.write_to` (version 2)
    is the one of `PSBT.write_to` -/
def Model.LPset.shadow (p : LPset) : Psbt :=
  { version := p.version, txVersion := p.txVersion, locktime := p.locktime, xpubs := p.xpubs, unknown := p.unknown,
    inputs := p.inputs.map (fun _ => {}), outputs := p.outputs.map (fun _ => {}) }

/-- well-formed version-2 PSET object: what `PSET.parse` (KEEP_ALL) can return for a PSETv2 — the global fields as in
    `PsbtWF` (C04X), every scope well-formed -/
structure LPsetWF (ko : KeyOps) (p : LPset) : Prop where
  version : p.version = some 2
  global : PsbtWF ko p.shadow
  ins : ∀ s ∈ p.inputs, LInWF ko s
  outs : ∀ s ∈ p.outputs, LOutWF ko s

def Model.LPset.norm (p : LPset) : LPset :=
  { p with inputs := p.inputs.map LInScope.norm, outputs := p.outputs.map LOutScope.norm }

theorem LPset.parse_of_parts (ko : KeyOps) (g : List KV) (rest : Bytes)
    (tx : Option LTx) (ver : Option Nat) (unk : List KV) (gs : GState) (ins : List LInScope) (outs : List LOutScope)
    (r2 : Bytes)
    (hg : ∀ kv ∈ g, KVWF kv)
    (hgf : lglobalFold none none [] g = some (tx, ver, unk))
    (hc1 : (tx.isSome && ver == some 2) = false) (hc2 : (tx.isNone && !(ver == some 2)) = false)
    (hpu : parseUnknowns ko (ver == some 2) (lgstate0 tx) unk = some gs)
    (hins : readLIns ko tx (gs.nin.getD 0) 0 rest = some (ins, r2))
    (houts : readLOuts ko tx (gs.nout.getD 0) 0 r2 = some (outs, [])) :
    LPset.parse ko (psetMagic ++ (writeKVs g ++ rest))
      = some { version := ver, txVersion := gs.txVersion, locktime := gs.locktime, xpubs := gs.xpubs,
               unknown := gs.unknown, inputs := ins, outputs := outs } := by
  have h1 : takeN 5 (psetMagic ++ (writeKVs g ++ rest)) = some (psetMagic, writeKVs g ++ rest) :=
    takeN_append psetMagic _
  have h2 := readKVs_write g rest hg
  have hpu' : parseUnknowns ko (ver == some 2)
      { txVersion := tx.map (·.version), locktime := tx.map (·.locktime), nin := tx.map (·.vin.length),
        nout := tx.map (·.vout.length), xpubs := [], unknown := [] } unk = some gs := hpu
  unfold LPset.parse
  simp only [h1, h2, hgf, hc1, hc2, hpu', hins, houts]
  simp

/-- serialise-then-parse, PSETv2: a well-formed object serialises, and parsing the bytes gives the object back (with
    the liquid tables in `write_to` order) -/
theorem LPset.parse_ser_v2 (ko : KeyOps) (p : LPset) (h : LPsetWF ko p) :
    ∃ b, LPset.ser p = some b ∧ LPset.parse ko b = some p.norm := by
  have hv := h.version
  have hq := h.global
  obtain ⟨x1, x2⟩ := xpubPairs_props ko p.shadow hq
  obtain ⟨y1, y2⟩ := v2Pairs_props ko p.shadow hq
  have hisv2 : (p.version == some 2) = true := by simp [hv]
  have hver : OptP (· < 2^32) p.version := hq.version
  have z1 : ∀ kv ∈ p.unknown, KVWF kv ∧ notTxVer kv = true ∧ (∀ x, kv.1 ≠ 0x01 :: x)
      ∧ kv.1 ≠ [0x02] ∧ kv.1 ≠ [0x03] ∧ kv.1 ≠ [0x04] ∧ kv.1 ≠ [0x05] := by
    intro kv hkv
    obtain ⟨a, b⟩ := hq.unknown kv hkv
    have b' : unkKeyGlobal true kv.1 = true := by simpa [LPset.shadow, hisv2] using b
    obtain ⟨c1, c2, c3⟩ := unkKeyGlobal_props true kv.1 b'
    exact ⟨a, c1, c2, c3 rfl⟩
  have hnd1 : ((p.shadow.xpubPairs ++ p.shadow.v2Pairs).map Prod.fst).Nodup := by
    rw [List.map_append]
    refine nodup_append_of x2 y2 ?_
    intro a ha b hb e
    obtain ⟨kv, hkv, rfl⟩ := List.mem_map.mp ha
    obtain ⟨kv', hkv', rfl⟩ := List.mem_map.mp hb
    obtain ⟨x, hx⟩ := (x1 kv hkv).2.2
    rcases (y1 kv' hkv').2.2 with e' | e' | e' | e' <;> (rw [hx, e'] at e; simp at e)
  have hnd2 : (((p.shadow.xpubPairs ++ p.shadow.v2Pairs) ++ p.unknown).map Prod.fst).Nodup := by
    rw [List.map_append]
    refine nodup_append_of hnd1 hq.unknownNodup ?_
    intro a ha b hb e
    obtain ⟨kv, hkv, rfl⟩ := List.mem_map.mp ha
    obtain ⟨kv', hkv', rfl⟩ := List.mem_map.mp hb
    obtain ⟨_, _, c2, c3, c4, c5, c6⟩ := z1 kv' hkv'
    rcases List.mem_append.mp hkv with hkv | hkv
    · obtain ⟨x, hx⟩ := (x1 kv hkv).2.2
      exact c2 x (by rw [← e, hx])
    · rcases (y1 kv hkv).2.2 with e' | e' | e' | e'
      · exact c3 (by rw [← e, e'])
      · exact c4 (by rw [← e, e'])
      · exact c5 (by rw [← e, e'])
      · exact c6 (by rw [← e, e'])
  have hnt1 : ∀ kv ∈ p.shadow.xpubPairs ++ p.shadow.v2Pairs, notTxVer kv = true := by
    intro kv hkv
    rcases List.mem_append.mp hkv with hkv | hkv
    · exact (x1 kv hkv).2.1
    · exact (y1 kv hkv).2.1
  have hgf : lglobalFold none none []
      (p.shadow.xpubPairs ++ p.shadow.v2Pairs ++ optKV [0xfb] (p.version.map (leN 4)) ++ p.unknown)
      = some (none, p.version, (p.shadow.xpubPairs ++ p.shadow.v2Pairs) ++ p.unknown) := by
    rw [List.append_assoc (p.shadow.xpubPairs ++ p.shadow.v2Pairs),
      lglobalFold_unknown_seg _ _ _ _ _ hnt1 (by simpa using hnd1), lglobalFold_ver_step _ _ hver]
    have := lglobalFold_unknown_seg p.unknown none p.version ([] ++ (p.shadow.xpubPairs ++ p.shadow.v2Pairs)) []
      (fun kv hkv => (z1 kv hkv).2.1) (by simpa using hnd2)
    simp only [List.append_nil, List.nil_append] at this ⊢
    rw [this]; rfl
  have hpu : parseUnknowns ko (p.version == some 2) (lgstate0 none) ((p.shadow.xpubPairs ++ p.shadow.v2Pairs) ++ p.unknown)
      = some { txVersion := p.txVersion, locktime := p.locktime, nin := some p.inputs.length,
               nout := some p.outputs.length, xpubs := p.xpubs, unknown := p.unknown } := by
    rw [hisv2]
    have hl1 : p.shadow.inputs.length = p.inputs.length := by simp [LPset.shadow]
    have hl2 : p.shadow.outputs.length = p.outputs.length := by simp [LPset.shadow]
    have := pu_bind_step (pu_bind_step
      (pu_step_xpubs ko true p.xpubs (gstate0 none) (fun e he => ⟨(hq.xpubs e he).1, (hq.xpubs e he).2.2⟩))
      (pu_bind_step (pu_bind_step
        (pu_step_txver ko _ p.txVersion hq.txVersion rfl)
        (pu_step_locktime ko _ p.locktime hq.locktime rfl))
        (pu_step_counts ko _ p.inputs.length p.outputs.length (by rw [← hl1]; exact hq.nin) (by rw [← hl2]; exact hq.nout))))
      (pu_step_unknown ko true p.unknown _ (fun kv hkv => by
        have := (hq.unknown kv hkv).2; simpa [LPset.shadow, hisv2] using this))
    simpa [Psbt.xpubPairs, Psbt.v2Pairs, LPset.shadow, gstate0, lgstate0] using this
  have hins := readLIns_write ko p.inputs 0 (p.outputs.flatMap (fun s => writeKVs (s.pairsL (some 2))) ++ []) h.ins
  have houts := readLOuts_write ko p.outputs 0 [] h.outs
  have hwf : ∀ kv ∈ p.shadow.xpubPairs ++ p.shadow.v2Pairs ++ optKV [0xfb] (p.version.map (leN 4)) ++ p.unknown, KVWF kv := by
    intro kv hkv
    simp only [List.mem_append] at hkv
    rcases hkv with ((hkv | hkv) | hkv) | hkv
    · exact (x1 kv hkv).1
    · exact (y1 kv hkv).1
    · exact optKV_wf _ _ ⟨by simp, by simp [Fits]⟩ (OptP_map hver (fun t ht => by simp [Fits])) kv hkv
    · exact (z1 kv hkv).1
  have hparse := LPset.parse_of_parts ko _ _ none p.version _ _ (p.inputs.map LInScope.norm) (p.outputs.map LOutScope.norm)
    _ hwf hgf (by simp) (by simp [hv]) hpu (by simpa using hins) (by simpa using houts)
  refine ⟨_, ?_, hparse⟩
  have hgp : p.globalPairs = some (p.shadow.xpubPairs ++ p.shadow.v2Pairs ++ optKV [0xfb] (p.version.map (leN 4)) ++ p.unknown) := by
    simp only [LPset.globalPairs, hisv2, Bool.not_true, Bool.false_eq_true, if_false, if_true, Option.map_some,
      List.nil_append]
    simp [Psbt.xpubPairs, Psbt.v2Pairs, LPset.shadow]
  have hop : ∀ s ∈ p.outputs, s.pairs p.version = some (s.pairsL p.version) := by
    intro s hs
    simp [LOutScope.pairs_eq, (h.outs s hs).valueConf]
  rw [LPset.ser_of_globalPairs p _ hgp hop, hv]
  simp [List.append_assoc]

/-! ### `norm`: the table in `write_to` order is a fixed point -/

theorem lget_filterMap {φ : Type} [DecidableEq φ] (lf : List (φ × Bytes)) : ∀ (l : List φ), l.Nodup → ∀ f,
    lget (l.filterMap (fun g => (lget lf g).map (fun v => (g, v)))) f = if f ∈ l then lget lf f else none := by
  intro l
  induction l with
  | nil => intro _ f; simp [lget]
  | cons g r ih =>
    intro hnd f
    simp only [List.nodup_cons] at hnd
    cases hv : lget lf g with
    | none =>
      simp only [List.filterMap_cons, hv, Option.map_none, ih hnd.2 f, List.mem_cons]
      by_cases e : f = g
      · subst e; simp [hnd.1, hv]
      · simp [e]
    | some v =>
      simp only [List.filterMap_cons, hv, Option.map_some, lget, List.mem_cons]
      by_cases e : g = f
      · subst e; simp [hv]
      · have e' : ¬ f = g := fun h => e h.symm
        simp [e, e', ih hnd.2 f]

theorem LInField.mem_order (f : LInField) : f ∈ LInField.order := by cases f <;> decide
theorem LOutField.mem_order (f : LOutField) : f ∈ LOutField.order := by cases f <;> decide

theorem LInScope.lget_normLf (lf : List (LInField × Bytes)) (f : LInField) : lget (LInScope.normLf lf) f = lget lf f := by
  rw [LInScope.normLf, lget_filterMap lf _ LInField.order_nodup f]; simp [LInField.mem_order]

theorem LOutScope.lget_normLf (lf : List (LOutField × Bytes)) (f : LOutField) : lget (LOutScope.normLf lf) f = lget lf f := by
  rw [LOutScope.normLf, lget_filterMap lf _ LOutField.order_nodup f]; simp [LOutField.mem_order]

theorem LInScope.normLf_idem (lf : List (LInField × Bytes)) :
    LInScope.normLf (LInScope.normLf lf) = LInScope.normLf lf := by
  show LInField.order.filterMap (fun f => (lget (LInScope.normLf lf) f).map (fun v => (f, v))) = _
  simp only [LInScope.lget_normLf]
  rfl

theorem LOutScope.normLf_idem (lf : List (LOutField × Bytes)) :
    LOutScope.normLf (LOutScope.normLf lf) = LOutScope.normLf lf := by
  show LOutField.order.filterMap (fun f => (lget (LOutScope.normLf lf) f).map (fun v => (f, v))) = _
  simp only [LOutScope.lget_normLf]
  rfl

theorem LInScope.norm_norm (s : LInScope) : s.norm.norm = s.norm := by
  simp only [LInScope.norm, LInScope.normLf_idem]

theorem LOutScope.norm_norm (s : LOutScope) : s.norm.norm = s.norm := by
  simp only [LOutScope.norm, LOutScope.normLf_idem]

theorem LInScope.pairs_norm (s : LInScope) (ver : Option Nat) : s.norm.pairs ver = s.pairs ver := by
  simp only [LInScope.pairs, LInScope.lpairs, LInScope.norm, LInScope.lget_normLf]

theorem LOutScope.pairsL_norm (s : LOutScope) (ver : Option Nat) : s.norm.pairsL ver = s.pairsL ver := by
  simp only [LOutScope.pairsL, LOutScope.lpairs, LOutScope.norm, LOutScope.lget_normLf]

theorem LInWF.norm {ko : KeyOps} {s : LInScope} (h : LInWF ko s) : LInWF ko s.norm := by
  refine { h with lf := ?_, lfPfx := ?_ }
  · intro e he
    simp only [LInScope.norm, LInScope.normLf, List.mem_filterMap] at he
    obtain ⟨f, _, hf⟩ := he
    cases hv : lget s.lf f with
    | none => simp [hv] at hf
    | some v => simp [hv] at hf; subst hf; exact h.lf (f, v) (lget_mem _ _ _ hv)
  · intro e he
    simp only [LInScope.norm, LInScope.normLf, List.mem_filterMap] at he
    obtain ⟨f, _, hf⟩ := he
    cases hv : lget s.lf f with
    | none => simp [hv] at hf
    | some v => simp [hv] at hf; subst hf; exact h.lfPfx (f, v) (lget_mem _ _ _ hv)

theorem LOutWF.norm {ko : KeyOps} {s : LOutScope} (h : LOutWF ko s) : LOutWF ko s.norm := by
  refine { h with lf := ?_ }
  intro e he
  simp only [LOutScope.norm, LOutScope.normLf, List.mem_filterMap] at he
  obtain ⟨f, _, hf⟩ := he
  cases hv : lget s.lf f with
  | none => simp [hv] at hf
  | some v => simp [hv] at hf; subst hf; exact h.lf (f, v) (lget_mem _ _ _ hv)

theorem LPset.norm_norm (p : LPset) : p.norm.norm = p.norm := by
  simp only [LPset.norm, List.map_map]
  congr 1
  · apply List.map_congr_left; intro s _; exact LInScope.norm_norm s
  · apply List.map_congr_left; intro s _; exact LOutScope.norm_norm s

theorem LPsetWF.norm {ko : KeyOps} {p : LPset} (h : LPsetWF ko p) : LPsetWF ko p.norm := by
  refine ⟨h.version, ?_, ?_, ?_⟩
  · have : p.norm.shadow = p.shadow := by simp [LPset.shadow, LPset.norm, List.map_map]
    rw [this]; exact h.global
  · intro s hs
    simp only [LPset.norm, List.mem_map] at hs
    obtain ⟨s0, h0, rfl⟩ := hs
    exact (h.ins s0 h0).norm
  · intro s hs
    simp only [LPset.norm, List.mem_map] at hs
    obtain ⟨s0, h0, rfl⟩ := hs
    exact (h.outs s0 h0).norm

/-- the normalised object is a fixed point of parse ∘ serialise -/
theorem LPset.parse_ser_norm (ko : KeyOps) (p : LPset) (h : LPsetWF ko p) :
    ∃ b, LPset.ser p.norm = some b ∧ LPset.parse ko b = some p.norm := by
  obtain ⟨b, h1, h2⟩ := LPset.parse_ser_v2 ko p.norm h.norm
  rw [LPset.norm_norm] at h2
  exact ⟨b, h1, h2⟩

theorem LOutScope.pairs_norm (s : LOutScope) (ver : Option Nat) : s.norm.pairs ver = s.pairs ver := by
  rw [LOutScope.pairs_eq, LOutScope.pairs_eq, LOutScope.pairsL_norm]
  rfl

/-- normalising changes nothing in what is written (version 2) -/
theorem LPset.ser_norm (p : LPset) (hv : p.version = some 2) : LPset.ser p.norm = LPset.ser p := by
  have hisv2 : (p.version == some 2) = true := by simp [hv]
  have hg : p.norm.globalPairs = p.globalPairs := by
    simp [LPset.globalPairs, LPset.norm, hisv2]
  have ho : p.norm.outputs.map (fun s => s.pairs p.norm.version) = p.outputs.map (fun s => s.pairs p.version) := by
    simp [LPset.norm, List.map_map, Function.comp_def, LOutScope.pairs_norm]
  have hi : p.norm.inputs.flatMap (fun s => writeKVs (s.pairs p.norm.version))
      = p.inputs.flatMap (fun s => writeKVs (s.pairs p.version)) := by
    simp [LPset.norm, List.flatMap_map, LInScope.pairs_norm]
  simp only [LPset.ser, hg, ho, hi]

end Embit
