import EmbitModel.Proofs.DerInt
/-
  The model DER parser accepts exactly the BIP66 encodings: soundness and completeness of `parseRS` with respect to
  `Spec.Der.IsDerInt`, hence round trip and uniqueness for the model serialiser.
-/
namespace Embit
open Embit.Model.Der Embit.Spec.Der

set_option maxRecDepth 100000 in
theorem and80 (y : UInt8) : (y &&& 0x80 = 0) ↔ y.toNat < 128 := by
  have h : ∀ n, n < 256 → ((UInt8.ofNat n &&& 0x80 = 0) ↔ (UInt8.ofNat n).toNat < 128) := by decide
  have := h y.toNat y.toNat_lt
  simpa using this
theorem ge80 (y : UInt8) : (y ≥ 0x80) ↔ y.toNat ≥ 128 := by
  simp [UInt8.le_iff_toNat_le]

/-- `excessPad` when the two octets are known -/
theorem excessPad_eq (b : Bytes) (len i : Nat) (x0 x1 : UInt8) (h0 : b[i]? = some x0)
    (h1 : len > 1 → b[i+1]? = some x1) :
    excessPad b len i = some (decide (len > 1 ∧ x0 = 0 ∧ x1.toNat < 128)) := by
  unfold excessPad
  by_cases hl : len > 1
  · simp only [hl, if_true, at', h0, h1 hl]
    by_cases hx : x0 = 0
    · simp [hx, and80]
    · simp [hx]
  · simp [hl]

@[simp] theorem req_eq_some (c : Prop) [Decidable c] (u : Unit) : req c = some u ↔ c := by
  unfold req; split <;> simp [*]

theorem drop_cons_of_getElem? (l : Bytes) (i : Nat) (a : UInt8) (h : l[i]? = some a) :
    l.drop i = a :: l.drop (i + 1) := by
  obtain ⟨hlt, rfl⟩ := List.getElem?_eq_some_iff.mp h
  exact List.drop_eq_getElem_cons hlt

/-- an INTEGER field of the buffer that passed the parser's checks is a DER INTEGER content -/
theorem int_field (b : Bytes) (i len : Nat) (x0 : UInt8) (h0 : b[i]? = some x0) (hlen : 1 ≤ len)
    (hb : i + len ≤ b.length) (hpos : ¬ x0 ≥ 0x80) (hpad : excessPad b len i = some false) :
    IsDerInt ((b.drop i).take len) (ofBe ((b.drop i).take len)) ∧ ((b.drop i).take len).length = len := by
  have hl : ((b.drop i).take len).length = len := by simp; omega
  refine ⟨⟨rfl, ?_, ?_, ?_⟩, hl⟩
  · intro h; rw [h] at hl; simp at hl; omega
  · intro a ha
    rw [List.getElem?_take] at ha
    simp only [show 0 < len by omega, if_true, List.getElem?_drop, Nat.add_zero] at ha
    rw [h0] at ha; cases ha
    rw [ge80] at hpos; omega
  · intro a c ha hc ha0
    rw [List.getElem?_take] at ha hc
    simp only [show 0 < len by omega, if_true, List.getElem?_drop, Nat.add_zero] at ha
    rw [h0] at ha; cases ha
    split at hc
    · rename_i h1
      simp only [List.getElem?_drop] at hc
      rw [excessPad_eq b len i x0 c h0 (fun _ => hc)] at hpad
      simp at hpad
      have := hpad h1 ha0
      omega
    · cases hc

theorem parseRS_sound (b : Bytes) (r s : Nat) (h : parseRS b = some (r, s)) :
    ∃ x y, IsDerInt x r ∧ IsDerInt y s ∧ x.length ≤ 33 ∧ y.length ≤ 33 ∧
      b = 0x30 :: UInt8.ofNat (4 + x.length + y.length) :: 0x02 :: UInt8.ofNat x.length ::
            (x ++ 0x02 :: UInt8.ofNat y.length :: y) := by
  unfold parseRS at h
  simp only [bind, Option.bind_eq_some_iff, req_eq_some, pure, Option.some.injEq, exists_const, Prod.mk.injEq] at h
  obtain ⟨l1, hl1, hL, hlen4, t0, ht0, rfl, t2, ht2, rfl, rl, hrl, hlen6, hrlen, r0, hr0, hr0p, padr, hpadr, rfl,
    t4, ht4, rfl, sl, hsl, hslen, hlen, s0, hs0, hs0p, pads, hpads, rfl, hr, hs⟩ := h
  simp only [at'] at *
  obtain ⟨hx, hxl⟩ := int_field b 4 rl.toNat r0 hr0 (by omega) (by omega) hr0p hpadr
  obtain ⟨hy, hyl⟩ := int_field b (rl.toNat + 6) sl.toNat s0 hs0 (by omega) (by omega) hs0p hpads
  rw [hr] at hx; rw [hs] at hy
  refine ⟨_, _, hx, hy, by omega, by omega, ?_⟩
  rw [hxl, hyl]
  have e0 := drop_cons_of_getElem? b 0 _ ht0
  have e1 := drop_cons_of_getElem? b 1 _ hl1
  have e2 := drop_cons_of_getElem? b 2 _ ht2
  have e3 := drop_cons_of_getElem? b 3 _ hrl
  have e4 := drop_cons_of_getElem? b _ _ ht4
  have e5 := drop_cons_of_getElem? b _ _ hsl
  have hy2 : List.take sl.toNat (List.drop (rl.toNat + 6) b) = List.drop (rl.toNat + 6) b := by
    apply List.take_of_length_le; simp; omega
  have hsplit : List.drop 4 b = List.take rl.toNat (List.drop 4 b) ++ List.drop (rl.toNat + 4) b := by
    have := (List.take_append_drop rl.toNat (List.drop 4 b)).symm
    rw [List.drop_drop, Nat.add_comm 4] at this
    exact this
  have hl1' : l1 = UInt8.ofNat (4 + rl.toNat + sl.toNat) := by
    apply UInt8.toNat_inj.mp; simp; omega
  simp only [List.drop_zero] at e0
  have hb : b = 48 :: l1 :: 2 :: rl :: (List.take rl.toNat (List.drop 4 b) ++
      2 :: sl :: List.drop (rl.toNat + 6) b) := by
    calc b = 48 :: List.drop 1 b := e0
      _ = 48 :: l1 :: List.drop 2 b := by rw [e1]
      _ = 48 :: l1 :: 2 :: List.drop 3 b := by rw [e2]
      _ = 48 :: l1 :: 2 :: rl :: List.drop 4 b := by rw [e3]
      _ = 48 :: l1 :: 2 :: rl :: (List.take rl.toNat (List.drop 4 b) ++ List.drop (rl.toNat + 4) b) := by
          rw [← hsplit]
      _ = _ := by rw [e4, e5]
  rw [hy2, ← hl1']
  simp only [UInt8.ofNat_toNat]
  exact hb

/-- `excessPad` on a DER INTEGER content sitting at offset `i` -/
theorem excessPad_isDer (b x : Bytes) (v i : Nat) (hx : IsDerInt x v)
    (h0 : b[i]? = x[0]?) (h1 : b[i+1]? = x[1]? ∨ x.length ≤ 1) : excessPad b x.length i = some false := by
  obtain ⟨_, hne, hpos, hmin⟩ := hx
  match x, hne with
  | [a], _ =>
    simp [excessPad]
  | a :: c :: rest, _ =>
    have h1' : b[i+1]? = some c := by
      rcases h1 with h | h
      · simpa using h
      · simp at h
    rw [excessPad_eq b _ i a c (by simpa using h0) (fun _ => h1')]
    have := hmin a c (by simp) (by simp)
    simp
    intro ha
    exact this ha

theorem idx_app (x tl : Bytes) (k : Nat) : (x ++ tl)[x.length + k]? = tl[k]? := by
  simp [List.getElem?_append_right]

theorem idx_app0 (x tl : Bytes) : (x ++ tl)[x.length]? = tl[0]? := by
  simpa using idx_app x tl 0

theorem parseRS_complete (x y : Bytes) (r s : Nat) (hx : IsDerInt x r) (hy : IsDerInt y s)
    (hxl : x.length ≤ 33) (hyl : y.length ≤ 33) :
    parseRS (0x30 :: UInt8.ofNat (4 + x.length + y.length) :: 0x02 :: UInt8.ofNat x.length ::
            (x ++ 0x02 :: UInt8.ofNat y.length :: y)) = some (r, s) := by
  have hxne : 1 ≤ x.length := by
    have := hx.nonempty; cases x with | nil => exact absurd rfl this | cons _ _ => simp
  have hyne : 1 ≤ y.length := by
    have := hy.nonempty; cases y with | nil => exact absurd rfl this | cons _ _ => simp
  have hL : (UInt8.ofNat (4 + x.length + y.length)).toNat = 4 + x.length + y.length := by
    rw [UInt8.toNat_ofNat']; omega
  have hLx : (UInt8.ofNat x.length).toNat = x.length := by rw [UInt8.toNat_ofNat']; omega
  have hLy : (UInt8.ofNat y.length).toNat = y.length := by rw [UInt8.toNat_ofNat']; omega
  obtain ⟨x0, hx0⟩ : ∃ x0, x[0]? = some x0 := ⟨x[0], by simp⟩
  obtain ⟨y0, hy0⟩ : ∃ y0, y[0]? = some y0 := ⟨y[0], by simp⟩
  have hx0p := hx.positive x0 hx0
  have hy0p := hy.positive y0 hy0
  unfold parseRS
  simp only [bind, Option.bind_eq_some_iff, req_eq_some, pure, Option.some.injEq, exists_const, Prod.mk.injEq, at']
  refine ⟨_, rfl, ?_, ?_, _, rfl, rfl, _, rfl, rfl, _, rfl, ?_, ?_, x0, ?_, ?_, false, ?_, rfl, 2, ?_, rfl,
    UInt8.ofNat y.length, ?_, ?_, ?_, y0, ?_, ?_, false, ?_, rfl, ?_, ?_⟩
  · simp; omega
  · simp
  · simp [hLx]
  · rw [hLx]; omega
  · simp only [List.getElem?_cons_succ]
    rw [List.getElem?_append_left hxne, hx0]
  · rw [ge80]; omega
  · rw [hLx]
    apply excessPad_isDer _ x r 4 hx
    · simp only [List.getElem?_cons_succ]
      rw [List.getElem?_append_left hxne]
    · by_cases h : x.length ≤ 1
      · exact Or.inr h
      · left
        simp only [List.getElem?_cons_succ]
        rw [List.getElem?_append_left (show 1 < x.length by omega)]
  · rw [hLx]; simp only [List.getElem?_cons_succ]; rw [idx_app0]; rfl
  · rw [hLx]; simp only [List.getElem?_cons_succ]; rw [idx_app]; rfl
  · rw [hLy]; omega
  · rw [hLx, hLy]; simp; omega
  · rw [hLx]; simp only [List.getElem?_cons_succ]; rw [idx_app]; simpa using hy0
  · rw [ge80]; omega
  · rw [hLx, hLy]
    apply excessPad_isDer _ y s _ hy
    · simp only [List.getElem?_cons_succ]; rw [idx_app]; simp
    · by_cases h : y.length ≤ 1
      · exact Or.inr h
      · left
        simp only [List.getElem?_cons_succ]; rw [idx_app]; simp
  · rw [hLx]; simp [hx.value]
  · rw [hLx, hLy]; simp [hy.value]

/-- the parser accepts exactly the strict DER encodings whose INTEGER contents have at most 33 octets -/
theorem parseRS_iff (b : Bytes) (r s : Nat) :
    parseRS b = some (r, s) ↔
      ∃ x y, IsDerInt x r ∧ IsDerInt y s ∧ x.length ≤ 33 ∧ y.length ≤ 33 ∧
        b = 0x30 :: UInt8.ofNat (4 + x.length + y.length) :: 0x02 :: UInt8.ofNat x.length ::
              (x ++ 0x02 :: UInt8.ofNat y.length :: y) := by
  constructor
  · exact parseRS_sound b r s
  · rintro ⟨x, y, hx, hy, hxl, hyl, rfl⟩
    exact parseRS_complete x y r s hx hy hxl hyl

theorem derInt_length_le_33 (v : Nat) (h : v < 2 ^ 256) : (derInt v).length ≤ 33 := by
  rw [derInt_length_le_iff v 33 (by norm_num)]
  exact lt_of_lt_of_le h (Nat.pow_le_pow_right (by norm_num) (by omega))

theorem parseRS_serRS (r s : Nat) (hr : r < 2 ^ 256) (hs : s < 2 ^ 256) : parseRS (serRS r s) = some (r, s) := by
  unfold serRS
  exact parseRS_complete _ _ r s (derInt_isDer r) (derInt_isDer s) (derInt_length_le_33 r hr) (derInt_length_le_33 s hs)

theorem parseRS_strict (b : Bytes) (r s : Nat) (h : parseRS b = some (r, s)) : b = serRS r s := by
  obtain ⟨x, y, hx, hy, _, _, rfl⟩ := parseRS_sound b r s h
  rw [isDer_unique x r hx, isDer_unique y s hy]
  rfl

theorem parseRS_lt (b : Bytes) (r s : Nat) (h : parseRS b = some (r, s)) : r < 2 ^ 264 ∧ s < 2 ^ 264 := by
  obtain ⟨x, y, hx, hy, hxl, hyl, _⟩ := parseRS_sound b r s h
  have h1 := ofBe_lt x
  have h2 := ofBe_lt y
  rw [hx.value] at h1; rw [hy.value] at h2
  have e : (2:Nat) ^ 264 = 256 ^ 33 := by rw [pow256]
  rw [e]
  exact ⟨lt_of_lt_of_le h1 (Nat.pow_le_pow_right (by norm_num) hxl),
         lt_of_lt_of_le h2 (Nat.pow_le_pow_right (by norm_num) hyl)⟩

/-- strict BIP66 encoding in the sense of the specification -/
theorem serRS_isDerSig (r s : Nat) (hr : r < 2 ^ 256) (hs : s < 2 ^ 256) : IsDerSig (serRS r s) r s := by
  refine ⟨derInt r, derInt s, derInt_isDer r, derInt_isDer s, ?_, rfl⟩
  have := derInt_length_le_33 r hr
  have := derInt_length_le_33 s hs
  omega

theorem serRS_length (r s : Nat) : (serRS r s).length = 6 + (derInt r).length + (derInt s).length := by
  simp [serRS]; omega

end Embit
