import EmbitModel.Proofs.Bech32Cross
import EmbitModel.Proofs.Bech32DetectAll
import EmbitModel.Proofs.AddressComplete
/-
  The cross-variant neighbour lifted to bech32 strings and to `address_to_scriptpubkey`.
-/
namespace Embit.Model.Bech32.Cross
open Embit Gf2 Detect

/-- the cross-variant neighbour of a string whose data part has 59 characters: the symbol values of the last 59
    characters XOR `crossPattern` (four characters change: the witness version `q`↔`p` and those at offsets
    45, 36, 16 from the end) -/
def neighbour (a : List Char) : List Char :=
  a.take (a.length - 59)
    ++ (xorW ((a.drop (a.length - 59)).map (fun c => (charVal c).getD 0)) crossPattern).map chr

theorem neighbour_text (hrp : List Char) (vals : List Nat) (hl : vals.length = 59) (hv : ∀ v ∈ vals, v < 32) :
    neighbour (hrp ++ '1' :: vals.map chr) = hrp ++ '1' :: (xorW vals crossPattern).map chr := by
  unfold neighbour
  have hlen : (hrp ++ '1' :: vals.map chr).length - 59 = (hrp ++ ['1']).length := by simp [hl]
  have e : hrp ++ '1' :: vals.map chr = (hrp ++ ['1']) ++ vals.map chr := by simp
  rw [hlen, e, List.take_left, List.drop_left, List.map_map]
  have : vals.map ((fun c => (charVal c).getD 0) ∘ chr) = vals := by
    conv => rhs; rw [← List.map_id vals]
    apply List.map_congr_left
    intro d hd
    simp [(chr_props d (hv d hd)).1]
  rw [this]; simp

theorem charHamming_xorW (u p : List Nat) (hl : u.length = p.length) (hu : ∀ x ∈ u, x < 32)
    (hp : ∀ x ∈ p, x < 32) : charHamming (u.map chr) ((xorW u p).map chr) = weight p := by
  induction u generalizing p with
  | nil => cases p with
    | nil => rfl
    | cons _ _ => simp at hl
  | cons x xs ih =>
    cases p with
    | nil => simp at hl
    | cons y ys =>
      simp only [xorW, List.map_cons, charHamming, weight]
      rw [ih ys (by simpa using hl) (fun z hz => hu z (by simp [hz])) (fun z hz => hp z (by simp [hz]))]
      congr 1
      by_cases hy : y = 0
      · subst hy; simp
      · have hx32 := hu x (by simp)
        have hy32 := hp y (by simp)
        have hxy : x ^^^ y < 32 := Nat.xor_lt_two_pow (n := 5) hx32 hy32
        have hne : chr x ≠ chr (x ^^^ y) := by
          intro e
          have := chr_inj x (x ^^^ y) hx32 hxy e
          have h0 : x ^^^ (x ^^^ y) = 0 := by rw [← this, Nat.xor_self]
          rw [← Nat.xor_assoc, Nat.xor_self, Nat.zero_xor] at h0
          exact hy h0
        simp [hne, hy]

/-- the neighbour has the same length and differs in exactly four characters -/
theorem neighbour_hamming (hrp : List Char) (vals : List Nat) (hl : vals.length = 59) (hv : ∀ v ∈ vals, v < 32) :
    (neighbour (hrp ++ '1' :: vals.map chr)).length = (hrp ++ '1' :: vals.map chr).length
    ∧ charHamming (hrp ++ '1' :: vals.map chr) (neighbour (hrp ++ '1' :: vals.map chr)) = 4 := by
  rw [neighbour_text hrp vals hl hv]
  refine ⟨by simp [xorW_length vals crossPattern (by rw [hl, crossPattern_length])], ?_⟩
  have e1 : hrp ++ '1' :: vals.map chr = (hrp ++ ['1']) ++ vals.map chr := by simp
  have e2 : hrp ++ '1' :: (xorW vals crossPattern).map chr = (hrp ++ ['1']) ++ (xorW vals crossPattern).map chr := by simp
  rw [e1, e2, charHamming_prefix, charHamming_xorW vals crossPattern (by rw [hl, crossPattern_length]) hv crossPattern_lt]
  decide

theorem const_xor (e e' : Encoding) (h : e ≠ e') : e.const ^^^ e'.const = crossT := by
  cases e <;> cases e' <;> first | exact absurd rfl h | decide

/-- strings: two strings of the same length with a 59-character data part that `bech32_decode` accepts with the
    same human-readable part but *different* checksum variants, whose first data symbols differ by XOR 1 and that
    differ in at most four characters: the second is (up to case) the neighbour of the first -/
theorem cross_strings (s s' : List Char) (e e' : Encoding) (h : List Char) (v v' : Nat) (d d' : List Nat)
    (hd : bech32Decode s = some (e, h, v :: d)) (hd' : bech32Decode s' = some (e', h, v' :: d'))
    (he : e ≠ e') (hvv : v ^^^ v' = 1) (hlen : s.length = s'.length) (hN : s.length = h.length + 60)
    (hham : charHamming s s' ≤ 4) : lower s' = neighbour (lower s) := by
  obtain ⟨vals, h1, h2, _, h4, h5, _, _⟩ := bech32Decode_some s e h _ hd
  obtain ⟨vals', h1', h2', _, h4', h5', _, _⟩ := bech32Decode_some s' e' h _ hd'
  have hl : (lower s).length = (lower s').length := by simp [lower, hlen]
  have hvl59 : vals.length = 59 := by
    have : (lower s).length = s.length := by simp [lower]
    rw [h1] at this; simp at this; omega
  have hvl : vals.length = vals'.length := by
    rw [h1, h1'] at hl; simpa using hl
  have hc : charHamming (vals.map chr) (vals'.map chr) ≤ 4 := by
    have a1 := charHamming_map Char.toLower s s'
    have a2 : charHamming (lower s) (lower s') = charHamming (vals.map chr) (vals'.map chr) := by
      rw [h1, h1']
      have := charHamming_prefix (h ++ ['1']) (vals.map chr) (vals'.map chr)
      simpa using this
    unfold lower at a2
    omega
  have hh : hamming vals vals' ≤ 4 := Nat.le_trans (hamming_le_chars vals vals' h2 h2') hc
  have hhead : (xorW vals vals').head? = some 1 := by
    cases vals with
    | nil => simp at hvl59
    | cons x t =>
      cases vals' with
      | nil => simp at hvl
      | cons x' t' =>
        have e1 : x = v := by
          rw [hvl59] at h5; simp at h5; exact h5.1.symm
        have e2 : x' = v' := by
          rw [← hvl, hvl59] at h5'; simp at h5'; exact h5'.1.symm
        simp [xorW, e1, e2, hvv]
  rw [verifyChecksum_eq_some] at h4 h4'
  have hw := cross_words 1 (hrpExpand h) vals vals' hvl59 (by rw [← hvl, hvl59]) h2 h2' hh hhead
    (by unfold polymod at h4 h4'; rw [h4, h4']; exact const_xor e e' he)
  have hv' : vals' = xorW vals crossPattern := by
    rw [← hw, xorW_xorW vals vals' hvl]
  rw [h1, h1', neighbour_text h vals hvl59 h2, hv']

end Embit.Model.Bech32.Cross

namespace Embit.Model.Address
open Embit Bech32 Bech32.Detect Bech32.Cross

theorem bech32Decode_segwitText (net : Network) (hn : NetOk net) (ver : Nat) (h : Bytes) (hv : ver ≤ 1)
    (hl : h.length = 20 ∨ h.length = 32) :
    bech32Decode (segwitText net.bech32 ver (convOf h)) = some (encOf ver, net.bech32, ver :: convOf h) := by
  have hok := segwitOk_of net hn ver h hv hl
  have hdata : ∀ d ∈ ver :: convOf h, d < 32 := by
    intro d hd; simp at hd; rcases hd with rfl | hd
    · omega
    · exact convOf_lt h d hd
  have hlen90 : net.bech32.length + 1 + (ver :: convOf h).length + 6 ≤ 90 := by
    have htot := hok.total
    rw [List.length_cons, convOf_length]
    simp at htot; omega
  exact bech32Decode_encode (encOf ver) net.bech32 (ver :: convOf h) hn.hrpOk hdata hlen90

/-- a string of the same length within four substitutions of a segwit address, with the same human-readable
    part and not equal to it up to case, that the segwit branch accepts, is valid for the *other* variant -/
theorem le4_other_variant (nets : List Network) (net : Network) (hn : NetOk net) (ver : Nat) (h : Bytes)
    (hv : ver ≤ 1) (hl : h.length = 20 ∨ h.length = 32) (s' : List Char) (sc : Bytes)
    (hlen : (segwitText net.bech32 ver (convOf h)).length = s'.length)
    (hham : charHamming (segwitText net.bech32 ver (convOf h)) s' ≤ 4)
    (hne : lower (segwitText net.bech32 ver (convOf h)) ≠ lower s')
    (hsplit : splitOne s' = net.bech32) (hb : bech32Branch true nets s' = some sc) :
    ∃ ver' prog data, ver' ≤ 1 ∧ ver' ≠ ver
      ∧ bech32Decode s' = some (encOf ver', net.bech32, ver' :: data)
      ∧ convertbits data 5 8 false = some prog ∧ (ver' = 1 → prog.length = 32) := by
  have hda := bech32Decode_segwitText net hn ver h hv hl
  obtain ⟨_, ver', prog, hdec, hvp, _⟩ := bech32Branch_yields nets s' sc hb
  rw [hsplit] at hdec
  obtain ⟨_, _, _, _, data, hbd, hcb⟩ := decode_some_rules _ s' ver' prog hdec
  have hv' : ver' ≤ 1 := by rcases hvp with ⟨e, _⟩ | ⟨e, _⟩ <;> omega
  refine ⟨ver', prog, data, hv', ?_, hbd, hcb, ?_⟩
  · intro e
    rw [e] at hbd
    exact hne (detect_strings topCheck_W _ s' (encOf ver) net.bech32 _ _ hda hbd hlen hham)
  · intro e
    rcases hvp with ⟨e0, _⟩ | ⟨_, h32⟩
    · omega
    · exact h32

/-- p2wpkh (20-byte v0 program): no accepted neighbour at all -/
theorem le4_p2wpkh_none (nets : List Network) (net : Network) (hn : NetOk net) (h : Bytes)
    (hl : h.length = 20) (s' : List Char)
    (hlen : (segwitText net.bech32 0 (convOf h)).length = s'.length)
    (hham : charHamming (segwitText net.bech32 0 (convOf h)) s' ≤ 4)
    (hne : lower (segwitText net.bech32 0 (convOf h)) ≠ lower s')
    (hsplit : splitOne s' = net.bech32) : bech32Branch true nets s' = none := by
  cases hb : bech32Branch true nets s' with
  | none => rfl
  | some sc =>
    exfalso
    obtain ⟨ver', prog, data, hv', hnev, hbd, hcb, h32⟩ :=
      le4_other_variant nets net hn 0 h (by decide) (Or.inl hl) s' sc hlen hham hne hsplit hb
    have hver : ver' = 1 := by omega
    have hp32 := h32 hver
    obtain ⟨vals, h1, h2, _, _, h5, _, _⟩ := bech32Decode_some s' _ _ _ hbd
    have hvl : vals.length = 39 := by
      have e : (lower s').length = s'.length := by simp [lower]
      rw [h1, ← hlen, segwitText_length, convOf_length, hl] at e
      simp at e; omega
    have hdl : data.length = 32 := by
      have := congrArg List.length h5
      rw [hvl] at this; simp at this; omega
    have hd32 : ∀ x ∈ data, x < 32 := by
      intro x hx
      have : x ∈ ver' :: data := by simp [hx]
      rw [h5] at this
      exact h2 x (List.mem_of_mem_take this)
    obtain ⟨_, hle, _, _⟩ := convertbits_5_8_back data prog hd32 hcb
    omega

/-- 32-byte programs (p2wsh ↔ p2tr): an accepted neighbour is exactly `neighbour` of the address -/
theorem le4_cross_only (nets : List Network) (net : Network) (hn : NetOk net) (ver : Nat) (h : Bytes)
    (hv : ver ≤ 1) (hl : h.length = 32) (s' : List Char) (sc : Bytes)
    (hlen : (segwitText net.bech32 ver (convOf h)).length = s'.length)
    (hham : charHamming (segwitText net.bech32 ver (convOf h)) s' ≤ 4)
    (hne : lower (segwitText net.bech32 ver (convOf h)) ≠ lower s')
    (hsplit : splitOne s' = net.bech32) (hb : bech32Branch true nets s' = some sc) :
    lower s' = neighbour (segwitText net.bech32 ver (convOf h)) := by
  obtain ⟨ver', prog, data, hv', hnev, hbd, _, _⟩ :=
    le4_other_variant nets net hn ver h hv (Or.inr hl) s' sc hlen hham hne hsplit hb
  have hda := bech32Decode_segwitText net hn ver h hv (Or.inr hl)
  have henc : encOf ver ≠ encOf ver' := by
    unfold encOf
    have : ver = 0 ∧ ver' = 1 ∨ ver = 1 ∧ ver' = 0 := by omega
    rcases this with ⟨rfl, rfl⟩ | ⟨rfl, rfl⟩ <;> decide
  have hxor : ver ^^^ ver' = 1 := by
    have : ver = 0 ∧ ver' = 1 ∨ ver = 1 ∧ ver' = 0 := by omega
    rcases this with ⟨rfl, rfl⟩ | ⟨rfl, rfl⟩ <;> decide
  have hN : (segwitText net.bech32 ver (convOf h)).length = net.bech32.length + 60 := by
    rw [segwitText_length, convOf_length, hl]
  have := cross_strings _ s' _ _ net.bech32 ver ver' _ _ hda hbd henc hxor hlen hN hham
  rw [this, segwitText_lower net.bech32 ver _ hn.hrpOk (by omega) (convOf_lt h)]

/-! ### the neighbour is itself a valid address of the other type -/

/-- 5→8 regrouping only looks at the last symbol to decide whether the padding is acceptable -/
theorem convertbits_5_8_same_last (f f' : List Nat) (x : Nat) (hlen : f.length = f'.length)
    (hf : ∀ v ∈ f, v < 32) (hf' : ∀ v ∈ f', v < 32) (hx : x < 32) (prog : List Nat)
    (h : convertbits (f ++ [x]) 5 8 false = some prog) :
    ∃ prog', convertbits (f' ++ [x]) 5 8 false = some prog' := by
  have hd : ∀ v ∈ f ++ [x], v < 2 ^ 5 := by
    intro v hv; simp at hv; rcases hv with hv | rfl
    · exact hf v hv
    · exact hx
  have hd' : ∀ v ∈ f' ++ [x], v < 2 ^ 5 := by
    intro v hv; simp at hv; rcases hv with hv | rfl
    · exact hf' v hv
    · exact hx
  have hs := convertbits_spec 5 8 (by decide) (by decide) (f ++ [x]) hd false
  have hs' := convertbits_spec 5 8 (by decide) (by decide) (f' ++ [x]) hd' false
  rw [h] at hs
  simp only [valOf, Bool.false_eq_true, if_false] at hs hs'
  have hll : (f' ++ [x]).length = (f ++ [x]).length := by simp [hlen]
  rw [hll] at hs'
  split at hs
  · simp at hs
  · rename_i hc
    simp only [not_or, Nat.not_le, Decidable.not_not] at hc
    obtain ⟨hb, hz⟩ := hc
    have key : ∀ (g : List Nat), Digits.ofBE (2 ^ 5) (g ++ [x]) % 2 ^ (5 * (f ++ [x]).length % 8)
        = x % 2 ^ (5 * (f ++ [x]).length % 8) := by
      intro g
      rw [Digits.ofBE_append]
      have e1 : Digits.ofBE (2 ^ 5) [x] = x := by simp [Digits.ofBE]
      rw [e1]
      generalize 5 * (f ++ [x]).length % 8 = bits at hb
      have : bits = 0 ∨ bits = 1 ∨ bits = 2 ∨ bits = 3 ∨ bits = 4 := by omega
      rcases this with rfl | rfl | rfl | rfl | rfl <;> simp <;> omega
    have hz' : Digits.ofBE (2 ^ 5) (f' ++ [x]) % 2 ^ (5 * (f ++ [x]).length % 8) = 0 := by
      rw [key f', ← key f]; exact hz
    rw [if_neg (by simp only [not_or, Nat.not_le, Decidable.not_not]; exact ⟨hb, hz'⟩)] at hs'
    exact ⟨_, hs'⟩

/-- `crossPattern` = version symbol, 51 program symbols, the last program symbol (untouched), the checksum
    (untouched) -/
def progPattern : List Nat := (crossPattern.drop 1).take 51

theorem crossPattern_split : crossPattern = 1 :: (progPattern ++ [0]) ++ [0, 0, 0, 0, 0, 0] := by decide

theorem progPattern_props : progPattern.length = 51 ∧ ∀ x ∈ progPattern, x < 32 := by decide

theorem const_cross (ver : Nat) (hv : ver ≤ 1) : (encOf ver).const ^^^ crossT = (encOf (1 - ver)).const := by
  have : ver = 0 ∨ ver = 1 := by omega
  rcases this with rfl | rfl <;> decide

theorem xorW_zeros6 (c : List Nat) (h : c.length = 6) : xorW c [0, 0, 0, 0, 0, 0] = c := by
  have := xorW_zeros_right c
  rw [h] at this; exact this

/-- the neighbour of the address of a 32-byte v0/v1 program is the canonical address of a 32-byte program of the
    other version, and `address_to_scriptpubkey` accepts it -/
theorem neighbour_accepted (dsha : Bytes → Bytes) (nets : List Network) (net : Network) (hn : NetOk net)
    (hmem : net ∈ nets) (ver : Nat) (h : Bytes) (hv : ver ≤ 1) (hl : h.length = 32) :
    ∃ h' : Bytes, h'.length = 32
      ∧ neighbour (segwitText net.bech32 ver (convOf h)) = segwitText net.bech32 (1 - ver) (convOf h')
      ∧ toScript dsha nets (neighbour (segwitText net.bech32 ver (convOf h)))
          = some (some (UInt8.ofNat (if 1 - ver > 0 then 1 - ver + 0x50 else 1 - ver) :: UInt8.ofNat h'.length :: h')) := by
  -- the data part of the address
  have hb256 : ∀ v ∈ h.map UInt8.toNat, v < 256 := by
    intro v hv'; simp at hv'; obtain ⟨x, _, rfl⟩ := hv'; exact x.toNat_lt
  obtain ⟨conv, hc1, hc32, _, _, hback⟩ := convertbits_8_5_8 (h.map UInt8.toNat) hb256
  have hconv : convOf h = conv := by simp [convOf, hc1]
  have hclen : conv.length = 52 := by rw [← hconv, convOf_length, hl]
  -- split off the last program symbol
  obtain ⟨cf, x, hcf⟩ : ∃ cf x, conv = cf ++ [x] := by
    refine ⟨conv.dropLast, conv.getLast (by intro e; rw [e] at hclen; simp at hclen), ?_⟩
    exact (List.dropLast_concat_getLast _).symm
  have hcfl : cf.length = 51 := by rw [hcf] at hclen; simp at hclen; omega
  have hcf32 : ∀ v ∈ cf, v < 32 := fun v hv' => hc32 v (by rw [hcf]; simp [hv'])
  have hx32 : x < 32 := hc32 x (by rw [hcf]; simp)
  obtain ⟨ppl, pp32⟩ := progPattern_props
  let cf' := xorW cf progPattern
  have hcf'32 : ∀ v ∈ cf', v < 32 := xorW_lt cf progPattern hcf32 pp32
  have hcf'l : cf'.length = 51 := by rw [xorW_length cf progPattern (by rw [hcfl, ppl]), hcfl]
  -- the new program
  rw [hcf] at hback
  obtain ⟨prog', hp'⟩ := convertbits_5_8_same_last cf cf' x (by rw [hcfl, hcf'l]) hcf32 hcf'32 hx32 _ hback
  have hconv'32 : ∀ v ∈ cf' ++ [x], v < 32 := by
    intro v hv'; simp at hv'; rcases hv' with hv' | rfl
    · exact hcf'32 v hv'
    · exact hx32
  obtain ⟨hp256, hle, hlt, hfwd⟩ := convertbits_5_8_back (cf' ++ [x]) prog' hconv'32 hp'
  have hp'l : prog'.length = 32 := by simp [hcf'l] at hle hlt; omega
  let h' : Bytes := prog'.map UInt8.ofNat
  have hh' : h'.map UInt8.toNat = prog' := by
    simp only [h', List.map_map]
    conv => rhs; rw [← List.map_id prog']
    apply List.map_congr_left
    intro v hv'
    have := hp256 v hv'
    simp [UInt8.toNat_ofNat']; omega
  have hh'l : h'.length = 32 := by simp [h', hp'l]
  have hconv' : convOf h' = cf' ++ [x] := by unfold convOf; rw [hh', hfwd]; rfl
  -- the neighbour text
  let cks := createChecksum (encOf ver) net.bech32 (ver :: conv)
  have hcksl : cks.length = 6 := createChecksum_length _ _ _
  have hcks32 : ∀ v ∈ cks, v < 32 := createChecksum_lt _ _ _
  have hvals32 : ∀ v ∈ (ver :: conv) ++ cks, v < 32 := by
    intro v hv'; simp at hv'; rcases hv' with rfl | hv' | hv'
    · omega
    · exact hc32 v hv'
    · exact hcks32 v hv'
  have hvalsl : ((ver :: conv) ++ cks).length = 59 := by simp [hclen, hcksl]
  have hxv : ver ^^^ 1 = 1 - ver := by
    have : ver = 0 ∨ ver = 1 := by omega
    rcases this with rfl | rfl <;> decide
  have hxw : xorW ((ver :: conv) ++ cks) crossPattern = ((1 - ver) :: (cf' ++ [x])) ++ cks := by
    rw [crossPattern_split, hcf]
    rw [xorW_append (ver :: (cf ++ [x])) cks (1 :: (progPattern ++ [0])) _ (by simp [hcfl, ppl])]
    rw [xorW_zeros6 cks hcksl]
    simp only [xorW, hxv]
    rw [xorW_append cf [x] progPattern [0] (by rw [hcfl, ppl])]
    simp [xorW, cf']
  have htext : neighbour (segwitText net.bech32 ver (convOf h))
      = net.bech32 ++ '1' :: (((1 - ver) :: (cf' ++ [x])) ++ cks).map chr := by
    have : segwitText net.bech32 ver (convOf h) = net.bech32 ++ '1' :: (((ver :: conv) ++ cks).map chr) := by
      rw [hconv]; simp [segwitText, cks]
    rw [this, neighbour_text net.bech32 _ hvalsl hvals32, hxw]
  -- its checksum is the one of the other variant
  have hpm : polymod (hrpExpand net.bech32 ++ ((1 - ver) :: (cf' ++ [x])) ++ cks) = (encOf (1 - ver)).const := by
    have h0 := polymod_createChecksum (encOf ver) net.bech32 (ver :: conv)
    have hx := polymodFrom_xor 1 0 (hrpExpand net.bech32 ++ ((ver :: conv) ++ cks))
      (List.replicate (hrpExpand net.bech32).length 0 ++ crossPattern)
      (by simp [hclen, hcksl, crossPattern_length])
    rw [xorW_append _ _ _ _ (by simp), xorW_zeros_right, hxw, polymodFrom_append _ (List.replicate _ _),
      polymodFrom_zeros, crossPattern_syndrome] at hx
    simp only [Nat.xor_zero] at hx
    unfold polymod at h0 ⊢
    rw [List.append_assoc] at h0
    rw [List.append_assoc, hx, h0]
    exact const_cross ver hv
  have hck := checksum_unique (encOf (1 - ver)) net.bech32 ((1 - ver) :: (cf' ++ [x])) cks hcks32 hcksl hpm
  have htext2 : neighbour (segwitText net.bech32 ver (convOf h)) = segwitText net.bech32 (1 - ver) (convOf h') := by
    rw [htext, hconv']
    unfold segwitText
    rw [← hck]; simp
  refine ⟨h', hh'l, htext2, ?_⟩
  rw [htext2]
  have hlong : 35 < (segwitText net.bech32 (1 - ver) (convOf h')).length := by
    rw [segwitText_length, convOf_length, hh'l]; omega
  rw [toScript_long dsha nets _ hlong,
    bech32Branch_text nets net hn hmem (1 - ver) h' (by omega) (Or.inr hh'l) (fun _ => hh'l)]
  rfl

/-! ### the two 32-byte templates -/

/-- the p2wsh (`ver = 0`) / p2tr (`ver = 1`) template of a 32-byte program -/
def std32 (ver : Nat) (h : Bytes) : Spec.Address.Std := if ver = 0 then .p2wsh h else .p2tr h

theorem std32_text (sha : Bytes → Bytes) (net : Network) (ver : Nat) (h : Bytes) (hv : ver ≤ 1) :
    Spec.Address.addressOf sha (paramsOf net) (std32 ver h) = segwitText net.bech32 ver (convOf h) := by
  have : ver = 0 ∨ ver = 1 := by omega
  rcases this with rfl | rfl
  · simp only [std32, if_true, Spec.Address.addressOf, paramsOf]; exact (segwitText_eq_spec _ 0 h (by decide)).symm
  · simp only [std32, Spec.Address.addressOf, paramsOf]; exact (segwitText_eq_spec _ 1 h (by decide)).symm

theorem std32_script (ver : Nat) (h : Bytes) (hv : ver ≤ 1) (hl : h.length = 32) :
    (std32 ver h).script = UInt8.ofNat (if ver > 0 then ver + 0x50 else ver) :: UInt8.ofNat h.length :: h := by
  have : ver = 0 ∨ ver = 1 := by omega
  rcases this with rfl | rfl <;> simp [std32, Spec.Address.Std.script, hl]

end Embit.Model.Address
