import EmbitModel.Model.ViewSighash
/-
  C01X helpers: the view's streaming digests equal the `Transaction` digests of any transaction the view's
  accessors describe (`ViewObs`), and the list lemmas behind that.
-/
set_option linter.unusedSimpArgs false
set_option linter.unusedVariables false
namespace Embit
open Model

/-- reading a list back index by index -/
theorem optAll_range_getElem? {α : Type} : ∀ (l : List α),
    optAll ((List.range l.length).map (fun i => l[i]?)) = some l := by
  intro l
  induction l with
  | nil => rfl
  | cons a l ih =>
    rw [List.length_cons, List.range_succ_eq_map, List.map_cons, List.map_map]
    have : ((fun i => (a :: l)[i]?) ∘ Nat.succ) = fun i => l[i]? := by
      funext i; simp
    rw [this]
    simp [optAll, ih]

theorem optAll_range_congr {α : Type} (n : Nat) (f g : Nat → Option α) (h : ∀ i, f i = g i) :
    optAll ((List.range n).map f) = optAll ((List.range n).map g) := by
  have : f = g := funext h
  rw [this]

/-- `optAll` of a pointwise image: the result lists what each element maps to -/
theorem optAll_getElem? {α β : Type} (f : α → Option β) : ∀ (l : List α) (l' : List β),
    optAll (l.map f) = some l' → l'.length = l.length ∧ ∀ i : Nat, l'[i]? = (l[i]?).bind f := by
  intro l
  induction l with
  | nil => intro l' h; simp [optAll] at h; subst h; simp
  | cons a l ih =>
    intro l' h
    simp only [List.map_cons] at h
    cases hfa : f a with
    | none => rw [hfa] at h; simp [optAll] at h
    | some b =>
      rw [hfa] at h
      simp only [optAll] at h
      cases hr : optAll (l.map f) with
      | none => rw [hr] at h; simp at h
      | some r =>
        rw [hr] at h; simp at h; subst h
        obtain ⟨e1, e2⟩ := ih r hr
        refine ⟨by simp [e1], ?_⟩
        intro i
        cases i with
        | zero => simp [hfa]
        | succ i => simpa using e2 i

/-- walking a list by index with a partial map is mapping the list -/
theorem range_bind_eq_map {α β : Type} (f : α → Option β) (l : List α) :
    (List.range l.length).map (fun i => (l[i]?).bind f) = l.map f := by
  apply List.ext_getElem?
  intro i
  by_cases hi : i < l.length
  · simp [hi, List.getElem?_eq_getElem hi]
  · have : l.length ≤ i := by omega
    simp [hi, List.getElem?_eq_none this]

/-- what the view's accessors report is the transaction `t` -/
structure ViewObs (buf : Bytes) (v : View) (t : Tx) : Prop where
  numIn : v.numIn = t.vin.length
  numOut : v.numOut = t.vout.length
  vin : ∀ i, View.vin buf v i = t.vin[i]?
  vout : ∀ j, View.vout buf v j = t.vout[j]?
  locktime : View.getLocktime buf v = some t.locktime
  txVersion : View.getTxVersion buf v = some t.version

namespace ViewObs
variable {buf : Bytes} {v : View} {t : Tx}

theorem vins (o : ViewObs buf v t) : View.vins buf v = some t.vin := by
  unfold View.vins
  rw [o.numIn, optAll_range_congr _ _ _ o.vin]
  exact optAll_range_getElem? t.vin

theorem vouts (o : ViewObs buf v t) : View.vouts buf v = some t.vout := by
  unfold View.vouts
  rw [o.numOut, optAll_range_congr _ _ _ o.vout]
  exact optAll_range_getElem? t.vout

theorem hashPrevouts (o : ViewObs buf v t) (sha : Bytes → Bytes) :
    View.hashPrevouts sha buf v = some (sha (hashPrevoutsPre t)) := by
  simp [View.hashPrevouts, o.vins, hashPrevoutsPre]

theorem hashSequence (o : ViewObs buf v t) (sha : Bytes → Bytes) :
    View.hashSequence sha buf v = some (sha (hashSequencePre t)) := by
  simp [View.hashSequence, o.vins, hashSequencePre]

theorem hashOutputs (o : ViewObs buf v t) (sha : Bytes → Bytes) :
    View.hashOutputs sha buf v = some (sha (hashOutputsPre t)) := by
  simp [View.hashOutputs, o.vouts, hashOutputsPre]

end ViewObs

/-- the view's streaming legacy digest is the `Transaction.sighash_legacy` digest of the transaction it describes:
    every index, every flag (also invalid ones and out-of-range indices: both refuse) -/
theorem View.sighashLegacy_eq (sha : Bytes → Bytes) (buf : Bytes) (v : View) (t : Tx) (o : ViewObs buf v t)
    (idx : Nat) (sc : Bytes) (f : Nat) :
    View.sighashLegacy sha buf v idx sc f = sighashLegacy sha t idx sc f := by
  unfold View.sighashLegacy sighashLegacy
  rw [o.numIn, o.numOut, o.vins, o.vouts, o.vin idx, o.vout idx, o.txVersion, o.locktime]
  by_cases hi : idx ≥ t.vin.length
  · simp [hi]
  · simp only [hi, if_false]
    cases hc : sighashCheck f with
    | none => rfl
    | some r =>
      obtain ⟨sh0, acp⟩ := r
      simp only []
      generalize (if (sh0 == 0) = true then SIGHASH_ALL else sh0) = sh
      by_cases hS : (sh == SIGHASH_SINGLE && decide (idx ≥ t.vout.length)) = true
      · simp only [hS, if_true]
      · simp only [hS, if_false]
        generalize (if acp = true then _ else _ : Option Bytes) = ins
        generalize (if (sh == SIGHASH_NONE) = true then _ else _ : Option Bytes) = outs
        cases ins <;> cases outs <;> rfl

/-- the view's streaming BIP143 digest is `Transaction.sighash_segwit` of the transaction it describes -/
theorem View.sighashSegwit_eq (sha : Bytes → Bytes) (buf : Bytes) (v : View) (t : Tx) (o : ViewObs buf v t)
    (idx : Nat) (sc : Bytes) (value : Nat) (f : Nat) :
    View.sighashSegwit sha buf v idx sc value f = sighashSegwit sha t idx sc value f := by
  unfold View.sighashSegwit sighashSegwit
  rw [o.numIn, o.numOut, o.hashPrevouts, o.hashSequence, o.hashOutputs, o.vin idx, o.vout idx, o.txVersion,
    o.locktime]
  by_cases hi : idx ≥ t.vin.length
  · simp [hi]
  · simp only [hi, if_false]
    cases hc : sighashCheck f with
    | none => rfl
    | some r =>
      obtain ⟨sh0, acp⟩ := r
      simp only []
      generalize (if (sh0 == 0) = true then SIGHASH_ALL else sh0) = sh
      cases hv : t.vin[idx]? with
      | none => rfl
      | some inp =>
        simp only [Option.map_some]
        cases acp <;> by_cases h1 : (sh == SIGHASH_NONE || sh == SIGHASH_SINGLE) = true <;>
          by_cases h2 : (sh == SIGHASH_SINGLE && decide (idx < t.vout.length)) = true <;>
          cases hvo : t.vout[idx]? <;>
          simp [h1, h2, hvo]
        all_goals
          -- SINGLE with a matching output but `vout[idx]? = none` is impossible
          simp only [Bool.and_eq_true, decide_eq_true_eq] at h2
          rw [List.getElem?_eq_getElem h2.2] at hvo
          simp at hvo

/-- the view's streaming BIP341 digest is `Transaction.sighash_taproot` of the transaction it describes -/
theorem View.sighashTaproot_eq (sha : Bytes → Bytes) (buf : Bytes) (v : View) (t : Tx) (o : ViewObs buf v t)
    (idx : Nat) (spks : List Bytes) (values : List Nat) (f extFlag : Nat) (annex script : Option Bytes)
    (leafVer : Nat) (codesep : Option Nat) :
    View.sighashTaproot sha buf v idx spks values f extFlag annex script leafVer codesep
      = sighashTaproot sha t idx spks values f extFlag annex script leafVer codesep := by
  unfold View.sighashTaproot sighashTaproot
  rw [o.numIn, o.hashPrevouts, o.hashSequence, o.hashOutputs, o.vin idx, o.vout idx, o.txVersion, o.locktime]
  by_cases hi : idx ≥ t.vin.length
  · simp [hi]
  · simp only [hi, if_false]
    by_cases hl : values.length ≠ t.vin.length
    · simp [hl]
    · simp only [hl, if_false]
      by_cases hls : spks.length ≠ t.vin.length
      · simp [hls]
      simp only [hls, if_false]
      cases hc : sighashCheck f with
      | none => rfl
      | some r =>
        obtain ⟨sh, acp⟩ := r
        simp only []
        by_cases h80 : (acp && sh == 0) = true
        · simp [h80]
        simp only [h80, if_false]
        by_cases hf : f ≥ 256
        · simp [hf]
        · simp only [hf, if_false]
          by_cases hsp : 2 * extFlag + (if annex.isSome = true then 1 else 0) ≥ 256
          · simp [hsp]
          · simp only [hsp, if_false]
            generalize (if acp = true then
                (match t.vin[idx]?, values[idx]?, spks[idx]? with
                  | some inp, some a, some spk => _
                  | _, _, _ => none)
              else some (leN 4 idx) : Option Bytes) = thisIn
            generalize (if (sh == SIGHASH_SINGLE) = true then _ else some [] : Option Bytes) = single
            by_cases hlv : leafVer ≥ 256 <;>
              cases acp <;> by_cases h1 : (sh == SIGHASH_SINGLE || sh == SIGHASH_NONE) = true <;>
              cases thisIn <;> cases single <;> cases script <;> simp [h1, hlv, List.append_assoc] <;> rfl

/-- `PSBTView.sighash` equals `PSBT.sighash` whenever the view's scope objects are the PSBT's and its accessors
    describe the PSBT's transaction: same dispatch, then streaming digest = in-memory digest -/
theorem View.sighash_eq_psbt (ko : KeyOps) (sha : Bytes → Bytes) (buf : Bytes) (v : View) (vc : Nat) (p : Psbt)
    (t : Tx) (o : ViewObs buf v t) (htx : p.tx = some t) (hn : v.numIn = p.inputs.length)
    (hin : ∀ i, View.input ko sha buf v i vc = p.inputs[i]?) (i f : Nat) (x : TapExtra) :
    View.sighash ko sha buf v vc i f x = Psbt.sighash sha p i f x := by
  unfold View.sighash Psbt.sighash
  rw [hin i]
  cases hi : p.inputs[i]? with
  | none => rfl
  | some inp =>
    simp only [View.sighashWith]
    cases hu : inp.utxo with
    | none => rfl
    | some u =>
      simp only []
      have hall : (List.range v.numIn).map (fun idx => (View.input ko sha buf v idx vc).bind InScope.utxo)
          = p.inputs.map InScope.utxo := by
        rw [hn, ← range_bind_eq_map InScope.utxo p.inputs]
        apply List.map_congr_left
        intro idx _
        rw [hin idx]
      rw [hall, htx]
      rcases hd : inp.dispatch u with ⟨algo, sc⟩
      cases algo with
      | legacy => simp only []; exact View.sighashLegacy_eq sha buf v t o i sc f
      | segwit => simp only []; exact View.sighashSegwit_eq sha buf v t o i sc u.value f
      | taproot =>
        simp only []
        cases optAll (p.inputs.map InScope.utxo) with
        | none => rfl
        | some us => simp only []; exact View.sighashTaproot_eq sha buf v t o i _ _ f _ _ _ _ _

end Embit
