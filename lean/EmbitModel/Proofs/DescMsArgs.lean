import EmbitModel.Proofs.DescParseNormal
import EmbitModel.Proofs.MiniscriptX
/-
  C13 (audit item A-9 / X2): `Ms.parserArgs` proved OF WHAT THE PARSER PRODUCES.
  The character-level parser `readMs` (Model/Descriptor.lean) returns a `DMs K`; the script-level expression is
  `e.toMs (fragPayload ops h tap)` (the translation `compileMs` uses). Route: `readMs_normal` (Proofs/DescParseNormal)
  gives `MsNormal`; here `MsNormal e → e.toMs … = some m → m.argShape ctx`, by induction over `DMs`, and
  `argShape ∧ threshSmall ⇔ parserArgs`.
-/
namespace Embit.Model.Descriptor
open Embit Embit.Miniscript

variable {K : Type}

/-- what is assumed of the key objects and of HASH160 (laws, explicit hypotheses — never axioms): `.sec()` of every
    key object is a SEC encoding (33 bytes 02/03…, or 65 bytes 04…), HASH160 returns 20 bytes -/
structure SecLaws (ops : KeyOps K) (h : Hashes) : Prop where
  sec : ∀ k, secKey (ops.sec k) = true
  h160 : ∀ b, (h.hash160 b).length = 20

/-- the miniscript context of the parser's `taproot` flag -/
def msCtx (tap : Bool) : Ctx := if tap then .tap else .wsh

mutual
/-- `Ms.parserArgs` without the numeric bound on the threshold of `thresh` -/
def argShape (ctx : Ctx) : Ms → Bool
  | .key f a =>
    (match f with
      | .pk_k => keyShape ctx a
      | .pk => keyShape ctx a
      | .pk_h => a.length == 20
      | .pkh => a.length == 20)
  | .time _ _ => true
  | .hash f h =>
    (match f with
      | .sha256 => h.length == 32
      | .hash256 => h.length == 32
      | .ripemd160 => h.length == 20
      | .hash160 => h.length == 20)
  | .andor x y z => argShape ctx x && argShape ctx y && argShape ctx z
  | .bin _ x y => argShape ctx x && argShape ctx y
  | .thresh _ xs => argShapeL ctx xs
  | .multi _ _ keys => keys.all (keyShape ctx)
  | .wrap _ x => argShape ctx x
def argShapeL (ctx : Ctx) : List Ms → Bool
  | [] => true
  | x :: xs => argShape ctx x && argShapeL ctx xs
end

mutual
/-- every threshold of a `thresh` is below 2^256 (what `Ms.parserArgs` asks beyond the shapes; implied by
    `verify`, which wants `k ≤ number of sub-expressions`, for every expression of fewer than 2^256 nodes) -/
def threshSmall : Ms → Bool
  | .key _ _ => true
  | .time _ _ => true
  | .hash _ _ => true
  | .andor x y z => threshSmall x && threshSmall y && threshSmall z
  | .bin _ x y => threshSmall x && threshSmall y
  | .thresh k xs => decide (k < 2 ^ 256) && threshSmallL xs
  | .multi _ _ _ => true
  | .wrap _ x => threshSmall x
def threshSmallL : List Ms → Bool
  | [] => true
  | x :: xs => threshSmall x && threshSmallL xs
end

/-- `parserArgs` = shapes + small thresholds -/
theorem parserArgs_iff (ctx : Ctx) : ∀ e : Ms, e.parserArgs ctx = (argShape ctx e && threshSmall e) := by
  intro e
  induction e using Ms.ind with
  | key f a => cases f <;> simp [Ms.parserArgs, argShape, threshSmall]
  | time f n => simp [Ms.parserArgs, argShape, threshSmall]
  | hash f h => cases f <;> simp [Ms.parserArgs, argShape, threshSmall]
  | andor x y z ihx ihy ihz =>
    simp only [Ms.parserArgs, argShape, threshSmall, ihx, ihy, ihz]
    cases argShape ctx x <;> cases argShape ctx y <;> cases argShape ctx z <;> cases threshSmall x <;>
      cases threshSmall y <;> cases threshSmall z <;> rfl
  | bin f x y ihx ihy =>
    simp only [Ms.parserArgs, argShape, threshSmall, ihx, ihy]
    cases argShape ctx x <;> cases argShape ctx y <;> cases threshSmall x <;> cases threshSmall y <;> rfl
  | thresh k xs ih =>
    simp only [Ms.parserArgs, argShape, threshSmall]
    have : Ms.parserArgsL ctx xs = (argShapeL ctx xs && threshSmallL xs) := by
      induction xs with
      | nil => rfl
      | cons a r ihr =>
        simp only [Ms.parserArgsL, argShapeL, threshSmallL, ih a (by simp), ihr (fun x hx => ih x (by simp [hx]))]
        cases argShape ctx a <;> cases argShapeL ctx r <;> cases threshSmall a <;> cases threshSmallL r <;> rfl
    rw [this]
    cases decide (k < 2 ^ 256) <;> cases argShapeL ctx xs <;> cases threshSmallL xs <;> rfl
  | multi f k keys => simp [Ms.parserArgs, argShape, threshSmall]
  | wrap w x ih => simp only [Ms.parserArgs, argShape, threshSmall, ih]

/-! ### keys -/

theorem parseKeyText_obj (ops : KeyOps K) (tap : Bool) (kt : Str) (kv : KeyVal K) (xo : Bool)
    (h : parseKeyText ops tap kt = some (kv, xo)) : ∃ key, kv = .obj key := by
  unfold parseKeyText at h
  simp only [] at h
  split at h
  · split at h
    · simp at h
    · simp only [Option.map_eq_some_iff, Prod.mk.injEq] at h
      obtain ⟨key, _, rfl, _⟩ := h; exact ⟨key, rfl⟩
  · split at h
    · split at h
      · simp at h
      · simp only [Option.map_eq_some_iff, Prod.mk.injEq] at h
        obtain ⟨key, _, rfl, _⟩ := h; exact ⟨key, rfl⟩
    · split at h
      · simp only [Option.map_eq_some_iff, Prod.mk.injEq] at h
        obtain ⟨key, _, rfl, _⟩ := h; exact ⟨key, rfl⟩
      · simp only [Option.map_eq_some_iff, Prod.mk.injEq] at h
        obtain ⟨key, _, rfl, _⟩ := h; exact ⟨key, rfl⟩

theorem secKey_length {a : Bytes} (h : secKey a = true) : a.length = 33 ∨ a.length = 65 := by
  simp only [secKey, Bool.or_eq_true, Bool.and_eq_true, beq_iff_eq] at h
  rcases h with h | h
  · exact Or.inl h.1
  · exact Or.inr h.1

/-- `Key.serialize()` of a key object has the shape of the context: SEC in P2WSH, 32 bytes in tapscript -/
theorem keyBytes_shape (ops : KeyOps K) (h : Hashes) (hl : SecLaws ops h) (tap : Bool) (kv : KeyVal K) (b : Bytes)
    (hb : keyBytes ops tap kv = some b) : keyShape (msCtx tap) b = true := by
  cases kv with
  | raw s => simp [keyBytes] at hb
  | obj k =>
    simp only [keyBytes, Option.some.injEq] at hb
    subst hb
    cases tap with
    | false => simpa [msCtx, keyShape] using hl.sec k
    | true =>
      have := secKey_length (hl.sec k)
      simp only [msCtx, keyShape, if_true, beq_iff_eq, List.length_take, List.length_drop]
      omega

/-- `KeyHash.serialize()` of a parsed key-hash argument has 20 bytes -/
theorem keyHashBytes_length (ops : KeyOps K) (h : Hashes) (hl : SecLaws ops h) (tap : Bool) (k : KeyExpr K)
    (hn : KeyNormal ops tap true k) (b : Bytes) (hb : keyHashBytes ops h tap k.key = some b) : b.length = 20 := by
  obtain ⟨kt, hkt, _, _, _, hp⟩ := hn.text
  cases hk : k.key with
  | obj key =>
    simp only [hk, keyHashBytes, Option.some.injEq] at hb
    subst hb; exact hl.h160 _
  | raw s =>
    simp only [hk, keyHashBytes] at hb
    simp only [keyText, hk, Option.some.injEq] at hkt
    subst hkt
    simp only [if_true, hk] at hp
    unfold parseKeyHashText at hp
    split at hp
    · rename_i h40
      have := ofHexChars_length s.length s b (Nat.le_refl _) hb
      omega
    · obtain ⟨key, hkey⟩ := parseKeyText_obj ops tap s _ _ hp
      cases hkey

theorem mapOpt_all {α β : Type} (f : α → Option β) (P : β → Bool) (hf : ∀ a b, f a = some b → P b = true) :
    ∀ (l : List α) (l' : List β), mapOpt f l = some l' → l'.all P = true := by
  intro l
  induction l with
  | nil => intro l' h; simp [mapOpt] at h; subst h; rfl
  | cons a r ih =>
    intro l' h
    simp only [mapOpt] at h
    cases ha : f a with
    | none => simp [ha] at h
    | some b =>
      cases hr : mapOpt f r with
      | none => simp [ha, hr] at h
      | some r' =>
        simp [ha, hr] at h
        subst h
        simp only [List.all_cons, Bool.and_eq_true]
        exact ⟨hf a b ha, ih r' hr⟩

/-! ### expressions -/

/-- MAIN LEMMA: the script-level translation of a normal (= parser-produced) expression has parser-shaped arguments -/
theorem argShape_of_normal (ops : KeyOps K) (h : Hashes) (hl : SecLaws ops h) (tap : Bool) :
    ∀ (e : DMs K), MsNormal ops tap e → ∀ m, e.toMs (fragPayload ops h tap) = some m →
      argShape (msCtx tap) m = true := by
  intro e
  induction e using DMs.ind with
  | key f k =>
    intro hn m hm
    simp only [DMs.toMs, Option.map_eq_some_iff] at hm
    obtain ⟨b, hb, rfl⟩ := hm
    simp only [MsNormal] at hn
    cases f with
    | pk_k => exact keyBytes_shape ops h hl tap _ b hb
    | pk => exact keyBytes_shape ops h hl tap _ b hb
    | pk_h =>
      simp only [argShape, beq_iff_eq]
      exact keyHashBytes_length ops h hl tap k (by simpa using hn) b hb
    | pkh =>
      simp only [argShape, beq_iff_eq]
      exact keyHashBytes_length ops h hl tap k (by simpa using hn) b hb
  | time f n => intro _ m hm; simp only [DMs.toMs, Option.some.injEq] at hm; subst hm; rfl
  | hash f hh =>
    intro hn m hm
    simp only [DMs.toMs, Option.some.injEq] at hm; subst hm
    simp only [MsNormal] at hn
    cases f <;> simpa [argShape, hashFragLen] using hn
  | andor x y z ihx ihy ihz =>
    intro hn m hm
    simp only [MsNormal] at hn
    simp only [DMs.toMs] at hm
    split at hm
    · rename_i a b c ha hb hc
      simp only [Option.some.injEq] at hm; subst hm
      simp only [argShape, Bool.and_eq_true]
      exact ⟨⟨ihx hn.1 a ha, ihy hn.2.1 b hb⟩, ihz hn.2.2 c hc⟩
    · simp at hm
  | bin f x y ihx ihy =>
    intro hn m hm
    simp only [MsNormal] at hn
    simp only [DMs.toMs] at hm
    split at hm
    · rename_i a b ha hb
      simp only [Option.some.injEq] at hm; subst hm
      simp only [argShape, Bool.and_eq_true]
      exact ⟨ihx hn.1 a ha, ihy hn.2 b hb⟩
    · simp at hm
  | thresh k xs ih =>
    intro hn m hm
    simp only [MsNormal] at hn
    simp only [DMs.toMs, Option.map_eq_some_iff] at hm
    obtain ⟨l, hl', rfl⟩ := hm
    simp only [argShape]
    clear k
    induction xs generalizing l with
    | nil => simp [DMs.toMsL] at hl'; subst hl'; rfl
    | cons a r ihr =>
      simp only [DMs.toMsL] at hl'
      simp only [MsNormalL] at hn
      split at hl'
      · rename_i a' r' ha hr
        simp only [Option.some.injEq] at hl'; subst hl'
        simp only [argShapeL, Bool.and_eq_true]
        exact ⟨ih a (by simp) hn.1 a' ha, ihr (fun x hx => ih x (by simp [hx])) hn.2 r' hr⟩
      · simp at hl'
  | multi f k keys =>
    intro hn m hm
    simp only [MsNormal] at hn
    simp only [DMs.toMs, Option.map_eq_some_iff] at hm
    obtain ⟨l, hl', rfl⟩ := hm
    simp only [argShape]
    exact mapOpt_all _ _ (fun a b hab => keyBytes_shape ops h hl tap _ b hab) keys l hl'
  | wrap w x ih =>
    intro hn m hm
    simp only [MsNormal] at hn
    simp only [DMs.toMs, Option.map_eq_some_iff] at hm
    obtain ⟨a, ha, rfl⟩ := hm
    simp only [argShape]
    exact ih hn a ha

/-! ### the thresholds: small in every verified expression of fewer than 2^256 nodes -/

mutual
/-- number of nodes of an expression (keys of a multi count) -/
def nodeCount : Ms → Nat
  | .key _ _ => 1
  | .time _ _ => 1
  | .hash _ _ => 1
  | .andor x y z => 1 + nodeCount x + nodeCount y + nodeCount z
  | .bin _ x y => 1 + nodeCount x + nodeCount y
  | .thresh _ xs => 1 + nodeCountL xs
  | .multi _ _ keys => 1 + keys.length
  | .wrap _ x => 1 + nodeCount x
def nodeCountL : List Ms → Nat
  | [] => 0
  | x :: xs => nodeCount x + nodeCountL xs
end

theorem nodeCount_pos (e : Ms) : 1 ≤ nodeCount e := by
  cases e <;> simp only [nodeCount] <;> omega

theorem length_le_nodeCountL : ∀ xs : List Ms, xs.length ≤ nodeCountL xs := by
  intro xs
  induction xs with
  | nil => simp [nodeCountL]
  | cons a r ih => have := nodeCount_pos a; simp only [nodeCountL, List.length_cons]; omega

/-- `verify()` wants `1 ≤ k ≤ n` of a `thresh`, so the thresholds of a verified expression are below its size -/
theorem threshSmall_of_verify (ctx : Ctx) : ∀ e : Ms, Model.Miniscript.verify ctx e = true → nodeCount e < 2 ^ 256 →
    threshSmall e = true := by
  intro e
  induction e using Ms.ind with
  | key f a => intro _ _; rfl
  | time f n => intro _ _; rfl
  | hash f h => intro _ _; rfl
  | andor x y z ihx ihy ihz =>
    intro hv hn
    simp only [Model.Miniscript.verify, Bool.and_eq_true] at hv
    simp only [nodeCount] at hn
    simp only [threshSmall, Bool.and_eq_true]
    exact ⟨⟨ihx hv.1.1.1 (by omega), ihy hv.1.1.2 (by omega)⟩, ihz hv.1.2 (by omega)⟩
  | bin f x y ihx ihy =>
    intro hv hn
    simp only [Model.Miniscript.verify, Bool.and_eq_true] at hv
    simp only [nodeCount] at hn
    simp only [threshSmall, Bool.and_eq_true]
    exact ⟨ihx hv.1.1 (by omega), ihy hv.1.2 (by omega)⟩
  | thresh k xs ih =>
    intro hv hn
    simp only [Model.Miniscript.verify, Bool.and_eq_true] at hv
    simp only [nodeCount] at hn
    obtain ⟨hvl, htv⟩ := hv
    simp only [threshSmall, Bool.and_eq_true, decide_eq_true_eq]
    constructor
    · have hk : k < (Model.Miniscript.tpL ctx xs).length + 1 := by
        unfold Model.Miniscript.threshVerify at htv
        simp only [Bool.and_eq_true, Bool.not_eq_true', Bool.or_eq_false_iff, decide_eq_false_iff_not] at htv
        omega
      rw [Embit.Miniscript.tpL_length] at hk
      have := length_le_nodeCountL xs
      omega
    · have hb : nodeCountL xs < 2 ^ 256 := by omega
      clear htv hn
      induction xs with
      | nil => rfl
      | cons a r ihr =>
        simp only [Model.Miniscript.verifyL, Bool.and_eq_true] at hvl
        simp only [nodeCountL] at hb
        simp only [threshSmallL, Bool.and_eq_true]
        exact ⟨ih a (by simp) hvl.1 (by omega), ihr (fun x hx => ih x (by simp [hx])) hvl.2 (by omega)⟩
  | multi f k keys => intro _ _; rfl
  | wrap w x ih =>
    intro hv hn
    simp only [Model.Miniscript.verify, Bool.and_eq_true] at hv
    simp only [nodeCount] at hn
    simp only [threshSmall]
    exact ih hv.1 (by omega)

end Embit.Model.Descriptor
