import EmbitModel.Model.ViewSignBytes
import EmbitModel.Proofs.SignWithViewEq
import EmbitModel.Proofs.SignWithValid
/-
  B-2 of audit2: the two Lean models of `PSBT.sighash` — `Model.Psbt.sighash` (Model/ViewSighash.lean, C01X) and
  `SignWith.psbtSighash` (Model/SignWith.lean, C02X / C02Y) — related. They agree on every argument except a leaf
  argument on an existing non-taproot input (`leafOnNonTaproot`), where `psbtSighash` refuses and `Psbt.sighash`, like
  the code, ignores the keyword arguments. `sign_with` passes a leaf only for taproot inputs.
-/
set_option linter.unusedSimpArgs false
set_option linter.unusedVariables false
namespace Embit.Model.SignWith
open Embit Embit.Model

variable {HD : Type}

/-- the argument region in which the two models of `PSBT.sighash` are not the same function: a leaf argument
    (`ext_flag=1, script=…, leaf_version=…`) for an existing input with a utxo that is not taproot -/
def leafOnNonTaproot (p : Psbt) (i : Nat) (leaf : Option (Bytes × Nat)) : Bool :=
  leaf.isSome &&
    match p.inputs[i]? with
    | none => false
    | some inp =>
      match inp.utxo with
      | none => false
      | some u => !isTaprootSpk u.spk

theorem dispatch_taproot (spk : Bytes) (ws rs : Option Bytes) (hw : Bool) (h : isTaprootSpk spk = true) :
    sighashDispatch spk ws rs hw = (Algo.taproot, spk) := by
  simp only [isTaprootSpk, decide_eq_true_eq] at h
  simp [sighashDispatch, h]

theorem dispatch_not_taproot (spk : Bytes) (ws rs : Option Bytes) (hw : Bool) (h : isTaprootSpk spk = false) :
    ∃ sc, sighashDispatch spk ws rs hw = (Algo.segwit, sc) ∨ sighashDispatch spk ws rs hw = (Algo.legacy, sc) := by
  simp only [isTaprootSpk, decide_eq_false_iff_not] at h
  unfold sighashDispatch
  rw [if_neg h]
  dsimp only
  split
  · exact ⟨_, Or.inl rfl⟩
  · exact ⟨_, Or.inr rfl⟩

/-- outside the region the two models are the same function -/
theorem psbtSighash_eq_model (sha : Bytes → Bytes) (p : Psbt) (i f : Nat) (leaf : Option (Bytes × Nat))
    (h : leafOnNonTaproot p i leaf = false) :
    psbtSighash sha p i f leaf = Psbt.sighash sha p i f (extraOf leaf) := by
  unfold psbtSighash Psbt.sighash
  unfold leafOnNonTaproot at h
  cases hi : p.inputs[i]? with
  | none => rfl
  | some inp =>
    rw [hi] at h
    cases hu : inp.utxo with
    | none => simp only [hu]
    | some u =>
      simp only [hu, InScope.dispatch] at h ⊢
      cases htap : isTaprootSpk u.spk with
      | true =>
        rw [dispatch_taproot _ _ _ _ htap]
        cases ht : p.tx with
        | none => cases optAll (p.inputs.map InScope.utxo) <;> rfl
        | some t =>
          simp only [if_true]
          cases optAll (p.inputs.map InScope.utxo) with
          | none => rfl
          | some us => cases leaf with
            | none => rfl
            | some l => rfl
      | false =>
        rw [htap] at h
        have hl : leaf = none := by cases leaf <;> simp_all
        subst hl
        obtain ⟨sc, hd | hd⟩ := dispatch_not_taproot u.spk inp.witnessScript inp.redeemScript inp.witnessUtxo.isSome htap
        · rw [hd]; cases p.tx <;> simp
        · rw [hd]; cases p.tx <;> simp

/-- inside the region `psbtSighash` refuses, while `Psbt.sighash` (as the code) ignores the leaf arguments -/
theorem psbtSighash_region (sha : Bytes → Bytes) (p : Psbt) (i f : Nat) (leaf : Option (Bytes × Nat))
    (h : leafOnNonTaproot p i leaf = true) :
    psbtSighash sha p i f leaf = none ∧ Psbt.sighash sha p i f (extraOf leaf) = Psbt.sighash sha p i f {} := by
  unfold leafOnNonTaproot at h
  cases leaf with
  | none => simp at h
  | some l =>
    unfold psbtSighash Psbt.sighash
    cases hi : p.inputs[i]? with
    | none => rw [hi] at h; simp at h
    | some inp =>
      rw [hi] at h
      cases hu : inp.utxo with
      | none => simp [hu] at h
      | some u =>
        simp only [hu] at h
        have htap : isTaprootSpk u.spk = false := by simpa using h
        simp only [hu, InScope.dispatch]
        obtain ⟨sc, hd | hd⟩ := dispatch_not_taproot u.spk inp.witnessScript inp.redeemScript inp.witnessUtxo.isSome htap
        · rw [hd]; cases p.tx <;> simp [htap]
        · rw [hd]; cases p.tx <;> simp [htap]

end Embit.Model.SignWith

namespace Embit.Model.SignWith
open Embit Embit.Model

variable {HD : Type}

/-- `ValidWrite` reads the digest function only where `sign_with` calls it: without leaf, or with a leaf on a taproot input -/
theorem ValidWrite.congr_digest {ev sv : Bytes → Bytes → Bytes → Bool} {O : Ops HD} {s : InScope} {u : TxOut} {f : Nat}
    {D D' : Nat → Option (Bytes × Nat) → Option Bytes} {w : Slot × Bytes}
    (hd : ∀ f leaf, (leaf.isSome = true → isTaprootSpk u.spk = true) → D f leaf = D' f leaf)
    (h : ValidWrite ev sv O s u f D w) : ValidWrite ev sv O s u f D' w := by
  obtain ⟨sl, v⟩ := w
  cases sl with
  | partialSig pub =>
    obtain ⟨h1, hh, sig, h2, h3, h4⟩ := h
    exact ⟨h1, hh, sig, by rw [← hd f none (by simp)]; exact h2, h3, h4⟩
  | tapKeySig =>
    obtain ⟨h1, xo, hh, sig, h2, h3, h4, h5⟩ := h
    exact ⟨h1, xo, hh, sig, h2, by rw [← hd f none (by simp)]; exact h3, h4, h5⟩
  | tapScriptSig key =>
    obtain ⟨h1, xo, ctrl, sc, lv, hh, sig, h2, h3, h4, h5, h6, h7, h8⟩ := h
    exact ⟨h1, xo, ctrl, sc, lv, hh, sig, h2, h3, h4, h5, by rw [← hd f _ (fun _ => h1)]; exact h6, h7, h8⟩

/-- the digest of the PSBT handed in, in both models, on the arguments `ValidWrite` reads -/
theorem psbtSighash_eq_model_valid (sha : Bytes → Bytes) (p : Psbt) (i : Nat) (s : InScope) (u : TxOut)
    (hs : p.inputs[i]? = some s) (hu : s.utxo = some u) (f : Nat) (leaf : Option (Bytes × Nat))
    (hl : leaf.isSome = true → isTaprootSpk u.spk = true) :
    psbtSighash sha p i f leaf = Psbt.sighash sha p i f (extraOf leaf) := by
  apply psbtSighash_eq_model
  unfold leafOnNonTaproot
  rw [hs]
  cases leaf with
  | none => rfl
  | some l => simp [hu, hl rfl]

end Embit.Model.SignWith
