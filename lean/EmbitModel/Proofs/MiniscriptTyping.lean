import EmbitModel.Model.Miniscript
import EmbitModel.Spec.MiniscriptSpec
/-
  C13 helper lemmas, part 1: embit's `verify` / `type` / `properties` (model) against the published type table
  (spec), rule by rule, then for every expression by structural induction:

      typeOf ctx (desugar e) = if constructible ctx e && verify ctx e then some (type e, props ctx e) else none
-/
namespace Embit.Miniscript
open Embit.Model.Miniscript Embit.Spec.Miniscript

/-! ### rule-by-rule agreement (no recursion) -/

theorem andorRule_agree (tx ty tz : Ty) (px py pz : Props) :
    andorRule (tx, px) (ty, py) (tz, pz) =
      if andorVerify tx px ty tz then some (ty, andorProps px py pz) else none := by
  unfold andorRule andorVerify andorProps
  cases tx <;> cases ty <;> cases tz <;> simp [Spec.Miniscript.isBKV, Model.Miniscript.isBKV]

/-- the core two-argument fragments as embit fragments -/
def ofCoreBin : CoreBin → BinFrag
  | .and_v => .and_v | .and_b => .and_b | .or_b => .or_b | .or_c => .or_c | .or_d => .or_d | .or_i => .or_i

theorem binRule_agree (g : CoreBin) (tx ty : Ty) (px py : Props) :
    binRule g (tx, px) (ty, py) =
      if binVerify (ofCoreBin g) tx px ty py then some (binType (ofCoreBin g) tx ty, binProps (ofCoreBin g) px py)
      else none := by
  cases g <;>
  · unfold binRule binVerify binType binProps ofCoreBin
    cases tx <;> cases ty <;> simp [Spec.Miniscript.isBKV, Model.Miniscript.isBKV, Gen.Ms.binStaticType]

/-- and_n(X,Y) = andor(X,Y,0) -/
theorem and_n_agree (tx ty : Ty) (px py : Props) :
    andorRule (tx, px) (ty, py) (.B, { z := true, u := true, d := true }) =
      if binVerify .and_n tx px ty py then some (binType .and_n tx ty, binProps .and_n px py) else none := by
  unfold andorRule binVerify binType binProps
  cases tx <;> cases ty <;> simp [Spec.Miniscript.isBKV, Gen.Ms.binStaticType]

def ofCoreWrap : CoreWrap → Wrap
  | .a => .a | .s => .s | .c => .c | .d => .d | .v => .v | .j => .j | .n => .n

theorem wrapRule_agree (ctx : Ctx) (g : CoreWrap) (tx : Ty) (px : Props) :
    wrapRule ctx g (tx, px) =
      if wrapVerify (ofCoreWrap g) tx px
      then some (Gen.Ms.wrapType (ofCoreWrap g), wrapProps (ctx == .tap) (ofCoreWrap g) px) else none := by
  cases g <;>
  · unfold wrapRule wrapVerify wrapProps ofCoreWrap
    cases tx <;> simp [Gen.Ms.wrapType] <;> split <;> simp_all

/-- t:X = and_v(X,1) -/
theorem wrap_t_agree (ctx : Ctx) (tx : Ty) (px : Props) :
    binRule .and_v (tx, px) (.B, { z := true, u := true }) =
      if wrapVerify .t tx px then some (Gen.Ms.wrapType .t, wrapProps (ctx == .tap) .t px) else none := by
  unfold binRule wrapVerify wrapProps
  cases tx <;> simp [Gen.Ms.wrapType, Spec.Miniscript.isBKV]

/-- l:X = or_i(0,X) -/
theorem wrap_l_agree (ctx : Ctx) (tx : Ty) (px : Props) :
    binRule .or_i (.B, { z := true, u := true, d := true }) (tx, px) =
      if wrapVerify .l tx px then some (Gen.Ms.wrapType .l, wrapProps (ctx == .tap) .l px) else none := by
  unfold binRule wrapVerify wrapProps
  cases tx <;> simp [Gen.Ms.wrapType, Spec.Miniscript.isBKV]

/-- u:X = or_i(X,0) -/
theorem wrap_u_agree (ctx : Ctx) (tx : Ty) (px : Props) :
    binRule .or_i (tx, px) (.B, { z := true, u := true, d := true }) =
      if wrapVerify .u tx px then some (Gen.Ms.wrapType .u, wrapProps (ctx == .tap) .u px) else none := by
  unfold binRule wrapVerify wrapProps
  cases tx <;> simp [Gen.Ms.wrapType, Spec.Miniscript.isBKV]

theorem insertSorted_length (x : Bytes) (l : List Bytes) : (insertSorted x l).length = l.length + 1 := by
  induction l with
  | nil => rfl
  | cons y ys ih => unfold insertSorted; split <;> simp [ih]

theorem sortBytes_length (l : List Bytes) : (sortBytes l).length = l.length := by
  induction l with
  | nil => rfl
  | cons x xs ih => simp [sortBytes, insertSorted_length, ih]

theorem multi_agree (ctx : Ctx) (f : MultiFrag) (k : Nat) (keys : List Bytes) :
    typeOf ctx (desugar (.multi f k keys)) =
      if (Gen.Ms.multiTaproot f == (ctx == .tap)) && multiVerify f k keys.length
      then some (Gen.Ms.multiType f, Gen.Ms.multiProps f) else none := by
  cases f <;> cases ctx <;>
    simp [desugar, typeOf, multiRule, multiARule, multiVerify, Gen.Ms.multiTaproot, Gen.Ms.multiMaxKeys,
      Gen.Ms.multiType, Gen.Ms.multiProps, sortBytes_length, Nat.one_le_iff_ne_zero]

theorem time_agree (ctx : Ctx) (f : TimeFrag) (n : Nat) :
    typeOf ctx (desugar (.time f n)) =
      if !(n < 1 || n ≥ 0x80000000) then some (Gen.Ms.timeType f, Gen.Ms.timeProps f) else none := by
  cases f <;> simp [desugar, typeOf, Gen.Ms.timeType, Gen.Ms.timeProps, Nat.one_le_iff_ne_zero]

theorem key_agree (ctx : Ctx) (f : KeyFrag) (a : Bytes) :
    typeOf ctx (desugar (.key f a)) = some (Gen.Ms.keyType f, Gen.Ms.keyProps f) := by
  cases f <;> simp [desugar, typeOf, wrapRule, Gen.Ms.keyType, Gen.Ms.keyProps]

theorem hash_agree (ctx : Ctx) (f : HashFrag) (a : Bytes) :
    typeOf ctx (desugar (.hash f a)) = some (Gen.Ms.hashType f, Gen.Ms.hashProps f) := by
  cases f <;> simp [desugar, typeOf, Gen.Ms.hashType, Gen.Ms.hashProps]

/-! ### thresh -/

theorem costSum_eq_zero (ts : List TP) :
    (costSum ts == 0) = (((ts.map (·.2)).filter (·.z)).length == (ts.map (·.2)).length) := by
  induction ts with
  | nil => rfl
  | cons t ts ih =>
    have hle := List.length_filter_le (fun p : Props => p.z) (ts.map (·.2))
    cases hz : t.2.z
    · have : argCost t.2 ≥ 1 := by unfold argCost; simp [hz]; split <;> omega
      simp only [costSum, List.map_cons, List.filter_cons, hz, List.length_cons]
      simp only [List.length_map] at hle ⊢
      rw [Bool.eq_iff_iff]; simp; omega
    · have : argCost t.2 = 0 := by unfold argCost; simp [hz]
      simp only [costSum, List.map_cons, List.filter_cons, hz, List.length_cons, this]
      rw [Bool.eq_iff_iff] at ih ⊢; simp at ih ⊢; omega

/-- cost of the arguments that are not `z` -/
def costNZ : List Props → Nat
  | [] => 0
  | p :: r => (if p.o then 1 else 2) + costNZ r

theorem costSum_eq_costNZ (ts : List TP) :
    costSum ts = costNZ ((ts.map (·.2)).filter (fun p => !p.z)) := by
  induction ts with
  | nil => rfl
  | cons t ts ih =>
    cases hz : t.2.z <;> simp [costSum, argCost, hz, costNZ, ih]

theorem costNZ_ge (l : List Props) : l.length ≤ costNZ l := by
  induction l with
  | nil => simp [costNZ]
  | cons p r ih => simp only [costNZ, List.length_cons]; split <;> omega

theorem costNZ_eq_one (l : List Props) :
    (costNZ l == 1) = (match l with | [p] => p.o | _ => false) := by
  match l with
  | [] => rfl
  | [p] => cases h : p.o <;> simp [costNZ, h]
  | p :: q :: r =>
    have := costNZ_ge (p :: q :: r)
    simp only [List.length_cons] at this
    simp; omega

theorem threshRule_agree (k : Nat) (ts : List TP) :
    threshRule k ts =
      if threshVerify k ts then some (Gen.Ms.threshType, threshProps (ts.map (·.2))) else none := by
  cases ts with
  | nil => simp [threshRule, threshVerify]
  | cons t rest =>
    obtain ⟨t1, p1⟩ := t
    have hz := costSum_eq_zero ((t1, p1) :: rest)
    have ho : (costSum ((t1, p1) :: rest) == 1) = _ :=
      (congrArg (· == 1) (costSum_eq_costNZ ((t1, p1) :: rest))).trans (costNZ_eq_one _)
    unfold threshRule threshVerify threshProps
    simp only [hz, ho, Gen.Ms.threshType]
    have hc : (decide (1 ≤ k) && decide (k ≤ ((t1, p1) :: rest).length) && t1 == Ty.B && p1.d && p1.u
          && rest.all (fun X => X.1 == Ty.W && X.2.d && X.2.u))
        = (!(decide (k < 1) || decide (k ≥ ((t1, p1) :: rest).length + 1)) &&
            (t1 == Ty.B && (p1.d && p1.u) && rest.all (fun tp => tp.1 == Ty.W && (tp.2.d && tp.2.u)))) := by
      have e1 : (fun X : TP => X.1 == Ty.W && X.2.d && X.2.u) = (fun tp => tp.1 == Ty.W && (tp.2.d && tp.2.u)) := by
        funext X; simp [Bool.and_assoc]
      rw [e1]
      simp only [List.length_cons]
      have d1 : (decide (1 ≤ k) && decide (k ≤ rest.length + 1))
          = (!(decide (k < 1) || decide (k ≥ rest.length + 1 + 1))) := by
        rw [Bool.eq_iff_iff]; simp; omega
      simp only [d1, Bool.and_assoc]
    simp only [hc]
    rfl

/-! ### lists of sub-expressions -/

theorem propsL_eq (ctx : Ctx) (xs : List Ms) : propsL ctx xs = (tpL ctx xs).map (·.2) := by
  induction xs with
  | nil => rfl
  | cons x xs ih => simp [propsL, tpL, ih]

theorem tpL_length (ctx : Ctx) (xs : List Ms) : (tpL ctx xs).length = xs.length := by
  induction xs with
  | nil => rfl
  | cons x xs ih => simp [tpL, ih]

/-- the statement proved for every expression -/
def Agrees (ctx : Ctx) (e : Ms) : Prop :=
  typeOf ctx (desugar e) = if constructible ctx e && verify ctx e then some (type e, props ctx e) else none

theorem typeOfL_agree (ctx : Ctx) (xs : List Ms) (ih : ∀ x ∈ xs, Agrees ctx x) :
    typeOfL ctx (desugarL xs) =
      if constructibleL ctx xs && verifyL ctx xs then some (tpL ctx xs) else none := by
  induction xs with
  | nil => simp [desugarL, typeOfL, constructibleL, verifyL, tpL]
  | cons x xs ihx =>
    have h1 := ih x (by simp)
    have h2 := ihx (fun y hy => ih y (by simp [hy]))
    unfold Agrees at h1
    simp only [desugarL, typeOfL, h1, h2, constructibleL, verifyL, tpL]
    by_cases c1 : constructible ctx x = true <;> by_cases c2 : verify ctx x = true <;>
      by_cases c3 : constructibleL ctx xs = true <;> by_cases c4 : verifyL ctx xs = true <;>
      simp [c1, c2, c3, c4]

/-! ### every expression -/

theorem typeOf_desugar (ctx : Ctx) : ∀ e, Agrees ctx e := by
  intro e
  induction e using Ms.ind with
  | key f a => simp [Agrees, key_agree, constructible, verify, type, props]
  | time f n => simp only [Agrees, time_agree, constructible, verify, type, props, Bool.true_and]
  | hash f h => simp [Agrees, hash_agree, constructible, verify, type, props]
  | andor x y z ihx ihy ihz =>
    unfold Agrees at *
    simp only [desugar, typeOf, ihx, ihy, ihz, constructible, verify, type, props]
    by_cases c1 : constructible ctx x = true <;> by_cases c2 : verify ctx x = true <;>
      by_cases c3 : constructible ctx y = true <;> by_cases c4 : verify ctx y = true <;>
      by_cases c5 : constructible ctx z = true <;> by_cases c6 : verify ctx z = true <;>
      simp [c1, c2, c3, c4, c5, c6, andorRule_agree]
  | bin f x y ihx ihy =>
    unfold Agrees at *
    cases f <;>
      simp only [desugar, typeOf, ihx, ihy, constructible, verify, type, props] <;>
      by_cases c1 : constructible ctx x = true <;> by_cases c2 : verify ctx x = true <;>
      by_cases c3 : constructible ctx y = true <;> by_cases c4 : verify ctx y = true <;>
      simp [c1, c2, c3, c4, binRule_agree, and_n_agree, ofCoreBin] <;> rfl
  | thresh k xs ih =>
    unfold Agrees
    simp only [desugar, typeOf, typeOfL_agree ctx xs ih, constructible, verify, type, props, propsL_eq]
    by_cases c1 : constructibleL ctx xs = true <;> by_cases c2 : verifyL ctx xs = true <;>
      simp [c1, c2, threshRule_agree]
  | multi f k keys => simp only [Agrees, multi_agree, constructible, verify, type, props] <;> rfl
  | wrap w x ih =>
    unfold Agrees at *
    cases w <;>
      simp only [desugar, typeOf, ih, constructible, verify, type, props] <;>
      by_cases c1 : constructible ctx x = true <;> by_cases c2 : verify ctx x = true <;>
      simp [c1, c2, wrapRule_agree ctx, wrap_t_agree ctx, wrap_l_agree ctx, wrap_u_agree ctx, ofCoreWrap] <;> rfl

end Embit.Miniscript
