import EmbitModel.Proofs.Contract
/-
  What alterations of a signature can still verify:
  * `flip_s`: with the nonce point's x-coordinate class unambiguous, every other `s'` is rejected;
  * `neg_key_z0`: for a message that is 0 modulo n the negated key verifies the same signatures.
-/
namespace Embit
open Embit.Model Embit.Model.Der Embit.Model.PySecp

variable {E : EcOps}

/-- only `±R` have an x coordinate congruent to `r` -/
def xUniqueAt (E : EcOps) (R : E.Pt) (r : Nat) : Prop :=
  ∀ Q x y, E.xy Q = some (x, y) → x % E.n = r → Q = R ∨ Q = E.neg R

theorem flip_alg {n : Nat} (k ki z d r w' s' s0 e : ZMod n) (h1 : k * ki = 1) (hs0 : s0 = ki * (z + d * r))
    (hw : w' * s' = 1) (hR : z * w' + r * w' * d = e * k) : s0 = e * s' := by
  have hX : w' * s0 = e := by
    subst hs0
    linear_combination ki * hR + e * h1
  linear_combination (-s0) * hw + s' * hX

/-- two residues in `[1, n-1]` that agree in `ZMod n` are equal -/
theorem eq_of_cast_eq {n : Nat} (a b : Nat) (ha : a < n) (hb : b < n) (h : (a : ZMod n) = (b : ZMod n)) : a = b := by
  have := mod_eq_of_cast a b h
  rwa [Nat.mod_eq_of_lt ha, Nat.mod_eq_of_lt hb] at this

/-- **every alteration of `s` is rejected** (given that only `±R` reduce to `r`): the only other `s'` for which the
    verification equation holds is `n - s`, which is high. `s'` is any value a 64-byte structure can hold. -/
theorem flip_s (L : EcLaws E) (hn : E.n ≤ 2 ^ 256) (hodd : E.n % 2 = 1) (d z k r s : Nat) (hk : 0 < k ∧ k < E.n)
    (h : signRS E d z k = some (r, s)) (hr : r ≠ 0) (hs : s ≠ 0)
    (huniq : xUniqueAt E (E.mul k E.g) r)
    (msg : Bytes) (hz : ofBe msg = z) (s' : Nat) (hs'256 : s' < 2 ^ 256) (hne : s' ≠ s) :
    verifyEcdsaKey E (E.mul d E.g) (serRS r s') msg true = false := by
  by_contra hcon
  have hv : verifyEcdsaKey E (E.mul d E.g) (serRS r s') msg true = true := by
    cases hh : verifyEcdsaKey E (E.mul d E.g) (serRS r s') msg true with
    | true => rfl
    | false => exact absurd hh hcon
  clear hcon
  have hnpos := L.n_pos
  -- unpack the signer
  unfold signRS at h
  split at h
  · cases h
  rename_i rx ry hR
  simp only [Option.some.injEq, Prod.mk.injEq] at h
  obtain ⟨hr', hs'def⟩ := h
  set s0 := (E.invN k * (z + d * (rx % E.n))) % E.n with hs0
  have hs0lt : s0 < E.n := Nat.mod_lt _ hnpos
  have hs0pos : 0 < s0 := by
    rcases Nat.eq_zero_or_pos s0 with h0 | h0
    · exfalso; apply hs; rw [← hs'def, h0]; simp
    · exact h0
  have hnorm := lowS_norm E.n s0 hs0pos hs0lt
  simp only [] at hnorm
  rw [hs'def] at hnorm
  have hrlt : r < E.n := by rw [← hr']; exact Nat.mod_lt _ hnpos
  have hsor : s = s0 ∨ s = E.n - s0 := by rw [← hs'def]; split <;> simp
  -- unpack the verifier
  unfold verifyEcdsaKey at hv
  rw [parse_of_ser E.n true r s' (by omega) hs'256] at hv
  by_cases hok : rangeOk E.n true r s' = true
  swap
  · simp [hok] at hv
  simp only [hok, if_true, hz] at hv
  have hrange := (rangeOk_iff E.n true r s').mp hok
  rw [L.lin_comb] at hv
  set t := (z * E.invN s' % E.n + r * E.invN s' % E.n * d) % E.n with ht
  have htlt : t < E.n := Nat.mod_lt _ hnpos
  cases hxy : E.xy (E.mul t E.g) with
  | none => rw [hxy] at hv; cases hv
  | some xy =>
    obtain ⟨x', y'⟩ := xy
    rw [hxy] at hv
    simp only [beq_iff_eq] at hv
    -- the point is ±R, hence t = k or t = n - k
    have hcast_t : ((t : Nat) : ZMod E.n) = (z : ZMod E.n) * (E.invN s' : ZMod E.n) + r * (E.invN s' : ZMod E.n) * d := by
      rw [ht]; simp [ZMod.natCast_mod]
    have hki : ((k : ZMod E.n) * (E.invN k : ZMod E.n)) = 1 := by
      have := L.inv_mul k hk.1 hk.2
      have h2 := cast_eq_of_mod (n := E.n) (k * E.invN k) 1 (by rw [this, Nat.mod_eq_of_lt L.n_gt_one])
      simpa using h2
    have hs0c : (s0 : ZMod E.n) = (E.invN k : ZMod E.n) * ((z : ZMod E.n) + d * r) := by
      rw [hs0, hr']; simp [ZMod.natCast_mod]
    have hw : ((E.invN s' : ZMod E.n) * (s' : ZMod E.n)) = 1 := by
      have := L.inv_mul s' (by omega) (by omega)
      have h2 := cast_eq_of_mod (n := E.n) (s' * E.invN s') 1 (by rw [this, Nat.mod_eq_of_lt L.n_gt_one])
      have e : ((s' * E.invN s' : Nat) : ZMod E.n) = (E.invN s' : ZMod E.n) * s' := by push_cast; ring
      rw [← e]; simpa using h2
    rcases huniq _ x' y' hxy hv with hQ | hQ
    · -- t = k, so s' ≡ s0
      have htk : t = k := L.mul_inj t k htlt hk.2 hQ
      have hRz : (z : ZMod E.n) * (E.invN s' : ZMod E.n) + r * (E.invN s' : ZMod E.n) * d = 1 * (k : ZMod E.n) := by
        rw [← hcast_t, htk]; ring
      have := flip_alg (k : ZMod E.n) _ z d r _ (s' : ZMod E.n) (s0 : ZMod E.n) 1 hki hs0c hw hRz
      rw [one_mul] at this
      have heq : s0 = s' := eq_of_cast_eq s0 s' hs0lt (by omega) this
      -- then s = s0 (s' is low, and s is the low one of s0, n - s0) — contradiction with s' ≠ s
      rcases hsor with h1 | h1
      · exact hne (by omega)
      · have := hrange.2.2.2.2 rfl
        omega
    · -- t = n - k, so s' ≡ -s0
      rw [L.neg_mul k (by omega)] at hQ
      have htk : t = E.n - k := L.mul_inj t (E.n - k) htlt (by omega) hQ
      have hRz : (z : ZMod E.n) * (E.invN s' : ZMod E.n) + r * (E.invN s' : ZMod E.n) * d = (-1) * (k : ZMod E.n) := by
        rw [← hcast_t, htk, cast_sub_self k (by omega)]; ring
      have := flip_alg (k : ZMod E.n) _ z d r _ (s' : ZMod E.n) (s0 : ZMod E.n) (-1) hki hs0c hw hRz
      have hneg : (s0 : ZMod E.n) = ((E.n - s' : Nat) : ZMod E.n) := by
        rw [cast_sub_self s' (by omega), this]; ring
      have heq : s0 = E.n - s' := eq_of_cast_eq s0 (E.n - s') hs0lt (by omega) hneg
      rcases hsor with h1 | h1
      · have := hrange.2.2.2.2 rfl
        omega
      · exact hne (by omega)

/-- for a message value that is 0 modulo n the negated key verifies exactly the same signatures
    (the mathematical content of known finding C07-KF2) -/
theorem neg_key_z0 (L : EcLaws E) (d : Nat) (hd : d ≤ E.n) (der msg : Bytes) (lowS : Bool)
    (hz : ofBe msg % E.n = 0) :
    verifyEcdsaKey E (E.neg (E.mul d E.g)) der msg lowS = verifyEcdsaKey E (E.mul d E.g) der msg lowS := by
  have hnpos := L.n_pos
  unfold verifyEcdsaKey
  cases Der.parse E.n lowS der with
  | none => rfl
  | some rs =>
    obtain ⟨r, s⟩ := rs
    simp only []
    have hu1 : ofBe msg * E.invN s % E.n = 0 := by
      rw [Nat.mul_mod, hz]; simp
    rw [hu1, L.neg_mul d hd, L.lin_comb, L.lin_comb]
    generalize r * E.invN s % E.n = u2
    -- (u2 (n-d)) ≡ -(u2 d)
    set a := (0 + u2 * d) % E.n with ha
    have halt : a < E.n := Nat.mod_lt _ hnpos
    have hb : (0 + u2 * (E.n - d)) % E.n = (E.n - a) % E.n := by
      apply mod_eq_of_cast
      have e1 : ((0 + u2 * (E.n - d) : ℕ) : ZMod E.n) = -((u2 : ZMod E.n) * d) := by
        push_cast; rw [Nat.cast_sub hd]; simp
      have e2 : ((E.n - a : ℕ) : ZMod E.n) = -((u2 : ZMod E.n) * d) := by
        rw [cast_sub_self a (by omega), ha, ZMod.natCast_mod]; push_cast; ring
      rw [e1, e2]
    rw [hb, L.mul_mod, ← L.neg_mul a (by omega)]
    cases hxy : E.xy (E.mul a E.g) with
    | none => rw [L.xy_neg_none _ hxy]
    | some xy =>
      obtain ⟨x, y⟩ := xy
      rw [L.xy_neg _ _ _ hxy]

end Embit
