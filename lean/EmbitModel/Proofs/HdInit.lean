import EmbitModel.Proofs.KeysBasic
/-
  The HDKey constructor: when it succeeds, what it returns, and the version test phrased on version bytes.
-/
namespace Embit.Keys
open Embit

variable {E : EcOps}

/-- "every 78-byte payload that starts with `ver` renders as `?t…`": the version bytes alone fix the characters
    `[1:4]` of the Base58Check text (true for every SLIP-132 version of the generated table, see
    `Proofs/Base58Prefix.lean`) -/
def VersionSays (env : Env) (ver : Bytes) (t : Text) : Prop :=
  ∀ rest : Bytes, rest.length = 74 → sub14 (env.b58enc (ver ++ rest)) = t

/-- an HD key holds a private key or a compressed public key (what `HDKey.__init__` insists on) -/
def KeyObj.Canon : KeyObj E → Prop
  | .priv k => k.compressed = true
  | .pub k => k.compressed = true

def kindText (isPrivate : Bool) : Text := if isPrivate then tPrv else tPub

theorem tPrv_ne_tPub : tPrv ≠ tPub := by decide

theorem serialize_length_canon (key : KeyObj E) (h : key.Canon) :
    key.serialize.length = if key.isPrivate then 32 else 33 := by
  cases key with
  | priv k => simp [KeyObj.serialize, PrivateKey.serialize, KeyObj.isPrivate]
  | pub k =>
    simp only [KeyObj.Canon] at h
    simp [KeyObj.serialize, PublicKey.sec, KeyObj.isPrivate, pubkeySerialize_length, h]

/-- the 78-byte payload split as version ++ 74 bytes -/
theorem serialize_split (k : HDKey E) (hc : k.key.Canon) (hcc : k.chainCode.length = 32)
    (hfp : k.fingerprint.length = 4) (hd : k.depth < 256) (hcn : k.childNumber < 2 ^ 32) :
    ∃ rest : Bytes, rest.length = 74 ∧ k.serialize = some (k.version ++ rest) := by
  refine ⟨[UInt8.ofNat k.depth] ++ k.fingerprint ++ beN 4 k.childNumber ++ k.chainCode
      ++ (if k.key.isPrivate then [0x00] else []) ++ k.key.serialize, ?_, ?_⟩
  · have := serialize_length_canon k.key hc
    cases hp : k.key.isPrivate <;> simp [hp] at this ⊢ <;> omega
  · simp [HDKey.serialize, hd, hcn]

theorem init_some (env : Env) (key : KeyObj E) (cc ver fp : Bytes) (depth cn : Nat)
    (hkey : key.Canon) (hcc : cc.length = 32) (hfp : fp.length = 4) (hd : depth < 256) (hcn : cn < 2 ^ 32)
    (hsays : VersionSays env ver (kindText key.isPrivate)) :
    HDKey.init env key cc (some ver) depth fp cn
      = some { key := key, chainCode := cc, version := ver, depth := depth, fingerprint := fp, childNumber := cn } := by
  have hlen := serialize_length_canon key hkey
  obtain ⟨rest, hrl, hser⟩ := serialize_split (E := E)
    { key := key, chainCode := cc, version := ver, depth := depth, fingerprint := fp, childNumber := cn }
    hkey hcc hfp hd hcn
  have htxt := hsays rest hrl
  unfold HDKey.init
  have h1 : ¬ (key.serialize.length ≠ 32 ∧ key.serialize.length ≠ 33) := by
    cases hp : key.isPrivate <;> simp [hp] at hlen <;> omega
  rw [if_neg h1]
  have h2 : key.privUncompressed = false := by
    cases key with
    | priv k => simp only [KeyObj.Canon] at hkey; simp [KeyObj.privUncompressed, hkey]
    | pub k => rfl
  simp only [h2, Bool.false_eq_true, if_false, Option.getD_some]
  unfold HDKey.toBase58
  simp only at hser
  rw [hser]
  cases hp : key.isPrivate
  · simp only [kindText, hp, Bool.false_eq_true, if_false] at htxt
    simp [htxt, tPrv_ne_tPub.symm]
  · simp only [kindText, hp, if_true] at htxt
    simp [htxt, tPrv_ne_tPub]

/-- the constructor refuses depth 256 and beyond: `bytes([depth])` raises -/
theorem init_depth_overflow (env : Env) (key : KeyObj E) (cc : Bytes) (ver : Option Bytes) (fp : Bytes)
    (depth cn : Nat) (hd : 256 ≤ depth) : HDKey.init env key cc ver depth fp cn = none := by
  unfold HDKey.init
  split
  · rfl
  · split
    · rfl
    · simp only [HDKey.toBase58, HDKey.serialize]
      rw [if_neg (by omega)]

/-- whatever the constructor returns carries exactly the arguments -/
theorem init_fields (env : Env) (key : KeyObj E) (cc : Bytes) (ver : Bytes) (fp : Bytes)
    (depth cn : Nat) (k : HDKey E) (h : HDKey.init env key cc (some ver) depth fp cn = some k) :
    k = { key := key, chainCode := cc, version := ver, depth := depth, fingerprint := fp, childNumber := cn } := by
  unfold HDKey.init at h
  split at h
  · cases h
  · split at h
    · cases h
    · simp only [Option.getD_some] at h
      split at h
      · cases h
      · split at h
        · split at h
          · exact (Option.some.inj h).symm
          · cases h
        · split at h
          · exact (Option.some.inj h).symm
          · cases h

/-- the constructor, characterised -/
theorem init_iff (env : Env) (key : KeyObj E) (cc ver fp : Bytes) (depth cn : Nat) (k : HDKey E) :
    HDKey.init env key cc (some ver) depth fp cn = some k ↔
      (key.serialize.length = 32 ∨ key.serialize.length = 33) ∧ key.privUncompressed = false ∧
      k = ⟨key, cc, ver, depth, fp, cn⟩ ∧
      ∃ b, (⟨key, cc, ver, depth, fp, cn⟩ : HDKey E).serialize = some b ∧
        sub14 (env.b58enc b) = kindText key.isPrivate := by
  unfold HDKey.init HDKey.toBase58
  simp only [Option.getD_some]
  by_cases h1 : key.serialize.length ≠ 32 ∧ key.serialize.length ≠ 33
  · rw [if_pos h1]
    constructor
    · intro h; cases h
    · intro h; omega
  · rw [if_neg h1]
    cases h2 : key.privUncompressed
    · simp only [Bool.false_eq_true, if_false, true_and]
      cases hs : (⟨key, cc, ver, depth, fp, cn⟩ : HDKey E).serialize with
      | none => simp
      | some b =>
        have hl : key.serialize.length = 32 ∨ key.serialize.length = 33 := by omega
        cases hp : key.isPrivate
        · by_cases ht : sub14 (env.b58enc b) = tPub
          · simp [ht, kindText, tPrv_ne_tPub.symm, eq_comm]; intro _; omega
          · by_cases ht2 : sub14 (env.b58enc b) = tPrv
            · simp [ht2, kindText, tPrv_ne_tPub]
            · simp [ht, ht2, kindText]
        · by_cases ht : sub14 (env.b58enc b) = tPrv
          · simp [ht, kindText, tPrv_ne_tPub, eq_comm]; intro _; omega
          · by_cases ht2 : sub14 (env.b58enc b) = tPub
            · simp [ht2, kindText, tPrv_ne_tPub.symm]
            · simp [ht, ht2, kindText]
    · simp

end Embit.Keys
