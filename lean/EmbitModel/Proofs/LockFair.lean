import EmbitModel.Proofs.Lock
/-
  C20 — fairness: helper lemmas.

  Measure: `totalLeft s n` = the scheduler ticks threads `0 … n-1` still need (`ticksLeft`, which counts a native call
  as two ticks). One tick of thread `t` either leaves the state untouched (`t` has finished, or it stands in front of an
  `acquire` while somebody holds the lock — a BLOCKED ACQUIRE IS NOT PROGRESS) or lowers the measure by exactly one.
  In a state that is not complete some thread is enabled (the lock holder if there is one — it can always progress —,
  otherwise any unfinished thread). Hence a window of the schedule in which every thread that is still unfinished at
  the end of the window has been given a tick lowers the measure, and `W * totalLeft` ticks of a `W`-fair schedule
  finish every thread.
-/
namespace Embit.Model.Lock

/-- ticks threads `0 … n-1` still need -/
def totalLeft (s : State) : Nat → Nat
  | 0 => 0
  | n + 1 => totalLeft s n + ticksLeft s n

/-- the ticks all programs need when never blocked: the length of the serial schedule -/
def totalTicks (progs : Tid → List Step) : Nat → Nat
  | 0 => 0
  | n + 1 => totalTicks progs n + ticks (progs n)

theorem totalLeft_init (progs : Tid → List Step) (n : Nat) : totalLeft (init progs) n = totalTicks progs n := by
  induction n with
  | zero => rfl
  | succ n ih =>
    simp only [totalLeft, totalTicks, ih]
    simp [ticksLeft, init]

theorem serialSched_length (progs : Tid → List Step) (n : Nat) : (serialSched progs n).length = totalTicks progs n := by
  induction n with
  | zero => rfl
  | succ n ih => simp [serialSched, totalTicks, ih]

theorem step_mid_other (t t' : Tid) (s : State) (h : t' ≠ t) : (step t s).mid t' = s.mid t' := by
  unfold step
  split <;> (try split) <;> first | rfl | simp [upd_other _ _ h]

theorem ticksLeft_step_other (t t' : Tid) (s : State) (h : t' ≠ t) : ticksLeft (step t s) t' = ticksLeft s t' := by
  simp [ticksLeft, step_rest_other t t' s h, step_mid_other t t' s h]

theorem totalLeft_congr (s s' : State) (n : Nat) (h : ∀ t, t < n → ticksLeft s' t = ticksLeft s t) :
    totalLeft s' n = totalLeft s n := by
  induction n with
  | zero => rfl
  | succ n ih =>
    simp only [totalLeft]
    rw [ih (fun t ht => h t (by omega)), h n (by omega)]

/-- lowering the ticks of one thread below `n` by one lowers the total by one -/
theorem totalLeft_dec (s s' : State) (t : Tid)
    (hother : ∀ t', t' ≠ t → ticksLeft s' t' = ticksLeft s t') (hdec : ticksLeft s' t + 1 = ticksLeft s t) :
    ∀ n, t < n → totalLeft s' n + 1 = totalLeft s n := by
  intro n
  induction n with
  | zero => intro ht; exact absurd ht (Nat.not_lt_zero _)
  | succ n ih =>
    intro ht
    simp only [totalLeft]
    by_cases h : t = n
    · rw [← h, totalLeft_congr s s' t (fun t' ht' => hother t' (Nat.ne_of_lt ht'))]
      omega
    · have hlt : t < n := Nat.lt_of_le_of_ne (Nat.le_of_lt_succ ht) h
      have := ih hlt
      rw [hother n (fun h' => h h'.symm)]
      omega

theorem step_of_done (t : Tid) (s : State) (h : s.rest t = []) : step t s = s := by
  simp [step, h]

theorem ticksLeft_pos {progs : Tid → List Step} {s : State} {ls : Tid → Local} (I : Inv progs s ls) (t : Tid)
    (h : s.rest t ≠ []) : 0 < ticksLeft s t := by
  rcases Nat.eq_zero_or_pos (ticksLeft s t) with h0 | h0
  · exact absurd (done_of_ticksLeft_zero I t h0) h
  · exact h0

theorem unfinished_lt {progs : Tid → List Step} {s : State} {ls : Tid → Local} (I : Inv progs s ls) (n : Nat)
    (hn : ∀ t, n ≤ t → progs t = []) (t : Tid) (h : s.rest t ≠ []) : t < n := by
  apply Classical.byContradiction
  intro hlt
  obtain ⟨pre, hp, _⟩ := I.pre t
  rw [hn t (Nat.le_of_not_lt hlt)] at hp
  have := congrArg List.length hp
  simp at this
  exact h (List.eq_nil_of_length_eq_zero (by omega))

/-- one tick of any thread: nothing happens (finished / blocked in front of `acquire`), or exactly one tick of work is
    done — the general form of `progress` (no assumption on who holds the lock) -/
theorem step_dichotomy {progs : Tid → List Step} {s : State} {ls : Tid → Local} (I : Inv progs s ls) (t : Tid) :
    step t s = s ∨ ticksLeft (step t s) t + 1 = ticksLeft s t := by
  cases hrest : s.rest t with
  | nil => left; exact step_of_done t s hrest
  | cons st r =>
    have midf : (∀ f o, st ≠ .nativeCall f o) → s.mid t = false := by
      intro hne
      cases hm : s.mid t with
      | false => rfl
      | true =>
        obtain ⟨_, _, f, o, r', hr⟩ := I.mid t hm
        rw [hrest] at hr; cases hr; exact absurd rfl (hne f o)
    cases st with
    | acquire =>
      have hm := midf (by intro f o h; cases h)
      cases hl : s.lock with
      | some o => left; simp [step, hrest, hl]
      | none => right; simp [ticksLeft, step, hrest, hl, upd_same, hm, ticks]; omega
    | release =>
      have hm := midf (by intro f o h; cases h)
      right; simp [ticksLeft, step, hrest, upd_same, hm, ticks]; omega
    | nativeCall f outs =>
      right
      cases hm : s.mid t with
      | true => simp [ticksLeft, step, hrest, upd_same, hm, ticks]; omega
      | false => simp [ticksLeft, step, hrest, upd_same, hm, ticks]; omega
    | copyOut b =>
      have hm := midf (by intro f o h; cases h)
      right; simp [ticksLeft, step, hrest, upd_same, hm, ticks]; omega
    | «local» =>
      have hm := midf (by intro f o h; cases h)
      right; simp [ticksLeft, step, hrest, upd_same, hm, ticks]; omega

/-- in terms of the total: a tick leaves the state alone or lowers the total by exactly one -/
theorem step_total {progs : Tid → List Step} {s : State} {ls : Tid → Local} (I : Inv progs s ls) (n : Nat)
    (hn : ∀ t, n ≤ t → progs t = []) (t : Tid) :
    step t s = s ∨ totalLeft (step t s) n + 1 = totalLeft s n := by
  rcases step_dichotomy I t with h | h
  · exact Or.inl h
  · by_cases hd : s.rest t = []
    · exact Or.inl (step_of_done t s hd)
    · right
      exact totalLeft_dec s (step t s) t (fun t' ht' => ticksLeft_step_other t t' s ht') h n
        (unfinished_lt I n hn t hd)

/-- a schedule never raises the total, and leaves the state alone when it does not lower it -/
theorem run_total {progs : Tid → List Step} (n : Nat) (hn : ∀ t, n ≤ t → progs t = []) (w : List Tid) :
    ∀ (s : State) (ls : Tid → Local), Inv progs s ls → run w s = s ∨ totalLeft (run w s) n < totalLeft s n := by
  induction w with
  | nil => intro s ls _; exact Or.inl rfl
  | cons t r ih =>
    intro s ls I
    rw [run_cons]
    rcases step_total I n hn t with h | h
    · rw [h]; exact ih s ls I
    · rcases ih (step t s) _ (inv_step t I) with h' | h'
      · rw [h']; right; omega
      · right; omega

theorem run_total_le {progs : Tid → List Step} (n : Nat) (hn : ∀ t, n ≤ t → progs t = []) (w : List Tid)
    (s : State) (ls : Tid → Local) (I : Inv progs s ls) : totalLeft (run w s) n ≤ totalLeft s n := by
  rcases run_total n hn w s ls I with h | h
  · rw [h]; exact Nat.le_refl _
  · exact Nat.le_of_lt h

/-- a state that is not complete has an ENABLED thread: unfinished, and its next tick does work. It is the lock holder
    when the lock is held (the holder can always progress), any unfinished thread otherwise. -/
theorem exists_enabled {progs : Tid → List Step} {s : State} {ls : Tid → Local} (I : Inv progs s ls)
    (hnc : ¬ complete s) : ∃ e, s.rest e ≠ [] ∧ ticksLeft (step e s) e + 1 = ticksLeft s e := by
  cases hl : s.lock with
  | some o =>
    have ho : (ls o).hold.isSome = true := (I.lock o).2 hl
    have hrest : s.rest o ≠ [] := by
      intro h; have := hold_none_of_done I h; simp [this] at ho
    have others : ∀ t', t' ≠ o → (ls t').hold = none := by
      intro t' hne
      cases hh : (ls t').hold with
      | none => rfl
      | some ws =>
        have := (I.lock t').1 (by simp [hh]); rw [hl] at this
        exact absurd (Option.some.inj this).symm hne
    have hpos := ticksLeft_pos I o hrest
    obtain ⟨k, hk⟩ : ∃ k, ticksLeft s o = k + 1 := ⟨ticksLeft s o - 1, by omega⟩
    exact ⟨o, hrest, by rw [progress I o others k hk, hk]⟩
  | none =>
    have hu : ∃ u, s.rest u ≠ [] := by
      apply Classical.byContradiction
      intro h
      exact hnc (fun t => by
        apply Classical.byContradiction
        intro h'; exact h ⟨t, h'⟩)
    obtain ⟨u, hrest⟩ := hu
    have others : ∀ t', t' ≠ u → (ls t').hold = none := by
      intro t' _
      cases hh : (ls t').hold with
      | none => rfl
      | some ws => have := (I.lock t').1 (by simp [hh]); simp [hl] at this
    have hpos := ticksLeft_pos I u hrest
    obtain ⟨k, hk⟩ : ∃ k, ticksLeft s u = k + 1 := ⟨ticksLeft s u - 1, by omega⟩
    exact ⟨u, hrest, by rw [progress I u others k hk, hk]⟩

/-- a window that contains an enabled thread lowers the total -/
theorem window_with_enabled {progs : Tid → List Step} (n : Nat) (hn : ∀ t, n ≤ t → progs t = []) (e : Tid)
    (w : List Tid) : ∀ (s : State) (ls : Tid → Local), Inv progs s ls → s.rest e ≠ [] →
      ticksLeft (step e s) e + 1 = ticksLeft s e → e ∈ w → totalLeft (run w s) n < totalLeft s n := by
  induction w with
  | nil => intro s ls _ _ _ h; cases h
  | cons t r ih =>
    intro s ls I hrest hen hmem
    rw [run_cons]
    rcases step_total I n hn t with h | h
    · -- the tick of `t` did nothing: `t` is not the enabled thread
      have hne : t ≠ e := by
        intro heq; subst heq; rw [h] at hen; omega
      have hmem' : e ∈ r := by
        rcases List.mem_cons.1 hmem with h' | h'
        · exact absurd h'.symm hne
        · exact h'
      rw [h]; exact ih s ls I hrest hen hmem'
    · have := run_total_le n hn r (step t s) _ (inv_step t I)
      omega

/-- a window in which every thread still unfinished at its END has had a tick lowers the total (unless everything is
    finished already) -/
theorem fair_window {progs : Tid → List Step} (n : Nat) (hn : ∀ t, n ≤ t → progs t = []) (w : List Tid)
    (s : State) (ls : Tid → Local) (I : Inv progs s ls) (hnc : ¬ complete s)
    (hfair : ∀ t, (run w s).rest t ≠ [] → t ∈ w) : totalLeft (run w s) n < totalLeft s n := by
  rcases run_total n hn w s ls I with h | h
  · obtain ⟨e, hrest, hen⟩ := exists_enabled I hnc
    exact window_with_enabled n hn e w s ls I hrest hen (hfair e (by rw [h]; exact hrest))
  · exact h

theorem complete_of_total_zero {progs : Tid → List Step} {s : State} {ls : Tid → Local} (I : Inv progs s ls) (n : Nat)
    (hn : ∀ t, n ≤ t → progs t = []) (h : totalLeft s n = 0) : complete s := by
  intro t
  apply Classical.byContradiction
  intro hne
  have hlt := unfinished_lt I n hn t hne
  have hpos := ticksLeft_pos I t hne
  have : ∀ m, t < m → ticksLeft s t ≤ totalLeft s m := by
    intro m
    induction m with
    | zero => intro h; exact absurd h (Nat.not_lt_zero _)
    | succ m ih =>
      intro hm
      simp only [totalLeft]
      by_cases h' : t = m
      · rw [← h']; omega
      · have := ih (Nat.lt_of_le_of_ne (Nat.le_of_lt_succ hm) h'); omega
  have := this n hlt
  omega

theorem run_of_complete (w : List Tid) (s : State) (h : complete s) : run w s = s := by
  induction w with
  | nil => rfl
  | cons t r ih => rw [run_cons, step_of_done t s (h t)]; exact ih

/-- `fairFrom W s sched`: in every window of `W` consecutive ticks of `sched` (started in state `s`), every thread
    that is still unfinished at the end of the window has been scheduled at least once. Threads that have finished
    need not be scheduled; being scheduled while blocked counts as being scheduled, not as progress. -/
def fairFrom (W : Nat) (s : State) (sched : List Tid) : Prop :=
  ∀ i t, i + W ≤ sched.length → (run (sched.take (i + W)) s).rest t ≠ [] → t ∈ (sched.drop i).take W

theorem fairFrom_drop (W : Nat) (s : State) (sched : List Tid) (hW : W ≤ sched.length) (h : fairFrom W s sched) :
    fairFrom W (run (sched.take W) s) (sched.drop W) := by
  intro i t hi hrest
  have hlen : i + W ≤ sched.length - W := by simpa using hi
  have h1 : sched.take (W + i + W) = sched.take W ++ (sched.drop W).take (i + W) := by
    rw [show W + i + W = W + (i + W) by omega, List.take_add]
  have := h (W + i) t (by omega) (by rw [h1, run_append]; exact hrest)
  rw [← List.drop_drop] at this
  exact this

/-- the core: from any reachable state, `W * k` ticks of a `W`-fair schedule finish everything when at most `k` ticks
    of work are left -/
theorem fair_completes_from {progs : Tid → List Step} (n : Nat) (hn : ∀ t, n ≤ t → progs t = []) (W : Nat) :
    ∀ (k : Nat) (s : State) (ls : Tid → Local) (sched : List Tid), Inv progs s ls → totalLeft s n ≤ k →
      fairFrom W s sched → W * k ≤ sched.length → complete (run sched s) := by
  intro k
  induction k with
  | zero =>
    intro s ls sched I hk _ _
    have hc := complete_of_total_zero I n hn (by omega)
    rw [run_of_complete sched s hc]; exact hc
  | succ k ih =>
    intro s ls sched I hk hfair hlen
    by_cases hc : complete s
    · rw [run_of_complete sched s hc]; exact hc
    · have hW : W ≤ sched.length := by
        have : W ≤ W * (k + 1) := Nat.le_mul_of_pos_right W (by omega)
        omega
      have hwin := fair_window n hn (sched.take W) s ls I hc
        (fun t ht => by
          have := hfair 0 t (by simpa using hW) (by simpa using ht)
          simpa using this)
      have I' := inv_run (sched.take W) I
      have := ih (run (sched.take W) s) _ (sched.drop W) I' (by omega) (fairFrom_drop W s sched hW hfair)
        (by simp only [List.length_drop]; rw [Nat.mul_succ] at hlen; omega)
      rw [← run_append, List.take_append_drop] at this
      exact this

/-! ### infinite schedules and their prefixes -/

/-- the first `k` ticks of an infinite schedule -/
def pref (σ : Nat → Tid) (k : Nat) : List Tid := (List.range k).map σ

theorem pref_length (σ : Nat → Tid) (k : Nat) : (pref σ k).length = k := by simp [pref]

theorem pref_take (σ : Nat → Tid) (k m : Nat) (h : m ≤ k) : (pref σ k).take m = pref σ m := by
  simp [pref, ← List.map_take, List.take_range, Nat.min_eq_left h]

theorem pref_getElem (σ : Nat → Tid) (k j : Nat) (h : j < (pref σ k).length) : (pref σ k)[j] = σ j := by
  simp [pref]

theorem mem_window (l : List Tid) (i W j : Nat) (h1 : i ≤ j) (h2 : j < i + W) (h3 : j < l.length) :
    l[j] ∈ (l.drop i).take W := by
  apply List.mem_iff_getElem.2
  refine ⟨j - i, ?_, ?_⟩
  · simp only [List.length_take, List.length_drop]; omega
  · simp only [List.getElem_take, List.getElem_drop]
    congr 1; omega

/-- `fairInf W s σ`: the infinite schedule `σ` gives, in every window of `W` ticks, a tick to every thread that is
    still unfinished at the end of the window -/
def fairInf (W : Nat) (s : State) (σ : Nat → Tid) : Prop :=
  ∀ i t, (run (pref σ (i + W)) s).rest t ≠ [] → ∃ j, i ≤ j ∧ j < i + W ∧ σ j = t

theorem fairFrom_of_fairInf (W : Nat) (s : State) (σ : Nat → Tid) (h : fairInf W s σ) (k : Nat) :
    fairFrom W s (pref σ k) := by
  intro i t hi hrest
  rw [pref_length] at hi
  rw [pref_take σ k (i + W) hi] at hrest
  obtain ⟨j, h1, h2, h3⟩ := h i t hrest
  have hj : j < (pref σ k).length := by rw [pref_length]; omega
  have := mem_window (pref σ k) i W j h1 h2 hj
  rw [pref_getElem, h3] at this
  exact this

/-- round robin over `n` threads: every window of `n` ticks contains every thread below `n` -/
theorem round_robin_window (n i t : Nat) (ht : t < n) : ∃ j, i ≤ j ∧ j < i + n ∧ j % n = t := by
  have hn : 0 < n := by omega
  have hr : i % n < n := Nat.mod_lt i hn
  have hi : n * (i / n) + i % n = i := Nat.div_add_mod i n
  by_cases h : i % n ≤ t
  · refine ⟨n * (i / n) + t, by omega, by omega, ?_⟩
    rw [Nat.mul_add_mod, Nat.mod_eq_of_lt ht]
  · refine ⟨n * (i / n + 1) + t, ?_, ?_, ?_⟩
    · rw [Nat.mul_add, Nat.mul_one]; omega
    · rw [Nat.mul_add, Nat.mul_one]; omega
    · rw [Nat.mul_add_mod, Nat.mod_eq_of_lt ht]

end Embit.Model.Lock
