import EmbitModel.Proofs.Slip39Tables
/- table multiplication = carry-less multiplication modulo x^8+x^4+x^3+x+1, quarter 3 of the 65 536 cases -/
namespace Embit.Model.Slip39
set_option maxRecDepth 1000000 in
theorem mulL_eq_gfMul_q3 : ∀ a < 64, ∀ b < 256, mulL (192 + a) b = Spec.Slip39.gfMul (192 + a) b := by
  decide +kernel
end Embit.Model.Slip39
