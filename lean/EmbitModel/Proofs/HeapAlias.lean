import EmbitModel.Model.HeapAlias
/-
  C19 — keyed memos under in-place edits of the caller's argument objects: the memo invariant and its preservation.
-/
namespace Embit.HeapAlias

/-- every memo entry holds the value of `f` on the contents its key compares as NOW; reference keys exist only when
    some method aliases, and point to existing argument objects -/
def MemoOk (env : Env) (st : State) : Prop :=
  ∀ i m key v, st.memo i m = some (key, v) →
    v = env.f m (st.recv i) (keyContent st key) ∧ (∀ r, key = .ref r → env.keysCopy = false ∧ r < st.nargs)

theorem memoOk_init (env : Env) : MemoOk env init := by
  intro i m key v h; simp [init] at h

theorem keyKind_aliases {env : Env} {m : Nat} (h : keyKind env m = .aliases) : env.keysCopy = false := by
  unfold keyKind at h
  cases hm : env.methods[m]? with
  | none => rw [hm] at h; simp at h
  | some k =>
    rw [hm] at h
    simp only [Option.getD_some] at h
    subst h
    have hmem := List.mem_of_getElem? hm
    cases hk : env.keysCopy with
    | false => rfl
    | true =>
      simp only [Env.keysCopy, List.all_eq_true] at hk
      have := hk _ hmem
      simp at this

theorem mkKey_ok (env : Env) (st : State) (m k : Nat) (hk : k < st.nargs) :
    keyContent st (mkKey env st m k) = st.args k ∧
      (∀ r, mkKey env st m k = .ref r → env.keysCopy = false ∧ r < st.nargs) := by
  unfold mkKey
  cases hkind : keyKind env m with
  | copies => exact ⟨rfl, fun r h => by cases h⟩
  | aliases =>
    refine ⟨rfl, fun r h => ?_⟩
    cases h
    exact ⟨keyKind_aliases hkind, hk⟩

theorem step_memoOk (env : Env) (st : State) (op : Op) (hop : env.keysCopy = true ∨ op.isEdit = false)
    (I : MemoOk env st) : MemoOk env (step env st op) := by
  cases op with
  | newArg c =>
    intro i m key v h
    obtain ⟨h1, h2⟩ := I i m key v h
    refine ⟨?_, fun r hr => ⟨(h2 r hr).1, Nat.lt_succ_of_lt (h2 r hr).2⟩⟩
    rw [h1]
    cases key with
    | content c' => rfl
    | ref r =>
      have hr := (h2 r rfl).2
      have : r ≠ st.nargs := Nat.ne_of_lt hr
      simp [step, keyContent, this]
  | editArg k c =>
    rcases hop with hop | hop
    · by_cases hk : k < st.nargs
      · intro i m key v h
        have h' : st.memo i m = some (key, v) := by simpa [step, hk] using h
        obtain ⟨h1, h2⟩ := I i m key v h'
        cases key with
        | content c' => exact ⟨by simpa [step, hk, keyContent] using h1, fun r hr => by cases hr⟩
        | ref r => have := (h2 r rfl).1; rw [hop] at this; cases this
      · simpa [step, hk] using I
    · simp [Op.isEdit] at hop
  | newObj c =>
    intro i m key v h
    by_cases hi : i = st.nobjs
    · simp [step, hi] at h
    · have h' : st.memo i m = some (key, v) := by simpa [step, hi] using h
      obtain ⟨h1, h2⟩ := I i m key v h'
      refine ⟨?_, h2⟩
      rw [h1]
      cases key <;> simp [step, hi, keyContent]
  | mutate j w =>
    by_cases hj : j < st.nobjs
    · intro i m key v h
      by_cases hi : i = j
      · simp [step, hj, hi] at h
      · have h' : st.memo i m = some (key, v) := by simpa [step, hj, hi] using h
        obtain ⟨h1, h2⟩ := I i m key v h'
        refine ⟨?_, by simpa [step, hj] using h2⟩
        rw [h1]
        cases key <;> simp [step, hj, hi, keyContent]
    · simpa [step, hj] using I
  | query j n k =>
    by_cases hjk : j < st.nobjs ∧ k < st.nargs
    · have store : MemoOk env (setMemo st j n (mkKey env st n k, env.f n (st.recv j) (st.args k))) := by
        intro i m key v h
        simp only [setMemo] at h
        by_cases him : i = j ∧ m = n
        · obtain ⟨rfl, rfl⟩ := him
          simp only [and_self, if_true, Option.some.injEq, Prod.mk.injEq] at h
          obtain ⟨rfl, rfl⟩ := h
          obtain ⟨e1, e2⟩ := mkKey_ok env st m k hjk.2
          refine ⟨?_, e2⟩
          have : keyContent (setMemo st i m (mkKey env st m k, env.f m (st.recv i) (st.args k))) (mkKey env st m k)
              = keyContent st (mkKey env st m k) := by cases mkKey env st m k <;> rfl
          rw [this, e1]; rfl
        · simp only [him, if_false] at h
          obtain ⟨h1, h2⟩ := I i m key v h
          refine ⟨?_, h2⟩
          rw [h1]; cases key <;> rfl
      cases hmemo : st.memo j n with
      | none =>
        have : step env st (.query j n k) = (setMemo st j n (mkKey env st n k, env.f n (st.recv j) (st.args k))) := by
          simp [step, hjk, hmemo]
        rw [this]; exact store
      | some e =>
        obtain ⟨key, v⟩ := e
        by_cases hit : keyContent st key = st.args k
        · have : step env st (.query j n k) = st := by simp [step, hjk, hmemo, hit]
          rw [this]; exact I
        · have : step env st (.query j n k) = (setMemo st j n (mkKey env st n k, env.f n (st.recv j) (st.args k))) := by
            simp [step, hjk, hmemo, hit]
          rw [this]; exact store
    · have : step env st (.query j n k) = st := by simp [step, hjk]
      rw [this]; exact I

theorem run_memoOk (env : Env) (h : List Op) :
    ∀ st, (env.keysCopy = true ∨ (h.all fun o => !o.isEdit) = true) → MemoOk env st → MemoOk env (run env st h) := by
  induction h with
  | nil => intro st _ I; exact I
  | cons op ops ih =>
    intro st hs I
    simp only [run]
    apply ih
    · rcases hs with hs | hs
      · exact Or.inl hs
      · simp only [List.all_cons, Bool.and_eq_true] at hs; exact Or.inr hs.2
    · apply step_memoOk env st op _ I
      rcases hs with hs | hs
      · exact Or.inl hs
      · simp only [List.all_cons, Bool.and_eq_true] at hs
        right; simpa using hs.1

theorem answer_of_memoOk (env : Env) (st : State) (I : MemoOk env st) (i m k : Nat) :
    answer env st i m k = env.f m (st.recv i) (st.args k) := by
  unfold answer
  cases hmemo : st.memo i m with
  | none => rfl
  | some e =>
    obtain ⟨key, v⟩ := e
    simp only
    split
    · rename_i hit
      rw [(I i m key v hmemo).1, hit]
    · rfl

end Embit.HeapAlias
