import EmbitModel.Proofs.PsetTop
/-
  C18 (deepening): no key is accepted twice in a PSET scope. `hasKey` mirrors the duplicate checks of
  `LInputScope.read_value` / `LOutputScope.read_value` (KEEP_ALL); for output scopes a field has two spellings and
  `hasKey` does not distinguish them, so the statement is about `canonKey`.
-/
set_option linter.unusedSimpArgs false
set_option linter.unusedVariables false
namespace Embit
open Model

/-! ### input scope -/

/-- is key `k` already taken in scope `s`? -/
def Model.LInScope.hasKey (s : LInScope) (k : Bytes) : Bool :=
  if isLiquidKey k then
    match LInField.ofKey k with
    | some f => (lget s.lf f).isSome
    | none => (lookup k s.base.unknown).isSome
  else
    match k with
    | [] => false
    | k0 :: krest =>
      if k0 = 0x00 then s.nonWitnessUtxo.isSome
      else if k0 = 0x01 then s.witnessUtxo.isSome
      else s.base.hasKey (k0 :: krest)

theorem InScope.le_unknown_snoc (b : InScope) (k v : Bytes) :
    InScope.le b { b with unknown := b.unknown ++ [(k, v)] } := by
  constructor <;> simp [lookup_append_isSome] <;> (intro p h; exact Or.inl h)

/-- monotonicity of `hasKey` from its three ingredients -/
theorem LInScope.hasKey_mono_of (s s' : LInScope) (hb : InScope.le s.base s'.base)
    (h0 : s.nonWitnessUtxo.isSome = true → s'.nonWitnessUtxo.isSome = true)
    (h1 : s.witnessUtxo.isSome = true → s'.witnessUtxo.isSome = true)
    (hl : ∀ f, (lget s.lf f).isSome = true → (lget s'.lf f).isSome = true) :
    ∀ k, s.hasKey k = true → s'.hasKey k = true := by
  intro k hk
  unfold LInScope.hasKey at hk ⊢
  by_cases hliq : isLiquidKey k = true
  · simp only [hliq, if_true] at hk ⊢
    cases hf : LInField.ofKey k with
    | some f => simp only [hf] at hk ⊢; exact hl f hk
    | none => simp only [hf] at hk ⊢; exact hb.fu _ hk
  · rw [Bool.not_eq_true] at hliq
    simp only [hliq, Bool.false_eq_true, if_false] at hk ⊢
    cases k with
    | nil => simp at hk
    | cons k0 krest =>
      simp only [] at hk ⊢
      by_cases h00 : k0 = 0x00
      · simp only [h00, if_true] at hk ⊢; exact h0 hk
      · simp only [h00, if_false] at hk ⊢
        by_cases h01 : k0 = 0x01
        · simp only [h01, if_true] at hk ⊢; exact h1 hk
        · simp only [h01, if_false] at hk ⊢
          exact InScope.hasKey_mono hb _ hk

/-- one step of `LInputScope.read_value` (KEEP_ALL): the key was free, is taken afterwards, nothing is released -/
theorem LInScope.addPair_key (ko : KeyOps) (s s' : LInScope) (k v : Bytes) (hk : k ≠ [])
    (h : LInScope.addPair ko s k v = some s') :
    s.hasKey k = false ∧ s'.hasKey k = true ∧ ∀ k', s.hasKey k' = true → s'.hasKey k' = true := by
  unfold LInScope.addPair at h
  split at h
  · rename_i hliq
    have hl : isLiquidKey k = false := by simpa using hliq
    split at h
    · exact absurd rfl hk
    · rename_i k0 krest
      split at h
      · rename_i h0
        subst h0
        split at h
        · simp at h
        · split at h
          · simp at h
          · rename_i hnw
            split at h
            · simp at h
            · rename_i t ht
              simp at h; subst h
              have hn : s.nonWitnessUtxo = none := by simpa using hnw
              refine ⟨by simp [LInScope.hasKey, hl, hn], by simp [LInScope.hasKey, hl], ?_⟩
              exact LInScope.hasKey_mono_of s _ (InScope.le_refl _) (by simp) (fun x => x) (fun f x => x)
      · rename_i h0
        split at h
        · rename_i h1
          subst h1
          split at h
          · simp at h
          · split at h
            · simp at h
            · rename_i hnw
              split at h
              · simp at h
              · rename_i o ho
                simp at h; subst h
                have hn : s.witnessUtxo = none := by simpa using hnw
                refine ⟨by simp [LInScope.hasKey, hl, hn], by simp [LInScope.hasKey, hl], ?_⟩
                exact LInScope.hasKey_mono_of s _ (InScope.le_refl _) (fun x => x) (by simp) (fun f x => x)
        · rename_i h1
          split at h
          · simp at h
          · rename_i b hb
            simp at h; subst h
            obtain ⟨a1, a2, a3⟩ := InScope.addPair_key ko _ s.base b (k0 :: krest) v hk hb
            refine ⟨by simp [LInScope.hasKey, hl, h0, h1, a1], by simp [LInScope.hasKey, hl, h0, h1, a2], ?_⟩
            exact LInScope.hasKey_mono_of s _ a3 (fun x => x) (fun x => x) (fun f x => x)
  · rename_i hliq
    have hl : isLiquidKey k = true := by simpa using hliq
    split at h
    · rename_i f hf
      split at h
      · simp at h
      · rename_i hnone
        split at h
        · simp at h
        · simp at h; subst h
          have hn : lget s.lf f = none := by simpa using hnone
          refine ⟨by simp [LInScope.hasKey, hl, hf, hn], by simp [LInScope.hasKey, hl, hf, lget_append_self s.lf f v hn], ?_⟩
          exact LInScope.hasKey_mono_of s _ (InScope.le_refl _) (fun x => x) (fun x => x)
            (fun g x => lget_append_isSome _ _ _ _ x)
    · rename_i hf
      split at h
      · simp at h
      · rename_i hnone
        simp at h; subst h
        have hn : (lookup k s.base.unknown).isSome = false := by simpa using hnone
        refine ⟨by simp [LInScope.hasKey, hl, hf, hn], by simp [LInScope.hasKey, hl, hf, lookup_append_isSome], ?_⟩
        exact LInScope.hasKey_mono_of s _ (InScope.le_unknown_snoc s.base k v) (fun x => x) (fun x => x) (fun f x => x)

/-- a scope in which the same key occurs twice is refused -/
theorem LInScope.addPairs_nodup (ko : KeyOps) :
    ∀ (kvs : List KV) (s s' : LInScope), (∀ kv ∈ kvs, kv.1 ≠ []) →
      LInScope.addPairs ko s kvs = some s' →
      (kvs.map Prod.fst).Nodup ∧ (∀ kv ∈ kvs, s.hasKey kv.1 = false)
      ∧ (∀ k', s.hasKey k' = true → s'.hasKey k' = true) := by
  intro kvs
  induction kvs with
  | nil => intro s s' _ h; simp [LInScope.addPairs] at h; subst h; simp
  | cons kv kvs ih =>
    intro s s' hne h
    obtain ⟨k, v⟩ := kv
    simp only [LInScope.addPairs] at h
    split at h
    · simp at h
    · rename_i s1 h1
      have hk : k ≠ [] := hne (k, v) (by simp)
      obtain ⟨a1, a2, a3⟩ := LInScope.addPair_key ko s s1 k v hk h1
      obtain ⟨b1, b2, b3⟩ := ih s1 s' (fun x hx => hne x (by simp [hx])) h
      refine ⟨?_, ?_, fun k' hk' => b3 k' (a3 k' hk')⟩
      · simp only [List.map_cons, List.nodup_cons]
        refine ⟨?_, b1⟩
        intro hmem
        simp at hmem
        obtain ⟨v', hv'⟩ := hmem
        have := b2 (k, v') hv'
        simp [a2] at this
      · intro x hx
        simp at hx
        rcases hx with rfl | hx
        · exact a1
        · cases hxk : s.hasKey x.1 with
          | false => rfl
          | true =>
            have := a3 x.1 hxk
            rw [b2 x hx] at this; simp at this

/-! ### output scope -/

def Model.LOutScope.hasKey (s : LOutScope) (k : Bytes) : Bool :=
  if isLiquidKey k then
    match LOutField.ofKey k with
    | some f => (lget s.lf f).isSome
    | none => (lookup k s.base.unknown).isSome
  else s.base.hasKey k

theorem OutScope.le_unknown_snoc (b : OutScope) (k v : Bytes) :
    OutScope.le b { b with unknown := b.unknown ++ [(k, v)] } := by
  constructor <;> simp [lookup_append_isSome] <;> (intro p h; exact Or.inl h)

theorem LOutScope.hasKey_mono_of (s s' : LOutScope) (hb : OutScope.le s.base s'.base)
    (hl : ∀ f, (lget s.lf f).isSome = true → (lget s'.lf f).isSome = true) :
    ∀ k, s.hasKey k = true → s'.hasKey k = true := by
  intro k hk
  unfold LOutScope.hasKey at hk ⊢
  by_cases hliq : isLiquidKey k = true
  · simp only [hliq, if_true] at hk ⊢
    cases hf : LOutField.ofKey k with
    | some f => simp only [hf] at hk ⊢; exact hl f hk
    | none => simp only [hf] at hk ⊢; exact hb.fu _ hk
  · rw [Bool.not_eq_true] at hliq
    simp only [hliq, Bool.false_eq_true, if_false] at hk ⊢
    exact OutScope.hasKey_mono hb _ hk

theorem LOutScope.addPair_key (ko : KeyOps) (s s' : LOutScope) (k v : Bytes) (hk : k ≠ [])
    (h : LOutScope.addPair ko s k v = some s') :
    s.hasKey k = false ∧ s'.hasKey k = true ∧ ∀ k', s.hasKey k' = true → s'.hasKey k' = true := by
  unfold LOutScope.addPair at h
  split at h
  · rename_i hliq
    have hl : isLiquidKey k = false := by simpa using hliq
    split at h
    · simp at h
    · split at h
      · simp at h
      · rename_i b hb
        simp at h; subst h
        obtain ⟨a1, a2, a3⟩ := OutScope.addPair_key ko s.base b k v hk hb
        refine ⟨by simp [LOutScope.hasKey, hl, a1], by simp [LOutScope.hasKey, hl, a2], ?_⟩
        exact LOutScope.hasKey_mono_of s _ a3 (fun f x => x)
  · rename_i hliq
    have hl : isLiquidKey k = true := by simpa using hliq
    split at h
    · rename_i f hf
      split at h
      · simp at h
      · rename_i hnone
        split at h
        · simp at h
        · simp at h; subst h
          have hn : lget s.lf f = none := by simpa using hnone
          refine ⟨by simp [LOutScope.hasKey, hl, hf, hn], by simp [LOutScope.hasKey, hl, hf, lget_append_self s.lf f v hn], ?_⟩
          exact LOutScope.hasKey_mono_of s _ (OutScope.le_refl _) (fun g x => lget_append_isSome _ _ _ _ x)
    · rename_i hf
      split at h
      · simp at h
      · rename_i hnone
        simp at h; subst h
        have hn : (lookup k s.base.unknown).isSome = false := by simpa using hnone
        refine ⟨by simp [LOutScope.hasKey, hl, hf, hn], by simp [LOutScope.hasKey, hl, hf, lookup_append_isSome], ?_⟩
        exact LOutScope.hasKey_mono_of s _ (OutScope.le_unknown_snoc s.base k v) (fun f x => x)

theorem LOutField.key_liquid (f : LOutField) (b : Bool) : isLiquidKey (f.key b) = true := by
  cases f <;> cases b <;> decide

theorem LOutField.ofKey_key (f : LOutField) (b : Bool) : LOutField.ofKey (f.key b) = some f := by
  cases f <;> cases b <;> decide

/-- `hasKey` does not distinguish the two spellings of a field -/
theorem LOutScope.hasKey_canon (s : LOutScope) (ver : Option Nat) (k k' : Bytes)
    (h : LOutField.canonKey ver k = LOutField.canonKey ver k') : s.hasKey k = s.hasKey k' := by
  unfold LOutField.canonKey at h
  unfold LOutScope.hasKey
  by_cases hl : isLiquidKey k = true <;> by_cases hl' : isLiquidKey k' = true
  · simp only [hl, hl', if_true] at h ⊢
    cases hf : LOutField.ofKey k with
    | some f =>
      cases hf' : LOutField.ofKey k' with
      | some f' =>
        simp only [hf, hf'] at h ⊢
        have e := LOutField.ofKey_key f (ver == some 2)
        rw [h, LOutField.ofKey_key] at e
        simp at e; subst e; rfl
      | none =>
        simp only [hf, hf'] at h
        rw [← h, LOutField.ofKey_key] at hf'; simp at hf'
    | none =>
      cases hf' : LOutField.ofKey k' with
      | some f' =>
        simp only [hf, hf'] at h
        rw [h, LOutField.ofKey_key] at hf; simp at hf
      | none =>
        simp only [hf, hf'] at h ⊢
        subst h; rfl
  · rw [Bool.not_eq_true] at hl'
    simp only [hl, hl', if_true, Bool.false_eq_true, if_false] at h
    cases hf : LOutField.ofKey k with
    | some f => simp only [hf] at h; rw [← h, LOutField.key_liquid] at hl'; simp at hl'
    | none => simp only [hf] at h; subst h; rw [hl] at hl'; simp at hl'
  · rw [Bool.not_eq_true] at hl
    simp only [hl, hl', if_true, Bool.false_eq_true, if_false] at h
    cases hf : LOutField.ofKey k' with
    | some f => simp only [hf] at h; rw [h, LOutField.key_liquid] at hl; simp at hl
    | none => simp only [hf] at h; subst h; rw [hl] at hl'; simp at hl'
  · rw [Bool.not_eq_true] at hl hl'
    simp only [hl, hl', Bool.false_eq_true, if_false] at h ⊢
    subst h; rfl

/-- an output scope in which a key — or both spellings of one field — occurs twice is refused -/
theorem LOutScope.addPairs_nodup (ko : KeyOps) (ver : Option Nat) :
    ∀ (kvs : List KV) (s s' : LOutScope), (∀ kv ∈ kvs, kv.1 ≠ []) →
      LOutScope.addPairs ko s kvs = some s' →
      (kvs.map (fun kv => LOutField.canonKey ver kv.1)).Nodup ∧ (∀ kv ∈ kvs, s.hasKey kv.1 = false)
      ∧ (∀ k', s.hasKey k' = true → s'.hasKey k' = true) := by
  intro kvs
  induction kvs with
  | nil => intro s s' _ h; simp [LOutScope.addPairs] at h; subst h; simp
  | cons kv kvs ih =>
    intro s s' hne h
    obtain ⟨k, v⟩ := kv
    simp only [LOutScope.addPairs] at h
    split at h
    · simp at h
    · rename_i s1 h1
      have hk : k ≠ [] := hne (k, v) (by simp)
      obtain ⟨a1, a2, a3⟩ := LOutScope.addPair_key ko s s1 k v hk h1
      obtain ⟨b1, b2, b3⟩ := ih s1 s' (fun x hx => hne x (by simp [hx])) h
      refine ⟨?_, ?_, fun k' hk' => b3 k' (a3 k' hk')⟩
      · simp only [List.map_cons, List.nodup_cons]
        refine ⟨?_, b1⟩
        intro hmem
        obtain ⟨x, hx, he⟩ := List.mem_map.mp hmem
        have := b2 x hx
        rw [LOutScope.hasKey_canon s1 ver x.1 k he, a2] at this
        simp at this
      · intro x hx
        simp at hx
        rcases hx with rfl | hx
        · exact a1
        · cases hxk : s.hasKey x.1 with
          | false => rfl
          | true =>
            have := a3 x.1 hxk
            rw [b2 x hx] at this; simp at this

end Embit
