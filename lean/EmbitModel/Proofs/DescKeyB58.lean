import EmbitModel.Model.DescKeys
import EmbitModel.Proofs.Base58
/-
  C12 (audit-2 item A-2): the Base58Check codec of the DESCRIPTOR key layer (`Model/DescKeys.lean`, the record the
  driver evaluates) is the C11 model `Model/Base58.lean` — bridge lemmas, function by function — so the canonicity
  theorem of C11 (`Base58.encode_decode`: an accepted text is the encoding of what it decodes to) applies to it.
  Nothing about round trips is re-proved here.
-/
set_option linter.unusedSimpArgs false
set_option linter.unusedVariables false
namespace Embit.Model.Descriptor.Concrete
open Embit Embit.Model Embit.Digits

/-! ### alphabet -/

theorem B58_eq : B58 = Base58.digits := by decide

theorem findIdx_eq (l : Str) (c : Char) : findIdx l c = l.idxOf? c := by
  induction l with
  | nil => simp [findIdx]
  | cons x xs ih =>
    simp only [findIdx, List.idxOf?_cons]
    by_cases h : x = c
    · simp [h]
    · simp [h, ih]

theorem findIdx_B58 (c : Char) : findIdx B58 c = Base58.digitVal c := by
  rw [findIdx_eq, B58_eq]
  unfold Base58.digitVal
  cases Base58.digits.idxOf? c <;> rfl

theorem getD_B58 (r : Nat) : B58.getD r '1' = Base58.digitChar r := by
  rw [B58_eq]; rfl

/-! ### decoding -/

theorem b58value_eq : ∀ (s : Str) (n : Nat), b58value s n = Base58.accumulate n s := by
  intro s
  induction s with
  | nil => intro n; rfl
  | cons c r ih =>
    intro n
    simp only [b58value, Base58.accumulate, findIdx_B58]
    cases Base58.digitVal c with
    | none => rfl
    | some d => simp only []; rw [ih, Nat.mul_comm]

theorem leadingOnes_eq : ∀ s : Str, leadingOnes s = Base58.leadingOnes s := by
  intro s
  induction s with
  | nil => rfl
  | cons c r ih =>
    by_cases h : c = '1'
    · subst h; simp [leadingOnes, Base58.leadingOnes, ih]
    · simp only [Base58.leadingOnes, h, if_false]
      unfold leadingOnes
      split
      · rename_i heq; simp at heq; exact absurd heq.1 h
      · rfl

theorem leN_eq_minBytes : ∀ (k n : Nat), n ≠ 0 → 256 ^ (k - 1) ≤ n → n < 256 ^ k → leN k n = Base58.minBytesLE n := by
  intro k
  induction k with
  | zero => intro n h0 _ h; simp at h; exact absurd h h0
  | succ k ih =>
    intro n h0 hlo hhi
    rw [Base58.minBytesLE]
    simp only [h0, dite_false, leN]
    congr 1
    by_cases hk : k = 0
    · subst hk
      have : n / 256 = 0 := by simp at hhi; omega
      rw [this, Base58.minBytesLE]; simp [leN]
    · have hk1 : k = (k - 1) + 1 := by omega
      simp only [Nat.add_sub_cancel] at hlo
      have e : 256 ^ (k - 1) * 256 = 256 ^ k := by rw [← Nat.pow_succ]; congr 1; omega
      have hlo' : 256 ^ (k - 1) * 256 ≤ n := by rw [e]; exact hlo
      have hd : 256 ^ (k - 1) ≤ n / 256 := by
        rw [Nat.le_div_iff_mul_le (by decide)]; exact hlo'
      have hpos : 0 < 256 ^ (k - 1) := Nat.pow_pos (by decide)
      apply ih
      · omega
      · exact hd
      · rw [Nat.div_lt_iff_lt_mul (by decide)]; rw [Nat.pow_succ] at hhi; exact hhi

theorem minimalBe_eq (n : Nat) : minimalBe n = Base58.hexBytes n := by
  unfold minimalBe Base58.hexBytes
  by_cases h0 : n = 0
  · simp [h0]
  · simp only [h0, if_false, beN]
    congr 1
    have h1 : 2 ^ n.log2 ≤ n := Nat.log2_self_le h0
    have h2 : n < 2 ^ (n.log2 + 1) := Nat.lt_log2_self
    have e256 : ∀ j, (256 : Nat) ^ j = 2 ^ (8 * j) := by
      intro j; rw [Nat.pow_mul]
    apply leN_eq_minBytes _ _ h0
    · simp only [Nat.add_sub_cancel]
      rw [e256]
      exact Nat.le_trans (Nat.pow_le_pow_right (by decide) (by omega)) h1
    · rw [e256]
      exact Nat.lt_of_lt_of_le h2 (Nat.pow_le_pow_right (by decide) (by omega))

theorem b58decode_eq (s : Str) : b58decode s = Base58.decode s := by
  unfold b58decode Base58.decode
  simp only [b58value_eq, leadingOnes_eq, minimalBe_eq]
  split
  · rfl
  · cases Base58.accumulate 0 s <;> rfl

/-! ### encoding -/

theorem leadingZeros_eq : ∀ b : Bytes, leadingZeros b = Base58.leadingZeros b := by
  intro b
  induction b with
  | nil => rfl
  | cons c r ih =>
    by_cases h : c = 0
    · subst h; simp [leadingZeros, Base58.leadingZeros, ih]
    · simp only [Base58.leadingZeros, h, if_false]
      unfold leadingZeros
      split
      · rename_i heq; simp at heq; exact absurd heq.1 h
      · rfl

theorem b58Digits_eq : ∀ (fuel n : Nat) (acc : Str), n < 58 ^ fuel →
    b58Digits fuel n acc = (Base58.loopChars n).reverse ++ acc := by
  intro fuel
  induction fuel with
  | zero =>
    intro n acc h
    have : n = 0 := by simp at h; exact h
    subst this
    rw [Base58.loopChars]; simp [b58Digits]
  | succ f ih =>
    intro n acc h
    rw [Base58.loopChars]
    by_cases h0 : n = 0
    · simp [b58Digits, h0]
    · simp only [b58Digits, h0, if_false, dite_false, getD_B58]
      rw [ih]
      · simp
      · rw [Nat.div_lt_iff_lt_mul (by decide)]; rw [Nat.pow_succ] at h; exact h

theorem ofBe_lt (b : Bytes) : ofBe b < 256 ^ b.length := by
  have := ofLe_lt b.reverse
  simpa [ofBe] using this

theorem pow256_le_pow58 (k : Nat) : 256 ^ k ≤ 58 ^ (2 * k + 2) := by
  have h1 : (256 : Nat) ^ k ≤ (58 ^ 2) ^ k := Nat.pow_le_pow_left (by decide) k
  rw [← Nat.pow_mul] at h1
  exact Nat.le_trans h1 (Nat.pow_le_pow_right (by decide) (by omega))

theorem b58encode_eq (b : Bytes) : b58encode b = Base58.encode b := by
  unfold b58encode Base58.encode
  simp only [leadingZeros_eq]
  rw [b58Digits_eq _ _ _ (Nat.lt_of_lt_of_le (ofBe_lt b) (pow256_le_pow58 _))]
  simp

/-! ### Base58Check: what is accepted is the encoding of the payload (canonicity, from C11) -/

theorem b58decodeCheck_sound (s : Str) (body : Bytes) (h : b58decodeCheck s = some body) :
    b58encodeCheck body = s ∧ ∃ b, Base58.decode s = some b ∧ b.length = body.length + 4 := by
  unfold b58decodeCheck at h
  rw [b58decode_eq] at h
  cases hd : Base58.decode s with
  | none => simp [hd] at h
  | some b =>
    simp only [hd] at h
    split at h
    · simp at h
    · rename_i hlen
      split at h
      · rename_i hck
        simp only [Option.some.injEq] at h
        have hb : b = body ++ (dsha256 body).take 4 := by
          rw [← h, ← hck]; exact (List.take_append_drop _ _).symm
        refine ⟨?_, b, rfl, ?_⟩
        · unfold b58encodeCheck
          rw [b58encode_eq, ← hb]
          exact Base58.encode_decode s b hd
        · rw [← h]; simp; omega
      · simp at h

/-- every character of an accepted text is a Base58 digit -/
theorem b58decodeCheck_chars (s : Str) (body : Bytes) (h : b58decodeCheck s = some body) :
    ∀ c ∈ s, c ∈ Base58.digits := by
  obtain ⟨_, b, hb, _⟩ := b58decodeCheck_sound s body h
  exact (Base58.decode_isSome_iff s).mp (by simp [hb])

/-! ### short texts decode to short byte strings -/

theorem minBytesLE_length : ∀ (k n : Nat), n < 256 ^ k → (Base58.minBytesLE n).length ≤ k := by
  intro k
  induction k with
  | zero => intro n h; have : n = 0 := by simp at h; exact h
            subst this; rw [Base58.minBytesLE]; simp
  | succ k ih =>
    intro n h
    rw [Base58.minBytesLE]
    by_cases h0 : n = 0
    · simp [h0]
    · simp only [h0, dite_false, List.length_cons]
      have := ih (n / 256) (by rw [Nat.div_lt_iff_lt_mul (by decide)]; rw [Nat.pow_succ] at h; exact h)
      omega

theorem accumulate_lt : ∀ (s : Str) (a n : Nat), Base58.accumulate a s = some n → n < (a + 1) * 58 ^ s.length := by
  intro s
  induction s with
  | nil => intro a n h; simp [Base58.accumulate] at h; subst h; simp
  | cons c r ih =>
    intro a n h
    simp only [Base58.accumulate] at h
    cases hv : Base58.digitVal c with
    | none => simp [hv] at h
    | some d =>
      simp only [hv] at h
      have hd := (Base58.digitVal_some hv).1
      have := ih _ _ h
      simp only [List.length_cons, Nat.pow_succ]
      calc n < (a * 58 + d + 1) * 58 ^ r.length := this
        _ ≤ ((a + 1) * 58) * 58 ^ r.length := Nat.mul_le_mul_right _ (by omega)
        _ = (a + 1) * (58 ^ r.length * 58) := by rw [Nat.mul_assoc, Nat.mul_comm 58]

theorem leadingOnes_le : ∀ s : Str, Base58.leadingOnes s ≤ s.length := by
  intro s
  induction s with
  | nil => simp [Base58.leadingOnes]
  | cons c r ih => simp only [Base58.leadingOnes]; split <;> simp <;> omega

/-- a Base58 text of at most three characters decodes to at most five bytes -/
theorem decode_short (s : Str) (b : Bytes) (hs : s.length ≤ 3) (h : Base58.decode s = some b) : b.length ≤ 5 := by
  unfold Base58.decode at h
  split at h
  · simp at h; subst h; simp
  · cases ha : Base58.accumulate 0 s with
    | none => simp [ha] at h
    | some n =>
      simp only [ha, Option.some.injEq] at h
      subst h
      have hn := accumulate_lt s 0 n ha
      have hn3 : n < 256 ^ 3 := by
        have : 58 ^ s.length ≤ 58 ^ 3 := Nat.pow_le_pow_right (by decide) hs
        have e : (58 : Nat) ^ 3 = 195112 := by decide
        have e2 : (256 : Nat) ^ 3 = 16777216 := by decide
        omega
      have hl := minBytesLE_length 3 n hn3
      have hp := leadingOnes_le s.dropLast
      have hdl : s.dropLast.length ≤ 2 := by simp; omega
      simp only [List.length_append, List.length_replicate, Base58.hexBytes]
      split
      · simp; omega
      · simp; omega

/-- the text of a payload of at least two bytes has at least four characters and does not start with `[` -/
theorem b58decodeCheck_textShape (s : Str) (body : Bytes) (h : b58decodeCheck s = some body) (hl : 2 ≤ body.length) :
    4 ≤ s.length ∧ s.head? ≠ some '[' := by
  obtain ⟨_, b, hb, hbl⟩ := b58decodeCheck_sound s body h
  constructor
  · by_cases hc : 4 ≤ s.length
    · exact hc
    · have := decode_short s b (by omega) hb
      omega
  · intro hh
    cases s with
    | nil => simp at hh
    | cons c r =>
      simp at hh
      subst hh
      have := b58decodeCheck_chars _ body h '[' (by simp)
      revert this
      decide

end Embit.Model.Descriptor.Concrete
