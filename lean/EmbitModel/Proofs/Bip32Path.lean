import EmbitModel.Proofs.Bip32Neuter
import EmbitModel.Proofs.PathText
import EmbitModel.Spec.Bip32Path
/-
  Path-level statements for C09X: `derive` against the BIP32 fold with bookkeeping (`Spec/Bip32Path.lean`),
  refusal of unrepresentable paths, neutering along non-hardened paths (spec level and model level).
  No Mathlib import.
-/
namespace Embit.Keys
open Embit Embit.Spec.Bip32

variable {E : EcOps}

/-! ### the spec fold: projections -/

theorem deriveNodePrv_x (hmac : Bytes → Bytes → Bytes) (h160 : Bytes → Bytes) (p : List Nat) :
    ∀ nd : NodePrv, (deriveNodePrv E hmac h160 nd p).map (·.x) = derivePriv E hmac nd.x p := by
  induction p with
  | nil => intro nd; rfl
  | cons i r ih =>
    intro nd
    simp only [deriveNodePrv, derivePriv, stepPrv]
    cases hc : CKDpriv E hmac nd.x i with
    | none => rfl
    | some x => simp only [Option.map_some, Option.bind_some]; exact ih _

theorem deriveNodePub_x (hmac : Bytes → Bytes → Bytes) (h160 : Bytes → Bytes) (p : List Nat) :
    ∀ nd : NodePub E, (deriveNodePub E hmac h160 nd p).map (·.x) = derivePub E hmac nd.x p := by
  induction p with
  | nil => intro nd; rfl
  | cons i r ih =>
    intro nd
    simp only [deriveNodePub, derivePub, stepPub]
    cases hc : CKDpub E hmac nd.x i with
    | none => rfl
    | some x => simp only [Option.map_some, Option.bind_some]; exact ih _

theorem deriveNodePrv_depth (hmac : Bytes → Bytes → Bytes) (h160 : Bytes → Bytes) (p : List Nat) :
    ∀ nd r : NodePrv, deriveNodePrv E hmac h160 nd p = some r → r.depth = nd.depth + p.length := by
  induction p with
  | nil => intro nd r h; cases h; rfl
  | cons i t ih =>
    intro nd r h
    simp only [deriveNodePrv, stepPrv] at h
    cases hc : CKDpriv E hmac nd.x i with
    | none => simp [hc] at h
    | some x =>
      simp only [hc, Option.map_some, Option.bind_some] at h
      have := ih _ r h
      simp only [List.length_cons] at this ⊢
      omega

theorem deriveNodePub_depth (hmac : Bytes → Bytes → Bytes) (h160 : Bytes → Bytes) (p : List Nat) :
    ∀ nd r : NodePub E, deriveNodePub E hmac h160 nd p = some r → r.depth = nd.depth + p.length := by
  induction p with
  | nil => intro nd r h; cases h; rfl
  | cons i t ih =>
    intro nd r h
    simp only [deriveNodePub, stepPub] at h
    cases hc : CKDpub E hmac nd.x i with
    | none => simp [hc] at h
    | some x =>
      simp only [hc, Option.map_some, Option.bind_some] at h
      have := ih _ r h
      simp only [List.length_cons] at this ⊢
      omega

/-! ### CKD results are well formed -/

theorem CKDpriv_valid (L : EcLaws E) (hmac : Bytes → Bytes → Bytes) (x : XPrv) (i : Nat) (r : XPrv)
    (h : CKDpriv E hmac x i = some r) : seckeyValid E r.k = true := by
  unfold CKDpriv at h
  generalize (if i ≥ 2 ^ 31 then hmac x.c (0x00 :: (ser256 x.k ++ ser32 i))
      else hmac x.c (serP E (point E x.k) ++ ser32 i)) = I at h
  simp only at h
  by_cases hc : parse256 (split I).1 ≥ E.n ∨ (parse256 (split I).1 + x.k) % E.n = 0
  · rw [if_pos hc] at h; cases h
  · rw [if_neg hc] at h
    have := Option.some.inj h
    subst this
    rw [seckeyValid_iff]
    exact ⟨Nat.pos_of_ne_zero (fun hz => hc (Or.inr hz)), Nat.mod_lt _ L.n_pos⟩

theorem CKDpub_cc_length (hmac : Bytes → Bytes → Bytes) (hlen : ∀ key msg, (hmac key msg).length = 64)
    (x : XPub E) (i : Nat) (r : XPub E) (h : CKDpub E hmac x i = some r) : r.c.length = 32 := by
  unfold CKDpub at h
  split at h
  · cases h
  · simp only at h
    split at h
    · cases h
    · have := Option.some.inj h
      subst this
      simp [split, hlen]

theorem fingerprint_length (h160 : Bytes → Bytes) (hh160 : ∀ msg, 4 ≤ (h160 msg).length) (P : E.Pt) :
    (fingerprint E h160 P).length = 4 := by
  have := hh160 (serP E P)
  simp [fingerprint]; omega

/-! ### the HD key of a spec node -/

/-- the HDKey object embit builds for a derived private node: compressed key; `net` is the network attribute of
    the PrivateKey object (`child` always builds `PrivateKey(secret)` with the default network) -/
def hdOfPrv (ver : Bytes) (net : Nat) (nd : NodePrv) : HDKey E :=
  { key := .priv ⟨nd.x.k, true, net⟩, chainCode := nd.x.c, version := ver, depth := nd.depth,
    fingerprint := nd.parentFp, childNumber := nd.childNum }

def hdOfPub (ver : Bytes) (nd : NodePub E) : HDKey E :=
  { key := .pub ⟨nd.x.K, true⟩, chainCode := nd.x.c, version := ver, depth := nd.depth,
    fingerprint := nd.parentFp, childNumber := nd.childNum }

/-- one private step, total below depth 255 (restates `child_eq_ckd_priv_total` on nodes) -/
theorem child_priv_node (L : EcLaws E) (env : Env) (hlen : ∀ key msg, (env.hmac512 key msg).length = 64)
    (hh160 : ∀ msg, 4 ≤ (env.hash160 msg).length)
    (k : HDKey E) (pk : PrivateKey) (hk : k.key = .priv pk) (hc : pk.compressed = true)
    (hv : seckeyValid E pk.secret = true) (hd : k.depth < 255) (hA : VersionSays env k.version tPrv)
    (i : Nat) (hi : i < 2 ^ 32) :
    k.child env i =
      (stepPrv E env.hmac512 env.hash160 ⟨⟨pk.secret, k.chainCode⟩, k.depth, k.fingerprint, k.childNumber⟩ i).map
        (hdOfPrv k.version Generated.privDefaultNet) := by
  rw [child_priv L env hlen k pk hk hc hv i hi]
  unfold stepPrv
  cases hr : CKDpriv E env.hmac512 ⟨pk.secret, k.chainCode⟩ i with
  | none => rfl
  | some r =>
    simp only [Option.bind_some, Option.map_some]
    have hrc : r.c.length = 32 := CKDpriv_cc_length env.hmac512 hlen _ i r hr
    have hfl := fingerprint_length (E := E) env.hash160 hh160 (point E pk.secret)
    exact init_some env _ _ _ _ _ _ (by simp [KeyObj.Canon]) hrc hfl (by omega) hi
      (by simpa [kindText, KeyObj.isPrivate] using hA)

theorem child_pub_node (L : EcLaws E) (env : Env) (hlen : ∀ key msg, (env.hmac512 key msg).length = 64)
    (hh160 : ∀ msg, 4 ≤ (env.hash160 msg).length)
    (k : HDKey E) (pb : PublicKey E) (hk : k.key = .pub pb) (hc : pb.compressed = true)
    (hd : k.depth < 255) (hA : VersionSays env k.version tPub) (i : Nat) (hi : i < 2 ^ 32) :
    k.child env i =
      (stepPub E env.hmac512 env.hash160 ⟨⟨pb.point, k.chainCode⟩, k.depth, k.fingerprint, k.childNumber⟩ i).map
        (hdOfPub k.version) := by
  rw [child_pub L env hlen k pb hk hc i hi]
  unfold stepPub
  cases hr : CKDpub E env.hmac512 ⟨pb.point, k.chainCode⟩ i with
  | none => rfl
  | some r =>
    simp only [Option.bind_some, Option.map_some]
    have hrc : r.c.length = 32 := CKDpub_cc_length env.hmac512 hlen _ i r hr
    have hfl := fingerprint_length (E := E) env.hash160 hh160 pb.point
    exact init_some env _ _ _ _ _ _ (by simp [KeyObj.Canon]) hrc hfl (by omega) hi
      (by simpa [kindText, KeyObj.isPrivate] using hA)

/-- all elements of a path are indices in `[0, 2^32)` -/
def PathInRange (p : List Int) : Prop := ∀ i ∈ p, 0 ≤ i ∧ i < 2 ^ 32

/-- all elements are non-hardened indices `[0, 2^31)` -/
def PathSoft (p : List Int) : Prop := ∀ i ∈ p, 0 ≤ i ∧ i < 2 ^ 31

theorem toNat_lt_of (i : Int) (m : Nat) (h0 : 0 ≤ i) (h : i < (2:Int) ^ m) : i.toNat < 2 ^ m := by
  have h2 : ((2:Int) ^ m) = (((2:Nat) ^ m : Nat) : Int) := by norm_cast
  rw [h2] at h
  omega

/-! ### derive = the BIP32 fold with bookkeeping -/

theorem derive_spec_priv (L : EcLaws E) (env : Env) (hlen : ∀ key msg, (env.hmac512 key msg).length = 64)
    (hh160 : ∀ msg, 4 ≤ (env.hash160 msg).length) (p : List Int) :
    ∀ (k : HDKey E) (pk : PrivateKey), k.key = .priv pk → pk.compressed = true →
      seckeyValid E pk.secret = true → VersionSays env k.version tPrv → PathInRange p →
      k.depth + p.length ≤ 255 →
      k.derive env p =
        (deriveNodePrv E env.hmac512 env.hash160 ⟨⟨pk.secret, k.chainCode⟩, k.depth, k.fingerprint, k.childNumber⟩
            (p.map Int.toNat)).map
          (hdOfPrv k.version (if p = [] then pk.network else Generated.privDefaultNet)) := by
  induction p with
  | nil =>
    intro k pk hk hc _ _ _ _
    obtain ⟨key, cc, ver, d, fp, cn⟩ := k
    obtain ⟨s, c, net⟩ := pk
    simp only at hk hc
    subst hk; subst hc
    rfl
  | cons i r ih =>
    intro k pk hk hc hv hA hp hd
    have hi := hp i (by simp)
    have hi32 : i.toNat < 2 ^ 32 := toNat_lt_of i 32 hi.1 hi.2
    simp only [List.length_cons] at hd
    simp only [HDKey.derive, List.map_cons, deriveNodePrv]
    rw [if_neg (by omega), if_neg (by simp)]
    rw [child_priv_node L env hlen hh160 k pk hk hc hv (by omega) hA i.toNat hi32]
    cases hs : stepPrv E env.hmac512 env.hash160 ⟨⟨pk.secret, k.chainCode⟩, k.depth, k.fingerprint, k.childNumber⟩
        i.toNat with
    | none => rfl
    | some nd =>
      simp only [Option.map_some, Option.bind_some]
      have hs' := hs
      unfold stepPrv at hs'
      cases hr : CKDpriv E env.hmac512 ⟨pk.secret, k.chainCode⟩ i.toNat with
      | none => simp [hr] at hs'
      | some x =>
        simp only [hr, Option.map_some, Option.some.injEq] at hs'
        subst hs'
        have hvx := CKDpriv_valid L env.hmac512 _ _ _ hr
        have := ih (hdOfPrv k.version Generated.privDefaultNet
            ⟨x, k.depth + 1, fingerprint E env.hash160 (point E pk.secret), i.toNat⟩)
          ⟨x.k, true, Generated.privDefaultNet⟩ rfl rfl hvx hA (fun j hj => hp j (by simp [hj]))
          (by simp only [hdOfPrv]; omega)
        rw [this]
        simp only [hdOfPrv, ite_self]

theorem derive_spec_pub (L : EcLaws E) (env : Env) (hlen : ∀ key msg, (env.hmac512 key msg).length = 64)
    (hh160 : ∀ msg, 4 ≤ (env.hash160 msg).length) (p : List Int) :
    ∀ (k : HDKey E) (pb : PublicKey E), k.key = .pub pb → pb.compressed = true →
      VersionSays env k.version tPub → PathInRange p → k.depth + p.length ≤ 255 →
      k.derive env p =
        (deriveNodePub E env.hmac512 env.hash160 ⟨⟨pb.point, k.chainCode⟩, k.depth, k.fingerprint, k.childNumber⟩
            (p.map Int.toNat)).map (hdOfPub k.version) := by
  induction p with
  | nil =>
    intro k pb hk hc _ _ _
    obtain ⟨key, cc, ver, d, fp, cn⟩ := k
    obtain ⟨P, c⟩ := pb
    simp only at hk hc
    subst hk; subst hc
    rfl
  | cons i r ih =>
    intro k pb hk hc hA hp hd
    have hi := hp i (by simp)
    have hi32 : i.toNat < 2 ^ 32 := toNat_lt_of i 32 hi.1 hi.2
    simp only [List.length_cons] at hd
    simp only [HDKey.derive, List.map_cons, deriveNodePub]
    rw [if_neg (by omega)]
    rw [child_pub_node L env hlen hh160 k pb hk hc (by omega) hA i.toNat hi32]
    cases hs : stepPub E env.hmac512 env.hash160 ⟨⟨pb.point, k.chainCode⟩, k.depth, k.fingerprint, k.childNumber⟩
        i.toNat with
    | none => rfl
    | some nd =>
      simp only [Option.map_some, Option.bind_some]
      have := ih (hdOfPub k.version nd) ⟨nd.x.K, true⟩ rfl rfl hA (fun j hj => hp j (by simp [hj]))
          (by
            have hs' := hs
            unfold stepPub at hs'
            cases hr : CKDpub E env.hmac512 ⟨pb.point, k.chainCode⟩ i.toNat with
            | none => simp [hr] at hs'
            | some x =>
              simp only [hr, Option.map_some, Option.some.injEq] at hs'
              subst hs'
              simp only [hdOfPub]; omega)
      rw [this]
      rfl

/-! ### paths that cannot be represented are refused -/

/-- a path with an element outside `[0, 2^32)` is refused (wherever the element stands) -/
theorem derive_out_of_range (env : Env) (p : List Int) :
    ∀ k : HDKey E, (∃ i ∈ p, i < 0 ∨ 2 ^ 32 ≤ i) → k.derive env p = none := by
  induction p with
  | nil => intro k ⟨i, hi, _⟩; cases hi
  | cons j r ih =>
    intro k ⟨i, hi, hbad⟩
    simp only [HDKey.derive]
    split
    · rfl
    · rename_i hj
      cases hc : k.child env j.toNat with
      | none => rfl
      | some c =>
        simp only
        rcases List.mem_cons.mp hi with rfl | hir
        · exfalso
          rcases hbad with hb | hb
          · omega
          · have hge : 2 ^ 32 ≤ i.toNat := by
              have h2 : ((2:Int) ^ 32) = (((2:Nat) ^ 32 : Nat) : Int) := by norm_cast
              rw [h2] at hb
              omega
            unfold HDKey.child at hc
            rw [if_pos (by omega)] at hc
            cases hc
        · exact ih c ⟨i, hir, hbad⟩

/-- a path that would lead beyond depth 255 is refused -/
theorem derive_too_deep (env : Env) (p : List Int) :
    ∀ k : HDKey E, 255 < k.depth + p.length → p ≠ [] → k.derive env p = none := by
  induction p with
  | nil => intro k _ h; exact absurd rfl h
  | cons j r ih =>
    intro k hd _
    simp only [HDKey.derive]
    split
    · rfl
    · cases hc : k.child env j.toNat with
      | none => rfl
      | some c =>
        simp only
        have hdep := (child_fields env k c j.toNat false hc).2.1
        by_cases h255 : 255 ≤ k.depth
        · rw [child_depth_overflow env k h255] at hc; cases hc
        · cases r with
          | nil => simp only [List.length_cons, List.length_nil] at hd; omega
          | cons a t =>
            apply ih c _ (by simp)
            simp only [List.length_cons] at hd ⊢
            omega

/-! ### neutering along non-hardened paths: spec level -/

/-- BIP32: `N(CKDpriv((k_par, c_par), i)) = CKDpub(N(k_par, c_par), i)` for non-hardened `i`, invalid cases
    included (a consequence of the group laws alone) -/
theorem N_CKDpriv (L : EcLaws E) (hmac : Bytes → Bytes → Bytes) (m : XPrv) (i : Nat) (hi : i < 2 ^ 31) :
    (CKDpriv E hmac m i).map (N E) = CKDpub E hmac (N E m) i := by
  unfold CKDpriv CKDpub N
  have hnh : ¬ i ≥ 2 ^ 31 := by omega
  simp only [hnh, if_false]
  generalize hmac m.c (serP E (point E m.k) ++ ser32 i) = I
  simp only [split, parse256, point]
  have hsum : E.add (E.mulG (ofBe (I.take 32))) (E.mulG m.k) = E.mulG ((ofBe (I.take 32) + m.k) % E.n) := by
    rw [L.mulG_add, L.mulG_mod]
  have hinf : E.isInf (E.add (E.mulG (ofBe (I.take 32))) (E.mulG m.k)) = true
      ↔ (ofBe (I.take 32) + m.k) % E.n = 0 := by
    rw [L.mulG_add]; exact L.mulG_inf _
  by_cases hge : ofBe (I.take 32) ≥ E.n
  · simp [hge]
  · by_cases hz : (ofBe (I.take 32) + m.k) % E.n = 0
    · have := hinf.mpr hz
      simp [hz, this]
    · have hni : ¬ E.isInf (E.add (E.mulG (ofBe (I.take 32))) (E.mulG m.k)) = true := fun h => hz (hinf.mp h)
      rw [if_neg (by simp [hge, hz]), if_neg (by simp [hge, hni])]
      simp only [Option.map_some, hsum]

theorem N_derive (L : EcLaws E) (hmac : Bytes → Bytes → Bytes) (p : List Nat) (hp : ∀ i ∈ p, i < 2 ^ 31) :
    ∀ m : XPrv, (derivePriv E hmac m p).map (N E) = derivePub E hmac (N E m) p := by
  induction p with
  | nil => intro m; rfl
  | cons i r ih =>
    intro m
    simp only [derivePriv, derivePub]
    rw [← N_CKDpriv L hmac m i (hp i (by simp))]
    cases hc : CKDpriv E hmac m i with
    | none => rfl
    | some x =>
      simp only [Option.bind_some, Option.map_some]
      exact ih (fun j hj => hp j (by simp [hj])) x

theorem neuter_stepPrv (L : EcLaws E) (hmac : Bytes → Bytes → Bytes) (h160 : Bytes → Bytes) (nd : NodePrv)
    (i : Nat) (hi : i < 2 ^ 31) :
    (stepPrv E hmac h160 nd i).map (NodePrv.neuter E) = stepPub E hmac h160 (nd.neuter E) i := by
  unfold stepPrv stepPub
  simp only [NodePrv.neuter]
  rw [← N_CKDpriv L hmac nd.x i hi]
  cases CKDpriv E hmac nd.x i with
  | none => rfl
  | some x => simp [N, NodePrv.neuter]

/-- the same with the bookkeeping: depth, parent fingerprint and child number of the two folds coincide -/
theorem neuter_deriveNode (L : EcLaws E) (hmac : Bytes → Bytes → Bytes) (h160 : Bytes → Bytes) (p : List Nat)
    (hp : ∀ i ∈ p, i < 2 ^ 31) :
    ∀ nd : NodePrv, (deriveNodePrv E hmac h160 nd p).map (NodePrv.neuter E)
      = deriveNodePub E hmac h160 (nd.neuter E) p := by
  induction p with
  | nil => intro nd; rfl
  | cons i r ih =>
    intro nd
    simp only [deriveNodePrv, deriveNodePub]
    rw [← neuter_stepPrv L hmac h160 nd i (hp i (by simp))]
    cases hc : stepPrv E hmac h160 nd i with
    | none => rfl
    | some x =>
      simp only [Option.bind_some, Option.map_some]
      exact ih (fun j hj => hp j (by simp [hj])) x

/-! ### neutering along non-hardened paths: the model -/

/-- a child of a well-formed private key is a well-formed private key with the same version -/
theorem child_priv_wf (L : EcLaws E) (env : Env) (hlen : ∀ key msg, (env.hmac512 key msg).length = 64)
    (hh160 : ∀ msg, 4 ≤ (env.hash160 msg).length)
    (k : HDKey E) (pk : PrivateKey) (hk : k.key = .priv pk) (hc : pk.compressed = true)
    (hv : seckeyValid E pk.secret = true) (i : Nat) (hi : i < 2 ^ 32) (c : HDKey E)
    (hch : k.child env i = some c) :
    ∃ pk', c.key = .priv pk' ∧ pk'.compressed = true ∧ seckeyValid E pk'.secret = true ∧
      c.chainCode.length = 32 ∧ c.fingerprint.length = 4 ∧ c.childNumber < 2 ^ 32 ∧ c.version = k.version := by
  rw [child_priv L env hlen k pk hk hc hv i hi] at hch
  cases hr : CKDpriv E env.hmac512 ⟨pk.secret, k.chainCode⟩ i with
  | none => simp [hr] at hch
  | some r =>
    simp only [hr, Option.bind_some] at hch
    have := init_fields env _ _ _ _ _ _ _ hch
    subst this
    exact ⟨_, rfl, rfl, CKDpriv_valid L env.hmac512 _ _ _ hr, CKDpriv_cc_length env.hmac512 hlen _ i r hr,
      fingerprint_length env.hash160 hh160 _, hi, rfl⟩

theorem bind_assoc' {α β γ : Type} (o : Option α) (f : α → Option β) (g : β → Option γ) :
    (o.bind f).bind g = o.bind (fun a => (f a).bind g) := by
  cases o <;> rfl

theorem derive_cons_bind (env : Env) (k : HDKey E) (i : Int) (r : List Int) (h0 : 0 ≤ i) :
    k.derive env (i :: r) = (k.child env i.toNat).bind (fun c => c.derive env r) := by
  simp only [HDKey.derive]
  rw [if_neg (by omega)]
  cases k.child env i.toNat <;> rfl

/-- derive-then-neuter equals neuter-then-derive along every non-hardened path, failure cases included -/
theorem neuter_commutes_path_gen (L : EcLaws E) (env : Env) (hlen : ∀ key msg, (env.hmac512 key msg).length = 64)
    (hh160 : ∀ msg, 4 ≤ (env.hash160 msg).length) (ver : Bytes) (hA : VersionSays env ver tPrv)
    (hB : ∀ pv, detectPubVersion ver = some pv → VersionSays env pv tPub) (p : List Int) :
    ∀ (k : HDKey E) (pk : PrivateKey), k.key = .priv pk → pk.compressed = true →
      seckeyValid E pk.secret = true → k.chainCode.length = 32 → k.fingerprint.length = 4 →
      k.childNumber < 2 ^ 32 → k.version = ver → PathSoft p →
      (k.derive env p).bind (fun c => c.toPublic env) = (k.toPublic env).bind (fun K => K.derive env p) := by
  induction p with
  | nil =>
    intro k pk _ _ _ _ _ _ _ _
    simp only [HDKey.derive, Option.bind_some]
    cases k.toPublic env <;> rfl
  | cons i r ih =>
    intro k pk hk hc hv hcc hfp hcn hver hp
    have hi := hp i (by simp)
    have hi31 : i.toNat < 2 ^ 31 := toNat_lt_of i 31 hi.1 hi.2
    have hi32 : i.toNat < 2 ^ 32 := by omega
    rw [derive_cons_bind env k i r hi.1, bind_assoc']
    have hstep : ∀ c, k.child env i.toNat = some c →
        (c.derive env r).bind (fun c => c.toPublic env) = (c.toPublic env).bind (fun K => K.derive env r) := by
      intro c hch
      obtain ⟨pk', hk', hc', hv', hcc', hfp', hcn', hver'⟩ :=
        child_priv_wf L env hlen hh160 k pk hk hc hv i.toNat hi32 c hch
      exact ih c pk' hk' hc' hv' hcc' hfp' hcn' (by rw [hver', hver]) (fun j hj => hp j (by simp [hj]))
    have h1 : (k.child env i.toNat).bind (fun c => (c.derive env r).bind (fun c => c.toPublic env))
        = (k.child env i.toNat).bind (fun c => (c.toPublic env).bind (fun K => K.derive env r)) := by
      cases hch : k.child env i.toNat with
      | none => rfl
      | some c => simp only [Option.bind_some]; exact hstep c hch
    rw [h1, ← bind_assoc']
    rw [neuter_commutes_gen L env hlen hh160 k pk hk hc hv hcc hfp hcn (by rw [hver]; exact hA)
      (by rw [hver]; exact hB) i.toNat hi31]
    rw [bind_assoc']
    congr 1
    funext K
    exact (derive_cons_bind env K i r hi.1).symm

end Embit.Keys
