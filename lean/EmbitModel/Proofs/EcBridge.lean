import EmbitModel.Proofs.EcLaws
import EmbitModel.Model.SignWithOps
/-
  The bridge between the two curve records: the laws of the signature development (`Embit.EcLaws E`, C07 / C08)
  imply the laws of the key development (`Embit.Keys.EcLaws (toKeys E)`, C09 / C10) — every field — given the two size
  bounds both developments carry anyway (`n ≤ 2^256`, `p ≤ 2^256`) and ONE extra law that `Embit.EcLaws` lacks:

    `InfUnique E` : a multiple `a·G` without affine coordinates has `a ≡ 0 (mod n)`

  (the point at infinity is the only point without coordinates). `Embit.EcLaws` cannot give it: its coordinate laws
  speak about finite points only, so a structure in which some `a·G`, `a ≢ 0`, is declared coordinate-less (together
  with its negative) satisfies every field of `Embit.EcLaws`. The converse direction (`0·G` has no coordinates) IS
  derivable: `−(0·G) = n·G = 0·G`, and a finite point is never its own negative because `p` is odd.
-/
namespace Embit.Model.SignWith
open Embit

/-- the extra law: only the multiples of `n` give the point at infinity -/
def InfUnique (E : Embit.EcOps) : Prop := ∀ a, E.xy (E.mul a E.g) = none → a % E.n = 0

variable {E : Embit.EcOps}

/-- `0·G` is the point at infinity (derived: it is its own negative, `p` is odd, `y ≠ 0`) -/
theorem xy_mul_zero (L : Embit.EcLaws E) : E.xy (E.mul 0 E.g) = none := by
  have hneg : E.neg (E.mul 0 E.g) = E.mul 0 E.g := by
    rw [L.neg_mul 0 (Nat.zero_le _), Nat.sub_zero, ← L.mul_mod E.n, Nat.mod_self]
  cases h : E.xy (E.mul 0 E.g) with
  | none => rfl
  | some xy =>
    obtain ⟨x, y⟩ := xy
    have h2 := L.xy_neg _ x y h
    rw [hneg, h] at h2
    obtain ⟨_, _, hy0, hyp⟩ := L.xy_range _ x y h
    have hp := L.p_odd
    simp only [Option.some.injEq, Prod.mk.injEq, true_and] at h2
    omega

/-- a multiple of `n` times `G` is the point at infinity -/
theorem xy_mul_of_mod (L : Embit.EcLaws E) (a : Nat) (h : a % E.n = 0) : E.xy (E.mul a E.g) = none := by
  rw [← L.mul_mod a, h]; exact xy_mul_zero L

theorem add_comm_of_laws (L : Embit.EcLaws E) (P Q : E.Pt) : E.add P Q = E.add Q P := by
  obtain ⟨a, _, rfl⟩ := L.generated P
  obtain ⟨b, _, rfl⟩ := L.generated Q
  rw [L.mul_add, L.mul_add, Nat.add_comm]

theorem toKeys_isInf (P : E.Pt) : (toKeys E).isInf P = (E.xy P).isNone := rfl
theorem toKeys_x (P : E.Pt) (x y : Nat) (h : E.xy P = some (x, y)) : (toKeys E).x P = x := by
  show (match E.xy P with | some (x, _) => x | none => 0) = x
  rw [h]
theorem toKeys_y (P : E.Pt) (x y : Nat) (h : E.xy P = some (x, y)) : (toKeys E).y P = y := by
  show (match E.xy P with | some (_, y) => y | none => 0) = y
  rw [h]

/-- a point that is not infinite has coordinates, and they are what `x` / `y` of the bridged record return -/
theorem toKeys_finite (P : E.Pt) (h : (toKeys E).isInf P = false) :
    E.xy P = some ((toKeys E).x P, (toKeys E).y P) := by
  cases hxy : E.xy P with
  | none => simp [toKeys_isInf, hxy] at h
  | some xy =>
    obtain ⟨x, y⟩ := xy
    rw [toKeys_x P x y hxy, toKeys_y P x y hxy]

theorem toKeys_finite_of (P : E.Pt) (x y : Nat) (h : E.xy P = some (x, y)) : (toKeys E).isInf P = false := by
  rw [toKeys_isInf, h]; rfl

theorem toKeys_yOdd (P : E.Pt) (x y : Nat) (h : E.xy P = some (x, y)) :
    (toKeys E).yOdd P = (y % 2 == 1) := by
  unfold Embit.Keys.EcOps.yOdd
  rw [toKeys_y P x y h]

/-- **the bridge**: the curve laws of C07 / C08 give the curve laws of C09 / C10 for the bridged record -/
theorem toKeys_laws (L : Embit.EcLaws E) (hn : E.n ≤ 2 ^ 256) (hp : E.p ≤ 2 ^ 256) (hinf : InfUnique E) :
    Embit.Keys.EcLaws (toKeys E) where
  n_pos := L.n_pos
  n_le := hn
  add_comm := add_comm_of_laws L
  mulG_add := L.mul_add
  mulG_mod := L.mul_mod
  mulG_inf := by
    intro a
    show (E.xy (E.mul a E.g)).isNone = true ↔ a % E.n = 0
    rw [Option.isNone_iff_eq_none]
    exact ⟨hinf a, xy_mul_of_mod L a⟩
  neg_mulG := L.neg_mul
  neg_neg := L.neg_neg
  neg_inf := by
    intro P
    show (E.xy (E.neg P)).isNone = (E.xy P).isNone
    cases h : E.xy P with
    | none => rw [L.xy_neg_none P h]
    | some xy =>
      obtain ⟨x, y⟩ := xy
      rw [L.xy_neg P x y h]; rfl
  coord_lt := by
    intro P hP
    have h := toKeys_finite P hP
    obtain ⟨_, hx, _, hy⟩ := L.xy_range P _ _ h
    omega
  x_neg := by
    intro P hP
    have h := toKeys_finite P hP
    exact toKeys_x (E.neg P) _ _ (L.xy_neg P _ _ h)
  yOdd_neg := by
    intro P hP
    have h := toKeys_finite P hP
    obtain ⟨_, _, hy0, hyp⟩ := L.xy_range P _ _ h
    have hodd := L.p_odd
    have e1 := toKeys_yOdd P _ _ h
    have e2 := toKeys_yOdd (E.neg P) _ _ (L.xy_neg P _ _ h)
    show (toKeys E).yOdd (E.neg P) = !(toKeys E).yOdd P
    rw [e1, e2]
    generalize (toKeys E).y P = y at *
    rcases Nat.mod_two_eq_zero_or_one y with hy | hy
    · have : (E.p - y) % 2 = 1 := by omega
      simp [hy, this]
    · have : (E.p - y) % 2 = 0 := by omega
      simp [hy, this]
  liftX_of := by
    intro P hP
    have h := toKeys_finite P hP
    have e1 := toKeys_yOdd P _ _ h
    show E.liftX ((toKeys E).x P) = some (if (toKeys E).yOdd P then E.neg P else P)
    rw [e1]
    rcases Nat.mod_two_eq_zero_or_one ((toKeys E).y P) with hy | hy
    · rw [L.liftX_even P _ _ h hy, hy]; rfl
    · have hneg := L.neg_parity P _ _ h
      rw [L.liftX_even (E.neg P) _ _ hneg.1 (hneg.2.mpr hy), hy]; rfl
  liftX_sound := by
    intro v P h
    obtain ⟨y, hxy, hy⟩ := L.liftX_sound v P h
    refine ⟨toKeys_finite_of P v y hxy, toKeys_x P v y hxy, ?_⟩
    rw [toKeys_yOdd P v y hxy, hy]; rfl
  ofXY_of := by
    intro P hP
    have h := toKeys_finite P hP
    obtain ⟨_, hx, _, hy⟩ := L.xy_range P _ _ h
    show (if (toKeys E).x P < E.p ∧ (toKeys E).y P < E.p then E.ofXY ((toKeys E).x P) ((toKeys E).y P) else none) = some P
    rw [if_pos ⟨hx, hy⟩]
    exact L.ofXY_xy P _ _ h
  ofXY_sound := by
    intro a b P h
    change (if a < E.p ∧ b < E.p then E.ofXY a b else none) = some P at h
    split at h
    · rename_i hab
      have hxy := L.xy_ofXY P a b hab.1 hab.2 h
      exact ⟨toKeys_finite_of P a b hxy, toKeys_x P a b hxy, toKeys_y P a b hxy⟩
    · cases h

/-- conversely the extra law is a consequence of the key laws of the bridged record (it is exactly the forward
    direction of their `mulG_inf`): the bridge theorem needs nothing more -/
theorem infUnique_of_keyLaws (K : Embit.Keys.EcLaws (toKeys E)) : InfUnique E := by
  intro a h
  apply (K.mulG_inf a).mp
  show (E.xy (E.mul a E.g)).isNone = true
  rw [h]; rfl

/-- a valid secret key has a finite public key -/
theorem mul_finite (hinf : InfUnique E) (d : Nat) (hd : 0 < d ∧ d < E.n) :
    ∃ x y, E.xy (E.mul d E.g) = some (x, y) := by
  cases h : E.xy (E.mul d E.g) with
  | none =>
    have := hinf d h
    rw [Nat.mod_eq_of_lt hd.2] at this
    omega
  | some xy => exact ⟨xy.1, xy.2, rfl⟩

end Embit.Model.SignWith
