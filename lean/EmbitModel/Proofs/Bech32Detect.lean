import EmbitModel.Proofs.Bech32Checksum
import EmbitModel.Proofs.Gf2
/-
  Error detection of the bech32 checksum, reduced to a finite rank condition:
  if `topCheck 3 (table W) = true` (a kernel-evaluable GF(2) computation) then any two words of 5-bit symbols
  with the same polymod that differ in at most 4 positions spanning at most `W` symbols are equal.
  Position-shift invariance: "append a zero symbol" (`M`) is an injective linear map on 30-bit states.
-/
namespace Embit.Model.Bech32.Detect
open Embit Gf2

/-- appending a zero symbol -/
def M (s : Nat) : Nat := polymodStep s 0

def g0 : List Nat := [1, 2, 4, 8, 16]

/-- `table n`: for each of the last `n` positions (offset from the end), the effect on the final state of
    each of the five bits of the symbol there -/
def table : Nat → List (List Nat)
  | 0 => []
  | n + 1 => g0 :: (table n).map (List.map M)

def topCheck (n : Nat) : List (List Nat) → Bool
  | [] => true
  | g :: G => match reduceBy g G with
    | none => false
    | some G' => check n G'

theorem M_xor (a b : Nat) : M (a ^^^ b) = M a ^^^ M b := by
  have := polymodStep_xor a b 0 0
  simpa [M] using this

theorem M_zero : M 0 = 0 := polymodStep_zero

theorem step_zero_left (x : Nat) : polymodStep 0 x = x := by
  rw [polymodStep_eq]; simp [gsel_zero]

theorem step_eq (s x : Nat) : polymodStep s x = M s ^^^ x := by
  have := polymodStep_xor s 0 0 x
  rw [Nat.xor_zero, Nat.zero_xor, step_zero_left] at this
  exact this

theorem gsel_low : ∀ t, t < 32 → gsel t % 32 = 0 → t = 0 := by decide +kernel

/-- `M` is injective on 30-bit states -/
theorem M_inj (s : Nat) (hs : s < 2 ^ 30) (h : M s = 0) : s = 0 := by
  unfold M at h
  rw [polymodStep_eq, Nat.xor_zero] at h
  have hmask : s &&& 0x1FFFFFF = s % 2 ^ 25 := by
    have := Nat.and_two_pow_sub_one_eq_mod s 25
    simpa using this
  rw [hmask, Nat.shiftLeft_eq, Nat.shiftRight_eq_div_pow] at h
  -- (s % 2^25) * 32 = gsel (s / 2^25)
  have hx : (s % 2 ^ 25) * 2 ^ 5 = gsel (s / 2 ^ 25) := by
    have := congrArg (fun z => z ^^^ gsel (s / 2 ^ 25)) h
    simp only [Nat.xor_assoc, Nat.xor_self, Nat.xor_zero, Nat.zero_xor] at this
    exact this
  have ht : s / 2 ^ 25 < 32 := by
    rw [Nat.div_lt_iff_lt_mul (by decide)]; exact hs
  have hg : gsel (s / 2 ^ 25) % 32 = 0 := by rw [← hx]; omega
  have h0 := gsel_low _ ht hg
  rw [h0, gsel_zero] at hx
  omega

/-! ### syndromes -/

/-- syndrome of an error word given in offset order (offset 0 = last symbol) -/
def synR (r : List Nat) : Nat := polymodFrom 0 r.reverse

theorem synR_cons (x : Nat) (r : List Nat) : synR (x :: r) = M (synR r) ^^^ x := by
  simp [synR, polymodFrom, List.foldl_append, step_eq]

theorem comb_g0 : ∀ x, x < 32 → comb (bits5 x) g0 = x := by decide +kernel

theorem synG_table (n : Nat) (r : List Nat) (hl : r.length ≤ n) (hlt : ∀ x ∈ r, x < 32) :
    synG r (table n) = synR r := by
  induction r generalizing n with
  | nil => cases n <;> simp [synG, synR, polymodFrom, table]
  | cons x r ih =>
    cases n with
    | zero => simp at hl
    | succ n =>
      simp only [table, synG]
      rw [synG_mapLin M M_xor M_zero, ih n (by simpa using hl) (fun y hy => hlt y (by simp [hy])),
        comb_g0 x (hlt x (by simp)), synR_cons, Nat.xor_comm]

theorem table_length (n : Nat) : (table n).length = n := by
  induction n with
  | zero => rfl
  | succ n ih => simp [table, ih]

/-- the finite condition implies: a word of weight ≤ 4, at most `W` long, whose last symbol is non-zero has a
    non-zero syndrome -/
theorem detect_core (W : Nat) (hchk : topCheck 3 (table W) = true) (r : List Nat) (hl : r.length ≤ W)
    (hlt : ∀ x ∈ r, x < 32) (hw : weight r ≤ 4) (hs : synR r = 0) : ∀ x ∈ r.head?, x = 0 := by
  cases r with
  | nil => simp
  | cons x r =>
    cases W with
    | zero => simp at hl
    | succ W =>
      rw [← synG_table (W + 1) (x :: r) hl hlt] at hs
      simp only [table, synG] at hs
      simp only [table, topCheck] at hchk
      cases hred : reduceBy g0 ((table W).map (List.map M)) with
      | none => simp [hred] at hchk
      | some G1 =>
        simp only [hred] at hchk
        have hgood := check_sound 3 G1 hchk
        have hlen : G1.length = W := by
          rw [reduceBy_length _ _ _ hred]; simp [table_length]
        obtain ⟨s1, s2⟩ := reduceBy_sound g0 _ G1 hred (bits5 x) (by simp [bits5_length, g0]) r hs
        have hrl : r.length ≤ G1.length := by simp at hl; omega
        have hrlt : ∀ y ∈ r, y < 32 := fun y hy => hlt y (by simp [hy])
        intro y hy
        simp at hy; subst hy
        by_cases hx : x = 0
        · exact hx
        · have hw' : weight r ≤ 3 := by simp [weight, hx] at hw; omega
          have hr0 := hgood r hrl hrlt hw' s1
          have := s2 (synG_all_zero r _ hr0)
          exact bits5_false x (hlt x (by simp)) this

theorem synR_lt (r : List Nat) (hlt : ∀ x ∈ r, x < 32) : synR r < 2 ^ 30 := by
  apply polymodFrom_lt 0 _ (by decide)
  intro v hv
  have := hlt v (by simpa using hv)
  omega

/-- weight ≤ 4 within `W` symbols and zero syndrome ⇒ the zero word -/
theorem detect_list (W : Nat) (hchk : topCheck 3 (table W) = true) (r : List Nat) (hl : r.length ≤ W)
    (hlt : ∀ x ∈ r, x < 32) (hw : weight r ≤ 4) (hs : synR r = 0) : ∀ x ∈ r, x = 0 := by
  induction r with
  | nil => simp
  | cons x r ih =>
    have hrlt : ∀ y ∈ r, y < 32 := fun y hy => hlt y (by simp [hy])
    have hx : x = 0 := detect_core W hchk (x :: r) hl hlt hw hs x (by simp)
    subst hx
    rw [synR_cons, Nat.xor_zero] at hs
    have hs' : synR r = 0 := M_inj _ (synR_lt r hrlt) hs
    have hw' : weight r ≤ 4 := by simpa [weight] using hw
    have := ih (by simp at hl; omega) hrlt hw' hs'
    intro y hy; simp at hy; rcases hy with rfl | hy
    · rfl
    · exact this y hy

/-! ### words -/

theorem polymodFrom_zeros (n : Nat) : polymodFrom 0 (List.replicate n 0) = 0 := by
  induction n with
  | zero => rfl
  | succ n ih => simp [List.replicate_succ, polymodFrom, polymodStep_zero] at ih ⊢; exact ih

theorem M_iter_inj (n : Nat) (s : Nat) (hs : s < 2 ^ 30) (h : polymodFrom s (List.replicate n 0) = 0) : s = 0 := by
  induction n generalizing s with
  | zero => simpa [polymodFrom] using h
  | succ n ih =>
    simp only [List.replicate_succ, polymodFrom, List.foldl_cons] at h
    have := ih (polymodStep s 0) (polymodStep_lt s 0 (by decide)) h
    exact M_inj s hs this

theorem xorW_length (a b : List Nat) (h : a.length = b.length) : (xorW a b).length = a.length := by
  induction a generalizing b with
  | nil => cases b <;> simp [xorW]
  | cons x xs ih =>
    cases b with
    | nil => simp at h
    | cons y ys => simp [xorW, ih ys (by simpa using h)]

theorem xorW_append (a b c d : List Nat) (h : a.length = c.length) :
    xorW (a ++ b) (c ++ d) = xorW a c ++ xorW b d := by
  induction a generalizing c with
  | nil => cases c with
    | nil => rfl
    | cons _ _ => simp at h
  | cons x xs ih =>
    cases c with
    | nil => simp at h
    | cons y ys => simp [xorW, ih ys (by simpa using h)]

theorem xorW_self (a : List Nat) : xorW a a = List.replicate a.length 0 := by
  induction a with
  | nil => rfl
  | cons x xs ih => simp [xorW, ih, List.replicate_succ]

theorem xorW_lt (a b : List Nat) (ha : ∀ x ∈ a, x < 32) (hb : ∀ x ∈ b, x < 32) : ∀ x ∈ xorW a b, x < 32 := by
  induction a generalizing b with
  | nil => simp [xorW]
  | cons x xs ih =>
    cases b with
    | nil => simp [xorW]
    | cons y ys =>
      intro z hz
      simp only [xorW, List.mem_cons] at hz
      rcases hz with rfl | hz
      · exact Nat.xor_lt_two_pow (n := 5) (ha x (by simp)) (hb y (by simp))
      · exact ih ys (fun w hw => ha w (by simp [hw])) (fun w hw => hb w (by simp [hw])) z hz

theorem xor_eq_zero {a b : Nat} (h : a ^^^ b = 0) : a = b := by
  have := congrArg (fun z => z ^^^ b) h
  simp only [Nat.xor_assoc, Nat.xor_self, Nat.xor_zero, Nat.zero_xor] at this
  exact this

theorem xorW_zero_eq (a b : List Nat) (h : a.length = b.length) (hz : ∀ x ∈ xorW a b, x = 0) : a = b := by
  induction a generalizing b with
  | nil => cases b with
    | nil => rfl
    | cons _ _ => simp at h
  | cons x xs ih =>
    cases b with
    | nil => simp at h
    | cons y ys =>
      simp only [xorW, List.mem_cons, forall_eq_or_imp] at hz
      rw [xor_eq_zero hz.1, ih ys (by simpa using h) hz.2]

/-- number of positions where two words differ -/
def hamming (a b : List Nat) : Nat := weight (xorW a b)

theorem weight_reverse_le (r : List Nat) : weight r.reverse = weight r := by
  have app : ∀ (a b : List Nat), weight (a ++ b) = weight a + weight b := by
    intro a b
    induction a with
    | nil => simp [weight]
    | cons x xs ih => simp [weight, ih]; omega
  induction r with
  | nil => rfl
  | cons x xs ih => simp [app, weight, ih]; omega

/-- two words with the same polymod (from any start state) that agree outside a window of at most `W` symbols
    and differ in at most 4 positions inside it are equal -/
theorem detect_words (W : Nat) (hchk : topCheck 3 (table W) = true) (s : Nat) (p q u u' : List Nat)
    (hlen : u.length = u'.length) (hW : u.length ≤ W) (hu : ∀ x ∈ u, x < 32) (hu' : ∀ x ∈ u', x < 32)
    (hham : hamming u u' ≤ 4)
    (heq : polymodFrom s (p ++ u ++ q) = polymodFrom s (p ++ u' ++ q)) : u = u' := by
  -- syndrome of the difference
  have hx : polymodFrom 0 (xorW (p ++ u ++ q) (p ++ u' ++ q)) = 0 := by
    have := polymodFrom_xor s s (p ++ u ++ q) (p ++ u' ++ q) (by simp [hlen])
    rw [Nat.xor_self, heq, Nat.xor_self] at this
    exact this
  rw [xorW_append (p ++ u) q (p ++ u') q (by simp [hlen]), xorW_append p u p u' rfl, xorW_self, xorW_self,
    List.append_assoc, polymodFrom_append, polymodFrom_zeros, polymodFrom_append] at hx
  have he32 := xorW_lt u u' hu hu'
  have hcore : polymodFrom 0 (xorW u u') = 0 := by
    apply M_iter_inj q.length _ _ hx
    apply polymodFrom_lt 0 _ (by decide)
    intro v hv; have := he32 v hv; omega
  have hz := detect_list W hchk (xorW u u').reverse (by simp [xorW_length u u' hlen]; exact hW)
    (by simpa using he32) (by rw [weight_reverse_le]; exact hham)
    (by simpa [synR] using hcore)
  exact xorW_zero_eq u u' hlen (by simpa using hz)

end Embit.Model.Bech32.Detect
