import EmbitModel.Model.Lock
/-
  C20 — helper lemmas: the simulation between the interleaved machine and the threads run alone.
  Invariant `Inv`: a buffer is written only by the lock holder (or is private to the writer) and read only by its
  owner / by the lock holder that wrote it in the same hold; the shared context is used by one call at a time.
-/
namespace Embit.Model.Lock

theorem upd_same {α β : Type} [DecidableEq α] (f : α → β) (a : α) (b : β) : upd f a b a = b := by
  simp [upd]

theorem upd_other {α β : Type} [DecidableEq α] (f : α → β) {a x : α} (b : β) (h : x ≠ a) : upd f a b x = f x := by
  simp [upd, h]

theorem writeAll_congr (ok : Bool) (outs : List (Buf × Val)) (f g : Buf → Val) (b : Buf)
    (h : b ∈ outs.map (·.1) ∨ f b = g b) : writeAll ok outs f b = writeAll ok outs g b := by
  induction outs generalizing f g with
  | nil =>
    rcases h with h | h
    · simp at h
    · simpa [writeAll] using h
  | cons bv rest ih =>
    simp only [writeAll, List.foldl_cons]
    apply ih
    by_cases hb : b = bv.1
    · right; subst hb; simp [upd]
    · rcases h with h | h
      · left
        simp only [List.map_cons, List.mem_cons] at h
        rcases h with h | h
        · exact absurd h hb
        · exact h
      · right; simp [upd, hb, h]

theorem writeAll_not_mem (ok : Bool) (outs : List (Buf × Val)) (f : Buf → Val) (b : Buf)
    (h : b ∉ outs.map (·.1)) : writeAll ok outs f b = f b := by
  induction outs generalizing f with
  | nil => rfl
  | cons bv rest ih =>
    simp only [List.map_cons, List.mem_cons, not_or] at h
    simp only [writeAll, List.foldl_cons]
    have := ih (upd f bv.1 (if ok then bv.2 else garble bv.2)) h.2
    simp only [writeAll] at this
    rw [this, upd_other _ _ h.1]

theorem lrun_snoc (l : Local) (p : List Step) (st : Step) : lrun l (p ++ [st]) = lstep (lrun l p) st := by
  simp [lrun, List.foldl_append]

/-- the ghost step: the thread-local state advances exactly when the machine executes a step of the thread -/
def gstep (t : Tid) (s : State) (ls : Tid → Local) : Tid → Local :=
  match s.rest t with
  | [] => ls
  | .acquire :: _ => if s.lock.isNone then upd ls t (lstep (ls t) .acquire) else ls
  | .nativeCall f outs :: _ => if s.mid t then upd ls t (lstep (ls t) (.nativeCall f outs)) else ls
  | st :: _ => upd ls t (lstep (ls t) st)

structure Inv (progs : Tid → List Step) (s : State) (ls : Tid → Local) : Prop where
  res : ∀ t, s.res t = (ls t).res
  priv : ∀ t k, s.bufs (.priv t k) = (ls t).view (.priv t k)
  lock : ∀ t, (ls t).hold.isSome = true ↔ s.lock = some t
  held : ∀ t ws, (ls t).hold = some ws → ∀ b ∈ ws, s.bufs b = (ls t).view b
  safe : ∀ t, safe t (ls t).hold (s.rest t) = true
  mid : ∀ t, s.mid t = true → s.ctx = some t ∧ (ls t).hold.isSome = true ∧ ∃ f outs r, s.rest t = .nativeCall f outs :: r
  pre : ∀ t, ∃ pre, progs t = pre ++ s.rest t ∧ ls t = lrun local0 pre

theorem inv_init (progs : Tid → List Step) (h : ∀ t, safe t none (progs t) = true) :
    Inv progs (init progs) (fun _ => local0) := by
  refine ⟨fun _ => rfl, fun _ _ => rfl, ?_, ?_, ?_, ?_, ?_⟩
  · intro t; simp [init, local0]
  · intro t ws hw; simp [local0] at hw
  · intro t; simpa [init, local0] using h t
  · intro t hm; simp [init] at hm
  · intro t; exact ⟨[], by simp [init], rfl⟩

/-- advancing thread `t` by its next step `st` keeps the "executed prefix" bookkeeping -/
theorem pre_advance {progs : Tid → List Step} {s : State} {ls : Tid → Local} {t : Tid} {st : Step} {r : List Step}
    (hp : ∀ t, ∃ pre, progs t = pre ++ s.rest t ∧ ls t = lrun local0 pre) (hrest : s.rest t = st :: r) :
    ∀ t', ∃ pre, progs t' = pre ++ upd s.rest t r t' ∧ upd ls t (lstep (ls t) st) t' = lrun local0 pre := by
  intro t'
  by_cases h : t' = t
  · subst h
    obtain ⟨pre, h1, h2⟩ := hp t'
    refine ⟨pre ++ [st], ?_, ?_⟩
    · rw [upd_same, h1, hrest]; simp
    · rw [upd_same, lrun_snoc, h2]
  · obtain ⟨pre, h1, h2⟩ := hp t'
    exact ⟨pre, by rw [upd_other _ _ h]; exact h1, by rw [upd_other _ _ h]; exact h2⟩

theorem inv_step {progs : Tid → List Step} {s : State} {ls : Tid → Local} (t : Tid) (I : Inv progs s ls) :
    Inv progs (step t s) (gstep t s ls) := by
  have hsafe := I.safe t
  cases hrest : s.rest t with
  | nil =>
    have h1 : step t s = s := by simp [step, hrest]
    have h2 : gstep t s ls = ls := by simp [gstep, hrest]
    rw [h1, h2]; exact I
  | cons st r =>
    rw [hrest] at hsafe
    cases st with
    | acquire =>
      simp only [safe, Bool.and_eq_true, Option.isNone_iff_eq_none] at hsafe
      obtain ⟨hnone, hsafe'⟩ := hsafe
      have hnot : s.lock ≠ some t := by
        intro h; have := (I.lock t).2 h; simp [hnone] at this
      cases hl : s.lock with
      | some o =>
        have h1 : step t s = s := by simp [step, hrest, hl]
        have h2 : gstep t s ls = ls := by simp [gstep, hrest, hl]
        rw [h1, h2]; exact I
      | none =>
        have h1 : step t s = { s with lock := some t, rest := upd s.rest t r } := by simp [step, hrest, hl]
        have h2 : gstep t s ls = upd ls t (lstep (ls t) .acquire) := by simp [gstep, hrest, hl]
        rw [h1, h2]
        have others : ∀ t', t' ≠ t → (ls t').hold = none := by
          intro t' _
          cases hh : (ls t').hold with
          | none => rfl
          | some ws => have := (I.lock t').1 (by simp [hh]); simp [hl] at this
        refine ⟨?_, ?_, ?_, ?_, ?_, ?_, pre_advance I.pre hrest⟩
        · intro t'
          by_cases h : t' = t
          · subst h; simp [upd_same, lstep, I.res]
          · simp [upd_other _ _ h, I.res]
        · intro t' k
          by_cases h : t' = t
          · subst h; simp [upd_same, lstep, I.priv]
          · simp [upd_other _ _ h, I.priv]
        · intro t'
          by_cases h : t' = t
          · subst h; simp [upd_same, lstep]
          · simp only [upd_other _ _ h, others t' h]
            constructor
            · intro h'; simp at h'
            · intro h'; simp at h'; exact absurd h'.symm h
        · intro t' ws hw b hb
          by_cases h : t' = t
          · subst h; simp [upd_same, lstep] at hw; subst hw; simp at hb
          · rw [upd_other _ _ h] at hw; rw [others t' h] at hw; simp at hw
        · intro t'
          by_cases h : t' = t
          · subst h; simpa [upd_same, lstep] using hsafe'
          · simpa [upd_other _ _ h] using I.safe t'
        · intro t' hm
          have := I.mid t' hm
          by_cases h : t' = t
          · subst h; simp [hnone] at this
          · simpa [upd_other _ _ h] using this
    | release =>
      simp only [safe, Bool.and_eq_true] at hsafe
      obtain ⟨hsome, hsafe'⟩ := hsafe
      have hl : s.lock = some t := (I.lock t).1 hsome
      have h1 : step t s = { s with lock := none, rest := upd s.rest t r } := by simp [step, hrest]
      have h2 : gstep t s ls = upd ls t (lstep (ls t) .release) := by simp [gstep, hrest]
      rw [h1, h2]
      have others : ∀ t', t' ≠ t → (ls t').hold = none := by
        intro t' hne
        cases hh : (ls t').hold with
        | none => rfl
        | some ws =>
          have := (I.lock t').1 (by simp [hh]); rw [hl] at this
          exact absurd (Option.some.inj this).symm hne
      refine ⟨?_, ?_, ?_, ?_, ?_, ?_, pre_advance I.pre hrest⟩
      · intro t'
        by_cases h : t' = t
        · subst h; simp [upd_same, lstep, I.res]
        · simp [upd_other _ _ h, I.res]
      · intro t' k
        by_cases h : t' = t
        · subst h; simp [upd_same, lstep, I.priv]
        · simp [upd_other _ _ h, I.priv]
      · intro t'
        by_cases h : t' = t
        · subst h; simp [upd_same, lstep]
        · simp [upd_other _ _ h, others t' h]
      · intro t' ws hw b hb
        by_cases h : t' = t
        · subst h; simp [upd_same, lstep] at hw
        · rw [upd_other _ _ h] at hw; rw [others t' h] at hw; simp at hw
      · intro t'
        by_cases h : t' = t
        · subst h; simpa [upd_same, lstep] using hsafe'
        · simpa [upd_other _ _ h] using I.safe t'
      · intro t' hm
        have := I.mid t' hm
        by_cases h : t' = t
        · subst h
          obtain ⟨_, _, f, o, r', hr⟩ := this
          rw [hrest] at hr; cases hr
        · simpa [upd_other _ _ h] using this
    | nativeCall f outs =>
      cases hh : (ls t).hold with
      | none => rw [hh] at hsafe; simp [safe] at hsafe
      | some ws =>
      rw [hh] at hsafe
      simp only [safe, Bool.and_eq_true, List.all_eq_true] at hsafe
      obtain ⟨hw, hsafe'⟩ := hsafe
      have hl : s.lock = some t := (I.lock t).1 (by simp [hh])
      have others : ∀ t', t' ≠ t → (ls t').hold = none := by
        intro t' hne
        cases hh' : (ls t').hold with
        | none => rfl
        | some ws' =>
          have := (I.lock t').1 (by simp [hh']); rw [hl] at this
          exact absurd (Option.some.inj this).symm hne
      by_cases hm : s.mid t = true
      · -- exit of the native call: the out-buffers are written
        have hctx : s.ctx = some t := (I.mid t hm).1
        have h1 : step t s = { s with mid := upd s.mid t false, bufs := writeAll true outs s.bufs,
                                      rest := upd s.rest t r } := by
          simp [step, hrest, hm, hctx]
        have h2 : gstep t s ls = upd ls t (lstep (ls t) (.nativeCall f outs)) := by simp [gstep, hrest, hm]
        rw [h1, h2]
        refine ⟨?_, ?_, ?_, ?_, ?_, ?_, pre_advance I.pre hrest⟩
        · intro t'
          by_cases h : t' = t
          · subst h; simp [upd_same, lstep, I.res]
          · simp [upd_other _ _ h, I.res]
        · intro t' k
          by_cases h : t' = t
          · subst h
            simp only [upd_same, lstep]
            exact writeAll_congr true outs _ _ _ (Or.inr (I.priv t' k))
          · simp only [upd_other _ _ h]
            rw [writeAll_not_mem, I.priv]
            intro hmem
            simp only [List.mem_map] at hmem
            obtain ⟨bv, hbv, hb⟩ := hmem
            have := hw bv hbv
            rw [hb] at this
            simp [okWrite] at this
            exact h this
        · intro t'
          by_cases h : t' = t
          · subst h; simp [upd_same, lstep, hh, hl]
          · simpa [upd_other _ _ h] using I.lock t'
        · intro t' ws' hw' b hb
          by_cases h : t' = t
          · subst h
            simp only [upd_same, lstep, hh, Option.map_some, Option.some.injEq] at hw'
            subst hw'
            simp only [upd_same, lstep]
            apply writeAll_congr
            rcases List.mem_append.1 hb with hb | hb
            · exact Or.inr (I.held t' ws hh b hb)
            · exact Or.inl hb
          · rw [upd_other _ _ h, others t' h] at hw'; simp at hw'
        · intro t'
          by_cases h : t' = t
          · subst h; simpa [upd_same, lstep, hh] using hsafe'
          · simpa [upd_other _ _ h] using I.safe t'
        · intro t' hm'
          by_cases h : t' = t
          · subst h; simp [upd_same] at hm'
          · simp only [upd_other _ _ h] at hm'
            have := (I.mid t' hm').2.1
            rw [others t' h] at this; simp at this
      · -- entry: the call starts to use the shared context
        have hm' : s.mid t = false := by simpa using hm
        have h1 : step t s = { s with mid := upd s.mid t true, ctx := some t } := by simp [step, hrest, hm']
        have h2 : gstep t s ls = ls := by simp [gstep, hrest, hm']
        rw [h1, h2]
        refine ⟨I.res, I.priv, I.lock, I.held, I.safe, ?_, I.pre⟩
        intro t' hmt
        by_cases h : t' = t
        · subst h; exact ⟨rfl, by simp [hh], f, outs, r, hrest⟩
        · simp only [upd_other _ _ h] at hmt
          have := (I.mid t' hmt).2.1
          rw [others t' h] at this; simp at this
    | copyOut b =>
      simp only [safe, Bool.and_eq_true] at hsafe
      obtain ⟨hread, hsafe'⟩ := hsafe
      have hval : s.bufs b = (ls t).view b := by
        cases b with
        | priv o k =>
          simp [okRead] at hread; subst hread; exact I.priv o k
        | shared k =>
          cases hh : (ls t).hold with
          | none => rw [hh] at hread; simp [okRead] at hread
          | some ws =>
            rw [hh] at hread
            simp only [okRead, List.contains_iff_mem] at hread
            exact I.held t ws hh _ hread
      have h1 : step t s = { s with res := upd s.res t (s.res t ++ [s.bufs b]), rest := upd s.rest t r } := by
        simp [step, hrest]
      have h2 : gstep t s ls = upd ls t (lstep (ls t) (.copyOut b)) := by simp [gstep, hrest]
      rw [h1, h2]
      refine ⟨?_, ?_, ?_, ?_, ?_, ?_, pre_advance I.pre hrest⟩
      · intro t'
        by_cases h : t' = t
        · subst h; simp [upd_same, lstep, I.res, hval]
        · simp [upd_other _ _ h, I.res]
      · intro t' k
        by_cases h : t' = t
        · subst h; simp [upd_same, lstep, I.priv]
        · simp [upd_other _ _ h, I.priv]
      · intro t'
        by_cases h : t' = t
        · subst h; simpa [upd_same, lstep] using I.lock t'
        · simpa [upd_other _ _ h] using I.lock t'
      · intro t' ws hw b' hb
        by_cases h : t' = t
        · subst h; simp only [upd_same, lstep] at hw ⊢; exact I.held t' ws hw b' hb
        · rw [upd_other _ _ h] at hw ⊢; exact I.held t' ws hw b' hb
      · intro t'
        by_cases h : t' = t
        · subst h; simpa [upd_same, lstep] using hsafe'
        · simpa [upd_other _ _ h] using I.safe t'
      · intro t' hm
        have := I.mid t' hm
        by_cases h : t' = t
        · subst h
          obtain ⟨_, _, f, o, r', hr⟩ := this
          rw [hrest] at hr; cases hr
        · simpa [upd_other _ _ h] using this
    | «local» =>
      simp only [safe] at hsafe
      have h1 : step t s = { s with rest := upd s.rest t r } := by simp [step, hrest]
      have h2 : gstep t s ls = upd ls t (lstep (ls t) .local) := by simp [gstep, hrest]
      rw [h1, h2]
      refine ⟨?_, ?_, ?_, ?_, ?_, ?_, pre_advance I.pre hrest⟩
      · intro t'
        by_cases h : t' = t
        · subst h; simp [upd_same, lstep, I.res]
        · simp [upd_other _ _ h, I.res]
      · intro t' k
        by_cases h : t' = t
        · subst h; simp [upd_same, lstep, I.priv]
        · simp [upd_other _ _ h, I.priv]
      · intro t'
        by_cases h : t' = t
        · subst h; simpa [upd_same, lstep] using I.lock t'
        · simpa [upd_other _ _ h] using I.lock t'
      · intro t' ws hw b' hb
        by_cases h : t' = t
        · subst h; simp only [upd_same, lstep] at hw ⊢; exact I.held t' ws hw b' hb
        · rw [upd_other _ _ h] at hw ⊢; exact I.held t' ws hw b' hb
      · intro t'
        by_cases h : t' = t
        · subst h; simpa [upd_same, lstep] using hsafe
        · simpa [upd_other _ _ h] using I.safe t'
      · intro t' hm
        have := I.mid t' hm
        by_cases h : t' = t
        · subst h
          obtain ⟨_, _, f, o, r', hr⟩ := this
          rw [hrest] at hr; cases hr
        · simpa [upd_other _ _ h] using this

/-! ### whole schedules -/

def grun : List Tid → State → (Tid → Local) → (Tid → Local)
  | [], _, ls => ls
  | t :: r, s, ls => grun r (step t s) (gstep t s ls)

theorem run_cons (t : Tid) (r : List Tid) (s : State) : run (t :: r) s = run r (step t s) := rfl

theorem run_append (a b : List Tid) (s : State) : run (a ++ b) s = run b (run a s) := by
  simp [run, List.foldl_append]

theorem inv_run {progs : Tid → List Step} (sched : List Tid) {s : State} {ls : Tid → Local} (I : Inv progs s ls) :
    Inv progs (run sched s) (grun sched s ls) := by
  induction sched generalizing s ls with
  | nil => exact I
  | cons t r ih => rw [run_cons]; exact ih (inv_step t I)

theorem step_rest_other (t t' : Tid) (s : State) (h : t' ≠ t) : (step t s).rest t' = s.rest t' := by
  unfold step
  split <;> (try split) <;> first | rfl | simp [upd_other _ _ h]

theorem gstep_other (t t' : Tid) (s : State) (ls : Tid → Local) (h : t' ≠ t) : gstep t s ls t' = ls t' := by
  cases hrest : s.rest t with
  | nil => simp [gstep, hrest]
  | cons st r =>
    cases st with
    | acquire => cases hl : s.lock <;> simp [gstep, hrest, hl, upd_other _ _ h]
    | nativeCall f o => cases hm : s.mid t <;> simp [gstep, hrest, hm, upd_other _ _ h]
    | release => simp [gstep, hrest, upd_other _ _ h]
    | copyOut b => simp [gstep, hrest, upd_other _ _ h]
    | «local» => simp [gstep, hrest, upd_other _ _ h]

/-- ticks thread `t` still needs -/
def ticksLeft (s : State) (t : Tid) : Nat := ticks (s.rest t) - (if s.mid t then 1 else 0)

theorem hold_none_of_done {progs : Tid → List Step} {s : State} {ls : Tid → Local} (I : Inv progs s ls) {t : Tid}
    (h : s.rest t = []) : (ls t).hold = none := by
  have := I.safe t
  rw [h] at this
  simpa [safe] using this

/-- when nobody else holds the lock, a tick of `t` is never blocked -/
theorem progress {progs : Tid → List Step} {s : State} {ls : Tid → Local} (I : Inv progs s ls) (t : Tid)
    (others : ∀ t', t' ≠ t → (ls t').hold = none) (n : Nat) (hn : ticksLeft s t = n + 1) :
    ticksLeft (step t s) t = n := by
  have hsafe := I.safe t
  cases hrest : s.rest t with
  | nil => simp [ticksLeft, hrest, ticks] at hn
  | cons st r =>
    rw [hrest] at hsafe
    have midf : (∀ f o, st ≠ .nativeCall f o) → s.mid t = false := by
      intro hne
      cases hm : s.mid t with
      | false => rfl
      | true =>
        obtain ⟨_, _, f, o, r', hr⟩ := I.mid t hm
        rw [hrest] at hr; cases hr; exact absurd rfl (hne f o)
    cases st with
    | acquire =>
      have hm := midf (by intro f o h; cases h)
      simp only [safe, Bool.and_eq_true, Option.isNone_iff_eq_none] at hsafe
      have hl : s.lock = none := by
        cases hl : s.lock with
        | none => rfl
        | some o =>
          have ho := (I.lock o).2 hl
          by_cases h : o = t
          · subst h; simp [hsafe.1] at ho
          · simp [others o h] at ho
      simp [ticksLeft, hrest, ticks, hm] at hn
      simp [ticksLeft, step, hrest, hl, upd_same, hm]; omega
    | release =>
      have hm := midf (by intro f o h; cases h)
      simp [ticksLeft, hrest, ticks, hm] at hn
      simp [ticksLeft, step, hrest, upd_same, hm]; omega
    | nativeCall f outs =>
      cases hm : s.mid t with
      | true =>
        simp [ticksLeft, hrest, ticks, hm] at hn
        simp [ticksLeft, step, hrest, upd_same, hm]; omega
      | false =>
        simp [ticksLeft, hrest, ticks, hm] at hn
        simp [ticksLeft, step, hrest, upd_same, hm, ticks]; omega
    | copyOut b =>
      have hm := midf (by intro f o h; cases h)
      simp [ticksLeft, hrest, ticks, hm] at hn
      simp [ticksLeft, step, hrest, upd_same, hm]; omega
    | «local» =>
      have hm := midf (by intro f o h; cases h)
      simp [ticksLeft, hrest, ticks, hm] at hn
      simp [ticksLeft, step, hrest, upd_same, hm]; omega

theorem done_of_ticksLeft_zero {progs : Tid → List Step} {s : State} {ls : Tid → Local} (I : Inv progs s ls) (t : Tid)
    (h : ticksLeft s t = 0) : s.rest t = [] := by
  cases hrest : s.rest t with
  | nil => rfl
  | cons st r =>
    exfalso
    cases hm : s.mid t with
    | false => cases st <;> simp [ticksLeft, hrest, ticks, hm] at h <;> omega
    | true =>
      obtain ⟨_, _, f, o, r', hr⟩ := I.mid t hm
      rw [hrest] at hr; cases hr
      simp [ticksLeft, hrest, ticks, hm] at h

/-- running thread `t` alone for the ticks it needs finishes it and leaves everybody else where they were -/
theorem run_thread {progs : Tid → List Step} (t : Tid) (n : Nat) :
    ∀ (s : State) (ls : Tid → Local), Inv progs s ls → (∀ t', t' ≠ t → (ls t').hold = none) → ticksLeft s t = n →
      ∃ ls', Inv progs (run (List.replicate n t) s) ls' ∧ (∀ t', (ls' t').hold = none) ∧
        (∀ t', t' ≠ t → (run (List.replicate n t) s).rest t' = s.rest t') ∧
        (run (List.replicate n t) s).rest t = [] := by
  induction n with
  | zero =>
    intro s ls I others hn
    have hdone := done_of_ticksLeft_zero I t hn
    refine ⟨ls, I, ?_, fun _ _ => rfl, hdone⟩
    intro t'
    by_cases h : t' = t
    · subst h; exact hold_none_of_done I hdone
    · exact others t' h
  | succ n ih =>
    intro s ls I others hn
    have I' := inv_step t I
    have others' : ∀ t', t' ≠ t → (gstep t s ls t').hold = none := by
      intro t' h; rw [gstep_other t t' s ls h]; exact others t' h
    obtain ⟨ls', I'', hnone, hrest, hdone⟩ := ih (step t s) (gstep t s ls) I' others' (progress I t others n hn)
    refine ⟨ls', ?_, hnone, ?_, ?_⟩
    · simpa [List.replicate_succ, run_cons] using I''
    · intro t' h
      simp only [List.replicate_succ, run_cons]
      rw [hrest t' h, step_rest_other t t' s h]
    · simpa [List.replicate_succ, run_cons] using hdone

theorem ticksLeft_of_mid_false {s : State} {t : Tid} (h : s.mid t = false) : ticksLeft s t = ticks (s.rest t) := by
  simp [ticksLeft, h]

/-- the serial schedule finishes threads `0 … n-1` and does not touch the others -/
theorem serial_prefix {progs : Tid → List Step} (hs : ∀ t, safe t none (progs t) = true) (n : Nat) :
    ∃ ls, Inv progs (run (serialSched progs n) (init progs)) ls ∧ (∀ t, (ls t).hold = none) ∧
      (∀ t, t < n → (run (serialSched progs n) (init progs)).rest t = []) ∧
      (∀ t, n ≤ t → (run (serialSched progs n) (init progs)).rest t = progs t) := by
  induction n with
  | zero =>
    exact ⟨fun _ => local0, inv_init progs hs, fun _ => rfl, fun t h => absurd h (Nat.not_lt_zero t), fun _ _ => rfl⟩
  | succ n ih =>
    obtain ⟨ls, I, hnone, hdone, hrest⟩ := ih
    have hmid : (run (serialSched progs n) (init progs)).mid n = false := by
      cases hm : (run (serialSched progs n) (init progs)).mid n with
      | false => rfl
      | true => have := (I.mid n hm).2.1; simp [hnone n] at this
    have hticks : ticksLeft (run (serialSched progs n) (init progs)) n = ticks (progs n) := by
      rw [ticksLeft_of_mid_false hmid, hrest n (Nat.le_refl n)]
    obtain ⟨ls', I', hnone', hrest', hdone'⟩ :=
      run_thread n (ticks (progs n)) _ ls I (fun t' _ => hnone t') hticks
    refine ⟨ls', ?_, hnone', ?_, ?_⟩
    · simpa [serialSched, run_append] using I'
    · intro t ht
      simp only [serialSched, run_append]
      by_cases h : t = n
      · subst h; exact hdone'
      · rw [hrest' t h]; exact hdone t (by omega)
    · intro t ht
      simp only [serialSched, run_append]
      have h : t ≠ n := by omega
      rw [hrest' t h]; exact hrest t (by omega)

/-! ### no deadlock: every reachable state can be driven to completion -/

theorem mid_false_of_hold_none {progs : Tid → List Step} {s : State} {ls : Tid → Local} (I : Inv progs s ls) (t : Tid)
    (h : (ls t).hold = none) : s.mid t = false := by
  cases hm : s.mid t with
  | false => rfl
  | true => have := (I.mid t hm).2.1; simp [h] at this

/-- from a state in which nobody holds the lock, threads `0 … k-1` can be run to their end one after the other -/
theorem finish_upto {progs : Tid → List Step} (k : Nat) :
    ∀ (s : State) (ls : Tid → Local), Inv progs s ls → (∀ t, (ls t).hold = none) →
      ∃ ext ls', Inv progs (run ext s) ls' ∧ (∀ t, (ls' t).hold = none) ∧
        (∀ t, t < k → (run ext s).rest t = []) ∧ (∀ t, k ≤ t → (run ext s).rest t = s.rest t) := by
  induction k with
  | zero =>
    intro s ls I hn
    exact ⟨[], ls, I, hn, fun t h => absurd h (Nat.not_lt_zero t), fun _ _ => rfl⟩
  | succ k ih =>
    intro s ls I hn
    obtain ⟨ext, ls1, I1, hn1, hdone1, hrest1⟩ := ih s ls I hn
    obtain ⟨ls2, I2, hn2, hrest2, hdone2⟩ :=
      run_thread k (ticksLeft (run ext s) k) (run ext s) ls1 I1 (fun t' _ => hn1 t') rfl
    refine ⟨ext ++ List.replicate (ticksLeft (run ext s) k) k, ls2, ?_, hn2, ?_, ?_⟩
    · simpa [run_append] using I2
    · intro t ht
      simp only [run_append]
      by_cases h : t = k
      · subst h; exact hdone2
      · rw [hrest2 t h]; exact hdone1 t (by omega)
    · intro t ht
      simp only [run_append]
      have h : t ≠ k := by omega
      rw [hrest2 t h]; exact hrest1 t (by omega)

theorem can_finish_aux {progs : Tid → List Step} (hs : ∀ t, safe t none (progs t) = true) (n : Nat)
    (hn : ∀ t, n ≤ t → progs t = []) (sched : List Tid) :
    ∃ ext, complete (run (sched ++ ext) (init progs)) := by
  have I := inv_run sched (inv_init progs hs)
  -- first let the lock holder (if any) run to its end: afterwards nobody holds the lock
  have quiet : ∃ ext0 ls0, Inv progs (run ext0 (run sched (init progs))) ls0 ∧ (∀ t, (ls0 t).hold = none) := by
    cases hl : (run sched (init progs)).lock with
    | none =>
      refine ⟨[], _, I, ?_⟩
      intro t
      cases hh : (grun sched (init progs) (fun _ => local0) t).hold with
      | none => rfl
      | some ws => have := (I.lock t).1 (by simp [hh]); simp [hl] at this
    | some o =>
      have others : ∀ t', t' ≠ o → (grun sched (init progs) (fun _ => local0) t').hold = none := by
        intro t' hne
        cases hh : (grun sched (init progs) (fun _ => local0) t').hold with
        | none => rfl
        | some ws =>
          have := (I.lock t').1 (by simp [hh]); rw [hl] at this
          exact absurd (Option.some.inj this).symm hne
      obtain ⟨ls', I', hn', _, _⟩ := run_thread o (ticksLeft (run sched (init progs)) o) _ _ I others rfl
      exact ⟨_, ls', I', hn'⟩
  obtain ⟨ext0, ls0, I0, hn0⟩ := quiet
  obtain ⟨ext1, ls1, I1, _, hdone, _⟩ := finish_upto n _ ls0 I0 hn0
  refine ⟨ext0 ++ ext1, ?_⟩
  intro t
  simp only [run_append]
  by_cases h : t < n
  · exact hdone t h
  · obtain ⟨pre, hp, _⟩ := I1.pre t
    rw [hn t (Nat.le_of_not_lt h)] at hp
    have := congrArg List.length hp
    simp at this
    exact List.eq_nil_of_length_eq_zero (by omega)

/-! ### results -/

theorem results_prefix_aux {progs : Tid → List Step} (hs : ∀ t, safe t none (progs t) = true) (sched : List Tid) (t : Tid) :
    ∃ pre, progs t = pre ++ (run sched (init progs)).rest t ∧ (run sched (init progs)).res t = solo pre := by
  have I := inv_run sched (inv_init progs hs)
  obtain ⟨pre, h1, h2⟩ := I.pre t
  exact ⟨pre, h1, by rw [I.res t, h2]; rfl⟩

theorem results_complete_aux {progs : Tid → List Step} (hs : ∀ t, safe t none (progs t) = true) (sched : List Tid)
    (t : Tid) (hc : (run sched (init progs)).rest t = []) : (run sched (init progs)).res t = solo (progs t) := by
  obtain ⟨pre, h1, h2⟩ := results_prefix_aux hs sched t
  rw [hc, List.append_nil] at h1
  rw [h2, h1]

theorem serial_complete_aux {progs : Tid → List Step} (hs : ∀ t, safe t none (progs t) = true) (n : Nat)
    (hn : ∀ t, n ≤ t → progs t = []) : complete (run (serialSched progs n) (init progs)) := by
  obtain ⟨ls, _, _, hdone, hrest⟩ := serial_prefix hs n
  intro t
  by_cases h : t < n
  · exact hdone t h
  · rw [hrest t (Nat.le_of_not_lt h)]; exact hn t (Nat.le_of_not_lt h)

/-! ### programs compiled from probed facts -/

theorem safe_append (t : Tid) (p q : List Step) : ∀ h, safe t h p = true → safe t none q = true →
    safe t h (p ++ q) = true := by
  induction p with
  | nil =>
    intro h hp hq
    simp only [safe, Option.isNone_iff_eq_none] at hp
    subst hp; simpa using hq
  | cons st r ih =>
    intro h hp hq
    cases st with
    | acquire =>
      simp only [List.cons_append, safe, Bool.and_eq_true] at hp ⊢
      exact ⟨hp.1, ih _ hp.2 hq⟩
    | release =>
      simp only [List.cons_append, safe, Bool.and_eq_true] at hp ⊢
      exact ⟨hp.1, ih _ hp.2 hq⟩
    | nativeCall f outs =>
      cases h with
      | none => simp [safe] at hp
      | some ws =>
        simp only [List.cons_append, safe, Bool.and_eq_true] at hp ⊢
        exact ⟨hp.1, ih _ hp.2 hq⟩
    | copyOut b =>
      simp only [List.cons_append, safe, Bool.and_eq_true] at hp ⊢
      exact ⟨hp.1, ih _ hp.2 hq⟩
    | «local» =>
      simp only [List.cons_append, safe] at hp ⊢
      exact ih _ hp hq

theorem okWrite_bufOf (t op : Nat) (b : ABuf) : okWrite t (bufOf t op b) = true := by
  cases b with
  | mk o i => cases o <;> simp [bufOf, okWrite]

theorem compile_safe (t op : Nat) (steps : List AStep) : ∀ h : Option (List ABuf), okSteps h steps = true →
    safe t (h.map (List.map (bufOf t op))) (compile t op steps) = true := by
  induction steps with
  | nil => intro h hk; cases h <;> simp_all [okSteps, compile, safe]
  | cons st r ih =>
    intro h hk
    cases st with
    | acq =>
      simp only [okSteps, Bool.and_eq_true] at hk
      have := ih (some []) hk.2
      cases h <;> simp_all [compile, compileStep, safe]
    | rel =>
      simp only [okSteps, Bool.and_eq_true] at hk
      have := ih none hk.2
      cases h <;> simp_all [compile, compileStep, safe]
    | native sym u outs =>
      cases h with
      | none => simp [okSteps] at hk
      | some ws =>
        simp only [okSteps] at hk
        have := ih (some (ws ++ outs)) hk
        simp only [compile, List.map_cons, compileStep, Option.map_some, safe, Bool.and_eq_true, List.all_eq_true]
        refine ⟨?_, ?_⟩
        · intro bv hbv
          simp only [List.mem_map] at hbv
          obtain ⟨b, _, rfl⟩ := hbv
          exact okWrite_bufOf t op b
        · simpa [compile, List.map_append, List.map_map, Function.comp_def] using this
    | read b =>
      simp only [okSteps, Bool.and_eq_true] at hk
      have := ih h hk.2
      simp only [compile, List.map_cons, compileStep, safe, Bool.and_eq_true]
      refine ⟨?_, this⟩
      cases b with
      | mk o i =>
        cases o with
        | fresh => simp [bufOf, okRead]
        | callerArg => simp [bufOf, okRead]
        | shared =>
          cases h with
          | none => simp at hk
          | some ws =>
            have hm : (⟨.shared, i⟩ : ABuf) ∈ ws := by simpa using hk.1
            simp only [bufOf, Option.map_some, okRead, List.contains_iff_mem]
            exact List.mem_map.2 ⟨_, hm, by simp [bufOf]⟩

theorem ok_of_locked_fresh (steps : List AStep) : ∀ h : Option (List ABuf),
    stepsLocked h.isSome steps = true → stepsFresh steps = true → okSteps h steps = true := by
  induction steps with
  | nil => intro h hl _; cases h <;> simp_all [stepsLocked, okSteps]
  | cons st r ih =>
    intro h hl hf
    cases st with
    | acq =>
      simp only [stepsLocked, Bool.and_eq_true] at hl
      simp only [stepsFresh] at hf
      have := ih (some []) (by simpa using hl.2) hf
      cases h <;> simp_all [okSteps]
    | rel =>
      simp only [stepsLocked, Bool.and_eq_true] at hl
      simp only [stepsFresh] at hf
      have := ih none (by simpa using hl.2) hf
      cases h <;> simp_all [okSteps]
    | native sym u outs =>
      simp only [stepsLocked, Bool.and_eq_true] at hl
      simp only [stepsFresh, Bool.and_eq_true] at hf
      cases h with
      | none => simp at hl
      | some ws =>
        simp only [okSteps]
        exact ih (some (ws ++ outs)) (by simpa using hl.2) hf.2
    | read b =>
      simp only [stepsLocked] at hl
      simp only [stepsFresh, Bool.and_eq_true] at hf
      simp only [okSteps, Bool.and_eq_true]
      refine ⟨?_, ih h hl hf.2⟩
      cases b with
      | mk o i => cases o <;> simp_all

theorem compileOps_safe (t : Nat) (ops : List (List AStep)) : ∀ op, (∀ f ∈ ops, okSteps none f = true) →
    safe t none (compileOps t op ops) = true := by
  induction ops with
  | nil => intro _ _; rfl
  | cons f r ih =>
    intro op h
    simp only [compileOps]
    apply safe_append
    · simpa using compile_safe t op f none (h f (by simp))
    · exact ih (op + 1) (fun g hg => h g (by simp [hg]))

theorem progsOf_safe (threads : List (List (List AStep)))
    (h : ∀ ops ∈ threads, ∀ f ∈ ops, okSteps none f = true) (t : Tid) : safe t none (progsOf threads t) = true := by
  unfold progsOf
  cases hg : threads[t]? with
  | none => rfl
  | some ops => exact compileOps_safe t ops 0 (h ops (List.mem_of_getElem? hg))

theorem progsOf_beyond (threads : List (List (List AStep))) (t : Tid) (h : threads.length ≤ t) :
    progsOf threads t = [] := by
  unfold progsOf
  rw [List.getElem?_eq_none h]

end Embit.Model.Lock
