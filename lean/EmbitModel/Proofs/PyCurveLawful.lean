import EmbitModel.Proofs.PyCurveOps
import EmbitModel.Proofs.EcBridge
import EmbitModel.Model.PyCurveOps
/-
  The executable, Mathlib-free record `lawfulOps C n g` (Model/PyCurveOps.lean — the record the native driver
  evaluates) is ISOMORPHIC to `pyEcOps C n g` (Proofs/PyCurveOps.lean — the record the laws are proved of):

  * `EcEmb E E'`: an injective map of points commuting with every field of `EcOps`; `EcEmb.laws` / `EcEmb.infUnique`
    transport `EcLaws` / `InfUnique` backwards along it (generic in the two records);
  * `okPt_iff`: the decidable carrier predicate `okPt` (reduced + `on_curve`) is the Mathlib predicate `Valid` on
    canonical values, so `toA : CPt C → APt C` (identity on the underlying value) is a bijection;
  * `norm_val`: the run-time re-check inside `norm` never fails on valid tuples (the fallback branch is dead code);
  * `lawfulEmb`: `toA` commutes with add / neg / mul / g / xy / ofXY / liftX / invN.
-/
namespace Embit

/-- an embedding of curve records: an injective map of points commuting with all operations -/
structure EcEmb (E E' : EcOps) where
  f : E.Pt → E'.Pt
  inj : Function.Injective f
  add : ∀ P Q, f (E.add P Q) = E'.add (f P) (f Q)
  neg : ∀ P, f (E.neg P) = E'.neg (f P)
  mul : ∀ k P, f (E.mul k P) = E'.mul k (f P)
  g : f E.g = E'.g
  n : E.n = E'.n
  p : E.p = E'.p
  xy : ∀ P, E'.xy (f P) = E.xy P
  ofXY : ∀ x y, (E.ofXY x y).map f = E'.ofXY x y
  liftX : ∀ x, (E.liftX x).map f = E'.liftX x
  invN : ∀ a, E.invN a = E'.invN a

namespace EcEmb
variable {E E' : EcOps}

theorem map_eq_some (φ : EcEmb E E') {o : Option E.Pt} {P : E.Pt} (h : o.map φ.f = some (φ.f P)) : o = some P := by
  cases o with
  | none => cases h
  | some Q =>
    simp only [Option.map_some, Option.some.injEq] at h
    rw [φ.inj h]

/-- the curve laws hold of the source of an embedding when they hold of its target -/
theorem laws (φ : EcEmb E E') (L : EcLaws E') : EcLaws E where
  n_gt_one := by rw [φ.n]; exact L.n_gt_one
  mul_add := fun a b => φ.inj (by rw [φ.add, φ.mul, φ.mul, φ.mul, φ.g]; exact L.mul_add a b)
  mul_mul := fun a b => φ.inj (by rw [φ.mul, φ.mul, φ.mul, φ.g]; exact L.mul_mul a b)
  mul_mod := fun a => φ.inj (by rw [φ.mul, φ.mul, φ.g, φ.n]; exact L.mul_mod a)
  neg_mul := fun a ha => φ.inj (by
    rw [φ.neg, φ.mul, φ.mul, φ.g, φ.n]; exact L.neg_mul a (by rw [← φ.n]; exact ha))
  inv_mul := fun a h0 h1 => by rw [φ.invN, φ.n]; exact L.inv_mul a h0 (by rw [← φ.n]; exact h1)
  xy_range := fun P x y h => by rw [φ.p]; exact L.xy_range (φ.f P) x y (by rw [φ.xy]; exact h)
  p_odd := by rw [φ.p]; exact L.p_odd
  xy_neg := fun P x y h => by
    rw [← φ.xy, φ.neg, φ.p]; exact L.xy_neg (φ.f P) x y (by rw [φ.xy]; exact h)
  ofXY_xy := fun P x y h => by
    have h' := L.ofXY_xy (φ.f P) x y (by rw [φ.xy]; exact h)
    rw [← φ.ofXY] at h'
    exact φ.map_eq_some h'
  neg_neg := fun P => φ.inj (by rw [φ.neg, φ.neg]; exact L.neg_neg _)
  xy_neg_none := fun P h => by rw [← φ.xy, φ.neg]; exact L.xy_neg_none _ (by rw [φ.xy]; exact h)
  mul_inj := fun a b ha hb h =>
    L.mul_inj a b (by rw [← φ.n]; exact ha) (by rw [← φ.n]; exact hb) (by rw [← φ.g, ← φ.mul, ← φ.mul, h])
  xy_ofXY := fun P x y hx hy h => by
    rw [← φ.xy]
    apply L.xy_ofXY _ x y (by rw [← φ.p]; exact hx) (by rw [← φ.p]; exact hy)
    rw [← φ.ofXY, h]; rfl
  generated := fun P => by
    obtain ⟨a, ha, h⟩ := L.generated (φ.f P)
    refine ⟨a, by rw [φ.n]; exact ha, φ.inj ?_⟩
    rw [h, φ.mul, φ.g]
  liftX_sound := fun x P h => by
    obtain ⟨y, hy, he⟩ := L.liftX_sound x (φ.f P) (by rw [← φ.liftX, h]; rfl)
    exact ⟨y, by rw [← φ.xy]; exact hy, he⟩
  liftX_even := fun P x y h hy => by
    have h' := L.liftX_even (φ.f P) x y (by rw [φ.xy]; exact h) hy
    rw [← φ.liftX] at h'
    exact φ.map_eq_some h'

/-- … and so does the extra law of the bridge to the key development -/
theorem infUnique (φ : EcEmb E E') (h : Model.SignWith.InfUnique E') : Model.SignWith.InfUnique E := fun a ha => by
  have := h a (by rw [← φ.g, ← φ.mul, φ.xy]; exact ha)
  rwa [φ.n]

end EcEmb

namespace Model.PyCurve

variable (C : Curve) [Fact C.p.Prime]

/-- the decidable carrier predicate of the lawful record is `Valid` on canonical values -/
theorem okPt_iff (hs : Smooth C) (q : Option (ℕ × ℕ)) : okPt C q = true ↔ Valid C (toJ q) := by
  cases q with
  | none => exact ⟨fun _ => valid_inf C (p_gt_one C), fun _ => rfl⟩
  | some xy =>
    obtain ⟨x, y⟩ := xy
    simp only [okPt, toJ, Bool.and_eq_true, decide_eq_true_eq]
    constructor
    · rintro ⟨⟨hx, hy⟩, hc⟩
      exact (valid_affine_iff C hs x y ⟨by positivity, by exact_mod_cast hx⟩ ⟨by positivity, by exact_mod_cast hy⟩).mpr hc
    · intro hv
      have hr := hv.red
      simp only [Red] at hr
      exact ⟨⟨by exact_mod_cast hr.1.2, by exact_mod_cast hr.2.1.2⟩, onCurve_of_valid C hv one_ne_zero⟩

/-- a point of the lawful record as a point of `pyEcOps` (the same value) -/
def toA (hs : Smooth C) (P : CPt C) : APt C := ⟨P.1, (okPt_iff C hs P.1).mp P.2⟩

/-- … and back -/
def ofA (hs : Smooth C) (P : APt C) : CPt C := ⟨P.1, (okPt_iff C hs P.1).mpr P.2⟩

theorem toA_ofA (hs : Smooth C) (P : APt C) : toA C hs (ofA C hs P) = P := rfl
theorem ofA_toA (hs : Smooth C) (P : CPt C) : ofA C hs (toA C hs P) = P := rfl

theorem toA_injective (hs : Smooth C) : Function.Injective (toA C hs) := fun P Q h =>
  Subtype.ext (congrArg (fun R : APt C => R.1) h)

theorem toA_surjective (hs : Smooth C) : Function.Surjective (toA C hs) := fun P => ⟨ofA C hs P, rfl⟩

/-- **the re-check inside `norm` never fails**: on a valid tuple `norm` is `affine`, never the fallback -/
theorem norm_val (hs : Smooth C) {J : JPt} (hv : Valid C J) : (norm C J).1 = (affineXY C J).getD none := by
  have hok : okPt C ((affineXY C J).getD none) = true := (okPt_iff C hs _).mpr (valid_affineXY C hv)
  unfold norm
  simp only [hok, dite_true]

theorem toA_norm (hs : Smooth C) {J : JPt} (hv : Valid C J) : toA C hs (norm C J) = ofJ C J :=
  Subtype.ext (by rw [ofJ_val C hv]; exact norm_val C hs hv)

/-- what the compressed branch of `ECPubKey.set` stores is a valid tuple -/
theorem valid_setCompressed (hs : Smooth C) (h3 : C.p % 4 = 3) (x : ℕ) (J : JPt)
    (h : setCompressed C false x = some (some J)) : Valid C J := by
  obtain ⟨h1, h2⟩ := setCompressed_spec C hs h3 false x
  by_cases hcnd : x < C.p ∧ IsSquare (((x : ℤ) : ZMod C.p) ^ 3 + (C.a : ZMod C.p) * ((x : ℤ) : ZMod C.p) + (C.b : ZMod C.p))
  · obtain ⟨y, _, _, hv, hset⟩ := h1 hcnd
    rw [hset] at h
    simp only [Bool.false_eq_true, if_false, Option.some.injEq] at h
    rw [← h]; exact hv
  · rw [h2 hcnd] at h
    cases h

/-- **the lawful record embeds into (is isomorphic to, `toA_surjective`) the record of key.py's arithmetic over
    `Valid` points**: the same values, every operation commutes -/
def lawfulEmb (hs : Smooth C) (h3 : C.p % 4 = 3) (n : ℕ) (g : CPt C) :
    EcEmb (lawfulOps C n g) (pyEcOps C n (toA C hs g)) where
  f := toA C hs
  inj := toA_injective C hs
  add := fun P Q => toA_norm C hs (pt_add C (toA C hs P).2 (toA C hs Q).2).2
  neg := fun P => toA_norm C hs (valid_negate C (toA C hs P).2)
  mul := fun k P => toA_norm C hs (valid_mul C _ (by simpa using (show Valid C (toJ P.1) from (toA C hs P).2)))
  g := rfl
  n := rfl
  p := rfl
  xy := fun P => xy_val C (toA C hs P)
  ofXY := fun x y => by
    show ((setUncompressed C x y).map (norm C)).map (toA C hs) = (setUncompressed C x y).map (ofJ C)
    cases hJ : setUncompressed C x y with
    | none => rfl
    | some J =>
      obtain ⟨_, _, _, hv⟩ := (setUncompressed_iff C hs x y J).mp hJ
      simp only [Option.map_some, Option.some.injEq]
      exact toA_norm C hs hv
  liftX := fun x => by
    show (cLiftX C x).map (toA C hs) = eLiftX C x
    unfold cLiftX eLiftX
    rcases hJ : setCompressed C false x with _ | _ | J
    · rfl
    · rfl
    · simp only [Option.map_some, Option.some.injEq]
      exact toA_norm C hs (valid_setCompressed C hs h3 x J hJ)
  invN := fun _ => rfl

end Model.PyCurve
end Embit
