import EmbitModel.Model.Slip39
/-
  The 4-round Feistel network of `_crypt` is an involution up to reversing the round order, for EVERY round
  function whose output has the requested length (PBKDF2 does), every identifier, exponent and passphrase.
-/
namespace Embit.Model.Slip39

theorem xorBytes_length (a b : Bytes) : (xorBytes a b).length = min a.length b.length := by
  simp [xorBytes]

theorem xorBytes_cancel (a f : Bytes) (h : a.length ≤ f.length) : xorBytes (xorBytes a f) f = a := by
  induction a generalizing f with
  | nil => simp [xorBytes]
  | cons x xs ih =>
    cases f with
    | nil => simp at h
    | cons y ys =>
      simp only [List.length_cons, Nat.add_le_add_iff_right] at h
      have := ih ys h
      simp only [xorBytes] at this ⊢
      simp only [List.zipWith_cons_cons, this, List.cons.injEq, and_true]
      rw [UInt8.xor_assoc, UInt8.xor_self, UInt8.xor_zero]

section
variable (P : Prims) (hF : ∀ pw s it n, (P.pbkdf2 pw s it n).length = n)
variable (salt pass : Bytes) (iters half : Nat)

include hF in
theorem feistelRound_lengths (st : Bytes × Bytes) (i : UInt8) (h : st.1.length = half ∧ st.2.length = half) :
    (feistelRound P salt pass iters half st i).1.length = half ∧
    (feistelRound P salt pass iters half st i).2.length = half := by
  simp [feistelRound, xorBytes_length, hF, h.1, h.2]

include hF in
theorem feistel_fold_lengths (ks : List UInt8) (st : Bytes × Bytes) (h : st.1.length = half ∧ st.2.length = half) :
    (ks.foldl (feistelRound P salt pass iters half) st).1.length = half ∧
    (ks.foldl (feistelRound P salt pass iters half) st).2.length = half := by
  induction ks generalizing st with
  | nil => simpa using h
  | cons k ks ih => exact ih _ (feistelRound_lengths P hF salt pass iters half st k h)

include hF in
/-- running the rounds, swapping the halves and running the rounds in reverse order gives back the swapped input -/
theorem feistel_fold_reverse (ks : List UInt8) (st : Bytes × Bytes) (h : st.1.length = half ∧ st.2.length = half) :
    let out := ks.foldl (feistelRound P salt pass iters half) st
    ks.reverse.foldl (feistelRound P salt pass iters half) (out.2, out.1) = (st.2, st.1) := by
  induction ks generalizing st with
  | nil => simp
  | cons k ks ih =>
    have hl := feistelRound_lengths P hF salt pass iters half st k h
    have := ih _ hl
    simp only [List.foldl_cons, List.reverse_cons, List.foldl_append, List.foldl_nil] at this ⊢
    rw [this]
    simp only [feistelRound]
    rw [xorBytes_cancel _ _ (by simp [hF, h.1])]

include hF in
/-- `_crypt` with round keys `ks`, then `_crypt` with the reversed round keys, is the identity -/
theorem crypt_reverse (x : Bytes) (id e : Nat) (ks : List UInt8) (hx : x.length % 2 = 0) (hne : x ≠ [])
    (hid : id < 65536) :
    ∃ y, crypt P x id e pass ks = some y ∧ y.length = x.length ∧ crypt P y id e pass ks.reverse = some x := by
  have hpos : 0 < x.length := List.length_pos_iff.mpr hne
  have hhalf : x.length / 2 ≠ 0 := by omega
  have hl : ((x.take (x.length / 2), x.drop (x.length / 2)) : Bytes × Bytes).1.length = x.length / 2 ∧
      ((x.take (x.length / 2), x.drop (x.length / 2)) : Bytes × Bytes).2.length = x.length / 2 := by
    simp; omega
  have hlen := feistel_fold_lengths P hF (shamirBytes ++ beN 2 id) pass (2500 <<< e) (x.length / 2) ks _ hl
  have hrev := feistel_fold_reverse P hF (shamirBytes ++ beN 2 id) pass (2500 <<< e) (x.length / 2) ks _ hl
  refine ⟨(ks.foldl (feistelRound P (shamirBytes ++ beN 2 id) pass (2500 <<< e) (x.length / 2))
      (x.take (x.length / 2), x.drop (x.length / 2))).2 ++
    (ks.foldl (feistelRound P (shamirBytes ++ beN 2 id) pass (2500 <<< e) (x.length / 2))
      (x.take (x.length / 2), x.drop (x.length / 2))).1, ?_, ?_, ?_⟩
  · unfold crypt
    rw [if_neg (by omega), if_neg (by omega), if_neg (by simp [hhalf])]
  · simp only [List.length_append, hlen.1, hlen.2]; omega
  · unfold crypt
    have hylen : ∀ (a b : Bytes), a.length = x.length / 2 → b.length = x.length / 2 →
        (a ++ b).length = x.length := by intro a b ha hb; simp [ha, hb]; omega
    rw [hylen _ _ hlen.2 hlen.1]
    rw [if_neg (by omega), if_neg (by omega), if_neg (by simp [hhalf])]
    have ht : ∀ (a b : Bytes), a.length = x.length / 2 → (a ++ b).take (x.length / 2) = a := by
      intro a b ha; rw [← ha]; simp
    have hd : ∀ (a b : Bytes), a.length = x.length / 2 → (a ++ b).drop (x.length / 2) = b := by
      intro a b ha; rw [← ha]; simp
    rw [ht _ _ hlen.2, hd _ _ hlen.2]
    simp only at hrev
    show some (_ ++ _) = some x
    rw [hrev]
    simp
end

end Embit.Model.Slip39
