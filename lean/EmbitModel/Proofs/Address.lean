import EmbitModel.Model.Address
import EmbitModel.Spec.Address
import EmbitModel.Proofs.Base58
import EmbitModel.Proofs.Bech32Codec
/-
  Addresses: script → address → script for the five standard types, equality with the specified texts,
  and what `address_to_scriptpubkey` can yield at all.
-/
namespace Embit.Model.Address
open Embit Digits Spec.Address

/-! ### script_type on the standard templates -/

theorem scriptType_p2pkh (h : Bytes) (hl : h.length = 20) : scriptType (Std.script (.p2pkh h)) = some .p2pkh := by
  have e : Std.script (.p2pkh h) = ([0x76, 0xa9, 0x14] ++ h) ++ [0x88, 0xac] := by simp [Std.script]
  have hlen : (([0x76, 0xa9, 0x14] ++ h) ++ [0x88, 0xac] : Bytes).length = 25 := by simp [hl]
  have ht : (([0x76, 0xa9, 0x14] ++ h) ++ [0x88, 0xac] : Bytes).take 3 = [0x76, 0xa9, 0x14] := by simp
  have hd : (([0x76, 0xa9, 0x14] ++ h) ++ [0x88, 0xac] : Bytes).drop 23 = [0x88, 0xac] :=
    List.drop_left' (by simp [hl])
  rw [e]; unfold scriptType
  rw [hlen, ht, hd]
  simp

theorem getLast?_cons_snoc {α : Type} (x a : α) (h : List α) : (x :: (h ++ [a])).getLast? = some a := by
  rw [← List.cons_append, List.getLast?_append]; simp

theorem scriptType_p2sh (h : Bytes) (hl : h.length = 20) : scriptType (Std.script (.p2sh h)) = some .p2sh := by
  simp [Std.script, scriptType, hl, List.getLast?_cons_cons, getLast?_cons_snoc]

theorem scriptType_p2wpkh (h : Bytes) (hl : h.length = 20) : scriptType (Std.script (.p2wpkh h)) = some .p2wpkh := by
  simp [Std.script, scriptType, hl]

theorem scriptType_p2wsh (h : Bytes) (hl : h.length = 32) : scriptType (Std.script (.p2wsh h)) = some .p2wsh := by
  simp [Std.script, scriptType, hl]

theorem scriptType_p2tr (h : Bytes) (hl : h.length = 32) : scriptType (Std.script (.p2tr h)) = some .p2tr := by
  simp [Std.script, scriptType, hl]

/-! ### a Base58 string that decodes to 25 bytes has at most 35 characters -/

theorem toLE_length_le {B : Nat} (hB : 2 ≤ B) (k n : Nat) (h : n < B ^ k) : (toLE B n).length ≤ k := by
  induction k generalizing n with
  | zero => simp at h; subst h; simp [toLE_zero]
  | succ k ih =>
    by_cases hn : n = 0
    · subst hn; simp [toLE_zero]
    · rw [toLE_pos hB hn]
      have : n / B < B ^ k := by
        rw [Nat.div_lt_iff_lt_mul (by omega)]; rwa [Nat.pow_succ] at h
      have := ih _ this
      simp; omega

theorem pow_table : ∀ z, z ≤ 25 → 256 ^ (25 - z) ≤ 58 ^ (35 - z) := by decide +kernel

theorem b58_len25 (s : List Char) (b : Bytes) (h : Base58.decode s = some b) (hl : b.length = 25) :
    s.length ≤ 35 := by
  rw [(Base58.decode_iff s b).mp h]
  obtain ⟨r, hb, hh⟩ := Base58.bytes_decomp b
  generalize Base58.leadingZeros b = z at hb
  subst hb
  rw [Base58.encode_normal z r hh]
  have hz : z + r.length = 25 := by simpa using hl
  have hlt : ofBe r < 58 ^ (35 - z) := by
    have h1 : ofBe r < 256 ^ r.length := by
      have := ofLe_lt r.reverse; simpa [ofBe] using this
    have h2 := pow_table z (by omega)
    have : r.length = 25 - z := by omega
    rw [this] at h1
    omega
  have := toLE_length_le (B := 58) (by decide) (35 - z) (ofBe r) hlt
  simp; omega

/-! ### networks -/

/-- what the address code needs from a `NETWORKS` entry -/
structure NetOk (net : Network) : Prop where
  pkh1 : net.p2pkh.length = 1
  sh1 : net.p2sh.length = 1
  hrpOk : Bech32.HrpOk net.bech32
  noSep : '1' ∉ net.bech32
  short : net.bech32.length ≤ 30

/-- the table is usable for decoding: no p2pkh version byte equals a p2sh version byte -/
structure TableOk (nets : List Network) : Prop where
  each : ∀ n ∈ nets, NetOk n
  disjoint : ∀ n ∈ nets, ∀ m ∈ nets, n.p2pkh ≠ m.p2sh

def paramsOf (net : Network) : Params :=
  { pkhVersion := net.p2pkh.headD 0, shVersion := net.p2sh.headD 0, hrp := net.bech32 }

/-- 8→5 regrouping of a program as the model computes it -/
def convOf (prog : Bytes) : List Nat := (Bech32.convertbits (prog.map UInt8.toNat) 8 5 true).getD []

/-- the model-level address text of a standard script -/
def textOf (dsha : Bytes → Bytes) (net : Network) : Std → List Char
  | .p2pkh h => Base58.encodeCheck dsha (net.p2pkh ++ h)
  | .p2sh h => Base58.encodeCheck dsha (net.p2sh ++ h)
  | .p2wpkh h => Bech32.segwitText net.bech32 0 (convOf h)
  | .p2wsh h => Bech32.segwitText net.bech32 0 (convOf h)
  | .p2tr x => Bech32.segwitText net.bech32 1 (convOf x)

theorem segwitOk_of (net : Network) (hn : NetOk net) (ver : Nat) (h : Bytes) (hv : ver ≤ 1)
    (hl : h.length = 20 ∨ h.length = 32) : Bech32.SegwitOk net.bech32 ver (h.map UInt8.toNat) := by
  have := hn.short
  refine ⟨hn.hrpOk, by omega, ?_, ?_, ?_, ?_, ?_⟩
  · intro v hv; simp at hv; obtain ⟨x, _, rfl⟩ := hv; exact x.toNat_lt
  · simp; omega
  · simp; omega
  · intro _; simpa using hl
  · simp; rcases hl with e | e <;> rw [e] <;> omega

theorem encode_convOf (net : Network) (hn : NetOk net) (ver : Nat) (h : Bytes) (hv : ver ≤ 1)
    (hl : h.length = 20 ∨ h.length = 32) :
    Bech32.encode net.bech32 ver (h.map UInt8.toNat) = some (Bech32.segwitText net.bech32 ver (convOf h))
    ∧ Bech32.decode net.bech32 (Bech32.segwitText net.bech32 ver (convOf h)) = some (ver, h.map UInt8.toNat)
    ∧ 8 * h.length ≤ 5 * (convOf h).length := by
  obtain ⟨conv, h1, _, _, h4, h5, h6⟩ := Bech32.encode_segwit net.bech32 ver _ (segwitOk_of net hn ver h hv hl)
  have : convOf h = conv := by simp [convOf, h1]
  rw [this]; exact ⟨h5, h6, by simpa using h4⟩

/-- `Script.address` on the five standard scripts -/
theorem address_std (dsha : Bytes → Bytes) (net : Network) (hn : NetOk net) (s : Std) (hs : s.WF) :
    address dsha net s.script = some (some (textOf dsha net s)) := by
  cases s with
  | p2pkh h =>
    simp only [Std.WF] at hs
    unfold address
    rw [scriptType_p2pkh h hs]
    simp [Std.script, textOf, hs]
  | p2sh h =>
    simp only [Std.WF] at hs
    unfold address
    rw [scriptType_p2sh h hs]
    simp [Std.script, textOf, hs]
  | p2wpkh h =>
    simp only [Std.WF] at hs
    unfold address
    rw [scriptType_p2wpkh h hs]
    have := (encode_convOf net hn 0 h (by decide) (Or.inl hs)).1
    simp [Std.script, textOf, this]
  | p2wsh h =>
    simp only [Std.WF] at hs
    unfold address
    rw [scriptType_p2wsh h hs]
    have := (encode_convOf net hn 0 h (by decide) (Or.inr hs)).1
    simp [Std.script, textOf, this]
  | p2tr h =>
    simp only [Std.WF] at hs
    unfold address
    rw [scriptType_p2tr h hs]
    have := (encode_convOf net hn 1 h (by decide) (Or.inr hs)).1
    simp [Std.script, textOf, this]

/-! ### address → script -/

theorem matchPrefix_pkh (net : Network) (hp : net.p2pkh.length = 1) (h : Bytes) (nets : List Network)
    (hmem : net ∈ nets) (hdis : ∀ m ∈ nets, net.p2pkh ≠ m.p2sh) :
    matchPrefix (net.p2pkh ++ h) nets = some (Std.script (.p2pkh h)) := by
  have ht : (net.p2pkh ++ h).take 1 = net.p2pkh := List.take_left' hp
  have hd : (net.p2pkh ++ h).drop 1 = h := List.drop_left' hp
  induction nets with
  | nil => simp at hmem
  | cons m rest ih =>
    unfold matchPrefix
    rw [ht, hd]
    by_cases e : net.p2pkh = m.p2pkh
    · simp [e, Std.script]
    · have e2 : net.p2pkh ≠ m.p2sh := hdis m (by simp)
      have hm : net ∈ rest := by
        simp at hmem; rcases hmem with rfl | hm
        · exact absurd rfl e
        · exact hm
      simp only [beq_iff_eq, e, e2, if_false]
      exact ih hm (fun x hx => hdis x (by simp [hx]))

theorem matchPrefix_sh (net : Network) (hp : net.p2sh.length = 1) (h : Bytes) (nets : List Network)
    (hmem : net ∈ nets) (hdis : ∀ m ∈ nets, m.p2pkh ≠ net.p2sh) :
    matchPrefix (net.p2sh ++ h) nets = some (Std.script (.p2sh h)) := by
  have ht : (net.p2sh ++ h).take 1 = net.p2sh := List.take_left' hp
  have hd : (net.p2sh ++ h).drop 1 = h := List.drop_left' hp
  induction nets with
  | nil => simp at hmem
  | cons m rest ih =>
    unfold matchPrefix
    rw [ht, hd]
    have e1 : net.p2sh ≠ m.p2pkh := fun e => hdis m (by simp) e.symm
    by_cases e : net.p2sh = m.p2sh
    · have e1' : (net.p2sh == m.p2pkh) = false := by simpa using e1
      have e' : (net.p2sh == m.p2sh) = true := by simpa using e
      simp only [e1', e', Bool.false_eq_true, if_false, if_true]
      simp [Std.script]
    · have hm : net ∈ rest := by
        simp at hmem; rcases hmem with rfl | hm
        · exact absurd rfl e
        · exact hm
      simp only [beq_iff_eq, e, e1, if_false]
      exact ih hm (fun x hx => hdis x (by simp [hx]))

theorem takeWhile_stop {α : Type} (p : α → Bool) (a r : List α) (x : α) (ha : ∀ y ∈ a, p y = true)
    (hx : p x = false) : (a ++ x :: r).takeWhile p = a := by
  induction a with
  | nil => simp [hx]
  | cons c cs ih =>
    simp [ha c (by simp), ih (fun y hy => ha y (by simp [hy]))]

theorem splitOne_spec (hrp rest : List Char) (h : '1' ∉ hrp) : splitOne (hrp ++ '1' :: rest) = hrp := by
  unfold splitOne
  apply takeWhile_stop
  · intro y hy
    have : y ≠ '1' := fun e => h (e ▸ hy)
    simpa using this
  · simp

/-- a string of more than 35 characters never takes the Base58 branch of `address_to_scriptpubkey` -/
theorem toScript_long (dsha : Bytes → Bytes) (nets : List Network) (s : List Char) (hl : 35 < s.length) :
    toScript dsha nets s = (bech32Branch true nets s).map some := by
  unfold toScript
  cases hd : Base58.decodeCheck dsha s with
  | none => rfl
  | some data =>
    have hne : data.length ≠ 21 := by
      intro h21
      unfold Base58.decodeCheck at hd
      cases hb : Base58.decode s with
      | none => simp [hb] at hd
      | some b =>
        simp only [hb] at hd
        split at hd
        · simp at hd
        · simp at hd
          have : b.length = 25 := by
            rw [← hd] at h21; simp [List.length_take] at h21; omega
          have := b58_len25 s b hb this
          omega
    simp [hne]

theorem segwitText_length (hrp : List Char) (ver : Nat) (conv : List Nat) :
    (Bech32.segwitText hrp ver conv).length = hrp.length + 1 + (1 + conv.length) + 6 := by
  simp [Bech32.segwitText, Bech32.createChecksum_length]; omega

theorem bech32Branch_text (nets : List Network) (net : Network) (hn : NetOk net) (hmem : net ∈ nets)
    (ver : Nat) (h : Bytes) (hv : ver ≤ 1) (hl : h.length = 20 ∨ h.length = 32) (h1 : ver = 1 → h.length = 32) :
    bech32Branch true nets (Bech32.segwitText net.bech32 ver (convOf h))
      = some (UInt8.ofNat (if ver > 0 then ver + 0x50 else ver) :: UInt8.ofNat h.length :: h) := by
  obtain ⟨_, hdec, _⟩ := encode_convOf net hn ver h hv hl
  unfold bech32Branch
  have hsplit : splitOne (Bech32.segwitText net.bech32 ver (convOf h)) = net.bech32 := by
    unfold Bech32.segwitText
    rw [List.append_assoc]
    exact splitOne_spec _ _ hn.noSep
  have hcont : (nets.map (·.bech32)).contains net.bech32 = true := by
    rw [List.contains_iff_mem]; exact List.mem_map_of_mem hmem
  simp only [hsplit, hcont, Bool.not_true, Bool.and_false, Bool.false_eq_true, if_false, hdec,
    List.length_map, List.map_map]
  have hmap : h.map (UInt8.ofNat ∘ UInt8.toNat) = h := by
    conv => rhs; rw [← List.map_id h]
    apply List.map_congr_left; intro x _; simp
  rw [hmap]
  have hv' : ver = 0 ∨ ver = 1 := by omega
  rcases hv' with rfl | rfl
  · rcases hl with e | e <;> simp [e]
  · have := h1 rfl; simp [this]

/-- script → address → script is the identity on the five standard types, for every network of a
    well-formed table and every hash function with at least four output bytes -/
theorem toScript_address (dsha : Bytes → Bytes) (h4 : ∀ x, 4 ≤ (dsha x).length) (nets : List Network)
    (ht : TableOk nets) (net : Network) (hmem : net ∈ nets) (s : Std) (hs : s.WF) :
    toScript dsha nets (textOf dsha net s) = some (some s.script) := by
  have hn := ht.each net hmem
  cases s with
  | p2pkh h =>
    simp only [Std.WF] at hs
    unfold toScript textOf
    rw [Base58.decodeCheck_encodeCheck dsha h4]
    have : (net.p2pkh ++ h).length = 21 := by simp [hn.pkh1, hs]
    simp only [this, ne_eq, not_true_eq_false, if_false]
    rw [matchPrefix_pkh net hn.pkh1 h nets hmem (fun m hm => ht.disjoint net hmem m hm)]
  | p2sh h =>
    simp only [Std.WF] at hs
    unfold toScript textOf
    rw [Base58.decodeCheck_encodeCheck dsha h4]
    have : (net.p2sh ++ h).length = 21 := by simp [hn.sh1, hs]
    simp only [this, ne_eq, not_true_eq_false, if_false]
    rw [matchPrefix_sh net hn.sh1 h nets hmem (fun m hm => ht.disjoint m hm net hmem)]
  | p2wpkh h =>
    simp only [Std.WF] at hs
    obtain ⟨_, _, hlen⟩ := encode_convOf net hn 0 h (by decide) (Or.inl hs)
    have hne := hn.hrpOk.nonempty
    have hlong : 35 < (textOf dsha net (.p2wpkh h)).length := by
      simp only [textOf, segwitText_length]; omega
    rw [toScript_long dsha nets _ hlong]
    simp only [textOf]
    rw [bech32Branch_text nets net hn hmem 0 h (by decide) (Or.inl hs) (fun e => absurd e (by decide))]
    simp [Std.script, hs]
  | p2wsh h =>
    simp only [Std.WF] at hs
    obtain ⟨_, _, hlen⟩ := encode_convOf net hn 0 h (by decide) (Or.inr hs)
    have hlong : 35 < (textOf dsha net (.p2wsh h)).length := by
      simp only [textOf, segwitText_length]; omega
    rw [toScript_long dsha nets _ hlong]
    simp only [textOf]
    rw [bech32Branch_text nets net hn hmem 0 h (by decide) (Or.inr hs) (fun e => absurd e (by decide))]
    simp [Std.script, hs]
  | p2tr h =>
    simp only [Std.WF] at hs
    obtain ⟨_, _, hlen⟩ := encode_convOf net hn 1 h (by decide) (Or.inr hs)
    have hlong : 35 < (textOf dsha net (.p2tr h)).length := by
      simp only [textOf, segwitText_length]; omega
    rw [toScript_long dsha nets _ hlong]
    simp only [textOf]
    rw [bech32Branch_text nets net hn hmem 1 h (by decide) (Or.inr hs) (fun _ => hs)]
    simp [Std.script, hs]

/-! ### what `address_to_scriptpubkey` can yield at all -/

theorem toScript_yields (dsha : Bytes → Bytes) (nets : List Network) (s : List Char) (sc : Bytes)
    (h : toScript dsha nets s = some (some sc)) :
    (∃ data, Base58.decodeCheck dsha s = some data ∧ data.length = 21 ∧ matchPrefix data nets = some sc)
    ∨ bech32Branch true nets s = some sc := by
  unfold toScript at h
  cases hd : Base58.decodeCheck dsha s with
  | none =>
    simp only [hd] at h
    right
    cases hb : bech32Branch true nets s with
    | none => simp [hb] at h
    | some x => simp [hb] at h; rw [h]
  | some data =>
    simp only [hd] at h
    by_cases hl : data.length = 21
    · left
      simp [hl] at h
      exact ⟨data, rfl, hl, h⟩
    · right
      simp only [ne_eq, hl, not_false_eq_true, if_true] at h
      cases hb : bech32Branch true nets s with
      | none => simp [hb] at h
      | some x => simp [hb] at h; rw [h]

theorem matchPrefix_yields (data : Bytes) (nets : List Network) (sc : Bytes) (h : matchPrefix data nets = some sc) :
    ∃ net ∈ nets, (data.take 1 = net.p2pkh ∧ sc = [0x76, 0xa9, 0x14] ++ data.drop 1 ++ [0x88, 0xac])
      ∨ (data.take 1 = net.p2sh ∧ sc = [0xa9, 0x14] ++ data.drop 1 ++ [0x87]) := by
  induction nets with
  | nil => simp [matchPrefix] at h
  | cons m rest ih =>
    unfold matchPrefix at h
    split at h
    · rename_i h1
      simp at h1 h
      exact ⟨m, by simp, Or.inl ⟨h1, by rw [← h]; simp⟩⟩
    · split at h
      · rename_i h2
        simp at h2 h
        exact ⟨m, by simp, Or.inr ⟨h2, by rw [← h]; simp⟩⟩
      · obtain ⟨n, hn, hh⟩ := ih h
        exact ⟨n, by simp [hn], hh⟩

theorem bech32Branch_yields (nets : List Network) (s : List Char) (sc : Bytes)
    (h : bech32Branch true nets s = some sc) :
    splitOne s ∈ nets.map (·.bech32) ∧ ∃ ver prog, Bech32.decode (splitOne s) s = some (ver, prog)
      ∧ ((ver = 0 ∧ (prog.length = 20 ∨ prog.length = 32)) ∨ (ver = 1 ∧ prog.length = 32))
      ∧ sc = UInt8.ofNat (if ver > 0 then ver + 0x50 else ver) :: UInt8.ofNat prog.length :: prog.map UInt8.ofNat := by
  unfold bech32Branch at h
  simp only [Bool.true_and] at h
  split at h
  · simp at h
  · rename_i hc
    simp at hc
    refine ⟨by simpa using hc, ?_⟩
    cases hd : Bech32.decode (splitOne s) s with
    | none => simp [hd] at h
    | some r =>
      obtain ⟨ver, prog⟩ := r
      simp only [hd] at h
      split at h
      · simp at h
      · rename_i h1
        split at h
        · simp at h
        · rename_i h2
          simp at h1 h2 h
          refine ⟨ver, prog, rfl, ?_, h.symm⟩
          obtain ⟨hv, hl⟩ := h1
          by_cases hz : ver = 0
          · left; exact ⟨hz, by by_cases e : prog.length = 20; exact Or.inl e; exact Or.inr (hl e)⟩
          · right; exact ⟨hv hz, h2 (hv hz)⟩

/-- an unknown human-readable part never yields a script (the D15 repair) -/
theorem bech32Branch_unknown_hrp (nets : List Network) (s : List Char)
    (h : splitOne s ∉ nets.map (·.bech32)) : bech32Branch true nets s = none := by
  cases hb : bech32Branch true nets s with
  | none => rfl
  | some sc => exact absurd (bech32Branch_yields nets s sc hb).1 h

/-- Bool version of the table conditions, for concrete tables -/
def netOkB (net : Network) : Bool :=
  net.p2pkh.length == 1 && net.p2sh.length == 1 && !net.bech32.isEmpty
  && net.bech32.all (fun c => 33 ≤ c.toNat && c.toNat ≤ 126 && c.toLower == c && c != '1')
  && net.bech32.length ≤ 30

def tableOkB (nets : List Network) : Bool :=
  nets.all netOkB && nets.all (fun n => nets.all (fun m => n.p2pkh != m.p2sh))

theorem netOk_of_B (net : Network) (h : netOkB net = true) : NetOk net := by
  unfold netOkB at h
  simp only [Bool.and_eq_true, beq_iff_eq, List.all_eq_true, decide_eq_true_eq, bne_iff_ne, ne_eq,
    Bool.not_eq_true', List.isEmpty_eq_false_iff] at h
  obtain ⟨⟨⟨⟨h1, h2⟩, h3⟩, h4⟩, h5⟩ := h
  refine ⟨h1, h2, ⟨h3, fun c hc => ⟨(h4 c hc).1.1.1, (h4 c hc).1.1.2⟩, fun c hc => (h4 c hc).1.2⟩, ?_, h5⟩
  intro hm
  exact (h4 '1' hm).2 rfl

theorem tableOk_of_B (nets : List Network) (h : tableOkB nets = true) : TableOk nets := by
  unfold tableOkB at h
  simp only [Bool.and_eq_true, List.all_eq_true, bne_iff_ne, ne_eq] at h
  exact ⟨fun n hn => netOk_of_B n (h.1 n hn), fun n hn m hm => h.2 n hn m hm⟩

end Embit.Model.Address
