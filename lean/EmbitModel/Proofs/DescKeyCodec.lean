import EmbitModel.Proofs.DescKeyB58
import EmbitModel.Proofs.DescParseNormal
import EmbitModel.Proofs.SecpCardSecp
/-
  C12 (audit-2 item A-2): the key decoders of the DRIVER's key layer (`Concrete.ops`, Model/DescKeys.lean: SEC public
  keys through `Crypto.Secp.secParse`, extended keys and WIF through Base58Check) are SOUND — an accepted text / byte
  string is exactly what the resulting key prints again — i.e. `KeyCodec Concrete.ops`, the hypothesis of
  `C12X.parse_print_idem`.
  Base58 canonicity comes from C11 through the bridge `Proofs/DescKeyB58.lean`; the compressed-SEC case needs that a
  decompressed `y` is never 0 (else `03‖x` would print as `02‖x`): `−7` is not a cube modulo `p` (C08Z).
-/
set_option linter.unusedSimpArgs false
set_option linter.unusedVariables false
namespace Embit.Model.Descriptor.Concrete
open Embit Embit.Crypto Embit.Model Embit.Model.Descriptor

/-! ### bytes -/

theorem beN_ofBe (b : Bytes) (k : Nat) (h : b.length = k) : beN k (ofBe b) = b := by
  subst h
  have := leN_ofLe b.reverse
  simp only [List.length_reverse] at this
  simp [beN, ofBe, this]

theorem split78 (b : Bytes) (h : b.length = 78) :
    b = b.take 4 ++ [b.getD 4 0] ++ (b.drop 5).take 4 ++ (b.drop 9).take 4 ++ (b.drop 13).take 32 ++ b.drop 45 := by
  have e0 : b = b.take 4 ++ b.drop 4 := (List.take_append_drop 4 b).symm
  have e1 : b.drop 4 = b.getD 4 0 :: b.drop 5 := by
    have h4 : 4 < b.length := by omega
    rw [List.drop_eq_getElem_cons h4]; simp [List.getD_eq_getElem?_getD, List.getElem?_eq_getElem h4]
  have e2 : b.drop 5 = (b.drop 5).take 4 ++ b.drop 9 := by
    have := (List.take_append_drop 4 (b.drop 5)).symm
    rwa [List.drop_drop] at this
  have e3 : b.drop 9 = (b.drop 9).take 4 ++ b.drop 13 := by
    have := (List.take_append_drop 4 (b.drop 9)).symm
    rwa [List.drop_drop] at this
  have e4 : b.drop 13 = (b.drop 13).take 32 ++ b.drop 45 := by
    have := (List.take_append_drop 32 (b.drop 13)).symm
    rwa [List.drop_drop] at this
  conv => lhs; rw [e0, e1, e2, e3, e4]
  simp [List.append_assoc]

/-! ### SEC public keys -/

theorem powMod_go_lt (m : Nat) (hm : 0 < m) : ∀ (fuel b e acc : Nat), acc < m → Secp.powMod.go m fuel b e acc < m := by
  intro fuel
  induction fuel with
  | zero => intro b e acc h; simpa [Secp.powMod.go] using h
  | succ f ih =>
    intro b e acc h
    simp only [Secp.powMod.go]
    split
    · exact h
    · apply ih
      split
      · exact Nat.mod_lt _ hm
      · exact h

theorem powMod_lt (b e m : Nat) (hm : 1 < m) : Secp.powMod b e m < m := by
  unfold Secp.powMod
  exact powMod_go_lt m (by omega) _ _ _ _ (Nat.mod_lt _ (by omega))

theorem p_eq : PyCurve.secp256k1.p = Secp.p := rfl

theorem p_odd : Secp.p % 2 = 1 := by decide

theorem p_gt : 1 < Secp.p := by decide

local instance : Fact PyCurve.secp256k1.p.Prime := ⟨PyCurve.Primes.secp256k1P_prime⟩

/-- no `x` with `x³ + 7 ≡ 0 (mod p)`: the curve has no point with `y = 0` -/
theorem no_root (x : Nat) : (x * x % Secp.p * x + 7) % Secp.p ≠ 0 := by
  intro h
  have hd : Secp.p ∣ x * x % Secp.p * x + 7 := Nat.dvd_of_mod_eq_zero h
  have hz : ((x * x % Secp.p * x + 7 : Nat) : ZMod PyCurve.secp256k1.p) = 0 := by
    rw [ZMod.natCast_eq_zero_iff]; exact hd
  apply PyCurve.secp256k1_neg7_not_cube (x : ZMod PyCurve.secp256k1.p)
  push_cast at hz
  rw [show (Secp.p : Nat) = PyCurve.secp256k1.p from rfl] at hz
  rw [ZMod.natCast_mod] at hz
  push_cast at hz
  push_cast
  linear_combination hz

theorem liftX_sound (x : Nat) (odd : Bool) (pt : Nat × Nat) (h : Secp.liftX x odd = some pt) :
    pt.1 = x ∧ x < Secp.p ∧ pt.2 % 2 = (if odd then 1 else 0) := by
  unfold Secp.liftX at h
  split at h
  · simp at h
  · rename_i hx
    cases hs : Secp.sqrtP ((x * x % Secp.p * x + 7) % Secp.p) with
    | none => simp [hs] at h
    | some y =>
      simp only [hs] at h
      unfold Secp.sqrtP at hs
      simp only [] at hs
      split at hs
      · rename_i hsq
        simp only [Option.some.injEq] at hs
        have hy : y < Secp.p := by rw [← hs]; exact powMod_lt _ _ _ p_gt
        have hy0 : y ≠ 0 := by
          intro e
          rw [hs, e] at hsq
          simp at hsq
          exact no_root x hsq.symm
        have hp := p_odd
        have hxp : x < Secp.p := by omega
        have hm : (Secp.p - y) % Secp.p = Secp.p - y := Nat.mod_eq_of_lt (by omega)
        split at h
        · rename_i hc
          simp only [Option.some.injEq] at h
          subst h
          refine ⟨rfl, hxp, ?_⟩
          cases odd with
          | true => simp at hc; simp [hc]
          | false => simp at hc; simp; omega
        · rename_i hc
          simp only [Option.some.injEq] at h
          subst h
          refine ⟨rfl, hxp, ?_⟩
          simp only [hm]
          cases odd with
          | true => simp at hc; simp; omega
          | false => simp at hc; simp; omega
      · simp at hs

theorem secParse_sound (b : Bytes) (pt : Nat × Nat) (h : Secp.secParse b = some pt) :
    secOf pt (b.head? != some 0x04) = b ∧ SecShape b := by
  unfold Secp.secParse at h
  split at h
  · rename_i r
    split at h
    · rename_i hl
      obtain ⟨h1, h2, h3⟩ := liftX_sound _ _ _ h
      refine ⟨?_, 2, r, rfl, Or.inl ⟨hl, Or.inl rfl⟩⟩
      obtain ⟨px, py⟩ := pt
      simp only at h1 h3
      simp at h3
      subst h1
      simp [secOf, Secp.secCompressed, h3, beN_ofBe r 32 hl]
    · simp at h
  · rename_i r
    split at h
    · rename_i hl
      obtain ⟨h1, h2, h3⟩ := liftX_sound _ _ _ h
      refine ⟨?_, 3, r, rfl, Or.inl ⟨hl, Or.inr rfl⟩⟩
      obtain ⟨px, py⟩ := pt
      simp only at h1 h3
      simp at h3
      subst h1
      simp [secOf, Secp.secCompressed, h3, beN_ofBe r 32 hl]
    · simp at h
  · rename_i r
    split at h
    · rename_i hl
      simp only [] at h
      split at h
      · simp only [Option.some.injEq] at h
        subst h
        refine ⟨?_, 4, r, rfl, Or.inr ⟨hl, rfl⟩⟩
        simp only [secOf, Secp.secUncompressed, List.head?_cons, bne_self_eq_false, Bool.false_eq_true, if_false]
        rw [beN_ofBe _ 32 (by simp; omega), beN_ofBe _ 32 (by simp; omega), List.take_append_drop]
      · simp at h
    · simp at h
  · simp at h

theorem parseSec_sound (b : Bytes) (key : CKey) (h : parseSec b = some key) :
    key.kind = .pub ∧ key.sec = b ∧ SecShape b := by
  unfold parseSec at h
  cases hp : Secp.secParse b with
  | none => simp [hp] at h
  | some pt =>
    simp only [hp, Option.some.injEq] at h
    subst h
    obtain ⟨h1, h2⟩ := secParse_sound b pt hp
    exact ⟨rfl, h1, h2⟩

/-- a 33-byte accepted SEC string is the compressed encoding of its point -/
theorem secParse_33 (k : Bytes) (pt : Nat × Nat) (h : Secp.secParse k = some pt) (hl : k.length = 33) :
    secOf pt true = k := by
  obtain ⟨h1, x, rest, hk, hs⟩ := secParse_sound k pt h
  subst hk
  rcases hs with ⟨_, hx⟩ | ⟨h64, _⟩
  · have e2 : ((some (2 : UInt8)) != some 4) = true := by decide
    have e3 : ((some (3 : UInt8)) != some 4) = true := by decide
    rcases hx with rfl | rfl
    · simp only [List.head?_cons, e2] at h1; exact h1
    · simp only [List.head?_cons, e3] at h1; exact h1
  · simp at hl; omega

/-! ### extended keys -/

theorem xkeyText_some (v : Bytes) (d : Nat) (fp : Bytes) (c : Nat) (cc : Bytes) (body : XBody) (t : Str)
    (h : xkeyText v d fp c cc body = some t) : t = b58encodeCheck (xkeySerialize v d fp c cc body) := by
  unfold xkeyText at h
  split at h
  · simp at h
  · split at h <;> simp at h <;> first | exact h.1.symm | exact h.2.symm

def bodyBytes : XBody → Bytes
  | .priv d => 0 :: beN 32 d
  | .pub pt => secOf pt true

theorem xkeySerialize_eq (v : Bytes) (d : Nat) (fp : Bytes) (c : Nat) (cc : Bytes) (body : XBody) :
    xkeySerialize v d fp c cc body = v ++ [UInt8.ofNat d] ++ fp ++ beN 4 c ++ cc ++ bodyBytes body := by
  cases body <;> rfl

/-- the key part of an accepted 78-byte extended key is what the parsed body serialises to -/
theorem body_bytes (k : Bytes) (hk : k.length = 33) (body : XBody)
    (hbody : (if k.head? = some 0 then
        (if (decide (ofBe (k.drop 1) = 0) || decide (ofBe (k.drop 1) ≥ N)) = true then none
         else some (XBody.priv (ofBe (k.drop 1))))
      else (Secp.secParse k).bind fun pt => if k.length = 33 then some (XBody.pub pt) else none) = some body) :
    bodyBytes body = k := by
  split at hbody
  · rename_i hh
    split at hbody
    · simp at hbody
    · simp only [Option.some.injEq] at hbody
      subst hbody
      cases k with
      | nil => simp at hk
      | cons a r =>
        simp at hh
        subst hh
        simp only [bodyBytes, List.drop_succ_cons, List.drop_zero]
        rw [beN_ofBe r 32 (by simpa using hk)]
  · cases hsp : Secp.secParse k with
    | none => simp [hsp] at hbody
    | some pt =>
      simp only [hsp, Option.bind_some, hk, if_true, Option.some.injEq] at hbody
      subst hbody
      exact secParse_33 _ pt hsp hk

theorem parseXkey_sound (s : Str) (key : CKey) (h : parseXkey s = some key) :
    key.kind = .xkey ∧ key.text = some s ∧ ∃ b, b58decodeCheck s = some b ∧ b.length = 78 := by
  unfold parseXkey at h
  cases hd : b58decodeCheck s with
  | none => simp [hd] at h
  | some b =>
    simp only [hd] at h
    split at h
    · simp at h
    · rename_i hlen
      have hlen : b.length = 78 := by simpa using hlen
      split at h
      · simp at h
      · rename_i body hbody
        split at h
        · simp at h
        · rename_i t ht
          have htext := ht
          -- the 78 bytes are the serialisation of the fields read from them
          have hser : xkeySerialize (b.take 4) (b.getD 4 0).toNat ((b.drop 5).take 4) (ofBe ((b.drop 9).take 4))
              ((b.drop 13).take 32) body = b := by
            have hk : (b.drop 45).length = 33 := by simp; omega
            have hbytes := body_bytes (b.drop 45) hk body hbody
            rw [xkeySerialize_eq, hbytes, beN_ofBe _ 4 (by simp; omega), UInt8.ofNat_toNat]
            exact (split78 b hlen).symm
          have ht' := xkeyText_some _ _ _ _ _ _ _ ht
          rw [hser, (b58decodeCheck_sound s b hd).1] at ht'
          subst ht'
          split at h
          · simp at h
          · split at h
            · simp at h
            · simp only [Option.some.injEq] at h
              subst h
              exact ⟨rfl, htext, b, rfl, hlen⟩

/-! ### WIF -/

theorem parseWif_sound (s : Str) (key : CKey) (h : parseWif s = some key) :
    key.kind = .priv ∧ key.text = some s ∧ ∃ b, b58decodeCheck s = some b ∧ 33 ≤ b.length := by
  unfold parseWif at h
  cases hd : b58decodeCheck s with
  | none => simp [hd] at h
  | some b =>
    simp only [hd] at h
    split at h
    · simp at h
    · rename_i hknown
      have hknown : knownWifPrefix (b.take 1) = true := by simpa using hknown
      split at h
      · simp at h
      · rename_i hlen
        have hlen : b.length = 33 ∨ b.length = 34 := by
          simp at hlen; omega
        split at h
        · simp at h
        · rename_i hflag
          split at h
          · simp at h
          · simp only [Option.some.injEq] at h
            subst h
            refine ⟨rfl, ?_, b, rfl, by omega⟩
            simp only [CKey.text, hknown, if_true, Option.some.injEq]
            have hb : b.take 1 ++ beN 32 (ofBe ((b.drop 1).take 32)) ++
                (if (decide (b.length = 34)) = true then [1] else []) = b := by
              rw [beN_ofBe _ 32 (by simp; omega)]
              rcases hlen with h33 | h34
              · have : (b.drop 1).take 32 = b.drop 1 := List.take_of_length_le (by simp; omega)
                rw [this]
                simp only [h33, show decide ((33 : Nat) = 34) = false from rfl, Bool.false_eq_true, if_false,
                  List.append_nil]
                exact List.take_append_drop 1 b
              · have e : b.drop 1 = (b.drop 1).take 32 ++ b.drop 33 := by
                  have := (List.take_append_drop 32 (b.drop 1)).symm
                  rwa [List.drop_drop] at this
                have hl1 : (b.drop 33).length = 1 := by simp; omega
                have hlast : b.drop 33 = [1] := by
                  cases h33 : b.drop 33 with
                  | nil => rw [h33] at hl1; simp at hl1
                  | cons x r =>
                    rw [h33] at hl1
                    have hr : r = [] := by simpa using hl1
                    subst hr
                    have hg : b.getLast? = some x := by
                      rw [← List.take_append_drop 33 b, h33]; simp
                    simp [h34, hg] at hflag
                    rw [hflag]
                simp only [h34, decide_true, if_true]
                rw [← hlast, List.append_assoc, ← e, List.take_append_drop]
            rw [hb]
            exact (b58decodeCheck_sound s b hd).1

/-! ### the codec hypothesis of `parse_print_idem`, for the record the driver evaluates -/

theorem concrete_codec : KeyCodec ops where
  sec := fun b key h => parseSec_sound b key h
  xkey := fun s key h => by
    obtain ⟨h1, h2, _⟩ := parseXkey_sound s key h
    exact ⟨h1, h2⟩
  wif := fun s key h => by
    obtain ⟨h1, h2, _⟩ := parseWif_sound s key h
    exact ⟨h1, h2⟩
  textShape := fun s key h => by
    rcases h with h | h
    · obtain ⟨_, _, b, hb, hl⟩ := parseXkey_sound s key h
      exact b58decodeCheck_textShape s b hb (by omega)
    · obtain ⟨_, _, b, hb, hl⟩ := parseWif_sound s key h
      exact b58decodeCheck_textShape s b hb (by omega)

/-! ### two of the four `KeyLaws` fields (Proofs/DescScripts.lean) for the same record -/

theorem ckdPath_none (k : CKey) (path : List (Option Nat)) (h : none ∈ path) : ckdPath k path = none := by
  induction path generalizing k with
  | nil => simp at h
  | cons a r ih =>
    cases a with
    | none => rfl
    | some i =>
      simp only [ckdPath]
      cases hc : ckd k i with
      | none => rfl
      | some c => simp only [Option.bind_some]; exact ih c (by simpa using h)

theorem sec_toPublic (k p : CKey) (h : k.toPublic = some p) : p.sec = k.sec := by
  cases k with
  | pub pt c => simp [CKey.toPublic] at h; subst h; rfl
  | priv d c w => simp [CKey.toPublic] at h; subst h; rfl
  | xkey v dep fp ch cc body =>
    cases body with
    | pub pt => simp [CKey.toPublic] at h
    | priv d =>
      simp only [CKey.toPublic] at h
      split at h
      · simp at h
      · rename_i v' _
        cases ht : xkeyText v' dep fp ch cc (XBody.pub (pointOfSecret d)) with
        | none => simp [ht] at h
        | some t => simp [ht] at h; subst h; rfl

end Embit.Model.Descriptor.Concrete
