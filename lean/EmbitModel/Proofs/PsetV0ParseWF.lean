import EmbitModel.Proofs.PsetV0Kept
/-
  C18 (round 6): every version-0 PSET that `PSET.parse` returns, and whose input scopes report no issuance of their own
  (`LPset.noOwnIssuance`), is well-formed in the sense `LPsetWF0K` — so serialise-then-parse applies to parsed objects.
-/
set_option linter.unusedSimpArgs false
set_option linter.unusedVariables false
namespace Embit
open Model Spec.LWire

/-- no input scope builds an issuance from fields of its own (`LInputScope.asset_issuance` before the fall-back to the
    global transaction's issuance is None): the object-level form of `NoOwnIssuance` (weaker: a scope may hold
    `pset 00` with value 0 and / or an empty `pset 01`) -/
def Model.LPset.noOwnIssuance (p : LPset) : Bool := p.inputs.all (fun s => s.assetIssuance.isNone)

/-! ### the transaction rebuilt from the scopes, hypothesis on the object -/

theorem LInScope.vin_of_seed_obj (ko : KeyOps) (t : LTx) (j : Nat) (hj : j < t.vin.length) (kvs : List KV) (s : LInScope)
    (h : LInScope.addPairs ko (lseedIn (some t) j) kvs = some s)
    (hu : t.vin[j].scriptSig = []) (hw : t.vin[j].witness = {}) (hai : s.assetIssuance = none) :
    s.vin = some t.vin[j] := by
  have hseed : InSeeded (lseedIn (some t) j).base := by
    simp [lseedIn, List.getElem?_eq_getElem hj, InSeeded]
  obtain ⟨⟨e1, e2, e3⟩, hl⟩ := LInScope.addPairs_facts ko kvs _ s hseed h
  simp [lseedIn, List.getElem?_eq_getElem hj] at e1 e2 e3
  obtain ⟨p1, p2⟩ := LInScope.addPairs_txparts ko kvs _ s h
  simp [lseedIn, List.getElem?_eq_getElem hj] at p1 p2
  simp only [LInScope.vin, LInScope.issuance, e1, e2, e3, hai, p1, p2, Option.getD_some]
  cases hh : t.vin[j] with
  | mk a1 a2 a3 a4 a5 a6 a7 =>
    simp [hh] at hu hw ⊢
    simp_all

theorem LPset.tx_of_v0_obj (ko : KeyOps) (p : LPset) (t : LTx) (kin kout : List (List KV))
    (hwf : WF t) (hu : LUnsigned t) (hnw : LTx.hasWitness t = false)
    (wo : ∀ kvs ∈ kout, ∀ kv ∈ kvs, KVWF kv)
    (hv : p.txVersion = some t.version) (hl : p.locktime = some t.locktime)
    (li : p.inputs.length = t.vin.length) (lo : p.outputs.length = t.vout.length)
    (fi : ∀ j, j < p.inputs.length → ∃ kvs s, kin[j]? = some kvs ∧ p.inputs[j]? = some s
            ∧ LInScope.addPairs ko (lseedIn (some t) j) kvs = some s)
    (fo : ∀ j, j < p.outputs.length → ∃ kvs s, kout[j]? = some kvs ∧ p.outputs[j]? = some s
            ∧ LOutScope.addPairs ko (lseedOut (some t) j) kvs = some s)
    (hfree : p.noOwnIssuance = true) : p.tx = some t := by
  simp only [LPset.noOwnIssuance, List.all_eq_true, Option.isNone_iff_eq_none] at hfree
  obtain ⟨hwi, hwo⟩ := LTx.noWitness_parts t hnw
  have hvin : optAll (p.inputs.map LInScope.vin) = some t.vin := by
    apply optAll_map_eq_get
    · exact li
    · intro j a ha
      have hj : j < p.inputs.length := (List.getElem?_eq_some_iff.mp ha).1
      have hjt : j < t.vin.length := by omega
      obtain ⟨kvs, s, a1, a2, a3⟩ := fi j hj
      rw [ha] at a2; simp at a2; subst a2
      refine ⟨t.vin[j], List.getElem?_eq_getElem hjt, ?_⟩
      have hm := List.getElem_mem hjt
      exact LInScope.vin_of_seed_obj ko t j hjt kvs a a3 (hu _ hm) (hwi _ hm) (hfree a (List.mem_of_getElem? ha))
  have hvout : optAll (p.outputs.map LOutScope.vout) = some t.vout := by
    apply optAll_map_eq_get
    · exact lo
    · intro j a ha
      have hj : j < p.outputs.length := (List.getElem?_eq_some_iff.mp ha).1
      have hjt : j < t.vout.length := by omega
      obtain ⟨kvs, s, a1, a2, a3⟩ := fo j hj
      rw [ha] at a2; simp at a2; subst a2
      refine ⟨t.vout[j], List.getElem?_eq_getElem hjt, ?_⟩
      have hm := List.getElem_mem hjt
      exact LOutScope.vout_of_seed_kept ko t j hjt kvs a a3
        (fun kv hkv => (wo kvs (List.mem_of_getElem? a1) kv hkv).1) (hwf.outs _ hm).asset (hwo _ hm)
  simp only [LPset.tx, hvin, hvout, hv, hl]
  simp

/-! ### the raw commitment in the place of the value is only ever a reason to refuse -/

def Model.LOutScope.noConf (s : LOutScope) : LOutScope := { s with valueConf := none }

theorem LOutScope.addPair_noConf (ko : KeyOps) (s s' : LOutScope) (k v : Bytes)
    (h : LOutScope.addPair ko s k v = some s') : LOutScope.addPair ko s.noConf k v = some s'.noConf := by
  unfold LOutScope.addPair at h ⊢
  unfold LOutScope.noConf
  simp only [] at h ⊢
  repeat' split at h
  all_goals (try (simp at h; done))
  all_goals (simp only [Option.some.injEq] at h; subst h; simp_all)

theorem LOutScope.addPairs_noConf (ko : KeyOps) : ∀ (kvs : List KV) (s s' : LOutScope),
    LOutScope.addPairs ko s kvs = some s' → LOutScope.addPairs ko s.noConf kvs = some s'.noConf := by
  intro kvs
  induction kvs with
  | nil => intro s s' h; simp [LOutScope.addPairs] at h ⊢; subst h; rfl
  | cons kv kvs ih =>
    intro s s' h
    obtain ⟨k, v⟩ := kv
    simp only [LOutScope.addPairs] at h ⊢
    split at h
    · simp at h
    · rename_i s1 h1
      rw [LOutScope.addPair_noConf ko s s1 k v h1]
      exact ih s1 s' h

/-! ### the version-0 seeds are well-formed -/

theorem lseedIn_wf (ko : KeyOps) (t : LTx) (hwf : WF t) (j : Nat) (hj : j < t.vin.length) :
    LInWF ko (lseedIn (some t) j).clr := by
  have hwi := hwf.ins _ (List.getElem_mem hj)
  have hvout : t.vin[j].vout < 2 ^ 32 := by
    rcases hwi.index with ⟨h1, _⟩ | ⟨h1, _⟩ <;> omega
  simp only [lseedIn, List.getElem?_eq_getElem hj, LInScope.clr, LInScope.withParts]
  refine ⟨rfl, rfl, ?_, ?_, by simp, by simp, trivial, trivial, by simp, ⟨rfl, rfl⟩, by simp⟩
  · exact { InWF_empty ko with txid := hwi.txid, vout := hvout, sequence := hwi.sequence }
  · apply InScope.typedNL_of_lists _ rfl rfl
    refine ⟨?_, ?_, ?_, ?_, ?_⟩ <;> simp

theorem lseedOut_wf (ko : KeyOps) (t : LTx) (hwf : WF t) (j : Nat) (hj : j < t.vout.length) :
    LOutWF ko (lseedOut (some t) j).clr.noConf := by
  have hwo := hwf.outs _ (List.getElem_mem hj)
  have hfa : Fits t.vout[j].asset := by
    show t.vout[j].asset.length < 2 ^ 64
    rcases hwo.asset with h | ⟨h, _⟩ <;> omega
  cases hv : t.vout[j].value with
  | explicit v =>
    have hvv : v < 2 ^ 64 := by have := hwo.value; rw [hv] at this; exact this
    simp only [lseedOut, List.getElem?_eq_getElem hj, hv, LOutScope.clr, LOutScope.withNonce, LOutScope.noConf]
    refine ⟨rfl, ?_, ?_, by simp, by simp, ?_, rfl⟩
    · exact { OutWF_empty ko with value := hvv, spk := hwo.script }
    · apply OutScope.typedNL_of_lists
      refine ⟨?_, ?_⟩ <;> simp
    · intro e he
      simp at he; subst he
      exact ⟨rfl, hfa⟩
  | conf c =>
    simp only [lseedOut, List.getElem?_eq_getElem hj, hv, LOutScope.clr, LOutScope.withNonce, LOutScope.noConf]
    refine ⟨rfl, ?_, ?_, by simp, by simp, ?_, rfl⟩
    · exact { OutWF_empty ko with spk := hwo.script }
    · apply OutScope.typedNL_of_lists
      refine ⟨?_, ?_⟩ <;> simp
    · intro e he
      simp at he; subst he
      exact ⟨rfl, hfa⟩

/-- the version number the global scope accepts fits its 4 bytes -/
theorem lglobalFold_verLt : ∀ (g : List KV) (tx : Option LTx) (ver : Option Nat) (unk : List KV)
    (tx' : Option LTx) (ver' : Option Nat) (unk' : List KV),
    lglobalFold tx ver unk g = some (tx', ver', unk') → OptP (· < 2^32) ver → OptP (· < 2^32) ver' := by
  intro g
  induction g with
  | nil => intro tx ver unk tx' ver' unk' h hv; simp [lglobalFold] at h; obtain ⟨rfl, rfl, rfl⟩ := h; exact hv
  | cons kv g ih =>
    intro tx ver unk tx' ver' unk' h hv
    obtain ⟨k, v⟩ := kv
    simp only [lglobalFold] at h
    split at h
    · split at h
      · simp at h
      · split at h
        · simp at h
        · split at h
          · simp at h
          · split at h
            · simp at h
            · exact ih _ _ _ _ _ _ h hv
    · split at h
      · split at h
        · simp at h
        · split at h
          · simp at h
          · rename_i hlen
            exact ih _ _ _ _ _ _ h (ofLe_lt32 (by simpa using hlen))
      · split at h
        · simp at h
        · exact ih _ _ _ _ _ _ h hv

/-- MAIN: every version-0 PSET `PSET.parse` (KEEP_ALL) returns whose input scopes build no issuance of their own is
    well-formed (`LPsetWF0K`: kept transaction parts allowed) -/
theorem LPset.parse_wf_v0 (ko : KeyOps) (b : Bytes) (p : LPset) (h : LPset.parse ko b = some p)
    (hv : p.version ≠ some 2) (hfree : p.noOwnIssuance = true) : LPsetWF0K ko p := by
  obtain ⟨g, kin, kout, tx, unk, gs, eb, wg, ws, hgf, hpu, hver, e1, e2, e3, e4, l1, l2, l3, l4, fi, fo⟩ :=
    LPset.parse_decomp ko b p h
  obtain ⟨t, ht⟩ : ∃ t, tx = some t := by
    rcases hver with ⟨hv2, _⟩ | ⟨_, ht⟩
    · exact absurd hv2 hv
    · exact ht
  subst ht
  have hb : (p.version == some 2) = false := by simp [hv]
  obtain ⟨f1, f2, f3, f5, f4⟩ := lglobalFold_spec g none none [] (some t) p.version unk hgf
  obtain ⟨hu, hwf⟩ : LUnsigned t ∧ WF t := by
    rcases f5 t rfl with hh | hh
    · simp at hh
    · exact hh
  have hnw : LTx.hasWitness t = false := by
    rcases lglobalFold_noWitness g none none [] _ _ _ hgf t rfl with hh | hh
    · simp at hh
    · exact hh
  have hunk : unk = g.filter notTxVer := by simpa using lglobalFold_unk g none none [] (some t) p.version unk hgf
  have hnd := lglobalFold_nodup g none none [] (some t) p.version unk hgf (by simp)
  have hunkwf : ∀ kv ∈ unk, KVWF kv ∧ notTxVer kv = true := by
    intro kv hkv
    rw [hunk] at hkv
    obtain ⟨a, b⟩ := List.mem_filter.mp hkv
    exact ⟨wg kv a, b⟩
  have hg0 : GInv ko (p.version == some 2) (lgstate0 (some t)) unk :=
    ⟨hwf.version, hwf.locktime, hwf.ninLt, hwf.noutLt, by simp [lgstate0], by simp [lgstate0], by simp [lgstate0],
     by simp [lgstate0], by simp [lgstate0], by simp [lgstate0]⟩
  have hgs := parseUnknowns_inv ko _ unk _ gs hunkwf hnd hg0 hpu
  obtain ⟨u1, u2, u3, u4, u5, u6, u7, u8⟩ := parseUnknowns_spec ko (p.version == some 2) unk _ gs hnd hpu
  obtain ⟨c1, c2, c3, c4⟩ := u7 hb
  rw [c3] at l3; simp [lgstate0] at l3
  rw [c4] at l4; simp [lgstate0] at l4
  have kinwf : ∀ kvs ∈ kin, ∀ kv ∈ kvs, KVWF kv := fun kvs hk => ws kvs (by simp [hk])
  have koutwf : ∀ kvs ∈ kout, ∀ kv ∈ kvs, KVWF kv := fun kvs hk => ws kvs (by simp [hk])
  have hmem : ([0x00], LTx.ser t) ∈ g := by
    have : ∃ kv ∈ g, kv.1 = [0x00] := by
      rcases lglobalFold_tx_mem g none none [] _ _ _ hgf with hh | hh
      · simp at hh
      · exact hh
    obtain ⟨kv, hkv, e⟩ := this
    rcases f4 kv hkv with ⟨_, t', ht', hs, _⟩ | ⟨e', _⟩ | ⟨_, e', _⟩
    · simp at ht'; subst ht'
      obtain ⟨k, v⟩ := kv; simp at e hs; subst e; subst hs; exact hkv
    · rw [e] at e'; simp at e'
    · exact absurd e e'
  have htx : p.tx = some t := by
    refine LPset.tx_of_v0_obj ko p t kin kout hwf hu hnw koutwf ?_ ?_ l3 l4 fi fo hfree
    · rw [e1, c1]; rfl
    · rw [e2, c2]; rfl
  refine ⟨hv, lglobalFold_verLt g none none [] _ _ _ hgf trivial, by rw [e3]; exact hgs.xpubs,
    by rw [e3]; exact hgs.xpubsNodup, ?_, by rw [e4]; exact hgs.unknownNodup, ?_, ?_, ?_⟩
  · have := hgs.unknown
    rw [hb] at this
    rw [e4]; exact this
  · -- input scopes
    intro s hs
    obtain ⟨j, hj⟩ := List.mem_iff_getElem?.mp hs
    have hjl : j < p.inputs.length := (List.getElem?_eq_some_iff.mp hj).1
    obtain ⟨kvs, s', a1, a2, a3⟩ := fi j hjl
    rw [hj] at a2; simp at a2; subst a2
    have hjt : j < t.vin.length := by omega
    have a4 : LInScope.addPairs ko (lseedIn (some t) j).clr kvs = some s.clr := by
      rw [LInScope.clr, LInScope.addPairs_withParts, a3]; rfl
    exact LInScope.addPairs_wf ko kvs _ s.clr (kinwf kvs (List.mem_of_getElem? a1)) (lseedIn_wf ko t hwf j hjt) a4
  · -- output scopes
    intro s hs
    obtain ⟨j, hj⟩ := List.mem_iff_getElem?.mp hs
    have hjl : j < p.outputs.length := (List.getElem?_eq_some_iff.mp hj).1
    obtain ⟨kvs, s', a1, a2, a3⟩ := fo j hjl
    rw [hj] at a2; simp at a2; subst a2
    have hjt : j < t.vout.length := by omega
    have a4 : LOutScope.addPairs ko (lseedOut (some t) j).clr kvs = some s.clr := by
      rw [LOutScope.clr, LOutScope.addPairs_withNonce, a3]; rfl
    have a5 := LOutScope.addPairs_noConf ko kvs _ _ a4
    have w := LOutScope.addPairs_wf ko kvs _ _ (koutwf kvs (List.mem_of_getElem? a1)) (lseedOut_wf ko t hwf j hjt) a5
    have hseed : LOutSeededG (lseedOut (some t) j) := by
      cases hval : t.vout[j].value <;>
        simp [lseedOut, List.getElem?_eq_getElem hjt, hval, LOutSeededG, lget]
    obtain ⟨_, _, _, n4⟩ := LOutScope.addPairs_losslessG ko none kvs _ s (Or.inr hseed)
      (fun kv hkv => (koutwf kvs (List.mem_of_getElem? a1) kv hkv).1) a3
    have hasset : (lget s.lf LOutField.asset).isSome = true := by
      rw [(n4 hseed).2.2]; exact hseed.2.2
    exact ⟨w.typed, w.typedNL, w.unknown, w.unknownNodup, w.lf, hasset, w.txNonce⟩
  · -- the transaction and the seeds
    refine ⟨t, htx, hwf, (wg _ hmem).2.2, by rw [e1, c1]; rfl, by rw [e2, c2]; rfl, ?_, ?_⟩
    · intro j s hj
      have hjl : j < p.inputs.length := (List.getElem?_eq_some_iff.mp hj).1
      obtain ⟨kvs, s', a1, a2, a3⟩ := fi j hjl
      rw [hj] at a2; simp at a2; subst a2
      have hjt : j < t.vin.length := by omega
      have hseed : InSeeded (lseedIn (some t) j).base := by
        simp [lseedIn, List.getElem?_eq_getElem hjt, InSeeded]
      obtain ⟨⟨q1, q2, q3⟩, _⟩ := LInScope.addPairs_facts ko kvs _ s hseed a3
      obtain ⟨p1, p2⟩ := LInScope.addPairs_txparts ko kvs _ s a3
      simp [lseedIn, List.getElem?_eq_getElem hjt] at q1 q2 q3 p1 p2
      simp [lseedIn, List.getElem?_eq_getElem hjt, LInScope.seedOfK, LInScope.seedOf, hv, LInScope.withParts,
        q1, q2, q3, p1, p2]
    · intro j s hj
      have hjl : j < p.outputs.length := (List.getElem?_eq_some_iff.mp hj).1
      obtain ⟨kvs, s', a1, a2, a3⟩ := fo j hjl
      rw [hj] at a2; simp at a2; subst a2
      have hjt : j < t.vout.length := by omega
      have hseed : LOutSeededG (lseedOut (some t) j) := by
        cases hval : t.vout[j].value <;>
          simp [lseedOut, List.getElem?_eq_getElem hjt, hval, LOutSeededG, lget]
      obtain ⟨_, _, n3, n4⟩ := LOutScope.addPairs_losslessG ko none kvs _ s (Or.inr hseed)
        (fun kv hkv => (koutwf kvs (List.mem_of_getElem? a1) kv hkv).1) a3
      obtain ⟨m1, m2, m3⟩ := n4 hseed
      have q := LOutScope.addPairs_txparts ko kvs _ s a3
      cases hval : t.vout[j].value <;>
        (simp [lseedOut, List.getElem?_eq_getElem hjt, hval, lget] at n3 m1 m2 m3 q
         simp [lseedOut, List.getElem?_eq_getElem hjt, hval, LOutScope.seedOf0K, LOutScope.seedOf0,
           LOutScope.withNonce, n3, m1, m2, m3, q])

/-- parse ∘ serialise ∘ parse = norm ∘ parse (version 0, no issuance built from scope fields) -/
theorem LPset.parse_ser_parse_v0 (ko : KeyOps) (b : Bytes) (p : LPset) (h : LPset.parse ko b = some p)
    (hv : p.version ≠ some 2) (hfree : p.noOwnIssuance = true) :
    ∃ b', LPset.ser p = some b' ∧ LPset.parse ko b' = some p.norm :=
  LPset.parse_ser_v0K ko p (LPset.parse_wf_v0 ko b p h hv hfree)

end Embit
