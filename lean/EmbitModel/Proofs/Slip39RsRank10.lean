import EmbitModel.Proofs.Slip39RsElim
/- RS1024 rank checks (kernel evaluation), part 10: all position triples whose largest offset is in [18, 16, 15, 14, 13] -/
namespace Embit.Model.Slip39
set_option maxRecDepth 1000000 in
theorem tripleOk_18 : tripleOk 18 = true := by decide +kernel
set_option maxRecDepth 1000000 in
theorem tripleOk_16 : tripleOk 16 = true := by decide +kernel
set_option maxRecDepth 1000000 in
theorem tripleOk_15 : tripleOk 15 = true := by decide +kernel
set_option maxRecDepth 1000000 in
theorem tripleOk_14 : tripleOk 14 = true := by decide +kernel
set_option maxRecDepth 1000000 in
theorem tripleOk_13 : tripleOk 13 = true := by decide +kernel
end Embit.Model.Slip39
