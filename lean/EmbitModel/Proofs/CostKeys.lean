import EmbitModel.Model.Keys
/-
  C17: the key parsers (SEC public key, 32-byte secret, 78-byte extended key, WIF payload) read a fixed number of
  bytes; nothing in them is driven by a count or length field of the input. Directly from the definitions of
  `Model/Keys.lean`, no curve laws needed.
-/
set_option linter.unusedSimpArgs false
set_option linter.unusedVariables false
namespace Embit.Keys
open Embit

theorem pubkeyParse_len {E : EcOps} {sec : Bytes} {P : E.Pt} (h : pubkeyParse E sec = some P) :
    sec.length = 33 ∨ sec.length = 65 := by
  unfold pubkeyParse at h
  split at h
  · simp at h
  · rename_i f r
    split at h
    · left; simp; omega
    · split at h
      · right; simp; omega
      · simp at h

/-- `PublicKey.read_from` takes exactly 33 or 65 bytes off the stream -/
theorem pubkey_read_fixed {E : EcOps} {s r : Bytes} {k : PublicKey E} (h : PublicKey.readFrom E s = some (k, r)) :
    s.length = r.length + 33 ∨ s.length = r.length + 65 := by
  unfold PublicKey.readFrom at h
  split at h
  · simp at h
  · rename_i f rest
    split at h
    · split at h
      · simp at h
      · rename_i P hp
        simp at h
        obtain ⟨_, rfl⟩ := h
        have := pubkeyParse_len hp
        by_cases hf : f = 0x04
        · subst hf
          simp at this ⊢
          omega
        · simp [hf] at this ⊢
          omega
    · simp at h

theorem pubkey_parse_fixed {E : EcOps} {b : Bytes} {k : PublicKey E} (h : PublicKey.parse E b = some k) :
    b.length = 33 ∨ b.length = 65 := by
  unfold PublicKey.parse at h
  split at h
  · rename_i k' hr
    have := pubkey_read_fixed hr
    simpa using this
  · simp at h

/-- `PrivateKey.parse` accepts exactly 32 bytes -/
theorem privkey_parse_fixed {E : EcOps} {b : Bytes} {k : PrivateKey} (h : PrivateKey.parse E b = some k) :
    b.length = 32 := by
  unfold PrivateKey.parse at h
  split at h
  · simp at h
  · rename_i k' hi
    split at h
    · rename_i hd
      unfold PrivateKey.init at hi
      split at hi
      · simp at hi
      · rename_i hl
        simp at hl
        have : (b.drop 32).length = 0 := by rw [hd]; rfl
        simp at this
        omega
    · simp at h

theorem readKeyField_len {E : EcOps} {k0 : UInt8} {kr : Bytes} {key : KeyObj E} (h : readKeyField E k0 kr = some key)
    (hle : kr.length ≤ 32) : kr.length = 32 := by
  unfold readKeyField at h
  split at h
  · cases hp : PrivateKey.parse E kr with
    | none => simp [hp] at h
    | some k => exact privkey_parse_fixed hp
  · cases hp : PublicKey.parse E (k0 :: kr) with
    | none => simp [hp] at h
    | some k =>
      have := pubkey_parse_fixed hp
      simp at this
      omega

/-- `HDKey.read_from` takes exactly 78 bytes off the stream -/
theorem hdkey_read_fixed {E : EcOps} {env : Env} {s r : Bytes} {k : HDKey E} (h : HDKey.readFrom E env s = some (k, r)) :
    s.length = r.length + 78 := by
  unfold HDKey.readFrom at h
  split at h
  · simp at h
  · rename_i d s2 hs
    have l1 : (s.drop 4).length = s2.length + 1 := by rw [hs]; simp
    split at h
    · simp at h
    · rename_i k0 kr hk
      have l2 : ((s2.drop 40).take 33).length = kr.length + 1 := by rw [hk]; simp
      split at h
      · simp at h
      · rename_i key hkey
        have hle : kr.length ≤ 32 := by
          have : ((s2.drop 40).take 33).length ≤ 33 := by simp; omega
          omega
        have := readKeyField_len hkey hle
        split at h
        · simp at h
        · split at h
          · simp at h
          · split at h
            · simp at h
            · split at h
              · simp at h
              · split at h
                · simp at h
                · split at h
                  · simp at h
                  · simp at h
                    obtain ⟨_, rfl⟩ := h
                    simp at l1 l2 ⊢
                    omega

/-- `HDKey.parse` accepts exactly 78 bytes -/
theorem hdkey_parse_fixed {E : EcOps} {env : Env} {b : Bytes} {k : HDKey E} (h : HDKey.parse E env b = some k) :
    b.length = 78 := by
  unfold HDKey.parse at h
  split at h
  · rename_i k' hr
    have := hdkey_read_fixed hr
    simpa using this
  · simp at h

/-- `PrivateKey.from_wif` accepts only a Base58Check payload of 33 or 34 bytes -/
theorem wif_payload_fixed {E : EcOps} {env : Env} {s : Text} {k : PrivateKey} (h : PrivateKey.fromWif E env s = some k) :
    ∃ b, env.b58dec s = some b ∧ (b.length = 33 ∨ b.length = 34) := by
  unfold PrivateKey.fromWif at h
  split at h
  · simp at h
  · rename_i b hb
    refine ⟨b, hb, ?_⟩
    split at h
    · simp at h
    · split at h
      · left; assumption
      · split at h
        · right; assumption
        · simp at h

end Embit.Keys
