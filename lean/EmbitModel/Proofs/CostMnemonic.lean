import EmbitModel.Model.Bip39
import EmbitModel.Model.Slip39
/-
  C17: mnemonic / share parsers.
  BIP39 `mnemonic_to_bytes`: the bit-packing loop `while remaining > 0` needs at most `remaining` (= 11) rounds per
  word — the fuel of the model is never used up (`packLoop_fuel`) — and the packed string has ⌈11·words/8⌉ bytes,
  so the result has at most 11 bits per word (`toBytes_bits`). Holds for every word list and every hash function.
  SLIP39 `Share.parse`: value < 2^(10·(words−7)), iteration exponent < 32; `_crypt` uses PBKDF2 with the iteration
  count `2500·2^e` and nothing else (`crypt_pbkdf2_param`); `interpolate` returns at most the length of a share.
-/
set_option linter.unusedSimpArgs false
set_option linter.unusedVariables false
namespace Embit.Model.Cost
open Embit

/-! ### BIP39 -/
section bip39
open Embit.Model.Bip39

theorem packLoop_zero (fuel : Nat) (st : Pack) (index : Nat) : packLoop fuel st index 0 = some st := by
  cases fuel <;> simp [packLoop]

/-- **the packing loop ends by itself**: with at least `remaining` units of fuel the fuel does not matter -/
theorem packLoop_fuel : ∀ (f1 f2 : Nat) (seed : Bytes) (off index remaining : Nat), off < 8 →
    remaining ≤ f1 → remaining ≤ f2 → packLoop f1 ⟨seed, off⟩ index remaining = packLoop f2 ⟨seed, off⟩ index remaining := by
  intro f1
  induction f1 with
  | zero =>
    intro f2 seed off index remaining ho h1 h2
    have : remaining = 0 := by omega
    subst this
    rw [packLoop_zero, packLoop_zero]
  | succ f1 ih =>
    intro f2 seed off index remaining ho h1 h2
    by_cases hr : remaining = 0
    · subst hr; rw [packLoop_zero, packLoop_zero]
    · cases f2 with
      | zero => omega
      | succ f2 =>
        have hpos : remaining > 0 := by omega
        simp only [packLoop, hpos, if_true]
        split
        · split
          · cases baAppend seed index with
            | none => rfl
            | some s => simp only [Option.bind_eq_bind, Option.bind_some]; rw [packLoop_zero, packLoop_zero]
          · cases baOrLast seed index with
            | none => rfl
            | some s => simp only [Option.bind_eq_bind, Option.bind_some]; rw [packLoop_zero, packLoop_zero]
        · split
          · rename_i hgt
            simp at hgt
            split
            · cases baAppend seed (index >>> (remaining - 8)) with
              | none => rfl
              | some s =>
                simp only [Option.bind_eq_bind, Option.bind_some]
                exact ih f2 s 0 _ _ (by omega) (by omega) (by omega)
            · cases baOrLast seed (index >>> (remaining - (8 - off))) with
              | none => rfl
              | some s =>
                simp only [Option.bind_eq_bind, Option.bind_some]
                exact ih f2 s 0 _ _ (by omega) (by omega) (by omega)
          · cases baAppend seed (index <<< (8 - remaining)) with
            | none => rfl
            | some s => simp only [Option.bind_eq_bind, Option.bind_some]; rw [packLoop_zero, packLoop_zero]

/-- bits of padding in the last byte -/
def padBits (off : Nat) : Nat := if off = 0 then 0 else 8 - off

theorem baAppend_len {s s' : Bytes} {v : Nat} (h : baAppend s v = some s') : s'.length = s.length + 1 := by
  unfold baAppend at h; split at h
  · simp at h; subst h; simp
  · simp at h

theorem baOrLast_len {s s' : Bytes} {v : Nat} (h : baOrLast s v = some s') : s'.length = s.length ∧ 0 < s.length := by
  unfold baOrLast at h
  split at h
  · simp at h
  · rename_i l hl
    have hne : s ≠ [] := by intro e; subst e; simp at hl
    have : 0 < s.length := List.length_pos_iff.mpr hne
    simp only [] at h
    split at h
    · simp at h; subst h; simp; omega
    · simp at h

/-- from a byte boundary: the loop appends ⌈remaining/8⌉ bytes -/
theorem packLoop_size0 : ∀ (fuel : Nat) (seed : Bytes) (index remaining : Nat) (st' : Pack),
    packLoop fuel ⟨seed, 0⟩ index remaining = some st' →
    st'.offset < 8 ∧ 8 * st'.seed.length = 8 * seed.length + remaining + padBits st'.offset := by
  intro fuel
  induction fuel with
  | zero =>
    intro seed index remaining st' h
    simp only [packLoop] at h
    split at h
    · simp at h
    · simp at h; subst h; simp [padBits]; omega
  | succ fuel ih =>
    intro seed index remaining st' h
    by_cases hr : remaining = 0
    · subst hr; rw [packLoop_zero] at h; simp at h; subst h; simp [padBits]
    · have hpos : remaining > 0 := by omega
      simp only [packLoop, hpos, if_true] at h
      split at h
      · rename_i h8
        simp at h8
        simp at h
        cases ha : baAppend seed index with
        | none => simp [ha] at h
        | some s =>
          simp [ha, packLoop_zero] at h
          subst h
          have := baAppend_len ha
          simp [padBits]; omega
      · rename_i h8
        simp at h8
        split at h
        · rename_i hgt
          simp at hgt
          simp at h
          cases ha : baAppend seed (index >>> (remaining - 8)) with
          | none => simp [ha] at h
          | some s =>
            simp [ha] at h
            have := baAppend_len ha
            obtain ⟨a1, a2⟩ := ih _ _ _ _ h
            refine ⟨a1, ?_⟩
            omega
        · rename_i hgt
          simp at hgt
          cases ha : baAppend seed (index <<< (8 - remaining)) with
          | none => simp [ha] at h
          | some s =>
            simp [ha, packLoop_zero] at h
            subst h
            have := baAppend_len ha
            simp [padBits]
            refine ⟨by omega, ?_⟩
            split <;> omega

/-- one word: 11 more bits, whatever the position in the last byte -/
theorem packIndex_size (st st' : Pack) (index L : Nat) (ho : st.offset < 8)
    (hL : 8 * st.seed.length = L + padBits st.offset) (h : packIndex st index = some st') :
    st'.offset < 8 ∧ 8 * st'.seed.length = L + 11 + padBits st'.offset := by
  obtain ⟨seed, off⟩ := st
  simp only [] at ho hL
  by_cases h0 : off = 0
  · subst h0
    obtain ⟨a1, a2⟩ := packLoop_size0 11 seed index 11 st' h
    simp [padBits] at hL
    exact ⟨a1, by omega⟩
  · unfold packIndex at h
    have hpos : (11 : Nat) > 0 := by omega
    have h' : packLoop (10 + 1) ⟨seed, off⟩ index 11 = some st' := h
    clear h
    rw [packLoop] at h'
    have h := h'
    simp only [hpos, if_true] at h
    have hne : ((11 : Nat) == 8 - off) = false := by simp; omega
    have hgt : (11 : Nat) > 8 - off := by omega
    have hn8 : ((8 - off) == 8) = false := by simp; omega
    simp only [hne, hgt, hn8, if_true, if_false, Bool.false_eq_true] at h
    cases ha : baOrLast seed (index >>> (11 - (8 - off))) with
    | none => simp [ha] at h
    | some s =>
      simp [ha] at h
      obtain ⟨l1, l2⟩ := baOrLast_len ha
      obtain ⟨a1, a2⟩ := packLoop_size0 _ _ _ _ _ h
      simp [padBits, h0] at hL
      exact ⟨a1, by omega⟩

theorem packWords_size {W : Type} [DecidableEq W] (wl : List W) : ∀ (ws : List W) (st st' : Pack) (L : Nat),
    st.offset < 8 → 8 * st.seed.length = L + padBits st.offset → packWords wl st ws = some st' →
    st'.offset < 8 ∧ 8 * st'.seed.length = L + 11 * ws.length + padBits st'.offset := by
  intro ws
  induction ws with
  | nil => intro st st' L ho hL h; simp [packWords] at h; subst h; exact ⟨ho, by simpa using hL⟩
  | cons w ws ih =>
    intro st st' L ho hL h
    simp only [packWords] at h
    cases hi : indexOf? wl w with
    | none => simp [hi] at h
    | some index =>
      simp [hi] at h
      cases hp : packIndex st index with
      | none => simp [hp] at h
      | some st1 =>
        simp [hp] at h
        obtain ⟨a1, a2⟩ := packIndex_size st st1 index L ho hL hp
        obtain ⟨b1, b2⟩ := ih st1 st' (L + 11) a1 a2 h
        refine ⟨b1, ?_⟩
        simp; omega

/-- **`mnemonic_to_bytes`: the result has at most 11 bits per word** (any word list, any hash) -/
theorem toBytes_bits {W : Type} [DecidableEq W] (sha256 : Bytes → Bytes) (wl : List W) (ign : Bool) (ws : List W)
    (data : Bytes) (h : toBytes sha256 wl ign ws = some data) : 8 * data.length ≤ 11 * ws.length := by
  unfold toBytes at h
  split at h
  · simp at h
  · rename_i hlen
    simp at hlen
    cases hp : packWords wl ⟨[], 0⟩ ws with
    | none => simp [hp] at h
    | some st =>
      obtain ⟨a1, a2⟩ := packWords_size wl ws ⟨[], 0⟩ st 0 (by simp) (by simp [padBits]) hp
      have hpad : padBits st.offset ≤ 7 := by
        unfold padBits; split <;> omega
      simp only [hp, Option.bind_eq_bind, Option.bind_some] at h
      rw [Option.bind_eq_some_iff] at h
      obtain ⟨c, _, hd⟩ := h
      have hcl : 1 ≤ (if (ws.length * 11 / 33 % 8 != 0) = true then (ws.length * 11 / 33 / 8 + 1, 8 - ws.length * 11 / 33 % 8)
              else (ws.length * 11 / 33 / 8, 0)).fst := by
        split
        · simp
        · rename_i hz
          simp at hz
          simp
          omega
      generalize (if (ws.length * 11 / 33 % 8 != 0) = true then (ws.length * 11 / 33 / 8 + 1, 8 - ws.length * 11 / 33 % 8)
              else (ws.length * 11 / 33 / 8, 0)).fst = cl at hd hcl
      split at hd
      · simp at hd
      · simp at hd
        subst hd
        unfold sliceToNeg
        split
        · simp
        · simp at a2 ⊢
          omega

end bip39

/-! ### SLIP39 -/
section slip39
open Embit.Model.Slip39

/-- **`Share.parse`: the iteration exponent has 5 bits, the share value at most 10 bits per word after the header** -/
theorem shareParse_bounds (indices : List Nat) (s : Share) (h : Share.parse indices = some s) :
    s.exponent < 32 ∧ 7 ≤ indices.length ∧ s.shareBitLength ≤ 10 * (indices.length - 7) ∧
    s.value < 2 ^ s.shareBitLength ∧ s.bytes.length * 8 ≤ 10 * indices.length := by
  unfold Share.parse at h
  split at h
  · simp at h
  · split at h
    · rename_i i0 i1 i2 i3 rest hver
      split at h
      · simp at h
      · rename_i hlen
        simp only [] at h
        split at h
        · simp at h
        · rename_i hv
          split at h
          · simp at h
          · split at h
            · simp at h
            · unfold Share.new? at h
              split at h
              · simp at h
                subst h
                simp only [headerOf, Share.bytes, beN_length]
                simp at hv hlen
                refine ⟨?_, by simpa using hlen, by simp; omega, ?_, by simp; omega⟩
                · have : i1 &&& 31 = i1 % 32 := Nat.and_two_pow_sub_one_eq_mod i1 5
                  rw [this]; omega
                · rw [Nat.shiftRight_eq_div_pow] at hv
                  exact (Nat.div_eq_zero_iff_lt (Nat.pow_pos (by decide))).mp hv
              · simp at h
    · simp at h

/-- **`_crypt` calls PBKDF2 only with the iteration count `2500·2^exponent` and `dklen = len(payload)/2`**: two
    primitives that agree on these parameters give the same result (one call per Feistel round: 4) -/
theorem crypt_pbkdf2_param (P P' : Prims) (payload : Bytes) (id exponent : Nat) (passphrase : Bytes) (indices : List UInt8)
    (hagree : ∀ pw salt, P.pbkdf2 pw salt (2500 <<< exponent) (payload.length / 2)
        = P'.pbkdf2 pw salt (2500 <<< exponent) (payload.length / 2)) :
    crypt P payload id exponent passphrase indices = crypt P' payload id exponent passphrase indices := by
  unfold crypt
  have hr : ∀ salt, feistelRound P salt passphrase (2500 <<< exponent) (payload.length / 2)
      = feistelRound P' salt passphrase (2500 <<< exponent) (payload.length / 2) := by
    intro salt; funext st i; simp [feistelRound, hagree]
  simp only [hr]

theorem iterations_eq (e : Nat) : 2500 <<< e = 2500 * 2 ^ e := Nat.shiftLeft_eq _ _

/-- `interpolate`: the result is never longer than the first share -/
theorem interpolate_length (x : Nat) (sd : List (Nat × Bytes)) :
    (interpolate x sd).length ≤ (match sd with | [] => 0 | s :: _ => s.2.length) := by
  unfold interpolate
  simp only []
  have key : ∀ (l : List (Nat × Bytes)) (init : Bytes) (f : Nat → Nat),
      (l.foldl (fun result s => List.zipWith (mixByte (f s.1)) s.2 result) init).length ≤ init.length := by
    intro l
    induction l with
    | nil => intro init f; simp
    | cons a l ih =>
      intro init f
      simp only [List.foldl_cons]
      have := ih (List.zipWith (mixByte (f a.1)) a.2 init) f
      simp at this ⊢
      omega
  cases sd with
  | nil => simp
  | cons s rest =>
    have := key (s :: rest) (List.replicate s.2.length 0) (fun sx => lagrangeLog x ((s :: rest).map (·.1)) sx)
    simpa using this

end slip39

end Embit.Model.Cost
