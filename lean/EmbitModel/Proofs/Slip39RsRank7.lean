import EmbitModel.Proofs.Slip39RsElim
/- RS1024 rank checks (kernel evaluation), part 7: all position triples whose largest offset is in [25, 24] -/
namespace Embit.Model.Slip39
set_option maxRecDepth 1000000 in
theorem tripleOk_25 : tripleOk 25 = true := by decide +kernel
set_option maxRecDepth 1000000 in
theorem tripleOk_24 : tripleOk 24 = true := by decide +kernel
end Embit.Model.Slip39
