import EmbitModel.Proofs.SecpCardBound
import EmbitModel.Proofs.SecpPrimes
/-
  The numerical facts about secp256k1 that the counting argument of `SecpCardBound` needs, each evaluated by the
  kernel on the 256-bit literals:

    3 ∣ p − 1,   p ∤ 7,   (−7)^((p−1)/3) mod p ≠ 1   (the model's `powMod`),   2p + 1 < 3n.

  Consequence: `−7` is not a cube modulo `p`, so `x³ + 7` has no root in `𝔽_p`, so the curve has no point with
  `y = 0`, i.e. no point of order two.
-/
namespace Embit.Model.PyCurve

local instance secp_p_fact : Fact secp256k1.p.Prime := ⟨Primes.secp256k1P_prime⟩

set_option maxRecDepth 100000 in
theorem secp256k1_p_mod3 : 3 ∣ secp256k1.p - 1 := by decide +kernel

set_option maxRecDepth 100000 in
theorem secp256k1_neg7_mod : (-7 : ℤ) % (secp256k1.p : ℤ) ≠ 0 := by decide +kernel

set_option maxRecDepth 100000 in
/-- `(−7)^((p−1)/3) mod p ≠ 1`: one 256-bit modular power, run by the kernel through the model's `powMod` -/
theorem secp256k1_neg7_pow : powMod (-7) ((secp256k1.p - 1) / 3) (secp256k1.p : ℤ) ≠ 1 := by decide +kernel

set_option maxRecDepth 100000 in
/-- `2p + 1 < 3n` -/
theorem secp256k1_3n : 2 * secp256k1.p + 1 < 3 * secp256k1N := by decide +kernel

theorem secp256k1_neg7_ne_zero : (((-7 : ℤ)) : ZMod secp256k1.p) ≠ 0 := by
  intro h
  rw [ZMod.intCast_zmod_eq_zero_iff_dvd] at h
  exact secp256k1_neg7_mod (Int.emod_eq_zero_of_dvd h)

/-- **`−7` is not a cube modulo `p`** -/
theorem secp256k1_neg7_not_cube (x : ZMod secp256k1.p) : x ^ 3 ≠ (((-7 : ℤ)) : ZMod secp256k1.p) :=
  not_cube secp256k1.p (-7) secp256k1_p_mod3 secp256k1_neg7_ne_zero secp256k1_neg7_pow x

/-- `x³ + a x + b = x³ + 7` has no root in `𝔽_p` -/
theorem secp256k1_no_root (x : ZMod secp256k1.p) :
    x ^ 3 + (secp256k1.a : ZMod secp256k1.p) * x + (secp256k1.b : ZMod secp256k1.p) ≠ 0 := by
  intro h
  apply secp256k1_neg7_not_cube x
  have ha : (secp256k1.a : ZMod secp256k1.p) = 0 := by
    show (((0 : ℤ)) : ZMod secp256k1.p) = 0
    exact Int.cast_zero
  have hb : (secp256k1.b : ZMod secp256k1.p) = 7 := by
    show (((7 : ℤ)) : ZMod secp256k1.p) = 7
    exact Int.cast_ofNat 7
  rw [ha, hb] at h
  push_cast
  linear_combination h

end Embit.Model.PyCurve
