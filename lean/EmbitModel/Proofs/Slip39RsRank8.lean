import EmbitModel.Proofs.Slip39RsElim
/- RS1024 rank checks (kernel evaluation), part 8: all position triples whose largest offset is in [23, 22, 17] -/
namespace Embit.Model.Slip39
set_option maxRecDepth 1000000 in
theorem tripleOk_23 : tripleOk 23 = true := by decide +kernel
set_option maxRecDepth 1000000 in
theorem tripleOk_22 : tripleOk 22 = true := by decide +kernel
set_option maxRecDepth 1000000 in
theorem tripleOk_17 : tripleOk 17 = true := by decide +kernel
end Embit.Model.Slip39
