import EmbitModel.Proofs.LiquidBalance
/-
  C18 (audit A9 / I-18.1): the balance equation tied to the fields `PSET.blind` STORES.

  `Props/C18.balance` speaks about `mkEntries A a.vals assets a.abfs (setLast a.vbfs lastVbf)` with a free list
  `assets`. Here the same algebra (`balance_algebra` + `ZkpLaws.blindSum`) is carried through the data flow of the model
  `blind`: the three argument lists are identified, entry by entry, with the input scopes that are counted and with the
  selected outputs of the RESULT (`res.filter selected`), whose stored `valueCommitment` bytes are parsed with the
  library's `pedersenCommitmentParse` and read as points (`storedPoint`).

  Hypotheses that are needed and why (all explicit):
  * `ZkpLaws Z A` (as before) and `ZkpSerLaws Z A`: parsing a serialised commitment gives back a representation of the
    same point (implied by `parse (serialise c) = some c`);
  * `∀ b, sha b ≠ []`: `blind` hands `factor or b"\x00"*32` to the blind-sum but the factor itself to
    `generator_generate_blinded` / `pedersen_commit`; the two agree iff the (hash-derived) factor is not empty;
  * `outs.all sel32`: every output that is blinded has a 32-byte asset. Otherwise `blind` silently leaves it out of the
    blind-sum lists while still counting it in `len(blinding_outs)`: the list entry `setLast` replaces is then NOT the
    factor of the last blinded output (`setLastVbf`) and the last input is taken for an output. The real wrapper
    `generator_generate_blinded` raises on such an asset, so for the real library success of `blind` implies it
    (`Props/C18Y.balance_stored_of_len`); a witness for the necessity is `Props/C18Y.balance_needs_sel32`.
-/
set_option linter.unusedSimpArgs false
set_option linter.unusedVariables false
namespace Embit
open Model

variable {R M : Type} [CommRing R] [AddCommGroup M] [Module R M]

/-- serialise-then-parse of a value commitment gives a representation of the same point -/
structure ZkpSerLaws (Z : Zkp) (A : ZkpAlg R M) : Prop where
  commitment : ∀ c s, Z.pedersenCommitmentSerialize c = some s →
    ∃ c', Z.pedersenCommitmentParse s = some c' ∧ A.point c' = A.point c

/-- the usual form of the law: `pedersen_commitment_parse(pedersen_commitment_serialize(c)) = c` -/
theorem ZkpSerLaws.of_parse_serialize (Z : Zkp) (A : ZkpAlg R M)
    (hps : ∀ c s, Z.pedersenCommitmentSerialize c = some s → Z.pedersenCommitmentParse s = some c) : ZkpSerLaws Z A :=
  ⟨fun c s h => ⟨c, hps c s h, rfl⟩⟩

/-- every output that `blind` blinds has a 32-byte asset (decidable) -/
def sel32 (o : BlindOut) : Bool := !o.selected || (o.asset.getD []).length == 32

/-- the asset `blind` reads for an input: `sc.asset or sc.utxo.asset` -/
def inAsset (i : BlindIn) : Bytes := (if truthyB i.asset then i.asset else i.utxoAsset).getD []

/-- an input scope as `blind` reads it — value, asset and factors STATED in the scope (or the explicit utxo), `none` =
    the scope is not counted (confidential without stated value, or asset not 32 bytes) -/
def inEntry (A : ZkpAlg R M) (i : BlindIn) : Option (Entry R) :=
  match sumEntryIn i with
  | some (some (v, a, b)) => some { v := v, asset := inAsset i, abf := A.scalar a, vbf := A.scalar b }
  | _ => none

def inEntries (A : ZkpAlg R M) (ins : List BlindIn) : List (Entry R) := ins.filterMap (inEntry A)

/-- an output scope as stated by its own fields (value, asset, abf, vbf) -/
def outEntry (A : ZkpAlg R M) (r : BlindOut) : Entry R :=
  { v := r.value.getD 0, asset := r.asset.getD [], abf := A.scalar (r.abf.getD []), vbf := A.scalar (r.vbf.getD []) }

/-- the point the STORED value commitment bytes of an output scope parse to (0 when absent / unparsable) -/
def storedPoint (Z : Zkp) (A : ZkpAlg R M) (r : BlindOut) : M :=
  match r.valueCommitment.bind Z.pedersenCommitmentParse with
  | some c => A.point c
  | none => 0

namespace BalLink

/-! ### list plumbing -/

theorem optAll_some {α : Type} : ∀ (l : List (Option α)) (r : List α), optAll l = some r → l = r.map some
  | [], r, h => by simp [optAll] at h; subst h; rfl
  | none :: _, r, h => by simp [optAll] at h
  | some x :: t, r, h => by
    simp only [optAll] at h
    split at h
    · simp at h
    · rename_i xs hxs
      simp at h; subst h
      simp [optAll_some t xs hxs]

theorem filterMap_id_map_some {α : Type} (r : List α) : (r.map some).filterMap id = r := by
  induction r with
  | nil => rfl
  | cons a t ih => simp [ih]

abbrev Trip := Nat × Bytes × Bytes

def termT (A : ZkpAlg R M) (e : Trip) : R := (e.1 : R) * A.scalar e.2.1 + A.scalar e.2.2

theorem termsOf_trips (A : ZkpAlg R M) (es : List Trip) :
    termsOf A (es.map (·.1)) (es.map (·.2.1)) (es.map (·.2.2)) = es.map (termT A) := by
  induction es with
  | nil => simp [termsOf]
  | cons e t ih => simp only [List.map_cons, termsOf, ih, termT]

theorem setLast_cons_ne (b : Bytes) (t : List Bytes) (x : Bytes) (h : t ≠ []) :
    setLast (b :: t) x = b :: setLast t x := by
  cases t with
  | nil => exact absurd rfl h
  | cons c u => simp [setLast]

theorem setLast_append_ne (s t : List Bytes) (x : Bytes) (h : t ≠ []) :
    setLast (s ++ t) x = s ++ setLast t x := by
  simp [setLast, List.dropLast_append_of_ne_nil h]

theorem setLast_length (t : List Bytes) (x : Bytes) (h : t ≠ []) : (setLast t x).length = t.length := by
  cases t with
  | nil => exact absurd rfl h
  | cons c u => simp [setLast]

/-! ### the first pass: what a selected output carries after `assignFactors` -/

/-- what `blind` relies on for an output it counts -/
structure GoodSel (o : BlindOut) : Prop where
  value : o.value.isSome = true
  asset32 : (o.asset.getD []).length = 32
  abf : ∃ x, o.abf = some x ∧ x ≠ []
  vbf : ∃ y, o.vbf = some y ∧ y ≠ []

theorem taggedHash_ne_nil (sha : Bytes → Bytes) (hsha : ∀ b, sha b ≠ []) (tag : String) (d : Bytes) :
    taggedHash sha tag d ≠ [] := by
  unfold taggedHash
  exact hsha _

theorem assignFactors_good (sha : Bytes → Bytes) (hsha : ∀ b, sha b ≠ []) (ts : Bytes) :
    ∀ (l : List BlindOut) (k : Nat), l.all sel32 = true →
      ∀ o1 ∈ assignFactors sha ts k l, o1.selected = true → GoodSel o1 := by
  intro l
  induction l with
  | nil => intro k _ o1 h; simp [assignFactors] at h
  | cons o r ih =>
    intro k h32 o1 hm hs
    simp only [List.all_cons, Bool.and_eq_true] at h32
    simp only [assignFactors, List.mem_cons] at hm
    rcases hm with rfl | hm
    · by_cases ho : o.selected = true
      · have h32o : (o.asset.getD []).length = 32 := by
          have := h32.1
          simp only [sel32, ho, Bool.not_true, Bool.false_or, beq_iff_eq] at this
          exact this
        have hv : o.value.isSome = true := by
          simp only [BlindOut.selected, Bool.and_eq_true] at ho
          exact ho.2
        simp only [ho, if_true]
        exact ⟨hv, h32o, ⟨_, rfl, taggedHash_ne_nil sha hsha _ _⟩, ⟨_, rfl, taggedHash_ne_nil sha hsha _ _⟩⟩
      · simp only [ho, if_false] at hs
        exact absurd hs ho
    · exact ih (k+1) h32.2 o1 hm hs

/-- the triple `blind` appends to `vals / abfs / vbfs` for a counted output -/
def trip (o : BlindOut) : Trip := (o.value.getD 0, o.abf.getD [], o.vbf.getD [])

theorem orZeros_some_ne (x : Bytes) (h : x ≠ []) : orZeros (some x) = x := by
  cases x with
  | nil => exact absurd rfl h
  | cons a t => simp [orZeros, truthyB]

theorem sumEntryOut_good (o : BlindOut) (g : GoodSel o) : sumEntryOut o = some (some (trip o)) := by
  obtain ⟨hv, h32, ⟨x, hx, hxn⟩, ⟨y, hy, hyn⟩⟩ := g
  obtain ⟨v, hv'⟩ := Option.isSome_iff_exists.mp hv
  cases ha : o.asset with
  | none => simp [ha] at h32
  | some a =>
    have hl : a.length = 32 := by simpa [ha] using h32
    have hne : a ≠ [] := by intro h; subst h; simp at hl
    have ht : truthyB (some a) = true := by
      cases a with
      | nil => exact absurd rfl hne
      | cons c u => simp [truthyB]
    unfold sumEntryOut
    simp only [hv', ha, ht, if_true, Option.getD_some, hl, hx, hy, orZeros_some_ne x hxn, orZeros_some_ne y hyn, trip]

theorem map_sumEntryOut_good (S : List BlindOut) (h : ∀ o ∈ S, GoodSel o) :
    S.map sumEntryOut = (S.map (fun o => some (trip o))).map some := by
  induction S with
  | nil => rfl
  | cons o t ih =>
    simp only [List.map_cons, List.map_map]
    rw [sumEntryOut_good o (h o (by simp)), ih (fun o' ho' => h o' (by simp [ho']))]
    simp

/-! ### the second pass: `setLastVbf` on the selected outputs -/

theorem selected_with_vbf (o : BlindOut) (v : Bytes) : ({ o with vbf := some v } : BlindOut).selected = o.selected := rfl

theorem filter_eq_nil_of_any_false (r : List BlindOut) (h : r.any BlindOut.selected = false) :
    r.filter BlindOut.selected = [] := by
  rw [List.filter_eq_nil_iff]
  intro a ha
  rw [List.any_eq_false] at h
  exact h a ha

/-- a function of an output that does not look at its value blinding factor sees no difference -/
theorem filter_setLastVbf_map {β : Type} (f : BlindOut → β) (v : Bytes)
    (hf : ∀ o : BlindOut, f { o with vbf := some v } = f o) (l : List BlindOut) :
    ((setLastVbf v l).filter BlindOut.selected).map f = (l.filter BlindOut.selected).map f := by
  induction l with
  | nil => rfl
  | cons o r ih =>
    simp only [setLastVbf]
    split
    · rename_i hc
      simp only [Bool.and_eq_true, Bool.not_eq_true'] at hc
      simp only [List.filter_cons, selected_with_vbf, hc.1, if_true, List.map_cons, hf]
    · by_cases ho : o.selected = true
      · simp only [List.filter_cons, ho, if_true, List.map_cons, ih]
      · have hf' : o.selected = false := by simpa using ho
        simp only [List.filter_cons, hf', Bool.false_eq_true, if_false, ih]

/-- THE COINCIDENCE the auditor asked for, on the selected outputs: replacing the factor of the last SELECTED output
    (`setLastVbf`) is replacing the LAST ENTRY (`setLast`) of the list of the selected outputs' factors -/
theorem filter_setLastVbf_vbf (v : Bytes) (l : List BlindOut) (h : l.any BlindOut.selected = true) :
    ((setLastVbf v l).filter BlindOut.selected).map (fun o => o.vbf.getD [])
      = setLast ((l.filter BlindOut.selected).map (fun o => o.vbf.getD [])) v := by
  induction l with
  | nil => simp at h
  | cons o r ih =>
    simp only [setLastVbf]
    split
    · rename_i hc
      simp only [Bool.and_eq_true, Bool.not_eq_true'] at hc
      simp only [List.filter_cons, selected_with_vbf, hc.1, if_true, List.map_cons,
        filter_eq_nil_of_any_false r hc.2, List.map_nil, Option.getD_some]
      rfl
    · rename_i hc
      by_cases ho : o.selected = true
      · have hr : r.any BlindOut.selected = true := by
          simp only [ho, Bool.true_and, Bool.not_eq_true', Bool.not_eq_false] at hc
          simpa using hc
        have hne : (r.filter BlindOut.selected).map (fun o => o.vbf.getD []) ≠ [] := by
          obtain ⟨x, hx, hxs⟩ := List.any_eq_true.mp hr
          intro hnil
          have : x ∈ r.filter BlindOut.selected := List.mem_filter.mpr ⟨hx, hxs⟩
          have hm := List.mem_map_of_mem (f := fun o : BlindOut => o.vbf.getD []) this
          rw [hnil] at hm
          simp at hm
        simp only [List.filter_cons, ho, if_true, List.map_cons, ih hr]
        rw [setLast_cons_ne _ _ _ hne]
      · have hr : r.any BlindOut.selected = true := by
          simp only [List.any_cons, Bool.or_eq_true] at h
          rcases h with h | h
          · exact absurd h ho
          · exact h
        have hf' : o.selected = false := by simpa using ho
        simp only [List.filter_cons, hf', Bool.false_eq_true, if_false, ih hr]

theorem setLastVbf_mem (v : Bytes) (l : List BlindOut) :
    ∀ o ∈ setLastVbf v l, ∃ o' ∈ l, o = o' ∨ o = { o' with vbf := some v } := by
  induction l with
  | nil => intro o h; simp [setLastVbf] at h
  | cons a r ih =>
    intro o h
    simp only [setLastVbf] at h
    split at h
    · simp only [List.mem_cons] at h
      rcases h with rfl | h
      · exact ⟨a, by simp, Or.inr rfl⟩
      · exact ⟨o, by simp [h], Or.inl rfl⟩
    · simp only [List.mem_cons] at h
      rcases h with rfl | h
      · exact ⟨o, by simp, Or.inl rfl⟩
      · obtain ⟨o', ho', hh⟩ := ih o h
        exact ⟨o', by simp [ho'], hh⟩

/-! ### the third pass: what `blindOne` stores -/

/-- as `blindOne_spec`, keeping the facts needed for the stored commitment: it IS present and it is the
    serialisation of the commitment to the output's own value under its own factors -/
theorem blindOne_stored_spec (Z : Zkp) (sha : Bytes → Bytes) (ts : Bytes) (tags gens abfs : List Bytes) (i : Nat)
    (o r : BlindOut) (h : blindOne Z sha ts tags gens abfs i o = some r) :
    (o.selected = false ∨ o.abf = none → r = o)
    ∧ (o.selected = true → o.abf.isSome = true →
        (r.spk = o.spk ∧ r.value = o.value ∧ r.asset = o.asset ∧ r.blindingPubkey = o.blindingPubkey
          ∧ r.abf = o.abf ∧ r.vbf = o.vbf)
        ∧ ∃ asset value abf vbf gen vc s, o.asset = some asset ∧ o.value = some value ∧ o.abf = some abf
            ∧ o.vbf = some vbf ∧ Z.generatorGenerateBlinded asset abf = some gen
            ∧ Z.pedersenCommit vbf value gen = some vc ∧ Z.pedersenCommitmentSerialize vc = some s
            ∧ r.valueCommitment = some s
            ∧ ∃ sa, Z.generatorSerialize gen = some sa ∧ r.assetCommitment = some sa) := by
  unfold blindOne at h
  split at h
  · rename_i bpk value abf hb hv ha
    refine ⟨?_, ?_⟩
    · intro hc
      rcases hc with hc | hc
      · simp [BlindOut.selected, hb, hv] at hc
      · simp [ha] at hc
    · intro _ _
      simp only [] at h
      repeat' (split at h)
      all_goals (try (simp at h; done))
      all_goals (
        obtain rfl := Option.some.inj h
        have hA := ‹o.asset = some _›
        have hG := ‹Z.generatorGenerateBlinded _ abf = some _›
        rw [hA] at hG
        refine ⟨⟨rfl, rfl, rfl, rfl, rfl, rfl⟩, ?_⟩
        exact ⟨_, _, _, _, _, _, _, hA, hv, ha, ‹o.vbf = some _›, by simpa using hG,
          ‹Z.pedersenCommit _ value _ = some _›, ‹Z.pedersenCommitmentSerialize _ = some _›, rfl,
          _, ‹Z.generatorSerialize _ = some _›, rfl⟩)
  · rename_i hno
    simp at h; subst h
    refine ⟨fun _ => rfl, ?_⟩
    intro hs ha
    exfalso
    simp only [BlindOut.selected, Bool.and_eq_true, Option.isSome_iff_exists] at hs
    obtain ⟨⟨b, hb⟩, ⟨v, hv⟩⟩ := hs
    obtain ⟨a, ha'⟩ := Option.isSome_iff_exists.mp ha
    exact hno b v a hb hv ha'

theorem blindOne_selected (Z : Zkp) (sha : Bytes → Bytes) (ts : Bytes) (tags gens abfs : List Bytes) (i : Nat)
    (o r : BlindOut) (h : blindOne Z sha ts tags gens abfs i o = some r) : r.selected = o.selected := by
  obtain ⟨h1, h2⟩ := blindOne_stored_spec Z sha ts tags gens abfs i o r h
  by_cases hs : o.selected = true
  · cases ha : o.abf with
    | none => rw [h1 (Or.inr ha)]
    | some x =>
      obtain ⟨⟨_, e2, _, e4, _, _⟩, _⟩ := h2 hs (by simp [ha])
      simp only [BlindOut.selected, e2, e4]
  · rw [h1 (Or.inl (by simpa using hs))]

theorem blindOne_outEntry (A : ZkpAlg R M) (Z : Zkp) (sha : Bytes → Bytes) (ts : Bytes) (tags gens abfs : List Bytes)
    (i : Nat) (o r : BlindOut) (h : blindOne Z sha ts tags gens abfs i o = some r) : outEntry A r = outEntry A o := by
  obtain ⟨h1, h2⟩ := blindOne_stored_spec Z sha ts tags gens abfs i o r h
  by_cases hs : o.selected = true
  · cases ha : o.abf with
    | none => rw [h1 (Or.inr ha)]
    | some x =>
      obtain ⟨⟨_, e2, e3, _, e5, e6⟩, _⟩ := h2 hs (by simp [ha])
      simp only [outEntry, e2, e3, e5, e6]
  · rw [h1 (Or.inl (by simpa using hs))]

/-- the commitment bytes stored by `blindOne` parse to the commitment of the output's own stated data -/
theorem blindOne_storedPoint {Z : Zkp} {A : ZkpAlg R M} (L : ZkpLaws Z A) (S : ZkpSerLaws Z A) (sha : Bytes → Bytes)
    (ts : Bytes) (tags gens abfs : List Bytes) (i : Nat) (o r : BlindOut)
    (h : blindOne Z sha ts tags gens abfs i o = some r) (hs : o.selected = true) (ha : o.abf.isSome = true) :
    ∃ s c, r.valueCommitment = some s ∧ Z.pedersenCommitmentParse s = some c
      ∧ A.point c = Entry.commit A (outEntry A r) ∧ storedPoint Z A r = Entry.commit A (outEntry A r) := by
  obtain ⟨_, h2⟩ := blindOne_stored_spec Z sha ts tags gens abfs i o r h
  obtain ⟨⟨_, e2, e3, _, e5, e6⟩, asset, value, abf, vbf, gen, vc, s, hA, hV, hab, hvb, hG, hC, hS, hR, _⟩ := h2 hs ha
  obtain ⟨c', hp, hpt⟩ := S.commitment vc s hS
  have hdec := commit_decodes L asset abf vbf gen vc value hG hC
  have he : outEntry A r = { v := value, asset := asset, abf := A.scalar abf, vbf := A.scalar vbf } := by
    simp only [outEntry, e2, e3, e5, e6, hA, hV, hab, hvb, Option.getD_some]
  refine ⟨s, c', hR, hp, ?_, ?_⟩
  · rw [hpt, hdec, he]
  · simp only [storedPoint, hR, Option.bind_some, hp]
    rw [hpt, hdec, he]

/-- the asset commitment bytes stored by `blindOne` parse to the generator `H(asset) + abf·G` of the output's own
    asset and stored factor, given the serialise / parse law for generators -/
theorem blindOne_storedGenerator {Z : Zkp} {A : ZkpAlg R M} (L : ZkpLaws Z A)
    (hgs : ∀ g s, Z.generatorSerialize g = some s → ∃ g', Z.generatorParse s = some g' ∧ A.point g' = A.point g)
    (sha : Bytes → Bytes) (ts : Bytes) (tags gens abfs : List Bytes) (i : Nat) (o r : BlindOut)
    (h : blindOne Z sha ts tags gens abfs i o = some r) (hs : o.selected = true) (ha : o.abf.isSome = true) :
    ∃ s g, r.assetCommitment = some s ∧ Z.generatorParse s = some g
      ∧ A.point g = A.H (r.asset.getD []) + A.scalar (r.abf.getD []) • A.G := by
  obtain ⟨_, h2⟩ := blindOne_stored_spec Z sha ts tags gens abfs i o r h
  obtain ⟨⟨_, _, e3, _, e5, _⟩, asset, value, abf, vbf, gen, vc, s, hA, _, hab, _, hG, _, _, _, sa, hSa, hRa⟩ := h2 hs ha
  obtain ⟨g', hp, hpt⟩ := hgs gen sa hSa
  refine ⟨sa, g', hRa, hp, ?_⟩
  rw [hpt, L.generator asset abf gen hG, e3, e5, hA, hab]
  rfl

theorem blindEach_mem (Z : Zkp) (sha : Bytes → Bytes) (ts : Bytes) (tags gens abfs : List Bytes) :
    ∀ (l res : List BlindOut) (k : Nat), blindEach Z sha ts tags gens abfs k l = some res →
      ∀ r ∈ res, ∃ i o, o ∈ l ∧ blindOne Z sha ts tags gens abfs i o = some r := by
  intro l
  induction l with
  | nil => intro res k h r hr; simp [blindEach] at h; subst h; simp at hr
  | cons o t ih =>
    intro res k h r hr
    simp only [blindEach] at h
    split at h
    · simp at h
    · rename_i o' ho'
      split at h
      · simp at h
      · rename_i t' ht'
        simp at h; subst h
        simp only [List.mem_cons] at hr
        rcases hr with rfl | hr
        · exact ⟨k, o, by simp, ho'⟩
        · obtain ⟨i, x, hx, hb⟩ := ih t' (k+1) ht' r hr
          exact ⟨i, x, by simp [hx], hb⟩

theorem blindEach_filter_outEntry (A : ZkpAlg R M) (Z : Zkp) (sha : Bytes → Bytes) (ts : Bytes)
    (tags gens abfs : List Bytes) :
    ∀ (l res : List BlindOut) (k : Nat), blindEach Z sha ts tags gens abfs k l = some res →
      (res.filter BlindOut.selected).map (outEntry A) = (l.filter BlindOut.selected).map (outEntry A) := by
  intro l
  induction l with
  | nil => intro res k h; simp [blindEach] at h; subst h; rfl
  | cons o t ih =>
    intro res k h
    simp only [blindEach] at h
    split at h
    · simp at h
    · rename_i o' ho'
      split at h
      · simp at h
      · rename_i t' ht'
        simp at h; subst h
        have hs := blindOne_selected Z sha ts tags gens abfs k o o' ho'
        have he := blindOne_outEntry A Z sha ts tags gens abfs k o o' ho'
        have := ih t' (k+1) ht'
        by_cases hso : o.selected = true
        · simp only [List.filter_cons, hs, hso, if_true, List.map_cons, he, this]
        · have hf' : o.selected = false := by simpa using hso
          simp only [List.filter_cons, hs, hf', Bool.false_eq_true, if_false, this]

/-! ### the blind-sum arguments -/

theorem sumArgs_unfold (ins : List BlindIn) (outs1 : List BlindOut) (a : SumArgs) (h : sumArgs ins outs1 = some a) :
    ∃ ei eo, optAll (ins.map sumEntryIn) = some ei
      ∧ optAll ((outs1.filter BlindOut.selected).map sumEntryOut) = some eo
      ∧ (outs1.filter BlindOut.selected).length ≤ ((ei ++ eo).filterMap id).length
      ∧ a = { vals := ((ei ++ eo).filterMap id).map (·.1), abfs := ((ei ++ eo).filterMap id).map (·.2.1),
              vbfs := ((ei ++ eo).filterMap id).map (·.2.2),
              nIn := ((ei ++ eo).filterMap id).length - (outs1.filter BlindOut.selected).length } := by
  unfold sumArgs at h
  simp only [] at h
  split at h
  · rename_i ei eo h1 h2
    split at h
    · simp at h
    · rename_i hlt
      refine ⟨ei, eo, h1, h2, by omega, ?_⟩
      exact (Option.some.inj h).symm
  · simp at h

theorem inEntries_terms (A : ZkpAlg R M) : ∀ (ins : List BlindIn) (ei : List (Option Trip)),
    ins.map sumEntryIn = ei.map some → (inEntries A ins).map Entry.term = (ei.filterMap id).map (termT A)
  | [], ei, h => by
    cases ei with
    | nil => rfl
    | cons e t => simp at h
  | i :: r, ei, h => by
    cases ei with
    | nil => simp at h
    | cons e t =>
      simp only [List.map_cons, List.cons.injEq] at h
      have ih := inEntries_terms A r t h.2
      unfold inEntries at ih ⊢
      cases e with
      | none =>
        have : inEntry A i = none := by simp [inEntry, h.1]
        simp only [List.filterMap_cons, this, id, ih]
      | some tr =>
        obtain ⟨v, a, b⟩ := tr
        have : inEntry A i = some { v := v, asset := inAsset i, abf := A.scalar a, vbf := A.scalar b } := by
          simp [inEntry, h.1]
        simp only [List.filterMap_cons, this, id, List.map_cons, ih]
        rfl

theorem inEntries_length (A : ZkpAlg R M) (ins : List BlindIn) (ei : List (Option Trip))
    (h : ins.map sumEntryIn = ei.map some) : (inEntries A ins).length = (ei.filterMap id).length := by
  have := congrArg List.length (inEntries_terms A ins ei h)
  simpa using this

/-- the data flow of the blind-sum call under the two side conditions: the argument lists are the counted inputs
    followed by exactly the selected outputs, and the list with its last entry replaced is the list of the selected
    outputs AFTER `setLastVbf` -/
theorem sumArgs_lists (A : ZkpAlg R M) (sha : Bytes → Bytes) (hsha : ∀ b, sha b ≠ []) (ts : Bytes) (ins : List BlindIn)
    (outs : List BlindOut) (h32 : outs.all sel32 = true) (a : SumArgs) (lv : Bytes)
    (ha : sumArgs ins (assignFactors sha ts 0 outs) = some a)
    (hany : (assignFactors sha ts 0 outs).any BlindOut.selected = true) :
    a.nIn = (inEntries A ins).length
    ∧ termsOf A a.vals a.abfs (setLast a.vbfs lv)
        = (inEntries A ins).map Entry.term
          ++ (((setLastVbf lv (assignFactors sha ts 0 outs)).filter BlindOut.selected).map (outEntry A)).map Entry.term
    ∧ a.vbfs.length = a.nIn + ((assignFactors sha ts 0 outs).filter BlindOut.selected).length
    ∧ (setLast a.vbfs lv).take a.nIn = a.vbfs.take a.nIn
    ∧ (setLast a.vbfs lv).drop a.nIn
        = ((setLastVbf lv (assignFactors sha ts 0 outs)).filter BlindOut.selected).map (fun o => o.vbf.getD []) := by
  generalize hO : assignFactors sha ts 0 outs = outs1 at *
  obtain ⟨ei, eo, h1, h2, hle, rfl⟩ := sumArgs_unfold ins outs1 a ha
  have hgood : ∀ o ∈ outs1.filter BlindOut.selected, GoodSel o := by
    intro o ho
    obtain ⟨hm, hs⟩ := List.mem_filter.mp ho
    rw [← hO] at hm
    exact assignFactors_good sha hsha ts outs 0 h32 o hm hs
  have hei := optAll_some _ _ h1
  have heo : eo = (outs1.filter BlindOut.selected).map (fun o => some (trip o)) := by
    have := optAll_some _ _ h2
    rw [map_sumEntryOut_good _ hgood] at this
    have h' := congrArg (List.filterMap id) this
    rw [filterMap_id_map_some, filterMap_id_map_some] at h'
    exact h'.symm
  set S := outs1.filter BlindOut.selected with hS
  have hes : (ei ++ eo).filterMap id = ei.filterMap id ++ S.map trip := by
    rw [List.filterMap_append, heo]
    congr 1
    induction S with
    | nil => rfl
    | cons o t ih => simp [ih]
  have hSne : S ≠ [] := by
    obtain ⟨x, hx, hxs⟩ := List.any_eq_true.mp hany
    intro hnil
    have : x ∈ S := List.mem_filter.mpr ⟨hx, hxs⟩
    rw [hnil] at this
    simp at this
  have hlenIn := inEntries_length A ins ei hei
  have hnIn : ((ei ++ eo).filterMap id).length - S.length = (ei.filterMap id).length := by
    rw [hes]; simp
  -- the three lists after `setLastVbf`
  set S2 := (setLastVbf lv outs1).filter BlindOut.selected with hS2
  have e1 : S2.map (fun o => o.value.getD 0) = S.map (fun o => o.value.getD 0) :=
    filter_setLastVbf_map _ lv (fun _ => rfl) outs1
  have e2 : S2.map (fun o => o.abf.getD []) = S.map (fun o => o.abf.getD []) :=
    filter_setLastVbf_map _ lv (fun _ => rfl) outs1
  have e3 : S2.map (fun o => o.vbf.getD []) = setLast (S.map (fun o => o.vbf.getD [])) lv :=
    filter_setLastVbf_vbf lv outs1 hany
  have hmne : S.map (fun o => o.vbf.getD []) ≠ [] := by
    intro hn; exact hSne (List.map_eq_nil_iff.mp hn)
  have hvb : setLast (((ei ++ eo).filterMap id).map (·.2.2)) lv
      = (ei.filterMap id).map (·.2.2) ++ S2.map (fun o => o.vbf.getD []) := by
    rw [hes, List.map_append, List.map_map]
    have : ((fun x : Trip => x.2.2) ∘ trip) = (fun o : BlindOut => o.vbf.getD []) := rfl
    rw [this, setLast_append_ne _ _ _ hmne, e3]
  refine ⟨?_, ?_, ?_, ?_, ?_⟩
  · simp only []
    rw [hnIn, hlenIn]
  · simp only []
    have hv : ((ei ++ eo).filterMap id).map (·.1) = ((ei.filterMap id ++ S2.map trip)).map (·.1) := by
      rw [hes, List.map_append, List.map_append, List.map_map, List.map_map]
      congr 1
      exact e1.symm
    have hab : ((ei ++ eo).filterMap id).map (·.2.1) = ((ei.filterMap id ++ S2.map trip)).map (·.2.1) := by
      rw [hes, List.map_append, List.map_append, List.map_map, List.map_map]
      congr 1
      exact e2.symm
    have hvb' : setLast (((ei ++ eo).filterMap id).map (·.2.2)) lv = ((ei.filterMap id ++ S2.map trip)).map (·.2.2) := by
      rw [hvb, List.map_append, List.map_map]
      rfl
    rw [hv, hab, hvb', termsOf_trips, List.map_append, inEntries_terms A ins ei hei, List.map_map, List.map_map]
    rfl
  · simp only []
    rw [hnIn, hes]
    simp
  · simp only []
    rw [hnIn, hvb, hes, List.map_append]
    rw [List.take_append_of_le_length (by simp), List.take_append_of_le_length (by simp)]
  · simp only []
    rw [hnIn, hvb]
    rw [List.drop_append_of_le_length (by simp)]
    simp

theorem blind_any (Z : Zkp) (sha : Bytes → Bytes) (seed : Bytes) (ins : List BlindIn) (outs res : List BlindOut)
    (h : blind Z sha seed ins outs = some res) :
    (assignFactors sha (txseed sha seed ins outs) 0 outs).any BlindOut.selected = true := by
  unfold blind at h
  simp only [] at h
  split at h
  · simp at h
  · rename_i hc
    simpa using hc

end BalLink

open BalLink in
/-- MAIN LINK (audit A9): from a successful `blind`, for the commitments it STORES. Every blinded output of the result
    carries value-commitment bytes that the library parses to the commitment of the output's own (value, asset, abf,
    vbf); and Σ commit(counted inputs, as stated in their scopes) − Σ point(parse(stored commitment)) over the blinded
    outputs of the result equals the difference of the plain amounts. -/
theorem balance_stored_of_blind {Z : Zkp} {A : ZkpAlg R M} (L : ZkpLaws Z A) (S : ZkpSerLaws Z A)
    (sha : Bytes → Bytes) (hsha : ∀ b, sha b ≠ []) (seed : Bytes) (ins : List BlindIn) (outs res : List BlindOut)
    (h : blind Z sha seed ins outs = some res) (h32 : outs.all sel32 = true) :
    (∀ r ∈ res, r.selected = true → ∃ s c, r.valueCommitment = some s ∧ Z.pedersenCommitmentParse s = some c
        ∧ A.point c = Entry.commit A (outEntry A r))
    ∧ ((inEntries A ins).map (Entry.commit A)).sum - ((res.filter BlindOut.selected).map (storedPoint Z A)).sum
        = ((inEntries A ins).map (Entry.plain A)).sum
          - ((res.filter BlindOut.selected).map (fun r => Entry.plain A (outEntry A r))).sum := by
  have hany := blind_any Z sha seed ins outs res h
  obtain ⟨a, lv, tags, gens, ha, hlv, _, he⟩ := blind_unfold Z sha seed ins outs res h
  generalize hts : txseed sha seed ins outs = ts at *
  obtain ⟨hnIn, hterms, _, _, _⟩ := sumArgs_lists A sha hsha ts ins outs h32 a lv ha hany
  -- every selected output handed to the third pass has its factor
  have habf : ∀ o ∈ setLastVbf lv (assignFactors sha ts 0 outs), o.selected = true → o.abf.isSome = true := by
    intro o ho hs
    obtain ⟨o', ho', hh⟩ := setLastVbf_mem lv _ o ho
    have hs' : o'.selected = true := by
      rcases hh with rfl | rfl
      · exact hs
      · exact hs
    obtain ⟨x, hx, _⟩ := (assignFactors_good sha hsha ts outs 0 h32 o' ho' hs').abf
    rcases hh with rfl | rfl
    · simp [hx]
    · simp [hx]
  have hstored : ∀ r ∈ res, r.selected = true → ∃ s c, r.valueCommitment = some s
      ∧ Z.pedersenCommitmentParse s = some c ∧ A.point c = Entry.commit A (outEntry A r)
      ∧ storedPoint Z A r = Entry.commit A (outEntry A r) := by
    intro r hr hs
    obtain ⟨i, o, ho, hb⟩ := blindEach_mem Z sha ts tags gens a.abfs _ res 0 he r hr
    have hso : o.selected = true := by rw [← blindOne_selected Z sha ts tags gens a.abfs i o r hb]; exact hs
    exact blindOne_storedPoint L S sha ts tags gens a.abfs i o r hb hso (habf o ho hso)
  refine ⟨fun r hr hs => ?_, ?_⟩
  · obtain ⟨s, c, h1, h2, h3, _⟩ := hstored r hr hs
    exact ⟨s, c, h1, h2, h3⟩
  · have hfe := blindEach_filter_outEntry A Z sha ts tags gens a.abfs _ res 0 he
    have hsum := L.blindSum a.vals a.abfs a.vbfs a.nIn lv hlv
    rw [hterms, hnIn] at hsum
    rw [List.take_append_of_le_length (by simp), List.drop_append_of_le_length (by simp)] at hsum
    rw [← hfe] at hsum
    have hT : (List.take (inEntries A ins).length (List.map Entry.term (inEntries A ins))) = List.map Entry.term (inEntries A ins) := by
      apply List.take_of_length_le; simp
    have hD : (List.drop (inEntries A ins).length (List.map Entry.term (inEntries A ins))) = [] := by
      apply List.drop_of_length_le; simp
    rw [hT, hD, List.nil_append] at hsum
    have hbal := balance_algebra A (inEntries A ins) ((res.filter BlindOut.selected).map (outEntry A)) hsum
    have hc : ((res.filter BlindOut.selected).map (outEntry A)).map (Entry.commit A)
        = (res.filter BlindOut.selected).map (storedPoint Z A) := by
      rw [List.map_map]
      apply List.map_congr_left
      intro r hr
      obtain ⟨hm, hs⟩ := List.mem_filter.mp hr
      obtain ⟨_, _, _, _, _, h4⟩ := hstored r hm hs
      exact h4.symm
    rw [hc, List.map_map] at hbal
    exact hbal

open BalLink in
/-- the asset commitments `blind` stores: parsed with the library's generator parser they are `H(asset) + abf·G` for the
    output's own asset and stored factor (no side condition on the assets is needed here) -/
theorem stored_generator_of_blind {Z : Zkp} {A : ZkpAlg R M} (L : ZkpLaws Z A)
    (hgs : ∀ g s, Z.generatorSerialize g = some s → ∃ g', Z.generatorParse s = some g' ∧ A.point g' = A.point g)
    (sha : Bytes → Bytes) (seed : Bytes) (ins : List BlindIn) (outs res : List BlindOut)
    (h : blind Z sha seed ins outs = some res) (r : BlindOut) (hr : r ∈ res) (hs : r.selected = true) :
    ∃ s g, r.assetCommitment = some s ∧ Z.generatorParse s = some g
      ∧ A.point g = A.H (r.asset.getD []) + A.scalar (r.abf.getD []) • A.G := by
  obtain ⟨a, lv, tags, gens, ha, hlv, _, he⟩ := blind_unfold Z sha seed ins outs res h
  generalize hts : txseed sha seed ins outs = ts at *
  obtain ⟨i, o, ho, hb⟩ := blindEach_mem Z sha ts tags gens a.abfs _ res 0 he r hr
  have hso : o.selected = true := by rw [← blindOne_selected Z sha ts tags gens a.abfs i o r hb]; exact hs
  have habf : o.abf.isSome = true := by
    obtain ⟨o', ho', hh⟩ := setLastVbf_mem lv _ o ho
    have hs' : o'.selected = true := by
      rcases hh with rfl | rfl
      · exact hso
      · exact hso
    obtain ⟨j, hj⟩ := List.getElem?_of_mem ho'
    rw [assignFactors_get] at hj
    cases hoj : outs[j]? with
    | none => simp [hoj] at hj
    | some oo =>
      simp only [hoj, Option.map_some, Option.some.injEq] at hj
      have hsel : oo.selected = true := by rw [← withFactors_selected sha ts (0 + j) oo, hj]; exact hs'
      have : o'.abf.isSome = true := by rw [← hj]; simp [withFactors, hsel]
      rcases hh with rfl | rfl
      · exact this
      · exact this
  exact blindOne_storedGenerator L hgs sha ts tags gens a.abfs i o r hb hso habf

/-! ### the input side

  `PSET.blind` takes the value, asset and both factors of an input from the fields STATED in the input scope (or from an
  explicit utxo); it never compares them with the utxo's commitments (nor does `PSET.verify`). So the commitments of
  the inputs enter `balance_stored_of_blind` as `Entry.commit` of the stated data. They can be replaced by the points
  of the utxo's own value field exactly when the stated data open it — the explicit hypothesis `InputsOpen`, which is
  what `LInputScope.unblind` establishes before it stores the fields (`Props/C18Y.input_opens_of_unblind`) and what
  holds for explicit utxos when the all-zero factor decodes to 0 (`input_opens_explicit`). -/

/-- the point an input's utxo carries in its value field: the parsed commitment bytes, or `v·H(asset)` for an explicit
    value (0 when absent / unparsable) -/
def utxoPoint (Z : Zkp) (A : ZkpAlg R M) (i : BlindIn) : M :=
  match i.utxoValue with
  | some (.conf b) => (match Z.pedersenCommitmentParse b with | some c => A.point c | none => 0)
  | some (.explicit v) => (v : R) • A.H (i.utxoAsset.getD [])
  | none => 0

/-- the inputs `blind` counts -/
def countedIns (A : ZkpAlg R M) (ins : List BlindIn) : List BlindIn := ins.filter (fun i => (inEntry A i).isSome)

/-- the stated (value, asset, abf, vbf) of every counted input open the value field of its utxo -/
def InputsOpen (Z : Zkp) (A : ZkpAlg R M) (ins : List BlindIn) : Prop :=
  ∀ i ∈ ins, ∀ e, inEntry A i = some e → utxoPoint Z A i = Entry.commit A e

theorem inEntries_commit_of_open (Z : Zkp) (A : ZkpAlg R M) : ∀ (ins : List BlindIn), InputsOpen Z A ins →
    (inEntries A ins).map (Entry.commit A) = (countedIns A ins).map (utxoPoint Z A)
  | [], _ => rfl
  | i :: r, h => by
    have ih := inEntries_commit_of_open Z A r (fun x hx e he => h x (by simp [hx]) e he)
    unfold inEntries countedIns at ih ⊢
    cases he : inEntry A i with
    | none => simp only [List.filterMap_cons, he, List.filter_cons, Option.isSome_none, Bool.false_eq_true, if_false, ih]
    | some e =>
      simp only [List.filterMap_cons, he, List.filter_cons, Option.isSome_some, if_true, List.map_cons, ih,
        h i (by simp) e he]

/-- an input spending an EXPLICIT utxo, nothing stated in the scope but (possibly) the same value: opens trivially,
    provided the all-zero factor `b"\x00"*32` decodes to the scalar 0 -/
theorem input_opens_explicit (Z : Zkp) (A : ZkpAlg R M) (hz : A.scalar zeros32 = 0) (i : BlindIn) (v : Nat)
    (hu : i.utxoValue = some (.explicit v)) (hv : i.value = none ∨ i.value = some v) (ha : truthyB i.asset = false)
    (hab : truthyB i.abf = false) (hvb : truthyB i.vbf = false) (e : Entry R) (he : inEntry A i = some e) :
    utxoPoint Z A i = Entry.commit A e := by
  cases hua : i.utxoAsset with
  | none =>
    have hs : sumEntryIn i = none := by
      unfold sumEntryIn
      rcases hv with hv | hv <;> simp only [hv, hu, ha, Bool.false_eq_true, if_false, hua]
    simp [inEntry, hs] at he
  | some a =>
    have hs : sumEntryIn i = (if a.length = 32 then some (some (v, zeros32, zeros32)) else some none) := by
      unfold sumEntryIn
      rcases hv with hv | hv <;> simp only [hv, hu, ha, Bool.false_eq_true, if_false, hua, orZeros, hab, hvb]
    unfold inEntry at he
    rw [hs] at he
    by_cases hl : a.length = 32
    · simp only [hl, if_true, Option.some.injEq] at he
      subst he
      simp only [utxoPoint, hu, hua, Option.getD_some, Entry.commit, inAsset, ha, Bool.false_eq_true, if_false,
        hz, zero_smul, add_zero]
    · simp [hl] at he

end Embit
