import EmbitModel.Spec.LiquidWire
import EmbitModel.Proofs.Tx
/-
  C18 helper lemmas, field level: every Liquid field codec is inverted by its reader on well-formed values, and
  every reader is sound (accepts only encodings of well-formed values).
-/
set_option linter.unusedSimpArgs false
set_option linter.unusedVariables false
namespace Embit
open Model Spec.LWire

/-! ### big-endian reads, single bytes -/

theorem beN_ofBe (x : Bytes) : beN x.length (ofBe x) = x := by
  have := leN_ofLe x.reverse
  simp only [List.length_reverse] at this
  simp [beN, ofBe, this]

theorem readBe_beN (k v : Nat) (r : Bytes) (h : v < 256 ^ k) :
    readBe k (beN k v ++ r) = some (v, r) := by
  have := takeN_append (beN k v) r
  simp only [beN_length] at this
  simp [readBe, this, ofBe_beN k v h]

theorem readBe_sound {k v : Nat} {b r : Bytes} (h : readBe k b = some (v, r)) :
    b = beN k v ++ r ∧ v < 256 ^ k := by
  unfold readBe at h
  split at h
  · rename_i x r' hx
    simp at h; obtain ⟨h1, h2⟩ := h; subst h1; subst h2
    obtain ⟨hb, hl⟩ := takeN_sound hx
    subst hl
    refine ⟨by rw [beN_ofBe]; exact hb, ?_⟩
    have := ofLe_lt x.reverse
    simpa [ofBe] using this
  · simp at h

theorem takeN_one_cons (c : UInt8) (r : Bytes) : takeN 1 (c :: r) = some ([c], r) := by
  simp [takeN]

theorem takeN_one_sound {b x r : Bytes} (h : takeN 1 b = some (x, r)) : ∃ c, x = [c] ∧ b = c :: r := by
  obtain ⟨hb, hl⟩ := takeN_sound h
  match x, hl with
  | [c], _ => exact ⟨c, rfl, by simpa using hb⟩

theorem takeN_len {n : Nat} (x r : Bytes) (h : x.length = n) : takeN n (x ++ r) = some (x, r) := by
  subst h; exact takeN_append x r

/-! ### commitments and issuance -/

theorem Commit.ser_eq (c : Commit) : Commit.ser c = encAmount c := by
  cases c <;> rfl

theorem Commit.read_ser (c : Commit) (r : Bytes) (h : WFCommit c) :
    Commit.read (Commit.ser c ++ r) = some (c, r) := by
  cases c with
  | null => simp [Commit.read, Commit.ser, takeN]
  | explicit v =>
    have := readBe_beN 8 v r (by simpa [WFCommit] using h)
    simp [Commit.read, Commit.ser, takeN, this]
  | conf b =>
    obtain ⟨hl, h0, h1⟩ := h
    match b, hl with
    | c :: t, hl =>
      have ht : t.length = 32 := by simpa using hl
      have hc0 : c ≠ 0 := by simpa using h0
      have hc1 : c ≠ 1 := by simpa using h1
      have := takeN_len t r ht
      simp [Commit.read, Commit.ser, takeN_one_cons, hc0, hc1, this]

theorem Commit.read_sound {b r : Bytes} {c : Commit} (h : Commit.read b = some (c, r)) :
    b = Commit.ser c ++ r ∧ WFCommit c := by
  unfold Commit.read at h
  split at h
  · simp at h
  · rename_i x r1 h1
    obtain ⟨c0, rfl, rfl⟩ := takeN_one_sound h1
    split at h
    · rename_i hz
      simp at h; obtain ⟨rfl, rfl⟩ := h
      simp at hz; subst hz
      simp [Commit.ser, WFCommit]
    · rename_i hz
      split at h
      · rename_i ho
        split at h
        · simp at h
        · rename_i v r' hv
          simp at h; obtain ⟨rfl, rfl⟩ := h
          obtain ⟨e, l⟩ := readBe_sound hv
          simp at ho; subst ho
          refine ⟨by simp [Commit.ser, e], by simpa [WFCommit] using l⟩
      · rename_i ho
        split at h
        · simp at h
        · rename_i x r' hx
          simp at h; obtain ⟨rfl, rfl⟩ := h
          obtain ⟨e, l⟩ := takeN_sound hx
          refine ⟨by simp [Commit.ser, e], ?_⟩
          simp at hz ho
          simp [WFCommit, l, hz, ho]

theorem Issuance.ser_eq (a : Issuance) : Issuance.ser a = encIssuance a := by
  simp [Issuance.ser, encIssuance, Commit.ser_eq]

theorem Issuance.read_ser (a : Issuance) (r : Bytes) (h : WFIssuance a) :
    Issuance.read (Issuance.ser a ++ r) = some (a, r) := by
  have t1 := takeN_len a.nonce (a.entropy ++ (Commit.ser a.amount ++ (Commit.ser a.token ++ r))) h.nonce
  have t2 := takeN_len a.entropy (Commit.ser a.amount ++ (Commit.ser a.token ++ r)) h.entropy
  have t3 := Commit.read_ser a.amount (Commit.ser a.token ++ r) h.amount
  have t4 := Commit.read_ser a.token r h.token
  simp only [Issuance.read, Issuance.ser, List.append_assoc, t1, t2, t3, t4]

theorem Issuance.read_sound {b r : Bytes} {a : Issuance} (h : Issuance.read b = some (a, r)) :
    b = Issuance.ser a ++ r ∧ WFIssuance a := by
  unfold Issuance.read at h
  split at h
  · simp at h
  · rename_i n r1 h1
    split at h
    · simp at h
    · rename_i e r2 h2
      split at h
      · simp at h
      · rename_i am r3 h3
        split at h
        · simp at h
        · rename_i tk r4 h4
          simp at h; obtain ⟨rfl, rfl⟩ := h
          obtain ⟨e1, l1⟩ := takeN_sound h1
          obtain ⟨e2, l2⟩ := takeN_sound h2
          obtain ⟨e3, l3⟩ := Commit.read_sound h3
          obtain ⟨e4, l4⟩ := Commit.read_sound h4
          exact ⟨by simp [Issuance.ser, e1, e2, e3, e4, List.append_assoc], ⟨l1, l2, l3, l4⟩⟩

/-! ### witnesses -/

theorem LInWitness.ser_eq (w : LInWitness) : LInWitness.ser w = encInWitness w := rfl
theorem LOutWitness.ser_eq (w : LOutWitness) : LOutWitness.ser w = encOutWitness w := rfl
theorem LInWitness.isEmpty_eq (w : LInWitness) : LInWitness.isEmpty w = inWitnessNull w := rfl
theorem LOutWitness.isEmpty_eq (w : LOutWitness) : LOutWitness.isEmpty w = outWitnessNull w := rfl

theorem LInWitness.read_ser (w : LInWitness) (r : Bytes) (h : WFInWitness w) :
    LInWitness.read (LInWitness.ser w ++ r) = some (w, r) := by
  have t1 := scriptRead_ser w.amountProof
    (scriptSer w.tokenProof ++ (witnessSer w.scriptWitness ++ (witnessSer w.peginWitness ++ r))) h.amountProof
  have t2 := scriptRead_ser w.tokenProof (witnessSer w.scriptWitness ++ (witnessSer w.peginWitness ++ r)) h.tokenProof
  have t3 := witnessRead_ser w.scriptWitness (witnessSer w.peginWitness ++ r) h.script.1 h.script.2
  have t4 := witnessRead_ser w.peginWitness r h.pegin.1 h.pegin.2
  simp only [LInWitness.read, LInWitness.ser, proofSer, proofRead, List.append_assoc, t1, t2, t3, t4]

theorem LInWitness.read_sound {b r : Bytes} {w : LInWitness} (h : LInWitness.read b = some (w, r)) :
    b = LInWitness.ser w ++ r ∧ WFInWitness w := by
  unfold LInWitness.read at h
  split at h
  · simp at h
  · rename_i a r1 h1
    split at h
    · simp at h
    · rename_i t r2 h2
      split at h
      · simp at h
      · rename_i s r3 h3
        split at h
        · simp at h
        · rename_i p r4 h4
          simp at h; obtain ⟨rfl, rfl⟩ := h
          obtain ⟨e1, l1⟩ := scriptRead_sound h1
          obtain ⟨e2, l2⟩ := scriptRead_sound h2
          obtain ⟨e3, l3, m3⟩ := witnessRead_sound h3
          obtain ⟨e4, l4, m4⟩ := witnessRead_sound h4
          exact ⟨by simp [LInWitness.ser, proofSer, e1, e2, e3, e4, List.append_assoc], ⟨l1, l2, ⟨l3, m3⟩, ⟨l4, m4⟩⟩⟩

theorem LOutWitness.read_ser (w : LOutWitness) (r : Bytes) (h : WFOutWitness w) :
    LOutWitness.read (LOutWitness.ser w ++ r) = some (w, r) := by
  have t1 := scriptRead_ser w.surjProof (scriptSer w.rangeProof ++ r) h.surj
  have t2 := scriptRead_ser w.rangeProof r h.range
  simp only [LOutWitness.read, LOutWitness.ser, proofSer, proofRead, List.append_assoc, t1, t2]

theorem LOutWitness.read_sound {b r : Bytes} {w : LOutWitness} (h : LOutWitness.read b = some (w, r)) :
    b = LOutWitness.ser w ++ r ∧ WFOutWitness w := by
  unfold LOutWitness.read at h
  split at h
  · simp at h
  · rename_i s r1 h1
    split at h
    · simp at h
    · rename_i p r2 h2
      simp at h; obtain ⟨rfl, rfl⟩ := h
      obtain ⟨e1, l1⟩ := scriptRead_sound h1
      obtain ⟨e2, l2⟩ := scriptRead_sound h2
      exact ⟨by simp [LOutWitness.ser, proofSer, e1, e2, List.append_assoc], ⟨l1, l2⟩⟩

/-! ### inputs -/


theorem LTxIn.read_ser (i : LTxIn) (r : Bytes) (h : WFIn i) :
    LTxIn.read (LTxIn.ser i ++ r) = some ({ i with witness := {} }, r) := by
  obtain ⟨txid, vout, ss, sq, pg, iss, wit⟩ := i
  have hx := h.txid; have hi := h.index; have hs := h.script; have hq := h.sequence; have ha := h.issuance
  simp only [WFIndex] at hx hi hs hq ha
  have h32 : (txid.reverse).length = 32 := by simp [hx]
  have t1 : ∀ rest, takeN 32 (txid.reverse ++ rest) = some (txid.reverse, rest) := fun rest => takeN_len _ rest h32
  have t3 : ∀ rest, scriptRead (scriptSer ss ++ rest) = some (ss, rest) := fun rest => scriptRead_ser ss rest hs
  have t4 : ∀ rest, readLe 4 (leN 4 sq ++ rest) = some (sq, rest) := fun rest => readLe_leN 4 sq rest (by omega)
  have t2 : ∀ w rest, w < 2^32 → readLe 4 (leN 4 w ++ rest) = some (w, rest) := fun w rest hw => readLe_leN 4 w rest (by omega)
  cases iss with
  | none =>
    cases pg with
    | false =>
      have hw : vout < 2^32 := by
        rcases hi with ⟨h1, _⟩ | ⟨h1, _⟩ <;> omega
      simp only [LTxIn.read, LTxIn.ser, LTxIn.wireVout, List.append_assoc, t1, Option.isSome_none, Bool.false_eq_true,
        if_false, Nat.add_zero, t2 _ _ hw, t3, t4, List.nil_append]
      rcases hi with ⟨h1, _⟩ | ⟨h1, _⟩
      · have a1 : vout ≠ 0xFFFFFFFF := by omega
        have a2 : ¬ (vout / 2^31 % 2 = 1) := by omega
        have a3 : vout % 2^30 = vout := by omega
        have a4 : ¬ (vout / 2^30 % 2 = 1) := by omega
        simp [a1, a2, a3, a4] <;> omega
      · simp [h1]
    | true =>
      rcases hi with ⟨h1, _⟩ | ⟨_, h2, _⟩
      · have hw : vout + 2^30 < 2^32 := by omega
        simp only [LTxIn.read, LTxIn.ser, LTxIn.wireVout, List.append_assoc, t1, Option.isSome_none, Bool.false_eq_true,
          if_false, if_true, Nat.add_zero, t2 _ _ hw, t3, t4, List.nil_append]
        have a1 : vout + 2^30 ≠ 0xFFFFFFFF := by omega
        have a2 : ¬ ((vout + 2^30) / 2^31 % 2 = 1) := by omega
        have a3 : (vout + 2^30) % 2^30 = vout := by omega
        have a4 : ((vout + 2^30) / 2^30 % 2 = 1) := by omega
        simp [a1, a2, a3, a4] <;> omega
      · simp at h2
  | some a =>
    have t5 : ∀ rest, Issuance.read (Issuance.ser a ++ rest) = some (a, rest) := fun rest =>
      Issuance.read_ser a rest (ha a rfl)
    cases pg with
    | false =>
      rcases hi with ⟨h1, _⟩ | ⟨_, _, h3⟩
      · have hw : vout + 2^31 < 2^32 := by omega
        simp only [LTxIn.read, LTxIn.ser, LTxIn.wireVout, List.append_assoc, t1, Option.isSome_some, Bool.false_eq_true,
          if_false, if_true, Nat.add_zero, t2 _ _ hw, t3, t4]
        have a1 : vout + 2^31 ≠ 0xFFFFFFFF := by omega
        have a2 : ((vout + 2^31) / 2^31 % 2 = 1) := by omega
        have a3 : (vout + 2^31) % 2^30 = vout := by omega
        have a4 : ¬ ((vout + 2^31) / 2^30 % 2 = 1) := by omega
        simp [a1, a2, a3, a4, t5] <;> omega
      · simp at h3
    | true =>
      rcases hi with ⟨h1, h2⟩ | ⟨_, _, h3⟩
      · have hne : vout ≠ 2^30 - 1 := by
          intro e; exact h2 ⟨e, rfl, rfl⟩
        have hw : vout + 2^31 + 2^30 < 2^32 := by omega
        simp only [LTxIn.read, LTxIn.ser, LTxIn.wireVout, List.append_assoc, t1, Option.isSome_some, Bool.false_eq_true,
          if_false, if_true, Nat.add_zero, t2 _ _ hw, t3, t4]
        have a1 : vout + 2^31 + 2^30 ≠ 0xFFFFFFFF := by omega
        have a2 : ((vout + 2^31 + 2^30) / 2^31 % 2 = 1) := by omega
        have a3 : (vout + 2^31 + 2^30) % 2^30 = vout := by omega
        have a4 : ((vout + 2^31 + 2^30) / 2^30 % 2 = 1) := by omega
        simp [a1, a2, a3, a4, t5] <;> omega
      · simp at h3


theorem wfInWitness_default : WFInWitness {} := ⟨by simp, by simp, ⟨by simp, by simp⟩, ⟨by simp, by simp⟩⟩

theorem LTxIn.read_sound {b r : Bytes} {i : LTxIn} (h : LTxIn.read b = some (i, r)) :
    b = LTxIn.ser i ++ r ∧ WFIn i ∧ i.witness = {} := by
  unfold LTxIn.read at h
  split at h
  · simp at h
  · rename_i t r1 h1
    split at h
    · simp at h
    · rename_i vout r2 h2
      split at h
      · simp at h
      · rename_i ss r3 h3
        split at h
        · simp at h
        · rename_i sq r4 h4
          obtain ⟨e1, l1⟩ := takeN_sound h1
          obtain ⟨e2, l2⟩ := readLe_sound h2
          obtain ⟨e3, l3⟩ := scriptRead_sound h3
          obtain ⟨e4, l4⟩ := readLe_sound h4
          have l2' : vout < 2^32 := by simpa using l2
          split at h
          · rename_i hcb
            simp at h; obtain ⟨rfl, rfl⟩ := h
            refine ⟨?_, ⟨by simp [l1], Or.inr ⟨hcb, rfl, rfl⟩, l3, by simpa using l4, by simp, wfInWitness_default⟩, rfl⟩
            simp [LTxIn.ser, LTxIn.wireVout, e1, e2, e3, e4, List.append_assoc]
          · rename_i hcb
            split at h
            · rename_i hiss
              split at h
              · simp at h
              · rename_i a r5 h5
                obtain ⟨e5, l5⟩ := Issuance.read_sound h5
                simp at h; obtain ⟨rfl, rfl⟩ := h
                refine ⟨?_, ⟨by simp [l1], Or.inl ⟨by simp; omega, ?_⟩, l3, by simpa using l4, ?_, wfInWitness_default⟩, rfl⟩
                · have hw : vout % 2^30 + 2^31 + (if decide (vout / 2^30 % 2 = 1) = true then 2^30 else 0) = vout := by
                    by_cases hp : vout / 2^30 % 2 = 1 <;> simp [hp] <;> omega
                  simp only [LTxIn.ser, LTxIn.wireVout, Option.isSome_some, if_true, hw]
                  simp [e1, e2, e3, e4, e5, List.append_assoc]
                · simp only [Option.isSome_some, and_true, decide_eq_true_eq]
                  omega
                · intro a' ha'; simp at ha'; subst ha'; exact l5
            · rename_i hiss
              simp at h; obtain ⟨rfl, rfl⟩ := h
              refine ⟨?_, ⟨by simp [l1], Or.inl ⟨by simp; omega, by simp⟩, l3, by simpa using l4, by simp, wfInWitness_default⟩, rfl⟩
              have hw : vout % 2^30 + 0 + (if decide (vout / 2^30 % 2 = 1) = true then 2^30 else 0) = vout := by
                by_cases hp : vout / 2^30 % 2 = 1 <;> simp [hp] <;> omega
              simp only [LTxIn.ser, LTxIn.wireVout, Option.isSome_none, Bool.false_eq_true, if_false, hw]
              simp [e1, e2, e3, e4, List.append_assoc]
/-! ### outputs -/


theorem normAsset_explicit (a : Bytes) (h : a.length = 32) : normAsset (1 :: a) = a := by
  simp [normAsset, h]

theorem normAsset_other (a : Bytes) (h : a.head? ≠ some 1) : normAsset a = a := by
  unfold normAsset
  split
  · rfl
  · rename_i c rest
    have : c ≠ 1 := by simpa using h
    simp [this]

/-- what the reader's normalisation returns is an asset the writer re-encodes to the bytes read -/
theorem normAsset_wf (a : Bytes) (h : a.length = 33) :
    WFAsset (normAsset a) ∧ (if (normAsset a).length = 32 then [1] else []) ++ normAsset a = a := by
  unfold normAsset
  split
  · simp at h
  · rename_i c rest
    have hr : rest.length = 32 := by simpa using h
    by_cases hc : c = 1
    · subst hc; simp [hr, WFAsset]
    · simp [hc, WFAsset, hr]

theorem LValue.ser_eq (v : LValue) : LValue.ser v = encValue v := by cases v <;> rfl
theorem nonceSer_eq (n : Option Bytes) (h : WFNonce n) : nonceSer n = encNonce n := by
  cases n with
  | none => rfl
  | some x =>
    have : x ≠ [] := by intro e; subst e; simp [WFNonce] at h
    simp [nonceSer, encNonce, this]

theorem readValueAfter_ser (v : LValue) (r : Bytes) (h : WFValue v) :
    ∃ c t, LValue.ser v = c :: t ∧ readValueAfter c (t ++ r) = some (v, r) := by
  cases v with
  | explicit x =>
    exact ⟨1, beN 8 x, rfl, by simp [readValueAfter, readBe_beN 8 x r (by simpa [WFValue] using h)]⟩
  | conf b =>
    obtain ⟨hl, h1⟩ := h
    match b, hl with
    | c :: t, hl =>
      have ht : t.length = 32 := by simpa using hl
      have hc1 : c ≠ 1 := by simpa using h1
      exact ⟨c, t, rfl, by simp [readValueAfter, hc1, takeN_len t r ht]⟩

theorem readValueAfter_sound {c : UInt8} {b r : Bytes} {v : LValue} (h : readValueAfter c b = some (v, r)) :
    c :: b = LValue.ser v ++ r ∧ WFValue v := by
  unfold readValueAfter at h
  split at h
  · rename_i hc
    subst hc
    split at h
    · simp at h
    · rename_i x r' hx
      simp at h; obtain ⟨rfl, rfl⟩ := h
      obtain ⟨ex, lx⟩ := readBe_sound hx
      exact ⟨by simp [LValue.ser, ex], by simpa [WFValue] using lx⟩
  · rename_i hc
    split at h
    · simp at h
    · rename_i x r' hx
      simp at h; obtain ⟨rfl, rfl⟩ := h
      obtain ⟨ex, lx⟩ := takeN_sound hx
      exact ⟨by simp [LValue.ser, ex], by simp [WFValue, lx, hc]⟩

theorem readNonceAfter_ser (n : Option Bytes) (r : Bytes) (h : WFNonce n) :
    ∃ c t, nonceSer n = c :: t ∧ readNonceAfter c (t ++ r) = some (n, r) := by
  cases n with
  | none => exact ⟨0, [], rfl, by simp [readNonceAfter]⟩
  | some x =>
    obtain ⟨hl, h0⟩ := h
    match x, hl with
    | c :: t, hl =>
      have ht : t.length = 32 := by simpa using hl
      have hc0 : c ≠ 0 := by simpa using h0
      exact ⟨c, t, by simp [nonceSer], by simp [readNonceAfter, hc0, takeN_len t r ht]⟩

theorem readNonceAfter_sound {c : UInt8} {b r : Bytes} {n : Option Bytes} (h : readNonceAfter c b = some (n, r)) :
    c :: b = nonceSer n ++ r ∧ WFNonce n := by
  unfold readNonceAfter at h
  split at h
  · rename_i hc
    subst hc
    simp at h; obtain ⟨rfl, rfl⟩ := h
    simp [nonceSer, WFNonce]
  · rename_i hc
    split at h
    · simp at h
    · rename_i x r' hx
      simp at h; obtain ⟨rfl, rfl⟩ := h
      obtain ⟨ex, lx⟩ := takeN_sound hx
      exact ⟨by simp [nonceSer, ex], by simp [WFNonce, lx, hc]⟩

theorem LTxOut.read_ser (o : LTxOut) (r : Bytes) (h : WFOut o) :
    LTxOut.read (LTxOut.ser o ++ r) = some ({ o with witness := {} }, r) := by
  obtain ⟨asset, value, nonce, spk, wit⟩ := o
  have ha := h.asset; have hv := h.value; have hn := h.nonce; have hs := h.script
  simp only at ha hv hn hs
  have t4 : scriptRead (scriptSer spk ++ r) = some (spk, r) := scriptRead_ser spk r hs
  have hA : ∃ a33 : Bytes, a33.length = 33 ∧ (if asset.length = 32 then [1] else []) ++ asset = a33 ∧ normAsset a33 = asset := by
    rcases ha with h32 | ⟨h33, hh⟩
    · exact ⟨1 :: asset, by simp [h32], by simp [h32], normAsset_explicit asset h32⟩
    · exact ⟨asset, h33, by simp [h33], normAsset_other asset hh⟩
  obtain ⟨a33, la, ea, na⟩ := hA
  have t1 : ∀ rest, takeN 33 (a33 ++ rest) = some (a33, rest) := fun rest => takeN_len a33 rest la
  obtain ⟨c2, tn, en, rn⟩ := readNonceAfter_ser nonce (scriptSer spk ++ r) hn
  obtain ⟨c1, tv, ev, rv⟩ := readValueAfter_ser value (c2 :: (tn ++ (scriptSer spk ++ r))) hv
  have e : LTxOut.ser { asset := asset, value := value, nonce := nonce, spk := spk, witness := wit } ++ r
      = a33 ++ (c1 :: (tv ++ (c2 :: (tn ++ (scriptSer spk ++ r))))) := by
    simp only [LTxOut.ser, List.append_assoc]
    rw [en, ev, ← List.append_assoc, ea]
    simp
  rw [e]
  simp only [LTxOut.read, t1, rv, rn, t4, na]

theorem LTxOut.read_sound {b r : Bytes} {o : LTxOut} (h : LTxOut.read b = some (o, r)) :
    b = LTxOut.ser o ++ r ∧ WFOut o ∧ o.witness = {} := by
  unfold LTxOut.read at h
  split at h
  · simp at h
  · rename_i a r1 h1
    obtain ⟨e1, l1⟩ := takeN_sound h1
    split at h
    · simp at h
    · rename_i c1 r2
      split at h
      · simp at h
      · rename_i v r3 hv
        obtain ⟨ev, wv⟩ := readValueAfter_sound hv
        split at h
        · simp at h
        · rename_i c2 r4
          split at h
          · simp at h
          · rename_i n r5 hn
            obtain ⟨en, wn⟩ := readNonceAfter_sound hn
            split at h
            · simp at h
            · rename_i s r6 h6
              obtain ⟨e6, l6⟩ := scriptRead_sound h6
              simp at h; obtain ⟨rfl, rfl⟩ := h
              obtain ⟨wa, ea⟩ := normAsset_wf a l1
              refine ⟨?_, ⟨wa, wv, wn, l6, ⟨by simp, by simp⟩⟩, rfl⟩
              simp only [LTxOut.ser, List.append_assoc]
              rw [← List.append_assoc, ea, e1, ev, en, e6]

end Embit
