import EmbitModel.Proofs.Tx
/-
  C03 main lemmas: `Tx.read` inverts `Tx.ser` on well-formed transactions and accepts nothing else.
-/
namespace Embit
open Model Spec.Wire

def clearWitness (i : TxIn) : TxIn := { i with witness := [] }

theorem setWitnesses_clear (vin : List TxIn) :
    setWitnesses (vin.map clearWitness) (vin.map (·.witness)) = vin := by
  induction vin with
  | nil => rfl
  | cons i is ih => simp [setWitnesses, clearWitness, ih]

theorem setWitnesses_props (vin : List TxIn) (wits : List (List Bytes))
    (hl : wits.length = vin.length)
    (hv : ∀ i ∈ vin, WFIn i ∧ i.witness = [])
    (hw : ∀ w ∈ wits, w.length < 2^64 ∧ ∀ d ∈ w, d.length < 2^64) :
    (setWitnesses vin wits).length = vin.length
    ∧ (setWitnesses vin wits).flatMap TxIn.ser = vin.flatMap TxIn.ser
    ∧ (setWitnesses vin wits).flatMap (fun i => witnessSer i.witness) = wits.flatMap witnessSer
    ∧ ∀ i ∈ setWitnesses vin wits, WFIn i := by
  induction vin generalizing wits with
  | nil =>
    cases wits with
    | nil => simp [setWitnesses]
    | cons w ws => simp at hl
  | cons i is ih =>
    cases wits with
    | nil => simp at hl
    | cons w ws =>
      simp only [List.length_cons, Nat.add_right_cancel_iff] at hl
      obtain ⟨h1, h2, h3, h4⟩ := ih ws hl (fun j hj => hv j (by simp [hj]))
        (fun x hx => hw x (by simp [hx]))
      obtain ⟨wfi, _⟩ := hv i (by simp)
      obtain ⟨wl, wi⟩ := hw w (by simp)
      refine ⟨by simp [setWitnesses, h1], ?_, ?_, ?_⟩
      · simp [setWitnesses, h2, TxIn.ser]
      · simp [setWitnesses, h3]
      · intro j hj
        simp [setWitnesses] at hj
        rcases hj with rfl | hj
        · exact ⟨wfi.txid, wfi.vout, wfi.script, wfi.sequence, wl, wi⟩
        · exact h4 j hj

theorem Tx.read_ser (t : Tx) (r : Bytes) (h : WF t) : Tx.read (Tx.ser t ++ r) = some (t, r) := by
  have hver : ∀ r, readLe 4 (leN 4 t.version ++ r) = some (t.version, r) := fun r =>
    readLe_leN 4 t.version r (by have := h.version; omega)
  have hvin : ∀ r, readMany TxIn.read t.vin.length (t.vin.flatMap TxIn.ser ++ r)
      = some (t.vin.map clearWitness, r) := fun r =>
    readMany_enc_map TxIn.read TxIn.ser clearWitness t.vin r
      (fun i hi r => TxIn.read_ser i r (h.ins i hi))
  have hvout : ∀ r, readMany TxOut.read t.vout.length (t.vout.flatMap TxOut.ser ++ r)
      = some (t.vout, r) := fun r =>
    readMany_enc TxOut.read TxOut.ser t.vout r (fun o ho r => TxOut.read_ser o r (h.outs o ho))
  have hn0 : t.vin.length ≠ 0 := by have := h.nin; omega
  cases hs : Tx.isSegwit t with
  | false =>
    have hnowit : t.vin.map clearWitness = t.vin := by
      have : ∀ i ∈ t.vin, clearWitness i = i := by
        intro i hi
        have : TxIn.isSegwit i = false := by
          unfold Tx.isSegwit at hs
          rw [List.any_eq_false] at hs
          simpa using hs i hi
        rw [TxIn.isSegwit_iff] at this
        simp at this
        cases i; simp_all [clearWitness]
      calc t.vin.map clearWitness = t.vin.map id := List.map_congr_left this
        _ = t.vin := List.map_id _
    simp only [Tx.ser, hs, Tx.read, List.append_assoc, Bool.false_eq_true, if_false,
      hver, Compact.read_enc _ _ h.ninLt, hn0, hvin,
      Compact.read_enc _ _ h.noutLt, hvout, readLe_leN 4 t.locktime r (by have := h.locktime; omega),
      hnowit, List.append_nil]
  | true =>
    have hw : ∀ r, readMany witnessRead (t.vin.map clearWitness).length
        (t.vin.flatMap (fun i => witnessSer i.witness) ++ r) = some (t.vin.map (·.witness), r) := by
      intro r
      have := readMany_enc witnessRead witnessSer (t.vin.map (·.witness)) r
        (fun w hw r => by
          simp at hw
          obtain ⟨i, hi, rfl⟩ := hw
          exact witnessRead_ser _ r (h.ins i hi).witCount (h.ins i hi).witItems)
      simpa [List.flatMap_map] using this
    have hs' : (t.vin.any TxIn.isSegwit) = true := hs
    simp only [Tx.ser, hs, Tx.read, List.append_assoc, if_true,
      hver, List.cons_append, List.nil_append]
    have c0 : Compact.read (0 :: 1 :: (Compact.enc t.vin.length ++ (t.vin.flatMap TxIn.ser ++
        (Compact.enc t.vout.length ++ (t.vout.flatMap TxOut.ser ++
        (t.vin.flatMap (fun i => witnessSer i.witness) ++ (leN 4 t.locktime ++ r)))))))
        = some (0, 1 :: (Compact.enc t.vin.length ++ (t.vin.flatMap TxIn.ser ++
        (Compact.enc t.vout.length ++ (t.vout.flatMap TxOut.ser ++
        (t.vin.flatMap (fun i => witnessSer i.witness) ++ (leN 4 t.locktime ++ r))))))) := by
      simp [Compact.read]
    simp only [c0, if_true, takeN, List.length_cons]
    simp only [Nat.le_add_left, if_true, List.take_succ_cons, List.take_zero, List.drop_succ_cons,
      List.drop_zero, ne_eq, not_true_eq_false, if_false,
      Compact.read_enc _ _ h.ninLt, hvin, Compact.read_enc _ _ h.noutLt, hvout, hw,
      setWitnesses_clear, hs', Bool.not_true, Bool.false_eq_true,
      readLe_leN 4 t.locktime r (by have := h.locktime; omega)]

theorem Tx.read_sound {b r : Bytes} {t : Tx} (h : Tx.read b = some (t, r)) :
    b = Tx.ser t ++ r ∧ WF t := by
  unfold Tx.read at h
  split at h
  · simp at h
  · rename_i ver r1 h1
    obtain ⟨e1, l1⟩ := readLe_sound h1
    split at h
    · simp at h
    · rename_i n0 r2 h2
      obtain ⟨e2, l2⟩ := Compact.read_sound h2
      split at h
      · rename_i hn0
        subst hn0
        split at h
        · simp at h
        · rename_i flag r3 h3
          obtain ⟨e3, l3⟩ := takeN_sound h3
          split at h
          · simp at h
          · rename_i hflag
            simp only [ne_eq, Decidable.not_not] at hflag
            subst hflag
            split at h
            · simp at h
            · rename_i n r4 h4
              obtain ⟨e4, l4⟩ := Compact.read_sound h4
              split at h
              · simp at h
              · rename_i vin r5 h5
                obtain ⟨e5, l5, a5⟩ := readMany_sound TxIn.read TxIn.ser
                  (fun i => WFIn i ∧ i.witness = []) (fun b x r hx => TxIn.read_sound hx) _ _ _ _ h5
                split at h
                · simp at h
                · rename_i m r6 h6
                  obtain ⟨e6, l6⟩ := Compact.read_sound h6
                  split at h
                  · simp at h
                  · rename_i vout r7 h7
                    obtain ⟨e7, l7, a7⟩ := readMany_sound TxOut.read TxOut.ser WFOut
                      (fun b x r hx => TxOut.read_sound hx) _ _ _ _ h7
                    split at h
                    · simp at h
                    · rename_i wits r8 h8
                      obtain ⟨e8, l8, a8⟩ := readMany_sound witnessRead witnessSer
                        (fun w => w.length < 2^64 ∧ ∀ d ∈ w, d.length < 2^64)
                        (fun b x r hx => by
                          obtain ⟨p1, p2, p3⟩ := witnessRead_sound hx; exact ⟨p1, p2, p3⟩) _ _ _ _ h8
                      obtain ⟨s1, s2, s3, s4⟩ := setWitnesses_props vin wits l8 a5 a8
                      simp only at h
                      split at h
                      · simp at h
                      · rename_i hseg
                        simp only [Bool.not_eq_true, Bool.not_eq_false'] at hseg
                        split at h
                        · simp at h
                        · rename_i lt r9 h9
                          obtain ⟨e9, l9⟩ := readLe_sound h9
                          simp at h
                          obtain ⟨ht, hr⟩ := h
                          subst ht; subst hr
                          have hseg' : Tx.isSegwit
                            { version := ver, vin := setWitnesses vin wits, vout := vout, locktime := lt }
                              = true := by simpa [Tx.isSegwit] using hseg
                          have hne : vin.length ≠ 0 := by
                            intro h0
                            have : setWitnesses vin wits = [] := by
                              apply List.eq_nil_of_length_eq_zero; omega
                            rw [this] at hseg
                            simp at hseg
                          refine ⟨?_, ⟨by simpa using l1, by simpa using l9, by simp [s1]; omega,
                            by simp [s1, l5]; exact l4, by simp [l7]; exact l6, s4, a7⟩⟩
                          simp only [Tx.ser, hseg', if_true, s1, s2, s3, List.append_assoc]
                          subst l5; subst l7
                          simp [e1, e2, e3, e4, e5, e6, e7, e8, e9, Compact.enc]
      · rename_i hn0
        split at h
        · simp at h
        · rename_i vin r5 h5
          obtain ⟨e5, l5, a5⟩ := readMany_sound TxIn.read TxIn.ser
            (fun i => WFIn i ∧ i.witness = []) (fun b x r hx => TxIn.read_sound hx) _ _ _ _ h5
          split at h
          · simp at h
          · rename_i m r6 h6
            obtain ⟨e6, l6⟩ := Compact.read_sound h6
            split at h
            · simp at h
            · rename_i vout r7 h7
              obtain ⟨e7, l7, a7⟩ := readMany_sound TxOut.read TxOut.ser WFOut
                (fun b x r hx => TxOut.read_sound hx) _ _ _ _ h7
              split at h
              · simp at h
              · rename_i lt r9 h9
                obtain ⟨e9, l9⟩ := readLe_sound h9
                simp at h
                obtain ⟨ht, hr⟩ := h
                subst ht; subst hr
                have hseg : Tx.isSegwit
                    { version := ver, vin := vin, vout := vout, locktime := lt } = false := by
                  simp only [Tx.isSegwit, List.any_eq_false]
                  intro i hi
                  rw [TxIn.isSegwit_iff, (a5 i hi).2]; simp
                refine ⟨?_, ⟨by simpa using l1, by simpa using l9, by simp; omega,
                  by simp [l5]; exact l2, by simp [l7]; exact l6, fun i hi => (a5 i hi).1, a7⟩⟩
                simp only [Tx.ser, hseg, List.append_assoc]
                subst l5; subst l7
                simp [e1, e2, e5, e6, e7, e9]

end Embit
