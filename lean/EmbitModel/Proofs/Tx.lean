import EmbitModel.Spec.Wire
/-
  Helper lemmas for C03: each field codec is inverted by its reader, and each reader is sound
  (accepts only encodings of well-formed values).
-/
namespace Embit
open Model Spec.Wire

theorem scriptSer_eq (d : Bytes) : scriptSer d = varStr d := rfl

theorem scriptRead_ser (d r : Bytes) (h : d.length < 2^64) :
    scriptRead (scriptSer d ++ r) = some (d, r) := by
  simp [scriptRead, scriptSer, List.append_assoc, Compact.read_enc _ _ h, takeN_append]

theorem scriptRead_sound {b d r : Bytes} (h : scriptRead b = some (d, r)) :
    b = scriptSer d ++ r ∧ d.length < 2^64 := by
  unfold scriptRead at h
  split at h
  · rename_i l r1 hl
    obtain ⟨hb, hlt⟩ := Compact.read_sound hl
    obtain ⟨hr, hlen⟩ := takeN_sound h
    subst hlen
    refine ⟨?_, hlt⟩
    simp [scriptSer, hb, hr, List.append_assoc]
  · simp at h

theorem witnessRead_ser (w : List Bytes) (r : Bytes) (hn : w.length < 2^64)
    (hi : ∀ d ∈ w, d.length < 2^64) :
    witnessRead (witnessSer w ++ r) = some (w, r) := by
  simp only [witnessRead, witnessSer, List.append_assoc, Compact.read_enc _ _ hn]
  exact readMany_enc scriptRead scriptSer w r (fun d hd r => scriptRead_ser d r (hi d hd))

theorem witnessRead_sound {b r : Bytes} {w : List Bytes} (h : witnessRead b = some (w, r)) :
    b = witnessSer w ++ r ∧ w.length < 2^64 ∧ ∀ d ∈ w, d.length < 2^64 := by
  unfold witnessRead at h
  split at h
  · rename_i n r1 hn
    obtain ⟨hb, hlt⟩ := Compact.read_sound hn
    obtain ⟨hr, hlen, hall⟩ :=
      readMany_sound scriptRead scriptSer (fun d => d.length < 2^64)
        (fun b x r hx => scriptRead_sound hx) _ _ _ _ h
    subst hlen
    refine ⟨?_, hlt, hall⟩
    simp [witnessSer, hb, hr, List.append_assoc]
  · simp at h

theorem TxIn.ser_eq (i : TxIn) : TxIn.ser i = encIn i := by
  simp [TxIn.ser, encIn, outpoint, scriptSer, varStr, List.append_assoc]

theorem TxOut.ser_eq (o : TxOut) : TxOut.ser o = encOut o := rfl

theorem witnessSer_eq (w : List Bytes) : witnessSer w = encWitness w := rfl

theorem TxIn.read_ser (i : TxIn) (r : Bytes) (h : WFIn i) :
    TxIn.read (TxIn.ser i ++ r) = some ({ i with witness := [] }, r) := by
  have h32 : (i.txid.reverse).length = 32 := by simp [h.txid]
  have t1 := takeN_append i.txid.reverse
    (leN 4 i.vout ++ (scriptSer i.scriptSig ++ (leN 4 i.sequence ++ r)))
  rw [h32] at t1
  have t2 := readLe_leN 4 i.vout (scriptSer i.scriptSig ++ (leN 4 i.sequence ++ r))
    (by have := h.vout; omega)
  have t3 := scriptRead_ser i.scriptSig (leN 4 i.sequence ++ r) h.script
  have t4 := readLe_leN 4 i.sequence r (by have := h.sequence; omega)
  simp only [TxIn.read, TxIn.ser, List.append_assoc, t1, t2, t3, t4, List.reverse_reverse]

theorem TxIn.read_sound {b r : Bytes} {i : TxIn} (h : TxIn.read b = some (i, r)) :
    b = TxIn.ser i ++ r ∧ WFIn i ∧ i.witness = [] := by
  unfold TxIn.read at h
  split at h
  · simp at h
  · rename_i t r1 h1
    split at h
    · simp at h
    · rename_i vout r2 h2
      split at h
      · simp at h
      · rename_i ss r3 h3
        split at h
        · simp at h
        · rename_i sq r4 h4
          simp at h
          obtain ⟨hi, hr⟩ := h; subst hi; subst hr
          obtain ⟨e1, l1⟩ := takeN_sound h1
          obtain ⟨e2, l2⟩ := readLe_sound h2
          obtain ⟨e3, l3⟩ := scriptRead_sound h3
          obtain ⟨e4, l4⟩ := readLe_sound h4
          refine ⟨?_, ⟨by simp [l1], by simpa using l2, l3, by simpa using l4, by simp, by simp⟩, rfl⟩
          simp [TxIn.ser, e1, e2, e3, e4, List.append_assoc]

theorem TxOut.read_ser (o : TxOut) (r : Bytes) (h : WFOut o) :
    TxOut.read (TxOut.ser o ++ r) = some (o, r) := by
  have t1 := readLe_leN 8 o.value (scriptSer o.spk ++ r) (by have := h.value; omega)
  have t2 := scriptRead_ser o.spk r h.script
  simp only [TxOut.read, TxOut.ser, List.append_assoc, t1, t2]

theorem TxOut.read_sound {b r : Bytes} {o : TxOut} (h : TxOut.read b = some (o, r)) :
    b = TxOut.ser o ++ r ∧ WFOut o := by
  unfold TxOut.read at h
  split at h
  · simp at h
  · rename_i v r1 h1
    split at h
    · simp at h
    · rename_i s r2 h2
      simp at h
      obtain ⟨ho, hr⟩ := h; subst ho; subst hr
      obtain ⟨e1, l1⟩ := readLe_sound h1
      obtain ⟨e2, l2⟩ := scriptRead_sound h2
      refine ⟨?_, ⟨by simpa using l1, l2⟩⟩
      simp [TxOut.ser, e1, e2, List.append_assoc]

/-- `is_segwit` of an input is exactly "witness stack non-empty" (no size hypothesis needed) -/
theorem TxIn.isSegwit_iff (i : TxIn) : TxIn.isSegwit i = !i.witness.isEmpty := by
  unfold TxIn.isSegwit witnessSer
  cases hw : i.witness with
  | nil => simp [Compact.enc]
  | cons d ds =>
    simp only [List.length_cons, List.isEmpty_cons, Bool.not_false, bne_iff_ne, ne_eq]
    unfold Compact.enc
    split
    · rename_i h1
      simp
      intro h
      have := congrArg UInt8.toNat h
      simp [UInt8.toNat_ofNat'] at this
      omega
    · split
      · simp
      · split <;> simp

theorem Tx.isSegwit_eq (t : Tx) : Tx.isSegwit t = hasWitness t := by
  unfold Tx.isSegwit hasWitness
  congr 1
  funext i
  exact TxIn.isSegwit_iff i

theorem Tx.ser_eq_encode (t : Tx) : Tx.ser t = encode t := by
  have hin : t.vin.flatMap TxIn.ser = t.vin.flatMap encIn := by
    have : TxIn.ser = encIn := funext TxIn.ser_eq
    rw [this]
  unfold Tx.ser encode
  rw [Tx.isSegwit_eq]
  cases hasWitness t <;>
    simp [encodeLegacy, encodeWitness, hin, List.append_assoc] <;> rfl

end Embit
