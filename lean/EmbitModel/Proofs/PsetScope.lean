import EmbitModel.Proofs.PsbtLossless
import EmbitModel.Proofs.LiquidTxRoundtrip
import EmbitModel.Model.Pset
/-
  C18 helper: one step of `LInputScope.read_value` / `LOutputScope.read_value` (KEEP_ALL) never loses a pair.
  The liquid fields are a table, so one generic lemma covers all 15 + 12 fields; everything else is delegated to the
  C04 lemmas about the bitcoin scopes.
-/
set_option linter.unusedSimpArgs false
set_option linter.unusedVariables false
namespace Embit
open Model

/-! ### the field table -/

theorem lget_append_self {φ : Type} [DecidableEq φ] (l : List (φ × Bytes)) (f : φ) (v : Bytes)
    (h : lget l f = none) : lget (l ++ [(f, v)]) f = some v := by
  induction l with
  | nil => simp [lget]
  | cons x xs ih =>
    obtain ⟨g, w⟩ := x
    simp only [lget] at h
    split at h
    · simp at h
    · rename_i hne
      simp [lget, hne, ih h]

theorem lget_append_of_some {φ : Type} [DecidableEq φ] (l : List (φ × Bytes)) (f g : φ) (v w : Bytes)
    (h : lget l g = some w) : lget (l ++ [(f, v)]) g = some w := by
  induction l with
  | nil => simp [lget] at h
  | cons x xs ih =>
    obtain ⟨g', w'⟩ := x
    simp only [lget] at h
    split at h
    · rename_i he
      simp [lget, he]; simpa using h
    · rename_i hne
      simp [lget, hne, ih h]

theorem find?_key_eq {φ : Type} (order : List φ) (p : φ → Bool) (f : φ) (h : order.find? p = some f) :
    f ∈ order ∧ p f = true := ⟨List.mem_of_find?_eq_some h, List.find?_some h⟩

/-! ### input scope -/

theorem LInField.ofKey_spec (k : Bytes) (f : LInField) (h : LInField.ofKey k = some f) :
    f ∈ LInField.order ∧ f.key = k := by
  obtain ⟨h1, h2⟩ := find?_key_eq _ _ _ h
  exact ⟨h1, by simpa using h2⟩

theorem isLiquidKey_not_txField (k : Bytes) (h : isLiquidKey k = true) : txFieldKey k = false := by
  cases hk : txFieldKey k with
  | false => rfl
  | true =>
    exfalso
    simp only [txFieldKey, Bool.or_eq_true, beq_iff_eq] at hk
    rcases hk with (rfl | rfl) | rfl <;> revert h <;> decide

theorem LInScope.lpairs_mem_append (s : LInScope) (f : LInField) (v : Bytes) (hf : f ∈ LInField.order)
    (hn : lget s.lf f = none) :
    (f.key, v) ∈ ({ s with lf := s.lf ++ [(f, v)] } : LInScope).lpairs
    ∧ ∀ kv ∈ s.lpairs, kv ∈ ({ s with lf := s.lf ++ [(f, v)] } : LInScope).lpairs := by
  constructor
  · simp only [LInScope.lpairs, List.mem_filterMap]
    exact ⟨f, hf, by simp [lget_append_self s.lf f v hn]⟩
  · intro kv hkv
    simp only [LInScope.lpairs, List.mem_filterMap] at hkv ⊢
    obtain ⟨g, hg, hm⟩ := hkv
    cases hgv : lget s.lf g with
    | none => simp [hgv] at hm
    | some w =>
      simp [hgv] at hm
      exact ⟨g, hg, by simp [lget_append_of_some s.lf f g v w hgv, hm]⟩

theorem LInScope.addPair_lossless (ko : KeyOps) (s s' : LInScope) (k v : Bytes) (ver : Option Nat)
    (hv : ver = some 2 ∨ txFieldKey k = false) (hk : k ≠ [])
    (h : LInScope.addPair ko s k v = some s') :
    (k, v) ∈ s'.pairs ver ∧ ∀ kv ∈ s.pairs ver, kv ∈ s'.pairs ver := by
  unfold LInScope.addPair at h
  split at h
  · -- a bitcoin key
    rename_i hliq
    split at h
    · exact absurd rfl hk
    · rename_i k0 krest
      split at h
      · rename_i h0
        subst h0
        split at h
        · simp at h
        · rename_i hkr
          have : krest = [] := by simpa using hkr
          subst this
          split at h
          · simp at h
          · rename_i hnw
            split at h
            · simp at h
            · rename_i t ht
              simp at h; subst h
              have hser : LTx.ser t = v := by
                unfold LTx.parse parseAll at ht
                split at ht
                · rename_i x hx
                  simp at ht; subst ht
                  have := (LTx.read_sound hx).1
                  simp [this]
                · simp at ht
              refine ⟨by simp [LInScope.pairs, optKV, hser], ?_⟩
              intro kv hkv
              simp only [LInScope.pairs, List.mem_append] at hkv ⊢
              rcases hkv with ((hkv | hkv) | hkv) | hkv
              · have : s.nonWitnessUtxo = none := by simpa using hnw
                simp [this, optKV] at hkv
              · exact Or.inl (Or.inl (Or.inr hkv))
              · exact Or.inl (Or.inr hkv)
              · exact Or.inr hkv
      · rename_i h0
        split at h
        · rename_i h1
          subst h1
          split at h
          · simp at h
          · rename_i hkr
            have : krest = [] := by simpa using hkr
            subst this
            split at h
            · simp at h
            · rename_i hnw
              split at h
              · simp at h
              · rename_i o ho
                simp at h; subst h
                have hser : LTxOut.ser o = v := by
                  unfold LTxOut.parse parseAll at ho
                  split at ho
                  · rename_i x hx
                    simp at ho; subst ho
                    have := (LTxOut.read_sound hx).1
                    simp [this]
                  · simp at ho
                refine ⟨by simp [LInScope.pairs, optKV, hser], ?_⟩
                intro kv hkv
                simp only [LInScope.pairs, List.mem_append] at hkv ⊢
                rcases hkv with ((hkv | hkv) | hkv) | hkv
                · exact Or.inl (Or.inl (Or.inl hkv))
                · have : s.witnessUtxo = none := by simpa using hnw
                  simp [this, optKV] at hkv
                · exact Or.inl (Or.inr hkv)
                · exact Or.inr hkv
        · split at h
          · simp at h
          · rename_i b hb
            simp at h; subst h
            obtain ⟨m1, m2⟩ := InScope.addPair_lossless ko _ s.base b (k0 :: krest) v ver hv hk hb
            refine ⟨by simp [LInScope.pairs, m1], ?_⟩
            intro kv hkv
            simp only [LInScope.pairs, List.mem_append] at hkv ⊢
            rcases hkv with (hkv | hkv) | hkv
            · exact Or.inl (Or.inl hkv)
            · exact Or.inl (Or.inr (m2 kv hkv))
            · exact Or.inr hkv
  · -- a proprietary liquid key
    split at h
    · rename_i f hf
      obtain ⟨hford, hfk⟩ := LInField.ofKey_spec k f hf
      split at h
      · simp at h
      · rename_i hnone
        split at h
        · simp at h
        · simp at h; subst h
          have hn : lget s.lf f = none := by simpa using hnone
          obtain ⟨a1, a2⟩ := LInScope.lpairs_mem_append s f v hford hn
          rw [hfk] at a1
          refine ⟨by simp only [LInScope.pairs, List.mem_append]; exact Or.inr a1, ?_⟩
          intro kv hkv
          simp only [LInScope.pairs, List.mem_append] at hkv ⊢
          rcases hkv with hkv | hkv
          · exact Or.inl hkv
          · exact Or.inr (a2 kv hkv)
    · split at h
      · simp at h
      · simp at h; subst h
        refine ⟨by simp [LInScope.pairs, InScope.pairs, LInScope.lpairs], ?_⟩
        intro kv hkv
        simp only [LInScope.pairs, List.mem_append] at hkv ⊢
        rcases hkv with (hkv | hkv) | hkv
        · exact Or.inl (Or.inl hkv)
        · refine Or.inl (Or.inr ?_)
          simp only [InScope.pairs, List.mem_append] at hkv ⊢
          rcases hkv with hkv | hkv
          · exact Or.inl hkv
          · exact Or.inr (Or.inl hkv)
        · exact Or.inr hkv

/-- seeding is preserved, and a key that would overwrite a transaction field is refused -/
theorem LInScope.addPair_seeded (ko : KeyOps) (s s' : LInScope) (k v : Bytes) (hs : InSeeded s.base)
    (h : LInScope.addPair ko s k v = some s') : txFieldKey k = false ∧ InSeeded s'.base := by
  unfold LInScope.addPair at h
  split at h
  · rename_i hliq
    split at h
    · simp at h; subst h; exact ⟨by decide, hs⟩
    · rename_i k0 krest
      split at h
      · rename_i h0
        subst h0
        have hk : txFieldKey (0 :: krest) = false := by
          simp [txFieldKey]
        repeat' (split at h)
        all_goals (try (simp at h; done))
        all_goals (simp at h; subst h; exact ⟨hk, hs⟩)
      · split at h
        · rename_i h1
          subst h1
          have hk : txFieldKey (1 :: krest) = false := by
            simp [txFieldKey]
          repeat' (split at h)
          all_goals (try (simp at h; done))
          all_goals (simp at h; subst h; exact ⟨hk, hs⟩)
        · split at h
          · simp at h
          · rename_i b hb
            simp at h; subst h
            obtain ⟨e0, e1, e2, e3⟩ := InScope.addPair_seeded ko _ 0 s.base b _ v hs hb
            exact ⟨e0, by rw [InSeeded, e1, e2, e3]; exact hs⟩
  · rename_i hliq
    have hk : txFieldKey k = false := isLiquidKey_not_txField k (by simpa using hliq)
    repeat' (split at h)
    all_goals (try (simp at h; done))
    all_goals (simp at h; subst h; exact ⟨hk, hs⟩)

theorem LInScope.addPairs_lossless (ko : KeyOps) (ver : Option Nat) :
    ∀ (kvs : List KV) (s s' : LInScope), (ver = some 2 ∨ InSeeded s.base) → (∀ kv ∈ kvs, kv.1 ≠ []) →
      LInScope.addPairs ko s kvs = some s' →
      (∀ kv ∈ kvs, kv ∈ s'.pairs ver) ∧ (∀ kv ∈ s.pairs ver, kv ∈ s'.pairs ver) := by
  intro kvs
  induction kvs with
  | nil => intro s s' _ _ h; simp [LInScope.addPairs] at h; subst h; simp
  | cons kv kvs ih =>
    intro s s' hv hne h
    obtain ⟨k, v⟩ := kv
    simp only [LInScope.addPairs] at h
    split at h
    · simp at h
    · rename_i s1 h1
      have hk : k ≠ [] := hne (k, v) (by simp)
      have hv1 : ver = some 2 ∨ txFieldKey k = false := by
        rcases hv with hv | hv
        · exact Or.inl hv
        · exact Or.inr (LInScope.addPair_seeded ko s s1 k v hv h1).1
      obtain ⟨m1, m2⟩ := LInScope.addPair_lossless ko s s1 k v ver hv1 hk h1
      have hv' : ver = some 2 ∨ InSeeded s1.base := by
        rcases hv with hv | hv
        · exact Or.inl hv
        · exact Or.inr (LInScope.addPair_seeded ko s s1 k v hv h1).2
      obtain ⟨n1, n2⟩ := ih s1 s' hv' (fun x hx => hne x (by simp [hx])) h
      refine ⟨?_, fun x hx => n2 x (m2 x hx)⟩
      intro x hx
      simp at hx
      rcases hx with rfl | hx
      · exact n2 _ m1
      · exact n1 x hx

/-- a duplicated liquid field is refused -/
theorem LInScope.duplicate_field_rejected (ko : KeyOps) (s : LInScope) (k v : Bytes) (f : LInField)
    (hl : isLiquidKey k = true) (hf : LInField.ofKey k = some f) (hset : (lget s.lf f).isSome = true) :
    LInScope.addPair ko s k v = none := by
  simp [LInScope.addPair, hl, hf, hset]

/-- an integer field of the wrong length is refused -/
theorem LInScope.wrong_length_rejected (ko : KeyOps) (s : LInScope) (k v : Bytes) (f : LInField) (n : Nat)
    (hl : isLiquidKey k = true) (hf : LInField.ofKey k = some f) (hlen : f.len = some n) (hv : v.length ≠ n) :
    LInScope.addPair ko s k v = none := by
  simp [LInScope.addPair, hl, hf, hlen, lenOK, hv]

/-! ### output scope -/

/-- the pairs `LOutputScope.write_to` emits when it does not raise -/
def Model.LOutScope.pairsL (s : LOutScope) (ver : Option Nat) : List KV := s.base.pairs ver ++ s.lpairs ver

theorem LOutScope.pairs_eq (s : LOutScope) (ver : Option Nat) :
    s.pairs ver = if ver = some 2 && s.valueConf.isSome then none else some (s.pairsL ver) := rfl

/-- the key the field denoted by `k` is written under: both spellings of an output field (`elements` / `pset`)
    are read, the one belonging to the PSET version is written -/
def Model.LOutField.canonKey (ver : Option Nat) (k : Bytes) : Bytes :=
  if isLiquidKey k then
    match LOutField.ofKey k with
    | some f => f.key (ver == some 2)
    | none => k
  else k

theorem LOutField.ofKey_spec (k : Bytes) (f : LOutField) (h : LOutField.ofKey k = some f) :
    f ∈ LOutField.order ∧ (f.key true = k ∨ f.key false = k) := by
  obtain ⟨h1, h2⟩ := find?_key_eq _ _ _ h
  exact ⟨h1, by simpa using h2⟩

theorem isLiquidKey_not_txFieldOut (k : Bytes) (h : isLiquidKey k = true) : txFieldKeyOut k = false := by
  cases hk : txFieldKeyOut k with
  | false => rfl
  | true =>
    exfalso
    simp only [txFieldKeyOut, Bool.or_eq_true, beq_iff_eq] at hk
    rcases hk with rfl | rfl <;> revert h <;> decide

theorem LOutScope.lpairs_mem_append (s : LOutScope) (ver : Option Nat) (f : LOutField) (v : Bytes)
    (hf : f ∈ LOutField.order) (hn : lget s.lf f = none) (ha : ver = some 2 ∨ f ≠ .asset) :
    (f.key (ver == some 2), v) ∈ ({ s with lf := s.lf ++ [(f, v)] } : LOutScope).lpairs ver
    ∧ ∀ kv ∈ s.lpairs ver, kv ∈ ({ s with lf := s.lf ++ [(f, v)] } : LOutScope).lpairs ver := by
  constructor
  · simp only [LOutScope.lpairs, List.mem_filterMap]
    refine ⟨f, hf, ?_⟩
    have hc : ¬ (f = LOutField.asset ∧ (ver == some 2) = false) := by
      rintro ⟨h1, h2⟩
      rcases ha with h | h
      · simp [h] at h2
      · exact h h1
    have : (decide (f = LOutField.asset) && !(ver == some 2)) = false := by
      by_cases h1 : f = LOutField.asset
      · by_cases h2 : (ver == some 2) = true
        · simp [h2]
        · exact absurd ⟨h1, by simpa using h2⟩ hc
      · simp [h1]
    simp [this, lget_append_self s.lf f v hn]
  · intro kv hkv
    simp only [LOutScope.lpairs, List.mem_filterMap] at hkv ⊢
    obtain ⟨g, hg, hm⟩ := hkv
    refine ⟨g, hg, ?_⟩
    split at hm
    · simp at hm
    · rename_i hcond
      cases hgv : lget s.lf g with
      | none => simp [hgv] at hm
      | some w =>
        simp only [hgv, Option.map_some, Option.some.injEq] at hm
        simp [hcond, lget_append_of_some s.lf f g v w hgv, hm]

theorem LOutScope.addPair_lossless (ko : KeyOps) (s s' : LOutScope) (k v : Bytes) (ver : Option Nat)
    (hv : ver = some 2 ∨ (txFieldKeyOut k = false ∧ LOutField.ofKey k ≠ some .asset)) (hk : k ≠ [])
    (h : LOutScope.addPair ko s k v = some s') :
    (LOutField.canonKey ver k, v) ∈ s'.pairsL ver ∧ (∀ kv ∈ s.pairsL ver, kv ∈ s'.pairsL ver)
    ∧ s'.valueConf = s.valueConf := by
  unfold LOutScope.addPair at h
  split at h
  · rename_i hliq
    have hl : isLiquidKey k = false := by simpa using hliq
    split at h
    · simp at h
    · split at h
      · simp at h
      · rename_i b hb
        simp at h; subst h
        have hv' : ver = some 2 ∨ txFieldKeyOut k = false := by
          rcases hv with hv | hv
          · exact Or.inl hv
          · exact Or.inr hv.1
        obtain ⟨m1, m2⟩ := OutScope.addPair_lossless ko s.base b k v ver hv' hk hb
        refine ⟨by simp [LOutScope.pairsL, LOutField.canonKey, hl, m1], ?_, rfl⟩
        intro kv hkv
        simp only [LOutScope.pairsL, LOutScope.lpairs, List.mem_append] at hkv ⊢
        rcases hkv with hkv | hkv
        · exact Or.inl (m2 kv hkv)
        · exact Or.inr hkv
  · rename_i hliq
    have hl : isLiquidKey k = true := by simpa using hliq
    split at h
    · rename_i f hf
      obtain ⟨hford, hfk⟩ := LOutField.ofKey_spec k f hf
      split at h
      · simp at h
      · rename_i hnone
        split at h
        · simp at h
        · simp at h; subst h
          have hn : lget s.lf f = none := by simpa using hnone
          have ha : ver = some 2 ∨ f ≠ .asset := by
            rcases hv with hv | hv
            · exact Or.inl hv
            · right; intro e; subst e; exact hv.2 hf
          obtain ⟨a1, a2⟩ := LOutScope.lpairs_mem_append s ver f v hford hn ha
          refine ⟨?_, ?_, rfl⟩
          · simp only [LOutScope.pairsL, LOutField.canonKey, hl, if_true, hf, List.mem_append]
            exact Or.inr a1
          · intro kv hkv
            simp only [LOutScope.pairsL, List.mem_append] at hkv ⊢
            rcases hkv with hkv | hkv
            · exact Or.inl hkv
            · exact Or.inr (a2 kv hkv)
    · rename_i hnf
      split at h
      · simp at h
      · simp at h; subst h
        refine ⟨?_, ?_, rfl⟩
        · simp [LOutScope.pairsL, LOutField.canonKey, hl, hnf, OutScope.pairs]
        · intro kv hkv
          simp only [LOutScope.pairsL, LOutScope.lpairs, List.mem_append] at hkv ⊢
          rcases hkv with hkv | hkv
          · refine Or.inl ?_
            simp only [OutScope.pairs, List.mem_append] at hkv ⊢
            rcases hkv with hkv | hkv
            · exact Or.inl hkv
            · exact Or.inr (Or.inl hkv)
          · exact Or.inr hkv

/-- a version-0 output scope as seeded from an explicit output of the global transaction -/
def LOutSeeded (s : LOutScope) : Prop := OutSeeded s.base ∧ (lget s.lf .asset).isSome = true

theorem lget_append_isSome {φ : Type} [DecidableEq φ] (l : List (φ × Bytes)) (f g : φ) (v : Bytes)
    (h : (lget l g).isSome = true) : (lget (l ++ [(f, v)]) g).isSome = true := by
  obtain ⟨w, hw⟩ := Option.isSome_iff_exists.mp h
  simp [lget_append_of_some l f g v w hw]

theorem LOutScope.addPair_seeded (ko : KeyOps) (s s' : LOutScope) (k v : Bytes) (hs : LOutSeeded s)
    (h : LOutScope.addPair ko s k v = some s') :
    (txFieldKeyOut k = false ∧ LOutField.ofKey k ≠ some .asset) ∧ LOutSeeded s' := by
  unfold LOutScope.addPair at h
  split at h
  · rename_i hliq
    have hl : isLiquidKey k = false := by simpa using hliq
    split at h
    · simp at h
    · split at h
      · simp at h
      · rename_i b hb
        simp at h; subst h
        obtain ⟨e0, e1, e2⟩ := OutScope.addPair_seeded ko s.base b k v hs.1 hb
        refine ⟨⟨e0, ?_⟩, ⟨by rw [OutSeeded, e1, e2]; exact hs.1, hs.2⟩⟩
        intro hof
        obtain ⟨_, hkk⟩ := LOutField.ofKey_spec k _ hof
        have : isLiquidKey k = true := by
          rcases hkk with rfl | rfl <;> decide
        rw [hl] at this; exact absurd this (by decide)
  · rename_i hliq
    have hl : isLiquidKey k = true := by simpa using hliq
    have hk : txFieldKeyOut k = false := isLiquidKey_not_txFieldOut k hl
    split at h
    · rename_i f hf
      split at h
      · simp at h
      · rename_i hnone
        split at h
        · simp at h
        · simp at h; subst h
          refine ⟨⟨hk, ?_⟩, ⟨hs.1, lget_append_isSome _ _ _ _ hs.2⟩⟩
          intro e
          rw [hf] at e; simp at e; subst e
          exact hnone hs.2
    · rename_i hnf
      split at h
      · simp at h
      · simp at h; subst h
        exact ⟨⟨hk, by simp [hnf]⟩, ⟨hs.1, hs.2⟩⟩

theorem LOutScope.addPairs_lossless (ko : KeyOps) (ver : Option Nat) :
    ∀ (kvs : List KV) (s s' : LOutScope), (ver = some 2 ∨ LOutSeeded s) → (∀ kv ∈ kvs, kv.1 ≠ []) →
      LOutScope.addPairs ko s kvs = some s' →
      (∀ kv ∈ kvs, (LOutField.canonKey ver kv.1, kv.2) ∈ s'.pairsL ver) ∧ (∀ kv ∈ s.pairsL ver, kv ∈ s'.pairsL ver)
      ∧ s'.valueConf = s.valueConf := by
  intro kvs
  induction kvs with
  | nil => intro s s' _ _ h; simp [LOutScope.addPairs] at h; subst h; simp
  | cons kv kvs ih =>
    intro s s' hv hne h
    obtain ⟨k, v⟩ := kv
    simp only [LOutScope.addPairs] at h
    split at h
    · simp at h
    · rename_i s1 h1
      have hk : k ≠ [] := hne (k, v) (by simp)
      have hv1 : ver = some 2 ∨ (txFieldKeyOut k = false ∧ LOutField.ofKey k ≠ some .asset) := by
        rcases hv with hv | hv
        · exact Or.inl hv
        · exact Or.inr (LOutScope.addPair_seeded ko s s1 k v hv h1).1
      obtain ⟨m1, m2, m3⟩ := LOutScope.addPair_lossless ko s s1 k v ver hv1 hk h1
      have hv' : ver = some 2 ∨ LOutSeeded s1 := by
        rcases hv with hv | hv
        · exact Or.inl hv
        · exact Or.inr (LOutScope.addPair_seeded ko s s1 k v hv h1).2
      obtain ⟨n1, n2, n3⟩ := ih s1 s' hv' (fun x hx => hne x (by simp [hx])) h
      refine ⟨?_, fun x hx => n2 x (m2 x hx), by rw [n3, m3]⟩
      intro x hx
      simp at hx
      rcases hx with rfl | hx
      · exact n2 _ m1
      · exact n1 x hx

/-- the second spelling of an already present output field is refused (no silent overwrite) -/
theorem LOutScope.duplicate_field_rejected (ko : KeyOps) (s : LOutScope) (k v : Bytes) (f : LOutField)
    (hl : isLiquidKey k = true) (hf : LOutField.ofKey k = some f) (hset : (lget s.lf f).isSome = true) :
    LOutScope.addPair ko s k v = none := by
  simp [LOutScope.addPair, hl, hf, hset]


end Embit
