import Mathlib.Data.List.Perm.Subperm
import EmbitModel.Model.Slip39
/-
  Decision logic of `ShareSet.__init__` / `ShareSet.recover` / `recover_secret`: what is refused.
-/
namespace Embit.Model.Slip39

theorem nodupB_iff (l : List (Nat × Nat)) : nodupB l = true ↔ l.Nodup := by
  induction l with
  | nil => simp [nodupB]
  | cons a l ih => simp [nodupB, ih]

/-- everything `ShareSet(shares)` accepts is consistent: one identifier, exponent, group threshold, group count
    and length, and no (group index, member index) twice -/
theorem shareSet_consistent (shares : List Share) (ss : ShareSet) (h : ShareSet.new? shares = some ss) :
    ss.shares = shares ∧ shares ≠ [] ∧
    (∀ s ∈ shares, s.id = ss.id ∧ s.exponent = ss.exponent ∧ s.groupThreshold = ss.groupThreshold ∧
      s.groupCount = ss.groupCount ∧ s.shareBitLength = ss.shareBitLength) ∧
    (shares.map fun s => (s.groupIndex, s.memberIndex)).Nodup := by
  unfold ShareSet.new? at h
  cases shares with
  | nil => simp at h
  | cons s0 rest =>
    simp only at h
    split at h
    · simp at h
    · rename_i hc
      simp only [Option.some.injEq] at h
      subst h
      refine ⟨rfl, by simp, ?_, ?_⟩
      · by_cases hl : (s0 :: rest).length > 1
        · simp only [hl, decide_true, Bool.true_and, Bool.not_eq_true', Bool.not_eq_false] at hc
          simp only [consistent, Bool.and_eq_true, List.all_eq_true, beq_iff_eq] at hc
          intro s hs
          exact ⟨hc.1.1.1.1.1.1 s hs, hc.1.1.1.1.1.2 s hs, hc.1.1.1.1.2 s hs, hc.1.1.1.2 s hs, hc.1.2 s hs⟩
        · have : rest = [] := by
            cases rest with
            | nil => rfl
            | cons _ _ => simp at hl
          subst this
          intro s hs
          simp at hs; subst hs
          exact ⟨rfl, rfl, rfl, rfl, rfl⟩
      · by_cases hl : (s0 :: rest).length > 1
        · simp only [hl, decide_true, Bool.true_and, Bool.not_eq_true', Bool.not_eq_false] at hc
          simp only [consistent, Bool.and_eq_true] at hc
          exact (nodupB_iff _).mp hc.2
        · have : rest = [] := by
            cases rest with
            | nil => rfl
            | cons _ _ => simp at hl
          subst this
          simp

/-- a returned secret always satisfies the digest equation (so a set whose interpolated digest share does not
    match is refused, never answered with the interpolated value) -/
theorem recoverSecret_digest (P : Prims) (T : List (Nat × Bytes)) (s : Bytes) (h : recoverSecret P T = some s) :
    s = interpolate 255 T ∧ (interpolate 254 T).take 4 = digest P ((interpolate 254 T).drop 4) s := by
  unfold recoverSecret at h
  simp only at h
  split at h
  · simp at h
  · rename_i hd
    simp only [Option.some.injEq] at h
    subst h
    exact ⟨rfl, by simpa using hd⟩

theorem recoverSecret_bad_digest (P : Prims) (T : List (Nat × Bytes))
    (h : (interpolate 254 T).take 4 ≠ digest P ((interpolate 254 T).drop 4) (interpolate 255 T)) :
    recoverSecret P T = none := by
  unfold recoverSecret
  simp only [h, ne_eq, not_false_eq_true, if_true]

/-! ### fewer than the threshold -/

theorem gather_length (P : Prims) (gs : List (Nat × List Share)) (l : List (Nat × Bytes))
    (h : gatherGroups P gs = some l) :
    (l.map (·.1)).Sublist ((gs.filter fun g => !g.2.isEmpty).map (·.1)) := by
  induction gs generalizing l with
  | nil => simp [gatherGroups] at h; subst h; simp
  | cons g gs ih =>
    obtain ⟨i, grp⟩ := g
    simp only [gatherGroups] at h
    split at h
    · simp at h
    · rename_i r hr
      split at h
      · simp at h
      · rename_i l' hl'
        simp only [Option.some.injEq] at h
        have := ih l' hl'
        cases grp with
        | nil =>
          simp only [recoverGroup, Option.some.injEq] at hr
          subst hr
          simp only at h; subst h
          simpa using this
        | cons g0 rest =>
          have hne : (!(g0 :: rest).isEmpty) = true := rfl
          cases r with
          | none => simp only at h; subst h; simp only [List.filter_cons, hne, if_true, List.map_cons]; exact this.cons _
          | some d =>
            simp only at h; subst h
            have hd : d.1 = i := by
              simp only [recoverGroup] at hr
              split at hr
              · simp at hr
              · split at hr
                · simp at hr; rw [← hr]
                · split at hr
                  · simp at hr
                  · split at hr
                    · simp at hr
                    · simp at hr; rw [← hr]
            simp only [List.filter_cons, hne, if_true, List.map_cons, hd]
            exact this.cons_cons _

/-- **fewer shares than the group threshold are refused** (threshold ≥ 2), whatever they contain -/
theorem fewer_refused (P : Prims) (ss : ShareSet) (pass : Bytes) (hk : 2 ≤ ss.groupThreshold)
    (hfew : ss.shares.length < ss.groupThreshold) : ss.recover P pass = none := by
  unfold ShareSet.recover
  split
  · rfl
  · rename_i hidx
    simp only
    split
    · rfl
    · rename_i sd hsd
      have hsub := gather_length P _ sd hsd
      -- the non-empty groups are indexed by distinct numbers that occur as group indices of shares
      have hnd : (sd.map (·.1)).Nodup := by
        apply List.Nodup.sublist hsub
        apply List.Nodup.sublist (List.Sublist.map _ List.filter_sublist)
        simp only [List.map_map, Function.comp_def, List.map_id']
        exact List.nodup_range
      have hmem : ∀ i ∈ sd.map (·.1), i ∈ ss.shares.map (·.groupIndex) := by
        intro i hi
        have := hsub.subset hi
        obtain ⟨g, hg, rfl⟩ := List.mem_map.mp this
        obtain ⟨hg1, hne⟩ := List.mem_filter.mp hg
        obtain ⟨j, _, rfl⟩ := List.mem_map.mp hg1
        simp only [Bool.not_eq_true', List.isEmpty_eq_false_iff] at hne
        obtain ⟨s, hs⟩ := List.exists_mem_of_ne_nil _ hne
        simp only [List.mem_filter, beq_iff_eq] at hs
        exact List.mem_map.mpr ⟨s, hs.1, hs.2⟩
      have hle : sd.length ≤ ss.shares.length := by
        have := (List.subperm_of_subset hnd hmem).length_le
        simpa using this
      rw [if_neg (by omega), if_pos (by omega)]

end Embit.Model.Slip39
