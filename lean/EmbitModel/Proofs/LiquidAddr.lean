import EmbitModel.Proofs.Blech32
import EmbitModel.Model.Liquid
/-
  C18: confidential (blech32) address round trip for witness-version-0 scripts, and the witness that embit's decoder
  ignores the witness version.
-/
set_option linter.unusedSimpArgs false
set_option linter.unusedVariables false
namespace Embit
open Model Model.Blech32 Embit.Blech32

theorem lowerC_charAt (d : Nat) : lowerC (charAt d) = charAt d := by
  by_cases h : d < 32
  · exact (charAt_table d h).2.1
  · have : charAt d = 0 := by
      unfold charAt
      have hl : charset.length = 32 := by decide
      simp [List.getD, List.getElem?_eq_none (show charset.length ≤ d by omega)]
    rw [this]; decide

theorem bech32Encode_lower (hrp data : List Nat) (hh : HrpOk hrp) :
    (bech32Encode hrp data).map lowerC = bech32Encode hrp data := by
  apply map_id_of_forall
  intro x hx
  simp only [bech32Encode, List.mem_append, List.mem_map, List.mem_singleton] at hx
  rcases hx with (hx | hx) | ⟨d, _, rfl⟩
  · have := (hh.2 x hx).2.2
    unfold lowerC; rw [if_neg this]
  · subst hx; decide
  · exact lowerC_charAt d

theorem optAll_toByte (b : Bytes) : optAll ((b.map UInt8.toNat).map toByte?) = some b := by
  induction b with
  | nil => rfl
  | cons x xs ih =>
    have hx : toByte? x.toNat = some x := by
      have := x.toNat_lt
      simp [toByte?, this]
    simp only [List.map_cons, optAll, hx]
    simp only [List.map_map] at ih ⊢
    rw [ih]

/-- MAIN: a confidential segwit address of a witness-version-0 script decodes to exactly the script and the
    blinding key -/
theorem confAddr_roundtrip (validSec : Bytes → Bool) (hrp : List Nat) (prog pub : Bytes) (addr : List Nat)
    (hh : HrpOk hrp) (hpub : pub.length = 33) (hvalid : validSec pub = true) (hprog : prog.length < 256)
    (he : confAddress hrp (0x00 :: UInt8.ofNat prog.length :: prog) pub = some addr) :
    confAddrDecode validSec hrp addr = some (0x00 :: UInt8.ofNat prog.length :: prog, pub) := by
  unfold confAddress at he
  simp only [] at he
  split at he
  · simp at he
  · have hb : ∀ b ∈ (pub ++ prog).map UInt8.toNat, b < 256 := by
      intro b hb
      simp only [List.mem_map] at hb
      obtain ⟨x, _, rfl⟩ := hb
      exact x.toNat_lt
    simp only [UInt8.toNat_ofNat, Nat.lt_irrefl, if_false, List.drop_succ_cons, List.drop_zero] at he
    have hver : (if (0 : Nat) > 0 then 0 % 80 else 0) = 0 := by decide
    obtain ⟨conv, hc, hdec, henc⟩ := decode_encode hrp 0 ((pub ++ prog).map UInt8.toNat) hh (by decide) hb
    have he' : Blech32.encode hrp 0 ((pub ++ prog).map UInt8.toNat) = some addr := by
      simpa using he
    rw [henc] at he'
    obtain rfl := Option.some.inj he'
    unfold confAddrDecode
    simp only [bech32Encode_lower hrp _ hh, hdec, optAll_toByte]
    have ht : (pub ++ prog).take 33 = pub := by simp [← hpub]
    have hd : (pub ++ prog).drop 33 = prog := by simp [← hpub]
    simp [ht, hd, hvalid, hprog]

/-- the decoder ignores the witness version: whatever version was encoded, the script starts with `0x00` -/
theorem confAddrDecode_version_ignored (validSec : Bytes → Bool) (hrp addr : List Nat) (sc pub : Bytes)
    (h : confAddrDecode validSec hrp addr = some (sc, pub)) : sc.head? = some 0x00 := by
  unfold confAddrDecode at h
  simp only [] at h
  split at h
  · split at h
    · simp at h
    · split at h
      · simp at h
      · split at h
        · simp at h
        · simp at h; rw [← h.1]; rfl
  · simp at h

end Embit
