import EmbitModel.Spec.Bip39Spec
/-
  Two finite facts about single bytes, checked exhaustively by the kernel (8 × 256 cases each, no axioms).
-/
namespace Embit.Model.Bip39
open Embit.Spec.Bip39

set_option maxRecDepth 100000 in
/-- `x & (256 - (1 << (p + 1) - 1))` (Python precedence: `1 << ((p + 1) - 1)`) keeps the top `8 - p` bits -/
theorem mask_bits : ∀ p : Fin 8, ∀ x : Fin 256,
    bitsOfNat 8 (x.val &&& (256 - (1 <<< ((p.val + 1) - 1)))) =
      (bitsOfNat 8 x.val).take (8 - p.val) ++ List.replicate p.val false := by
  decide +kernel

set_option maxRecDepth 100000 in
/-- `b & (1 << (7 - j))` tests bit `j` (most significant first) of a byte -/
theorem bit_test : ∀ j : Fin 8, ∀ x : Fin 256,
    (bitsOfNat 8 x.val)[j.val]? = some (x.val &&& (1 <<< (7 - j.val)) != 0) := by
  decide +kernel

end Embit.Model.Bip39
