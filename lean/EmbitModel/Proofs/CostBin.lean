import EmbitModel.Model.CostBin
import EmbitModel.Proofs.PsbtKV
/-
  Erasure and step bounds of the instrumented byte parsers of `Model/CostBin.lean` (C17).
-/
set_option linter.unusedSimpArgs false
set_option linter.unusedVariables false
namespace Embit.Model.CostBin
open Embit Embit.Model

/-! ### erasure: the value part of an instrumented parser is the model parser -/

theorem readManyC_fst {α : Type} (p : CP α) (n : Nat) (b : Bytes) :
    (readManyC p n b).1 = readMany (erase p) n b := by
  induction n generalizing b with
  | zero => rfl
  | succ n ih =>
    simp only [readManyC, readMany, erase]
    cases h : (p b).1 with
    | none => rfl
    | some xr =>
      obtain ⟨x, r⟩ := xr
      simp only [ih r, erase]
      cases readMany (erase p) n r with
      | none => rfl
      | some q => rfl

theorem scriptReadC_fst (b : Bytes) : (scriptReadC b).1 = scriptRead b := by
  unfold scriptReadC scriptRead
  cases Compact.read b with
  | none => rfl
  | some q => rfl

theorem erase_script : erase scriptReadC = scriptRead := funext scriptReadC_fst

theorem witnessReadC_fst (b : Bytes) : (witnessReadC b).1 = witnessRead b := by
  unfold witnessReadC witnessRead
  cases Compact.read b with
  | none => rfl
  | some q => simp only [readManyC_fst, erase_script]

theorem erase_witness : erase witnessReadC = witnessRead := funext witnessReadC_fst

theorem txInReadC_fst (b : Bytes) : (txInReadC b).1 = TxIn.read b := by
  unfold txInReadC TxIn.read
  simp only [scriptReadC_fst]
  repeat' (split <;> (try simp only [*]))
  all_goals first | rfl | simp_all

theorem erase_txIn : erase txInReadC = TxIn.read := funext txInReadC_fst

theorem txOutReadC_fst (b : Bytes) : (txOutReadC b).1 = TxOut.read b := by
  unfold txOutReadC TxOut.read
  simp only [scriptReadC_fst]
  repeat' (split <;> (try simp only [*]))
  all_goals first | rfl | simp_all

theorem erase_txOut : erase txOutReadC = TxOut.read := funext txOutReadC_fst

theorem txReadC_fst (b : Bytes) : (txReadC b).1 = Tx.read b := by
  unfold txReadC Tx.read
  simp only [readManyC_fst, erase_txIn, erase_txOut, erase_witness]
  repeat' (split <;> (try simp only [*]))
  all_goals first | rfl | simp_all

theorem txParseC_fst (b : Bytes) : (txParseC b).1 = Tx.parse b := by
  simp only [txParseC, Tx.parse, parseAll, txReadC_fst]
  cases Tx.read b with
  | none => rfl
  | some q => obtain ⟨x, r⟩ := q; cases r <;> rfl

/-! ### how much a successful primitive read consumes -/

theorem takeN_len {n : Nat} {b x r : Bytes} (h : takeN n b = some (x, r)) : r.length + n = b.length := by
  obtain ⟨e, l⟩ := takeN_sound h
  rw [e]; simp; omega

theorem readLe_len {k v : Nat} {b r : Bytes} (h : readLe k b = some (v, r)) : r.length + k = b.length := by
  obtain ⟨e, _⟩ := readLe_sound h
  rw [e]; simp; omega

theorem compact_len {n : Nat} {b r : Bytes} (h : Compact.read b = some (n, r)) : r.length + 1 ≤ b.length := by
  obtain ⟨e, _⟩ := Compact.read_sound h
  have := Compact.enc_length_pos n
  rw [e]; simp; omega

/-! ### step bounds -/

/-- an element reader whose successful runs cost (with the loop iteration) at most 5 steps per byte consumed, and
    whose runs cost at most 5·|input| + D whatever the outcome -/
structure Amort {α : Type} (D : Nat) (p : CP α) : Prop where
  ok : ∀ b x r, (p b).1 = some (x, r) → (p b).2 + 1 + 5 * r.length ≤ 5 * b.length
  any : ∀ b, (p b).2 + 1 ≤ 5 * b.length + D

theorem readManyC_bound {α : Type} (D : Nat) (p : CP α) (hp : Amort D p) : ∀ (n : Nat) (b : Bytes),
    (∀ xs r, (readManyC p n b).1 = some (xs, r) →
      (readManyC p n b).2 + 5 * r.length ≤ 5 * b.length ∧ xs.length + r.length ≤ b.length) ∧
    (readManyC p n b).2 ≤ 5 * b.length + D := by
  intro n
  induction n with
  | zero => intro b; simp [readManyC]
  | succ n ih =>
    intro b
    simp only [readManyC]
    have hany := hp.any b
    cases h : (p b).1 with
    | none => simp only []; refine ⟨by simp, by omega⟩
    | some xr =>
      obtain ⟨x, r1⟩ := xr
      have hok := hp.ok b x r1 h
      obtain ⟨i1, i2⟩ := ih r1
      simp only []
      cases h2 : (readManyC p n r1).1 with
      | none => simp only []; refine ⟨by simp, by omega⟩
      | some q =>
        obtain ⟨xs, r2⟩ := q
        obtain ⟨j1, j2⟩ := i1 xs r2 h2
        simp only []
        refine ⟨?_, by omega⟩
        intro xs' r' e
        simp at e
        obtain ⟨rfl, rfl⟩ := e
        simp only [List.length_cons]
        omega

theorem scriptReadC_amort : Amort 8 scriptReadC := by
  constructor
  · intro b x r h
    unfold scriptReadC at h ⊢
    cases hc : Compact.read b with
    | none => simp [hc] at h
    | some q =>
      obtain ⟨l, r0⟩ := q
      simp only [hc] at h ⊢
      have := compact_len hc
      have := takeN_len h
      simp only [takeSteps]
      omega
  · intro b
    unfold scriptReadC
    cases hc : Compact.read b with
    | none => simp only []; omega
    | some q =>
      obtain ⟨l, r0⟩ := q
      have := compact_len hc
      simp only [takeSteps]
      omega

theorem witnessReadC_amort : Amort 8 witnessReadC := by
  constructor
  · intro b x r h
    unfold witnessReadC at h ⊢
    cases hc : Compact.read b with
    | none => simp [hc] at h
    | some q =>
      obtain ⟨n, r0⟩ := q
      simp only [hc] at h ⊢
      have := compact_len hc
      have := ((readManyC_bound 8 _ scriptReadC_amort n r0).1 x r h).1
      omega
  · intro b
    unfold witnessReadC
    cases hc : Compact.read b with
    | none => simp only []; omega
    | some q =>
      obtain ⟨n, r0⟩ := q
      have := compact_len hc
      have := (readManyC_bound 8 _ scriptReadC_amort n r0).2
      simp only []
      omega

theorem txInReadC_amort : Amort 8 txInReadC := by
  constructor
  · intro b x r h
    unfold txInReadC at h ⊢
    cases h1 : takeN 32 b with
    | none => simp [h1] at h
    | some q1 =>
      obtain ⟨t, r1⟩ := q1
      simp only [h1] at h ⊢
      have := takeN_len h1
      cases h2 : readLe 4 r1 with
      | none => simp [h2] at h
      | some q2 =>
        obtain ⟨vo, r2⟩ := q2
        simp only [h2] at h ⊢
        have := readLe_len h2
        cases h3 : (scriptReadC r2).1 with
        | none => simp [h3] at h
        | some q3 =>
          obtain ⟨ss, r3⟩ := q3
          simp only [h3] at h ⊢
          have := scriptReadC_amort.ok r2 ss r3 h3
          cases h4 : readLe 4 r3 with
          | none => simp [h4] at h
          | some q4 =>
            obtain ⟨sq, r4⟩ := q4
            simp only [h4] at h ⊢
            have := readLe_len h4
            simp at h
            obtain ⟨_, rfl⟩ := h
            omega
  · intro b
    unfold txInReadC
    cases h1 : takeN 32 b with
    | none => simp only []; omega
    | some q1 =>
      obtain ⟨t, r1⟩ := q1
      simp only []
      have := takeN_len h1
      cases h2 : readLe 4 r1 with
      | none => simp only []; omega
      | some q2 =>
        obtain ⟨vo, r2⟩ := q2
        simp only []
        have := readLe_len h2
        have := scriptReadC_amort.any r2
        cases h3 : (scriptReadC r2).1 with
        | none => simp only []; omega
        | some q3 =>
          obtain ⟨ss, r3⟩ := q3
          simp only []
          have := scriptReadC_amort.ok r2 ss r3 h3
          cases h4 : readLe 4 r3 with
          | none => simp only []; omega
          | some q4 =>
            obtain ⟨sq, r4⟩ := q4
            simp only []
            omega

theorem txOutReadC_amort : Amort 8 txOutReadC := by
  constructor
  · intro b x r h
    unfold txOutReadC at h ⊢
    cases h1 : readLe 8 b with
    | none => simp [h1] at h
    | some q1 =>
      obtain ⟨v, r1⟩ := q1
      simp only [h1] at h ⊢
      have := readLe_len h1
      cases h3 : (scriptReadC r1).1 with
      | none => simp [h3] at h
      | some q3 =>
        obtain ⟨ss, r3⟩ := q3
        simp only [h3] at h ⊢
        have := scriptReadC_amort.ok r1 ss r3 h3
        simp at h
        obtain ⟨_, rfl⟩ := h
        omega
  · intro b
    unfold txOutReadC
    cases h1 : readLe 8 b with
    | none => simp only []; omega
    | some q1 =>
      obtain ⟨v, r1⟩ := q1
      simp only []
      have := readLe_len h1
      have := scriptReadC_amort.any r1
      cases h3 : (scriptReadC r1).1 with
      | none => simp only []; omega
      | some q3 =>
        obtain ⟨ss, r3⟩ := q3
        simp only []
        omega

/-- a leaf of a case analysis where the parser has failed: the bound by arithmetic, no value -/
macro "fail_leaf" : tactic => `(tactic| ((try simp only []); exact ⟨by omega, by simp⟩))

theorem txReadC_bound (b : Bytes) :
    (txReadC b).2 ≤ 5 * b.length + 12 ∧
    ∀ t r, (txReadC b).1 = some (t, r) → (txReadC b).2 + 5 * r.length ≤ 5 * b.length := by
  unfold txReadC
  cases h1 : readLe 4 b with
  | none => fail_leaf
  | some q1 =>
    obtain ⟨ver, r1⟩ := q1
    have := readLe_len h1
    simp only []
    cases h2 : Compact.read r1 with
    | none => fail_leaf
    | some q2 =>
      obtain ⟨n0, r2⟩ := q2
      have := compact_len h2
      simp only []
      by_cases hn : n0 = 0
      · simp only [hn, if_true]
        cases h3 : takeN 1 r2 with
        | none => fail_leaf
        | some q3 =>
          obtain ⟨flag, r3⟩ := q3
          have := takeN_len h3
          simp only []
          by_cases hf : flag = [1]
          · simp only [hf, ne_eq, not_true_eq_false, if_false]
            cases h4 : Compact.read r3 with
            | none => fail_leaf
            | some q4 =>
              obtain ⟨n, r4⟩ := q4
              have := compact_len h4
              simp only []
              have bi := readManyC_bound 8 _ txInReadC_amort n r4
              cases h5 : (readManyC txInReadC n r4).1 with
              | none => have := bi.2; fail_leaf
              | some q5 =>
                obtain ⟨vin, r5⟩ := q5
                have := (bi.1 vin r5 h5).1
                simp only []
                cases h6 : Compact.read r5 with
                | none => fail_leaf
                | some q6 =>
                  obtain ⟨m, r6⟩ := q6
                  have := compact_len h6
                  simp only []
                  have bo := readManyC_bound 8 _ txOutReadC_amort m r6
                  cases h7 : (readManyC txOutReadC m r6).1 with
                  | none => have := bo.2; fail_leaf
                  | some q7 =>
                    obtain ⟨vout, r7⟩ := q7
                    have := (bo.1 vout r7 h7).1
                    simp only []
                    have bw := readManyC_bound 8 _ witnessReadC_amort vin.length r7
                    cases h8 : (readManyC witnessReadC vin.length r7).1 with
                    | none => have := bw.2; fail_leaf
                    | some q8 =>
                      obtain ⟨wits, r8⟩ := q8
                      have := (bw.1 wits r8 h8).1
                      simp only []
                      split
                      · fail_leaf
                      · cases h9 : readLe 4 r8 with
                        | none => fail_leaf
                        | some q9 =>
                          obtain ⟨lt, r9⟩ := q9
                          have := readLe_len h9
                          simp only []
                          refine ⟨by omega, ?_⟩
                          intro t r e
                          simp at e
                          obtain ⟨_, rfl⟩ := e
                          omega
          · simp only [ne_eq, hf, not_false_eq_true, if_true]
            fail_leaf
      · simp only [hn, if_false]
        have bi := readManyC_bound 8 _ txInReadC_amort n0 r2
        cases h5 : (readManyC txInReadC n0 r2).1 with
        | none => have := bi.2; fail_leaf
        | some q5 =>
          obtain ⟨vin, r5⟩ := q5
          have := (bi.1 vin r5 h5).1
          simp only []
          cases h6 : Compact.read r5 with
          | none => fail_leaf
          | some q6 =>
            obtain ⟨m, r6⟩ := q6
            have := compact_len h6
            simp only []
            have bo := readManyC_bound 8 _ txOutReadC_amort m r6
            cases h7 : (readManyC txOutReadC m r6).1 with
            | none => have := bo.2; fail_leaf
            | some q7 =>
              obtain ⟨vout, r7⟩ := q7
              have := (bo.1 vout r7 h7).1
              simp only []
              cases h9 : readLe 4 r7 with
              | none => fail_leaf
              | some q9 =>
                obtain ⟨lt, r9⟩ := q9
                have := readLe_len h9
                simp only []
                refine ⟨by omega, ?_⟩
                intro t r e
                simp at e
                obtain ⟨_, rfl⟩ := e
                omega

/-! ### the `while True` loop of a PSBT scope -/

theorem readKVsFuelC_fst : ∀ (fuel : Nat) (b : Bytes), (readKVsFuelC fuel b).1.toOption = readKVsFuel fuel b := by
  intro fuel
  induction fuel with
  | zero => intro b; rfl
  | succ f ih =>
    intro b
    simp only [readKVsFuelC, readKVsFuel, readString, scriptReadC_fst]
    cases h1 : scriptRead b with
    | none => rfl
    | some q1 =>
      obtain ⟨k, r1⟩ := q1
      simp only []
      by_cases hk : k.isEmpty = true
      · simp only [hk, if_true]; rfl
      · simp only [hk, if_false]
        cases h2 : scriptRead r1 with
        | none => rfl
        | some q2 =>
          obtain ⟨v, r2⟩ := q2
          simp only []
          rw [← ih r2]
          cases (readKVsFuelC f r2).1 with
          | ok x => rfl
          | reject => rfl
          | outOfFuel => rfl

theorem readKVsFuelC_bound : ∀ (fuel : Nat) (b : Bytes),
    (readKVsFuelC fuel b).2 ≤ 5 * b.length + 8 ∧
    (∀ kvs r, (readKVsFuelC fuel b).1 = .ok (kvs, r) →
      (readKVsFuelC fuel b).2 + 5 * r.length ≤ 5 * b.length ∧ kvs.length + r.length < b.length) ∧
    (b.length < fuel → (readKVsFuelC fuel b).1.isOutOfFuel = false) := by
  intro fuel
  induction fuel with
  | zero => intro b; simp [readKVsFuelC]
  | succ f ih =>
    intro b
    simp only [readKVsFuelC]
    have ak := scriptReadC_amort.any b
    cases h1 : (scriptReadC b).1 with
    | none => simp only []; exact ⟨by omega, by simp, by simp [Res.isOutOfFuel]⟩
    | some q1 =>
      obtain ⟨k, r1⟩ := q1
      have ok1 := scriptReadC_amort.ok b k r1 h1
      simp only []
      by_cases hk : k.isEmpty = true
      · simp only [hk, if_true]
        refine ⟨by omega, ?_, by simp [Res.isOutOfFuel]⟩
        intro kvs r e
        simp at e
        obtain ⟨rfl, rfl⟩ := e
        simp only [List.length_nil]
        omega
      · simp only [hk, Bool.false_eq_true, if_false]
        have av := scriptReadC_amort.any r1
        cases h2 : (scriptReadC r1).1 with
        | none => simp only []; exact ⟨by omega, by simp, by simp [Res.isOutOfFuel]⟩
        | some q2 =>
          obtain ⟨v, r2⟩ := q2
          have ok2 := scriptReadC_amort.ok r1 v r2 h2
          obtain ⟨i1, i2, i3⟩ := ih r2
          simp only []
          cases h3 : (readKVsFuelC f r2).1 with
          | ok x =>
            obtain ⟨kvs, r3⟩ := x
            obtain ⟨j1, j2⟩ := i2 kvs r3 h3
            simp only []
            refine ⟨by omega, ?_, by simp [Res.isOutOfFuel]⟩
            intro kvs' r e
            simp at e
            obtain ⟨rfl, rfl⟩ := e
            simp only [List.length_cons]
            omega
          | reject => simp only []; exact ⟨by omega, by simp, by simp [Res.isOutOfFuel]⟩
          | outOfFuel =>
            simp only []
            refine ⟨by omega, by simp, ?_⟩
            intro hf
            have := i3 (by omega)
            simp [h3, Res.isOutOfFuel] at this

theorem readKVsC_fst (b : Bytes) : (readKVsC b).1.toOption = readKVs b := readKVsFuelC_fst _ b

theorem readInsC_fst (ko : KeyOps) (sha : Bytes → Bytes) (compress : Nat) (tx : Option Tx) :
    ∀ (n i : Nat) (b : Bytes), (readInsC ko sha compress tx n i b).1 = readIns ko sha compress tx n i b := by
  intro n
  induction n with
  | zero => intro i b; rfl
  | succ n ih =>
    intro i b
    simp only [readInsC, readIns, readKVsC_fst, ih]
    repeat' (split <;> (try simp only [*]))
    all_goals first | rfl | simp_all

theorem readOutsC_fst (ko : KeyOps) (tx : Option Tx) :
    ∀ (n i : Nat) (b : Bytes), (readOutsC ko tx n i b).1 = readOuts ko tx n i b := by
  intro n
  induction n with
  | zero => intro i b; rfl
  | succ n ih =>
    intro i b
    simp only [readOutsC, readOuts, readKVsC_fst, ih]
    repeat' (split <;> (try simp only [*]))
    all_goals first | rfl | simp_all

theorem psbtParseC_fst (ko : KeyOps) (sha : Bytes → Bytes) (compress : Nat) (b : Bytes) :
    (psbtParseC ko sha compress b).1 = Psbt.parse ko sha compress b := by
  unfold psbtParseC Psbt.parse
  simp only [readKVsC_fst, readInsC_fst, readOutsC_fst]
  repeat' (split <;> (try simp only [*]))
  all_goals first | rfl | simp_all

theorem toOption_some {α : Type} {x : Res α} {a : α} (h : x.toOption = some a) : x = .ok a := by
  cases x <;> simp [Res.toOption] at h ⊢
  exact h

/-- one scope: steps ≤ 5·|b| + 8 whatever happens; accepted ⇒ ≤ 5 steps per byte consumed and fewer pairs than bytes
    consumed; with the model's fuel `|b| + 1` the answer is never "out of fuel" -/
theorem readKVsC_bound (b : Bytes) :
    (readKVsC b).2 ≤ 5 * b.length + 8 ∧
    (∀ kvs r, (readKVsC b).1 = .ok (kvs, r) →
      (readKVsC b).2 + 5 * r.length ≤ 5 * b.length ∧ kvs.length + r.length < b.length) := by
  obtain ⟨h1, h2, _⟩ := readKVsFuelC_bound (b.length + 1) b
  exact ⟨h1, h2⟩

theorem readKVsC_fuel (b : Bytes) : (readKVsC b).1.isOutOfFuel = false :=
  (readKVsFuelC_bound (b.length + 1) b).2.2 (by omega)

theorem readInsC_bound (ko : KeyOps) (sha : Bytes → Bytes) (compress : Nat) (tx : Option Tx) :
    ∀ (n i : Nat) (b : Bytes),
      (readInsC ko sha compress tx n i b).2 ≤ 6 * b.length + 9 ∧
      ∀ ss r, (readInsC ko sha compress tx n i b).1 = some (ss, r) →
        (readInsC ko sha compress tx n i b).2 + 6 * r.length ≤ 6 * b.length ∧ ss.length + r.length ≤ b.length := by
  intro n
  induction n with
  | zero => intro i b; simp [readInsC]
  | succ n ih =>
    intro i b
    simp only [readInsC]
    obtain ⟨k1, k2⟩ := readKVsC_bound b
    cases h1 : (readKVsC b).1.toOption with
    | none => fail_leaf
    | some q1 =>
      obtain ⟨kvs, r⟩ := q1
      obtain ⟨j1, j2⟩ := k2 kvs r (toOption_some h1)
      simp only []
      cases h2 : InScope.addPairs ko sha compress (seedIn tx i) kvs with
      | none => fail_leaf
      | some s =>
        obtain ⟨i1, i2⟩ := ih (i+1) r
        simp only []
        cases h3 : (readInsC ko sha compress tx n (i+1) r).1 with
        | none => fail_leaf
        | some q3 =>
          obtain ⟨ss, r'⟩ := q3
          obtain ⟨l1, l2⟩ := i2 ss r' h3
          simp only []
          refine ⟨by omega, ?_⟩
          intro ss' r'' e
          simp at e
          obtain ⟨rfl, rfl⟩ := e
          simp only [List.length_cons]
          omega

theorem readOutsC_bound (ko : KeyOps) (tx : Option Tx) :
    ∀ (n i : Nat) (b : Bytes),
      (readOutsC ko tx n i b).2 ≤ 6 * b.length + 9 ∧
      ∀ ss r, (readOutsC ko tx n i b).1 = some (ss, r) →
        (readOutsC ko tx n i b).2 + 6 * r.length ≤ 6 * b.length ∧ ss.length + r.length ≤ b.length := by
  intro n
  induction n with
  | zero => intro i b; simp [readOutsC]
  | succ n ih =>
    intro i b
    simp only [readOutsC]
    obtain ⟨k1, k2⟩ := readKVsC_bound b
    cases h1 : (readKVsC b).1.toOption with
    | none => fail_leaf
    | some q1 =>
      obtain ⟨kvs, r⟩ := q1
      obtain ⟨j1, j2⟩ := k2 kvs r (toOption_some h1)
      simp only []
      cases h2 : OutScope.addPairs ko (seedOut tx i) kvs with
      | none => fail_leaf
      | some s =>
        obtain ⟨i1, i2⟩ := ih (i+1) r
        simp only []
        cases h3 : (readOutsC ko tx n (i+1) r).1 with
        | none => fail_leaf
        | some q3 =>
          obtain ⟨ss, r'⟩ := q3
          obtain ⟨l1, l2⟩ := i2 ss r' h3
          simp only []
          refine ⟨by omega, ?_⟩
          intro ss' r'' e
          simp at e
          obtain ⟨rfl, rfl⟩ := e
          simp only [List.length_cons]
          omega

theorem psbtParseC_bound (ko : KeyOps) (sha : Bytes → Bytes) (compress : Nat) (b : Bytes) :
    (psbtParseC ko sha compress b).2 ≤ 7 * b.length + 12 := by
  unfold psbtParseC
  cases h0 : takeN 5 b with
  | none => simp only []; omega
  | some q0 =>
    obtain ⟨m, r0⟩ := q0
    have := takeN_len h0
    simp only []
    split
    · simp only []; omega
    · obtain ⟨k1, k2⟩ := readKVsC_bound r0
      cases h1 : (readKVsC r0).1.toOption with
      | none => simp only []; omega
      | some q1 =>
        obtain ⟨gkvs, r1⟩ := q1
        obtain ⟨j1, j2⟩ := k2 gkvs r1 (toOption_some h1)
        simp only []
        cases h2 : globalFold none none [] gkvs with
        | none => simp only []; omega
        | some q2 =>
          obtain ⟨tx, ver, unk⟩ := q2
          simp only []
          split
          · simp only []; omega
          · split
            · simp only []; omega
            · split
              · simp only []; omega
              · rename_i g hg
                obtain ⟨a1, a2⟩ := readInsC_bound ko sha compress tx (g.nin.getD 0) 0 r1
                cases h3 : (readInsC ko sha compress tx (g.nin.getD 0) 0 r1).1 with
                | none => simp only []; omega
                | some q3 =>
                  obtain ⟨ins, r2⟩ := q3
                  obtain ⟨a3, a4⟩ := a2 ins r2 h3
                  obtain ⟨b1, b2⟩ := readOutsC_bound ko tx (g.nout.getD 0) 0 r2
                  simp only []
                  cases h4 : (readOutsC ko tx (g.nout.getD 0) 0 r2).1 with
                  | none => simp only []; omega
                  | some q4 =>
                    obtain ⟨outs, r3⟩ := q4
                    obtain ⟨b3, b4⟩ := b2 outs r3 h4
                    simp only []
                    split <;> (simp only []; omega)

/-! ### `Transaction.read_vout` -/

theorem readVoutC_fst (sha : Bytes → Bytes) (idx : Nat) (b : Bytes) :
    (readVoutC sha idx b).1 = Tx.readVout sha idx b := by
  unfold readVoutC Tx.readVout
  simp only [readManyC_fst, erase_txIn, erase_txOut, erase_witness]
  cases takeN 4 b with
  | none => rfl
  | some q1 =>
    obtain ⟨ver, r1⟩ := q1
    simp only []
    cases Compact.read r1 with
    | none => rfl
    | some q2 =>
      obtain ⟨n0, r2⟩ := q2
      simp only []
      generalize (if n0 = 0 then
          match takeN 1 r2 with
          | none => none
          | some (flag, r3) =>
            if flag ≠ [1] then none else
            match Compact.read r3 with
            | none => none
            | some (n, r4) => some (true, n, r4)
        else some (false, n0, r2) : Option (Bool × Nat × Bytes)) = am
      cases am with
      | none => rfl
      | some q3 =>
        obtain ⟨isSegwit, n, r4⟩ := q3
        simp only []
        cases readMany TxIn.read n r4 with
        | none => rfl
        | some q5 =>
          obtain ⟨vin, r5⟩ := q5
          simp only []
          cases Compact.read r5 with
          | none => rfl
          | some q6 =>
            obtain ⟨m, r6⟩ := q6
            simp only []
            split
            · rfl
            · cases readMany TxOut.read m r6 with
              | none => rfl
              | some q7 =>
                obtain ⟨vout, r7⟩ := q7
                simp only []
                generalize (if isSegwit = true then
                    match readMany witnessRead n r7 with
                    | none => none
                    | some (wits, r8) => if wits.all (fun w => w.isEmpty) = true then none else some r8
                  else some r7 : Option Bytes) = wp
                cases wp with
                | none => rfl
                | some r8 =>
                  simp only []
                  cases takeN 4 r8 with
                  | none => rfl
                  | some q9 =>
                    obtain ⟨lt, r9⟩ := q9
                    simp only []
                    cases vout[idx]? with
                    | none => rfl
                    | some o => rfl

theorem readVoutC_bound (sha : Bytes → Bytes) (idx : Nat) (b : Bytes) :
    (readVoutC sha idx b).2 ≤ 5 * b.length + 12 := by
  unfold readVoutC
  cases h1 : takeN 4 b with
  | none => simp only []; omega
  | some q1 =>
    obtain ⟨ver, r1⟩ := q1
    have := takeN_len h1
    simp only []
    cases h2 : Compact.read r1 with
    | none => simp only []; omega
    | some q2 =>
      obtain ⟨n0, r2⟩ := q2
      have := compact_len h2
      simp only []
      generalize ham : (if n0 = 0 then
          match takeN 1 r2 with
          | none => none
          | some (flag, r3) =>
            if flag ≠ [1] then none else
            match Compact.read r3 with
            | none => none
            | some (n, r4) => some (true, n, r4)
        else some (false, n0, r2) : Option (Bool × Nat × Bytes)) = am
      cases am with
      | none => simp only []; omega
      | some q3 =>
        obtain ⟨isSegwit, n, r4⟩ := q3
        have hr4 : r4.length ≤ r2.length := by
          split at ham
          · split at ham
            · simp at ham
            · rename_i flag r3 h3
              have := takeN_len h3
              split at ham
              · simp at ham
              · split at ham
                · simp at ham
                · rename_i n' r4' h4
                  have := compact_len h4
                  simp at ham
                  obtain ⟨_, _, rfl⟩ := ham
                  omega
          · simp at ham
            obtain ⟨_, _, rfl⟩ := ham
            omega
        simp only []
        have bi := readManyC_bound 8 _ txInReadC_amort n r4
        cases h5 : (readManyC txInReadC n r4).1 with
        | none => have := bi.2; simp only []; omega
        | some q5 =>
          obtain ⟨vin, r5⟩ := q5
          have := (bi.1 vin r5 h5).1
          simp only []
          cases h6 : Compact.read r5 with
          | none => simp only []; omega
          | some q6 =>
            obtain ⟨m, r6⟩ := q6
            have := compact_len h6
            simp only []
            split
            · simp only []; omega
            · have bo := readManyC_bound 8 _ txOutReadC_amort m r6
              cases h7 : (readManyC txOutReadC m r6).1 with
              | none => have := bo.2; simp only []; omega
              | some q7 =>
                obtain ⟨vout, r7⟩ := q7
                have := (bo.1 vout r7 h7).1
                have bw := (readManyC_bound 8 _ witnessReadC_amort n r7).2
                have hcw : (if isSegwit = true then (readManyC witnessReadC n r7).2 else 0) ≤ 5 * r7.length + 8 := by
                  split <;> omega
                simp only []
                repeat' split
                all_goals (simp only []; omega)

end Embit.Model.CostBin
