import EmbitModel.Proofs.PsbtSerScope
/-
  C04 (deepening): serialise-then-parse of a whole PSBT object (both versions).
-/
set_option linter.unusedSimpArgs false
set_option linter.unusedVariables false
namespace Embit
open Model Spec.Wire

/-! ### scopes in sequence -/

theorem readIns_write (ko : KeyOps) (sha : Bytes → Bytes) (tx : Option Tx) (version : Option Nat) :
    ∀ (ins : List InScope) (i : Nat) (r : Bytes), (∀ s ∈ ins, InWF ko s) →
      (∀ (j : Nat) (s : InScope), ins[j]? = some s → seedIn tx (i + j) = InScope.seedOf version s) →
      readIns ko sha 0 tx ins.length i (ins.flatMap (fun s => writeKVs (s.pairs version)) ++ r) = some (ins, r) := by
  intro ins
  induction ins with
  | nil => intro i r _ _; simp [readIns]
  | cons s ins ih =>
    intro i r hwf hseed
    have h1 := readKVs_write (s.pairs version) (ins.flatMap (fun s => writeKVs (s.pairs version)) ++ r)
      (InScope.pairs_wf ko version s (hwf s (by simp)))
    have h2 := InScope.addPairs_pairs ko sha version s (hwf s (by simp))
    have h3 : seedIn tx i = InScope.seedOf version s := by simpa using hseed 0 s (by simp)
    have h4 := ih (i + 1) r (fun x hx => hwf x (by simp [hx])) (fun j x hx => by
      have := hseed (j + 1) x (by simpa using hx)
      rwa [show i + (j + 1) = i + 1 + j by omega] at this)
    simp only [List.flatMap_cons, List.append_assoc, List.length_cons, readIns, h1, h3, h2, h4]

theorem readOuts_write (ko : KeyOps) (tx : Option Tx) (version : Option Nat) :
    ∀ (outs : List OutScope) (i : Nat) (r : Bytes), (∀ s ∈ outs, OutWF ko s) →
      (∀ (j : Nat) (s : OutScope), outs[j]? = some s → seedOut tx (i + j) = OutScope.seedOf version s) →
      readOuts ko tx outs.length i (outs.flatMap (fun s => writeKVs (s.pairs version)) ++ r) = some (outs, r) := by
  intro outs
  induction outs with
  | nil => intro i r _ _; simp [readOuts]
  | cons s outs ih =>
    intro i r hwf hseed
    have h1 := readKVs_write (s.pairs version) (outs.flatMap (fun s => writeKVs (s.pairs version)) ++ r)
      (OutScope.pairs_wf ko version s (hwf s (by simp)))
    have h2 := OutScope.addPairs_pairs ko version s (hwf s (by simp))
    have h3 : seedOut tx i = OutScope.seedOf version s := by simpa using hseed 0 s (by simp)
    have h4 := ih (i + 1) r (fun x hx => hwf x (by simp [hx])) (fun j x hx => by
      have := hseed (j + 1) x (by simpa using hx)
      rwa [show i + (j + 1) = i + 1 + j by omega] at this)
    simp only [List.flatMap_cons, List.append_assoc, List.length_cons, readOuts, h1, h3, h2, h4]

/-! ### the global fold over what `write_to` emits -/

theorem globalFold_unknown_seg : ∀ (l : List KV) (tx : Option Tx) (ver : Option Nat) (unk rest : List KV),
    (∀ kv ∈ l, notTxVer kv = true) → ((unk ++ l).map Prod.fst).Nodup →
    globalFold tx ver unk (l ++ rest) = globalFold tx ver (unk ++ l) rest := by
  intro l
  induction l with
  | nil => intro tx ver unk rest _ _; simp
  | cons kv l ih =>
    intro tx ver unk rest hk hn
    obtain ⟨k, v⟩ := kv
    obtain ⟨hp, hn'⟩ := nodup_snoc_split _ _ _ _ hn
    have := hk (k, v) (by simp)
    simp only [notTxVer, Bool.and_eq_true, Bool.not_eq_true', beq_eq_false_iff_ne, ne_eq] at this
    simp only [List.cons_append, globalFold, this.1, this.2, if_false, hp, Option.isSome_none, Bool.false_eq_true]
    rw [ih _ _ _ _ (fun x hx => hk x (by simp [hx])) hn']
    simp [List.append_assoc]

theorem globalFold_tx_step (t : Tx) (hwf : WF t) (hu : Unsigned t) (ver : Option Nat) (unk rest : List KV) :
    globalFold none ver unk (([0x00], Tx.ser t) :: rest) = globalFold (some t) ver unk rest := by
  have h1 := Props.C03.parse_ser t hwf
  have h2 : (t.vin.any fun i => !i.scriptSig.isEmpty || !i.witness.isEmpty) = false := by
    rw [List.any_eq_false]
    intro i hi
    obtain ⟨a, b⟩ := hu i hi
    simp [a, b]
  simp [globalFold, h1, h2]

theorem globalFold_ver_step (tx : Option Tx) (o : Option Nat) (ho : OptP (· < 2^32) o) (unk rest : List KV) :
    globalFold tx none unk (optKV [0xfb] (o.map (leN 4)) ++ rest) = globalFold tx o unk rest := by
  cases o with
  | none => simp [optKV]
  | some n =>
    have := ofLe_leN 4 n (by simp at ho; omega)
    simp [optKV, globalFold, this]

/-! ### `parse_unknowns` over what `write_to` emits -/

theorem parseUnknowns_append (ko : KeyOps) (isV2 : Bool) : ∀ (a b : List KV) (g : GState),
    parseUnknowns ko isV2 g (a ++ b) = (parseUnknowns ko isV2 g a).bind (fun g' => parseUnknowns ko isV2 g' b) := by
  intro a
  induction a with
  | nil => intro b g; simp [parseUnknowns]
  | cons kv a ih =>
    intro b g
    obtain ⟨k, v⟩ := kv
    simp only [List.cons_append, parseUnknowns]
    split
    · exact ih _ _
    · split
      · split
        · rfl
        · split
          · rfl
          · exact ih _ _
      · split
        · split
          · rfl
          · exact ih _ _
        · split
          · split
            · rfl
            · exact ih _ _
          · split
            · split
              · rfl
              · exact ih _ _
            · split
              · split
                · rfl
                · exact ih _ _
              · exact ih _ _

theorem pu_bind_step {ko : KeyOps} {isV2 : Bool} {g g' : GState} {a b : List KV} {r : Option GState}
    (h1 : parseUnknowns ko isV2 g a = some g') (h2 : parseUnknowns ko isV2 g' b = r) :
    parseUnknowns ko isV2 g (a ++ b) = r := by
  rw [parseUnknowns_append, h1]; exact h2

theorem pu_step_xpubs (ko : KeyOps) (isV2 : Bool) : ∀ (l : List (Bytes × Deriv)) (g : GState),
    (∀ e ∈ l, ko.validXpub e.1 = true ∧ DerivWF e.2) →
    parseUnknowns ko isV2 g (l.map (fun e => (0x01 :: e.1, Deriv.ser e.2))) = some { g with xpubs := g.xpubs ++ l } := by
  intro l
  induction l with
  | nil => intro g _; simp [parseUnknowns]
  | cons e l ih =>
    intro g hv
    obtain ⟨x, d⟩ := e
    obtain ⟨a1, a2⟩ := hv (x, d) (by simp)
    simp only [List.map_cons, parseUnknowns, if_true, a1, Deriv.parse_ser d a2, Bool.not_true, Bool.false_eq_true,
      if_false]
    rw [ih _ (fun y hy => hv y (by simp [hy]))]
    simp [List.append_assoc]

theorem pu_step_txver (ko : KeyOps) (g : GState) (o : Option Nat) (ho : OptP (· < 2^32) o) (hg : g.txVersion = none) :
    parseUnknowns ko true g (optKV [0x02] (o.map (leN 4))) = some { g with txVersion := o } := by
  cases o with
  | none => cases g; simp at hg; subst hg; rfl
  | some n =>
    have := ofLe_leN 4 n (by simp at ho; omega)
    simp [optKV, parseUnknowns, this]

theorem pu_step_locktime (ko : KeyOps) (g : GState) (o : Option Nat) (ho : OptP (· < 2^32) o) (hg : g.locktime = none) :
    parseUnknowns ko true g (optKV [0x03] (o.map (leN 4))) = some { g with locktime := o } := by
  cases o with
  | none => cases g; simp at hg; subst hg; rfl
  | some n =>
    have := ofLe_leN 4 n (by simp at ho; omega)
    simp [optKV, parseUnknowns, this]

theorem parseAll_compact_enc (n : Nat) (h : n < 2^64) : parseAll Compact.read (Compact.enc n) = some n := by
  have := Compact.read_enc n [] h
  simp only [List.append_nil] at this
  simp [parseAll, this]

theorem pu_step_counts (ko : KeyOps) (g : GState) (a b : Nat) (ha : a < 2^64) (hb : b < 2^64) :
    parseUnknowns ko true g [([0x04], Compact.enc a), ([0x05], Compact.enc b)]
      = some { g with nin := some a, nout := some b } := by
  simp [parseUnknowns, parseAll_compact_enc a ha, parseAll_compact_enc b hb]

theorem parseUnknowns_unknown_step (ko : KeyOps) (isV2 : Bool) (g : GState) (k v : Bytes) (rest : List KV)
    (hk : unkKeyGlobal isV2 k = true) :
    parseUnknowns ko isV2 g ((k, v) :: rest) = parseUnknowns ko isV2 { g with unknown := g.unknown ++ [(k, v)] } rest := by
  cases k with
  | nil => simp [unkKeyGlobal] at hk
  | cons k0 kr =>
    simp only [unkKeyGlobal, Bool.and_eq_true, Bool.not_eq_true', beq_eq_false_iff_ne, ne_eq] at hk
    obtain ⟨⟨⟨h1, h0⟩, hfb⟩, hv2⟩ := hk
    cases isV2 with
    | false => simp [parseUnknowns, h1]
    | true =>
      simp only [Bool.true_and, Bool.or_eq_false_iff, beq_eq_false_iff_ne, ne_eq] at hv2
      obtain ⟨⟨⟨t2, t3⟩, t4⟩, t5⟩ := hv2
      simp [parseUnknowns, h1, t2, t3, t4, t5]

theorem pu_step_unknown (ko : KeyOps) (isV2 : Bool) : ∀ (l : List KV) (g : GState),
    (∀ kv ∈ l, unkKeyGlobal isV2 kv.1 = true) →
    parseUnknowns ko isV2 g l = some { g with unknown := g.unknown ++ l } := by
  intro l
  induction l with
  | nil => intro g _; simp [parseUnknowns]
  | cons e l ih =>
    intro g hv
    obtain ⟨k, v⟩ := e
    rw [parseUnknowns_unknown_step ko isV2 g k v l (hv (k, v) (by simp))]
    rw [ih _ (fun x hx => hv x (by simp [hx]))]
    simp [List.append_assoc]

/-! ### `PSBT.parse` from its parts -/

theorem Psbt.parse_of_parts (ko : KeyOps) (sha : Bytes → Bytes) (c : Nat) (g : List KV) (rest : Bytes)
    (tx : Option Tx) (ver : Option Nat) (unk : List KV) (gs : GState) (ins : List InScope) (outs : List OutScope)
    (r2 : Bytes)
    (hg : ∀ kv ∈ g, KVWF kv)
    (hgf : globalFold none none [] g = some (tx, ver, unk))
    (hc1 : (tx.isSome && ver == some 2) = false) (hc2 : (tx.isNone && !(ver == some 2)) = false)
    (hpu : parseUnknowns ko (ver == some 2) (gstate0 tx) unk = some gs)
    (hins : readIns ko sha c tx (gs.nin.getD 0) 0 rest = some (ins, r2))
    (houts : readOuts ko tx (gs.nout.getD 0) 0 r2 = some (outs, [])) :
    Psbt.parse ko sha c (psbtMagic ++ (writeKVs g ++ rest))
      = some { version := ver, txVersion := gs.txVersion, locktime := gs.locktime, xpubs := gs.xpubs,
               unknown := gs.unknown, inputs := ins, outputs := outs } := by
  have h1 : takeN 5 (psbtMagic ++ (writeKVs g ++ rest)) = some (psbtMagic, writeKVs g ++ rest) :=
    takeN_append psbtMagic _
  have h2 := readKVs_write g rest hg
  have hpu' : parseUnknowns ko (ver == some 2)
      { txVersion := tx.map (·.version), locktime := tx.map (·.locktime), nin := tx.map (·.vin.length),
        nout := tx.map (·.vout.length), xpubs := [], unknown := [] } unk = some gs := hpu
  unfold Psbt.parse
  simp only [h1, h2, hgf, hc1, hc2, hpu', hins, houts]
  simp

/-! ### the unsigned transaction of a version-0 object -/

theorem optAll_map_some {α β : Type} (f : α → Option β) : ∀ (l : List α), (∀ a ∈ l, (f a).isSome = true) →
    ∃ r, optAll (l.map f) = some r ∧ r.length = l.length
      ∧ (∀ (j : Nat) (a : α), l[j]? = some a → ∃ b, r[j]? = some b ∧ f a = some b)
      ∧ (∀ b ∈ r, ∃ a ∈ l, f a = some b) := by
  intro l
  induction l with
  | nil => intro _; exact ⟨[], rfl, rfl, by simp, by simp⟩
  | cons a l ih =>
    intro h
    obtain ⟨r, h1, h2, h3, h4⟩ := ih (fun x hx => h x (by simp [hx]))
    have ha := h a (by simp)
    cases hfa : f a with
    | none => simp [hfa] at ha
    | some b =>
      refine ⟨b :: r, by simp [optAll, hfa, h1], by simp [h2], ?_, ?_⟩
      · intro j x hx
        cases j with
        | zero => simp at hx; subst hx; exact ⟨b, by simp, hfa⟩
        | succ j => obtain ⟨y, hy1, hy2⟩ := h3 j x (by simpa using hx); exact ⟨y, by simpa using hy1, hy2⟩
      · intro y hy
        simp at hy
        rcases hy with rfl | hy
        · exact ⟨a, by simp, hfa⟩
        · obtain ⟨x, hx1, hx2⟩ := h4 y hy; exact ⟨x, by simp [hx1], hx2⟩

/-- version 0: the object describes a well-formed unsigned transaction, and the seeds `read_from` derives from
    it are the ones the scopes were written from -/
theorem Psbt.tx_of_v0 (ko : KeyOps) (p : Psbt) (h : PsbtWF ko p) (hv : p.version ≠ some 2) :
    ∃ t, p.tx = some t ∧ WF t ∧ Unsigned t ∧ p.txVersion = some t.version ∧ p.locktime = some t.locktime
      ∧ t.vin.length = p.inputs.length ∧ t.vout.length = p.outputs.length
      ∧ (∀ (j : Nat) (s : InScope), p.inputs[j]? = some s → seedIn (some t) j = InScope.seedOf p.version s)
      ∧ (∀ (j : Nat) (s : OutScope), p.outputs[j]? = some s → seedOut (some t) j = OutScope.seedOf p.version s) := by
  have h0 := h.v0 hv
  obtain ⟨vin, i1, i2, i3, i4⟩ := optAll_map_some InScope.vin p.inputs (fun s hs => by
    obtain ⟨a, b, c⟩ := h0.ins s hs
    cases ht : s.txid with
    | none => simp [ht] at a
    | some t => cases hn : s.vout with
      | none => simp [hn] at b
      | some n => simp [InScope.vin, ht, hn])
  obtain ⟨vout, o1, o2, o3, o4⟩ := optAll_map_some OutScope.vout p.outputs (fun s hs => by
    obtain ⟨a, b⟩ := h0.outs s hs
    cases ht : s.value with
    | none => simp [ht] at a
    | some t => cases hn : s.spk with
      | none => simp [hn] at b
      | some n => simp [OutScope.vout, ht, hn])
  obtain ⟨tv, htv⟩ := Option.isSome_iff_exists.mp h0.txVersion
  obtain ⟨lt, hlt⟩ := Option.isSome_iff_exists.mp h0.locktime
  refine ⟨{ version := tv, vin := vin, vout := vout, locktime := lt }, by simp [Psbt.tx, i1, o1, htv, hlt], ?_, ?_,
    htv, hlt, i2, o2, ?_, ?_⟩
  · -- well-formed
    have := h.txVersion; have := h.locktime; have := h.nin; have := h.nout; have := h0.nin
    refine ⟨by simp_all, by simp_all, by simp; omega, by simp; omega, by simp; omega, ?_, ?_⟩
    · intro vi hvi
      obtain ⟨s, hs, e⟩ := i4 vi hvi
      have hw := h.ins s hs
      unfold InScope.vin at e
      split at e
      · rename_i t n ht hn
        simp at e; subst e
        have a1 := hw.txid; have a2 := hw.vout; have a3 := hw.sequence
        rw [ht] at a1; rw [hn] at a2
        refine ⟨a1, a2, by simp, ?_, by simp, by simp⟩
        cases hq : s.sequence with
        | none => simp
        | some q => rw [hq] at a3; simpa using a3
      · simp at e
    · intro vo hvo
      obtain ⟨s, hs, e⟩ := o4 vo hvo
      have hw := h.outs s hs
      unfold OutScope.vout at e
      split at e
      · rename_i v sc hv' hs'
        simp at e; subst e
        have a1 := hw.value; have a2 := hw.spk
        rw [hv'] at a1; rw [hs'] at a2
        exact ⟨a1, a2⟩
      · simp at e
  · -- unsigned
    intro vi hvi
    obtain ⟨s, hs, e⟩ := i4 vi hvi
    unfold InScope.vin at e
    split at e
    · simp at e; subst e; simp
    · simp at e
  · intro j s hs
    obtain ⟨vi, hvi, e⟩ := i3 j s hs
    obtain ⟨a, b, c⟩ := h0.ins s (List.mem_of_getElem? hs)
    obtain ⟨q, hq⟩ := Option.isSome_iff_exists.mp c
    unfold InScope.vin at e
    split at e
    · rename_i t n ht hn
      simp at e; subst e
      simp [seedIn, hvi, InScope.seedOf, hv, ht, hn, hq]
    · simp at e
  · intro j s hs
    obtain ⟨vo, hvo, e⟩ := o3 j s hs
    unfold OutScope.vout at e
    split at e
    · rename_i v sc hv' hs'
      simp at e; subst e
      simp [seedOut, hvo, OutScope.seedOf, hv, hv', hs']
    · simp at e

/-! ### the global scope `write_to` emits -/

/-- the xpub pairs -/
def Model.Psbt.xpubPairs (p : Psbt) : List KV := p.xpubs.map (fun e => (0x01 :: e.1, Deriv.ser e.2))

/-- the PSBTv2-only global fields -/
def Model.Psbt.v2Pairs (p : Psbt) : List KV :=
  optKV [0x02] (p.txVersion.map (leN 4)) ++ optKV [0x03] (p.locktime.map (leN 4))
  ++ [([0x04], Compact.enc p.inputs.length), ([0x05], Compact.enc p.outputs.length)]

theorem Psbt.globalPairs_v2 (p : Psbt) (hv : p.version = some 2) :
    p.globalPairs = some (p.xpubPairs ++ p.v2Pairs ++ optKV [0xfb] (p.version.map (leN 4)) ++ p.unknown) := by
  simp only [Psbt.globalPairs, hv, beq_self_eq_true, Bool.not_true, Bool.false_eq_true, if_false, if_true,
    Option.map_some, List.nil_append]
  rfl

theorem Psbt.globalPairs_v0 (p : Psbt) (hv : p.version ≠ some 2) (t : Tx) (ht : p.tx = some t) :
    p.globalPairs = some (([0x00], Tx.ser t) :: (p.xpubPairs ++ optKV [0xfb] (p.version.map (leN 4)) ++ p.unknown)) := by
  have : (p.version == some 2) = false := by simp [hv]
  simp only [Psbt.globalPairs, this, Bool.not_false, if_true, ht, Option.map_some, Bool.false_eq_true, if_false,
    List.append_nil]
  rfl

theorem nodup_map_cons {α : Type} (a : α) : ∀ (l : List (List α)), l.Nodup → (l.map (fun x => a :: x)).Nodup := by
  intro l
  induction l with
  | nil => intro _; simp
  | cons x l ih =>
    intro h
    simp only [List.nodup_cons] at h
    simp only [List.map_cons, List.nodup_cons]
    refine ⟨?_, ih h.2⟩
    intro hm
    obtain ⟨y, hy, e⟩ := List.mem_map.mp hm
    simp at e; subst e; exact h.1 hy

theorem xpubPairs_props (ko : KeyOps) (p : Psbt) (h : PsbtWF ko p) :
    (∀ kv ∈ p.xpubPairs, KVWF kv ∧ notTxVer kv = true ∧ ∃ x, kv.1 = 0x01 :: x) ∧ (p.xpubPairs.map Prod.fst).Nodup := by
  refine ⟨?_, ?_⟩
  · intro kv hkv
    obtain ⟨e, he, rfl⟩ := List.mem_map.mp hkv
    obtain ⟨a1, a2, a3⟩ := h.xpubs e he
    exact ⟨⟨by simp, a2, a3.2.2⟩, by simp [notTxVer], e.1, rfl⟩
  · have : p.xpubPairs.map Prod.fst = (p.xpubs.map Prod.fst).map (fun x => 0x01 :: x) := by
      simp [Psbt.xpubPairs, List.map_map, Function.comp_def]
    rw [this]
    exact nodup_map_cons _ _ h.xpubsNodup

theorem v2Pairs_props (ko : KeyOps) (p : Psbt) (h : PsbtWF ko p) :
    (∀ kv ∈ p.v2Pairs, KVWF kv ∧ notTxVer kv = true
        ∧ (kv.1 = [0x02] ∨ kv.1 = [0x03] ∨ kv.1 = [0x04] ∨ kv.1 = [0x05])) ∧ (p.v2Pairs.map Prod.fst).Nodup := by
  have c1 : ∀ n : Nat, Fits (Compact.enc n) := by
    intro n; unfold Fits Compact.enc; split
    · simp
    · split
      · simp
      · split <;> simp
  refine ⟨?_, ?_⟩
  · intro kv hkv
    simp only [Psbt.v2Pairs, List.mem_append, List.mem_cons, List.mem_nil_iff, or_false] at hkv
    rcases hkv with ((hkv | hkv) | (rfl | rfl))
    · cases htv : p.txVersion with
      | none => simp [htv, optKV] at hkv
      | some n => simp [htv, optKV] at hkv; subst hkv; exact ⟨⟨by simp, by simp, by simp [Fits]⟩, rfl, by simp⟩
    · cases htv : p.locktime with
      | none => simp [htv, optKV] at hkv
      | some n => simp [htv, optKV] at hkv; subst hkv; exact ⟨⟨by simp, by simp, by simp [Fits]⟩, rfl, by simp⟩
    · exact ⟨⟨by simp, by simp, c1 _⟩, rfl, by simp⟩
    · exact ⟨⟨by simp, by simp, c1 _⟩, rfl, by simp⟩
  · cases htv : p.txVersion <;> cases hlt : p.locktime <;> simp [Psbt.v2Pairs, optKV, htv, hlt]

theorem unkKeyGlobal_props (isV2 : Bool) (k : Bytes) (h : unkKeyGlobal isV2 k = true) :
    notTxVer (k, ([] : Bytes)) = true ∧ (∀ x, k ≠ 0x01 :: x)
      ∧ (isV2 = true → k ≠ [0x02] ∧ k ≠ [0x03] ∧ k ≠ [0x04] ∧ k ≠ [0x05]) := by
  cases k with
  | nil => simp [unkKeyGlobal] at h
  | cons k0 kr =>
    simp only [unkKeyGlobal, Bool.and_eq_true, Bool.not_eq_true', beq_eq_false_iff_ne, ne_eq] at h
    obtain ⟨⟨⟨h1, h0⟩, hfb⟩, hv2⟩ := h
    refine ⟨by simp only [notTxVer, Bool.and_eq_true, Bool.not_eq_true', beq_eq_false_iff_ne, ne_eq]; exact ⟨h0, hfb⟩, ?_, ?_⟩
    · intro x e; simp at e; exact h1 e.1
    · intro hv; subst hv
      simp only [Bool.true_and, Bool.or_eq_false_iff, beq_eq_false_iff_ne, ne_eq] at hv2
      obtain ⟨⟨⟨t2, t3⟩, t4⟩, t5⟩ := hv2
      exact ⟨t2, t3, t4, t5⟩

theorem notTxVer_key (k v w : Bytes) : notTxVer (k, v) = notTxVer (k, w) := rfl

theorem nodup_append_of {α : Type} {l1 l2 : List α} (h1 : l1.Nodup) (h2 : l2.Nodup)
    (h3 : ∀ a ∈ l1, ∀ b ∈ l2, a ≠ b) : (l1 ++ l2).Nodup := List.nodup_append.mpr ⟨h1, h2, h3⟩

/-- serialise-then-parse, PSBTv2 -/
theorem Psbt.parse_ser_v2 (ko : KeyOps) (sha : Bytes → Bytes) (p : Psbt) (h : PsbtWF ko p)
    (hv : p.version = some 2) : ∃ b, Psbt.ser p = some b ∧ Psbt.parse ko sha 0 b = some p := by
  obtain ⟨x1, x2⟩ := xpubPairs_props ko p h
  obtain ⟨y1, y2⟩ := v2Pairs_props ko p h
  have hisv2 : (p.version == some 2) = true := by simp [hv]
  have hver : OptP (· < 2^32) p.version := h.version
  have z1 : ∀ kv ∈ p.unknown, KVWF kv ∧ notTxVer kv = true ∧ (∀ x, kv.1 ≠ 0x01 :: x)
      ∧ kv.1 ≠ [0x02] ∧ kv.1 ≠ [0x03] ∧ kv.1 ≠ [0x04] ∧ kv.1 ≠ [0x05] := by
    intro kv hkv
    obtain ⟨a, b⟩ := h.unknown kv hkv
    rw [hisv2] at b
    obtain ⟨c1, c2, c3⟩ := unkKeyGlobal_props true kv.1 b
    exact ⟨a, c1, c2, c3 rfl⟩
  -- keys of the pairs that reach `parse_unknowns` are distinct
  have hnd1 : ((p.xpubPairs ++ p.v2Pairs).map Prod.fst).Nodup := by
    rw [List.map_append]
    refine nodup_append_of x2 y2 ?_
    intro a ha b hb e
    obtain ⟨kv, hkv, rfl⟩ := List.mem_map.mp ha
    obtain ⟨kv', hkv', rfl⟩ := List.mem_map.mp hb
    obtain ⟨x, hx⟩ := (x1 kv hkv).2.2
    rcases (y1 kv' hkv').2.2 with e' | e' | e' | e' <;> (rw [hx, e'] at e; simp at e)
  have hnd2 : (((p.xpubPairs ++ p.v2Pairs) ++ p.unknown).map Prod.fst).Nodup := by
    rw [List.map_append]
    refine nodup_append_of hnd1 h.unknownNodup ?_
    intro a ha b hb e
    obtain ⟨kv, hkv, rfl⟩ := List.mem_map.mp ha
    obtain ⟨kv', hkv', rfl⟩ := List.mem_map.mp hb
    obtain ⟨_, _, c2, c3, c4, c5, c6⟩ := z1 kv' hkv'
    rcases List.mem_append.mp hkv with hkv | hkv
    · obtain ⟨x, hx⟩ := (x1 kv hkv).2.2
      exact c2 x (by rw [← e, hx])
    · rcases (y1 kv hkv).2.2 with e' | e' | e' | e'
      · exact c3 (by rw [← e, e'])
      · exact c4 (by rw [← e, e'])
      · exact c5 (by rw [← e, e'])
      · exact c6 (by rw [← e, e'])
  have hnt1 : ∀ kv ∈ p.xpubPairs ++ p.v2Pairs, notTxVer kv = true := by
    intro kv hkv
    rcases List.mem_append.mp hkv with hkv | hkv
    · exact (x1 kv hkv).2.1
    · exact (y1 kv hkv).2.1
  -- the global fold
  have hgf : globalFold none none []
      (p.xpubPairs ++ p.v2Pairs ++ optKV [0xfb] (p.version.map (leN 4)) ++ p.unknown)
      = some (none, p.version, (p.xpubPairs ++ p.v2Pairs) ++ p.unknown) := by
    rw [List.append_assoc (p.xpubPairs ++ p.v2Pairs), globalFold_unknown_seg _ _ _ _ _ hnt1 (by simpa using hnd1),
      globalFold_ver_step _ _ hver]
    have := globalFold_unknown_seg p.unknown none p.version ([] ++ (p.xpubPairs ++ p.v2Pairs)) []
      (fun kv hkv => (z1 kv hkv).2.1) (by simpa using hnd2)
    simp only [List.append_nil, List.nil_append] at this ⊢
    rw [this]; rfl
  -- `parse_unknowns`
  have hpu : parseUnknowns ko (p.version == some 2) (gstate0 none) ((p.xpubPairs ++ p.v2Pairs) ++ p.unknown)
      = some { txVersion := p.txVersion, locktime := p.locktime, nin := some p.inputs.length,
               nout := some p.outputs.length, xpubs := p.xpubs, unknown := p.unknown } := by
    rw [hisv2]
    exact pu_bind_step (pu_bind_step
      (pu_step_xpubs ko true p.xpubs (gstate0 none) (fun e he => ⟨(h.xpubs e he).1, (h.xpubs e he).2.2⟩))
      (pu_bind_step (pu_bind_step
        (pu_step_txver ko _ p.txVersion h.txVersion rfl)
        (pu_step_locktime ko _ p.locktime h.locktime rfl))
        (pu_step_counts ko _ p.inputs.length p.outputs.length h.nin h.nout)))
      (pu_step_unknown ko true p.unknown _ (fun kv hkv => by
        have := (h.unknown kv hkv).2; rwa [hisv2] at this))
  have hins := readIns_write ko sha none p.version p.inputs 0
    (p.outputs.flatMap (fun s => writeKVs (s.pairs p.version)) ++ []) h.ins
    (fun j s _ => by simp [seedIn, InScope.seedOf, hv])
  have houts := readOuts_write ko none p.version p.outputs 0 [] h.outs
    (fun j s _ => by simp [seedOut, OutScope.seedOf, hv])
  have hwf : ∀ kv ∈ p.xpubPairs ++ p.v2Pairs ++ optKV [0xfb] (p.version.map (leN 4)) ++ p.unknown, KVWF kv := by
    intro kv hkv
    simp only [List.mem_append] at hkv
    rcases hkv with ((hkv | hkv) | hkv) | hkv
    · exact (x1 kv hkv).1
    · exact (y1 kv hkv).1
    · exact optKV_wf _ _ ⟨by simp, by simp [Fits]⟩ (OptP_map hver (fun t ht => by simp [Fits])) kv hkv
    · exact (z1 kv hkv).1
  have hparse := Psbt.parse_of_parts ko sha 0 _ _ none p.version _ _ p.inputs p.outputs _ hwf hgf (by simp) (by simp [hv])
    hpu hins houts
  refine ⟨_, ?_, hparse⟩
  simp only [Psbt.ser, Psbt.globalPairs_v2 p hv, List.append_assoc, List.append_nil]

/-- serialise-then-parse, PSBTv0 -/
theorem Psbt.parse_ser_v0 (ko : KeyOps) (sha : Bytes → Bytes) (p : Psbt) (h : PsbtWF ko p)
    (hv : p.version ≠ some 2) : ∃ b, Psbt.ser p = some b ∧ Psbt.parse ko sha 0 b = some p := by
  obtain ⟨t, ht, twf, tun, tv, tl, tni, tno, sin, sout⟩ := Psbt.tx_of_v0 ko p h hv
  obtain ⟨x1, x2⟩ := xpubPairs_props ko p h
  have hisv2 : (p.version == some 2) = false := by simp [hv]
  have hver : OptP (· < 2^32) p.version := h.version
  have z1 : ∀ kv ∈ p.unknown, KVWF kv ∧ notTxVer kv = true ∧ (∀ x, kv.1 ≠ 0x01 :: x) := by
    intro kv hkv
    obtain ⟨a, b⟩ := h.unknown kv hkv
    obtain ⟨c1, c2, c3⟩ := unkKeyGlobal_props _ kv.1 b
    exact ⟨a, c1, c2⟩
  have hnd2 : ((p.xpubPairs ++ p.unknown).map Prod.fst).Nodup := by
    rw [List.map_append]
    refine nodup_append_of x2 h.unknownNodup ?_
    intro a ha b hb e
    obtain ⟨kv, hkv, rfl⟩ := List.mem_map.mp ha
    obtain ⟨kv', hkv', rfl⟩ := List.mem_map.mp hb
    obtain ⟨x, hx⟩ := (x1 kv hkv).2.2
    exact (z1 kv' hkv').2.2 x (by rw [← e, hx])
  have hgf : globalFold none none []
      (([0x00], Tx.ser t) :: (p.xpubPairs ++ optKV [0xfb] (p.version.map (leN 4)) ++ p.unknown))
      = some (some t, p.version, p.xpubPairs ++ p.unknown) := by
    rw [globalFold_tx_step t twf tun, List.append_assoc,
      globalFold_unknown_seg _ _ _ _ _ (fun kv hkv => (x1 kv hkv).2.1) (by simpa using x2),
      globalFold_ver_step _ _ hver]
    have := globalFold_unknown_seg p.unknown (some t) p.version ([] ++ p.xpubPairs) []
      (fun kv hkv => (z1 kv hkv).2.1) (by simpa using hnd2)
    simp only [List.append_nil, List.nil_append] at this ⊢
    rw [this]; rfl
  have hpu : parseUnknowns ko (p.version == some 2) (gstate0 (some t)) (p.xpubPairs ++ p.unknown)
      = some { txVersion := p.txVersion, locktime := p.locktime, nin := some p.inputs.length,
               nout := some p.outputs.length, xpubs := p.xpubs, unknown := p.unknown } := by
    rw [hisv2, tv, tl, ← tni, ← tno]
    exact pu_bind_step
      (pu_step_xpubs ko false p.xpubs (gstate0 (some t)) (fun e he => ⟨(h.xpubs e he).1, (h.xpubs e he).2.2⟩))
      (pu_step_unknown ko false p.unknown _ (fun kv hkv => by
        have := (h.unknown kv hkv).2; rwa [hisv2] at this))
  have hins := readIns_write ko sha (some t) p.version p.inputs 0
    (p.outputs.flatMap (fun s => writeKVs (s.pairs p.version)) ++ []) h.ins
    (fun j s hs => by simpa using sin j s hs)
  have houts := readOuts_write ko (some t) p.version p.outputs 0 [] h.outs
    (fun j s hs => by simpa using sout j s hs)
  have hwf : ∀ kv ∈ (([0x00], Tx.ser t) :: (p.xpubPairs ++ optKV [0xfb] (p.version.map (leN 4)) ++ p.unknown) : List KV),
      KVWF kv := by
    intro kv hkv
    simp only [List.mem_cons, List.mem_append] at hkv
    rcases hkv with rfl | ((hkv | hkv) | hkv)
    · have := (h.v0 hv).txFits
      rw [ht] at this
      exact ⟨by simp, by simp, this⟩
    · exact (x1 kv hkv).1
    · exact optKV_wf _ _ ⟨by simp, by simp [Fits]⟩ (OptP_map hver (fun t ht => by simp [Fits])) kv hkv
    · exact (z1 kv hkv).1
  have hparse := Psbt.parse_of_parts ko sha 0 _ _ (some t) p.version _ _ p.inputs p.outputs _ hwf hgf
    (by simp [hv]) (by simp) hpu hins houts
  refine ⟨_, ?_, hparse⟩
  simp only [Psbt.ser, Psbt.globalPairs_v0 p hv t ht, List.append_assoc, List.append_nil]

/-- serialise-then-parse is the identity on well-formed PSBT objects (both versions) -/
theorem Psbt.parse_ser (ko : KeyOps) (sha : Bytes → Bytes) (p : Psbt) (h : PsbtWF ko p) :
    ∃ b, Psbt.ser p = some b ∧ Psbt.parse ko sha 0 b = some p := by
  by_cases hv : p.version = some 2
  · exact Psbt.parse_ser_v2 ko sha p h hv
  · exact Psbt.parse_ser_v0 ko sha p h hv

end Embit
