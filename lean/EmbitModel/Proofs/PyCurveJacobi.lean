import EmbitModel.Model.PyCurve
import Mathlib.NumberTheory.LegendreSymbol.JacobiSymbol
/-
  key.py's `jacobi_symbol(n, k)` (binary algorithm: strip factors 2 with the supplementary law, swap with
  quadratic reciprocity, reduce) computes Mathlib's Jacobi symbol `J(n | k)` for every integer `n` and every odd
  `k > 0` — hence, for a prime `p`, `is_x_coord` decides whether `x³ + a x + b` is a square modulo `p`.
  The fuel of both loops is sufficient (the theorems state the value, not `none`).
-/
namespace Embit.Model.PyCurve
open NumberTheorySymbols

/-- `-1 if t else 1` -/
def sgn (t : Bool) : ℤ := if t then -1 else 1

theorem sgn_xor (t u : Bool) : sgn (t ^^ u) = sgn t * sgn u := by cases t <;> cases u <;> simp [sgn]

theorem and3_eq (a b : ℕ) : (a &&& b &&& 3 = 3) ↔ (a % 4 = 3 ∧ b % 4 = 3) := by
  have h := Nat.and_two_pow_sub_one_eq_mod (a &&& b) 2
  have h' : a &&& b &&& 3 = (a &&& b) % 4 := by simpa using h
  rw [h', show (4 : ℕ) = 2 ^ 2 from rfl, Nat.and_mod_two_pow]
  have key : ∀ x < 4, ∀ y < 4, (x &&& y = 3 ↔ x = 3 ∧ y = 3) := by decide
  exact key _ (Nat.mod_lt _ (by norm_num)) _ (Nat.mod_lt _ (by norm_num))

theorem and7_eq (k : ℕ) : k &&& 7 = k % 8 := by
  simpa using Nat.and_two_pow_sub_one_eq_mod k 3

/-- the inner loop: strips the factors 2 of `n`, flipping `t` by the second supplementary law -/
theorem jacobiStrip_spec (k : ℕ) (hk : k % 2 = 1) : ∀ (fuel n : ℕ) (t : Bool), 0 < n → n ≤ fuel →
    (jacobiStrip fuel n k t).1 % 2 = 1 ∧ 0 < (jacobiStrip fuel n k t).1 ∧ (jacobiStrip fuel n k t).1 ≤ n ∧
      sgn (jacobiStrip fuel n k t).2 * J(((jacobiStrip fuel n k t).1 : ℤ) | k) = sgn t * J((n : ℤ) | k) := by
  intro fuel
  induction fuel with
  | zero => intro n t h0 h1; omega
  | succ f ih =>
    intro n t h0 h1
    unfold jacobiStrip
    rw [Nat.and_one_is_mod]
    by_cases he : n % 2 = 0
    · rw [if_pos he]
      simp only [Nat.shiftRight_one, and7_eq]
      obtain ⟨a1, a2, a3, a4⟩ := ih (n / 2) (t ^^ (k % 8 == 3 || k % 8 == 5)) (by omega) (by omega)
      refine ⟨a1, a2, by omega, ?_⟩
      rw [a4, sgn_xor, mul_assoc]
      congr 1
      have heo := jacobiSym.even_odd (a := (n : ℤ)) (b := k) (by exact_mod_cast he) hk
      rw [← heo]
      have hdiv : ((n / 2 : ℕ) : ℤ) = (n : ℤ) / 2 := by push_cast; rfl
      rw [hdiv]
      by_cases h35 : k % 8 = 3 ∨ k % 8 = 5
      · rw [if_pos h35]
        have : (k % 8 == 3 || k % 8 == 5) = true := by
          rcases h35 with h | h <;> simp [h]
        rw [this]; simp [sgn]
      · rw [if_neg h35]
        have : (k % 8 == 3 || k % 8 == 5) = false := by
          simp only [not_or] at h35
          simp [h35.1, h35.2]
        rw [this]; simp [sgn]
    · rw [if_neg he]
      exact ⟨by omega, h0, le_rfl, rfl⟩

/-- the outer loop computes the Jacobi symbol (up to the sign accumulated in `t`) -/
theorem jacobiLoop_spec : ∀ (fuel n k : ℕ) (t : Bool), n < fuel → k % 2 = 1 →
    jacobiLoop fuel n k t = some (sgn t * J((n : ℤ) | k)) := by
  intro fuel
  induction fuel with
  | zero => intro n k t h; omega
  | succ f ih =>
    intro n k t hn hk
    unfold jacobiLoop
    by_cases h0 : n = 0
    · subst h0
      rw [if_pos rfl]
      by_cases h1 : k = 1
      · subst h1
        simp [sgn, jacobiSym.one_right]
      · rw [if_neg h1]
        have : 1 < k := by omega
        simp [jacobiSym.zero_left this]
    · rw [if_neg h0]
      obtain ⟨a1, a2, a3, a4⟩ := jacobiStrip_spec k hk n n t (by omega) le_rfl
      simp only
      generalize (jacobiStrip n n k t).1 = n1 at a1 a2 a3 a4 ⊢
      generalize (jacobiStrip n n k t).2 = t1 at a4 ⊢
      have hlt : k % n1 < f := by
        have := Nat.mod_lt k a2
        omega
      rw [ih (k % n1) n1 _ hlt a1, sgn_xor, ← a4]
      congr 1
      have hq := jacobiSym.quadratic_reciprocity_if (a := n1) (b := k) a1 hk
      rw [← hq, mul_assoc]
      congr 1
      have hm : J(((k % n1 : ℕ) : ℤ) | n1) = J((k : ℤ) | n1) := by
        rw [jacobiSym.mod_left (k : ℤ) n1]; push_cast; rfl
      rw [hm]
      by_cases h33 : n1 % 4 = 3 ∧ k % 4 = 3
      · rw [if_pos h33]
        have : (k &&& n1 &&& 3 == 3) = true := by
          rw [beq_iff_eq, and3_eq]; exact ⟨h33.2, h33.1⟩
        rw [this]; simp [sgn]
      · rw [if_neg h33]
        have : (k &&& n1 &&& 3 == 3) = false := by
          rw [beq_eq_false_iff_ne, Ne, and3_eq]; tauto
        rw [this]; simp [sgn]

/-- **`jacobi_symbol(n, k)` is the Jacobi symbol** for every integer `n` and odd `k > 0` -/
theorem jacobiSymbol_eq (n : ℤ) (k : ℕ) (hk0 : 0 < k) (hk : k % 2 = 1) : jacobiSymbol n k = some (J(n | k)) := by
  unfold jacobiSymbol
  rw [if_pos ⟨hk0, by rw [Nat.and_one_is_mod]; exact hk⟩]
  simp only
  rw [jacobiLoop_spec _ _ _ _ (Nat.lt_succ_self _) hk]
  have h0 : 0 ≤ n % (k : ℤ) := Int.emod_nonneg _ (by exact_mod_cast hk0.ne')
  rw [Int.toNat_of_nonneg h0, ← jacobiSym.mod_left]
  simp [sgn]

/-- the assertion `k > 0 and k & 1` -/
theorem jacobiSymbol_assert (n : ℤ) (k : ℕ) (hk : k = 0 ∨ k % 2 = 0) : jacobiSymbol n k = none := by
  unfold jacobiSymbol
  rw [if_neg]
  rw [Nat.and_one_is_mod]
  omega

end Embit.Model.PyCurve
