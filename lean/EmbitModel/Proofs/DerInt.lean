import EmbitModel.Model.Der
import EmbitModel.Spec.Der
import Mathlib.Tactic.Linarith
import Mathlib.Tactic.Ring
/-
  Number / list lemmas for DER INTEGER contents: big-endian value of a cons, `bit_length`, and the fact that
  `v.to_bytes((v.bit_length()+8)//8, "big")` is THE X.690 content of `v` (existence and uniqueness).
-/
namespace Embit
open Embit.Model.Der Embit.Spec.Der

theorem ofLe_append (u v : Bytes) : ofLe (u ++ v) = ofLe u + 256 ^ u.length * ofLe v := by
  induction u with
  | nil => simp [ofLe]
  | cons a u ih =>
    simp only [List.cons_append, ofLe, ih, List.length_cons, Nat.pow_succ]
    ring

theorem ofBe_cons (a : UInt8) (rest : Bytes) : ofBe (a :: rest) = a.toNat * 256 ^ rest.length + ofBe rest := by
  simp only [ofBe, List.reverse_cons, ofLe_append, List.length_reverse, ofLe]
  ring

theorem ofBe_nil : ofBe [] = 0 := rfl

theorem ofBe_lt (x : Bytes) : ofBe x < 256 ^ x.length := by
  have := ofLe_lt x.reverse
  simpa [ofBe] using this

theorem beN_ofBe (x : Bytes) : beN x.length (ofBe x) = x := by
  have := leN_ofLe x.reverse
  simp only [List.length_reverse] at this
  simp [beN, ofBe, this]

theorem pow256 (k : Nat) : 256 ^ k = 2 ^ (8 * k) := by
  rw [show (256 : Nat) = 2 ^ 8 by norm_num, ← Nat.pow_mul]

theorem bitLength_lt (v : Nat) : v < 2 ^ bitLength v := by
  unfold bitLength
  split
  · subst_vars; simp
  · exact Nat.lt_log2_self

theorem bitLength_le (v : Nat) (h : v ≠ 0) : 2 ^ (bitLength v - 1) ≤ v := by
  unfold bitLength
  simp only [h, if_false, Nat.add_sub_cancel]
  exact Nat.log2_self_le h

/-- `bit_length v ≤ k ↔ v < 2^k` -/
theorem bitLength_le_iff (v k : Nat) : bitLength v ≤ k ↔ v < 2 ^ k := by
  constructor
  · intro h
    exact lt_of_lt_of_le (bitLength_lt v) (Nat.pow_le_pow_right (by norm_num) h)
  · intro h
    by_contra hc
    push Not at hc
    have hv : v ≠ 0 := by
      intro h0; subst h0; simp [bitLength] at hc
    have h1 := bitLength_le v hv
    have h2 : 2 ^ k ≤ 2 ^ (bitLength v - 1) := Nat.pow_le_pow_right (by norm_num) (by omega)
    omega

theorem derInt_length (v : Nat) : (derInt v).length = (bitLength v + 8) / 8 := by simp [derInt]

theorem derInt_length_pos (v : Nat) : 1 ≤ (derInt v).length := by
  rw [derInt_length]; omega

/-- `len(derInt v) ≤ k ↔ v < 2^(8k-1)` (for `k ≥ 1`) -/
theorem derInt_length_le_iff (v k : Nat) (hk : 1 ≤ k) : (derInt v).length ≤ k ↔ v < 2 ^ (8 * k - 1) := by
  rw [derInt_length, ← bitLength_le_iff]
  omega

theorem derInt_value (v : Nat) : ofBe (derInt v) = v := by
  unfold derInt
  apply ofBe_beN
  rw [pow256]
  exact lt_of_lt_of_le (bitLength_lt v) (Nat.pow_le_pow_right (by norm_num) (by omega))

theorem pow2_128 (k : Nat) : 128 * 256 ^ k = 2 ^ (8 * k + 7) := by
  rw [pow256, Nat.pow_add]; norm_num; ring

/-- existence: the Python encoding is a DER INTEGER content -/
theorem derInt_isDer (v : Nat) : IsDerInt (derInt v) v := by
  have hlen := derInt_length v
  have hval := derInt_value v
  have hpos := derInt_length_pos v
  refine ⟨hval, ?_, ?_, ?_⟩
  · intro h; rw [h] at hpos; simp at hpos
  · intro a ha
    match hx : derInt v with
    | [] => rw [hx] at hpos; simp at hpos
    | a' :: rest =>
      rw [hx] at ha hval hlen
      simp at ha; subst ha
      rw [ofBe_cons] at hval
      have hr0 := ofBe_lt rest
      simp only [List.length_cons] at hlen
      -- v < 2^(8*(rest.length+1) - 1) = 128 * 256^rest.length
      have h1 : v < 2 ^ (8 * (rest.length + 1) - 1) := by
        rw [← bitLength_le_iff]; omega
      have h2 : 2 ^ (8 * (rest.length + 1) - 1) = 128 * 256 ^ rest.length := by
        rw [pow2_128]; congr 1
      rw [h2] at h1
      by_contra hc
      push Not at hc
      have : 128 * 256 ^ rest.length ≤ a'.toNat * 256 ^ rest.length := Nat.mul_le_mul_right _ hc
      omega
  · intro a b ha hb ha0
    match hx : derInt v with
    | [] => rw [hx] at ha; simp at ha
    | [_] => rw [hx] at hb; simp at hb
    | a' :: b' :: rest =>
      rw [hx] at ha hb hval hlen
      simp at ha hb; subst ha; subst hb; subst ha0
      rw [ofBe_cons, ofBe_cons] at hval
      simp only [List.length_cons] at hlen hval
      simp at hval
      by_contra hc
      push Not at hc
      -- then v < 128 * 256^rest.length = 2^(8*rest.length + 7), so bit_length ≤ 8*rest.length+7 and the length is too big
      have hr := ofBe_lt rest
      have h1 : v < 128 * 256 ^ rest.length := by
        have : (b'.toNat + 1) * 256 ^ rest.length ≤ 128 * 256 ^ rest.length := Nat.mul_le_mul_right _ (by omega)
        have e : (b'.toNat + 1) * 256 ^ rest.length = b'.toNat * 256 ^ rest.length + 256 ^ rest.length := by ring
        omega
      rw [pow2_128, ← bitLength_le_iff] at h1
      omega

/-- the length of a content with non-zero first octet `a < 128` -/
theorem len_of_head_pos (a : UInt8) (rest : Bytes) (ha1 : 1 ≤ a.toNat) (ha : a.toNat < 128) :
    (bitLength (ofBe (a :: rest)) + 8) / 8 = rest.length + 1 := by
  rw [ofBe_cons]
  have hr := ofBe_lt rest
  generalize ofBe rest = t at *
  have lo : 2 ^ (8 * rest.length) ≤ a.toNat * 256 ^ rest.length + t := by
    rw [← pow256]
    have : 1 * 256 ^ rest.length ≤ a.toNat * 256 ^ rest.length := Nat.mul_le_mul_right _ ha1
    omega
  have hi : a.toNat * 256 ^ rest.length + t < 2 ^ (8 * rest.length + 7) := by
    rw [← pow2_128]
    have : (a.toNat + 1) * 256 ^ rest.length ≤ 128 * 256 ^ rest.length := Nat.mul_le_mul_right _ (by omega)
    have e : (a.toNat + 1) * 256 ^ rest.length = a.toNat * 256 ^ rest.length + 256 ^ rest.length := by ring
    omega
  have h1 := (bitLength_le_iff _ _).mpr hi
  have h2 : ¬ bitLength (a.toNat * 256 ^ rest.length + t) ≤ 8 * rest.length := by
    rw [bitLength_le_iff]; omega
  omega

/-- the length of a content `00 b …` with `b ≥ 128` -/
theorem len_of_head_zero (b : UInt8) (rest : Bytes) (hb : 128 ≤ b.toNat) :
    (bitLength (ofBe (0 :: b :: rest)) + 8) / 8 = rest.length + 2 := by
  rw [ofBe_cons, ofBe_cons]
  have hr := ofBe_lt rest
  have hb2 := b.toNat_lt
  generalize ofBe rest = t at *
  simp only [UInt8.toNat_zero, Nat.zero_mul, Nat.zero_add]
  have lo : 2 ^ (8 * rest.length + 7) ≤ b.toNat * 256 ^ rest.length + t := by
    rw [← pow2_128]
    have : 128 * 256 ^ rest.length ≤ b.toNat * 256 ^ rest.length := Nat.mul_le_mul_right _ hb
    omega
  have hi : b.toNat * 256 ^ rest.length + t < 2 ^ (8 * (rest.length + 1)) := by
    rw [← pow256, Nat.pow_succ]
    have : (b.toNat + 1) * 256 ^ rest.length ≤ 256 * 256 ^ rest.length := Nat.mul_le_mul_right _ (by omega)
    have e : (b.toNat + 1) * 256 ^ rest.length = b.toNat * 256 ^ rest.length + 256 ^ rest.length := by ring
    omega
  have h1 := (bitLength_le_iff _ _).mpr hi
  have h2 : ¬ bitLength (b.toNat * 256 ^ rest.length + t) ≤ 8 * rest.length + 7 := by
    rw [bitLength_le_iff]; omega
  omega

/-- uniqueness: a DER INTEGER content of `v` is the Python encoding -/
theorem isDer_unique (x : Bytes) (v : Nat) (h : IsDerInt x v) : x = derInt v := by
  obtain ⟨hval, hne, hpos, hmin⟩ := h
  subst hval
  have key : (bitLength (ofBe x) + 8) / 8 = x.length := by
    cases x with
    | nil => exact absurd rfl hne
    | cons a rest =>
      have ha := hpos a (by simp)
      by_cases ha0 : a = 0
      · subst ha0
        cases rest with
        | nil => simp [ofBe, ofLe, bitLength]
        | cons b rest2 =>
          have hb := hmin 0 b (by simp) (by simp) rfl
          rw [len_of_head_zero b rest2 hb]; simp
      · have ha1 : 1 ≤ a.toNat := by
          rcases Nat.eq_zero_or_pos a.toNat with h | h
          · exfalso; apply ha0; exact UInt8.toNat_inj.mp (by simpa using h)
          · exact h
        rw [len_of_head_pos a rest ha1 ha]; simp
  unfold derInt
  rw [key, beN_ofBe]

end Embit
