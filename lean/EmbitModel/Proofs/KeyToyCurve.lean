import EmbitModel.Model.Bip32
/-
  A seven-element toy "curve" satisfying `EcLaws`, so that the hypotheses of the C09 / C10 theorems are visibly
  satisfiable (non-vacuity examples): the cyclic group Z/7 with generator 1; the finite points are 1..6,
  `P` and `-P = 7 - P` share the abscissa `min(P, 7-P)`, the ordinate of `P` is `P` itself (so its parity flips
  under negation, 7 being odd).
-/
namespace Embit.Keys

@[reducible] def toy : EcOps where
  Pt := Fin 7
  n := 7
  add := fun a b => a + b
  neg := fun a => -a
  mulG := fun k => Fin.ofNat 7 k
  isInf := fun a => a == 0
  x := fun a => min a.val (7 - a.val)
  y := fun a => a.val
  liftX := fun v => if v = 1 then some 6 else if v = 2 then some 2 else if v = 3 then some 4 else none
  ofXY := fun a b => if h : 1 ≤ b ∧ b ≤ 6 ∧ a = min b (7 - b) then some ⟨b, by omega⟩ else none

theorem toy_laws : EcLaws toy where
  n_pos := by decide
  n_le := by decide
  add_comm := by intro P Q; revert P Q; decide
  mulG_add := by
    intro a b
    show Fin.ofNat 7 a + Fin.ofNat 7 b = Fin.ofNat 7 (a + b)
    apply Fin.ext
    simp only [Fin.add_def, Fin.ofNat]
    omega
  mulG_mod := by
    intro a
    show Fin.ofNat 7 (a % 7) = Fin.ofNat 7 a
    apply Fin.ext
    simp only [Fin.ofNat]
    omega
  mulG_inf := by
    intro a
    show ((Fin.ofNat 7 a) == 0) = true ↔ a % 7 = 0
    simp only [beq_iff_eq, Fin.ext_iff, Fin.ofNat]
    rfl
  neg_mulG := by
    intro a ha
    show -(Fin.ofNat 7 a) = Fin.ofNat 7 (7 - a)
    apply Fin.ext
    simp only [Fin.neg_def, Fin.ofNat]
    have : a ≤ 7 := ha
    omega
  neg_neg := by intro P; revert P; decide
  neg_inf := by intro P; revert P; decide
  coord_lt := by
    intro P _
    have := P.isLt
    show min P.val (7 - P.val) < 2 ^ 256 ∧ P.val < 2 ^ 256
    have : (7:Nat) < 2 ^ 256 := by decide
    omega
  x_neg := by intro P; revert P; decide
  yOdd_neg := by intro P; revert P; decide
  liftX_of := by intro P; revert P; decide
  liftX_sound := by
    intro v P h
    have hv : v = 1 ∨ v = 2 ∨ v = 3 := by
      by_cases h1 : v = 1
      · exact Or.inl h1
      · by_cases h2 : v = 2
        · exact Or.inr (Or.inl h2)
        · by_cases h3 : v = 3
          · exact Or.inr (Or.inr h3)
          · simp [toy, h1, h2, h3] at h
    rcases hv with rfl | rfl | rfl <;> (simp only [toy] at h; cases h; decide)
  ofXY_of := by intro P; revert P; decide
  ofXY_sound := by
    intro a b P h
    simp only [toy] at h
    split at h
    · rename_i hc
      have := Option.some.inj h
      subst this
      obtain ⟨h1, h2, h3⟩ := hc
      refine ⟨?_, h3.symm, rfl⟩
      show ((⟨b, _⟩ : Fin 7) == 0) = false
      simp [Fin.ext_iff]; omega
    · cases h

end Embit.Keys
