import EmbitModel.Proofs.Slip39Lagrange
/-
  Any k (or more) of the n shares produced by `split_secret` recover the secret: all shares lie on one
  polynomial of degree < k per byte position; the interpolant through any ≥ k of them is that polynomial
  (uniqueness, Mathlib `Lagrange.eq_interpolate_of_eval_eq`), so its values at 255 and 254 are the secret and
  the digest share, and the digest check passes.
-/
namespace Embit.Model.Slip39
open Polynomial

/-- well-formed share data: x-coordinates below 256 and distinct, all values of length `L`, non-empty -/
structure Good (data : List (Nat × Bytes)) (L : Nat) : Prop where
  lt : ∀ s ∈ data, s.1 < 256
  nodup : (data.map (·.1)).Nodup
  len : ∀ s ∈ data, s.2.length = L
  ne : data ≠ []

theorem Good.xs_lt {data L} (g : Good data L) : ∀ a ∈ data.map (·.1), a < 256 := by
  intro a ha; obtain ⟨t, ht, rfl⟩ := List.mem_map.mp ha; exact g.lt t ht

theorem Good.col_nodup {data L} (g : Good data L) (b : Nat) : ((col data b).map (·.1)).Nodup := by
  rw [col_fst]; exact map_ofNat_nodup _ g.xs_lt g.nodup

theorem interpolate_length' {data L} (g : Good data L) (x : Nat) : (interpolate x data).length = L := by
  cases data with
  | nil => exact absurd rfl g.ne
  | cons s data =>
    have hs := g.len s List.mem_cons_self
    rw [interpolate_length x s data (fun s' h' => by rw [g.len s' h', hs]), hs]

theorem interpolate_eq_eval' {data L} (g : Good data L) (x : Nat) (hx : x < 256) (hnot : x ∉ data.map (·.1))
    (b : Nat) (hb : b < L) :
    toG ((interpolate x data).getD b 0) = eval (GF256.ofNat x) (sharePoly data b) := by
  cases data with
  | nil => exact absurd rfl g.ne
  | cons s data =>
    have hs := g.len s List.mem_cons_self
    exact interpolate_eq_eval x s data (fun s' h' => by rw [g.len s' h', hs]) hx g.lt g.nodup hnot b (by omega)

/-- the share polynomial takes the share's value at the share's x-coordinate -/
theorem sharePoly_node {data L} (g : Good data L) (t : Nat × Bytes) (ht : t ∈ data) (b : Nat) :
    eval (GF256.ofNat t.1) (sharePoly data b) = toG (t.2.getD b 0) := by
  have hmem : (GF256.ofNat t.1, toG (t.2.getD b 0)) ∈ col data b :=
    List.mem_map.mpr ⟨t, ht, rfl⟩
  have hi : GF256.ofNat t.1 ∈ ((col data b).map (·.1)).toFinset := by
    rw [List.mem_toFinset]; exact List.mem_map.mpr ⟨_, hmem, rfl⟩
  have := Lagrange.eval_interpolate_at_node (v := id) (lookup (col data b)) (Set.injOn_id _) hi
  rw [id] at this
  rw [sharePoly, this, lookup_mem _ (g.col_nodup b) _ hmem]

theorem sharePoly_degree {data L} (g : Good data L) (b : Nat) : (sharePoly data b).degree < data.length := by
  have := Lagrange.degree_interpolate_lt (s := ((col data b).map (·.1)).toFinset) (v := id)
    (lookup (col data b)) (Set.injOn_id _)
  rw [List.toFinset_card_of_nodup (g.col_nodup b)] at this
  have e : ((col data b).map (·.1)).length = data.length := by simp [col]
  rw [e] at this
  exact this

/-- uniqueness: if every share of `T` lies on the share polynomial of `B` and `T` has at least as many shares,
    both have the same polynomial -/
theorem sharePoly_unique {B T : List (Nat × Bytes)} {L : Nat} (gB : Good B L) (gT : Good T L) (hlen : B.length ≤ T.length)
    (b : Nat) (hon : ∀ t ∈ T, toG (t.2.getD b 0) = eval (GF256.ofNat t.1) (sharePoly B b)) :
    sharePoly B b = sharePoly T b := by
  unfold sharePoly
  apply Lagrange.eq_interpolate_of_eval_eq (lookup (col T b)) (Set.injOn_id _)
  · rw [List.toFinset_card_of_nodup (gT.col_nodup b)]
    have h1 := sharePoly_degree gB b
    have h2 : (B.length : WithBot ℕ) ≤ ((col T b).map (·.1)).length := by
      simp only [col, List.length_map]; exact_mod_cast hlen
    exact lt_of_lt_of_le h1 h2
  · intro i hi
    rw [List.mem_toFinset] at hi
    obtain ⟨p, hp, rfl⟩ := List.mem_map.mp hi
    obtain ⟨t, ht, rfl⟩ := List.mem_map.mp hp
    rw [lookup_mem _ (gT.col_nodup b) _ hp]
    exact (hon t ht).symm

theorem ext_getD (l1 l2 : Bytes) (hl : l1.length = l2.length) (h : ∀ b < l1.length, l1.getD b 0 = l2.getD b 0) :
    l1 = l2 := by
  apply List.ext_getElem hl
  intro i h1 h2
  have := h i h1
  simpa [List.getD, List.getElem?_eq_getElem h1, List.getElem?_eq_getElem h2] using this

/-- interpolating ≥ |B| shares that lie on B's polynomials, at one of B's own x-coordinates, returns B's value there -/
theorem interpolate_recovers {B T : List (Nat × Bytes)} {L : Nat} (gB : Good B L) (gT : Good T L) (hlen : B.length ≤ T.length)
    (hon : ∀ b < L, ∀ t ∈ T, toG (t.2.getD b 0) = eval (GF256.ofNat t.1) (sharePoly B b))
    (p : Nat × Bytes) (hp : p ∈ B) (hnot : p.1 ∉ T.map (·.1)) :
    interpolate p.1 T = p.2 := by
  apply ext_getD
  · rw [interpolate_length' gT, gB.len p hp]
  · intro b hb
    rw [interpolate_length' gT] at hb
    apply toG_inj
    rw [interpolate_eq_eval' gT p.1 (gB.lt p hp) hnot b hb, ← sharePoly_unique gB gT hlen b (hon b hb),
      sharePoly_node gB p hp b]

/-! ### the structure of `split_secret`'s output -/

theorem drawBytes_length (n : Nat) (tape : List Nat) (bs : Bytes) (rest : List Nat)
    (h : drawBytes n tape = some (bs, rest)) : bs.length = n := by
  induction n generalizing tape bs rest with
  | zero => simp [drawBytes] at h; rw [h.1]; rfl
  | succ n ih =>
    cases tape with
    | nil => simp [drawBytes] at h
    | cons t tape =>
      simp only [drawBytes] at h
      split at h
      · split at h
        · rename_i bs' rest' hd
          simp at h
          rw [← h.1, List.length_cons, ih _ _ _ hd]
        · simp at h
      · simp at h

theorem drawShares_spec (nb c i : Nat) (tape : List Nat) (l : List (Nat × Bytes)) (rest : List Nat)
    (h : drawShares nb c i tape = some (l, rest)) :
    l.map (·.1) = List.range' i c ∧ ∀ s ∈ l, s.2.length = nb := by
  induction c generalizing i tape l rest with
  | zero => simp [drawShares] at h; rw [h.1]; simp
  | succ c ih =>
    simp only [drawShares] at h
    split at h
    · simp at h
    · rename_i bs rest1 hb
      split at h
      · simp at h
      · rename_i l' rest' hd
        simp at h
        have := ih _ _ _ _ hd
        rw [← h.1]
        refine ⟨by simp [this.1, List.range'_succ], ?_⟩
        intro s hs
        rcases List.mem_cons.mp hs with e | e
        · rw [e]; exact drawBytes_length _ _ _ _ hb
        · exact this.2 s e

/-- what `split_secret` returns for k ≥ 2: the base points, digest share and secret determine everything -/
theorem splitSecret_structure (P : Prims) (secret : Bytes) (k n : Nat) (tape : List Nat) (shares : List (Nat × Bytes))
    (hs : splitSecret P secret k n tape = some shares) (hk : 2 ≤ k) :
    k ≤ n ∧ n ≤ 16 ∧ (secret.length = 16 ∨ secret.length = 32) ∧
    ∃ (r : Bytes) (base : List (Nat × Bytes)),
      r.length = secret.length - 4 ∧
      base.map (·.1) = List.range' 0 (k - 2) ∧ (∀ s ∈ base, s.2.length = secret.length) ∧
      shares = base ++ (List.range' (k - 2) (n - (k - 2))).map
        (fun i => (i, interpolate i (base ++ [(254, digest P r secret ++ r), (255, secret)]))) := by
  unfold splitSecret at hs
  split at hs; · simp at hs
  split at hs; · simp at hs
  split at hs; · simp at hs
  split at hs; · simp at hs
  simp only at hs
  split at hs; · simp at hs
  split at hs; · omega
  split at hs; · simp at hs
  rename_i r tape1 hr
  split at hs; · simp at hs
  rename_i base rest hb
  simp only [Option.some.injEq] at hs
  refine ⟨by omega, by omega, by omega, r, base, drawBytes_length _ _ _ _ hr, ?_, ?_, hs.symm⟩
  · exact (drawShares_spec _ _ _ _ _ _ hb).1
  · exact (drawShares_spec _ _ _ _ _ _ hb).2

/-- for k ≥ 2 all n shares of `split_secret` lie, bytewise, on the polynomials of degree < k through the k base
    points (random shares, digest share at 254, secret at 255); their x-coordinates are 0 … n−1 -/
theorem splitSecret_onpoly (P : Prims) (hH : ∀ key msg, 4 ≤ (P.hmac key msg).length)
    (secret : Bytes) (k n : Nat) (tape : List Nat) (shares : List (Nat × Bytes))
    (hs : splitSecret P secret k n tape = some shares) (hk : 2 ≤ k) :
    ∃ (r : Bytes) (B : List (Nat × Bytes)),
      (digest P r secret).length = 4 ∧ Good B secret.length ∧ B.length = k ∧
      (254, digest P r secret ++ r) ∈ B ∧ (255, secret) ∈ B ∧
      shares.map (·.1) = List.range n ∧ k ≤ n ∧ n ≤ 16 ∧ (secret.length = 16 ∨ secret.length = 32) ∧
      ∀ t ∈ shares, t.2.length = secret.length ∧
        ∀ b < secret.length, toG (t.2.getD b 0) = eval (GF256.ofNat t.1) (sharePoly B b) := by
  obtain ⟨hkn, hn, hsz, r, base, hr, hbx, hbl, rfl⟩ := splitSecret_structure P secret k n tape shares hs hk
  have hL : 16 ≤ secret.length := by omega
  have hdg : (digest P r secret).length = 4 := by
    simp [digest]; exact hH r secret
  have hD : (digest P r secret ++ r).length = secret.length := by simp [hdg, hr]; omega
  have hBx : (base ++ [(254, digest P r secret ++ r), (255, secret)]).map (fun x : Nat × Bytes => x.1) = List.range' 0 (k - 2) ++ [254, 255] := by
    simp [hbx]
  have gB : Good (base ++ [(254, digest P r secret ++ r), (255, secret)]) secret.length := by
    refine ⟨?_, ?_, ?_, by simp⟩
    · intro s hs'
      have : s.1 ∈ (base ++ [(254, digest P r secret ++ r), (255, secret)]).map (fun x : Nat × Bytes => x.1) := List.mem_map_of_mem hs'
      rw [hBx] at this
      simp [List.mem_range'_1] at this
      omega
    · rw [hBx]
      rw [List.nodup_append]
      refine ⟨List.nodup_range', by decide, ?_⟩
      intro a ha b hb
      simp [List.mem_range'_1] at ha
      simp at hb
      omega
    · intro s hs'
      simp only [List.mem_append, List.mem_cons, List.not_mem_nil, or_false] at hs'
      rcases hs' with h | h | h
      · exact hbl s h
      · rw [h]; exact hD
      · rw [h]
  have hBlen : (base ++ [(254, digest P r secret ++ r), (255, secret)]).length = k := by
    have : ((base ++ [(254, digest P r secret ++ r), (255, secret)]).map (fun x : Nat × Bytes => x.1)).length = k := by rw [hBx]; simp; omega
    simpa using this
  refine ⟨r, _, hdg, gB, hBlen, by simp, by simp, ?_, hkn, hn, hsz, ?_⟩
  · rw [List.map_append, hbx, List.map_map]
    have : ((fun x : Nat × Bytes => x.1) ∘ fun i => (i, interpolate i (base ++ [(254, digest P r secret ++ r), (255, secret)])))
        = id := rfl
    rw [this, List.map_id, List.range_eq_range',
      show List.range' (k - 2) (n - (k - 2)) = List.range' (0 + (k - 2)) (n - (k - 2)) by simp,
      List.range'_append_1]
    congr 1; omega
  · intro t ht
    rcases List.mem_append.mp ht with h | h
    · refine ⟨hbl t h, ?_⟩
      intro b _
      exact (sharePoly_node gB t (by simp [h]) b).symm
    · obtain ⟨i, hi, rfl⟩ := List.mem_map.mp h
      simp [List.mem_range'_1] at hi
      have hnot : i ∉ (base ++ [(254, digest P r secret ++ r), (255, secret)]).map (fun x : Nat × Bytes => x.1) := by
        rw [hBx]; simp [List.mem_range'_1]; omega
      refine ⟨interpolate_length' gB i, ?_⟩
      intro b hb
      exact interpolate_eq_eval' gB i (by omega) hnot b hb

/-- **any k or more shares recover the secret** (raw share data, for every tape, both secret sizes,
    every HMAC function with at least 4 output bytes) -/
theorem recoverSecret_of_split (P : Prims) (hH : ∀ key msg, 4 ≤ (P.hmac key msg).length)
    (secret : Bytes) (k n : Nat) (tape : List Nat) (shares : List (Nat × Bytes))
    (hs : splitSecret P secret k n tape = some shares) (hk : 2 ≤ k)
    (T : List (Nat × Bytes)) (hT : ∀ t ∈ T, t ∈ shares) (hnd : (T.map (·.1)).Nodup) (hkT : k ≤ T.length) :
    recoverSecret P T = some secret := by
  obtain ⟨r, B, hdg, gB, hBlen, hD, hS, hx, hkn, hn, hsz, hshare⟩ := splitSecret_onpoly P hH secret k n tape shares hs hk
  have hlt : ∀ t ∈ T, t.1 < 16 := by
    intro t ht
    have : t.1 ∈ shares.map (·.1) := List.mem_map_of_mem (hT t ht)
    rw [hx, List.mem_range] at this
    omega
  have hTne : T ≠ [] := by
    intro e; rw [e] at hkT; simp at hkT; omega
  have gT : Good T secret.length :=
    ⟨fun s hs' => by have := hlt s hs'; omega, hnd, fun s hs' => (hshare s (hT s hs')).1, hTne⟩
  have hon : ∀ b < secret.length, ∀ t ∈ T, toG (t.2.getD b 0) = eval (GF256.ofNat t.1) (sharePoly B b) :=
    fun b hb t ht => (hshare t (hT t ht)).2 b hb
  have hTx : ∀ x, 16 ≤ x → x ∉ T.map (·.1) := by
    intro x hx' hmem
    obtain ⟨t, ht, rfl⟩ := List.mem_map.mp hmem
    have := hlt t ht
    omega
  have h255 : interpolate 255 T = secret :=
    interpolate_recovers gB gT (by omega) hon (255, secret) hS (hTx 255 (by decide))
  have h254 : interpolate 254 T = digest P r secret ++ r :=
    interpolate_recovers gB gT (by omega) hon (254, digest P r secret ++ r) hD (hTx 254 (by decide))
  unfold recoverSecret
  simp only [h255, h254]
  have e1 : (digest P r secret ++ r).take 4 = digest P r secret := by
    rw [← hdg]; simp
  have e2 : (digest P r secret ++ r).drop 4 = r := by
    rw [← hdg]; simp
  rw [e1, e2]
  simp

end Embit.Model.Slip39
