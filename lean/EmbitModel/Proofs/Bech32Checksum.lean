import EmbitModel.Model.Bech32
import EmbitModel.Spec.Bech32
import EmbitModel.Proofs.Digits
/-
  Algebra of the bech32 checksum: the polymod step is XOR-linear, appending symbols to a state is
  "state·x^k + symbols", hence create/verify is an identity and the checksum of a data part is unique.
  Everything on `Nat` with `^^^`; no `bv_decide`.
-/
namespace Embit.Model.Bech32
open Embit Digits

/-! ### the generator selection is linear in `top` -/

/-- the value XOR-ed in by the `for i in range(5)` loop -/
def gsel (top : Nat) : Nat :=
  (if (top >>> 0) &&& 1 = 1 then 0x3B6A57B2 else 0) ^^^ (if (top >>> 1) &&& 1 = 1 then 0x26508E6D else 0)
  ^^^ (if (top >>> 2) &&& 1 = 1 then 0x1EA119FA else 0) ^^^ (if (top >>> 3) &&& 1 = 1 then 0x3D4233DD else 0)
  ^^^ (if (top >>> 4) &&& 1 = 1 then 0x2A1462B3 else 0)

theorem genXor_eq (top chk : Nat) : genXor top 0 generator chk = chk ^^^ gsel top := by
  simp only [generator, genXor, gsel, Nat.xor_assoc]

theorem polymodStep_eq (chk v : Nat) :
    polymodStep chk v = ((chk &&& 0x1FFFFFF) <<< 5) ^^^ v ^^^ gsel (chk >>> 25) := by
  simp only [polymodStep, genXor_eq]

theorem bit_xor (a b i : Nat) : ((a ^^^ b) >>> i) &&& 1 = ((a >>> i) &&& 1) ^^^ ((b >>> i) &&& 1) := by
  rw [Nat.shiftRight_xor_distrib, Nat.and_xor_distrib_right]

theorem sel_xor (a b i g : Nat) :
    (if ((a ^^^ b) >>> i) &&& 1 = 1 then g else 0)
      = (if (a >>> i) &&& 1 = 1 then g else 0) ^^^ (if (b >>> i) &&& 1 = 1 then g else 0) := by
  rw [bit_xor]
  have ha : (a >>> i) &&& 1 = 0 ∨ (a >>> i) &&& 1 = 1 := by rw [Nat.and_one_is_mod]; omega
  have hb : (b >>> i) &&& 1 = 0 ∨ (b >>> i) &&& 1 = 1 := by rw [Nat.and_one_is_mod]; omega
  rcases ha with ha | ha <;> rcases hb with hb | hb <;> simp [ha, hb]

theorem xor4 (a b c d : Nat) : (a ^^^ b) ^^^ (c ^^^ d) = (a ^^^ c) ^^^ (b ^^^ d) := by
  simp only [Nat.xor_assoc]; congr 1; rw [← Nat.xor_assoc, Nat.xor_comm b c, Nat.xor_assoc]

theorem gsel_xor (a b : Nat) : gsel (a ^^^ b) = gsel a ^^^ gsel b := by
  unfold gsel
  simp only [sel_xor]
  generalize (if a >>> 0 &&& 1 = 1 then 0x3B6A57B2 else 0) = a0
  generalize (if a >>> 1 &&& 1 = 1 then 0x26508E6D else 0) = a1
  generalize (if a >>> 2 &&& 1 = 1 then 0x1EA119FA else 0) = a2
  generalize (if a >>> 3 &&& 1 = 1 then 0x3D4233DD else 0) = a3
  generalize (if a >>> 4 &&& 1 = 1 then 0x2A1462B3 else 0) = a4
  generalize (if b >>> 0 &&& 1 = 1 then 0x3B6A57B2 else 0) = b0
  generalize (if b >>> 1 &&& 1 = 1 then 0x26508E6D else 0) = b1
  generalize (if b >>> 2 &&& 1 = 1 then 0x1EA119FA else 0) = b2
  generalize (if b >>> 3 &&& 1 = 1 then 0x3D4233DD else 0) = b3
  generalize (if b >>> 4 &&& 1 = 1 then 0x2A1462B3 else 0) = b4
  rw [xor4 a0 b0, xor4 (a0 ^^^ a1) (b0 ^^^ b1), xor4 (a0 ^^^ a1 ^^^ a2) (b0 ^^^ b1 ^^^ b2),
    xor4 (a0 ^^^ a1 ^^^ a2 ^^^ a3) (b0 ^^^ b1 ^^^ b2 ^^^ b3)]

theorem gsel_zero : gsel 0 = 0 := by decide

/-- the polymod step is XOR-linear in (state, value) -/
theorem polymodStep_xor (a b v w : Nat) :
    polymodStep (a ^^^ b) (v ^^^ w) = polymodStep a v ^^^ polymodStep b w := by
  simp only [polymodStep_eq, Nat.shiftRight_xor_distrib, gsel_xor, Nat.and_xor_distrib_right,
    Nat.shiftLeft_xor_distrib]
  rw [xor4 _ _ v w, xor4]

theorem polymodStep_zero : polymodStep 0 0 = 0 := by decide

/-- pointwise XOR of two words of the same length -/
def xorW : List Nat → List Nat → List Nat
  | a :: as, b :: bs => (a ^^^ b) :: xorW as bs
  | _, _ => []

theorem polymodFrom_xor (a b : Nat) (vs ws : List Nat) (h : vs.length = ws.length) :
    polymodFrom (a ^^^ b) (xorW vs ws) = polymodFrom a vs ^^^ polymodFrom b ws := by
  induction vs generalizing a b ws with
  | nil => cases ws with
    | nil => rfl
    | cons w ws => simp at h
  | cons v vs ih => cases ws with
    | nil => simp at h
    | cons w ws =>
      simp only [xorW, polymodFrom, List.foldl_cons]
      rw [polymodStep_xor]
      exact ih _ _ ws (by simpa using h)

theorem polymodFrom_append (a : Nat) (vs ws : List Nat) :
    polymodFrom a (vs ++ ws) = polymodFrom (polymodFrom a vs) ws := by
  simp [polymodFrom, List.foldl_append]

theorem xorW_zeros_left (ws : List Nat) : xorW (List.replicate ws.length 0) ws = ws := by
  induction ws with
  | nil => rfl
  | cons w ws ih => simp [List.replicate_succ, xorW, ih]

theorem xorW_zeros_right (ws : List Nat) : xorW ws (List.replicate ws.length 0) = ws := by
  induction ws with
  | nil => rfl
  | cons w ws ih => simp [List.replicate_succ, xorW, ih]

/-- running symbols `ws` from state `a` = running zeros from `a`, XOR running `ws` from state 0 -/
theorem polymodFrom_split (a : Nat) (ws : List Nat) :
    polymodFrom a ws = polymodFrom a (List.replicate ws.length 0) ^^^ polymodFrom 0 ws := by
  have := polymodFrom_xor a 0 (List.replicate ws.length 0) ws (by simp)
  rw [Nat.xor_zero, xorW_zeros_left] at this
  exact this

/-! ### from state 0, up to six 5-bit symbols are just packed -/

theorem shl5_xor (a b : Nat) (hb : b < 32) : (a <<< 5) ^^^ b = a * 32 + b := by
  apply Nat.eq_of_testBit_eq
  intro j
  have e : a * 32 + b = 2 ^ 5 * a + b := by omega
  rw [e, Nat.testBit_two_pow_mul_add a (by omega : b < 2 ^ 5), Nat.testBit_xor, Nat.testBit_shiftLeft]
  by_cases hj : j < 5
  · have : ¬ j ≥ 5 := by omega
    simp [hj, this]
  · have hj' : j ≥ 5 := by omega
    have hbj : b.testBit j = false := by
      apply Nat.testBit_lt_two_pow
      calc b < 2 ^ 5 := by omega
        _ ≤ 2 ^ j := Nat.pow_le_pow_right (by decide) hj'
    simp [hj, hj', hbj]

theorem polymodStep_small (s v : Nat) (hs : s < 2 ^ 25) (hv : v < 32) : polymodStep s v = s * 32 + v := by
  rw [polymodStep_eq]
  have h1 : s >>> 25 = 0 := by rw [Nat.shiftRight_eq_div_pow]; exact Nat.div_eq_of_lt hs
  have h2 : s &&& 0x1FFFFFF = s := by
    have := Nat.and_two_pow_sub_one_eq_mod s 25
    simp only [show (2:Nat) ^ 25 - 1 = 0x1FFFFFF by decide] at this
    rw [this]; exact Nat.mod_eq_of_lt hs
  rw [h1, h2, gsel_zero, Nat.xor_zero]
  exact shl5_xor s v hv

theorem polymodFrom_small (k s : Nat) (ws : List Nat) (hw : ∀ w ∈ ws, w < 32)
    (hs : s < 32 ^ k) (hk : k + ws.length ≤ 6) :
    polymodFrom s ws = s * 32 ^ ws.length + ofBE 32 ws := by
  induction ws generalizing s k with
  | nil => simp [polymodFrom, ofBE]
  | cons w ws ih =>
    have hw0 : w < 32 := hw w (by simp)
    simp only [List.length_cons] at hk
    have hs25 : s < 2 ^ 25 := by
      have : (32:Nat) ^ k ≤ 32 ^ 5 := Nat.pow_le_pow_right (by decide) (by omega)
      have e : (32:Nat) ^ 5 = 2 ^ 25 := by decide
      omega
    simp only [polymodFrom, List.foldl_cons]
    rw [polymodStep_small s w hs25 hw0]
    have hs' : s * 32 + w < 32 ^ (k + 1) := by rw [Nat.pow_succ]; omega
    have ih' := ih (k + 1) (s * 32 + w) (fun x hx => hw x (by simp [hx])) hs' (by omega)
    unfold polymodFrom at ih'
    rw [ih']
    simp only [ofBE, List.foldl_cons, List.length_cons, Nat.pow_succ]
    rw [foldl_ofBE 32 (0 * 32 + w)]
    simp [ofBE, Nat.add_mul, Nat.mul_assoc, Nat.add_assoc, Nat.mul_comm 32]

/-- from the zero state, at most six 5-bit symbols are simply packed -/
theorem polymodFrom_zero_small (ws : List Nat) (hw : ∀ w ∈ ws, w < 32) (hl : ws.length ≤ 6) :
    polymodFrom 0 ws = ofBE 32 ws := by
  have := polymodFrom_small 0 0 ws hw (by decide) (by omega)
  simpa using this

/-! ### create / verify -/

theorem gsel_lt (t : Nat) : gsel t < 2 ^ 30 := by
  unfold gsel
  repeat' apply Nat.xor_lt_two_pow
  all_goals (split <;> decide)

theorem polymodStep_lt (s v : Nat) (hv : v < 2 ^ 30) : polymodStep s v < 2 ^ 30 := by
  rw [polymodStep_eq]
  apply Nat.xor_lt_two_pow
  · apply Nat.xor_lt_two_pow
    · rw [Nat.shiftLeft_eq]
      have : s &&& 0x1FFFFFF ≤ 0x1FFFFFF := Nat.and_le_right
      omega
    · exact hv
  · exact gsel_lt _

theorem polymodFrom_lt (s : Nat) (vs : List Nat) (hs : s < 2 ^ 30) (hv : ∀ v ∈ vs, v < 2 ^ 30) :
    polymodFrom s vs < 2 ^ 30 := by
  induction vs generalizing s with
  | nil => exact hs
  | cons v vs ih =>
    simp only [polymodFrom, List.foldl_cons]
    exact ih _ (polymodStep_lt s v (hv v (by simp))) (fun x hx => hv x (by simp [hx]))

theorem createChecksum_eq (e : Encoding) (hrp : List Char) (data : List Nat) :
    createChecksum e hrp data
      = fixedBE 32 6 (polymod (hrpExpand hrp ++ data ++ [0, 0, 0, 0, 0, 0]) ^^^ e.const) := by
  unfold createChecksum
  have h31 : ∀ x : Nat, x &&& 31 = x % 32 := fun x => Nat.and_two_pow_sub_one_eq_mod x 5
  simp only [List.range, List.range.loop, List.map_cons, List.map_nil, fixedBE, h31,
    Nat.shiftRight_eq_div_pow, List.nil_append, List.cons_append]
  simp only [Nat.reduceMul, Nat.reduceSub, Nat.reducePow, Nat.div_div_eq_div_mul, Nat.div_one]

theorem pm_lt (e : Encoding) (vs : List Nat) : polymod (vs ++ [0, 0, 0, 0, 0, 0]) ^^^ e.const < 2 ^ 30 := by
  apply Nat.xor_lt_two_pow
  · have : vs ++ [0, 0, 0, 0, 0, 0] = (vs ++ [0, 0, 0, 0, 0]) ++ [0] := by simp
    rw [polymod, this, polymodFrom_append]
    exact polymodStep_lt _ 0 (by decide)
  · cases e <;> decide

/-- appending six 5-bit symbols `c` to a word: `polymod (vs ++ c) = polymod (vs ++ 0⁶) xor pack(c)` -/
theorem polymod_append6 (vs c : List Nat) (hc : ∀ x ∈ c, x < 32) (hl : c.length = 6) :
    polymod (vs ++ c) = polymod (vs ++ [0, 0, 0, 0, 0, 0]) ^^^ ofBE 32 c := by
  unfold polymod
  rw [polymodFrom_append, polymodFrom_append, polymodFrom_split _ c, hl,
    polymodFrom_zero_small c hc (by omega)]
  rfl

/-- `bech32_create_checksum` makes `bech32_verify_checksum` succeed with the same encoding — for every
    human-readable part and every data list -/
theorem polymod_createChecksum (e : Encoding) (hrp : List Char) (data : List Nat) :
    polymod (hrpExpand hrp ++ data ++ createChecksum e hrp data) = e.const := by
  rw [createChecksum_eq]
  have hlt := pm_lt e (hrpExpand hrp ++ data)
  rw [polymod_append6 _ _ (fixedBE_lt (by decide) 6 _) (fixedBE_length 32 6 _), ofBE_fixedBE,
    Nat.mod_eq_of_lt (by simpa using hlt), ← Nat.xor_assoc, Nat.xor_self, Nat.zero_xor]

theorem xor_cancel_left {a b c : Nat} (h : a ^^^ b = c) : b = a ^^^ c := by
  rw [← h, ← Nat.xor_assoc, Nat.xor_self, Nat.zero_xor]

/-- conversely, the six checksum symbols are determined by hrp, data and encoding -/
theorem checksum_unique (e : Encoding) (hrp : List Char) (data c : List Nat)
    (hc : ∀ x ∈ c, x < 32) (hl : c.length = 6)
    (h : polymod (hrpExpand hrp ++ data ++ c) = e.const) : c = createChecksum e hrp data := by
  rw [polymod_append6 _ _ hc hl] at h
  have h2 := xor_cancel_left h
  rw [createChecksum_eq, ← h2, ← hl, fixedBE_ofBE (by decide) c hc]

theorem const_ne : bech32Const ≠ bech32mConst := by decide

theorem verifyChecksum_eq_some (hrp : List Char) (data : List Nat) (e : Encoding) :
    verifyChecksum hrp data = some e ↔ polymod (hrpExpand hrp ++ data) = e.const := by
  unfold verifyChecksum
  cases e
  · simp only [Encoding.const]
    constructor
    · intro h; split at h
      · assumption
      · split at h <;> simp at h
    · intro h; simp [h]
  · simp only [Encoding.const]
    constructor
    · intro h; split at h
      · simp at h
      · split at h
        · assumption
        · simp at h
    · intro h; simp [h, const_ne.symm]

end Embit.Model.Bech32
