import EmbitModel.Proofs.LiquidTxRoundtrip
import EmbitModel.Proofs.PsbtKV
import EmbitModel.Model.Pset
/-
  C17 for the Liquid parsers: every element reader of `Model/LiquidTx.lean` takes at least one byte off the input
  (so the counted loops of `LTransaction.read_from` cannot run more often than there are bytes), a parsed
  transaction has at most as many inputs + outputs as bytes, a parsed PSET at most as many scopes as bytes.
-/
set_option linter.unusedSimpArgs false
set_option linter.unusedVariables false
namespace Embit.Model.Cost
open Embit Model Embit.Spec.LWire

/-- a parser that consumes at least one byte whenever it succeeds (same as `Props.C17.Consuming`) -/
def Consuming {α : Type} (p : Parser α) : Prop := ∀ b x r, p b = some (x, r) → r.length < b.length

/-! ### Liquid: transactions and PSET -/

theorem ltxin_consuming : Consuming LTxIn.read := by
  intro b x r h
  obtain ⟨e, hw, _⟩ := LTxIn.read_sound h
  rw [e]; simp [LTxIn.ser, hw.txid]; omega

theorem ltxout_consuming : Consuming LTxOut.read := by
  intro b x r h
  obtain ⟨e, _, _⟩ := LTxOut.read_sound h
  have := Compact.enc_length_pos x.spk.length
  rw [e]; simp [LTxOut.ser, scriptSer]; omega

theorem linwitness_consuming : Consuming LInWitness.read := by
  intro b x r h
  obtain ⟨e, _⟩ := LInWitness.read_sound h
  have := Compact.enc_length_pos x.amountProof.length
  rw [e]; simp [LInWitness.ser, proofSer, scriptSer]; omega

theorem loutwitness_consuming : Consuming LOutWitness.read := by
  intro b x r h
  obtain ⟨e, _⟩ := LOutWitness.read_sound h
  have := Compact.enc_length_pos x.surjProof.length
  rw [e]; simp [LOutWitness.ser, proofSer, scriptSer]; omega

theorem flatMap_length_ge {α : Type} (f : α → Bytes) (l : List α) (h : ∀ x ∈ l, 1 ≤ (f x).length) :
    l.length ≤ (l.flatMap f).length := by
  induction l with
  | nil => simp
  | cons x xs ih =>
    have := ih (fun i hi => h i (by simp [hi])); have := h x (by simp)
    simp only [List.flatMap_cons, List.length_append, List.length_cons]; omega

/-- a parsed Liquid transaction has at most as many inputs + outputs as its encoding has bytes -/
theorem ltx_size_le_input (b : Bytes) (t : LTx) (r : Bytes) (h : LTx.read b = some (t, r)) :
    t.vin.length + t.vout.length ≤ b.length := by
  obtain ⟨e, hwf⟩ := LTx.read_sound h
  have a := flatMap_length_ge LTxIn.ser t.vin (by
    intro i hi; simp [LTxIn.ser, (hwf.ins i hi).txid]; omega)
  have c := flatMap_length_ge LTxOut.ser t.vout (by
    intro o ho
    have := Compact.enc_length_pos o.spk.length
    simp [LTxOut.ser, scriptSer]; omega)
  rw [e]
  simp only [LTx.ser, List.length_append]
  omega

theorem readLIns_le (ko : KeyOps) (tx : Option LTx) : ∀ (n i : Nat) (b : Bytes) (ss : List LInScope) (r : Bytes),
    readLIns ko tx n i b = some (ss, r) → ss.length + r.length ≤ b.length := by
  intro n
  induction n with
  | zero => intro i b ss r h; simp [readLIns] at h; obtain ⟨rfl, rfl⟩ := h; simp
  | succ n ih =>
    intro i b ss r h
    simp only [readLIns] at h
    split at h
    · simp at h
    · rename_i kvs r1 hk
      obtain ⟨e, _⟩ := readKVs_sound hk
      have := writeKVs_length kvs
      split at h
      · simp at h
      · split at h
        · simp at h
        · rename_i ss' r2 hr
          simp at h; obtain ⟨rfl, rfl⟩ := h
          have := ih _ _ _ _ hr
          rw [e]; simp; omega

theorem readLOuts_le (ko : KeyOps) (tx : Option LTx) : ∀ (n i : Nat) (b : Bytes) (ss : List LOutScope) (r : Bytes),
    readLOuts ko tx n i b = some (ss, r) → ss.length + r.length ≤ b.length := by
  intro n
  induction n with
  | zero => intro i b ss r h; simp [readLOuts] at h; obtain ⟨rfl, rfl⟩ := h; simp
  | succ n ih =>
    intro i b ss r h
    simp only [readLOuts] at h
    split at h
    · simp at h
    · rename_i kvs r1 hk
      obtain ⟨e, _⟩ := readKVs_sound hk
      have := writeKVs_length kvs
      split at h
      · simp at h
      · split at h
        · simp at h
        · rename_i ss' r2 hr
          simp at h; obtain ⟨rfl, rfl⟩ := h
          have := ih _ _ _ _ hr
          rw [e]; simp; omega

/-- **PSET (also version 2, where the counts are attacker-chosen fields)**: an accepted PSET has at most as many
    input + output scopes as the byte string has bytes -/
theorem pset_scopes_le_input (ko : KeyOps) (b : Bytes) (p : LPset) (h : LPset.parse ko b = some p) :
    p.inputs.length + p.outputs.length ≤ b.length := by
  unfold LPset.parse at h
  split at h
  · simp at h
  · rename_i m r0 h0
    obtain ⟨e0, _⟩ := takeN_sound h0
    split at h
    · simp at h
    · split at h
      · simp at h
      · rename_i gkvs r1 hg
        obtain ⟨eg, _⟩ := readKVs_sound hg
        split at h
        · simp at h
        · simp only [] at h
          split at h
          · simp at h
          · split at h
            · simp at h
            · split at h
              · simp at h
              · split at h
                · simp at h
                · rename_i ins r2 hi
                  have a := readLIns_le _ _ _ _ _ _ _ hi
                  split at h
                  · simp at h
                  · rename_i outs r3 ho
                    have c := readLOuts_le _ _ _ _ _ _ _ ho
                    split at h
                    · simp at h
                    · simp at h
                      subst h
                      simp only []
                      rw [e0, eg]
                      simp only [List.length_append]
                      omega

end Embit.Model.Cost
