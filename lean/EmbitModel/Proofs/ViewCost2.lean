import EmbitModel.Model.ViewCost2
import EmbitModel.Proofs.ViewCost
/-
  Amortised facts for the nested loop of `seek_to_scope`: a loop that ENDS with `done` at `pf` has walked over what it
  counted (`k·(iters - 1) + d ≤ pf - pos`), so the iterations of successive loops add up to the length of the stream.
-/
set_option linter.unusedSimpArgs false
set_option linter.unusedVariables false
namespace Embit.Model.ViewCost
open Embit Embit.Model

variable {σ α : Type}

/-- a loop that ends with `done a pf`: every continuing iteration advanced ≥ k, the last one ≥ d -/
theorem loop_done_progress (body : σ → Nat → Out σ α × Nat) (k d : Nat)
    (hc : ∀ s pos s' p' c, body s pos = (.cont s' p', c) → pos + k ≤ p')
    (hd : ∀ s pos a p' c, body s pos = (.done a p', c) → pos + d ≤ p') :
    ∀ (n : Nat) (s : σ) (pos : Nat) (a : α) (pf : Nat), (loop body n s pos).out = .done a pf →
      k * (loop body n s pos).iters + pos + d ≤ pf + k := by
  intro n
  induction n with
  | zero => intro s pos a pf h; simp [loop] at h
  | succ n ih =>
    intro s pos a pf
    unfold loop
    split
    · rename_i s' p' c h
      intro ho
      have h1 := hc s pos s' p' c h
      have h2 := ih s' p' a pf ho
      simp only
      rw [Nat.mul_add, Nat.mul_one]
      omega
    · rename_i a' p' c h
      intro ho
      have h1 := hd s pos a' p' c h
      simp only at ho ⊢
      injection ho with _ hp
      omega
    · intro ho; simp at ho

/-- where a loop can end with `done`: wherever one body can -/
theorem loop_done_inv (body : σ → Nat → Out σ α × Nat) (P : Nat → Prop)
    (hd : ∀ s pos a p' c, body s pos = (.done a p', c) → P p') :
    ∀ (n : Nat) (s : σ) (pos : Nat) (a : α) (pf : Nat), (loop body n s pos).out = .done a pf → P pf := by
  intro n
  induction n with
  | zero => intro s pos a pf h; simp [loop] at h
  | succ n ih =>
    intro s pos a pf
    unfold loop
    split
    · rename_i s' p' c h
      intro ho
      exact ih s' p' a pf ho
    · rename_i a' p' c h
      intro ho
      have h1 := hd s pos a' p' c h
      simp only at ho
      injection ho with _ hp
      exact hp ▸ h1
    · intro ho; simp at ho

/-- `_skip_scope` returns only after it READ a separator: one byte further, inside the buffer -/
theorem skipScopeBody_done (buf : Bytes) (s : Unit) (pos : Nat) (a : Unit) (p' c : Nat)
    (h : skipScopeBody buf s pos = (.done a p', c)) : pos + 1 ≤ p' ∧ p' ≤ buf.length := by
  unfold skipScopeBody at h
  split at h
  · simp at h
  · rename_i klen p1 h1
    split at h
    · rename_i hk
      simp at h
      obtain ⟨_, rfl, _⟩ := h
      unfold skipStringAt at h1
      split at h1
      · rename_i l q hq
        obtain ⟨a1, a2⟩ := compactAt_progress hq
        have hq' := hq
        unfold compactAt at hq'
        split at hq'
        · rename_i v r hr
          have hlen := CostBin.compact_len hr
          have hpos := Compact.enc_length_pos v
          simp at hq' h1
          obtain ⟨rfl, rfl⟩ := hq'
          obtain ⟨h1a, h1b⟩ := h1
          simp at hlen
          omega
        · simp at hq'
      · simp at h1
    · split at h <;> simp at h

end Embit.Model.ViewCost
