import EmbitModel.Proofs.PsbtReject
/-
  C04X helpers: a second PSBT_IN_NON_WITNESS_UTXO pair (key `00`) in an input scope is refused in EVERY reader mode
  (`fixes/fix-compress-dup-utxo.diff`: the memory-saving modes keep only `_txhash` / `_utxo` of the previous
  transaction, so `read_value` has to look at `_txhash` too).
-/
set_option linter.unusedSimpArgs false
set_option linter.unusedVariables false
namespace Embit
open Model

/-- "a previous transaction was read": the parsed transaction (KEEP_ALL, or no outpoint known yet) or its hash -/
def Model.InScope.hasPrev (s : InScope) : Bool := s.nonWitnessUtxo.isSome || s.txhash.isSome

local macro "finish_prev" h:ident hp:ident : tactic => `(tactic| (
  repeat' (split at $h:ident)
  all_goals (try (simp at $h:ident; done))
  all_goals (try (have e := Option.some.inj $h; subst e))
  all_goals (first
    | exact $hp
    | (simp [Model.InScope.hasPrev]; done)
    | (simp [Model.InScope.hasPrev] at $hp:ident ⊢; exact $hp))))

/-- `read_value` never forgets that a previous transaction was read (any key, any mode) -/
theorem InScope.addPair_keeps_prev (ko : KeyOps) (sha : Bytes → Bytes) (c : Nat) (s s' : InScope) (k v : Bytes)
    (h : InScope.addPair ko sha c s k v = some s') (hp : s.hasPrev = true) : s'.hasPrev = true := by
  unfold InScope.addPair at h
  split at h
  · simp at h; subst h; exact hp
  · rename_i k0 krest
    simp only [] at h
    by_cases c00 : k0 = 0x00
    · simp only [c00, if_true] at h; finish_prev h hp
    simp only [c00, if_false] at h
    by_cases c01 : k0 = 0x01
    · simp only [c01, if_true] at h; finish_prev h hp
    simp only [c01, if_false] at h
    by_cases c02 : k0 = 0x02
    · simp only [c02, if_true] at h; finish_prev h hp
    simp only [c02, if_false] at h
    by_cases c03 : k0 = 0x03
    · simp only [c03, if_true] at h; finish_prev h hp
    simp only [c03, if_false] at h
    by_cases c04 : k0 = 0x04
    · simp only [c04, if_true] at h; finish_prev h hp
    simp only [c04, if_false] at h
    by_cases c05 : k0 = 0x05
    · simp only [c05, if_true] at h; finish_prev h hp
    simp only [c05, if_false] at h
    by_cases c06 : k0 = 0x06
    · simp only [c06, if_true] at h; finish_prev h hp
    simp only [c06, if_false] at h
    by_cases c07 : k0 = 0x07
    · simp only [c07, if_true] at h; finish_prev h hp
    simp only [c07, if_false] at h
    by_cases c08 : k0 = 0x08
    · simp only [c08, if_true] at h; finish_prev h hp
    simp only [c08, if_false] at h
    by_cases c0e : k0 :: krest = [0x0e]
    · simp only [c0e, if_true] at h; finish_prev h hp
    simp only [c0e, if_false] at h
    by_cases c0f : k0 :: krest = [0x0f]
    · simp only [c0f, if_true] at h; finish_prev h hp
    simp only [c0f, if_false] at h
    by_cases c10 : k0 :: krest = [0x10]
    · simp only [c10, if_true] at h; finish_prev h hp
    simp only [c10, if_false] at h
    by_cases c14 : k0 = 0x14
    · simp only [c14, if_true] at h; finish_prev h hp
    simp only [c14, if_false] at h
    by_cases c15 : k0 = 0x15
    · simp only [c15, if_true] at h; finish_prev h hp
    simp only [c15, if_false] at h
    by_cases c16 : k0 = 0x16
    · simp only [c16, if_true] at h; finish_prev h hp
    simp only [c16, if_false] at h
    by_cases c17 : k0 = 0x17
    · simp only [c17, if_true] at h; finish_prev h hp
    simp only [c17, if_false] at h
    by_cases c18 : k0 = 0x18
    · simp only [c18, if_true] at h; finish_prev h hp
    simp only [c18, if_false] at h
    finish_prev h hp

theorem InScope.addPairs_keeps_prev (ko : KeyOps) (sha : Bytes → Bytes) (c : Nat) :
    ∀ (kvs : List KV) (s s' : InScope), InScope.addPairs ko sha c s kvs = some s' → s.hasPrev = true →
      s'.hasPrev = true := by
  intro kvs
  induction kvs with
  | nil => intro s s' h hp; simp [InScope.addPairs] at h; subst h; exact hp
  | cons x kvs ih =>
    intro s s' h hp
    obtain ⟨k, v⟩ := x
    simp only [InScope.addPairs] at h
    split at h
    · simp at h
    · rename_i s1 h1
      exact ih s1 s' h (InScope.addPair_keeps_prev ko sha c s s1 k v h1 hp)

/-- an accepted key `00` leaves the parsed previous transaction or (memory-saving modes) its hash behind -/
theorem InScope.addPair_00_sets_prev (ko : KeyOps) (sha : Bytes → Bytes) (c : Nat) (s s' : InScope) (v : Bytes)
    (h : InScope.addPair ko sha c s [0x00] v = some s') : s'.hasPrev = true := by
  simp only [InScope.addPair, if_true] at h
  repeat' (split at h)
  all_goals (try (simp at h; done))
  all_goals (have e := Option.some.inj h; subst e; simp [Model.InScope.hasPrev])

/-- … after which key `00` is refused, whatever the mode -/
theorem InScope.addPair_00_refused (ko : KeyOps) (sha : Bytes → Bytes) (c : Nat) (s : InScope) (v : Bytes)
    (hp : s.hasPrev = true) : InScope.addPair ko sha c s [0x00] v = none := by
  simp only [Model.InScope.hasPrev, Bool.or_eq_true] at hp
  rcases hp with hp | hp <;> simp [InScope.addPair, hp]

/-- two pairs under key `00` in the pairs of one input scope: `read_value` raises at the second one at the latest -/
theorem InScope.addPairs_dup_utxo_none (ko : KeyOps) (sha : Bytes → Bytes) (c : Nat) (s : InScope)
    (a b d : List KV) (v1 v2 : Bytes) :
    InScope.addPairs ko sha c s (a ++ ([0x00], v1) :: (b ++ ([0x00], v2) :: d)) = none := by
  rw [InScope.addPairs_append]
  cases InScope.addPairs ko sha c s a with
  | none => rfl
  | some s1 =>
    simp only [Option.bind_some, InScope.addPairs]
    cases h1 : InScope.addPair ko sha c s1 [0x00] v1 with
    | none => rfl
    | some s2 =>
      simp only []
      rw [InScope.addPairs_append]
      cases h2 : InScope.addPairs ko sha c s2 b with
      | none => rfl
      | some s3 =>
        have hp := InScope.addPairs_keeps_prev ko sha c b s2 s3 h2 (InScope.addPair_00_sets_prev ko sha c s1 s2 v1 h1)
        simp only [Option.bind_some, InScope.addPairs, InScope.addPair_00_refused ko sha c s3 v2 hp]

/-- the scope reader fails when one of the first `n` framed scopes is refused from every seed -/
theorem readIns_scope_none (ko : KeyOps) (sha : Bytes → Bytes) (c : Nat) (tx : Option Tx) :
    ∀ (scopes : List (List KV)) (j n i : Nat) (kvs : List KV) (rest : Bytes),
      (∀ kvs ∈ scopes, ∀ kv ∈ kvs, KVWF kv) → scopes[j]? = some kvs → j < n →
      (∀ s, InScope.addPairs ko sha c s kvs = none) →
      readIns ko sha c tx n i (scopes.flatMap writeKVs ++ rest) = none := by
  intro scopes
  induction scopes with
  | nil => intro j n i kvs rest _ hj; simp at hj
  | cons x xs ih =>
    intro j n i kvs rest hs hj hn hbad
    obtain ⟨n', rfl⟩ : ∃ n', n = n' + 1 := ⟨n - 1, by omega⟩
    simp only [List.flatMap_cons, List.append_assoc, readIns,
      readKVs_write x _ (hs x (by simp))]
    cases j with
    | zero =>
      simp only [List.getElem?_cons_zero, Option.some.injEq] at hj
      subst hj
      rw [hbad]
    | succ j' =>
      simp only [List.getElem?_cons_succ] at hj
      cases InScope.addPairs ko sha c (seedIn tx i) x with
      | none => rfl
      | some s =>
        simp only []
        rw [ih j' n' (i + 1) kvs rest (fun k hk => hs k (by simp [hk])) hj (by omega) hbad]

/-- `PSBT.parse`, any mode: a framed PSBT one of whose INPUT scopes (number `j` below the input count the global
    map announces) is refused from every seed is refused -/
theorem parse_input_scope_none (ko : KeyOps) (sha : Bytes → Bytes) (c : Nat) (g : List KV) (scopes : List (List KV))
    (hg : ∀ kv ∈ g, KVWF kv) (hs : ∀ kvs ∈ scopes, ∀ kv ∈ kvs, KVWF kv)
    (j : Nat) (kvs : List KV) (hj : scopes[j]? = some kvs) (hbad : ∀ s, InScope.addPairs ko sha c s kvs = none)
    (hin : ∀ tx ver unk gs, globalFold none none [] g = some (tx, ver, unk) →
      (tx.isSome && ver == some 2) = false → (tx.isNone && !(ver == some 2)) = false →
      parseUnknowns ko (ver == some 2) (gstate0 tx) unk = some gs → j < gs.nin.getD 0) :
    Psbt.parse ko sha c (framePsbt g scopes) = none := by
  have h1 : takeN 5 (psbtMagic ++ (writeKVs g ++ scopes.flatMap writeKVs))
      = some (psbtMagic, writeKVs g ++ scopes.flatMap writeKVs) := takeN_append psbtMagic _
  have h2 := readKVs_write g (scopes.flatMap writeKVs) hg
  unfold Psbt.parse framePsbt
  simp only [h1, h2]
  cases hgf : globalFold none none [] g with
  | none => simp
  | some r =>
    obtain ⟨tx, ver, unk⟩ := r
    simp only [ne_eq, not_true_eq_false, if_false]
    split
    · rfl
    rename_i c1
    split
    · rfl
    rename_i c2
    cases hpu : parseUnknowns ko (ver == some 2) (gstate0 tx) unk with
    | none => simp only [gstate0] at hpu; simp only [hpu]
    | some gs =>
      have hlt := hin tx ver unk gs hgf (by simpa using c1) (by simpa using c2) hpu
      simp only [gstate0] at hpu
      simp only [hpu]
      have := readIns_scope_none ko sha c tx scopes j (gs.nin.getD 0) 0 kvs [] hs hj hlt hbad
      simp only [List.append_nil] at this
      rw [this]

end Embit
