import EmbitModel.Model.SignWithView
import EmbitModel.Proofs.SignWithSound
import EmbitModel.Proofs.SignWithComplete
/-
  The stream model `viewSignWith` (PSBTView.sign_with): the ghost PSBT of signed copies obeys the same trace discipline
  and justification as the in-memory model, and the bytes written are the signature fields of that PSBT (Mathlib-free).
-/
namespace Embit.Model.SignWith
open Embit Embit.Model

variable {HD : Type}

/-! ### all keys on one scope -/

theorem signInputKeys_tr (O : Ops HD) (auth : Option Nat) (dg : Digest) (keys : List (Single HD)) (seen : List Slot)
    (s s' : InScope) (n : Nat) (ws : List (Slot × Bytes)) (h : signInputKeys O auth dg seen keys s = some (s', n, ws)) :
    Tr seen s s' n ws := by
  induction keys generalizing seen s s' n ws with
  | nil => simp only [signInputKeys, Option.some.injEq, Prod.mk.injEq] at h; obtain ⟨rfl, rfl, rfl⟩ := h; exact Tr.refl _ _
  | cons k r ih =>
    unfold signInputKeys at h
    split at h
    · cases h
    · rename_i s1 n1 w1 h1
      split at h
      · cases h
      · rename_i s2 n2 w2 h2
        simp only [Option.some.injEq, Prod.mk.injEq] at h; obtain ⟨rfl, rfl, rfl⟩ := h
        exact Tr.trans (signInput_tr _ _ _ _ _ _ _ _ _ h1) (ih _ _ _ _ _ h2)

theorem signInputKeys_just (O : Ops HD) (OL : OrderLaws O) (auth : Option Nat) (dg : Digest) (s0 : InScope) (u : TxOut)
    (hdg : ∀ t, core t = core s0 → dg t = dg s0) (hu : s0.utxo = some u) (keys : List (Single HD))
    (seen : List Slot) (s s' : InScope) (n : Nat) (ws : List (Slot × Bytes)) (hc : core s = core s0)
    (h : signInputKeys O auth dg seen keys s = some (s', n, ws)) :
    ∀ w ∈ ws, ∃ sg ∈ keys, ∃ f, signPolicy auth s0.sighashType (isTaprootSpk u.spk) = some f ∧
      Justified O sg s0 u f (dg s0) w := by
  induction keys generalizing seen s s' n ws with
  | nil =>
    simp only [signInputKeys, Option.some.injEq, Prod.mk.injEq] at h; obtain ⟨rfl, rfl, rfl⟩ := h
    intro w hw; cases hw
  | cons k r ih =>
    unfold signInputKeys at h
    split at h
    · cases h
    · rename_i s1 n1 w1 h1
      split at h
      · cases h
      · rename_i s2 n2 w2 h2
        simp only [Option.some.injEq, Prod.mk.injEq] at h; obtain ⟨rfl, rfl, rfl⟩ := h
        have hf := core_fields hc
        intro w hw
        rw [List.mem_append] at hw
        rcases hw with hw | hw
        · have hdg' : ∀ t, core t = core s → dg t = dg s := by
            intro t ht
            rw [hdg t (ht.trans hc), hdg s hc]
          have hu' : s.utxo = some u := by rw [hf.1]; exact hu
          obtain ⟨f, hpol, hj⟩ := signInput_just O OL k auth dg s u hdg' hu' seen s1 n1 w1 h1 w hw
          refine ⟨k, List.mem_cons_self, f, by rw [← hf.2.2.2.2.2.2.2]; exact hpol, ?_⟩
          rw [hdg s hc] at hj
          exact hj.core hc
        · have hc1 : core s1 = core s0 := by rw [(signInput_tr _ _ _ _ _ _ _ _ _ h1).core, hc]
          obtain ⟨sg, hsg, hr⟩ := ih _ _ _ _ _ hc1 h2 w hw
          exact ⟨sg, List.mem_cons_of_mem _ hsg, hr⟩

theorem signInputKeys_complete (O : Ops HD) (OL : OrderLaws O) (auth : Option Nat) (dg : Digest) (s0 : InScope)
    (u : TxOut) (hu : s0.utxo = some u) (f : Nat)
    (hpol : signPolicy auth s0.sighashType (isTaprootSpk u.spk) = some f) (keys : List (Single HD))
    (seen : List Slot) (s s' : InScope) (n : Nat) (ws : List (Slot × Bytes)) (hc : core s = core s0)
    (h : signInputKeys O auth dg seen keys s = some (s', n, ws)) :
    ∀ sg ∈ keys, InputDone O sg s0 u s' := by
  induction keys generalizing seen s s' n ws with
  | nil => intro sg hsg; cases hsg
  | cons k r ih =>
    unfold signInputKeys at h
    split at h
    · cases h
    · rename_i s1 n1 w1 h1
      split at h
      · cases h
      · rename_i s2 n2 w2 h2
        simp only [Option.some.injEq, Prod.mk.injEq] at h; obtain ⟨rfl, rfl, rfl⟩ := h
        have hf := core_fields hc
        have hc1 : core s1 = core s0 := by rw [(signInput_tr _ _ _ _ _ _ _ _ _ h1).core, hc]
        intro sg hsg
        rcases List.mem_cons.mp hsg with rfl | hsg
        · have hu' : s.utxo = some u := by rw [hf.1]; exact hu
          have hpol' : signPolicy auth s.sighashType (isTaprootSpk u.spk) = some f := by
            rw [hf.2.2.2.2.2.2.2]; exact hpol
          exact ((signInput_complete O OL sg auth dg s u hu' f hpol' seen s1 n1 w1 h1).core hc).mono
            (signInputKeys_tr _ _ _ _ _ _ _ _ _ h2)
        · exact ih _ _ _ _ _ hc1 h2 sg hsg

/-! ### one input of the view -/

/-- the bytes `sign_input` writes for input scope `s` whose signed copy is `s'` -/
def viewScopeBytes (keys : List (Single HD)) (auth : Option Nat) (s s' : InScope) : Bytes :=
  if (keys.filter Single.isPrivate).isEmpty then [] else
  match s.utxo with
  | none => []
  | some u =>
    match signPolicy auth s.sighashType (isTaprootSpk u.spk) with
    | none => []
    | some _ => kvBytes (sigPairs s' (isTaprootSpk u.spk))

theorem viewSignInput_spec (O : Ops HD) (keys : List (Single HD)) (auth : Option Nat) (dg : Digest) (s : InScope)
    (b : Bytes) (s' : InScope) (n : Nat) (ws : List (Slot × Bytes))
    (h : viewSignInput O keys auth dg s = some (b, s', n, ws)) :
    signInputKeys O auth dg [] (keys.filter Single.isPrivate) s = some (s', n, ws) ∧ b = viewScopeBytes keys auth s s' := by
  unfold viewSignInput at h
  dsimp only at h
  split at h
  · cases h
  · rename_i s1 n1 w1 h1
    split at h
    · rename_i he
      simp only [Option.some.injEq, Prod.mk.injEq] at h; obtain ⟨rfl, rfl, rfl, rfl⟩ := h
      exact ⟨h1, by simp [viewScopeBytes, he]⟩
    · rename_i he
      split at h
      · cases h
      · rename_i u hu
        split at h
        · rename_i hp
          simp only [Option.some.injEq, Prod.mk.injEq] at h; obtain ⟨rfl, rfl, rfl, rfl⟩ := h
          exact ⟨h1, by simp [viewScopeBytes, he, hu, hp]⟩
        · rename_i f hp
          simp only [Option.some.injEq, Prod.mk.injEq] at h; obtain ⟨rfl, rfl, rfl, rfl⟩ := h
          exact ⟨h1, by simp [viewScopeBytes, he, hu, hp]⟩

/-! ### the loop over the inputs -/

/-- the bytes `sign_with` writes: per input the signature fields of the signed copy, then a separator -/
def viewStream (keys : List (Single HD)) (auth : Option Nat) : List InScope → List InScope → Bytes
  | s :: r, s' :: r' => viewScopeBytes keys auth s s' ++ [0x00] ++ viewStream keys auth r r'
  | _, _ => []

theorem slotsOf_lt (G : List (Nat × Slot)) (i : Nat) (h : ∀ e ∈ G, e.1 < i) : slotsOf G i = [] := by
  induction G with
  | nil => rfl
  | cons e r ih =>
    have h1 : e.1 ≠ i := Nat.ne_of_lt (h e List.mem_cons_self)
    have := ih (fun e he => h e (List.mem_cons_of_mem _ he))
    simp only [slotsOf, List.filterMap_cons, h1, if_false] at this ⊢
    exact this

theorem viewSignFrom_spec (O : Ops HD) (OL : OrderLaws O) (keys : List (Single HD)) (auth : Option Nat) (p : Psbt)
    (pre l : List InScope) (hp : p.inputs = pre ++ l) (b : Bytes) (ss : List InScope) (n : Nat) (ws : List Write)
    (h : viewSignFrom O keys auth p pre.length l = some (b, ss, n, ws)) :
    ss.length = l.length ∧ b = viewStream keys auth l ss ∧
    (∀ (G : List (Nat × Slot)) (q : Psbt) (pre' : List InScope), (∀ e ∈ G, e.1 < pre.length) →
      pre'.length = pre.length → q.inputs = pre' ++ l → PTr G q { q with inputs := pre' ++ ss } n ws) ∧
    (∀ w ∈ ws, ∃ sg ∈ keys, JustifiedAt O sg auth p w) ∧
    (∀ sg ∈ keys, sg.isPrivate = true → ∀ (k : Nat) s u f, l[k]? = some s → s.utxo = some u →
      signPolicy auth s.sighashType (isTaprootSpk u.spk) = some f →
      ∃ s', ss[k]? = some s' ∧ InputDone O sg s u s') := by
  induction l generalizing pre b ss n ws with
  | nil =>
    simp only [viewSignFrom, Option.some.injEq, Prod.mk.injEq] at h; obtain ⟨rfl, rfl, rfl, rfl⟩ := h
    refine ⟨rfl, rfl, ?_, ?_, ?_⟩
    · intro G q pre' _ _ hq
      have : ({ q with inputs := pre' ++ [] } : Psbt) = q := by rw [← hq]
      rw [this]; exact PTr.refl G q
    · intro w hw; cases hw
    · intro sg _ _ k s u f hk; simp at hk
  | cons s r ih =>
    unfold viewSignFrom at h
    split at h
    · cases h
    · rename_i b1 s1 n1 w1 h1
      split at h
      · cases h
      · rename_i b2 ss2 n2 w2 h2
        simp only [Option.some.injEq, Prod.mk.injEq] at h; obtain ⟨rfl, rfl, rfl, rfl⟩ := h
        obtain ⟨hk1, hb1⟩ := viewSignInput_spec O keys auth _ s b1 s1 n1 w1 h1
        have htr1 := signInputKeys_tr _ _ _ _ _ _ _ _ _ hk1
        have hp' : p.inputs = (pre ++ [s]) ++ r := by rw [hp]; simp
        have hlen : (pre ++ [s]).length = pre.length + 1 := by simp
        rw [← hlen] at h2
        obtain ⟨ihl, ihb, iht, ihj, ihc⟩ := ih (pre ++ [s]) hp' b2 ss2 n2 w2 h2
        have hps : p.inputs[pre.length]? = some s := by rw [hp]; simp
        refine ⟨by simp [ihl], ?_, ?_, ?_, ?_⟩
        · simp only [viewStream, hb1, ihb]
        · intro G q pre' hG hl' hq
          have hqs : q.inputs[pre.length]? = some s := by rw [hq, ← hl']; simp
          have htr1' : Tr (slotsOf G pre.length) s s1 n1 w1 := by rw [slotsOf_lt G pre.length hG]; exact htr1
          have t1 := PTr.ofInput hqs htr1'
          have hset : (Psbt.setInput q pre.length s1) = { q with inputs := (pre' ++ [s1]) ++ r } := by
            simp only [Psbt.setInput, hq, ← hl']
            congr 1
            simp
          have hG' : ∀ e ∈ G ++ (w1.map (fun w => ((pre.length, w) : Write))).map Write.slot,
              e.1 < (pre ++ [s]).length := by
            intro e he
            rw [hlen]
            rcases List.mem_append.mp he with he | he
            · exact Nat.lt_succ_of_lt (hG e he)
            · rw [slots_of_input] at he
              obtain ⟨w, _, rfl⟩ := List.mem_map.mp he
              exact Nat.lt_succ_self _
          have t2 := iht _ { q with inputs := (pre' ++ [s1]) ++ r } (pre' ++ [s1]) hG' (by simp [hl']) rfl
          rw [hset] at t1
          have := PTr.trans t1 t2
          simpa using this
        · intro w hw
          rw [List.mem_append] at hw
          rcases hw with hw | hw
          · rw [List.mem_map] at hw
            obtain ⟨w', hw', rfl⟩ := hw
            cases hu : s.utxo with
            | none =>
              exfalso
              -- a private key on a scope without previous output raises; without private keys nothing is written
              cases hpr : keys.filter Single.isPrivate with
              | nil => rw [hpr] at hk1; simp [signInputKeys] at hk1; obtain ⟨_, _, rfl⟩ := hk1; cases hw'
              | cons k0 r0 => rw [hpr] at hk1; simp [signInputKeys, signInput, hu] at hk1
            | some u =>
              have hdg : ∀ t, core t = core s →
                  (fun s' f leaf => psbtSighash O.sha (Psbt.setInput p pre.length s') pre.length f leaf) t
                    = (fun s' f leaf => psbtSighash O.sha (Psbt.setInput p pre.length s') pre.length f leaf) s := by
                intro t ht
                funext f leaf
                show psbtSighash O.sha (Psbt.setInput p pre.length t) pre.length f leaf
                  = psbtSighash O.sha (Psbt.setInput p pre.length s) pre.length f leaf
                rw [digest_setInput O.sha p pre.length s t hps ht, setInput_self p pre.length s hps]
              obtain ⟨sg, hsg, f, hpol, hj⟩ :=
                signInputKeys_just O OL auth _ s u hdg hu _ [] s s1 n1 w1 rfl hk1 w' hw'
              refine ⟨sg, (List.mem_filter.mp hsg).1, s, u, f, hps, hu, hpol, ?_⟩
              refine hj.digest (fun f leaf => ?_)
              show psbtSighash O.sha (Psbt.setInput p pre.length s) pre.length f leaf = psbtSighash O.sha p pre.length f leaf
              rw [setInput_self p pre.length s hps]
          · exact ihj w hw
        · intro sg hsg hpriv k s0 u f hk hu hpol
          cases k with
          | zero =>
            simp only [List.getElem?_cons_zero, Option.some.injEq] at hk
            subst hk
            refine ⟨s1, by simp, ?_⟩
            exact signInputKeys_complete O OL auth _ s u hu f hpol _ [] s s1 n1 w1 rfl hk1 sg
              (List.mem_filter.mpr ⟨hsg, hpriv⟩)
          | succ k' =>
            simp only [List.getElem?_cons_succ] at hk ⊢
            exact ihc sg hsg hpriv k' s0 u f hk hu hpol

theorem viewSignWith_spec (O : Ops HD) (OL : OrderLaws O) (signer : Signer HD) (auth : Option Nat) (p : Psbt)
    (b : Bytes) (n : Nat) (p' : Psbt) (ws : List Write) (h : viewSignWith O signer auth p = some (b, n, p', ws)) :
    PTr [] p p' n ws ∧ b = viewStream signer.keys auth p.inputs p'.inputs ∧
    (∀ w ∈ ws, ∃ sg ∈ signer.keys, JustifiedAt O sg auth p w) ∧
    (∀ sg ∈ signer.keys, sg.isPrivate = true → ∀ (i : Nat) s u f, p.inputs[i]? = some s → s.utxo = some u →
      signPolicy auth s.sighashType (isTaprootSpk u.spk) = some f →
      ∃ s', p'.inputs[i]? = some s' ∧ InputDone O sg s u s') := by
  unfold viewSignWith at h
  split at h
  · cases h
  · rename_i b0 ss n0 ws0 h0
    simp only [Option.some.injEq, Prod.mk.injEq] at h; obtain ⟨rfl, rfl, rfl, rfl⟩ := h
    obtain ⟨_, hb, ht, hj, hc⟩ := viewSignFrom_spec O OL signer.keys auth p [] p.inputs rfl b0 ss n0 ws0 h0
    refine ⟨?_, hb, hj, hc⟩
    have := ht [] p [] (fun e he => by cases he) rfl rfl
    simpa using this

end Embit.Model.SignWith
