import EmbitModel.Proofs.Slip39Groups
import EmbitModel.Proofs.Slip39EndToEnd
/-
  Two-level recovery from ANY sufficient set: shares taken from a two-level split (group shares by
  `split_secret(ems, GT, G)`, member shares by `split_secret(group share, T_i, N_i)`) recover `decrypt(ems)` as
  soon as at least GT groups are present and every present group has at least its member threshold of shares —
  exact sets and supersets alike.
-/
namespace Embit.Model.Slip39
open Embit Embit.Spec.Slip39

theorem gather_range (P : Prims) (shares : List Share) (G : Nat) :
    gatherGroups P ((List.range G).map fun i => (i, shares.filter fun s => s.groupIndex == i)) =
      mapOpt (fun i => groupData P (i, shares.filter fun s => s.groupIndex == i))
        ((List.range G).filter fun i => shares.any fun s => s.groupIndex == i) := by
  rw [gather_eq_mapOpt, List.filter_map]
  have : (List.range G).filter ((fun g : Nat × List Share => !g.2.isEmpty) ∘ fun i =>
      (i, shares.filter fun s => s.groupIndex == i)) =
      (List.range G).filter fun i => shares.any fun s => s.groupIndex == i := by
    apply List.filter_congr
    intro i _
    simp only [Function.comp]
    cases hf : shares.filter (fun s => s.groupIndex == i) with
    | nil =>
      rw [List.filter_eq_nil_iff] at hf
      have : (shares.any fun s => s.groupIndex == i) = false := by
        rw [List.any_eq_false]; exact hf
      rw [this]; rfl
    | cons a l =>
      have ha : a ∈ shares.filter (fun s => s.groupIndex == i) := by rw [hf]; exact List.mem_cons_self
      have : (shares.any fun s => s.groupIndex == i) = true := by
        rw [List.any_eq_true]; exact ⟨a, List.mem_of_mem_filter ha, (List.mem_filter.mp ha).2⟩
      rw [this]; rfl
  rw [this, mapOpt_map]

theorem mapOpt_of_forall {α β : Type} (f : α → Option β) (l : List α) (h : ∀ a ∈ l, ∃ b, f a = some b) :
    ∃ r, mapOpt f l = some r := by
  induction l with
  | nil => exact ⟨[], rfl⟩
  | cons a l ih =>
    obtain ⟨b, hb⟩ := h a List.mem_cons_self
    obtain ⟨r, hr⟩ := ih (fun a' ha' => h a' (List.mem_cons_of_mem _ ha'))
    exact ⟨b :: r, by simp only [mapOpt, hb, hr]⟩

theorem nodup_members (l : List Share) (h : (l.map fun s => (s.groupIndex, s.memberIndex)).Nodup) (gi : Nat) :
    ((l.filter fun s => s.groupIndex == gi).map (·.memberIndex)).Nodup := by
  have h1 : ((l.filter fun s => s.groupIndex == gi).map fun s => (s.groupIndex, s.memberIndex)).Nodup :=
    List.Nodup.sublist (List.Sublist.map _ List.filter_sublist) h
  have h2 : ((l.filter fun s => s.groupIndex == gi).map fun s => (s.groupIndex, s.memberIndex)) =
      ((l.filter fun s => s.groupIndex == gi).map (·.memberIndex)).map fun m => (gi, m) := by
    rw [List.map_map]
    apply List.map_congr_left
    intro s hs
    have := (List.mem_filter.mp hs).2
    simp only [beq_iff_eq] at this
    simp [this]
  rw [h2] at h1
  exact List.Nodup.of_map _ h1

/-- **two-level: any sufficient set recovers.** -/
theorem two_level_recover (P : Prims) (hH : ∀ key msg, 4 ≤ (P.hmac key msg).length)
    (ems : Bytes) (GT G : Nat) (tape0 : List Nat) (gsh : List (Nat × Bytes))
    (hg : splitSecret P ems GT G tape0 = some gsh)
    (Tof Nof : Nat → Nat) (tapeOf : Nat → List Nat) (msOf : Nat → List (Nat × Bytes))
    (hm : ∀ g ∈ gsh, splitSecret P g.2 (Tof g.1) (Nof g.1) (tapeOf g.1) = some (msOf g.1))
    (id e : Nat) (shares : List Share)
    (hsh : ∀ s ∈ shares, s.id = id ∧ s.exponent = e ∧ s.groupThreshold = GT ∧ s.groupCount = G ∧
        s.shareBitLength = 8 * ems.length ∧ s.groupIndex < G ∧ s.memberThreshold = Tof s.groupIndex ∧
        (s.memberIndex, s.bytes) ∈ msOf s.groupIndex)
    (hnd : (shares.map fun s => (s.groupIndex, s.memberIndex)).Nodup)
    (hfull : ∀ s ∈ shares, s.memberThreshold ≤ (shares.filter fun t => t.groupIndex == s.groupIndex).length)
    (D : List Nat) (hDnd : D.Nodup) (hD : ∀ d ∈ D, ∃ s ∈ shares, s.groupIndex = d) (hGT : GT ≤ D.length)
    (pass : Bytes) :
    (ShareSet.new? shares).bind (fun ss => ss.recover P pass) = decrypt P ems id e pass := by
  obtain ⟨hx, hGT1, hGTG, hG16, _, _, hk1⟩ := splitSecret_shape P hH ems GT G tape0 gsh hg
  have hgsh : ∀ i, i < G → ∃ v, (i, v) ∈ gsh := by
    intro i hi
    have : i ∈ gsh.map (·.1) := by rw [hx]; exact List.mem_range.mpr hi
    obtain ⟨d, hd, rfl⟩ := List.mem_map.mp this
    exact ⟨d.2, hd⟩
  -- ShareSet(shares)
  cases shares with
  | nil =>
    exfalso
    cases D with
    | nil => simp at hGT; omega
    | cons d _ => obtain ⟨s, hs, _⟩ := hD d List.mem_cons_self; simp at hs
  | cons s0 rest =>
    have h0 := hsh s0 List.mem_cons_self
    have hcons : consistent s0 (s0 :: rest) = true := by
      simp only [consistent, Bool.and_eq_true, List.all_eq_true, beq_iff_eq, Bool.not_eq_true',
        decide_eq_false_iff_not, Nat.not_lt]
      refine ⟨⟨⟨⟨⟨⟨?_, ?_⟩, ?_⟩, ?_⟩, ?_⟩, ?_⟩, (nodupB_iff _).mpr hnd⟩
      · intro s hs; rw [(hsh s hs).1, h0.1]
      · intro s hs; rw [(hsh s hs).2.1, h0.2.1]
      · intro s hs; rw [(hsh s hs).2.2.1, h0.2.2.1]
      · intro s hs; rw [(hsh s hs).2.2.2.1, h0.2.2.2.1]
      · rw [h0.2.2.1, h0.2.2.2.1]; exact hGTG
      · intro s hs; rw [(hsh s hs).2.2.2.2.1, h0.2.2.2.2.1]
    have hnew : ShareSet.new? (s0 :: rest) = some ⟨s0 :: rest, id, e, GT, G, 8 * ems.length⟩ := by
      simp only [ShareSet.new?, hcons, Bool.not_true, Bool.and_false, Bool.false_eq_true, if_false,
        h0.1, h0.2.1, h0.2.2.1, h0.2.2.2.1, h0.2.2.2.2.1]
    rw [hnew, Option.bind_some]
    generalize hS : s0 :: rest = shares at *
    -- the groups present
    generalize hGIs : ((List.range G).filter fun i => shares.any fun s => s.groupIndex == i) = GIs
    have hGImem : ∀ gi, gi ∈ GIs ↔ gi < G ∧ ∃ s ∈ shares, s.groupIndex = gi := by
      intro gi
      rw [← hGIs, List.mem_filter, List.mem_range, List.any_eq_true]
      simp only [beq_iff_eq]
    -- every present group yields its group share
    have hgroup : ∀ gi ∈ GIs, ∃ d, groupData P (gi, shares.filter fun s => s.groupIndex == gi) = some d ∧
        d ∈ gsh ∧ d.1 = gi := by
      intro gi hgi
      obtain ⟨hgiG, s1, hs1, hs1g⟩ := (hGImem gi).mp hgi
      obtain ⟨v, hv⟩ := hgsh gi hgiG
      have hsplit := hm (gi, v) hv
      simp only at hsplit
      obtain ⟨_, hT1, _, _, _, _, hTk1⟩ := splitSecret_shape P hH v (Tof gi) (Nof gi) (tapeOf gi) (msOf gi) hsplit
      refine ⟨(gi, v), ?_, hv, rfl⟩
      have hin : s1 ∈ shares.filter (fun s => s.groupIndex == gi) := List.mem_filter.mpr ⟨hs1, by simp [hs1g]⟩
      have hgrp : ∀ s ∈ shares.filter (fun s => s.groupIndex == gi), s ∈ shares ∧ s.groupIndex = gi := by
        intro s hs
        have := List.mem_filter.mp hs
        exact ⟨this.1, by simpa using this.2⟩
      have hndm := nodup_members shares hnd gi
      cases hf : shares.filter (fun s => s.groupIndex == gi) with
      | nil => rw [hf] at hin; simp at hin
      | cons g0 grest =>
        rw [hf] at hgrp hndm
        have hg0 := hgrp g0 List.mem_cons_self
        have hmtall : ∀ s ∈ g0 :: grest, s.memberThreshold = Tof gi := by
          intro s hs; rw [(hsh s (hgrp s hs).1).2.2.2.2.2.2.1, (hgrp s hs).2]
        have hall : (g0 :: grest).all (fun s => s.memberThreshold == g0.memberThreshold) = true := by
          rw [List.all_eq_true]; intro s hs
          simp only [beq_iff_eq]; rw [hmtall s hs, hmtall g0 List.mem_cons_self]
        have hmem : ∀ s ∈ g0 :: grest, (s.memberIndex, s.bytes) ∈ msOf gi := by
          intro s hs
          have := (hsh s (hgrp s hs).1).2.2.2.2.2.2.2
          rwa [(hgrp s hs).2] at this
        by_cases h1 : Tof gi = 1
        · have hmt1 : g0.memberThreshold = 1 := by rw [hmtall g0 List.mem_cons_self, h1]
          have hall1 := hall
          rw [hmt1] at hall1
          have hb : g0.bytes = v := hTk1 h1 _ (hmem g0 List.mem_cons_self)
          simp only [groupData, recoverGroup, hmt1, hall1, Bool.not_true, Bool.false_eq_true, if_false, if_true, hb]
        · have hmtne : g0.memberThreshold ≠ 1 := by rw [hmtall g0 List.mem_cons_self]; exact h1
          have hlen : ¬ g0.memberThreshold > (g0 :: grest).length := by
            have := hfull g0 hg0.1
            rw [hg0.2, hf] at this
            omega
          have hrec : recoverSecret P ((g0 :: grest).map fun s => (s.memberIndex, s.bytes)) = some v := by
            apply recoverSecret_of_split P hH v (Tof gi) (Nof gi) (tapeOf gi) (msOf gi) hsplit (by omega)
            · intro t ht
              obtain ⟨s, hs, rfl⟩ := List.mem_map.mp ht
              exact hmem s hs
            · rw [List.map_map]; exact hndm
            · rw [List.length_map, ← hmtall g0 List.mem_cons_self]; omega
          simp only [groupData, recoverGroup, hall, Bool.not_true, Bool.false_eq_true, if_false, hmtne, hlen, hrec]
    obtain ⟨sd, hsd⟩ := mapOpt_of_forall _ GIs (fun gi hgi => by
      obtain ⟨d, hd, _⟩ := hgroup gi hgi; exact ⟨d, hd⟩)
    have hsd_mem : ∀ d ∈ sd, d ∈ gsh := by
      intro d hd
      obtain ⟨gi, hgi, hfa⟩ := mapOpt_mem _ _ _ hsd d hd
      obtain ⟨d', hd', hin, _⟩ := hgroup gi hgi
      rw [hfa] at hd'; simp only [Option.some.injEq] at hd'; rw [hd']; exact hin
    have hsd_fst : sd.map (·.1) = GIs := by
      apply mapOpt_fst _ _ _ hsd
      intro gi hgi b hb
      obtain ⟨d', hd', _, h1⟩ := hgroup gi hgi
      rw [hb] at hd'; simp only [Option.some.injEq] at hd'; rw [hd']; exact h1
    have hsd_len : GT ≤ sd.length := by
      rw [mapOpt_length _ _ _ hsd]
      have hsub : ∀ d ∈ D, d ∈ GIs := by
        intro d hd
        obtain ⟨s, hs, hsg⟩ := hD d hd
        exact (hGImem d).mpr ⟨by rw [← hsg]; exact (hsh s hs).2.2.2.2.2.1, s, hs, hsg⟩
      have := (List.subperm_of_subset hDnd hsub).length_le
      omega
    have hsd_nd : (sd.map (·.1)).Nodup := by
      rw [hsd_fst, ← hGIs]; exact List.Nodup.sublist List.filter_sublist List.nodup_range
    have hidx : (shares.any fun s => decide (s.groupIndex ≥ G)) = false := by
      rw [List.any_eq_false]
      intro s hs
      have := (hsh s hs).2.2.2.2.2.1
      simp only [decide_eq_true_eq]; omega
    unfold ShareSet.recover
    simp only [hidx, Bool.false_eq_true, if_false, gather_range, hGIs, hsd]
    by_cases hgt1 : GT = 1
    · simp only [hgt1, if_true]
      cases sd with
      | nil => simp at hsd_len; omega
      | cons d _ =>
        simp only
        rw [hk1 hgt1 d (hsd_mem d List.mem_cons_self)]
    · simp only [hgt1, if_false]
      rw [if_neg (by omega),
        recoverSecret_of_split P hH ems GT G tape0 gsh hg (by omega) sd hsd_mem hsd_nd hsd_len]

end Embit.Model.Slip39
