import Batteries.Data.List.Perm
import EmbitModel.Proofs.PsetNodup
/-
  C18 (deepening): what `write_to` emits for a scope that `read_from` built is a PERMUTATION of the pairs that were
  read (outputs: with every key in the spelling of the PSET's version) — nothing invented, nothing lost, hence no key
  written twice. Counting argument: every accepted pair adds exactly one pair to the output (`pairs_length_step`,
  branch by branch), every pair read is in the output (losslessness), the keys read are pairwise different.
-/
set_option linter.unusedSimpArgs false
set_option linter.unusedVariables false
namespace Embit
open Model Spec.LWire

theorem nodup_of_covered {α : Type} [DecidableEq α] (l L : List α) (hl : l.Nodup) (hs : ∀ x ∈ l, x ∈ L)
    (hlen : L.length ≤ l.length) : l.Perm L :=
  (List.subperm_of_subset hl hs).perm_of_length_le hlen

theorem filterMap_length_step {φ β : Type} [DecidableEq φ] (p p' : φ → Option β) (f : φ) (hp : p f = none)
    (hp' : (p' f).isSome = true) (hne : ∀ g, g ≠ f → p' g = p g) :
    ∀ (l : List φ), l.Nodup → f ∈ l → (l.filterMap p').length = (l.filterMap p).length + 1 := by
  have hsame : ∀ (l : List φ), f ∉ l → l.filterMap p' = l.filterMap p := by
    intro l hl
    induction l with
    | nil => rfl
    | cons a l ih =>
      have ha : a ≠ f := fun e => hl (by simp [e])
      simp only [List.filterMap_cons, hne a ha]
      rw [ih (fun h => hl (by simp [h]))]
  intro l
  induction l with
  | nil => intro _ h; simp at h
  | cons a l ih =>
    intro hn hm
    simp only [List.nodup_cons] at hn
    by_cases ha : a = f
    · subst ha
      obtain ⟨w, hw⟩ := Option.isSome_iff_exists.mp hp'
      simp only [List.filterMap_cons, hp, hw, hsame l hn.1, List.length_cons]
    · have hm' : f ∈ l := by
        simp at hm; rcases hm with e | e
        · exact absurd e.symm ha
        · exact e
      simp only [List.filterMap_cons, hne a ha]
      cases p a <;> simp [ih hn.2 hm']

theorem InScope.size_eq (s : InScope) (ver : Option Nat) : (s.pairs ver).length =
    s.nonWitnessUtxo.isSome.toNat + s.witnessUtxo.isSome.toNat + s.partialSigs.length + s.sighashType.isSome.toNat
    + s.redeemScript.isSome.toNat + s.witnessScript.isSome.toNat + s.bip32.length + s.finalScriptSig.isSome.toNat
    + s.finalWitness.isSome.toNat
    + (if ver = some 2 then s.txid.isSome.toNat + s.vout.isSome.toNat + s.sequence.isSome.toNat else 0)
    + s.tapSigs.length + s.tapScripts.length + s.tapBip32.length + s.tapInternalKey.isSome.toNat
    + s.tapMerkleRoot.isSome.toNat + s.unknown.length := by
  have h : ∀ (k : Bytes) (o : Option Bytes), (optKV k o).length = o.isSome.toNat := by
    intro k o; cases o <;> rfl
  simp only [InScope.pairs, List.length_append, List.length_map, h, Option.isSome_map]
  split <;> simp [h] <;> omega


/-- one step of `InputScope.read_value` (KEEP_ALL) adds exactly one pair to what `write_to` emits (version 2; in
    version 0 unless the key is a transaction field) -/
theorem InScope.pairs_length_step (ko : KeyOps) (sha : Bytes → Bytes) (s s' : InScope) (k v : Bytes) (hk : k ≠ [])
    (ver : Option Nat) (hv : ver = some 2 ∨ txFieldKey k = false)
    (h : InScope.addPair ko sha 0 s k v = some s') :
    (s'.pairs ver).length = (s.pairs ver).length + 1 := by
  unfold InScope.addPair at h
  split at h
  · exact absurd rfl hk
  · rename_i k0 krest
    simp only [] at h
    by_cases h0x00 : k0 = 0x00
    · simp only [h0x00, if_true] at h
      repeat' (split at h)
      all_goals (try (simp at h; done))
      all_goals (try (obtain rfl := Option.some.inj h))
      all_goals (try subst h0x00)
      all_goals (first
        | (simp_all (config := { decide := true }); done)
        | (simp only [InScope.size_eq]; simp_all (config := { decide := true }) [txFieldKey]; done)
        | (simp only [InScope.size_eq]; simp_all (config := { decide := true }) [txFieldKey] <;> omega))
    simp only [h0x00, if_false] at h
    by_cases h0x01 : k0 = 0x01
    · simp only [h0x01, if_true] at h
      repeat' (split at h)
      all_goals (try (simp at h; done))
      all_goals (try (obtain rfl := Option.some.inj h))
      all_goals (try subst h0x01)
      all_goals (first
        | (simp_all (config := { decide := true }); done)
        | (simp only [InScope.size_eq]; simp_all (config := { decide := true }) [txFieldKey]; done)
        | (simp only [InScope.size_eq]; simp_all (config := { decide := true }) [txFieldKey] <;> omega))
    simp only [h0x01, if_false] at h
    by_cases h0x02 : k0 = 0x02
    · simp only [h0x02, if_true] at h
      repeat' (split at h)
      all_goals (try (simp at h; done))
      all_goals (try (obtain rfl := Option.some.inj h))
      all_goals (try subst h0x02)
      all_goals (first
        | (simp_all (config := { decide := true }); done)
        | (simp only [InScope.size_eq]; simp_all (config := { decide := true }) [txFieldKey]; done)
        | (simp only [InScope.size_eq]; simp_all (config := { decide := true }) [txFieldKey] <;> omega))
    simp only [h0x02, if_false] at h
    by_cases h0x03 : k0 = 0x03
    · simp only [h0x03, if_true] at h
      repeat' (split at h)
      all_goals (try (simp at h; done))
      all_goals (try (obtain rfl := Option.some.inj h))
      all_goals (try subst h0x03)
      all_goals (first
        | (simp_all (config := { decide := true }); done)
        | (simp only [InScope.size_eq]; simp_all (config := { decide := true }) [txFieldKey]; done)
        | (simp only [InScope.size_eq]; simp_all (config := { decide := true }) [txFieldKey] <;> omega))
    simp only [h0x03, if_false] at h
    by_cases h0x04 : k0 = 0x04
    · simp only [h0x04, if_true] at h
      repeat' (split at h)
      all_goals (try (simp at h; done))
      all_goals (try (obtain rfl := Option.some.inj h))
      all_goals (try subst h0x04)
      all_goals (first
        | (simp_all (config := { decide := true }); done)
        | (simp only [InScope.size_eq]; simp_all (config := { decide := true }) [txFieldKey]; done)
        | (simp only [InScope.size_eq]; simp_all (config := { decide := true }) [txFieldKey] <;> omega))
    simp only [h0x04, if_false] at h
    by_cases h0x05 : k0 = 0x05
    · simp only [h0x05, if_true] at h
      repeat' (split at h)
      all_goals (try (simp at h; done))
      all_goals (try (obtain rfl := Option.some.inj h))
      all_goals (try subst h0x05)
      all_goals (first
        | (simp_all (config := { decide := true }); done)
        | (simp only [InScope.size_eq]; simp_all (config := { decide := true }) [txFieldKey]; done)
        | (simp only [InScope.size_eq]; simp_all (config := { decide := true }) [txFieldKey] <;> omega))
    simp only [h0x05, if_false] at h
    by_cases h0x06 : k0 = 0x06
    · simp only [h0x06, if_true] at h
      repeat' (split at h)
      all_goals (try (simp at h; done))
      all_goals (try (obtain rfl := Option.some.inj h))
      all_goals (try subst h0x06)
      all_goals (first
        | (simp_all (config := { decide := true }); done)
        | (simp only [InScope.size_eq]; simp_all (config := { decide := true }) [txFieldKey]; done)
        | (simp only [InScope.size_eq]; simp_all (config := { decide := true }) [txFieldKey] <;> omega))
    simp only [h0x06, if_false] at h
    by_cases h0x07 : k0 = 0x07
    · simp only [h0x07, if_true] at h
      repeat' (split at h)
      all_goals (try (simp at h; done))
      all_goals (try (obtain rfl := Option.some.inj h))
      all_goals (try subst h0x07)
      all_goals (first
        | (simp_all (config := { decide := true }); done)
        | (simp only [InScope.size_eq]; simp_all (config := { decide := true }) [txFieldKey]; done)
        | (simp only [InScope.size_eq]; simp_all (config := { decide := true }) [txFieldKey] <;> omega))
    simp only [h0x07, if_false] at h
    by_cases h0x08 : k0 = 0x08
    · simp only [h0x08, if_true] at h
      repeat' (split at h)
      all_goals (try (simp at h; done))
      all_goals (try (obtain rfl := Option.some.inj h))
      all_goals (try subst h0x08)
      all_goals (first
        | (simp_all (config := { decide := true }); done)
        | (simp only [InScope.size_eq]; simp_all (config := { decide := true }) [txFieldKey]; done)
        | (simp only [InScope.size_eq]; simp_all (config := { decide := true }) [txFieldKey] <;> omega))
    simp only [h0x08, if_false] at h
    by_cases he : k0 :: krest = [0x0e]
    · simp only [he, if_true] at h
      obtain ⟨rfl, rfl⟩ := List.cons.inj he
      repeat' (split at h)
      all_goals (try (simp at h; done))
      all_goals (try (obtain rfl := Option.some.inj h))
      all_goals (first
        | (simp_all (config := { decide := true }); done)
        | (simp only [InScope.size_eq]; simp_all (config := { decide := true }) [txFieldKey]; done)
        | (simp only [InScope.size_eq]; simp_all (config := { decide := true }) [txFieldKey] <;> omega))
    simp only [he, if_false] at h
    by_cases hf : k0 :: krest = [0x0f]
    · simp only [hf, if_true] at h
      obtain ⟨rfl, rfl⟩ := List.cons.inj hf
      repeat' (split at h)
      all_goals (try (simp at h; done))
      all_goals (try (obtain rfl := Option.some.inj h))
      all_goals (first
        | (simp_all (config := { decide := true }); done)
        | (simp only [InScope.size_eq]; simp_all (config := { decide := true }) [txFieldKey]; done)
        | (simp only [InScope.size_eq]; simp_all (config := { decide := true }) [txFieldKey] <;> omega))
    simp only [hf, if_false] at h
    by_cases hg : k0 :: krest = [0x10]
    · simp only [hg, if_true] at h
      obtain ⟨rfl, rfl⟩ := List.cons.inj hg
      repeat' (split at h)
      all_goals (try (simp at h; done))
      all_goals (try (obtain rfl := Option.some.inj h))
      all_goals (first
        | (simp_all (config := { decide := true }); done)
        | (simp only [InScope.size_eq]; simp_all (config := { decide := true }) [txFieldKey]; done)
        | (simp only [InScope.size_eq]; simp_all (config := { decide := true }) [txFieldKey] <;> omega))
    simp only [hg, if_false] at h
    by_cases h0x14 : k0 = 0x14
    · simp only [h0x14, if_true] at h
      repeat' (split at h)
      all_goals (try (simp at h; done))
      all_goals (try (obtain rfl := Option.some.inj h))
      all_goals (try subst h0x14)
      all_goals (first
        | (simp_all (config := { decide := true }); done)
        | (simp only [InScope.size_eq]; simp_all (config := { decide := true }) [txFieldKey]; done)
        | (simp only [InScope.size_eq]; simp_all (config := { decide := true }) [txFieldKey] <;> omega))
    simp only [h0x14, if_false] at h
    by_cases h0x15 : k0 = 0x15
    · simp only [h0x15, if_true] at h
      repeat' (split at h)
      all_goals (try (simp at h; done))
      all_goals (try (obtain rfl := Option.some.inj h))
      all_goals (try subst h0x15)
      all_goals (first
        | (simp_all (config := { decide := true }); done)
        | (simp only [InScope.size_eq]; simp_all (config := { decide := true }) [txFieldKey]; done)
        | (simp only [InScope.size_eq]; simp_all (config := { decide := true }) [txFieldKey] <;> omega))
    simp only [h0x15, if_false] at h
    by_cases h0x16 : k0 = 0x16
    · simp only [h0x16, if_true] at h
      repeat' (split at h)
      all_goals (try (simp at h; done))
      all_goals (try (obtain rfl := Option.some.inj h))
      all_goals (try subst h0x16)
      all_goals (first
        | (simp_all (config := { decide := true }); done)
        | (simp only [InScope.size_eq]; simp_all (config := { decide := true }) [txFieldKey]; done)
        | (simp only [InScope.size_eq]; simp_all (config := { decide := true }) [txFieldKey] <;> omega))
    simp only [h0x16, if_false] at h
    by_cases h0x17 : k0 = 0x17
    · simp only [h0x17, if_true] at h
      repeat' (split at h)
      all_goals (try (simp at h; done))
      all_goals (try (obtain rfl := Option.some.inj h))
      all_goals (try subst h0x17)
      all_goals (first
        | (simp_all (config := { decide := true }); done)
        | (simp only [InScope.size_eq]; simp_all (config := { decide := true }) [txFieldKey]; done)
        | (simp only [InScope.size_eq]; simp_all (config := { decide := true }) [txFieldKey] <;> omega))
    simp only [h0x17, if_false] at h
    by_cases h0x18 : k0 = 0x18
    · simp only [h0x18, if_true] at h
      repeat' (split at h)
      all_goals (try (simp at h; done))
      all_goals (try (obtain rfl := Option.some.inj h))
      all_goals (try subst h0x18)
      all_goals (first
        | (simp_all (config := { decide := true }); done)
        | (simp only [InScope.size_eq]; simp_all (config := { decide := true }) [txFieldKey]; done)
        | (simp only [InScope.size_eq]; simp_all (config := { decide := true }) [txFieldKey] <;> omega))
    simp only [h0x18, if_false] at h
    repeat' (split at h)
    all_goals (try (simp at h; done))
    all_goals (try (obtain rfl := Option.some.inj h))
    all_goals (first
      | (simp_all (config := { decide := true }); done)
      | (simp only [InScope.size_eq]; simp_all (config := { decide := true }) [txFieldKey]; done)
      | (simp only [InScope.size_eq]; simp_all (config := { decide := true }) [txFieldKey] <;> omega))

theorem OutScope.size_eq (s : OutScope) (ver : Option Nat) : (s.pairs ver).length =
    s.redeemScript.isSome.toNat + s.witnessScript.isSome.toNat + s.bip32.length
    + (if ver = some 2 then s.value.isSome.toNat + s.spk.isSome.toNat else 0)
    + s.tapInternalKey.isSome.toNat + s.tapBip32.length + s.unknown.length := by
  have h : ∀ (k : Bytes) (o : Option Bytes), (optKV k o).length = o.isSome.toNat := by
    intro k o; cases o <;> rfl
  simp only [OutScope.pairs, List.length_append, List.length_map, h, Option.isSome_map]
  split <;> simp [h]


theorem OutScope.pairs_length_step (ko : KeyOps) (s s' : OutScope) (k v : Bytes) (hk : k ≠ [])
    (ver : Option Nat) (hv : ver = some 2 ∨ txFieldKeyOut k = false)
    (h : OutScope.addPair ko s k v = some s') :
    (s'.pairs ver).length = (s.pairs ver).length + 1 := by
  unfold OutScope.addPair at h
  split at h
  · exact absurd rfl hk
  · rename_i k0 krest
    simp only [] at h
    by_cases h0x00 : k0 = 0x00
    · simp only [h0x00, if_true] at h
      repeat' (split at h)
      all_goals (try (simp at h; done))
      all_goals (try (obtain rfl := Option.some.inj h))
      all_goals (try subst h0x00)
      all_goals (first
        | (simp_all (config := { decide := true }); done)
        | (simp only [OutScope.size_eq]; simp_all (config := { decide := true }) [txFieldKeyOut]; done)
        | (simp only [OutScope.size_eq]; simp_all (config := { decide := true }) [txFieldKeyOut] <;> omega))
    simp only [h0x00, if_false] at h
    by_cases h0x01 : k0 = 0x01
    · simp only [h0x01, if_true] at h
      repeat' (split at h)
      all_goals (try (simp at h; done))
      all_goals (try (obtain rfl := Option.some.inj h))
      all_goals (try subst h0x01)
      all_goals (first
        | (simp_all (config := { decide := true }); done)
        | (simp only [OutScope.size_eq]; simp_all (config := { decide := true }) [txFieldKeyOut]; done)
        | (simp only [OutScope.size_eq]; simp_all (config := { decide := true }) [txFieldKeyOut] <;> omega))
    simp only [h0x01, if_false] at h
    by_cases h0x02 : k0 = 0x02
    · simp only [h0x02, if_true] at h
      repeat' (split at h)
      all_goals (try (simp at h; done))
      all_goals (try (obtain rfl := Option.some.inj h))
      all_goals (try subst h0x02)
      all_goals (first
        | (simp_all (config := { decide := true }); done)
        | (simp only [OutScope.size_eq]; simp_all (config := { decide := true }) [txFieldKeyOut]; done)
        | (simp only [OutScope.size_eq]; simp_all (config := { decide := true }) [txFieldKeyOut] <;> omega))
    simp only [h0x02, if_false] at h
    by_cases hc : k0 :: krest = [0x03]
    · simp only [hc, if_true] at h
      obtain ⟨rfl, rfl⟩ := List.cons.inj hc
      repeat' (split at h)
      all_goals (try (simp at h; done))
      all_goals (try (obtain rfl := Option.some.inj h))
      all_goals (first
        | (simp_all (config := { decide := true }); done)
        | (simp only [OutScope.size_eq]; simp_all (config := { decide := true }) [txFieldKeyOut]; done)
        | (simp only [OutScope.size_eq]; simp_all (config := { decide := true }) [txFieldKeyOut] <;> omega))
    simp only [hc, if_false] at h
    by_cases hd : k0 :: krest = [0x04]
    · simp only [hd, if_true] at h
      obtain ⟨rfl, rfl⟩ := List.cons.inj hd
      repeat' (split at h)
      all_goals (try (simp at h; done))
      all_goals (try (obtain rfl := Option.some.inj h))
      all_goals (first
        | (simp_all (config := { decide := true }); done)
        | (simp only [OutScope.size_eq]; simp_all (config := { decide := true }) [txFieldKeyOut]; done)
        | (simp only [OutScope.size_eq]; simp_all (config := { decide := true }) [txFieldKeyOut] <;> omega))
    simp only [hd, if_false] at h
    by_cases h0x05 : k0 = 0x05
    · simp only [h0x05, if_true] at h
      repeat' (split at h)
      all_goals (try (simp at h; done))
      all_goals (try (obtain rfl := Option.some.inj h))
      all_goals (try subst h0x05)
      all_goals (first
        | (simp_all (config := { decide := true }); done)
        | (simp only [OutScope.size_eq]; simp_all (config := { decide := true }) [txFieldKeyOut]; done)
        | (simp only [OutScope.size_eq]; simp_all (config := { decide := true }) [txFieldKeyOut] <;> omega))
    simp only [h0x05, if_false] at h
    by_cases h0x07 : k0 = 0x07
    · simp only [h0x07, if_true] at h
      repeat' (split at h)
      all_goals (try (simp at h; done))
      all_goals (try (obtain rfl := Option.some.inj h))
      all_goals (try subst h0x07)
      all_goals (first
        | (simp_all (config := { decide := true }); done)
        | (simp only [OutScope.size_eq]; simp_all (config := { decide := true }) [txFieldKeyOut]; done)
        | (simp only [OutScope.size_eq]; simp_all (config := { decide := true }) [txFieldKeyOut] <;> omega))
    simp only [h0x07, if_false] at h
    repeat' (split at h)
    all_goals (try (simp at h; done))
    all_goals (try (obtain rfl := Option.some.inj h))
    all_goals (first
      | (simp_all (config := { decide := true }); done)
      | (simp only [OutScope.size_eq]; simp_all (config := { decide := true }) [txFieldKeyOut]; done)
      | (simp only [OutScope.size_eq]; simp_all (config := { decide := true }) [txFieldKeyOut] <;> omega))


/-! ### liquid scopes -/

theorem LInField.order_nodup : LInField.order.Nodup := by decide
theorem LOutField.order_nodup : LOutField.order.Nodup := by decide

theorem LInScope.lpairs_length_step (s : LInScope) (f : LInField) (v : Bytes) (hf : f ∈ LInField.order)
    (hn : lget s.lf f = none) :
    (({ s with lf := s.lf ++ [(f, v)] } : LInScope).lpairs).length = s.lpairs.length + 1 := by
  unfold LInScope.lpairs
  refine filterMap_length_step _ _ f (by simp [hn]) (by simp [lget_append_self s.lf f v hn]) ?_ _
    LInField.order_nodup hf
  intro g hg
  simp only []
  rw [lget_append_ne _ _ _ _ (fun e => hg e.symm)]

theorem LInScope.pairs_length_step (ko : KeyOps) (s s' : LInScope) (k v : Bytes) (hk : k ≠ [])
    (ver : Option Nat) (hv : ver = some 2 ∨ txFieldKey k = false)
    (h : LInScope.addPair ko s k v = some s') :
    (s'.pairs ver).length = (s.pairs ver).length + 1 := by
  unfold LInScope.addPair at h
  split at h
  · split at h
    · exact absurd rfl hk
    · rename_i k0 krest
      split at h
      · repeat' (split at h)
        all_goals (try (simp at h; done))
        all_goals (simp at h; subst h)
        all_goals (simp_all [LInScope.pairs, LInScope.lpairs, optKV] <;> omega)
      · split at h
        · repeat' (split at h)
          all_goals (try (simp at h; done))
          all_goals (simp at h; subst h)
          all_goals (simp_all [LInScope.pairs, LInScope.lpairs, optKV] <;> omega)
        · split at h
          · simp at h
          · rename_i b hb
            simp at h; subst h
            have := InScope.pairs_length_step ko _ s.base b _ v hk ver hv hb
            simp only [LInScope.pairs, LInScope.lpairs, List.length_append, this]; omega
  · split at h
    · rename_i f hf
      obtain ⟨hford, _⟩ := LInField.ofKey_spec k f hf
      split at h
      · simp at h
      · rename_i hnone
        split at h
        · simp at h
        · simp at h; subst h
          have hn : lget s.lf f = none := by simpa using hnone
          have := LInScope.lpairs_length_step s f v hford hn
          simp only [LInScope.pairs, List.length_append, this]; omega
    · split at h
      · simp at h
      · simp at h; subst h
        simp only [LInScope.pairs, LInScope.lpairs, List.length_append, InScope.size_eq]
        simp; omega

theorem LInScope.addPairs_length (ko : KeyOps) (ver : Option Nat) :
    ∀ (kvs : List KV) (s s' : LInScope), (ver = some 2 ∨ InSeeded s.base) → (∀ kv ∈ kvs, kv.1 ≠ []) →
      LInScope.addPairs ko s kvs = some s' → (s'.pairs ver).length = (s.pairs ver).length + kvs.length := by
  intro kvs
  induction kvs with
  | nil => intro s s' _ _ h; simp [LInScope.addPairs] at h; subst h; simp
  | cons kv kvs ih =>
    intro s s' hv hne h
    obtain ⟨k, v⟩ := kv
    simp only [LInScope.addPairs] at h
    split at h
    · simp at h
    · rename_i s1 h1
      have hk : k ≠ [] := hne (k, v) (by simp)
      have hv1 : ver = some 2 ∨ txFieldKey k = false := by
        rcases hv with hv | hv
        · exact Or.inl hv
        · exact Or.inr (LInScope.addPair_seeded ko s s1 k v hv h1).1
      have hv' : ver = some 2 ∨ InSeeded s1.base := by
        rcases hv with hv | hv
        · exact Or.inl hv
        · exact Or.inr (LInScope.addPair_seeded ko s s1 k v hv h1).2
      have e1 := LInScope.pairs_length_step ko s s1 k v hk ver hv1 h1
      have e2 := ih s1 s' hv' (fun x hx => hne x (by simp [hx])) h
      simp only [List.length_cons]; omega

theorem LOutScope.lpairs_length_step (s : LOutScope) (ver : Option Nat) (f : LOutField) (v : Bytes)
    (hf : f ∈ LOutField.order) (hn : lget s.lf f = none) (ha : ver = some 2 ∨ f ≠ .asset) :
    (({ s with lf := s.lf ++ [(f, v)] } : LOutScope).lpairs ver).length = (s.lpairs ver).length + 1 := by
  unfold LOutScope.lpairs
  have hc : (decide (f = LOutField.asset) && !(ver == some 2)) = false := by
    rcases ha with h | h
    · simp [h]
    · simp [h]
  refine filterMap_length_step _ _ f (by simp [hn]) (by simp [hc, lget_append_self s.lf f v hn]) ?_ _
    LOutField.order_nodup hf
  intro g hg
  simp only []
  rw [lget_append_ne _ _ _ _ (fun e => hg e.symm)]

theorem LOutScope.pairsL_length_step (ko : KeyOps) (s s' : LOutScope) (k v : Bytes) (hk : k ≠ [])
    (ver : Option Nat) (hv : ver = some 2 ∨ (txFieldKeyOut k = false ∧ LOutField.ofKey k ≠ some .asset))
    (h : LOutScope.addPair ko s k v = some s') :
    (s'.pairsL ver).length = (s.pairsL ver).length + 1 := by
  unfold LOutScope.addPair at h
  split at h
  · split at h
    · simp at h
    · split at h
      · simp at h
      · rename_i b hb
        simp at h; subst h
        have hv' : ver = some 2 ∨ txFieldKeyOut k = false := by
          rcases hv with hv | hv
          · exact Or.inl hv
          · exact Or.inr hv.1
        have := OutScope.pairs_length_step ko s.base b k v hk ver hv' hb
        simp only [LOutScope.pairsL, LOutScope.lpairs, List.length_append, this]; omega
  · split at h
    · rename_i f hf
      obtain ⟨hford, _⟩ := LOutField.ofKey_spec k f hf
      split at h
      · simp at h
      · rename_i hnone
        split at h
        · simp at h
        · simp at h; subst h
          have hn : lget s.lf f = none := by simpa using hnone
          have ha : ver = some 2 ∨ f ≠ .asset := by
            rcases hv with hv | hv
            · exact Or.inl hv
            · right; intro e; subst e; exact hv.2 hf
          have := LOutScope.lpairs_length_step s ver f v hford hn ha
          simp only [LOutScope.pairsL, List.length_append, this]; omega
    · split at h
      · simp at h
      · simp at h; subst h
        simp only [LOutScope.pairsL, LOutScope.lpairs, List.length_append, OutScope.size_eq]
        simp; omega

theorem LOutScope.addPairs_length (ko : KeyOps) (ver : Option Nat) :
    ∀ (kvs : List KV) (s s' : LOutScope), (ver = some 2 ∨ LOutSeededG s) → (∀ kv ∈ kvs, kv.1 ≠ []) →
      LOutScope.addPairs ko s kvs = some s' → (s'.pairsL ver).length = (s.pairsL ver).length + kvs.length := by
  intro kvs
  induction kvs with
  | nil => intro s s' _ _ h; simp [LOutScope.addPairs] at h; subst h; simp
  | cons kv kvs ih =>
    intro s s' hv hne h
    obtain ⟨k, v⟩ := kv
    simp only [LOutScope.addPairs] at h
    split at h
    · simp at h
    · rename_i s1 h1
      have hk : k ≠ [] := hne (k, v) (by simp)
      have hv1 : ver = some 2 ∨ (txFieldKeyOut k = false ∧ LOutField.ofKey k ≠ some .asset) := by
        rcases hv with hv | hv
        · exact Or.inl hv
        · exact Or.inr (LOutScope.addPair_seededG ko s s1 k v hv h1).1
      have hv' : ver = some 2 ∨ LOutSeededG s1 := by
        rcases hv with hv | hv
        · exact Or.inl hv
        · exact Or.inr (LOutScope.addPair_seededG ko s s1 k v hv h1).2.1
      have e1 := LOutScope.pairsL_length_step ko s s1 k v hk ver hv1 h1
      have e2 := ih s1 s' hv' (fun x hx => hne x (by simp [hx])) h
      simp only [List.length_cons]; omega

/-! ### what is written is a permutation of what was read -/

theorem nodup_of_keys_nodup (kvs : List KV) (h : (kvs.map Prod.fst).Nodup) : kvs.Nodup :=
  List.Pairwise.of_map Prod.fst (fun a b hab e => hab (by rw [e])) h

/-- input scope read from a seed that writes nothing (`{}` for PSETv2, the transaction fields for version 0): the
    pairs `write_to` emits are a permutation of the pairs read -/
theorem LInScope.pairs_perm (ko : KeyOps) (ver : Option Nat) (kvs : List KV) (s0 s : LInScope)
    (hv : ver = some 2 ∨ InSeeded s0.base) (h0 : s0.pairs ver = []) (hne : ∀ kv ∈ kvs, kv.1 ≠ [])
    (h : LInScope.addPairs ko s0 kvs = some s) : kvs.Perm (s.pairs ver) := by
  have hn := (LInScope.addPairs_nodup ko kvs s0 s hne h).1
  have hl := (LInScope.addPairs_lossless ko ver kvs s0 s hv hne h).1
  have hlen := LInScope.addPairs_length ko ver kvs s0 s hv hne h
  rw [h0] at hlen
  exact nodup_of_covered kvs _ (nodup_of_keys_nodup kvs hn) hl (by simp [hlen])

theorem LInScope.pairs_keys_nodup (ko : KeyOps) (ver : Option Nat) (kvs : List KV) (s0 s : LInScope)
    (hv : ver = some 2 ∨ InSeeded s0.base) (h0 : s0.pairs ver = []) (hne : ∀ kv ∈ kvs, kv.1 ≠ [])
    (h : LInScope.addPairs ko s0 kvs = some s) : ((s.pairs ver).map Prod.fst).Nodup := by
  have hp := (LInScope.pairs_perm ko ver kvs s0 s hv h0 hne h).map Prod.fst
  exact hp.nodup_iff.mp (LInScope.addPairs_nodup ko kvs s0 s hne h).1

/-- output scope: the pairs `write_to` emits are a permutation of the pairs read with every key put into the spelling
    of the PSET's version -/
theorem LOutScope.pairsL_perm (ko : KeyOps) (ver : Option Nat) (kvs : List KV) (s0 s : LOutScope)
    (hv : ver = some 2 ∨ LOutSeededG s0) (h0 : s0.pairsL ver = []) (hne : ∀ kv ∈ kvs, kv.1 ≠ [])
    (h : LOutScope.addPairs ko s0 kvs = some s) :
    (kvs.map (fun kv => (LOutField.canonKey ver kv.1, kv.2))).Perm (s.pairsL ver) := by
  have hn := (LOutScope.addPairs_nodup ko ver kvs s0 s hne h).1
  have hl := (LOutScope.addPairs_losslessG ko ver kvs s0 s hv hne h).1
  have hlen := LOutScope.addPairs_length ko ver kvs s0 s hv hne h
  rw [h0] at hlen
  refine nodup_of_covered _ _ ?_ ?_ (by simp [hlen])
  · apply nodup_of_keys_nodup
    simpa [List.map_map, Function.comp_def] using hn
  · intro x hx
    obtain ⟨kv, hkv, rfl⟩ := List.mem_map.mp hx
    exact hl kv hkv

theorem LOutScope.pairsL_keys_nodup (ko : KeyOps) (ver : Option Nat) (kvs : List KV) (s0 s : LOutScope)
    (hv : ver = some 2 ∨ LOutSeededG s0) (h0 : s0.pairsL ver = []) (hne : ∀ kv ∈ kvs, kv.1 ≠ [])
    (h : LOutScope.addPairs ko s0 kvs = some s) : ((s.pairsL ver).map Prod.fst).Nodup := by
  have hp := (LOutScope.pairsL_perm ko ver kvs s0 s hv h0 hne h).map Prod.fst
  refine hp.nodup_iff.mp ?_
  simpa [List.map_map, Function.comp_def] using (LOutScope.addPairs_nodup ko ver kvs s0 s hne h).1

/-! ### the whole PSET -/

/-- `PSET.parse` is lossless: the byte string is the canonical framing of a global scope `g`, input scopes `ins`
    and output scopes `outs`; scope counts are kept; what `write_to` emits for a scope is a permutation of the pairs
    read for it, identical bytes (outputs: under the spelling of the PSET's version), no key twice; the global pairs are in
    the global scope that is written — for version 2 always, for version 0 every pair except the transaction
    always and the transaction itself outside the D53 region. -/
theorem LPset.parse_lossless (ko : KeyOps) (b : Bytes) (p : LPset) (h : LPset.parse ko b = some p) :
    ∃ (g : List KV) (ins outs : List (List KV)),
      b = psetMagic ++ writeKVs g ++ ins.flatMap writeKVs ++ outs.flatMap writeKVs
      ∧ (∀ kv ∈ g, KVWF kv) ∧ (∀ kvs ∈ ins, ∀ kv ∈ kvs, KVWF kv) ∧ (∀ kvs ∈ outs, ∀ kv ∈ kvs, KVWF kv)
      ∧ ins.length = p.inputs.length ∧ outs.length = p.outputs.length
      ∧ (∀ (j : Nat) (kvs : List KV) (s : LInScope), ins[j]? = some kvs → p.inputs[j]? = some s →
            (∀ kv ∈ kvs, kv ∈ s.pairs p.version) ∧ kvs.Perm (s.pairs p.version)
            ∧ ((s.pairs p.version).map Prod.fst).Nodup)
      ∧ (∀ (j : Nat) (kvs : List KV) (s : LOutScope), outs[j]? = some kvs → p.outputs[j]? = some s →
            s.pairs p.version = some (s.pairsL p.version)
            ∧ (∀ kv ∈ kvs, (LOutField.canonKey p.version kv.1, kv.2) ∈ s.pairsL p.version)
            ∧ (kvs.map (fun kv => (LOutField.canonKey p.version kv.1, kv.2))).Perm (s.pairsL p.version)
            ∧ ((s.pairsL p.version).map Prod.fst).Nodup)
      ∧ (p.version = some 2 → (∀ kv ∈ g, kv.1 ≠ [0x00]) ∧ ∃ gp, p.globalPairs = some gp ∧ ∀ kv ∈ g, kv ∈ gp)
      ∧ (p.version ≠ some 2 → ∃ t, ([0x00], LTx.ser t) ∈ g ∧ WF t
            ∧ p.inputs.length = t.vin.length ∧ p.outputs.length = t.vout.length
            ∧ (∀ gp, p.globalPairs = some gp → ∀ kv ∈ g, kv.1 ≠ [0x00] → kv ∈ gp)
            ∧ (D53Free t ins = true → p.tx = some t ∧ LTx.serOpt t = some (LTx.ser t)
                 ∧ ∃ gp, p.globalPairs = some gp ∧ ∀ kv ∈ g, kv ∈ gp)) := by
  obtain ⟨g, kin, kout, tx, unk, gs, eb, wg, ws, hgf, hpu, hver, q1, q2, q3, q4, l1, l2, l3, l4, fi, fo⟩ :=
    LPset.parse_decomp ko b p h
  obtain ⟨f1, f2, f3, f5, f4⟩ := lglobalFold_spec g none none [] tx p.version unk hgf
  have hnd := lglobalFold_nodup g none none [] tx p.version unk hgf (by simp)
  obtain ⟨u1, u2, u3, u4, u5, u6, u7, u8⟩ := parseUnknowns_spec ko (p.version == some 2) unk _ gs hnd hpu
  have wi : ∀ kvs ∈ kin, ∀ kv ∈ kvs, KVWF kv := fun kvs hk => ws kvs (by simp [hk])
  have wo : ∀ kvs ∈ kout, ∀ kv ∈ kvs, KVWF kv := fun kvs hk => ws kvs (by simp [hk])
  -- the non-transaction part of the global scope, whatever the version
  have hglob : ∀ txp : List KV, ∀ kv ∈ g, kv.1 ≠ [0x00] → kv ∈
      txp ++ p.xpubs.map (fun (x, d) => (0x01 :: x, Deriv.ser d))
      ++ (if (p.version == some 2) = true then
            optKV [0x02] (p.txVersion.map (leN 4)) ++ optKV [0x03] (p.locktime.map (leN 4))
            ++ [([0x04], Compact.enc p.inputs.length), ([0x05], Compact.enc p.outputs.length)]
          else [])
      ++ optKV [0xfb] (p.version.map (leN 4)) ++ p.unknown := by
    intro txp kv hkv hk0
    rcases f4 kv hkv with ⟨e, _⟩ | ⟨e, n, hn, hl⟩ | ⟨hu, _, _⟩
    · exact absurd e hk0
    · obtain ⟨k, v⟩ := kv; simp at e hl; subst e; subst hl
      simp [optKV, hn]
    · obtain ⟨k, v⟩ := kv
      rcases u8 (k, v) hu with ⟨x, d, e1, e2, e3⟩ | ⟨c, e1, n, e2, e3⟩ | ⟨c, e1, n, e2, e3⟩
          | ⟨c, e1, n, e2, e3⟩ | ⟨c, e1, n, e2, e3⟩ | e1
      · simp at e1 e3; subst e1; subst e3
        refine List.mem_append_left _ (List.mem_append_left _ (List.mem_append_left _ (List.mem_append_right _ ?_)))
        rw [q3]; exact List.mem_map.mpr ⟨(x, d), e2, rfl⟩
      · simp at e1 e3; subst e1; subst e3; simp [optKV, q1, e2, c]
      · simp at e1 e3; subst e1; subst e3; simp [optKV, q2, e2, c]
      · simp at e1 e3; subst e1; subst e3
        rw [e2] at l3; simp at l3
        simp [c, l3]
      · simp at e1 e3; subst e1; subst e3
        rw [e2] at l4; simp at l4
        simp [c, l4]
      · simp [q4, e1]
  refine ⟨g, kin, kout, by simp [eb, List.append_assoc], wg, wi, wo, l1, l2, ?_, ?_, ?_, ?_⟩
  · -- inputs
    intro j kvs s hk hs
    have hj : j < p.inputs.length := (List.getElem?_eq_some_iff.mp hs).1
    obtain ⟨kvs', s', a1, a2, a3⟩ := fi j hj
    rw [hk] at a1; simp at a1; subst a1
    rw [hs] at a2; simp at a2; subst a2
    have hne : ∀ kv ∈ kvs, kv.1 ≠ [] := fun kv hkv => (wi kvs (List.mem_of_getElem? hk) kv hkv).1
    have hseed : (p.version = some 2 ∨ InSeeded (lseedIn tx j).base) ∧ (lseedIn tx j).pairs p.version = [] := by
      rcases hver with ⟨hv, htx⟩ | ⟨hv, t, ht⟩
      · subst htx
        exact ⟨Or.inl hv, by simp [lseedIn, LInScope.pairs, LInScope.lpairs, InScope.pairs, optKV, lget]⟩
      · subst ht
        have hcn := (u7 (by simp [hv])).2.2.1
        rw [hcn] at l3; simp [lgstate0] at l3
        have : j < t.vin.length := by omega
        exact ⟨Or.inr (by simp [lseedIn, List.getElem?_eq_getElem this, InSeeded]),
          by simp [lseedIn, List.getElem?_eq_getElem this, LInScope.pairs, LInScope.lpairs, InScope.pairs, optKV, lget, hv]⟩
    exact ⟨(LInScope.addPairs_lossless ko p.version kvs _ s hseed.1 hne a3).1,
      LInScope.pairs_perm ko p.version kvs _ s hseed.1 hseed.2 hne a3,
      LInScope.pairs_keys_nodup ko p.version kvs _ s hseed.1 hseed.2 hne a3⟩
  · -- outputs
    intro j kvs s hk hs
    have hj : j < p.outputs.length := (List.getElem?_eq_some_iff.mp hs).1
    obtain ⟨kvs', s', a1, a2, a3⟩ := fo j hj
    rw [hk] at a1; simp at a1; subst a1
    rw [hs] at a2; simp at a2; subst a2
    have hne : ∀ kv ∈ kvs, kv.1 ≠ [] := fun kv hkv => (wo kvs (List.mem_of_getElem? hk) kv hkv).1
    have hseed : p.version = some 2 ∨ LOutSeededG (lseedOut tx j) := by
      rcases hver with ⟨hv, _⟩ | ⟨hv, t, ht⟩
      · exact Or.inl hv
      · right
        subst ht
        have hcn := (u7 (by simp [hv])).2.2.2
        rw [hcn] at l4; simp [lgstate0] at l4
        have : j < t.vout.length := by omega
        cases hval : t.vout[j].value <;>
          simp [lseedOut, List.getElem?_eq_getElem this, hval, LOutSeededG, lget]
    have hseed0 : (lseedOut tx j).pairsL p.version = [] := by
      rcases hver with ⟨hv, htx⟩ | ⟨hv, t, ht⟩
      · subst htx
        simp [lseedOut, LOutScope.pairsL, LOutScope.lpairs, OutScope.pairs, optKV, lget]
      · subst ht
        have hcn := (u7 (by simp [hv])).2.2.2
        rw [hcn] at l4; simp [lgstate0] at l4
        have : j < t.vout.length := by omega
        have hb2 : (p.version == some 2) = false := by simp [hv]
        cases hval : t.vout[j].value <;>
          simp [lseedOut, List.getElem?_eq_getElem this, hval, LOutScope.pairsL, LOutScope.lpairs, OutScope.pairs,
            optKV, lget, hv, hb2, LOutField.order]
    obtain ⟨m1, _, m3, _⟩ := LOutScope.addPairs_losslessG ko p.version kvs _ s hseed hne a3
    refine ⟨?_, m1, LOutScope.pairsL_perm ko p.version kvs _ s hseed hseed0 hne a3,
      LOutScope.pairsL_keys_nodup ko p.version kvs _ s hseed hseed0 hne a3⟩
    rw [LOutScope.pairs_eq]
    rcases hver with ⟨hv, htx⟩ | ⟨hv, _⟩
    · subst htx
      have : s.valueConf = none := by rw [m3]; rfl
      simp [this]
    · simp [hv]
  · -- version 2
    intro hv2
    have htx : tx = none := by
      rcases hver with ⟨_, htx⟩ | ⟨hv, _⟩
      · exact htx
      · exact absurd hv2 hv
    subst htx
    have hno0 : ∀ kv ∈ g, kv.1 ≠ [0x00] := by
      intro kv hkv e
      rcases f4 kv hkv with ⟨_, t, ht, _⟩ | ⟨e', _⟩ | ⟨_, e', _⟩
      · simp at ht
      · rw [e] at e'; simp at e'
      · exact e' e
    refine ⟨hno0, ?_⟩
    have hb : (p.version == some 2) = true := by simp [hv2]
    refine ⟨_, by simp only [LPset.globalPairs, hb]; rfl, ?_⟩
    intro kv hkv
    have := hglob [] kv hkv (hno0 kv hkv)
    simpa [hb] using this
  · -- version 0
    intro hv0
    obtain ⟨t, ht⟩ : ∃ t, tx = some t := by
      rcases hver with ⟨hv, _⟩ | ⟨_, ht⟩
      · exact absurd hv hv0
      · exact ht
    subst ht
    have hb : (p.version == some 2) = false := by simp [hv0]
    obtain ⟨hu, hwf⟩ : LUnsigned t ∧ WF t := by
      rcases f5 t rfl with hh | hh
      · simp at hh
      · exact hh
    obtain ⟨c1, c2, c3, c4⟩ := u7 hb
    rw [c3] at l3; simp [lgstate0] at l3
    rw [c4] at l4; simp [lgstate0] at l4
    -- the transaction pair
    have hmem : ([0x00], LTx.ser t) ∈ g := by
      have : ∃ kv ∈ g, kv.1 = [0x00] := by
        rcases lglobalFold_tx_mem g none none [] _ _ _ hgf with hh | hh
        · simp at hh
        · exact hh
      obtain ⟨kv, hkv, e⟩ := this
      rcases f4 kv hkv with ⟨_, t', ht', hs, _⟩ | ⟨e', _⟩ | ⟨_, e', _⟩
      · simp at ht'; subst ht'
        obtain ⟨k, v⟩ := kv; simp at e hs; subst e; subst hs; exact hkv
      · rw [e] at e'; simp at e'
      · exact absurd e e'
    have hnontx : ∀ gp, p.globalPairs = some gp → ∀ kv ∈ g, kv.1 ≠ [0x00] → kv ∈ gp := by
      intro gp hgp kv hkv hk0
      simp only [LPset.globalPairs, hb] at hgp
      cases htxp : (p.tx.bind fun t => (LTx.serOpt t).map fun b => [(([0x00] : Bytes), b)]) with
      | none => simp [htxp] at hgp
      | some txp =>
        simp [htxp] at hgp
        subst hgp
        have := hglob txp kv hkv hk0
        simpa [hb, List.append_assoc] using this
    refine ⟨t, hmem, hwf, l3, l4, hnontx, ?_⟩
    · intro hfree
      have htx : p.tx = some t := by
        refine LPset.tx_of_v0 ko p t kin kout hwf hu wi wo ?_ ?_ l3 l4 fi fo hfree
        · rw [q1, c1]; rfl
        · rw [q2, c2]; rfl
      have hfits : LTx.serOpt t = some (LTx.ser t) := by simp [LTx.serOpt, LTx.fits_of_wf t hwf]
      have hsome : ∃ gp, p.globalPairs = some gp ∧ ([0x00], LTx.ser t) ∈ gp := by
        simp [LPset.globalPairs, hb, htx, hfits]
      obtain ⟨gp, hgp, hmem0⟩ := hsome
      refine ⟨htx, hfits, gp, hgp, ?_⟩
      intro kv hkv
      by_cases hk0 : kv.1 = [0x00]
      · rcases f4 kv hkv with ⟨_, t', ht', hs, _⟩ | ⟨e', _⟩ | ⟨_, e', _⟩
        · simp at ht'; subst ht'
          obtain ⟨k, v⟩ := kv; simp at hk0 hs; subst hk0; subst hs
          exact hmem0
        · rw [hk0] at e'; simp at e'
        · exact absurd hk0 e'
      · exact hnontx gp hgp kv hkv hk0


end Embit
