import EmbitModel.Proofs.MiniscriptLen
import EmbitModel.Model.MiniscriptX
/-
  C13 deepened — helper definitions and lemmas.

  (a) `sortedmulti*`: embit sorts the PUSHES (`sorted(k.compile() …)`, length byte first), the specification sorts the
      KEYS. `Ms.argsOk` demanded keys of one length; here the exact condition is used: the two orders agree on the
      keys (`pushOrderOk`), which holds for every mixture of valid SEC encodings (33 bytes starting 02/03, 65 bytes
      starting 04) and for x-only keys. `compile_eqW` is `compile_eq` under that weaker condition.
  (b) `Ms.parserArgs ctx`: the shape of the arguments the descriptor parser can produce in a context (SEC keys in
      P2WSH, 32-byte x-only keys in tapscript, 20-byte key hashes, 32/20-byte digests). From it and `verify`, both
      `argsOkW` and `lensOk` follow, so the compile / length theorems need no side condition on accepted expressions.
  (c) `mentions f e`: fragment `f` of the multi family occurs anywhere in `e`.
-/
namespace Embit.Miniscript
open Embit.Model.Miniscript Embit.Spec.Miniscript

/-! ### (a) sorting pushes = sorting keys, exact condition -/

theorem insertSorted_map (f : Bytes → Bytes) (x : Bytes) (l : List Bytes)
    (h : ∀ y ∈ l, bytesLe (f x) (f y) = bytesLe x y) :
    insertSorted (f x) (l.map f) = (insertSorted x l).map f := by
  induction l with
  | nil => rfl
  | cons y ys ih =>
    simp only [List.map_cons, insertSorted, h y (by simp)]
    split
    · rfl
    · simp [ih (fun z hz => h z (by simp [hz]))]

theorem sortBytes_map (f : Bytes → Bytes) (l : List Bytes)
    (h : ∀ a ∈ l, ∀ b ∈ l, bytesLe (f a) (f b) = bytesLe a b) :
    sortBytes (l.map f) = (sortBytes l).map f := by
  induction l with
  | nil => rfl
  | cons x xs ih =>
    simp only [List.map_cons, sortBytes]
    rw [ih (fun a ha b hb => h a (by simp [ha]) b (by simp [hb]))]
    exact insertSorted_map f x (sortBytes xs)
      (fun y hy => h x (by simp) y (by simp [mem_sortBytes.mp hy]))

theorem sort_pushesW (keys : List Bytes) (h : pushOrderOk keys = true) :
    sortBytes (keys.map pushCompact) = (sortBytes keys).map pushCompact := by
  apply sortBytes_map
  intro a ha b hb
  simp only [pushOrderOk, List.all_eq_true, beq_iff_eq] at h
  exact h a ha b hb

def CompileOkW (ctx : Ctx) (e : Ms) : Prop :=
  e.argsOkW = true → verify ctx e = true → compile e = serScript (script (desugar e))

theorem compileL_eqW (ctx : Ctx) (xs : List Ms) (ih : ∀ x ∈ xs, CompileOkW ctx x)
    (ha : Ms.argsOkWL xs = true) (hv : verifyL ctx xs = true) :
    compileL xs = (scriptL (desugarL xs)).map serScript := by
  induction xs with
  | nil => rfl
  | cons x xs ihx =>
    simp only [Ms.argsOkWL, verifyL, Bool.and_eq_true] at ha hv
    simp only [compileL, desugarL, scriptL, List.map_cons]
    rw [ih x (by simp) ha.1 hv.1, ihx (fun y hy => ih y (by simp [hy])) ha.2 hv.2]

/-- `compile_eq` under the exact condition on `sortedmulti*` keys (same proof, `sort_pushesW` for `sort_pushes`) -/
theorem compile_eqW (ctx : Ctx) : ∀ e, CompileOkW ctx e := by
  intro e
  induction e using Ms.ind with
  | key f a =>
    intro ha _
    simp only [Ms.argsOkW, decide_eq_true_eq] at ha
    cases f <;>
      simp [compile, keyCompile, desugar, script, Elem.ser, Op.code, pushCompact_eq_pushData a ha]
  | time f n =>
    intro _ hv
    simp only [verify, Bool.not_eq_true', Bool.or_eq_false_iff, decide_eq_false_iff_not] at hv
    have hn : n < 2 ^ 31 := by
      have : (2:Nat) ^ 31 = 0x80000000 := by decide
      omega
    cases f <;> simp [compile, desugar, script, Elem.ser, Op.code, timeOp, num_small n hn]
  | hash f h =>
    intro ha _
    simp only [Ms.argsOkW, decide_eq_true_eq] at ha
    have h32 : numCompile 32 = pushNum 32 := num_small 32 (by decide)
    cases f <;>
      simp [compile, desugar, script, Elem.ser, Op.code, Model.Miniscript.hashOp, Spec.Miniscript.hashOp,
        pushCompact_eq_pushData h ha, h32]
  | andor x y z ihx ihy ihz =>
    intro ha hv
    simp only [Ms.argsOkW, verify, Bool.and_eq_true] at ha hv
    simp [compile, desugar, script, Elem.ser, Op.code, ihx ha.1.1 hv.1.1.1, ihy ha.1.2 hv.1.1.2, ihz ha.2 hv.1.2]
  | bin f x y ihx ihy =>
    intro ha hv
    simp only [Ms.argsOkW, verify, Bool.and_eq_true] at ha hv
    have h0 : numCompile 0 = pushNum 0 := num_small 0 (by decide)
    cases f <;>
      simp [compile, binCompile, desugar, script, Elem.ser, Op.code, ihx ha.1 hv.1.1, ihy ha.2 hv.1.2, h0]
  | thresh k xs ih =>
    intro ha hv
    simp only [Ms.argsOkW, verify, Bool.and_eq_true, decide_eq_true_eq] at ha hv
    have hk := numCompile_eq_pushNum k ha.1
    have hl := compileL_eqW ctx xs ih ha.2 hv.1
    simp only [compile, desugar, script, hl]
    cases hs : scriptL (desugarL xs) with
    | nil =>
      have : tpL ctx xs = [] := by
        have : xs = [] := by
          cases xs with
          | nil => rfl
          | cons a as => simp [desugarL, scriptL] at hs
        subst this; rfl
      simp [threshVerify, this] at hv
    | cons s1 rest =>
      simp only [List.map_cons, threshCompile]
      rw [flatMap_append_byte rest 0x93 .ADD rfl, addChain_eq]
      simp [Elem.ser, Op.code, hk]
  | multi f k keys =>
    intro ha hv
    simp only [Ms.argsOkW, Bool.and_eq_true, List.all_eq_true, decide_eq_true_eq] at ha
    have hlen := ha.1
    have hkn : k < 2 ^ 256 ∧ keys.length < 2 ^ 256 ∧ keys ≠ [] := by
      have : (999 : Nat) < 2 ^ 256 := by decide
      cases f <;> simp [verify, multiVerify, Gen.Ms.multiMaxKeys] at hv <;>
        (refine ⟨by omega, by omega, ?_⟩; intro c; subst c; simp at hv)
    have hk := numCompile_eq_pushNum k hkn.1
    have hn := numCompile_eq_pushNum keys.length hkn.2.1
    cases f
    · simp [compile, multiCompile, desugar, script, Elem.ser, Op.code, hk, hn, pushes_ser keys hlen]
    · have hs := sort_pushesW keys ha.2
      have hlen' : ∀ a ∈ sortBytes keys, a.length < 76 := fun a h => hlen a (mem_sortBytes.mp h)
      simp [compile, multiCompile, desugar, script, Elem.ser, Op.code, hk, hn, hs, pushes_ser _ hlen',
        sortBytes_length]
    · cases hks : keys with
      | nil => exact absurd hks hkn.2.2
      | cons k1 rest =>
        subst hks
        have h1 := hlen k1 (by simp)
        have hr : ∀ a ∈ rest, a.length < 76 := fun a h => hlen a (by simp [h])
        simp [compile, multiCompile, desugar, script, Elem.ser, Op.code, hk, pushCompact_eq_pushData k1 h1,
          sigAddChain_ser rest hr]
    · have hs := sort_pushesW keys ha.2
      have hlen' : ∀ a ∈ sortBytes keys, a.length < 76 := fun a h => hlen a (mem_sortBytes.mp h)
      simp only [compile, multiCompile, desugar, script, hs]
      cases hks : sortBytes keys with
      | nil =>
        have := sortBytes_length keys
        rw [hks] at this
        exact absurd (List.length_eq_zero_iff.mp this.symm) hkn.2.2
      | cons k1 rest =>
        rw [hks] at hlen'
        have h1 := hlen' k1 (by simp)
        have hr : ∀ a ∈ rest, a.length < 76 := fun a h => hlen' a (by simp [h])
        simp [Elem.ser, Op.code, hk, pushCompact_eq_pushData k1 h1, sigAddChain_ser rest hr]
  | wrap w x ih =>
    intro ha hv
    simp only [Ms.argsOkW, verify, Bool.and_eq_true] at ha hv
    have hx := ih ha hv.1
    have h0 : numCompile 0 = pushNum 0 := num_small 0 (by decide)
    have h1 : numCompile 1 = pushNum 1 := num_small 1 (by decide)
    cases w
    case v =>
      have hB : type x = .B := by simpa [wrapVerify] using hv.2
      simp only [compile, wrapCompile, desugar, script, hx]
      exact vCompile_ser _ (vOk_of_B x hB)
    all_goals simp [compile, wrapCompile, desugar, script, Elem.ser, Op.code, hx, h0, h1]

/-- keys of one length satisfy the exact condition: `argsOk` implies `argsOkW` on key lists -/
theorem pushOrderOk_of_sameLen (keys : List Bytes) (hs : sameLen keys = true) (hl : ∀ a ∈ keys, a.length < 253) :
    pushOrderOk keys = true := by
  obtain ⟨c, hc⟩ := map_pushCompact_sameLen keys hs hl
  simp only [pushOrderOk, List.all_eq_true, beq_iff_eq]
  intro a ha b hb
  have h2 := hc [a, b] (by intro x hx; simp at hx; rcases hx with rfl | rfl <;> assumption)
  simp only [List.map_cons, List.map_nil, List.cons.injEq, and_true] at h2
  rw [h2.1, h2.2, bytesLe_cons_same]

/-! ### (b) the arguments a descriptor parser produces -/

theorem keyShape_lt (ctx : Ctx) (a : Bytes) (h : keyShape ctx a = true) : a.length < 76 := by
  cases ctx <;> simp [keyShape, secKey] at h <;> omega

theorem bytesLe_secKey (a b : Bytes) (ha : secKey a = true) (hb : secKey b = true) :
    bytesLe (pushCompact a) (pushCompact b) = bytesLe a b := by
  have la : a.length < 253 := by simp [secKey] at ha; omega
  have lb : b.length < 253 := by simp [secKey] at hb; omega
  rw [pushCompact_eq_cons a la, pushCompact_eq_cons b lb]
  simp only [secKey, Bool.or_eq_true, Bool.and_eq_true, beq_iff_eq] at ha hb
  rcases ha with ⟨ha1, ha2⟩ | ⟨ha1, ha2⟩ <;> rcases hb with ⟨hb1, hb2⟩ | ⟨hb1, hb2⟩
  · rw [ha1, hb1, bytesLe_cons_same]
  · -- compressed before uncompressed in both orders
    cases a with
    | nil => simp at ha1
    | cons x xs =>
      cases b with
      | nil => simp at hb1
      | cons y ys =>
        simp only [List.head?_cons, Option.some.injEq] at ha2 hb2
        subst hb2
        rw [ha1, hb1]
        rcases ha2 with rfl | rfl <;> simp [bytesLe] <;> decide
  · cases a with
    | nil => simp at ha1
    | cons x xs =>
      cases b with
      | nil => simp at hb1
      | cons y ys =>
        simp only [List.head?_cons, Option.some.injEq] at ha2 hb2
        subst ha2
        rw [ha1, hb1]
        rcases hb2 with rfl | rfl <;> simp [bytesLe] <;> decide
  · rw [ha1, hb1, bytesLe_cons_same]

theorem pushOrderOk_of_keyShape (ctx : Ctx) (keys : List Bytes) (h : keys.all (keyShape ctx) = true) :
    pushOrderOk keys = true := by
  simp only [List.all_eq_true] at h
  simp only [pushOrderOk, List.all_eq_true, beq_iff_eq]
  intro a ha b hb
  cases ctx with
  | wsh => exact bytesLe_secKey a b (h a ha) (h b hb)
  | tap =>
    have la : a.length = 32 := by simpa [keyShape] using h a ha
    have lb : b.length = 32 := by simpa [keyShape] using h b hb
    rw [pushCompact_eq_cons a (by omega), pushCompact_eq_cons b (by omega), la, lb, bytesLe_cons_same]

def ArgsOfParser (ctx : Ctx) (e : Ms) : Prop := e.parserArgs ctx = true → e.argsOkW = true

theorem argsOkW_of_parserArgs (ctx : Ctx) : ∀ e, ArgsOfParser ctx e := by
  intro e
  induction e using Ms.ind with
  | key f a =>
    intro h
    cases f <;> simp only [Ms.parserArgs, beq_iff_eq] at h <;> simp only [Ms.argsOkW, decide_eq_true_eq]
    · exact keyShape_lt ctx a h
    · omega
    · exact keyShape_lt ctx a h
    · omega
  | time f n => intro _; rfl
  | hash f h =>
    intro hp
    cases f <;> simp only [Ms.parserArgs, beq_iff_eq] at hp <;> simp only [Ms.argsOkW, decide_eq_true_eq] <;> omega
  | andor x y z ihx ihy ihz =>
    intro h
    simp only [Ms.parserArgs, Bool.and_eq_true] at h
    simp [Ms.argsOkW, ihx h.1.1, ihy h.1.2, ihz h.2]
  | bin f x y ihx ihy =>
    intro h
    simp only [Ms.parserArgs, Bool.and_eq_true] at h
    simp [Ms.argsOkW, ihx h.1, ihy h.2]
  | thresh k xs ih =>
    intro h
    simp only [Ms.parserArgs, Bool.and_eq_true] at h
    simp only [Ms.argsOkW, Bool.and_eq_true]
    refine ⟨h.1, ?_⟩
    have hl := h.2
    clear h
    induction xs with
    | nil => rfl
    | cons x xs ihx =>
      simp only [Ms.parserArgsL, Bool.and_eq_true] at hl
      simp only [Ms.argsOkWL, Bool.and_eq_true]
      exact ⟨ih x (by simp) hl.1, ihx (fun y hy => ih y (by simp [hy])) hl.2⟩
  | multi f k keys =>
    intro h
    simp only [Ms.parserArgs] at h
    have hlt : keys.all (fun a => decide (a.length < 76)) = true := by
      simp only [List.all_eq_true, decide_eq_true_eq] at h ⊢
      exact fun a ha => keyShape_lt ctx a (h a ha)
    have ho := pushOrderOk_of_keyShape ctx keys h
    cases f <;> simp [Ms.argsOkW, hlt, ho]
  | wrap w x ih =>
    intro h
    simp only [Ms.parserArgs] at h
    simpa [Ms.argsOkW] using ih h

def LensOfParser (ctx : Ctx) (e : Ms) : Prop := e.parserArgs ctx = true → verify ctx e = true → e.lensOk = true

theorem lensOk_of_parserArgs (ctx : Ctx) : ∀ e, LensOfParser ctx e := by
  intro e
  induction e using Ms.ind with
  | key f a =>
    intro h _
    cases f <;> simp only [Ms.parserArgs, beq_iff_eq] at h <;> simp only [Ms.lensOk, decide_eq_true_eq, beq_iff_eq]
    · have := keyShape_lt ctx a h; omega
    · exact h
    · have := keyShape_lt ctx a h; omega
    · exact h
  | time f n => intro _ _; rfl
  | hash f h =>
    intro hp _
    cases f <;> simpa [Ms.parserArgs, Ms.lensOk] using hp
  | andor x y z ihx ihy ihz =>
    intro h hv
    simp only [Ms.parserArgs, verify, Bool.and_eq_true] at h hv
    simp [Ms.lensOk, ihx h.1.1 hv.1.1.1, ihy h.1.2 hv.1.1.2, ihz h.2 hv.1.2]
  | bin f x y ihx ihy =>
    intro h hv
    simp only [Ms.parserArgs, verify, Bool.and_eq_true] at h hv
    simp [Ms.lensOk, ihx h.1 hv.1.1, ihy h.2 hv.1.2]
  | thresh k xs ih =>
    intro h hv
    simp only [Ms.parserArgs, verify, Bool.and_eq_true] at h hv
    have hne : xs.isEmpty = false := by
      cases xs with
      | nil => simp [threshVerify, tpL] at hv
      | cons a as => rfl
    simp only [Ms.lensOk, hne, Bool.not_false, Bool.true_and]
    have hl := h.2
    have hvl := hv.1
    clear h hv hne
    induction xs with
    | nil => rfl
    | cons x xs ihx =>
      simp only [Ms.parserArgsL, verifyL, Bool.and_eq_true] at hl hvl
      simp only [Ms.lensOkL, Bool.and_eq_true]
      exact ⟨ih x (by simp) hl.1 hvl.1, ihx (fun y hy => ih y (by simp [hy])) hl.2 hvl.2⟩
  | multi f k keys =>
    intro h hv
    simp only [Ms.parserArgs] at h
    have hlt : keys.all (fun a => decide (a.length < 253)) = true := by
      simp only [List.all_eq_true, decide_eq_true_eq] at h ⊢
      exact fun a ha => by have := keyShape_lt ctx a (h a ha); omega
    have hne : keys.isEmpty = false := by
      cases keys with
      | nil => cases f <;> simp [verify, multiVerify] at hv
      | cons a as => rfl
    cases f <;> simp [Ms.lensOk, hlt, hne]
  | wrap w x ih =>
    intro h hv
    simp only [Ms.parserArgs, verify, Bool.and_eq_true] at h hv
    simpa [Ms.lensOk] using ih h hv.1

/-! ### (c) occurrences of the multi family -/

def FitsCtx (ctx : Ctx) (e : Ms) : Prop :=
  constructible ctx e = true → ∀ f, mentions f e = true → Gen.Ms.multiTaproot f = (ctx == .tap)

theorem constructible_mentions (ctx : Ctx) : ∀ e, FitsCtx ctx e := by
  intro e
  induction e using Ms.ind with
  | key f a => intro _ g h; simp [mentions] at h
  | time f n => intro _ g h; simp [mentions] at h
  | hash f a => intro _ g h; simp [mentions] at h
  | andor x y z ihx ihy ihz =>
    intro hc g h
    simp only [constructible, Bool.and_eq_true] at hc
    simp only [mentions, Bool.or_eq_true] at h
    rcases h with (h | h) | h
    · exact ihx hc.1.1 g h
    · exact ihy hc.1.2 g h
    · exact ihz hc.2 g h
  | bin f x y ihx ihy =>
    intro hc g h
    simp only [constructible, Bool.and_eq_true] at hc
    simp only [mentions, Bool.or_eq_true] at h
    rcases h with h | h
    · exact ihx hc.1 g h
    · exact ihy hc.2 g h
  | thresh k xs ih =>
    intro hc g h
    simp only [constructible] at hc
    simp only [mentions] at h
    induction xs with
    | nil => simp [mentionsL] at h
    | cons x xs ihx =>
      simp only [constructibleL, Bool.and_eq_true] at hc
      simp only [mentionsL, Bool.or_eq_true] at h
      rcases h with h | h
      · exact ih x (by simp) hc.1 g h
      · exact ihx (fun y hy => ih y (by simp [hy])) hc.2 h
  | multi f k keys =>
    intro hc g h
    simp only [constructible, beq_iff_eq] at hc
    simp only [mentions, beq_iff_eq] at h
    subst h
    exact hc
  | wrap w x ih =>
    intro hc g h
    simp only [constructible] at hc
    simp only [mentions] at h
    exact ih hc g h

end Embit.Miniscript
