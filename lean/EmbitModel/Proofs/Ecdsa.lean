import EmbitModel.Proofs.Der
import EmbitModel.Proofs.EcLaws
import EmbitModel.Model.PySecp
/-
  ECDSA correctness of the model signer / verifier relative to `EcLaws`; range / low-S of the signer's output.
-/
namespace Embit
open Embit.Model Embit.Model.Der Embit.Model.PySecp

variable {E : EcOps}

/-- `Der.parse` on the model's own encoding -/
theorem parse_serRS (n : Nat) (lowS : Bool) (r s : Nat) (hn : n ≤ 2 ^ 256) (hok : rangeOk n lowS r s = true) :
    Der.parse n lowS (serRS r s) = some (r, s) := by
  have hr : r < n ∧ s < n := by
    unfold rangeOk at hok; simp at hok; omega
  unfold Der.parse
  rw [parseRS_serRS r s (by omega) (by omega)]
  simp [hok]

theorem parse_strict (n : Nat) (lowS : Bool) (b : Bytes) (r s : Nat) (h : Der.parse n lowS b = some (r, s)) :
    b = serRS r s ∧ rangeOk n lowS r s = true := by
  unfold Der.parse at h
  split at h
  · cases h
  · rename_i r' s' hp
    split at h
    · rename_i hok
      cases h
      exact ⟨parseRS_strict b r s hp, hok⟩
    · cases h

theorem rangeOk_iff (n : Nat) (lowS : Bool) (r s : Nat) :
    rangeOk n lowS r s = true ↔ (1 ≤ r ∧ r < n ∧ 1 ≤ s ∧ s < n ∧ (lowS = true → s ≤ n / 2)) := by
  unfold rangeOk
  cases lowS <;> simp <;> omega

/-- the `s` the signer returns is low and in range whenever the raw `s` is non-zero -/
theorem lowS_norm (n s0 : Nat) (h0 : 0 < s0) (hlt : s0 < n) :
    let s := if s0 > n / 2 then n - s0 else s0
    1 ≤ s ∧ s < n ∧ s ≤ n / 2 := by
  intro s
  by_cases h : s0 > n / 2
  · have : s = n - s0 := by simp [s, h]
    omega
  · have : s = s0 := by simp [s, h]
    omega

/-- the verification equation on a signature made with nonce `k` (raw `s` or its negation) -/
theorem verify_point (L : EcLaws E) (d z k r s0 s : Nat) (hk : 0 < k ∧ k < E.n)
    (hs0 : s0 = (E.invN k * (z + d * r)) % E.n) (hs0pos : 0 < s0)
    (hs : s = s0 ∨ s = E.n - s0) :
    let w := E.invN s
    E.add (E.mul (z * w % E.n) E.g) (E.mul (r * w % E.n) (E.mul d E.g)) = E.mul k E.g ∨
    E.add (E.mul (z * w % E.n) E.g) (E.mul (r * w % E.n) (E.mul d E.g)) = E.neg (E.mul k E.g) := by
  intro w
  have hn := L.n_pos
  have hs0lt : s0 < E.n := by rw [hs0]; exact Nat.mod_lt _ hn
  rw [L.lin_comb]
  have hki : ((k : ZMod E.n) * (E.invN k : ZMod E.n)) = 1 := by
    have := L.inv_mul k hk.1 hk.2
    have h2 := cast_eq_of_mod (n := E.n) (k * E.invN k) 1 (by rw [this, Nat.mod_eq_of_lt L.n_gt_one])
    simpa using h2
  have hs0c : (s0 : ZMod E.n) = (E.invN k : ZMod E.n) * ((z : ZMod E.n) + d * r) := by
    rw [hs0]; simp [ZMod.natCast_mod]
  have cast_t : (((z * w % E.n + r * w % E.n * d : Nat)) : ZMod E.n)
      = (z : ZMod E.n) * w + (r : ZMod E.n) * w * d := by
    simp [ZMod.natCast_mod]
  rcases hs with hs | hs
  · left
    have hw : ((w : ZMod E.n) * (s0 : ZMod E.n)) = 1 := by
      have := L.inv_mul s (by omega) (by omega)
      have h2 := cast_eq_of_mod (n := E.n) (s * E.invN s) 1 (by rw [this, Nat.mod_eq_of_lt L.n_gt_one])
      rw [hs] at h2
      have : ((s0 * E.invN s0 : Nat) : ZMod E.n) = (w : ZMod E.n) * s0 := by
        simp only [w, hs]; push_cast; ring
      rw [← this]; simpa using h2
    rw [hs0c] at hw
    have := ecdsa_alg (k : ZMod E.n) _ z d r w hki hw
    rw [← cast_t] at this
    have := mod_eq_of_cast _ _ this
    rw [this, L.mul_mod]
  · right
    have hw : ((w : ZMod E.n) * (-(s0 : ZMod E.n))) = 1 := by
      have := L.inv_mul s (by omega) (by omega)
      have h2 := cast_eq_of_mod (n := E.n) (s * E.invN s) 1 (by rw [this, Nat.mod_eq_of_lt L.n_gt_one])
      have e : ((s * E.invN s : Nat) : ZMod E.n) = (w : ZMod E.n) * (-(s0 : ZMod E.n)) := by
        simp only [w]; push_cast; rw [hs, cast_sub_self s0 (by omega)]; ring
      rw [← e]; simpa using h2
    rw [hs0c] at hw
    have := ecdsa_alg_neg (k : ZMod E.n) _ z d r w hki hw
    rw [← cast_t] at this
    have hc : (-(k : ZMod E.n)) = ((E.n - k : Nat) : ZMod E.n) := (cast_sub_self k (by omega)).symm
    rw [hc] at this
    have := mod_eq_of_cast _ _ this
    rw [this, L.mul_mod, L.neg_mul k (by omega)]

/-- **ECDSA correctness** at the level of `key.py`: what `sign_ecdsa` produces from a nonce `k` (with low-S
    normalisation) passes `verify_ecdsa` (with the low-S rule) under the matching public key. -/
theorem verify_signRS (L : EcLaws E) (hn : E.n ≤ 2 ^ 256) (d z k r s : Nat) (hk : 0 < k ∧ k < E.n)
    (h : signRS E d z k = some (r, s)) (hr : r ≠ 0) (hs : s ≠ 0) (msg : Bytes) (hz : ofBe msg = z) :
    verifyEcdsaKey E (E.mul d E.g) (serRS r s) msg true = true := by
  unfold signRS at h
  split at h
  · cases h
  · rename_i rx ry hR
    simp only [Option.some.injEq, Prod.mk.injEq] at h
    obtain ⟨hr', hs'⟩ := h
    have hnpos := L.n_pos
    set s0 := (E.invN k * (z + d * (rx % E.n))) % E.n with hs0
    have hs0lt : s0 < E.n := Nat.mod_lt _ hnpos
    have hs0pos : 0 < s0 := by
      rcases Nat.eq_zero_or_pos s0 with h0 | h0
      · exfalso; apply hs; rw [← hs', h0]; simp
      · exact h0
    have hnorm := lowS_norm E.n s0 hs0pos hs0lt
    simp only [] at hnorm
    rw [hs'] at hnorm
    have hrlt : r < E.n := by rw [← hr']; exact Nat.mod_lt _ hnpos
    have hok : rangeOk E.n true r s = true := by
      rw [rangeOk_iff]; refine ⟨by omega, hrlt, hnorm.1, hnorm.2.1, fun _ => hnorm.2.2⟩
    unfold verifyEcdsaKey
    rw [parse_serRS E.n true r s hn hok]
    simp only [hz]
    have hsor : s = s0 ∨ s = E.n - s0 := by
      rw [← hs']; split <;> simp
    have hpt := verify_point L d z k r s0 s hk (by rw [hs0, hr']) hs0pos hsor
    simp only [] at hpt
    rcases hpt with hpt | hpt
    · rw [hpt, hR]; simp [hr']
    · rw [hpt, L.xy_neg _ _ _ hR]; simp [hr']

end Embit
