import EmbitModel.Proofs.MiniscriptScript
/-
  C13 helper lemmas, part 3: `len(miniscript)` (the per-class `__len__` formulas) = length of `compile()`.
-/
namespace Embit.Miniscript
open Embit.Model.Miniscript

theorem pushCompact_length (a : Bytes) (h : a.length < 253) : (pushCompact a).length = a.length + 1 := by
  rw [pushCompact_eq_cons a h]; simp

/-- Σ (|c| + 1) -/
def sumLen1 : List Bytes → Nat
  | [] => 0
  | c :: cs => (c.length + 1) + sumLen1 cs

def sumLen : List Bytes → Nat
  | [] => 0
  | c :: cs => c.length + sumLen cs

theorem flatten_length (l : List Bytes) : l.flatten.length = sumLen l := by
  induction l with
  | nil => rfl
  | cons c cs ih => simp [sumLen, ih]

theorem sumLen1_eq (l : List Bytes) : sumLen1 l = sumLen l + l.length := by
  induction l with
  | nil => rfl
  | cons c cs ih => simp only [sumLen1, sumLen, List.length_cons, ih]; omega

theorem sumLen_insertSorted (x : Bytes) (l : List Bytes) : sumLen (insertSorted x l) = x.length + sumLen l := by
  induction l with
  | nil => rfl
  | cons y ys ih =>
    unfold insertSorted
    split
    · simp [sumLen]
    · simp only [sumLen, ih]; omega

theorem sumLen_sortBytes (l : List Bytes) : sumLen (sortBytes l) = sumLen l := by
  induction l with
  | nil => rfl
  | cons x xs ih => simp [sortBytes, sumLen_insertSorted, sumLen, ih]

theorem keysLen_eq (keys : List Bytes) : keysLen keys = sumLen (keys.map pushCompact) := by
  induction keys with
  | nil => rfl
  | cons k ks ih => simp [keysLen, sumLen, ih]

theorem flatMap_snoc_length (l : List Bytes) (b : UInt8) :
    (l.flatMap (fun c => c ++ [b])).length = sumLen1 l := by
  induction l with
  | nil => rfl
  | cons c cs ih => simp only [List.flatMap_cons, List.length_append, List.length_cons, List.length_nil, sumLen1, ih]

theorem numCompile_0_len : (numCompile 0).length = 1 := by decide
theorem numCompile_1_len : (numCompile 1).length = 1 := by decide
set_option maxRecDepth 10000 in
theorem numCompile_32_len : (numCompile 32).length = 2 := by decide

/-- `c1 ++ [x] ++ rest.flatMap (· ++ [y]) ++ tail` has Σ(|c|+1) + |tail| bytes -/
theorem chain_length (c1 : Bytes) (rest : List Bytes) (x y : UInt8) (tail : Bytes) :
    (c1 ++ [x] ++ rest.flatMap (fun c => c ++ [y]) ++ tail).length = sumLen1 (c1 :: rest) + tail.length := by
  simp only [List.length_append, List.length_cons, List.length_nil, flatMap_snoc_length, sumLen1]

/-- the statement proved for every expression -/
def LenOk (e : Ms) : Prop := e.lensOk = true → len e = (compile e).length

theorem lenL_eq (xs : List Ms) (ih : ∀ x ∈ xs, LenOk x) (h : Ms.lensOkL xs = true) :
    lenL xs = sumLen (compileL xs) := by
  induction xs with
  | nil => rfl
  | cons x xs ihx =>
    simp only [Ms.lensOkL, Bool.and_eq_true] at h
    simp only [lenL, compileL, sumLen]
    rw [ih x (by simp) h.1, ihx (fun y hy => ih y (by simp [hy])) h.2]

theorem compileL_length (xs : List Ms) : (compileL xs).length = xs.length := by
  induction xs with
  | nil => rfl
  | cons x xs ih => simp [compileL, ih]

theorem len_eq_compile : ∀ e, LenOk e := by
  intro e
  induction e using Ms.ind with
  | key f a =>
    intro h
    cases f <;> simp only [Ms.lensOk, beq_iff_eq, decide_eq_true_eq] at h <;>
      simp [len, keyArgLen, keyExtra, compile, keyCompile, pushCompact_length a (by omega)] <;> omega
  | time f n => intro _; simp [len, compile]
  | hash f h =>
    intro hl
    cases f <;> simp only [Ms.lensOk, beq_iff_eq] at hl <;>
      simp only [len, hashArgLen, compile, List.length_append, List.length_cons, List.length_nil,
        pushCompact_length h (by omega), hl, numCompile_32_len]
  | andor x y z ihx ihy ihz =>
    intro h
    simp only [Ms.lensOk, Bool.and_eq_true] at h
    simp [len, compile, ihx h.1.1, ihy h.1.2, ihz h.2]; omega
  | bin f x y ihx ihy =>
    intro h
    simp only [Ms.lensOk, Bool.and_eq_true] at h
    cases f <;> simp only [len, binExtra, compile, binCompile, ihx h.1, ihy h.2, numCompile_0_len,
      List.length_append, List.length_cons, List.length_nil] <;> omega
  | thresh k xs ih =>
    intro h
    simp only [Ms.lensOk, Bool.and_eq_true, Bool.not_eq_true', List.isEmpty_eq_false_iff] at h
    have hl := lenL_eq xs ih h.2
    have hn := compileL_length xs
    simp only [len, compile, hl]
    cases hc : compileL xs with
    | nil =>
      rw [hc] at hn
      exact absurd (List.length_eq_zero_iff.mp hn.symm) h.1
    | cons c1 rest =>
      rw [hc] at hn
      simp only [threshCompile]
      have := chain_length c1 rest 0 0x93 (numCompile k ++ [0x87])
      simp only [List.length_append, List.length_cons, List.length_nil, flatMap_snoc_length] at this ⊢
      simp only [sumLen1_eq, sumLen] at this ⊢
      simp only [List.length_cons] at hn
      omega
  | multi f k keys =>
    intro h
    simp only [Ms.lensOk, Bool.and_eq_true, List.all_eq_true, decide_eq_true_eq] at h
    cases f
    · simp only [len, compile, multiCompile, keysLen_eq, flatten_length, List.length_append, List.length_cons,
        List.length_nil]
    · simp only [len, compile, multiCompile, keysLen_eq, flatten_length, sumLen_sortBytes, List.length_append,
        List.length_cons, List.length_nil]
    · have hne : keys ≠ [] := by simpa using h.2
      simp only [len, compile, multiCompile, keysLen_eq]
      cases hk : keys.map pushCompact with
      | nil => simp at hk; exact absurd hk hne
      | cons c1 rest =>
        have hlen : (c1 :: rest).length = keys.length := by rw [← hk]; simp
        simp only []
        have := chain_length c1 rest 0xac 0xba (numCompile k ++ [0x9c])
        simp only [List.append_assoc] at this ⊢
        rw [this, sumLen1_eq, hlen]
        simp only [List.length_append, List.length_cons, List.length_nil]; omega
    · have hne : keys ≠ [] := by simpa using h.2
      simp only [len, compile, multiCompile, keysLen_eq]
      have hsl : (sortBytes (keys.map pushCompact)).length = keys.length := by simp [sortBytes_length]
      have hss := sumLen_sortBytes (keys.map pushCompact)
      cases hk : sortBytes (keys.map pushCompact) with
      | nil =>
        rw [hk] at hsl
        exact absurd (List.length_eq_zero_iff.mp hsl.symm) hne
      | cons c1 rest =>
        rw [hk] at hsl hss
        simp only []
        have := chain_length c1 rest 0xac 0xba (numCompile k ++ [0x9c])
        simp only [List.append_assoc] at this ⊢
        rw [this, sumLen1_eq, hsl, hss]
        simp only [List.length_append, List.length_cons, List.length_nil]; omega
  | wrap w x ih =>
    intro h
    simp only [Ms.lensOk] at h
    have hx := ih h
    cases w <;> simp only [len, compile, wrapCompile, hx, numCompile_0_len, numCompile_1_len,
      List.length_append, List.length_cons, List.length_nil] <;> omega

end Embit.Miniscript
