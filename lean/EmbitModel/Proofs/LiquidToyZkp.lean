import EmbitModel.Proofs.LiquidBalance
import Mathlib.Data.ZMod.Basic
import Mathlib.Algebra.Module.Prod
/-
  C18 (audit A9 / I-18.2): a NON-TRIVIAL toy commitment library satisfying every law of `ZkpLaws`, with a blind-sum
  that actually computes the specified scalar.

  Scalars: ℤ/251. Points: (ℤ/251)², a module over the scalars; the blinding generator is `G = (0, 1)`, the asset
  generators are `H(t) = (h(t), 0)`: the first coordinate of a commitment carries the plain amount, the second the
  blinding term. All library functions are plain `Nat` arithmetic mod 251 on one- / two-byte strings, so the kernel
  evaluates them (`decide`); the laws are proved by casting into `ZMod 251`.

  This is a TOY: it shows that the laws are jointly satisfiable together with a successful `blind`, nothing about
  libsecp256k1-zkp. Its range / surjection "proofs" are placeholders (no law speaks about them).
-/
set_option linter.unusedSimpArgs false
set_option linter.unusedVariables false
namespace Embit.Toy2
open Embit Model

def q : Nat := 251

/-- a byte string as a scalar: big-endian, reduced mod 251 -/
def sc (b : Bytes) : Nat := ofBe b % q
/-- scalar `x` as a byte string (one byte) -/
def enc1 (x : Nat) : Bytes := [UInt8.ofNat (x % q)]
/-- the point `(x, y)` as its internal representation (two bytes) -/
def enc2 (x y : Nat) : Bytes := [UInt8.ofNat (x % q), UInt8.ofNat (y % q)]
def px : Bytes → Nat
  | x :: _ => x.toNat
  | _ => 0
def py : Bytes → Nat
  | _ :: y :: _ => y.toNat
  | _ => 0
/-- "hash to curve": the asset tag, big-endian, mod 251, in the first coordinate -/
def hTag (t : Bytes) : Nat := ofBe t % q

/-- the blinding terms `v·abf + vbf` over the three argument lists (zipped) -/
def termsN : List Nat → List Bytes → List Bytes → List Nat
  | v :: vs, a :: as, b :: bs => (v * sc a + sc b) :: termsN vs as bs
  | _, _, _ => []

/-- `pedersen_blind_generator_blind_sum`: refuses ill-formed calls (lists of different lengths, no output), otherwise
    returns the last value blinding factor `Σ_in (v·abf + vbf) − Σ_out' (v·abf + vbf) − v_last·abf_last`, computed
    from its arguments (the last entry of `vbfs` is ignored — the C function overwrites it) -/
def blindSum2 (vals : List Nat) (abfs vbfs : List Bytes) (nIn : Nat) : Option Bytes :=
  if vals.length = abfs.length ∧ abfs.length = vbfs.length ∧ nIn < vals.length then
    let T := termsN vals abfs (setLast vbfs [])
    some (enc1 ((T.take nIn).sum + (q - (T.drop nIn).sum % q)))
  else none

def tagged (p : UInt8) (b : Bytes) : Option Bytes := if b.length = 2 then some (p :: b) else none
def untag (p : UInt8) : Bytes → Option Bytes
  | p' :: b => if p' = p ∧ b.length = 2 then some b else none
  | [] => none

/-- the toy library -/
def toyZkp2 : Zkp where
  generatorParse := untag 0x0a
  generatorSerialize := tagged 0x0a
  generatorGenerate := fun t => some (enc2 (hTag t) 0)
  generatorGenerateBlinded := fun t r => if t.length = 32 then some (enc2 (hTag t) (sc r)) else none
  pedersenCommit := fun vbf v gen => some (enc2 (v * px gen) (v * py gen + sc vbf))
  pedersenCommitmentParse := untag 0x08
  pedersenCommitmentSerialize := tagged 0x08
  blindSum := blindSum2
  surjectionproofParse := fun b => some b
  surjectionproofSerialize := fun b => some b
  surjectionproofVerify := fun _ _ _ => false
  surjectionproofInitialize := fun tags asset _ _ _ => (tags.findIdx? (· == asset)).map (fun i => ([0x50], i))
  surjectionproofGenerate := fun proof idx _ _ _ _ => some (proof ++ [UInt8.ofNat idx])
  rangeproofVerify := fun _ _ _ _ => none
  rangeproofSign := fun _ _ _ _ _ _ _ _ _ _ => some [0x52]
  pubkeyOfSecret := fun s => some (0x02 :: s)
  ecdhNonce := fun pk n => some (pk ++ n)

/-- the algebraic reading of the toy library -/
def toyAlg2 : ZkpAlg (ZMod 251) (ZMod 251 × ZMod 251) where
  G := (0, 1)
  H := fun t => ((hTag t : ZMod 251), 0)
  scalar := fun b => (sc b : ZMod 251)
  point := fun b => ((px b : ZMod 251), (py b : ZMod 251))

theorem cast_mod_q (x : Nat) : ((x % q : Nat) : ZMod 251) = (x : ZMod 251) := ZMod.natCast_mod x 251

theorem px_enc2 (x y : Nat) : px (enc2 x y) = x % q := by
  have : x % q < 251 := Nat.mod_lt _ (by decide)
  simp only [px, enc2, UInt8.toNat_ofNat']
  omega

theorem py_enc2 (x y : Nat) : py (enc2 x y) = y % q := by
  have : y % q < 251 := Nat.mod_lt _ (by decide)
  simp only [py, enc2, UInt8.toNat_ofNat']
  omega

theorem point_enc2 (x y : Nat) : toyAlg2.point (enc2 x y) = ((x : ZMod 251), (y : ZMod 251)) := by
  simp only [toyAlg2, px_enc2, py_enc2, cast_mod_q]

theorem sc_nil : sc [] = 0 := by decide

theorem sc_enc1 (x : Nat) : sc (enc1 x) = x % q := by
  have : x % q < 251 := Nat.mod_lt _ (by decide)
  simp only [sc, enc1, ofBe, List.reverse_cons, List.reverse_nil, List.nil_append, ofLe, UInt8.toNat_ofNat']
  simp only [q] at *
  omega

/-! ### the blind-sum law -/

theorem termsOf_cast (vals : List Nat) (abfs vbfs : List Bytes) :
    termsOf toyAlg2 vals abfs vbfs = (termsN vals abfs vbfs).map (Nat.cast : Nat → ZMod 251) := by
  induction vals generalizing abfs vbfs with
  | nil => simp [termsOf, termsN]
  | cons v vs ih =>
    cases abfs with
    | nil => simp [termsOf, termsN]
    | cons a as =>
      cases vbfs with
      | nil => simp [termsOf, termsN]
      | cons b bs =>
        simp only [termsOf, termsN, List.map_cons, ih]
        simp [toyAlg2]

theorem setLast_cons_cons (b b' : Bytes) (bs : List Bytes) (x : Bytes) :
    setLast (b :: b' :: bs) x = b :: setLast (b' :: bs) x := by
  simp [setLast]

/-- with lists of one length `n ≥ 1`, the terms with the last factor replaced by `x` are a fixed list followed by
    `c + sc x` -/
theorem termsN_setLast (vals : List Nat) (abfs vbfs : List Bytes) (h1 : vals.length = abfs.length)
    (h2 : abfs.length = vbfs.length) (h3 : 0 < vals.length) :
    ∃ T c, T.length + 1 = vals.length ∧ ∀ x, termsN vals abfs (setLast vbfs x) = T ++ [c + sc x] := by
  induction vals generalizing abfs vbfs with
  | nil => simp at h3
  | cons v vs ih =>
    cases abfs with
    | nil => simp at h1
    | cons a as =>
      cases vbfs with
      | nil => simp at h2
      | cons b bs =>
        cases vs with
        | nil =>
          have has : as = [] := by simpa using h1.symm
          have hbs : bs = [] := by subst has; simpa using h2.symm
          subst has; subst hbs
          exact ⟨[], v * sc a, by simp, fun x => by simp [setLast, termsN]⟩
        | cons v' vs' =>
          cases as with
          | nil => simp at h1
          | cons a' as' =>
            cases bs with
            | nil => simp at h2
            | cons b' bs' =>
              obtain ⟨T, c, hT, hx⟩ := ih (a' :: as') (b' :: bs') (by simpa using h1) (by simpa using h2) (by simp)
              refine ⟨(v * sc a + sc b) :: T, c, by simp at hT ⊢; omega, fun x => ?_⟩
              rw [setLast_cons_cons, termsN, hx x]
              rfl

theorem sum_map_cast (l : List Nat) : (l.map (Nat.cast : Nat → ZMod 251)).sum = ((l.sum : Nat) : ZMod 251) := by
  induction l with
  | nil => simp
  | cons a r ih => simp [ih]

theorem toy_blindSum_law (vals : List Nat) (abfs vbfs : List Bytes) (nIn : Nat) (r : Bytes)
    (h : blindSum2 vals abfs vbfs nIn = some r) :
    ((termsOf toyAlg2 vals abfs (setLast vbfs r)).take nIn).sum
      = ((termsOf toyAlg2 vals abfs (setLast vbfs r)).drop nIn).sum := by
  unfold blindSum2 at h
  split at h
  · rename_i hc
    obtain ⟨h1, h2, h3⟩ := hc
    obtain ⟨T, c, hT, hx⟩ := termsN_setLast vals abfs vbfs h1 h2 (by omega)
    simp only [Option.some.injEq] at h
    have hle : nIn ≤ T.length := by omega
    rw [hx [], sc_nil, List.take_append_of_le_length hle, List.drop_append_of_le_length hle] at h
    subst h
    rw [termsOf_cast, hx, ← List.map_take, ← List.map_drop, List.take_append_of_le_length hle,
      List.drop_append_of_le_length hle, sum_map_cast, sum_map_cast, sc_enc1]
    simp only [List.sum_append, List.sum_cons, List.sum_nil, Nat.add_zero]
    generalize (List.take nIn T).sum = a
    generalize (List.drop nIn T).sum = d
    have hlt : (d + c) % q ≤ q := Nat.le_of_lt (Nat.mod_lt _ (by decide))
    push_cast [cast_mod_q, Nat.cast_sub hlt]
    have hq : ((q : Nat) : ZMod 251) = 0 := by
      simp only [q]; exact ZMod.natCast_self 251
    rw [hq]
    ring
  · simp at h

/-- every law of `ZkpLaws` holds for the toy library, including the blind-sum law with an answering blind-sum -/
theorem toyZkp2_laws : ZkpLaws toyZkp2 toyAlg2 where
  generator := by
    intro asset abf g h
    simp only [toyZkp2] at h
    split at h
    · obtain rfl := Option.some.inj h
      rw [point_enc2]
      simp [toyAlg2]
    · simp at h
  commit := by
    intro vbf v gen c h
    simp only [toyZkp2] at h
    obtain rfl := Option.some.inj h
    rw [point_enc2]
    simp [toyAlg2]
  blindSum := toy_blindSum_law

/-- serialise-then-parse gives the commitment back -/
theorem toyZkp2_parse_serialize (c s : Bytes) (h : toyZkp2.pedersenCommitmentSerialize c = some s) :
    toyZkp2.pedersenCommitmentParse s = some c := by
  simp only [toyZkp2, tagged] at h
  split at h
  · rename_i hl
    obtain rfl := Option.some.inj h
    simp [toyZkp2, untag, hl]
  · simp at h

theorem toyZkp2_generator_parse_serialize (g s : Bytes) (h : toyZkp2.generatorSerialize g = some s) :
    toyZkp2.generatorParse s = some g := by
  simp only [toyZkp2, tagged] at h
  split at h
  · rename_i hl
    obtain rfl := Option.some.inj h
    simp [toyZkp2, untag, hl]
  · simp at h

/-- the wrapper's length check on the asset tag -/
theorem toyZkp2_asset_len (asset abf g : Bytes) (h : toyZkp2.generatorGenerateBlinded asset abf = some g) :
    asset.length = 32 := by
  simp only [toyZkp2] at h
  split at h
  · assumption
  · simp at h

/-- the same library WITHOUT the length check on the asset tag (used only for the witness that `blind` needs it) -/
def toyZkp2NoLen : Zkp :=
  { toyZkp2 with generatorGenerateBlinded := fun t r => some (enc2 (hTag t) (sc r))
                 surjectionproofInitialize := fun _ _ _ _ _ => some ([0x50], 0) }

theorem toyZkp2NoLen_laws : ZkpLaws toyZkp2NoLen toyAlg2 where
  generator := by
    intro asset abf g h
    simp only [toyZkp2NoLen] at h
    obtain rfl := Option.some.inj h
    rw [point_enc2]
    simp [toyAlg2]
  commit := toyZkp2_laws.commit
  blindSum := toyZkp2_laws.blindSum

theorem toyZkp2NoLen_parse_serialize (c s : Bytes) (h : toyZkp2NoLen.pedersenCommitmentSerialize c = some s) :
    toyZkp2NoLen.pedersenCommitmentParse s = some c := toyZkp2_parse_serialize c s h

/-- the all-zero factor decodes to the scalar 0 -/
theorem toyAlg2_zeros : toyAlg2.scalar zeros32 = 0 := by
  have : sc zeros32 = 0 := by decide
  simp [toyAlg2, this]

end Embit.Toy2
