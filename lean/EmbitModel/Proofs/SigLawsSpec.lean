import EmbitModel.Proofs.SigLawsConcrete
/-
  The verifiers of `opsOf` against the standards, and the taproot tweak of `opsOf` against BIP341:

  * `ecdsaVerifySec` = SEC 1 §4.1.4 verification (`Spec.Ecdsa.verify`) on the strictly decoded SEC key
    (`Spec.KeyEnc.secDecode`, Props/C10) and the strictly decoded low-S DER signature (`Der.parse`, = BIP66 by Props/C07);
  * `schnorrVerifyX` = BIP340 verification (`Spec.Bip340.verify`, Props/C08) on 32 / 32 / 64-byte arguments;
  * the x-only key of `tapTweak sk h` is BIP341's `taproot_tweak_pubkey(xonly(sk), h)` (Props/C09).
-/
set_option linter.unusedSimpArgs false
namespace Embit.Model.SignWith
open Embit Embit.Model Embit.Model.Der Embit.Model.PySecp

variable {E : Embit.EcOps} (hs : Hashes) (fuel : Nat)

/-! ### ECDSA: SEC 1 on strictly decoded arguments -/

/-- key.py's `verify_ecdsa` on a parsed point = SEC 1 verification of the strictly decoded pair -/
theorem verifyEcdsaKey_eq_spec (P : E.Pt) (der msg : Bytes) :
    PySecp.verifyEcdsaKey E P der msg true =
      match Der.parse E.n true der with
      | some (r, s) => Spec.Ecdsa.verify E P (ofBe msg) r s
      | none => false := by
  unfold PySecp.verifyEcdsaKey
  cases hp : Der.parse E.n true der with
  | none => rfl
  | some rs =>
    obtain ⟨r, s⟩ := rs
    have hr := Embit.Props.C07.der_range E.n true der r s hp
    have h1 : ¬ (r < 1 ∨ r ≥ E.n ∨ s < 1 ∨ s ≥ E.n) := by omega
    have e : ofBe msg % E.n * E.invN s % E.n = ofBe msg * E.invN s % E.n := by
      rw [Nat.mul_mod, Nat.mod_mod, ← Nat.mul_mod]
    simp only [Spec.Ecdsa.verify, h1, if_false, e]
    generalize E.xy (E.add (E.mul (ofBe msg * E.invN s % E.n) E.g) (E.mul (r * E.invN s % E.n) P)) = o
    cases o with
    | none => rfl
    | some xy => rfl

theorem ecdsaVerifySec_eq_spec (pub msg sig : Bytes) :
    ecdsaVerifySec E pub msg sig = ecdsaVerifySpec E pub msg sig := by
  unfold ecdsaVerifySec ecdsaVerifySpec
  rw [Embit.Props.C10.sec_parse_eq_spec]
  cases hd : Spec.KeyEnc.secDecode (toKeys E) pub with
  | none => rfl
  | some qc =>
    obtain ⟨Q, c⟩ := qc
    simp only [Option.map_some]
    have hq := verifyEcdsaKey_eq_spec (E := E) Q sig msg
    cases hp : Der.parse E.n true sig with
    | none => rw [hp] at hq; exact hq
    | some rs => rw [hp] at hq; exact hq

/-! ### BIP340 -/

theorem schnorrVerifyX_eq_spec (L : Embit.EcLaws E) (H : HashOps) (xo msg sig : Bytes) :
    schnorrVerifyX E H xo msg sig =
      (decide (xo.length = 32 ∧ msg.length = 32 ∧ sig.length = 64) && Spec.Bip340.verify E H xo msg sig) := by
  unfold schnorrVerifyX
  by_cases hl : xo.length = 32 ∧ msg.length = 32 ∧ sig.length = 64
  · rw [Embit.Props.C08.py_verify_schnorr_eq_bip340 E H L xo sig msg hl.1 hl.2.1 hl.2.2]
    simp [hl]
  · have : PySecp.verifySchnorr E H xo sig msg = none := by
      unfold PySecp.verifySchnorr
      by_cases h1 : xo.length = 32
      · by_cases h2 : msg.length = 32
        · have h3 : sig.length ≠ 64 := fun h3 => hl ⟨h1, h2, h3⟩
          simp [h1, h2, h3]
        · simp [h1, h2]
      · simp [h1]
    rw [this]
    simp [hl]

/-- what `schnorrSign` of `opsOf` returns: a 64-byte string over a 32-byte message that BIP340 verification accepts
    under the 32-byte x-only key of `sk` -/
theorem schnorr_bip340 (L : Embit.EcLaws E) (hn : E.n ≤ 2 ^ 256) (hp : E.p ≤ 2 ^ 256)
    (sk : Bytes) (c : Bool) (m sig : Bytes) (h : (opsOf E hs fuel).schnorrSign sk m = some sig) :
    (xonlyOfSec ((opsOf E hs fuel).secOf sk c)).length = 32 ∧ m.length = 32 ∧ sig.length = 64 ∧
      Spec.Bip340.verify E hs.H (xonlyOfSec ((opsOf E hs fuel).secOf sk c)) m sig = true := by
  have hv := schnorr_ok_concrete hs fuel L hn hp sk c m sig h
  rw [schnorrVerifyX_eq_spec L] at hv
  simp only [Bool.and_eq_true, decide_eq_true_eq] at hv
  exact ⟨hv.1.1, hv.1.2.1, hv.1.2.2, hv.2⟩

/-! ### the taproot tweak -/

/-- what `PrivateKey.taproot_tweak` returns is a valid secret, and it is called on a valid secret -/
theorem taprootTweak_valid (K : Embit.Keys.EcOps) (env : Embit.Keys.Env) (k k' : Embit.Keys.PrivateKey) (h : Bytes)
    (ht : Embit.Keys.PrivateKey.taprootTweak K env k h = some k') :
    Embit.Keys.seckeyValid K k.secret = true ∧ Embit.Keys.seckeyValid K k'.secret = true ∧ k'.compressed = true := by
  have hinit : ∀ b (r : Embit.Keys.PrivateKey), Embit.Keys.PrivateKey.init K b = some r →
      Embit.Keys.seckeyValid K r.secret = true ∧ r.compressed = true := by
    intro b r hr
    unfold Embit.Keys.PrivateKey.init at hr
    split at hr
    · cases hr
    · split at hr
      · rename_i hv
        cases hr
        exact ⟨hv, rfl⟩
      · cases hr
  unfold Embit.Keys.PrivateKey.taprootTweak at ht
  split at ht
  · cases ht
  · rename_i P hP
    have hk : Embit.Keys.seckeyValid K k.secret = true := by
      unfold Embit.Keys.pubkeyCreate at hP
      split at hP
      · assumption
      · cases hP
    simp only [] at ht
    split at ht
    · cases ht
    · split at ht
      · cases ht
      · split at ht
        · cases ht
        · split at ht
          · cases ht
          · rename_i pk hpk
            split at ht
            · cases ht
            · split at ht
              · exact ⟨hk, (hinit _ _ ht).1, (hinit _ _ ht).2⟩
              · cases ht
                exact ⟨hk, (hinit _ _ hpk).1, (hinit _ _ hpk).2⟩

/-- **the taproot output key**: when `tapTweak sk h` of `opsOf` returns `tsk`, the x-only public key of `tsk` is the
    x-only output key BIP341's `taproot_tweak_pubkey` computes from the x-only public key of `sk` and `h`
    (Props/C09 `taproot_commutes` + `taproot_output_key`, carried over the bridge) -/
theorem tweak_is_bip341 (L : Embit.EcLaws E) (hn : E.n ≤ 2 ^ 256) (hp : E.p ≤ 2 ^ 256) (hinf : InfUnique E)
    (htag : ∀ t m, (hs.env.tagged t m).length = 32) (sk h tsk : Bytes) (c : Bool)
    (ht : (opsOf E hs fuel).tapTweak sk h = some tsk) :
    ∃ x par X, xonlyOfSec ((opsOf E hs fuel).secOf sk c) = beN 32 x ∧ x < 2 ^ 256 ∧
      Spec.Bip341.tweakPubkey (toKeys E) hs.env.tagged x h = some (par, X) ∧
      xonlyOfSec ((opsOf E hs fuel).secOf tsk true) = beN 32 X ∧ X < 2 ^ 256 := by
  have K := toKeys_laws L hn hp hinf
  change (Embit.Keys.PrivateKey.taprootTweak (toKeys E) hs.env ⟨ofBe sk, true, 0⟩ h).map
    (fun k => beN 32 k.secret) = some tsk at ht
  cases hk' : Embit.Keys.PrivateKey.taprootTweak (toKeys E) hs.env ⟨ofBe sk, true, 0⟩ h with
  | none => rw [hk'] at ht; cases ht
  | some k' =>
    rw [hk'] at ht
    simp only [Option.map_some, Option.some.injEq] at ht
    subst ht
    obtain ⟨hv, hv', _⟩ := taprootTweak_valid (toKeys E) hs.env _ k' h hk'
    have hv1 : PySecp.seckeyValid E (ofBe sk) = true := hv
    have hlt' := Embit.Keys.valid_lt (toKeys E) K hv'
    have hofbe : ofBe (beN 32 k'.secret) = k'.secret := Embit.Keys.ofBe_beN32 _ hlt'
    have hv2 : PySecp.seckeyValid E (ofBe (beN 32 k'.secret)) = true := by rw [hofbe]; exact hv'
    have hfin := pub_finite hinf (ofBe sk) hv1
    have hfin' := pub_finite hinf k'.secret hv'
    -- commutation (C09)
    have hcomm := Embit.Props.C09.taproot_commutes K hs.env htag ⟨ofBe sk, true, 0⟩ hv h
    rw [hk'] at hcomm
    simp only [Option.bind_some, Embit.Keys.PrivateKey.getPublicKey, Embit.Keys.pubkeyCreate, hv, hv', if_true,
      Option.map_some] at hcomm
    obtain ⟨_, _, par, hpar⟩ := Embit.Props.C09.taproot_output_key K hs.env htag
      (⟨(toKeys E).mulG (ofBe sk), true⟩ : Embit.Keys.PublicKey (toKeys E)) hfin h _ hcomm.symm
    refine ⟨(toKeys E).x ((toKeys E).mulG (ofBe sk)), par, (toKeys E).x ((toKeys E).mulG k'.secret), ?_,
      (K.coord_lt _ hfin).1, hpar, ?_, (K.coord_lt _ hfin').1⟩
    · rw [secOf_valid hs fuel sk c hv1]
      unfold xonlyOfSec
      rw [Embit.Keys.xslice_serialize]
    · rw [secOf_valid hs fuel _ true hv2, hofbe]
      unfold xonlyOfSec
      rw [Embit.Keys.xslice_serialize]

/-! ### `KeysValid` for parsed PSBTs over the same key model -/

/-! `keyOpsOf` (the key predicates of `PSBT.parse` over the key model of `opsOf`) is defined in Model/SignWithOps.lean
    (Mathlib-free: the driver's `sign.*` ops parse with it). -/

/-- `from_xonly(x)` IS the parse of `02 ‖ x` -/
theorem keyOpsOf_x (validXpub : Bytes → Bool) (x : Bytes) (h : (keyOpsOf E validXpub).validX x = true) :
    (keyOpsOf E validXpub).validSec (0x02 :: x) = true := by
  change (Embit.Keys.PublicKey.fromXonly (toKeys E) x).isSome = true at h
  unfold Embit.Keys.PublicKey.fromXonly at h
  split at h
  · exact h
  · cases h

/-! ### the decider of the driver (`sign.verify`) is sound for `ValidWrite` -/

theorem splitFlag_spec (v sig : Bytes) (f : Nat) (h : splitFlag v = some (sig, f)) :
    v = sig ++ (if f ≠ 0 then [UInt8.ofNat f] else []) ∧ sig.length = 64 := by
  unfold splitFlag at h
  split at h
  · rename_i hl
    cases h; simp [hl]
  · split at h
    · rename_i hl
      split at h
      · rename_i fb hfb
        split at h
        · rename_i hne
          cases h
          rw [if_pos hne]
          have : v ≠ [] := by intro hv; rw [hv] at hl; cases hl
          have hlast := List.dropLast_append_getLast? fb hfb
          refine ⟨?_, by simp [hl]⟩
          rw [UInt8.ofNat_toNat]; exact hlast.symm
        · cases h
      · cases h
    · cases h

/-- `writeValid … = true` implies the conclusion of the validity theorems for that write: `ValidWrite` with the
    standards' verifiers, for the flag the value carries, against `PSBT.sighash` of `p` -/
theorem writeValid_sound (O : Ops (Embit.Keys.HDKey (toKeys E))) (H : HashOps) (hsha : O.sha = H.sha256)
    (p : Psbt) (w : Write) (h : writeValid E H p w = true) :
    ∃ s u f, p.inputs[w.1]? = some s ∧ s.utxo = some u ∧
      ValidWrite (ecdsaVerifySpec E) (fun xo m sig => Spec.Bip340.verify E H xo m sig) O s u f
        (fun f leaf => psbtSighash H.sha256 p w.1 f leaf) w.2 := by
  obtain ⟨i, sl, v⟩ := w
  unfold writeValid at h
  split at h; · cases h
  rename_i s hs
  split at h; · cases h
  rename_i u hu
  simp only [] at h
  cases sl with
  | partialSig pub =>
    simp only [Bool.and_eq_true, Bool.not_eq_true'] at h
    obtain ⟨htap, h⟩ := h
    split at h; · cases h
    rename_i fb hfb
    split at h; · cases h
    rename_i hh hd
    simp only [Bool.and_eq_true] at h
    refine ⟨s, u, fb.toNat, hs, hu, htap, hh, v.dropLast, hd, ?_, h.2⟩
    rw [UInt8.ofNat_toNat]
    exact (List.dropLast_append_getLast? fb hfb).symm
  | tapKeySig =>
    simp only [Bool.and_eq_true] at h
    obtain ⟨⟨htap, hinfix⟩, h⟩ := h
    split at h; · cases h
    rename_i sig f hsf
    split at h; · cases h
    rename_i hh hd
    simp only [Bool.and_eq_true] at h
    exact ⟨s, u, f, hs, hu, htap, _, hh, sig, hinfix, hd, (splitFlag_spec v sig f hsf).1, h.2⟩
  | tapScriptSig key =>
    simp only [Bool.and_eq_true] at h
    obtain ⟨htap, h⟩ := h
    split at h; · cases h
    rename_i sig f hsf
    rw [List.any_eq_true] at h
    obtain ⟨e, he, h⟩ := h
    split at h; · cases h
    rename_i lv hlv
    simp only [Bool.and_eq_true, decide_eq_true_eq] at h
    obtain ⟨⟨hinfix, hkey⟩, h⟩ := h
    split at h; · cases h
    rename_i hh hd
    simp only [Bool.and_eq_true] at h
    refine ⟨s, u, f, hs, hu, htap, key.take 32, e.1, e.2, lv, hh, sig, he, hinfix, hlv, ?_, hd,
      (splitFlag_spec v sig f hsf).1, h.2⟩
    rw [hsha]; exact hkey

/-! ### non-vacuity of the extra law -/

/-- the 31-point curve of Props/C07 satisfies the extra law: only `0` has no coordinates -/
theorem toyCurve_infUnique : InfUnique toyCurve := by
  intro a h
  change toyXY (Fin.ofNat 31 (a * 1)) = none at h
  unfold toyXY at h
  split at h
  · rename_i hz
    show a % 31 = 0
    simpa [Fin.ofNat] using hz
  · rename_i hz
    have hlt : (Fin.ofNat 31 (a * 1)).val < 31 := (Fin.ofNat 31 (a * 1)).isLt
    have : (Fin.ofNat 31 (a * 1)).val - 1 < toyTable.length := by
      have : toyTable.length = 30 := by decide
      omega
    rw [List.getElem?_eq_getElem this] at h
    cases h

end Embit.Model.SignWith
