import EmbitModel.Proofs.Slip39RsElim
/- RS1024 rank checks (kernel evaluation), part 1: all position triples whose largest offset is in [31] -/
namespace Embit.Model.Slip39
set_option maxRecDepth 1000000 in
theorem tripleOk_31 : tripleOk 31 = true := by decide +kernel
end Embit.Model.Slip39
