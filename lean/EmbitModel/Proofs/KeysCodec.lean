import EmbitModel.Proofs.HdInit
import EmbitModel.Spec.KeyEncodings
/-
  WIF and extended-key round trips; the rejection classes of the decoders.
-/
namespace Embit.Keys
open Embit

variable {E : EcOps}

/-! ### WIF -/

/-- every network's WIF prefix is one byte, and the network loop of `from_wif` finds a network with that prefix -/
def wifTableOk : Bool :=
  (List.range Generated.keyNets.length).all fun i =>
    match netWif i with
    | none => false
    | some pre =>
      pre.length == 1 &&
        (match wifNetwork pre with
         | some j => netWif j == some pre
         | none => false)

theorem wifTable_ok : wifTableOk = true := by decide

theorem wif_table (net : Nat) (pre : Bytes) (h : netWif net = some pre) :
    pre.length = 1 ∧ ∃ j, wifNetwork pre = some j ∧ netWif j = some pre := by
  have hlt : net < Generated.keyNets.length := by
    unfold netWif at h
    cases hg : Generated.keyNets[net]? with
    | none => simp [hg] at h
    | some x => exact (List.getElem?_eq_some_iff.mp hg).1
  have := wifTable_ok
  unfold wifTableOk at this
  rw [List.all_eq_true] at this
  have := this net (List.mem_range.mpr hlt)
  rw [h] at this
  simp only [Bool.and_eq_true, beq_iff_eq] at this
  refine ⟨this.1, ?_⟩
  cases hw : wifNetwork pre with
  | none => simp [hw] at this
  | some j =>
    simp only [hw, beq_iff_eq] at this
    exact ⟨j, rfl, this.2⟩

theorem wif_eq_spec (env : Env) (k : PrivateKey) (pre : Bytes) (h : netWif k.network = some pre) :
    k.wif env = some (Spec.KeyEnc.wif env.b58enc pre k.secret k.compressed) := by
  simp [PrivateKey.wif, h, Spec.KeyEnc.wif, Spec.KeyEnc.wifPayload]

/-- decoding a WIF payload `prefix ‖ secret ‖ [01]` -/
theorem fromWif_payload (L : EcLaws E) (env : Env) (t : Text) (pre : Bytes) (d : Nat) (c : Bool) (j : Nat)
    (hdec : env.b58dec t = some (Spec.KeyEnc.wifPayload pre d c)) (hpre : pre.length = 1)
    (hj : wifNetwork pre = some j) (hv : seckeyValid E d = true) :
    PrivateKey.fromWif E env t = some ⟨d, c, j⟩ := by
  have hd := valid_lt E L hv
  obtain ⟨p0, rfl⟩ : ∃ p0, pre = [p0] := by
    cases pre with
    | nil => simp at hpre
    | cons a r => cases r with
      | nil => exact ⟨a, rfl⟩
      | cons _ _ => simp at hpre
  unfold PrivateKey.fromWif
  rw [hdec]
  cases c
  · simp [Spec.KeyEnc.wifPayload, hj, take_len, PrivateKey.init, ofBe_beN32 _ hd, hv]
  · have hlast : (p0 :: (beN 32 d ++ [1])).getLast? = some 1 := by
      rw [← List.cons_append, List.getLast?_append]; simp
    simp [Spec.KeyEnc.wifPayload, hj, PrivateKey.init, ofBe_beN32 _ hd, hv, hlast]

/-! ### extended keys -/

theorem layout (a f c cc key rest : Bytes) (d : UInt8) (la : a.length = 4) (lf : f.length = 4) (lc : c.length = 4)
    (lcc : cc.length = 32) (lk : key.length = 33) :
    let s := a ++ (d :: (f ++ (c ++ (cc ++ (key ++ rest)))))
    let s2 := f ++ (c ++ (cc ++ (key ++ rest)))
    s.take 4 = a ∧ s.drop 4 = d :: s2 ∧ s2.take 4 = f ∧ (s2.drop 4).take 4 = c ∧ (s2.drop 8).take 32 = cc
      ∧ (s2.drop 40).take 33 = key ∧ (s2.drop 40).drop 33 = rest := by
  intro s s2
  have h1 : f.drop 40 = [] := List.drop_eq_nil_of_le (by omega)
  have h2 : c.drop 36 = [] := List.drop_eq_nil_of_le (by omega)
  have h3 : f.drop 73 = [] := List.drop_eq_nil_of_le (by omega)
  have h4 : c.drop 69 = [] := List.drop_eq_nil_of_le (by omega)
  refine ⟨?_, ?_, ?_, ?_, ?_, ?_, ?_⟩ <;>
    simp [s, s2, List.take_append, List.drop_append, la, lf, lc, lcc, lk, h1, h2, h3, h4]

/-- a key object an HD key may hold: valid scalar / finite point, compressed -/
def KeyObj.Valid (E : EcOps) : KeyObj E → Prop
  | .priv k => seckeyValid E k.secret = true ∧ k.compressed = true
  | .pub k => E.isInf k.point = false ∧ k.compressed = true

/-- the private key as `HDKey.parse` rebuilds it: `PrivateKey(secret)` with the default network -/
def KeyObj.normNet : KeyObj E → KeyObj E
  | .priv k => .priv ⟨k.secret, k.compressed, Generated.privDefaultNet⟩
  | .pub k => .pub k

def HDKey.normNet (k : HDKey E) : HDKey E := { k with key := k.key.normNet }

/-- the 33-byte key field -/
def keyField (key : KeyObj E) : Bytes := (if key.isPrivate then [0x00] else []) ++ key.serialize

theorem keyField_length (key : KeyObj E) (h : key.Valid E) : (keyField key).length = 33 := by
  cases key with
  | priv k => simp [keyField, KeyObj.isPrivate, KeyObj.serialize, PrivateKey.serialize]
  | pub k =>
    simp only [KeyObj.Valid] at h
    simp [keyField, KeyObj.isPrivate, KeyObj.serialize, PublicKey.sec, pubkeySerialize_length, h.2]

/-- reading the key field back -/
theorem readKeyField_keyField (L : EcLaws E) (key : KeyObj E) (h : key.Valid E) :
    ∃ k0 kr, keyField key = k0 :: kr ∧ readKeyField E k0 kr = some key.normNet := by
  cases key with
  | priv k =>
    simp only [KeyObj.Valid] at h
    refine ⟨0x00, beN 32 k.secret, by simp [keyField, KeyObj.isPrivate, KeyObj.serialize, PrivateKey.serialize], ?_⟩
    have hd := valid_lt E L h.1
    simp [readKeyField, PrivateKey.parse, PrivateKey.init, take_len, ofBe_beN32 _ hd, h.1, KeyObj.normNet, h.2]
  | pub k =>
    simp only [KeyObj.Valid] at h
    have hp := parse_sec L k h.1
    obtain ⟨P, c⟩ := k
    simp only at h
    obtain ⟨hP, rfl⟩ := h
    cases hy : E.yOdd P
    · refine ⟨0x02, beN 32 (E.x P), by simp [keyField, KeyObj.isPrivate, KeyObj.serialize, PublicKey.sec, pubkeySerialize, hy], ?_⟩
      simp only [PublicKey.sec, pubkeySerialize, hy, if_true, Bool.false_eq_true, if_false] at hp
      have : ((2:UInt8) = 0) = False := by simp
      simp only [readKeyField, this, if_false, hp, Option.map_some, KeyObj.normNet]
    · refine ⟨0x03, beN 32 (E.x P), by simp [keyField, KeyObj.isPrivate, KeyObj.serialize, PublicKey.sec, pubkeySerialize, hy], ?_⟩
      simp only [PublicKey.sec, pubkeySerialize, hy, if_true] at hp
      have : ((3:UInt8) = 0) = False := by simp
      simp only [readKeyField, this, if_false, hp, Option.map_some, KeyObj.normNet]

theorem serialize_layout (k : HDKey E) (hd : k.depth < 256) (hcn : k.childNumber < 2 ^ 32) :
    k.serialize = some (k.version ++ (UInt8.ofNat k.depth :: (k.fingerprint ++ (beN 4 k.childNumber
      ++ (k.chainCode ++ (keyField k.key ++ [])))))) := by
  simp [HDKey.serialize, hd, hcn, keyField]

theorem normNet_serialize (key : KeyObj E) : key.normNet.serialize = key.serialize := by
  cases key <;> rfl

theorem normNet_isPrivate (key : KeyObj E) : key.normNet.isPrivate = key.isPrivate := by
  cases key <;> rfl

theorem normNet_privUncompressed (key : KeyObj E) : key.normNet.privUncompressed = key.privUncompressed := by
  cases key <;> rfl

/-- encode then decode: every field comes back (the private key with the default network, which is all
    `HDKey.parse` can know) -/
theorem parse_serialize (L : EcLaws E) (env : Env) (k : HDKey E)
    (hinit : HDKey.init env k.key k.chainCode (some k.version) k.depth k.fingerprint k.childNumber = some k)
    (hkey : k.key.Valid E) (hver : k.version.length = 4) (hcc : k.chainCode.length = 32)
    (hfp : k.fingerprint.length = 4)
    (h0 : k.depth = 0 → k.childNumber = 0 ∧ k.fingerprint = [0, 0, 0, 0]) :
    ∃ b, k.serialize = some b ∧ b.length = 78 ∧ HDKey.parse E env b = some k.normNet := by
  obtain ⟨hlen, hunc, hkeq, b, hb0, htext⟩ := (init_iff env _ _ _ _ _ _ k).mp hinit
  have hb : k.serialize = some b := by rw [hkeq]; exact hb0
  have hdcn : k.depth < 256 ∧ k.childNumber < 2 ^ 32 := by
    unfold HDKey.serialize at hb
    split at hb
    · assumption
    · cases hb
  have hlay := serialize_layout k hdcn.1 hdcn.2
  rw [hb] at hlay
  have hb' := Option.some.inj hlay
  have hkl := keyField_length k.key hkey
  refine ⟨b, hb, ?_, ?_⟩
  · rw [hb']; simp [hver, hcc, hfp, hkl]
  · obtain ⟨k0, kr, hkf, hread⟩ := readKeyField_keyField L k.key hkey
    obtain ⟨l1, l2, l3, l4, l5, l6, l7⟩ := layout k.version k.fingerprint (beN 4 k.childNumber) k.chainCode
      (keyField k.key) [] (UInt8.ofNat k.depth) hver hfp (by simp) hcc hkl
    have hdep : (UInt8.ofNat k.depth).toNat = k.depth := by
      simp [UInt8.toNat_ofNat']; omega
    have hcnv : ofBe (beN 4 k.childNumber) = k.childNumber := ofBe_beN4 _ hdcn.2
    have hser' : k.normNet.serialize = some b := by
      rw [← hb]; simp [HDKey.serialize, HDKey.normNet, normNet_serialize, normNet_isPrivate]
    have hinit' : HDKey.init env k.key.normNet k.chainCode (some k.version) k.depth k.fingerprint k.childNumber
        = some k.normNet := by
      rw [init_iff]
      refine ⟨by rw [normNet_serialize]; exact hlen, by rw [normNet_privUncompressed]; exact hunc, rfl, b, hser', ?_⟩
      rw [normNet_isPrivate]; exact htext
    unfold HDKey.parse HDKey.readFrom
    rw [hb', l2]
    simp only [l1, l3, l4, l5, l6, l7]
    simp only [hkf, hread, hdep, hcnv, hver, hfp, hcc]
    rw [if_neg (by omega), hinit']
    simp only [HDKey.toBase58, hser']
    have hkind : sub14 (env.b58enc b) = kindText k.normNet.key.isPrivate := by
      rw [htext]; simp [HDKey.normNet, normNet_isPrivate]
    cases hp : k.normNet.key.isPrivate
    · simp only [hp, kindText, Bool.false_eq_true, if_false] at hkind
      simp only [hkind, hp]
      have h00 : ¬ (k.depth = 0 ∧ k.childNumber ≠ 0) := fun h => h.2 (h0 h.1).1
      have h01 : ¬ (k.depth = 0 ∧ k.fingerprint ≠ [0, 0, 0, 0]) := fun h => h.2 (h0 h.1).2
      simp [hkind, tPrv_ne_tPub.symm, h00, h01]
    · simp only [hp, kindText, if_true] at hkind
      simp only [hkind, hp]
      have h00 : ¬ (k.depth = 0 ∧ k.childNumber ≠ 0) := fun h => h.2 (h0 h.1).1
      have h01 : ¬ (k.depth = 0 ∧ k.fingerprint ≠ [0, 0, 0, 0]) := fun h => h.2 (h0 h.1).2
      simp [hkind, tPrv_ne_tPub, h00, h01]

end Embit.Keys
