import EmbitModel.Model.ReadVout
import EmbitModel.Proofs.TxRoundtrip
set_option linter.unusedSimpArgs false
namespace Embit
open Model Spec.Wire

theorem setWitnesses_any (vin : List TxIn) (wits : List (List Bytes)) (hl : wits.length = vin.length)
    (hv : ∀ i ∈ vin, i.witness = []) :
    (setWitnesses vin wits).any TxIn.isSegwit = !(wits.all (fun w => w.isEmpty)) := by
  induction vin generalizing wits with
  | nil => cases wits with
    | nil => simp [setWitnesses]
    | cons _ _ => simp at hl
  | cons i is ih =>
    cases wits with
    | nil => simp at hl
    | cons w ws =>
      have := ih ws (by simpa using hl) (fun j hj => hv j (by simp [hj]))
      simp [setWitnesses, this, TxIn.isSegwit_iff]

theorem setWitnesses_ser (vin : List TxIn) (wits : List (List Bytes)) :
    (setWitnesses vin wits).flatMap TxIn.ser = vin.flatMap TxIn.ser := by
  induction vin generalizing wits with
  | nil => cases wits <;> simp [setWitnesses]
  | cons i is ih => cases wits with
    | nil => simp [setWitnesses]
    | cons w ws => simp [setWitnesses, ih, TxIn.ser]

theorem setWitnesses_length (vin : List TxIn) (wits : List (List Bytes)) :
    (setWitnesses vin wits).length = vin.length := by
  induction vin generalizing wits with
  | nil => cases wits <;> simp [setWitnesses]
  | cons i is ih => cases wits with
    | nil => simp [setWitnesses]
    | cons w ws => simp [setWitnesses, ih]

/-- the streamed reader computes exactly "parse, then take output `idx` and the transaction hash" -/
theorem Tx.readVout_eq (sha : Bytes → Bytes) (idx : Nat) (b : Bytes) :
    Tx.readVout sha idx b =
      match Tx.read b with
      | some (t, r) => (match t.vout[idx]? with
        | some o => some ((o, Tx.hash sha t), r)
        | none => none)
      | none => none := by
  unfold Tx.readVout Tx.read readLe
  cases h1 : takeN 4 b with
  | none => simp
  | some p1 =>
    obtain ⟨vb, r1⟩ := p1
    simp only []
    cases h2 : Compact.read r1 with
    | none => simp
    | some p2 =>
      obtain ⟨n0, r2⟩ := p2
      simp only []
      obtain ⟨_, lvb⟩ := takeN_sound h1
      have hvb : leN 4 (ofLe vb) = vb := by have := leN_ofLe vb; rwa [lvb] at this
      by_cases hn0 : n0 = 0
      · subst hn0
        simp only [if_true]
        cases h3 : takeN 1 r2 with
        | none => simp
        | some p3 =>
          obtain ⟨flag, r3⟩ := p3
          simp only []
          by_cases hf : flag = [1]
          · subst hf
            simp only [ne_eq, not_true_eq_false, if_false]
            cases h4 : Compact.read r3 with
            | none => simp
            | some p4 =>
              obtain ⟨n, r4⟩ := p4
              simp only []
              cases h5 : readMany TxIn.read n r4 with
              | none => simp
              | some p5 =>
                obtain ⟨vin, r5⟩ := p5
                have hlv := readMany_length _ _ _ _ _ h5
                obtain ⟨_, _, hvw⟩ := readMany_sound TxIn.read TxIn.ser (fun i => WFIn i ∧ i.witness = [])
                  (fun b x r hx => TxIn.read_sound hx) _ _ _ _ h5
                simp only []
                cases h6 : Compact.read r5 with
                | none => simp
                | some p6 =>
                  obtain ⟨m, r6⟩ := p6
                  simp only []
                  cases h7 : readMany TxOut.read m r6 with
                  | none => by_cases hi : idx ≥ m <;> simp [hi]
                  | some p7 =>
                    obtain ⟨vout, r7⟩ := p7
                    have hlo := readMany_length _ _ _ _ _ h7
                    simp only [hlv]
                    cases h8 : readMany witnessRead n r7 with
                    | none => by_cases hi : idx ≥ m <;> simp [hi]
                    | some p8 =>
                      obtain ⟨wits, r8⟩ := p8
                      have hlw := readMany_length _ _ _ _ _ h8
                      have hany := setWitnesses_any vin wits (by omega) (fun i hi => (hvw i hi).2)
                      simp only [hany]
                      by_cases hall : wits.all (fun w => w.isEmpty) = true
                      · by_cases hi : idx ≥ m <;> simp [hi, hall]
                      · simp only [hall]
                        cases h9 : takeN 4 r8 with
                        | none => by_cases hi : idx ≥ m <;> simp [hi, h9]
                        | some p9 =>
                          obtain ⟨lb, r9⟩ := p9
                          obtain ⟨_, llb⟩ := takeN_sound h9
                          have hlb : leN 4 (ofLe lb) = lb := by have := leN_ofLe lb; rwa [llb] at this
                          by_cases hi : idx ≥ m
                          · have : vout[idx]? = none := List.getElem?_eq_none (by omega)
                            simp [hi, this, h9]
                          · simp [hi, h9, Tx.hash, Tx.hashPreimage, hvb, hlb, hlv, hlo, setWitnesses_ser,
                              setWitnesses_length, List.append_assoc]
                            cases vout[idx]? <;> rfl
          · simp [hf]
      · simp only [hn0, if_false]
        cases h3 : readMany TxIn.read n0 r2 with
        | none => simp
        | some p3 =>
          obtain ⟨vin, r5⟩ := p3
          have hlv := readMany_length _ _ _ _ _ h3
          simp only []
          cases h4 : Compact.read r5 with
          | none => simp
          | some p4 =>
            obtain ⟨m, r6⟩ := p4
            simp only []
            cases h5 : readMany TxOut.read m r6 with
            | none => by_cases hi : idx ≥ m <;> simp [hi]
            | some p5 =>
              obtain ⟨vout, r7⟩ := p5
              have hlo := readMany_length _ _ _ _ _ h5
              simp only []
              cases h6 : takeN 4 r7 with
              | none => by_cases hi : idx ≥ m <;> simp [hi, h6]
              | some p6 =>
                obtain ⟨lb, r9⟩ := p6
                obtain ⟨_, llb⟩ := takeN_sound h6
                have hlb : leN 4 (ofLe lb) = lb := by have := leN_ofLe lb; rwa [llb] at this
                by_cases hi : idx ≥ m
                · have : vout[idx]? = none := List.getElem?_eq_none (by omega)
                  simp [hi, this, h6]
                · simp [hi, h6, Tx.hash, Tx.hashPreimage, hvb, hlb, hlv, hlo, List.append_assoc]
                  cases vout[idx]? <;> rfl
end Embit
