import EmbitModel.Model.Cost
import EmbitModel.Proofs.Base58
import Mathlib.Tactic.Ring
/-
  C17: `base58.decode` / `base58.encode` — the only super-linear parsers of the library. Cost companions in
  `Model/Cost.lean` (one step per byte of the big integer touched by `n *= 58`, `n += d`, `divmod(n, 58)`):
    decode: steps ≤ (|s| + 1)², output ≤ |s| bytes;   encode: steps ≤ 2·(|b| + 2)², output ≤ 2·|b| characters.
-/
set_option linter.unusedSimpArgs false
set_option linter.unusedVariables false
namespace Embit.Model.Cost
open Embit Embit.Digits Embit.Model.Base58

theorem toLE_len_mono {B : Nat} (hB : 2 ≤ B) : ∀ (n m : Nat), m ≤ n → (toLE B m).length ≤ (toLE B n).length := by
  intro n
  induction n using Nat.strongRecOn with
  | _ n ih =>
    intro m hm
    by_cases hm0 : m = 0
    · subst hm0; simp [toLE_zero]
    · have hn0 : n ≠ 0 := by omega
      rw [toLE_pos hB hm0, toLE_pos hB hn0]
      have hlt : n / B < n := Nat.div_lt_self (by omega) (by omega)
      have := ih (n / B) hlt (m / B) (Nat.div_le_div_right hm)
      simp; omega

theorem byteLen_eq (n : Nat) : byteLen n = (toLE 256 n).length := by
  simp [byteLen, minBytesLE_eq]

theorem byteLen_zero : byteLen 0 = 0 := by simp [byteLen_eq, toLE_zero]

theorem byteLen_mono {m n : Nat} (h : m ≤ n) : byteLen m ≤ byteLen n := by
  rw [byteLen_eq, byteLen_eq]; exact toLE_len_mono (by decide) n m h

/-- one more Base58 digit makes the integer at most one byte longer -/
theorem byteLen_step (n d : Nat) (hd : d < 58) : byteLen (n * 58 + d) ≤ byteLen n + 1 := by
  by_cases h0 : n * 58 + d = 0
  · rw [h0, byteLen_zero]; omega
  · rw [byteLen_eq (n * 58 + d), toLE_pos (by decide) h0]
    have : (n * 58 + d) / 256 ≤ n := by omega
    have := byteLen_mono this
    rw [byteLen_eq, byteLen_eq] at this
    simp [byteLen_eq]; omega

theorem accumulateSteps_le : ∀ (s : List Char) (n : Nat),
    accumulateSteps n s ≤ s.length * (byteLen n + s.length) := by
  intro s
  induction s with
  | nil => intro n; simp [accumulateSteps]
  | cons c cs ih =>
    intro n
    simp only [accumulateSteps]
    cases hd : digitVal c with
    | none =>
      simp only [List.length_cons]
      have : 1 * (byteLen n + (cs.length + 1)) ≤ (cs.length + 1) * (byteLen n + (cs.length + 1)) :=
        Nat.mul_le_mul_right _ (by omega)
      omega
    | some d =>
      have hlt := (digitVal_some hd).1
      have h1 := ih (n * 58 + d)
      have h2 := byteLen_step n d hlt
      have h3 : cs.length * (byteLen (n * 58 + d) + cs.length) ≤ cs.length * (byteLen n + (cs.length + 1)) :=
        Nat.mul_le_mul_left _ (by omega)
      simp only [List.length_cons]
      have : (cs.length + 1) * (byteLen n + (cs.length + 1))
          = cs.length * (byteLen n + (cs.length + 1)) + (byteLen n + (cs.length + 1)) := by
        rw [Nat.add_mul]; simp
      omega

theorem accumulate_byteLen : ∀ (s : List Char) (n m : Nat), accumulate n s = some m →
    byteLen m ≤ byteLen n + s.length := by
  intro s
  induction s with
  | nil => intro n m h; simp [accumulate] at h; subst h; simp
  | cons c cs ih =>
    intro n m h
    simp only [accumulate] at h
    cases hd : digitVal c with
    | none => simp [hd] at h
    | some d =>
      simp [hd] at h
      have := ih _ _ h
      have := byteLen_step n d (digitVal_some hd).1
      simp; omega

/-- **`base58.decode`: at most `(|s| + 1)²` steps** (the big-integer loop is quadratic) -/
theorem b58DecodeSteps_le (s : List Char) : b58DecodeSteps s ≤ (s.length + 1) * (s.length + 1) := by
  unfold b58DecodeSteps
  split
  · have : 1 ≤ (s.length + 1) * (s.length + 1) := Nat.mul_pos (by omega) (by omega)
    omega
  · have h1 := accumulateSteps_le s 0
    rw [byteLen_zero] at h1
    have e : (s.length + 1) * (s.length + 1) = s.length * s.length + 2 * s.length + 1 := by
      rw [Nat.add_mul, Nat.mul_add]; omega
    cases ha : accumulate 0 s with
    | none => simp at h1 ⊢; omega
    | some n =>
      have h2 := accumulate_byteLen s 0 n ha
      rw [byteLen_zero] at h2
      simp at h1 h2 ⊢
      omega

/-- Base58 digits are at least as many as bytes -/
theorem byteLen_le_digits (n : Nat) : byteLen n ≤ (toLE 58 n).length := by
  rw [byteLen_eq]
  induction n using Nat.strongRecOn with
  | _ n ih =>
    by_cases h0 : n = 0
    · subst h0; simp [toLE_zero]
    · rw [toLE_pos (by decide) h0, toLE_pos (by decide) h0]
      have hlt : n / 58 < n := Nat.div_lt_self (by omega) (by omega)
      have h1 := ih (n / 58) hlt
      have h2 := toLE_len_mono (B := 256) (by decide) (n / 58) (n / 256) (by
        apply Nat.div_le_div_left (by omega) (by omega))
      simp; omega

/-- … and at most twice as many (58² > 256) -/
theorem digits_le_two_byteLen (n : Nat) : (toLE 58 n).length ≤ 2 * byteLen n := by
  rw [byteLen_eq]
  induction n using Nat.strongRecOn with
  | _ n ih =>
    by_cases h0 : n = 0
    · subst h0; simp [toLE_zero]
    · rw [toLE_pos (by decide) h0, toLE_pos (B := 256) (by decide) h0]
      by_cases h1 : n / 58 = 0
      · rw [h1, toLE_zero]; simp; omega
      · rw [toLE_pos (by decide) h1]
        have hlt : n / 58 / 58 < n := by
          have a : n / 58 < n := Nat.div_lt_self (by omega) (by omega)
          have b : n / 58 / 58 ≤ n / 58 := Nat.div_le_self _ _
          omega
        have h2 := ih (n / 58 / 58) hlt
        have h3 := toLE_len_mono (B := 256) (by decide) (n / 256) (n / 58 / 58) (by
          rw [Nat.div_div_eq_div_mul]
          apply Nat.div_le_div_left (by omega) (by omega))
        simp; omega

/-- **`base58.decode`: the result has at most as many bytes as the text has characters** -/
theorem b58Decode_length (s : List Char) (b : Bytes) (h : decode s = some b) : b.length ≤ s.length := by
  have he := encode_decode s b h
  obtain ⟨r, hb, hh⟩ := bytes_decomp b
  generalize leadingZeros b = z at hb
  subst hb
  rw [encode_normal z r hh] at he
  have hr : r.length = byteLen (ofBe r) := by
    have := congrArg List.length (minBytes_ofBe r hh)
    simp at this
    simp [byteLen, this]
  have := byteLen_le_digits (ofBe r)
  rw [← he]
  simp
  omega

theorem loopChars_length (n : Nat) : (loopChars n).length = (toLE 58 n).length := by
  simp [loopChars_eq]

theorem loopSteps_le (n : Nat) : loopSteps n ≤ (toLE 58 n).length * (byteLen n + 1) := by
  induction n using Nat.strongRecOn with
  | _ n ih =>
    by_cases h0 : n = 0
    · subst h0; rw [loopSteps]; simp
    · rw [loopSteps, dif_neg h0, toLE_pos (by decide) h0]
      have hlt : n / 58 < n := Nat.div_lt_self (by omega) (by omega)
      have h1 := ih (n / 58) hlt
      have h2 : byteLen (n / 58) ≤ byteLen n := byteLen_mono (Nat.div_le_self _ _)
      have h3 : (toLE 58 (n / 58)).length * (byteLen (n / 58) + 1) ≤ (toLE 58 (n / 58)).length * (byteLen n + 1) :=
        Nat.mul_le_mul_left _ (by omega)
      simp only [List.length_cons]
      rw [Nat.add_mul]
      omega

theorem byteLen_ofBe (b : Bytes) : byteLen (ofBe b) ≤ b.length := by
  obtain ⟨r, hb, hh⟩ := bytes_decomp b
  generalize leadingZeros b = z at hb
  subst hb
  rw [ofBe_zeros_append]
  have := congrArg List.length (minBytes_ofBe r hh)
  simp at this
  simp [byteLen, this]

/-- **`base58.encode`: at most `2·(|b| + 2)²` steps** -/
theorem b58EncodeSteps_le (b : Bytes) : b58EncodeSteps b ≤ 2 * ((b.length + 2) * (b.length + 2)) := by
  unfold b58EncodeSteps
  have h1 := loopSteps_le (ofBe b)
  have h2 := digits_le_two_byteLen (ofBe b)
  have h3 := byteLen_ofBe b
  rw [loopChars_length]
  have h4 : (toLE 58 (ofBe b)).length * (byteLen (ofBe b) + 1) ≤ (2 * b.length) * (b.length + 1) :=
    Nat.mul_le_mul (by omega) (by omega)
  have e1 : (2 * b.length) * (b.length + 1) = 2 * (b.length * b.length) + 2 * b.length := by ring
  have e2 : 2 * ((b.length + 2) * (b.length + 2)) = 2 * (b.length * b.length) + 8 * b.length + 8 := by ring
  omega

/-- **`base58.encode`: the text has at most twice as many characters as there are bytes** -/
theorem b58Encode_length (b : Bytes) : (encode b).length ≤ 2 * b.length := by
  obtain ⟨r, hb, hh⟩ := bytes_decomp b
  generalize leadingZeros b = z at hb
  subst hb
  rw [encode_normal z r hh]
  have h2 := digits_le_two_byteLen (ofBe r)
  have h3 := byteLen_ofBe r
  simp
  omega

end Embit.Model.Cost
