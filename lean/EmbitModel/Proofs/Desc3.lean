import EmbitModel.Proofs.CostDesc
import EmbitModel.Model.Desc3
/-
  The three-valued parsers of `Model/Desc3.lean`:
    1. erasure — forgetting the difference between `reject` and `outOfFuel` gives back the parsers of
       `Model/Descriptor.lean` (no hypothesis);
    2. `outOfFuel` never comes out when the fuel exceeds the text that is left (`NoEmptyKey ops`): a `none` of the
       original parsers at such a fuel is a rejection, not an exhausted fuel — a termination statement that a parser
       spinning until the fuel is gone would not satisfy.
-/
set_option linter.unusedSimpArgs false
set_option linter.unusedVariables false
namespace Embit.Model.Cost
open Embit Embit.Miniscript Embit.Model.Descriptor

variable {K : Type}

/-! ### `Res` -/

@[simp] theorem toOption_ofOption {α : Type} (o : Option α) : (Res.ofOption o).toOption = o := by
  cases o <;> rfl

@[simp] theorem isOutOfFuel_ofOption {α : Type} (o : Option α) : (Res.ofOption o).isOutOfFuel = false := by
  cases o <;> rfl

theorem ofOption_ok {α : Type} {o : Option α} {x : α} (h : Res.ofOption o = .ok x) : o = some x := by
  cases o with
  | none => simp [Res.ofOption] at h
  | some y => simp [Res.ofOption] at h; rw [h]

theorem toOption_of_ok {α : Type} {r : Res α} {x : α} (h : r = .ok x) : r.toOption = some x := by
  subst h; rfl

theorem toOption_ite {α : Type} (c : Prop) [Decidable c] (x : α) :
    (if c then Res.ok x else Res.reject).toOption = if c then some x else none := by
  split <;> rfl

theorem eq_outOfFuel_of_isOutOfFuel {α : Type} {r : Res α} (h : r.isOutOfFuel = true) : r = .outOfFuel := by
  cases r with
  | ok x => simp [Res.isOutOfFuel] at h
  | reject => simp [Res.isOutOfFuel] at h
  | outOfFuel => rfl

/-- no value and not out of fuel: a rejection -/
theorem reject_of_none {α : Type} {r : Res α} (h1 : r.toOption = none) (h2 : r.isOutOfFuel = false) :
    r = .reject := by
  cases r with
  | ok x => simp [Res.toOption] at h1
  | reject => rfl
  | outOfFuel => simp [Res.isOutOfFuel] at h2

/-! ### 1. erasure -/

theorem readMore3_erase {α : Type} (p3 : Stream → Res (α × Stream)) (p : Stream → Option (α × Stream))
    (h : ∀ t, (p3 t).toOption = p t) :
    ∀ (n : Nat) (s : Stream), (readMore3 p3 n s).toOption = readMore p n s := by
  intro n
  induction n with
  | zero => intro s; rfl
  | succ n ih =>
    intro s
    simp only [readMore3, readMore]
    generalize hr : s.read1 = q
    obtain ⟨first, s1⟩ := q
    cases first with
    | none => rfl
    | some c =>
      by_cases h1 : c = ','
      · subst h1
        simp only []
        rw [← h s1]
        cases hp : p3 s1 with
        | outOfFuel => rfl
        | reject => rfl
        | ok r =>
          obtain ⟨x, s2⟩ := r
          simp only [Res.toOption]
          rw [← ih s2]
          cases readMore3 p3 n s2 with
          | outOfFuel => rfl
          | reject => rfl
          | ok r2 => rfl
      · by_cases h2 : c = ')'
        · subst h2; rfl
        · split <;> split <;> simp_all [Res.toOption]

theorem readMsBody3_erase (ops : KeyOps K) (tap : Bool) (sub3 : Stream → Res (DMs K × Stream))
    (sub : Stream → Option (DMs K × Stream)) (h : ∀ t, (sub3 t).toOption = sub t) (fuel : Nat) (op : Str)
    (s : Stream) : (readMsBody3 ops tap sub3 fuel op s).toOption = readMsBody ops tap sub fuel op s := by
  unfold readMsBody3 readMsBody
  cases hk : keyFragOf op with
  | some f =>
    simp only []
    cases readKey ops tap (f == .pk_h || f == .pkh) s with
    | none => rfl
    | some r => simp
  | none =>
    simp only []
    cases ht : timeFragOf op with
    | some f =>
      simp only []
      cases readNumber s with
      | none => rfl
      | some r => simp
    | none =>
      simp only []
      cases hh : hashFragOf op with
      | some f =>
        simp only []
        cases readRaw (hashFragLen f) s with
        | none => rfl
        | some r => simp
      | none =>
        simp only []
        by_cases handor : op = ['a', 'n', 'd', 'o', 'r']
        · simp only [handor, if_true]
          rw [← h s]
          cases e1 : sub3 s with
          | outOfFuel => rfl
          | reject => rfl
          | ok r1 =>
            obtain ⟨x, t1⟩ := r1
            simp only [Res.toOption]
            cases c1 : expectChar ',' t1 with
            | none => rfl
            | some t2 =>
              simp only []
              rw [← h t2]
              cases e2 : sub3 t2 with
              | outOfFuel => rfl
              | reject => rfl
              | ok r2 =>
                obtain ⟨y, t3⟩ := r2
                simp only [Res.toOption]
                cases c2 : expectChar ',' t3 with
                | none => rfl
                | some t4 =>
                  simp only []
                  rw [← h t4]
                  cases e3 : sub3 t4 with
                  | outOfFuel => rfl
                  | reject => rfl
                  | ok r3 => exact toOption_ofOption _
        · simp only [handor, if_false]
          cases hb : binFragOf op with
          | some f =>
            simp only []
            rw [← h s]
            cases e1 : sub3 s with
            | outOfFuel => rfl
            | reject => rfl
            | ok r1 =>
              obtain ⟨x, t1⟩ := r1
              simp only [Res.toOption]
              cases c1 : expectChar ',' t1 with
              | none => rfl
              | some t2 =>
                simp only []
                rw [← h t2]
                cases e2 : sub3 t2 with
                | outOfFuel => rfl
                | reject => rfl
                | ok r2 => exact toOption_ofOption _
          | none =>
            simp only []
            by_cases hthresh : op = ['t', 'h', 'r', 'e', 's', 'h']
            · simp only [hthresh, if_true]
              cases hr : readNumber s with
              | none => rfl
              | some r =>
                obtain ⟨k, s2⟩ := r
                simp only []
                rw [← readMore3_erase sub3 sub h fuel s2]
                cases readMore3 sub3 fuel s2 with
                | outOfFuel => rfl
                | reject => rfl
                | ok r2 => rfl
            · simp only [hthresh, if_false]
              cases hmf : multiFragOf op with
              | some f =>
                simp only []
                cases hr : readNumber s with
                | none => rfl
                | some r =>
                  obtain ⟨k, s2⟩ := r
                  simp only []
                  rw [← readMore3_erase (fun t => Res.ofOption (readKey ops tap false t)) (readKey ops tap false)
                    (fun t => toOption_ofOption _) fuel s2]
                  cases readMore3 (fun t => Res.ofOption (readKey ops tap false t)) fuel s2 with
                  | outOfFuel => rfl
                  | reject => rfl
                  | ok r2 =>
                    obtain ⟨keys, s3⟩ := r2
                    simp only [Res.toOption]
                    exact toOption_ite _ _
              | none => rfl

/-- **erasure, `Miniscript.read_from`** -/
theorem readMs3_erase (ops : KeyOps K) (tap : Bool) :
    ∀ (fuel : Nat) (s : Stream), (readMs3 ops tap fuel s).toOption = readMs ops tap fuel s := by
  intro fuel
  induction fuel with
  | zero => intro s; rfl
  | succ fuel ih =>
    intro s
    simp only [readMs3, readMs]
    generalize hq : readUntil ['('] s = q1
    obtain ⟨opw, ch, s1⟩ := q1
    simp only []
    generalize (if opw.contains ':' = true then
        match splitOn ':' opw with
        | [w, o] => some (w, o)
        | _ => none
      else some ([], opw)) = sp
    cases sp with
    | none => rfl
    | some wo =>
      obtain ⟨w, o⟩ := wo
      simp only []
      by_cases hc : ch = some '('
      · subst hc
        simp only [ne_eq, not_true_eq_false, if_false]
        rw [← readMsBody3_erase ops tap (readMs3 ops tap fuel) (readMs ops tap fuel) ih fuel o s1]
        cases readMsBody3 ops tap (readMs3 ops tap fuel) fuel o s1 with
        | outOfFuel => rfl
        | reject => rfl
        | ok r => exact toOption_ofOption _
      · simp [hc, Res.toOption]

/-- **erasure, `TapTree.read_from`** -/
theorem readTapTree3_erase (ops : KeyOps K) :
    ∀ (fuel : Nat) (s : Stream), (readTapTree3 ops fuel s).toOption = readTapTree ops fuel s := by
  intro fuel
  induction fuel with
  | zero => intro s; rfl
  | succ fuel ih =>
    intro s
    simp only [readTapTree3, readTapTree]
    generalize hr : s.read1 = q
    obtain ⟨first, s1⟩ := q
    cases first with
    | none => rfl
    | some c =>
      simp only []
      by_cases hc : c = '{'
      · subst hc
        simp only [if_true]
        rw [← ih s1]
        cases hl : readTapTree3 ops fuel s1 with
        | outOfFuel => rfl
        | reject => rfl
        | ok r =>
          obtain ⟨left, s2⟩ := r
          simp only [Res.toOption]
          generalize hr2 : s2.read1 = q2
          obtain ⟨c2, s3⟩ := q2
          cases c2 with
          | none => rfl
          | some c2 =>
            by_cases h1 : c2 = '}'
            · subst h1; rfl
            · by_cases h2 : c2 = ','
              · subst h2
                simp only []
                rw [← ih s3]
                cases readTapTree3 ops fuel s3 with
                | outOfFuel => rfl
                | reject => rfl
                | ok r2 => exact toOption_ofOption _
              · split <;> split <;> simp_all [Res.toOption]
      · simp only [hc, if_false]
        cases s1.unread with
        | none => rfl
        | some s2 =>
          simp only []
          rw [← readMs3_erase ops true (fuel + 1) s2]
          cases readMs3 ops true (fuel + 1) s2 with
          | outOfFuel => rfl
          | reject => rfl
          | ok r =>
            obtain ⟨ms, s3⟩ := r
            simp only [Res.toOption]
            exact toOption_ite _ _

/-- **erasure, `Descriptor.read_from`** -/
theorem readFrom3_erase (ops : KeyOps K) (fuel : Nat) (s : Stream) :
    (Desc.readFrom3 ops fuel s).toOption = Desc.readFrom ops fuel s := by
  unfold Desc.readFrom3 Desc.readFrom
  cases hh : readHead s with
  | none => rfl
  | some r =>
    obtain ⟨hd, s1⟩ := r
    cases hd with
    | tr =>
      simp only []
      cases hk : readKey ops true false s1 with
      | none => rfl
      | some rk =>
        obtain ⟨key, s2⟩ := rk
        simp only []
        generalize hr : s2.read1 = q
        obtain ⟨c, s3⟩ := q
        simp only []
        by_cases hc : c = some ','
        · subst hc
          simp only [if_true]
          rw [← readTapTree3_erase ops fuel s3]
          cases readTapTree3 ops fuel s3 with
          | outOfFuel => rfl
          | reject => rfl
          | ok r2 => exact toOption_ofOption _
        · simp only [hc, if_false]
          cases s3.unread with
          | none => rfl
          | some s4 => exact toOption_ofOption _
    | shwsh =>
      simp only []
      rw [← readMs3_erase ops false fuel s1]
      cases readMs3 ops false fuel s1 with
      | outOfFuel => rfl
      | reject => rfl
      | ok r2 =>
        obtain ⟨ms, s2⟩ := r2
        simp only [Res.toOption]
        cases expectClose 2 s2 with
        | none => rfl
        | some s3 => simp only []; exact toOption_ite _ _
    | wsh =>
      simp only []
      rw [← readMs3_erase ops false fuel s1]
      cases readMs3 ops false fuel s1 with
      | outOfFuel => rfl
      | reject => rfl
      | ok r2 =>
        obtain ⟨ms, s2⟩ := r2
        simp only [Res.toOption]
        cases expectClose 1 s2 with
        | none => rfl
        | some s3 => simp only []; exact toOption_ite _ _
    | sh =>
      simp only []
      rw [← readMs3_erase ops false fuel s1]
      cases readMs3 ops false fuel s1 with
      | outOfFuel => rfl
      | reject => rfl
      | ok r2 =>
        obtain ⟨ms, s2⟩ := r2
        simp only [Res.toOption]
        cases expectClose 1 s2 with
        | none => rfl
        | some s3 => simp only []; exact toOption_ite _ _
    | shwpkh =>
      simp only []
      cases readKey ops false false s1 with
      | none => rfl
      | some rk => simp
    | wpkh =>
      simp only []
      cases readKey ops false false s1 with
      | none => rfl
      | some rk => simp
    | pkh =>
      simp only []
      cases readKey ops false false s1 with
      | none => rfl
      | some rk => simp

/-- **erasure, `Descriptor.from_string`** -/
theorem parse3_erase (ops : KeyOps K) (text : Str) : (Desc.parse3 ops text).toOption = Desc.parse ops text := by
  unfold Desc.parse3 Desc.parse
  rw [← readFrom3_erase ops (text.length + 1) (Stream.ofStr text)]
  cases Desc.readFrom3 ops (text.length + 1) (Stream.ofStr text) with
  | outOfFuel => rfl
  | reject => rfl
  | ok r =>
    obtain ⟨d, s⟩ := r
    simp only [Res.toOption]
    cases s.rest with
    | nil => rfl
    | cons c r => simp only []; exact toOption_ite _ _

/-! ### 2. the fuel is never used up -/

theorem readMs3_ok (ops : KeyOps K) (tap : Bool) (fuel : Nat) {t t' : Stream} {x : DMs K}
    (h : readMs3 ops tap fuel t = .ok (x, t')) : readMs ops tap fuel t = some (x, t') := by
  rw [← readMs3_erase]; exact toOption_of_ok h

theorem readTapTree3_ok (ops : KeyOps K) (fuel : Nat) {t t' : Stream} {x : TapTree K}
    (h : readTapTree3 ops fuel t = .ok (x, t')) : readTapTree ops fuel t = some (x, t') := by
  rw [← readTapTree3_erase]; exact toOption_of_ok h

/-- the argument loop does not run out of fuel when there is more fuel than text, provided the item reader does not
    on shorter texts and never leaves more text than it found -/
theorem readMore3_fuel {α : Type} (p3 : Stream → Res (α × Stream))
    (hmono : ∀ t x t', p3 t = .ok (x, t') → R t' ≤ R t) :
    ∀ (n : Nat) (s : Stream), R s < n → (∀ t, R t < R s → (p3 t).isOutOfFuel = false) →
      (readMore3 p3 n s).isOutOfFuel = false := by
  intro n
  induction n with
  | zero => intro s h1; omega
  | succ n ih =>
    intro s h1 hsub
    simp only [readMore3]
    generalize hr : s.read1 = q
    obtain ⟨first, s1⟩ := q
    cases first with
    | none => rfl
    | some c =>
      have e1 := read1_R hr
      split
      · rename_i s1' heq
        simp at heq
        obtain ⟨rfl, rfl⟩ := heq
        have hs := hsub s1 (by omega)
        cases hp : p3 s1 with
        | outOfFuel => rw [hp] at hs; exact hs
        | reject => rfl
        | ok r =>
          obtain ⟨x, s2⟩ := r
          have := hmono _ _ _ hp
          simp only []
          have i := ih s2 (by omega) (fun t ht => hsub t (by omega))
          cases hm : readMore3 p3 n s2 with
          | outOfFuel => rw [hm] at i; exact i
          | reject => rfl
          | ok r2 => rfl
      · rfl
      · rfl

/-- `read_arguments` does not run out of fuel: more fuel than text left, a sub-expression reader that strictly
    consumes and does not run out of fuel on texts not longer than what is left -/
theorem readMsBody3_fuel (ops : KeyOps K) (hW : NoEmptyKey ops) (tap : Bool) (sub3 : Stream → Res (DMs K × Stream))
    (hmono : ∀ t x t', sub3 t = .ok (x, t') → R t' + 1 ≤ R t) (fuel : Nat) (op : Str) (s : Stream)
    (h1 : R s < fuel) (hsub : ∀ t, R t ≤ R s → (sub3 t).isOutOfFuel = false) :
    (readMsBody3 ops tap sub3 fuel op s).isOutOfFuel = false := by
  unfold readMsBody3
  cases hk : keyFragOf op with
  | some f =>
    simp only []
    cases readKey ops tap (f == .pk_h || f == .pkh) s with
    | none => rfl
    | some r => exact isOutOfFuel_ofOption _
  | none =>
    simp only []
    cases ht : timeFragOf op with
    | some f =>
      simp only []
      cases readNumber s with
      | none => rfl
      | some r => exact isOutOfFuel_ofOption _
    | none =>
      simp only []
      cases hh : hashFragOf op with
      | some f =>
        simp only []
        cases readRaw (hashFragLen f) s with
        | none => rfl
        | some r => exact isOutOfFuel_ofOption _
      | none =>
        simp only []
        by_cases handor : op = ['a', 'n', 'd', 'o', 'r']
        · simp only [handor, if_true]
          have o1 := hsub s (by omega)
          cases e1 : sub3 s with
          | outOfFuel => rw [e1] at o1; exact o1
          | reject => rfl
          | ok r1 =>
            obtain ⟨x, t1⟩ := r1
            have m1 := hmono _ _ _ e1
            simp only []
            cases c1 : expectChar ',' t1 with
            | none => rfl
            | some t2 =>
              have := expectChar_R c1
              simp only []
              have o2 := hsub t2 (by omega)
              cases e2 : sub3 t2 with
              | outOfFuel => rw [e2] at o2; exact o2
              | reject => rfl
              | ok r2 =>
                obtain ⟨y, t3⟩ := r2
                have m2 := hmono _ _ _ e2
                simp only []
                cases c2 : expectChar ',' t3 with
                | none => rfl
                | some t4 =>
                  have := expectChar_R c2
                  simp only []
                  have o3 := hsub t4 (by omega)
                  cases e3 : sub3 t4 with
                  | outOfFuel => rw [e3] at o3; exact o3
                  | reject => rfl
                  | ok r3 => exact isOutOfFuel_ofOption _
        · simp only [handor, if_false]
          cases hb : binFragOf op with
          | some f =>
            simp only []
            have o1 := hsub s (by omega)
            cases e1 : sub3 s with
            | outOfFuel => rw [e1] at o1; exact o1
            | reject => rfl
            | ok r1 =>
              obtain ⟨x, t1⟩ := r1
              have m1 := hmono _ _ _ e1
              simp only []
              cases c1 : expectChar ',' t1 with
              | none => rfl
              | some t2 =>
                have := expectChar_R c1
                simp only []
                have o2 := hsub t2 (by omega)
                cases e2 : sub3 t2 with
                | outOfFuel => rw [e2] at o2; exact o2
                | reject => rfl
                | ok r2 => exact isOutOfFuel_ofOption _
          | none =>
            simp only []
            by_cases hthresh : op = ['t', 'h', 'r', 'e', 's', 'h']
            · simp only [hthresh, if_true]
              cases hr : readNumber s with
              | none => rfl
              | some r =>
                obtain ⟨k, s2⟩ := r
                have a1 := ((readNumber_cost s).2 _ _ hr).1
                simp only []
                have i := readMore3_fuel sub3 (fun t x t' h => by have := hmono t x t' h; omega) fuel s2
                  (by omega) (fun t ht => hsub t (by omega))
                cases hm : readMore3 sub3 fuel s2 with
                | outOfFuel => rw [hm] at i; exact i
                | reject => rfl
                | ok r2 => rfl
            · simp only [hthresh, if_false]
              cases hmf : multiFragOf op with
              | some f =>
                simp only []
                cases hr : readNumber s with
                | none => rfl
                | some r =>
                  obtain ⟨k, s2⟩ := r
                  have a1 := ((readNumber_cost s).2 _ _ hr).1
                  simp only []
                  have i := readMore3_fuel (fun t => Res.ofOption (readKey ops tap false t))
                    (fun t x t' h => readKey_mono ops hW tap false t x t' (ofOption_ok h)) fuel s2
                    (by omega) (fun t ht => isOutOfFuel_ofOption _)
                  cases hm : readMore3 (fun t => Res.ofOption (readKey ops tap false t)) fuel s2 with
                  | outOfFuel => rw [hm] at i; exact i
                  | reject => rfl
                  | ok r2 =>
                    obtain ⟨keys, s3⟩ := r2
                    simp only []
                    split <;> rfl
              | none => rfl

/-- **`Miniscript.read_from` never runs out of fuel** when the fuel exceeds the number of characters left -/
theorem readMs3_fuel (ops : KeyOps K) (hW : NoEmptyKey ops) (tap : Bool) :
    ∀ (fuel : Nat) (s : Stream), R s < fuel → (readMs3 ops tap fuel s).isOutOfFuel = false := by
  intro fuel
  induction fuel with
  | zero => intro s h1; omega
  | succ fuel ih =>
    intro s h1
    simp only [readMs3]
    generalize hq : readUntil ['('] s = q1
    obtain ⟨opw, ch, s1⟩ := q1
    have e1 := readUntil_R hq
    simp only []
    split
    · rfl
    · rename_i w o hsp
      by_cases hc : ch = some '('
      · subst hc
        simp only [ne_eq, not_true_eq_false, if_false]
        simp only [seekIf] at e1
        simp at e1
        have i := readMsBody3_fuel ops hW tap (readMs3 ops tap fuel)
          (fun t x t' h => readMs_mono ops hW tap fuel t x t' (readMs3_ok ops tap fuel h)) fuel o s1
          (by omega) (fun t ht => ih t (by omega))
        cases hm : readMsBody3 ops tap (readMs3 ops tap fuel) fuel o s1 with
        | outOfFuel => rw [hm] at i; exact i
        | reject => rfl
        | ok r => exact isOutOfFuel_ofOption _
      · simp [hc, Res.isOutOfFuel]

/-- **`TapTree.read_from` never runs out of fuel** when the fuel exceeds the number of characters left -/
theorem readTapTree3_fuel (ops : KeyOps K) (hW : NoEmptyKey ops) :
    ∀ (fuel : Nat) (s : Stream), R s < fuel → (readTapTree3 ops fuel s).isOutOfFuel = false := by
  intro fuel
  induction fuel with
  | zero => intro s h1; omega
  | succ fuel ih =>
    intro s h1
    simp only [readTapTree3]
    generalize hr : s.read1 = q
    obtain ⟨first, s1⟩ := q
    cases first with
    | none => rfl
    | some c =>
      have e1 := read1_R hr
      simp only []
      by_cases hc : c = '{'
      · subst hc
        simp only [if_true]
        have i1 := ih s1 (by omega)
        cases hl : readTapTree3 ops fuel s1 with
        | outOfFuel => rw [hl] at i1; exact i1
        | reject => rfl
        | ok r =>
          obtain ⟨left, s2⟩ := r
          have m1 := readTapTree_mono ops hW _ _ _ _ (readTapTree3_ok ops fuel hl)
          simp only []
          generalize hr2 : s2.read1 = q2
          obtain ⟨c2, s3⟩ := q2
          cases c2 with
          | none => rfl
          | some c2 =>
            have e2 := read1_R hr2
            split
            · rfl
            · rename_i s3' heq
              simp at heq
              obtain ⟨rfl, rfl⟩ := heq
              have i2 := ih s3 (by omega)
              cases hl2 : readTapTree3 ops fuel s3 with
              | outOfFuel => rw [hl2] at i2; exact i2
              | reject => rfl
              | ok r2 => exact isOutOfFuel_ofOption _
            · rfl
      · simp only [hc, if_false]
        have hu := unread_read1 hr
        simp only [hu]
        have i := readMs3_fuel ops hW true (fuel + 1) s (by omega)
        cases hm : readMs3 ops true (fuel + 1) s with
        | outOfFuel => rw [hm] at i; exact i
        | reject => rfl
        | ok r =>
          obtain ⟨ms, s3⟩ := r
          simp only []
          split <;> rfl

/-- **`Descriptor.read_from` never runs out of fuel** (from the start of a text, fuel above its length) -/
theorem readFrom3_fuel (ops : KeyOps K) (hW : NoEmptyKey ops) (fuel : Nat) (s : Stream) (hb : s.back = [])
    (h1 : R s < fuel) : (Desc.readFrom3 ops fuel s).isOutOfFuel = false := by
  unfold Desc.readFrom3
  cases hh : readHead s with
  | none => rfl
  | some r =>
    obtain ⟨hd, s1⟩ := r
    have e0 := readHead_R0 hh hb
    cases hd with
    | tr =>
      simp only []
      cases hk : readKey ops true false s1 with
      | none => rfl
      | some rk =>
        obtain ⟨key, s2⟩ := rk
        have a1 := readKey_mono ops hW _ _ _ _ _ hk
        simp only []
        generalize hr : s2.read1 = q
        obtain ⟨c, s3⟩ := q
        simp only []
        by_cases hc : c = some ','
        · subst hc
          have e1 := read1_R hr
          simp only [if_true]
          have i := readTapTree3_fuel ops hW fuel s3 (by omega)
          cases hm : readTapTree3 ops fuel s3 with
          | outOfFuel => rw [hm] at i; exact i
          | reject => rfl
          | ok r2 => exact isOutOfFuel_ofOption _
        · simp only [hc, if_false]
          cases s3.unread with
          | none => rfl
          | some s4 => exact isOutOfFuel_ofOption _
    | shwsh =>
      simp only []
      have i := readMs3_fuel ops hW false fuel s1 (by omega)
      cases hm : readMs3 ops false fuel s1 with
      | outOfFuel => rw [hm] at i; exact i
      | reject => rfl
      | ok r2 =>
        obtain ⟨ms, s2⟩ := r2
        simp only []
        cases expectClose 2 s2 with
        | none => rfl
        | some s3 => simp only []; split <;> rfl
    | wsh =>
      simp only []
      have i := readMs3_fuel ops hW false fuel s1 (by omega)
      cases hm : readMs3 ops false fuel s1 with
      | outOfFuel => rw [hm] at i; exact i
      | reject => rfl
      | ok r2 =>
        obtain ⟨ms, s2⟩ := r2
        simp only []
        cases expectClose 1 s2 with
        | none => rfl
        | some s3 => simp only []; split <;> rfl
    | sh =>
      simp only []
      have i := readMs3_fuel ops hW false fuel s1 (by omega)
      cases hm : readMs3 ops false fuel s1 with
      | outOfFuel => rw [hm] at i; exact i
      | reject => rfl
      | ok r2 =>
        obtain ⟨ms, s2⟩ := r2
        simp only []
        cases expectClose 1 s2 with
        | none => rfl
        | some s3 => simp only []; split <;> rfl
    | shwpkh =>
      simp only []
      cases readKey ops false false s1 with
      | none => rfl
      | some rk => exact isOutOfFuel_ofOption _
    | wpkh =>
      simp only []
      cases readKey ops false false s1 with
      | none => rfl
      | some rk => exact isOutOfFuel_ofOption _
    | pkh =>
      simp only []
      cases readKey ops false false s1 with
      | none => rfl
      | some rk => exact isOutOfFuel_ofOption _

/-- **`Descriptor.from_string` never runs out of fuel**: the model's fuel `|text| + 1` is not used up on any text -/
theorem parse3_fuel (ops : KeyOps K) (hW : NoEmptyKey ops) (text : Str) :
    (Desc.parse3 ops text).isOutOfFuel = false := by
  unfold Desc.parse3
  have i := readFrom3_fuel ops hW (text.length + 1) (Stream.ofStr text) rfl (Nat.lt_succ_self _)
  cases hm : Desc.readFrom3 ops (text.length + 1) (Stream.ofStr text) with
  | outOfFuel => rw [hm] at i; exact i
  | reject => rfl
  | ok r =>
    obtain ⟨d, s⟩ := r
    simp only []
    cases s.rest with
    | nil => rfl
    | cons c r => simp only []; split <;> rfl

/-- a `none` of `Descriptor.from_string` is a rejection, never an exhausted fuel -/
theorem parse3_reject_of_none (ops : KeyOps K) (hW : NoEmptyKey ops) (text : Str)
    (h : Desc.parse ops text = none) : Desc.parse3 ops text = .reject :=
  reject_of_none (by rw [parse3_erase]; exact h) (parse3_fuel ops hW text)

end Embit.Model.Cost
