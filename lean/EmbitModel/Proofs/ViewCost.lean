import EmbitModel.Model.ViewCost
import EmbitModel.Proofs.CostBin
/-
  Iteration and step bounds of the loop combinator of `Model/ViewCost.lean`, and the progress facts of the loop bodies.
-/
set_option linter.unusedSimpArgs false
set_option linter.unusedVariables false
namespace Embit.Model.ViewCost
open Embit Embit.Model

variable {σ α : Type}

/-! ### the combinator -/

theorem loop_iters_le (body : σ → Nat → Out σ α × Nat) : ∀ (n : Nat) (s : σ) (pos : Nat),
    (loop body n s pos).iters ≤ n := by
  intro n
  induction n with
  | zero => intro s pos; simp [loop]
  | succ n ih =>
    intro s pos
    unfold loop
    split
    · rename_i s' p' c h; have := ih s' p'; simp only; omega
    · simp only; omega
    · simp only; omega

/-- a loop that stops because its counter (fuel) is used up did exactly that many iterations -/
theorem loop_exhausted (body : σ → Nat → Out σ α × Nat) : ∀ (n : Nat) (s : σ) (pos : Nat) (s' : σ) (p' : Nat),
    (loop body n s pos).out = .cont s' p' → (loop body n s pos).iters = n := by
  intro n
  induction n with
  | zero => intro s pos s' p' _; simp [loop]
  | succ n ih =>
    intro s pos s' p'
    unfold loop
    split
    · rename_i s1 p1 c h; intro ho; have := ih s1 p1 s' p' ho; simp only; omega
    · intro ho; simp at ho
    · intro ho; simp at ho

/-- stream calls ≤ (K+1) · iterations when a body makes at most K calls -/
theorem loop_steps_le (body : σ → Nat → Out σ α × Nat) (K : Nat) (hK : ∀ s p, (body s p).2 ≤ K) :
    ∀ (n : Nat) (s : σ) (pos : Nat), (loop body n s pos).steps ≤ (K + 1) * (loop body n s pos).iters := by
  intro n
  induction n with
  | zero => intro s pos; simp [loop]
  | succ n ih =>
    intro s pos
    have hk := hK s pos
    unfold loop
    split
    · rename_i s' p' c h
      have := ih s' p'
      rw [h] at hk
      simp only at hk ⊢
      rw [Nat.mul_add]
      omega
    · rename_i a p' c h; rw [h] at hk; simp only at hk ⊢; omega
    · rename_i c h; rw [h] at hk; simp only at hk ⊢; omega

/-- PROGRESS ⇒ few iterations. If an iteration can go on only after it really found `a` bytes in the buffer of length
    `L` (`pos + a ≤ L`) and then stands at least `k ≥ a` bytes further, the loop does at most `(L - pos + 2k - a)/k`
    iterations WHATEVER its counter says. -/
theorem loop_iters_progress (body : σ → Nat → Out σ α × Nat) (L a k : Nat) (hak : a ≤ k)
    (hp : ∀ s pos s' p' c, body s pos = (.cont s' p', c) → pos + a ≤ L ∧ pos + k ≤ p') :
    ∀ (n : Nat) (s : σ) (pos : Nat),
      (L < pos + a → (loop body n s pos).iters ≤ 1) ∧
      (pos + a ≤ L → k * (loop body n s pos).iters + pos + a ≤ L + 2 * k) := by
  intro n
  induction n with
  | zero => intro s pos; simp [loop]; omega
  | succ n ih =>
    intro s pos
    unfold loop
    split
    · rename_i s' p' c h
      obtain ⟨h1, h2⟩ := hp s pos s' p' c h
      obtain ⟨i1, i2⟩ := ih s' p'
      simp only
      refine ⟨fun hl => by omega, fun _ => ?_⟩
      rw [Nat.mul_add, Nat.mul_one]
      by_cases hc : L < p' + a
      · have := i1 hc
        have : k * (loop body n s' p').iters ≤ k * 1 := Nat.mul_le_mul_left k this
        omega
      · have := i2 (by omega)
        omega
    · simp only; refine ⟨fun _ => by omega, fun _ => by omega⟩
    · simp only; refine ⟨fun _ => by omega, fun _ => by omega⟩

theorem loop_iters_bound (body : σ → Nat → Out σ α × Nat) (L a k : Nat) (hak : a ≤ k) (hk : 0 < k)
    (hp : ∀ s pos s' p' c, body s pos = (.cont s' p', c) → pos + a ≤ L ∧ pos + k ≤ p')
    (n : Nat) (s : σ) (pos : Nat) :
    k * (loop body n s pos).iters + a ≤ (L - pos) + 2 * k := by
  obtain ⟨h1, h2⟩ := loop_iters_progress body L a k hak hp n s pos
  by_cases hc : L < pos + a
  · have := h1 hc
    have : k * (loop body n s pos).iters ≤ k * 1 := Nat.mul_le_mul_left k this
    omega
  · have := h2 (by omega); omega

/-! ### facts about the stream primitives -/

theorem readAt_length (buf : Bytes) (pos n : Nat) : (readAt buf pos n).length = min n (buf.length - pos) := by
  simp [readAt]

theorem compactAt_progress {buf : Bytes} {pos v p : Nat} (h : compactAt buf pos = some (v, p)) :
    pos + 1 ≤ buf.length ∧ pos + 1 ≤ p := by
  unfold compactAt at h
  split at h
  · rename_i v' r hr
    have := CostBin.compact_len hr
    have := Compact.enc_length_pos v'
    simp at h this
    obtain ⟨rfl, rfl⟩ := h
    simp at *
    omega
  · simp at h

theorem skipStringAt_progress {buf : Bytes} {pos l p : Nat} (h : skipStringAt buf pos = some (l, p)) :
    pos + 1 ≤ buf.length ∧ pos + 1 ≤ p := by
  unfold skipStringAt at h
  split at h
  · rename_i v q hq
    obtain ⟨h1, h2⟩ := compactAt_progress hq
    simp at h; omega
  · simp at h

/-! ### progress and cost of the loop bodies -/

theorem skipOutputBody_progress (buf : Bytes) (s : Unit) (pos : Nat) (s' : Unit) (p' c : Nat)
    (h : skipOutputBody buf s pos = (.cont s' p', c)) : pos + 9 ≤ buf.length ∧ pos + 9 ≤ p' := by
  unfold skipOutputBody at h
  split at h
  · rename_i p hp
    unfold skipOutputAt at hp
    split at hp
    · rename_i l q hq
      obtain ⟨h1, h2⟩ := compactAt_progress hq
      simp at hp h; omega
    · simp at hp
  · simp at h

theorem skipOutputBody_cost (buf : Bytes) (s : Unit) (pos : Nat) : (skipOutputBody buf s pos).2 ≤ 4 := by
  unfold skipOutputBody; split <;> simp

theorem skipCommitment_cost (buf : Bytes) (pos : Nat) : (skipCommitment buf pos).2 ≤ 2 := by
  unfold skipCommitment; simp only; split
  · simp
  · split
    · simp
    · split <;> simp

theorem skipCommitment_mono {buf : Bytes} {pos o p c : Nat} (h : skipCommitment buf pos = (some (o, p), c)) :
    pos ≤ p := by
  unfold skipCommitment at h; simp only at h
  split at h
  · simp at h
  · split at h
    · simp at h; omega
    · split at h <;> (simp at h; omega)

theorem skipInputL_cost (ce : Bool) (buf : Bytes) (pos : Nat) : (skipInputL ce buf pos).2 ≤ 8 := by
  unfold skipInputL; simp only
  split
  · simp
  · split
    · have a1 := skipCommitment_cost buf (pos + 32 + (readAt buf (pos + 32) 4).length + 5 + 64)
      split
      · rename_i c1 h1; rw [h1] at a1; simp at a1 ⊢; omega
      · rename_i o1 p4 c1 h1
        rw [h1] at a1
        have a2 := skipCommitment_cost buf p4
        split
        · rename_i c2 h2; rw [h2] at a2; simp at a1 a2 ⊢; omega
        · rename_i o2 p5 c2 h2; rw [h2] at a2; simp at a1 a2 ⊢; omega
    · simp

/-- the code as it is: an input is skipped only if its 4-byte `vout` field was really there -/
theorem skipInputL_progress {buf : Bytes} {pos o p c : Nat} (h : skipInputL true buf pos = (some (o, p), c)) :
    pos + 36 ≤ buf.length ∧ pos + 41 ≤ p := by
  unfold skipInputL at h; simp only at h
  have hl := readAt_length buf (pos + 32) 4
  split at h
  · simp at h
  · rename_i hc
    simp at hc
    split at h
    · split at h
      · simp at h
      · rename_i o1 p4 c1 h1
        have m1 := skipCommitment_mono h1
        split at h
        · simp at h
        · rename_i o2 p5 c2 h2
          have m2 := skipCommitment_mono h2
          simp at h; omega
    · simp at h; omega

theorem skipInputBody_progress (buf : Bytes) (off pos off' p' c : Nat)
    (h : skipInputBody true buf off pos = (.cont off' p', c)) : pos + 36 ≤ buf.length ∧ pos + 41 ≤ p' := by
  unfold skipInputBody at h
  split at h
  · rename_i o p c' hs
    have := skipInputL_progress hs
    simp at h; omega
  · simp at h

theorem skipInputBody_cost (ce : Bool) (buf : Bytes) (off pos : Nat) : (skipInputBody ce buf off pos).2 ≤ 8 := by
  have := skipInputL_cost ce buf pos
  unfold skipInputBody
  split
  · rename_i o p c h; rw [h] at this; simpa using this
  · rename_i c h; rw [h] at this; simpa using this

theorem skipOutputL_cost (buf : Bytes) (pos : Nat) : (skipOutputL buf pos).2 ≤ 8 := by
  unfold skipOutputL; simp only; split <;> simp

theorem skipOutputL_progress {buf : Bytes} {pos p c : Nat} (h : skipOutputL buf pos = (some p, c)) :
    pos + 42 ≤ buf.length ∧ pos + 42 ≤ p := by
  unfold skipOutputL at h; simp only at h
  split at h
  · rename_i l p4 hq
    obtain ⟨h1, h2⟩ := compactAt_progress hq
    simp at h
    have : pos + 41 ≤ pos + 33 + (readAt buf (pos + 33) 1).length + (if readAt buf (pos + 33) 1 ≠ [0x01] then 32 else 8) := by
      split <;> omega
    omega
  · simp at h

theorem skipOutputLBody_progress (buf : Bytes) (s : Unit) (pos : Nat) (s' : Unit) (p' c : Nat)
    (h : skipOutputLBody buf s pos = (.cont s' p', c)) : pos + 42 ≤ buf.length ∧ pos + 42 ≤ p' := by
  unfold skipOutputLBody at h
  split at h
  · rename_i p c' hs
    have := skipOutputL_progress hs
    simp at h; omega
  · simp at h

theorem skipOutputLBody_cost (buf : Bytes) (s : Unit) (pos : Nat) : (skipOutputLBody buf s pos).2 ≤ 8 := by
  have := skipOutputL_cost buf pos
  unfold skipOutputLBody
  split
  · rename_i p c h; rw [h] at this; simpa using this
  · rename_i c h; rw [h] at this; simpa using this

theorem hashToBody_progress (buf : Bytes) (l pos l' p' c : Nat)
    (h : hashToBody buf l pos = (.cont l' p', c)) : pos + 32 ≤ buf.length ∧ pos + 32 ≤ p' ∧ 32 < l ∧ l' = l - 32 := by
  unfold hashToBody at h
  have hl := readAt_length buf pos 32
  split at h
  · simp only at h
    split at h
    · simp at h
    · simp at h; omega
  · simp at h

theorem hashToBody_cost (buf : Bytes) (l pos : Nat) : (hashToBody buf l pos).2 ≤ 1 := by
  unfold hashToBody; split
  · simp only; split <;> simp
  · simp

theorem skipScopeBody_progress (buf : Bytes) (s : Unit) (pos : Nat) (s' : Unit) (p' c : Nat)
    (h : skipScopeBody buf s pos = (.cont s' p', c)) : pos + 2 ≤ buf.length ∧ pos + 2 ≤ p' := by
  unfold skipScopeBody at h
  split at h
  · simp at h
  · rename_i klen p1 h1
    obtain ⟨a1, a2⟩ := skipStringAt_progress h1
    split at h
    · simp at h
    · split at h
      · simp at h
      · rename_i x p2 h2
        obtain ⟨b1, b2⟩ := skipStringAt_progress h2
        simp at h; omega

theorem skipScopeBody_cost (buf : Bytes) (s : Unit) (pos : Nat) : (skipScopeBody buf s pos).2 ≤ 6 := by
  unfold skipScopeBody
  split
  · simp
  · split
    · simp
    · split <;> simp

/-- `_hash_to`: the remaining length shrinks, so fuel `l + 1` is never used up -/
theorem hashTo_fuel (buf : Bytes) : ∀ (fuel l pos : Nat), l < fuel → ∀ s p, (loop (hashToBody buf) fuel l pos).out ≠ .cont s p := by
  intro fuel
  induction fuel with
  | zero => intro l pos h; omega
  | succ n ih =>
    intro l pos hl s p
    unfold loop
    split
    · rename_i l' p' c h
      obtain ⟨_, _, h3, h4⟩ := hashToBody_progress buf l pos l' p' c h
      simp only
      exact ih l' p' (by omega) s p
    · simp
    · simp

end Embit.Model.ViewCost
