import EmbitModel.Proofs.SignWithView
/-
  `PSBTView.sign_with` and `PSBT.sign_with` agree: the in-memory variant runs key-major (for every key: all inputs),
  the stream variant input-major (for every input: all keys) over the same per-input function, whose digests only read
  the frame and whose counter only looks at the slots of its own input. Both therefore compute the same scopes and the
  same counter, and fail together (Mathlib-free).
-/
namespace Embit.Model.SignWith
open Embit Embit.Model

variable {HD : Type}

/-! ### the per-input function only needs the digest on scopes with the same frame -/

theorem signLeaves_congr (O : Ops HD) (dg dg' : Digest) (s0 : InScope) (hd : ∀ t, core t = core s0 → dg t = dg' t)
    (sk : Bytes) (f : Nat) (xo : Bytes) (l : List (Bytes × Bytes)) (seen : List Slot) (s : InScope)
    (hc : core s = core s0) :
    signLeaves O dg sk f xo seen l s = signLeaves O dg' sk f xo seen l s := by
  induction l generalizing seen s with
  | nil => rfl
  | cons e r ih =>
    obtain ⟨ctrl, sc⟩ := e
    unfold signLeaves
    rw [hd s hc]
    split
    · exact ih seen s hc
    · split
      · rfl
      · dsimp only
        split
        · rfl
        · split
          · rfl
          · have key : ∀ ts, core { s with tapSigs := ts } = core s0 := fun _ => hc
            rw [ih _ _ (key _)]

theorem signTapKey_congr (O : Ops HD) (dg dg' : Digest) (s0 : InScope) (hd : ∀ t, core t = core s0 → dg t = dg' t)
    (sk : Bytes) (c : Bool) (f : Nat) (seen : List Slot) (s : InScope) (hc : core s = core s0) :
    signTapKey O dg sk c f seen s = signTapKey O dg' sk c f seen s := by
  unfold signTapKey
  rw [hd s hc]
  split
  · rfl
  · split
    · rfl
    · split
      · rfl
      · split
        · rfl
        · exact signLeaves_congr O dg dg' s0 hd sk f _ _ seen s hc

theorem signTapDerived_congr (O : Ops HD) (dg dg' : Digest) (s0 : InScope) (hd : ∀ t, core t = core s0 → dg t = dg' t)
    (f : Nat) (l : List (Bytes × Bytes)) (seen : List Slot) (s : InScope) (hc : core s = core s0) :
    signTapDerived O dg f seen l s = signTapDerived O dg' f seen l s := by
  induction l generalizing seen s with
  | nil => rfl
  | cons e r ih =>
    obtain ⟨prv, pub⟩ := e
    unfold signTapDerived
    rw [signTapKey_congr O dg dg' s0 hd prv true f seen s hc]
    cases h1 : signTapKey O dg' prv true f seen s with
    | none => rfl
    | some r1 =>
      obtain ⟨s1, k1, w1⟩ := r1
      have hc1 : core s1 = core s0 := by rw [(signTapKey_tr _ _ _ _ _ _ _ _ _ _ h1).core, hc]
      dsimp only
      rw [ih _ s1 hc1]

theorem signInput_congr (O : Ops HD) (sg : Single HD) (auth : Option Nat) (dg dg' : Digest) (seen : List Slot)
    (s : InScope) (hd : ∀ t, core t = core s → dg t = dg' t) :
    signInput O sg auth dg seen s = signInput O sg auth dg' seen s := by
  unfold signInput
  rw [hd s rfl]
  split
  · rfl
  · dsimp only
    split
    · rfl
    · split
      · rfl
      · split
        · rw [signTapKey_congr O dg dg' s hd _ _ _ seen s rfl]
          cases h1 : signTapKey O dg' (Single.secret O sg) sg.compressed _ seen s with
          | none => rfl
          | some r1 =>
            obtain ⟨s1, k1, w1⟩ := r1
            have hc1 : core s1 = core s := (signTapKey_tr _ _ _ _ _ _ _ _ _ _ h1).core
            dsimp only
            rw [signTapDerived_congr O dg dg' s hd _ _ _ s1 hc1]
        · rfl

/-- the digest function of input `i` over PSBT `q` -/
def dgOf (O : Ops HD) (q : Psbt) (i : Nat) : Digest :=
  fun s f leaf => psbtSighash O.sha (Psbt.setInput q i s) i f leaf

theorem dgOf_congr (O : Ops HD) (p0 q : Psbt) (hq : pcore q = pcore p0) (i : Nat) (s : InScope)
    (hs : q.inputs[i]? = some s) : ∀ t, core t = core s → dgOf O q i t = dgOf O p0 i t := by
  intro t ht
  obtain ⟨s0, hs0, hc0⟩ := pcore_get hq i s hs
  funext f leaf
  show psbtSighash O.sha (Psbt.setInput q i t) i f leaf = psbtSighash O.sha (Psbt.setInput p0 i t) i f leaf
  apply psbtSighash_congr
  rw [pcore_setInput q i s t hs ht, pcore_setInput p0 i s0 t hs0 (ht.trans hc0), hq]

/-! ### exchange of two nested loops over independent cells (generic) -/

section Exchange
variable {κ σ : Type} (cell : κ → Nat → σ → Option (σ × Nat))

/-- one key over the states `l` numbered from `i` -/
def colFrom (k : κ) : Nat → List σ → Option (List σ × Nat)
  | _, [] => some ([], 0)
  | i, s :: r =>
    match cell k i s with
    | none => none
    | some (s', n) =>
      match colFrom k (i + 1) r with
      | none => none
      | some (ss, n') => some (s' :: ss, n + n')

/-- all keys on one state -/
def cellKeys : List κ → Nat → σ → Option (σ × Nat)
  | [], _, s => some (s, 0)
  | k :: ks, i, s =>
    match cell k i s with
    | none => none
    | some (s1, a) =>
      match cellKeys ks i s1 with
      | none => none
      | some (s2, c) => some (s2, a + c)

/-- key-major -/
def rows : List κ → Nat → List σ → Option (List σ × Nat)
  | [], _, l => some (l, 0)
  | k :: ks, i, l =>
    match colFrom cell k i l with
    | none => none
    | some (l1, n1) =>
      match rows ks i l1 with
      | none => none
      | some (l2, n2) => some (l2, n1 + n2)

/-- input-major -/
def cols (keys : List κ) : Nat → List σ → Option (List σ × Nat)
  | _, [] => some ([], 0)
  | i, s :: r =>
    match cellKeys cell keys i s with
    | none => none
    | some (s', n) =>
      match cols keys (i + 1) r with
      | none => none
      | some (ss, n') => some (s' :: ss, n + n')

theorem cols_nil_keys (i : Nat) (l : List σ) : cols cell [] i l = some (l, 0) := by
  induction l generalizing i with
  | nil => rfl
  | cons s r ih => simp [cols, cellKeys, ih]

theorem exchange_step (k : κ) (ks : List κ) (i : Nat) (l : List σ) :
    (match colFrom cell k i l with
      | none => none
      | some (l1, n1) =>
        match cols cell ks i l1 with
        | none => none
        | some (l2, n2) => some (l2, n1 + n2)) = cols cell (k :: ks) i l := by
  induction l generalizing i with
  | nil => simp [colFrom, cols]
  | cons s r ih =>
    have ih' := ih (i + 1)
    simp only [colFrom, cols, cellKeys]
    cases h1 : cell k i s with
    | none => simp
    | some r1 =>
      obtain ⟨s1, a⟩ := r1
      dsimp only
      rw [← ih']
      cases h2 : colFrom cell k (i + 1) r with
      | none =>
        dsimp only
        cases h3 : cellKeys cell ks i s1 with
        | none => rfl
        | some r3 => obtain ⟨s2, c⟩ := r3; rfl
      | some r2 =>
        obtain ⟨r1', b⟩ := r2
        dsimp only
        simp only [cols]
        cases h3 : cellKeys cell ks i s1 with
        | none => rfl
        | some r3 =>
          obtain ⟨s2, c⟩ := r3
          dsimp only
          cases h4 : cols cell ks (i + 1) r1' with
          | none => rfl
          | some r4 =>
            obtain ⟨r2', d⟩ := r4
            dsimp only
            congr 2
            omega

theorem rows_eq_cols (keys : List κ) (i : Nat) (l : List σ) : rows cell keys i l = cols cell keys i l := by
  induction keys generalizing l with
  | nil => rw [cols_nil_keys]; rfl
  | cons k ks ih =>
    rw [← exchange_step]
    unfold rows
    cases h1 : colFrom cell k i l with
    | none => rfl
    | some r1 =>
      obtain ⟨l1, n1⟩ := r1
      dsimp only
      rw [ih]

end Exchange

/-! ### the cell of `sign_with`: one key on one input; state = scope and the slots of the input signed so far -/

abbrev St := InScope × List Slot

/-- one key on one input, digests over `p0`; a public descriptor key does nothing -/
def cell (O : Ops HD) (auth : Option Nat) (p0 : Psbt) (k : Single HD) (i : Nat) (st : St) : Option (St × Nat) :=
  if k.isPrivate then
    (signInput O k auth (dgOf O p0 i) st.2 st.1).map (fun r => ((r.1, st.2 ++ r.2.2.map Prod.fst), r.2.1))
  else some (st, 0)

theorem isPrivate_false {k : Single HD} (h : k.isPrivate = false) : k = .keyPub := by
  cases k <;> simp [Single.isPrivate] at h ⊢

theorem colFrom_public (O : Ops HD) (auth : Option Nat) (p0 : Psbt) (k : Single HD) (hk : k.isPrivate = false)
    (i : Nat) (l : List St) : colFrom (cell O auth p0) k i l = some (l, 0) := by
  induction l generalizing i with
  | nil => rfl
  | cons s r ih => simp [colFrom, cell, hk, ih]

/-! ### the in-memory variant is key-major -/

theorem slotsOf_append (G H : List (Nat × Slot)) (i : Nat) : slotsOf (G ++ H) i = slotsOf G i ++ slotsOf H i := by
  simp [slotsOf, List.filterMap_append]

theorem slotsOf_ge (H : List (Nat × Slot)) (i : Nat) (h : ∀ e ∈ H, i < e.1) : slotsOf H i = [] := by
  induction H with
  | nil => rfl
  | cons e r ih =>
    have h1 : e.1 ≠ i := Nat.ne_of_gt (h e List.mem_cons_self)
    have := ih (fun e he => h e (List.mem_cons_of_mem _ he))
    simp only [slotsOf, List.filterMap_cons, h1, if_false] at this ⊢
    exact this

theorem slotsOf_input_same (i : Nat) (ws : List (Slot × Bytes)) :
    slotsOf (ws.map (fun w => (i, w.1))) i = ws.map Prod.fst := by
  induction ws with
  | nil => rfl
  | cons w r ih => simp only [slotsOf, List.map_cons, List.filterMap_cons, if_true] at ih ⊢; rw [ih]

theorem slotsOf_input_other (i j : Nat) (hij : i ≠ j) (ws : List (Slot × Bytes)) :
    slotsOf (ws.map (fun w => (i, w.1))) j = [] := by
  induction ws with
  | nil => rfl
  | cons w r ih => simp only [slotsOf, List.map_cons, List.filterMap_cons, hij, if_false] at ih ⊢; exact ih

/-- the relation between a run of the in-memory loops and a run of the canonical cells -/
def RelMem (G : List (Nat × Slot)) (q : Psbt) (pre : List InScope) :
    Option (Psbt × Nat × List Write) → Option (List St × Nat) → Prop
  | none, none => True
  | some (q', n, ws), some (sts', n') =>
    q' = { q with inputs := pre ++ sts'.map Prod.fst } ∧ n = n' ∧ (∀ e ∈ ws, pre.length ≤ e.1) ∧
    ∀ (j : Nat) st', sts'[j]? = some st' → slotsOf (G ++ ws.map Write.slot) (pre.length + j) = st'.2
  | _, _ => False

theorem signInputs_rel (O : Ops HD) (auth : Option Nat) (p0 : Psbt) (k : Single HD) (hk : k.isPrivate = true)
    (sts : List St) (G : List (Nat × Slot)) (q : Psbt) (pre : List InScope) (hq : pcore q = pcore p0)
    (hin : q.inputs = pre ++ sts.map Prod.fst)
    (hag : ∀ (j : Nat) st, sts[j]? = some st → slotsOf G (pre.length + j) = st.2) :
    RelMem G q pre (signInputs O k auth (List.range' pre.length sts.length) G q)
      (colFrom (cell O auth p0) k pre.length sts) := by
  induction sts generalizing G q pre with
  | nil =>
    have : ({ q with inputs := pre ++ [] } : Psbt) = q := by
      have : pre ++ [] = q.inputs := by rw [hin]; simp
      rw [this]
    simp only [List.length_nil, List.range'_zero, signInputs, colFrom, RelMem, List.map_nil, this, true_and]
    refine ⟨?_, ?_⟩
    · intro e he; cases he
    · intro j st' h; simp at h
  | cons st r ih =>
    obtain ⟨s, seen⟩ := st
    have hs : q.inputs[pre.length]? = some s := by rw [hin]; simp
    have hseen : slotsOf G pre.length = seen := by
      have := hag 0 (s, seen) (by simp)
      simpa using this
    simp only [List.length_cons, List.range'_succ]
    unfold signInputs colFrom
    rw [hs]
    dsimp only
    have hcg := signInput_congr O k auth (dgOf O q pre.length) (dgOf O p0 pre.length) (slotsOf G pre.length) s
      (dgOf_congr O p0 q hq pre.length s hs)
    rw [show (fun s' f leaf => psbtSighash O.sha (Psbt.setInput q pre.length s') pre.length f leaf)
        = dgOf O q pre.length from rfl, hcg, hseen]
    simp only [cell, hk, if_true]
    cases h1 : signInput O k auth (dgOf O p0 pre.length) seen s with
    | none => simp [RelMem]
    | some r1 =>
      obtain ⟨s1, n1, w1⟩ := r1
      simp only [Option.map_some]
      have hcg' : signInput O k auth (dgOf O q pre.length) seen s = some (s1, n1, w1) := by
        rw [← hseen, hcg, hseen]; exact h1
      have hc1 : core s1 = core s := (signInput_tr _ _ _ _ _ _ _ _ _ hcg').core
      have hq1 : pcore (Psbt.setInput q pre.length s1) = pcore p0 := by
        rw [pcore_setInput q pre.length s s1 hs hc1, hq]
      have hin1 : (Psbt.setInput q pre.length s1).inputs = (pre ++ [s1]) ++ r.map Prod.fst := by
        simp [Psbt.setInput, hin]
      have hl : (pre ++ [s1]).length = pre.length + 1 := by simp
      have hag1 : ∀ (j : Nat) st, r[j]? = some st →
          slotsOf (G ++ w1.map (fun w => (pre.length, w.1))) ((pre ++ [s1]).length + j) = st.2 := by
        intro j st hj
        rw [slotsOf_append, slotsOf_input_other pre.length _ (by rw [hl]; omega), List.append_nil, hl]
        have := hag (j + 1) st (by simpa using hj)
        rw [← this]; congr 1; omega
      have ih1 := ih (G ++ w1.map (fun w => (pre.length, w.1))) (Psbt.setInput q pre.length s1) (pre ++ [s1]) hq1 hin1 hag1
      rw [hl] at ih1
      cases h2 : signInputs O k auth (List.range' (pre.length + 1) r.length)
          (G ++ w1.map (fun w => (pre.length, w.1))) (Psbt.setInput q pre.length s1) with
      | none =>
        rw [h2] at ih1
        cases h3 : colFrom (cell O auth p0) k (pre.length + 1) r with
        | none => simp [RelMem]
        | some r3 => rw [h3] at ih1; simp [RelMem] at ih1
      | some r2 =>
        obtain ⟨q2, n2, w2⟩ := r2
        rw [h2] at ih1
        cases h3 : colFrom (cell O auth p0) k (pre.length + 1) r with
        | none => rw [h3] at ih1; simp [RelMem] at ih1
        | some r3 =>
          obtain ⟨ss, n3⟩ := r3
          rw [h3] at ih1
          simp only [RelMem] at ih1 ⊢
          obtain ⟨e1, e2, e3, e4⟩ := ih1
          refine ⟨?_, by rw [e2], ?_, ?_⟩
          · rw [e1]; simp [Psbt.setInput]
          · intro e he
            rcases List.mem_append.mp he with he | he
            · obtain ⟨w, _, rfl⟩ := List.mem_map.mp he
              exact Nat.le_refl _
            · have := e3 e he
              omega
          · intro j st' hj
            have hsl : (w1.map (fun w => ((pre.length, w) : Write)) ++ w2).map Write.slot
                = w1.map (fun w => (pre.length, w.1)) ++ w2.map Write.slot := by
              rw [List.map_append, slots_of_input]
            rw [hsl, ← List.append_assoc]
            cases j with
            | zero =>
              simp only [List.getElem?_cons_zero, Option.some.injEq] at hj
              subst hj
              rw [Nat.add_zero, slotsOf_append, slotsOf_append, hseen, slotsOf_input_same,
                slotsOf_ge (w2.map Write.slot) pre.length (by
                  intro e he
                  obtain ⟨w, hw, rfl⟩ := List.mem_map.mp he
                  have := e3 w hw
                  simp only [Write.slot]; omega), List.append_nil]
            | succ j' =>
              simp only [List.getElem?_cons_succ] at hj
              have := e4 j' st' hj
              rw [← this]; congr 1; omega

theorem signSingle_rel (O : Ops HD) (auth : Option Nat) (p0 : Psbt) (k : Single HD) (sts : List St)
    (G : List (Nat × Slot)) (q : Psbt) (hq : pcore q = pcore p0) (hin : q.inputs = sts.map Prod.fst)
    (hag : ∀ (j : Nat) st, sts[j]? = some st → slotsOf G j = st.2) :
    RelMem G q [] (signSingle O k auth G q) (colFrom (cell O auth p0) k 0 sts) := by
  cases hk : k.isPrivate with
  | false =>
    rw [colFrom_public O auth p0 k hk, isPrivate_false hk]
    simp only [signSingle, RelMem, List.nil_append, List.map_nil, List.append_nil, List.length_nil, Nat.zero_add,
      true_and]
    refine ⟨by rw [← hin], fun e he => (by cases he), ?_⟩
    simpa using hag
  | true =>
    have := signInputs_rel O auth p0 k hk sts G q [] hq (by simpa using hin) (by simpa using hag)
    simp only [List.length_nil] at this
    have hlen : q.inputs.length = sts.length := by rw [hin]; simp
    have hr : List.range q.inputs.length = List.range' 0 sts.length := by rw [hlen]; exact List.range_eq_range'
    cases k with
    | keyPub => simp [Single.isPrivate] at hk
    | wif a b => simp only [signSingle, hr]; exact this
    | hd a => simp only [signSingle, hr]; exact this
    | keyHd a b => simp only [signSingle, hr]; exact this

/-- the relation for the loop over keys (only PSBT and counter) -/
def RelKeys (q : Psbt) : Option (Psbt × Nat × List Write) → Option (List St × Nat) → Prop
  | none, none => True
  | some (q', n, _), some (sts', n') => q' = { q with inputs := sts'.map Prod.fst } ∧ n = n'
  | _, _ => False

theorem signKeys_rel (O : Ops HD) (auth : Option Nat) (p0 : Psbt) (keys : List (Single HD)) (sts : List St)
    (G : List (Nat × Slot)) (q : Psbt) (hq : pcore q = pcore p0) (hin : q.inputs = sts.map Prod.fst)
    (hag : ∀ (j : Nat) st, sts[j]? = some st → slotsOf G j = st.2) :
    RelKeys q (signKeys O auth keys G q) (rows (cell O auth p0) keys 0 sts) := by
  induction keys generalizing sts G q with
  | nil => simp only [signKeys, rows, RelKeys, and_true]; rw [← hin]
  | cons k ks ih =>
    have h1 := signSingle_rel O auth p0 k sts G q hq hin hag
    unfold signKeys rows
    cases hs : signSingle O k auth G q with
    | none =>
      rw [hs] at h1
      cases hc : colFrom (cell O auth p0) k 0 sts with
      | none => simp [RelKeys]
      | some rc => rw [hc] at h1; simp [RelMem] at h1
    | some r1 =>
      obtain ⟨q1, n1, w1⟩ := r1
      rw [hs] at h1
      cases hc : colFrom (cell O auth p0) k 0 sts with
      | none => rw [hc] at h1; simp [RelMem] at h1
      | some rc =>
        obtain ⟨l1, m1⟩ := rc
        rw [hc] at h1
        simp only [RelMem, List.nil_append, List.length_nil, Nat.zero_add] at h1
        obtain ⟨e1, e2, _, e4⟩ := h1
        have hq1 : pcore q1 = pcore p0 := by
          rw [(signSingle_tr _ _ _ _ _ _ _ _ hs).app, pcore_applyWrites, hq]
        have hin1 : q1.inputs = l1.map Prod.fst := by rw [e1]
        have ih1 := ih l1 (G ++ w1.map Write.slot) q1 hq1 hin1 e4
        dsimp only
        cases h2 : signKeys O auth ks (G ++ w1.map Write.slot) q1 with
        | none =>
          rw [h2] at ih1
          cases h3 : rows (cell O auth p0) ks 0 l1 with
          | none => simp [RelKeys]
          | some r3 => rw [h3] at ih1; simp [RelKeys] at ih1
        | some r2 =>
          obtain ⟨q2, n2, w2⟩ := r2
          rw [h2] at ih1
          cases h3 : rows (cell O auth p0) ks 0 l1 with
          | none => rw [h3] at ih1; simp [RelKeys] at ih1
          | some r3 =>
            obtain ⟨l2, m2⟩ := r3
            rw [h3] at ih1
            simp only [RelKeys] at ih1 ⊢
            obtain ⟨e5, e6⟩ := ih1
            exact ⟨by rw [e5, e1], by rw [e2, e6]⟩

/-! ### the stream variant is input-major -/

theorem signInputKeys_eq_cellKeys (O : Ops HD) (auth : Option Nat) (p0 : Psbt) (keys : List (Single HD)) (i : Nat)
    (seen : List Slot) (s : InScope) :
    (signInputKeys O auth (dgOf O p0 i) seen (keys.filter Single.isPrivate) s).map (fun r => (r.1, r.2.1))
      = (cellKeys (cell O auth p0) keys i (s, seen)).map (fun r => (r.1.1, r.2)) := by
  induction keys generalizing seen s with
  | nil => rfl
  | cons k ks ih =>
    cases hk : k.isPrivate with
    | false =>
      simp only [List.filter_cons, hk, Bool.false_eq_true, if_false, cellKeys, cell]
      rw [ih seen s]
      cases cellKeys (cell O auth p0) ks i (s, seen) with
      | none => rfl
      | some r => obtain ⟨a, b⟩ := r; simp
    | true =>
      simp only [List.filter_cons, hk, if_true, cellKeys, cell, signInputKeys]
      cases h1 : signInput O k auth (dgOf O p0 i) seen s with
      | none => rfl
      | some r1 =>
        obtain ⟨s1, n1, w1⟩ := r1
        simp only [Option.map_some]
        have := ih (seen ++ w1.map Prod.fst) s1
        cases h2 : signInputKeys O auth (dgOf O p0 i) (seen ++ w1.map Prod.fst) (ks.filter Single.isPrivate) s1 with
        | none =>
          rw [h2] at this
          cases h3 : cellKeys (cell O auth p0) ks i (s1, seen ++ w1.map Prod.fst) with
          | none => rfl
          | some r3 => rw [h3] at this; simp at this
        | some r2 =>
          obtain ⟨s2, n2, w2⟩ := r2
          rw [h2] at this
          cases h3 : cellKeys (cell O auth p0) ks i (s1, seen ++ w1.map Prod.fst) with
          | none => rw [h3] at this; simp at this
          | some r3 =>
            obtain ⟨st3, n3⟩ := r3
            rw [h3] at this
            simp only [Option.map_some, Option.some.injEq, Prod.mk.injEq] at this ⊢
            exact ⟨this.1, by rw [this.2]⟩

theorem signInputKeys_utxo (O : Ops HD) (auth : Option Nat) (dg : Digest) (seen : List Slot) (k : Single HD)
    (ks : List (Single HD)) (s : InScope) (r : Res) (h : signInputKeys O auth dg seen (k :: ks) s = some r) :
    s.utxo ≠ none := by
  intro hu
  simp [signInputKeys, signInput, hu] at h

theorem viewSignInput_eq (O : Ops HD) (keys : List (Single HD)) (auth : Option Nat) (dg : Digest) (s : InScope) :
    (viewSignInput O keys auth dg s).map (fun r => (r.2.1, r.2.2.1))
      = (signInputKeys O auth dg [] (keys.filter Single.isPrivate) s).map (fun r => (r.1, r.2.1)) := by
  unfold viewSignInput
  dsimp only
  cases h1 : signInputKeys O auth dg [] (keys.filter Single.isPrivate) s with
  | none => rfl
  | some r1 =>
    obtain ⟨s1, n1, w1⟩ := r1
    dsimp only
    split
    · rfl
    · rename_i hne
      cases hp : keys.filter Single.isPrivate with
      | nil => simp [hp] at hne
      | cons k ks =>
        rw [hp] at h1
        have hu := signInputKeys_utxo O auth dg [] k ks s _ h1
        cases hu' : s.utxo with
        | none => exact absurd hu' hu
        | some u =>
          dsimp only
          split <;> rfl

theorem viewSignFrom_eq_cols (O : Ops HD) (auth : Option Nat) (p0 : Psbt) (keys : List (Single HD)) (i : Nat)
    (l : List InScope) :
    (viewSignFrom O keys auth p0 i l).map (fun r => (r.2.1, r.2.2.1))
      = (cols (cell O auth p0) keys i (l.map (fun s => (s, [])))).map (fun r => (r.1.map Prod.fst, r.2)) := by
  induction l generalizing i with
  | nil => rfl
  | cons s r ih =>
    unfold viewSignFrom
    simp only [List.map_cons, cols]
    have h1 := viewSignInput_eq O keys auth (dgOf O p0 i) s
    rw [signInputKeys_eq_cellKeys] at h1
    rw [show (fun s' f leaf => psbtSighash O.sha (Psbt.setInput p0 i s') i f leaf) = dgOf O p0 i from rfl]
    cases hv : viewSignInput O keys auth (dgOf O p0 i) s with
    | none =>
      rw [hv] at h1
      cases hc : cellKeys (cell O auth p0) keys i (s, []) with
      | none => rfl
      | some rc => rw [hc] at h1; simp at h1
    | some rv =>
      obtain ⟨b1, s1, n1, w1⟩ := rv
      rw [hv] at h1
      cases hc : cellKeys (cell O auth p0) keys i (s, []) with
      | none => rw [hc] at h1; simp at h1
      | some rc =>
        obtain ⟨st1, m1⟩ := rc
        rw [hc] at h1
        simp only [Option.map_some, Option.some.injEq, Prod.mk.injEq] at h1
        obtain ⟨e1, e2⟩ := h1
        dsimp only
        have ih1 := ih (i + 1)
        cases h2 : viewSignFrom O keys auth p0 (i + 1) r with
        | none =>
          rw [h2] at ih1
          cases h3 : cols (cell O auth p0) keys (i + 1) (r.map (fun s => (s, []))) with
          | none => rfl
          | some r3 => rw [h3] at ih1; simp at ih1
        | some r2 =>
          obtain ⟨b2, ss, n2, w2⟩ := r2
          rw [h2] at ih1
          cases h3 : cols (cell O auth p0) keys (i + 1) (r.map (fun s => (s, []))) with
          | none => rw [h3] at ih1; simp at ih1
          | some r3 =>
            obtain ⟨l3, m3⟩ := r3
            rw [h3] at ih1
            simp only [Option.map_some, Option.some.injEq, Prod.mk.injEq] at ih1 ⊢
            exact ⟨by rw [e1, ih1.1]; rfl, by rw [e2, ih1.2]⟩

/-! ### the two variants agree -/

theorem signWith_as_keys (O : Ops HD) (signer : Signer HD) (auth : Option Nat) (p : Psbt) :
    (signWith O signer auth p).map (fun r => (r.1, r.2.1))
      = (signKeys O auth signer.keys [] p).map (fun r => (r.1, r.2.1)) := by
  cases signer with
  | descriptor ks => rfl
  | single sg =>
    simp only [signWith, Signer.keys, signKeys]
    cases signSingle O sg auth [] p with
    | none => rfl
    | some r => obtain ⟨a, b, c⟩ := r; simp

/-- `PSBTView.sign_with` signs exactly what `PSBT.sign_with` signs and returns the same counter; one raises iff the
    other does -/
theorem viewSignWith_eq_signWith (O : Ops HD) (signer : Signer HD) (auth : Option Nat) (p : Psbt) :
    (viewSignWith O signer auth p).map (fun r => (r.2.2.1, r.2.1))
      = (signWith O signer auth p).map (fun r => (r.1, r.2.1)) := by
  rw [signWith_as_keys]
  have hm := signKeys_rel O auth p signer.keys (p.inputs.map (fun s => (s, []))) [] p rfl
    (by simp [List.map_map, Function.comp_def])
    (by
      intro j st hj
      simp only [List.getElem?_map] at hj
      cases hp : p.inputs[j]? with
      | none => rw [hp] at hj; cases hj
      | some s => rw [hp] at hj; cases hj; rfl)
  rw [rows_eq_cols] at hm
  have hv := viewSignFrom_eq_cols O auth p signer.keys 0 p.inputs
  unfold viewSignWith
  cases h1 : viewSignFrom O signer.keys auth p 0 p.inputs with
  | none =>
    rw [h1] at hv
    cases h2 : cols (cell O auth p) signer.keys 0 (p.inputs.map (fun s => (s, []))) with
    | some r2 => rw [h2] at hv; simp at hv
    | none =>
      rw [h2] at hm
      cases h3 : signKeys O auth signer.keys [] p with
      | none => rfl
      | some r3 => rw [h3] at hm; obtain ⟨a, b, c⟩ := r3; simp [RelKeys] at hm
  | some r1 =>
    obtain ⟨b, ss, n, ws⟩ := r1
    rw [h1] at hv
    cases h2 : cols (cell O auth p) signer.keys 0 (p.inputs.map (fun s => (s, []))) with
    | none => rw [h2] at hv; simp at hv
    | some r2 =>
      obtain ⟨l2, m2⟩ := r2
      rw [h2] at hv hm
      simp only [Option.map_some, Option.some.injEq, Prod.mk.injEq] at hv
      cases h3 : signKeys O auth signer.keys [] p with
      | none => rw [h3] at hm; simp [RelKeys] at hm
      | some r3 =>
        obtain ⟨q', n', ws'⟩ := r3
        rw [h3] at hm
        simp only [RelKeys] at hm
        simp only [Option.map_some, Option.some.injEq, Prod.mk.injEq]
        exact ⟨by rw [hm.1, hv.1], by rw [hm.2, hv.2]⟩

end Embit.Model.SignWith
