import EmbitModel.Proofs.SignWithDefs
/-
  The trace discipline of `SignWith.signWith`: the scope / PSBT returned is the input with the returned writes applied,
  and the counter counts every slot of the trace once, slots signed earlier in the call (`seen`) excluded (Mathlib-free).
-/
namespace Embit.Model.SignWith
open Embit Embit.Model

variable {HD : Type}

/-- the link between a step of the model and its trace, `seen` = the slots of the scope signed before the step -/
structure Tr (seen : List Slot) (s s' : InScope) (k : Nat) (ws : List (Slot × Bytes)) : Prop where
  app : s' = applySlots s ws
  cnt : k = newCount seen (ws.map Prod.fst)

theorem Tr.refl (seen : List Slot) (s : InScope) : Tr seen s s 0 [] := ⟨rfl, rfl⟩

theorem Tr.trans {seen : List Slot} {s s1 s2 : InScope} {k1 k2 : Nat} {w1 w2 : List (Slot × Bytes)}
    (h1 : Tr seen s s1 k1 w1) (h2 : Tr (seen ++ w1.map Prod.fst) s1 s2 k2 w2) : Tr seen s s2 (k1 + k2) (w1 ++ w2) := by
  refine ⟨?_, ?_⟩
  · rw [applySlots_append, ← h1.app]; exact h2.app
  · rw [List.map_append, newCount_append, ← h1.cnt, ← h2.cnt]

theorem Tr.core {seen : List Slot} {s s' : InScope} {k : Nat} {ws : List (Slot × Bytes)} (h : Tr seen s s' k ws) :
    core s' = core s := by
  rw [h.app, core_applySlots]

theorem Tr.cons {seen : List Slot} {s s2 : InScope} {k : Nat} {ws : List (Slot × Bytes)} (w : Slot × Bytes)
    (h : Tr (seen ++ [w.1]) (applySlot s w) s2 k ws) : Tr seen s s2 (countSlot seen w.1 + k) (w :: ws) := by
  refine ⟨?_, ?_⟩
  · rw [h.app]; rfl
  · simp only [List.map_cons, newCount, ← h.cnt]

theorem Tr.single (seen : List Slot) (s : InScope) (w : Slot × Bytes) :
    Tr seen s (applySlot s w) (countSlot seen w.1) [w] := by
  have := Tr.cons (seen := seen) (s := s) w (Tr.refl _ _)
  simpa using this

/-! ### the per-scope functions -/

theorem signLeaves_tr (O : Ops HD) (dg : Digest) (sk : Bytes) (f : Nat) (xo : Bytes) (l : List (Bytes × Bytes))
    (seen : List Slot) (s s' : InScope) (k : Nat) (ws : List (Slot × Bytes))
    (h : signLeaves O dg sk f xo seen l s = some (s', k, ws)) : Tr seen s s' k ws := by
  induction l generalizing seen s s' k ws with
  | nil => simp only [signLeaves, Option.some.injEq, Prod.mk.injEq] at h; obtain ⟨rfl, rfl, rfl⟩ := h; exact Tr.refl _ _
  | cons e r ih =>
    obtain ⟨ctrl, sc⟩ := e
    unfold signLeaves at h
    split at h
    · exact ih _ _ _ _ _ h
    · split at h
      · cases h
      · dsimp only at h
        split at h
        · cases h
        · split at h
          · cases h
          · split at h
            · cases h
            · rename_i s2 k2 ws2 hrec
              simp only [Option.some.injEq, Prod.mk.injEq] at h
              obtain ⟨rfl, rfl, rfl⟩ := h
              exact Tr.cons (s := s) (Slot.tapScriptSig _, _) (ih _ _ _ _ _ hrec)

theorem signTapKey_tr (O : Ops HD) (dg : Digest) (sk : Bytes) (c : Bool) (f : Nat) (seen : List Slot) (s s' : InScope)
    (k : Nat) (ws : List (Slot × Bytes)) (h : signTapKey O dg sk c f seen s = some (s', k, ws)) : Tr seen s s' k ws := by
  unfold signTapKey at h
  split at h
  · cases h
  · split at h
    · simp only [Option.some.injEq, Prod.mk.injEq] at h; obtain ⟨rfl, rfl, rfl⟩ := h; exact Tr.refl _ _
    · split at h
      · cases h
      · split at h
        · split at h
          · cases h
          · split at h
            · cases h
            · simp only [Option.some.injEq, Prod.mk.injEq] at h; obtain ⟨rfl, rfl, rfl⟩ := h
              exact Tr.single seen s (Slot.tapKeySig, _)
        · exact signLeaves_tr O dg sk f _ _ _ _ _ _ _ h

theorem signTapDerived_tr (O : Ops HD) (dg : Digest) (f : Nat) (l : List (Bytes × Bytes)) (seen : List Slot)
    (s s' : InScope) (k : Nat) (ws : List (Slot × Bytes)) (h : signTapDerived O dg f seen l s = some (s', k, ws)) :
    Tr seen s s' k ws := by
  induction l generalizing seen s s' k ws with
  | nil => simp only [signTapDerived, Option.some.injEq, Prod.mk.injEq] at h; obtain ⟨rfl, rfl, rfl⟩ := h; exact Tr.refl _ _
  | cons e r ih =>
    obtain ⟨prv, pub⟩ := e
    unfold signTapDerived at h
    split at h
    · cases h
    · rename_i s1 k1 w1 h1
      split at h
      · cases h
      · rename_i s2 k2 w2 h2
        simp only [Option.some.injEq, Prod.mk.injEq] at h; obtain ⟨rfl, rfl, rfl⟩ := h
        exact Tr.trans (signTapKey_tr O dg prv true f _ _ _ _ _ h1) (ih _ _ _ _ _ h2)

theorem signEcdsaRoot_tr (O : Ops HD) (sk : Bytes) (c : Bool) (f : Nat) (hh sc : Bytes) (seen : List Slot)
    (s s' : InScope) (k : Nat) (ws : List (Slot × Bytes))
    (h : signEcdsaRoot O sk c f hh sc seen s = some (s', k, ws)) : Tr seen s s' k ws := by
  unfold signEcdsaRoot at h
  simp only at h
  split at h
  · split at h
    · cases h
    · simp only [Option.some.injEq, Prod.mk.injEq] at h; obtain ⟨rfl, rfl, rfl⟩ := h
      exact Tr.single seen s (Slot.partialSig _, _)
  · simp only [Option.some.injEq, Prod.mk.injEq] at h; obtain ⟨rfl, rfl, rfl⟩ := h; exact Tr.refl _ _

theorem signEcdsaDerived_tr (O : Ops HD) (rootpub : Bytes) (f : Nat) (hh : Bytes) (l : List (Bytes × Bytes))
    (seen : List Slot) (s s' : InScope) (k : Nat) (ws : List (Slot × Bytes))
    (h : signEcdsaDerived O rootpub f hh seen l s = some (s', k, ws)) : Tr seen s s' k ws := by
  induction l generalizing seen s s' k ws with
  | nil => simp only [signEcdsaDerived, Option.some.injEq, Prod.mk.injEq] at h; obtain ⟨rfl, rfl, rfl⟩ := h; exact Tr.refl _ _
  | cons e r ih =>
    obtain ⟨prv, pub⟩ := e
    unfold signEcdsaDerived at h
    split at h
    · exact ih _ _ _ _ _ h
    · split at h
      · cases h
      · simp only at h
        split at h
        · cases h
        · rename_i s2 k2 w2 h2
          simp only [Option.some.injEq, Prod.mk.injEq] at h; obtain ⟨rfl, rfl, rfl⟩ := h
          exact Tr.cons (s := s) (Slot.partialSig pub, _) (ih _ _ _ _ _ h2)

theorem signInput_tr (O : Ops HD) (sg : Single HD) (auth : Option Nat) (dg : Digest) (seen : List Slot)
    (s s' : InScope) (k : Nat) (ws : List (Slot × Bytes)) (h : signInput O sg auth dg seen s = some (s', k, ws)) :
    Tr seen s s' k ws := by
  unfold signInput at h
  split at h
  · cases h
  · simp only at h
    split at h
    · simp only [Option.some.injEq, Prod.mk.injEq] at h; obtain ⟨rfl, rfl, rfl⟩ := h; exact Tr.refl _ _
    · split at h
      · cases h
      · split at h
        · split at h
          · cases h
          · rename_i s1 k1 w1 h1
            split at h
            · cases h
            · rename_i s2 k2 w2 h2
              simp only [Option.some.injEq, Prod.mk.injEq] at h; obtain ⟨rfl, rfl, rfl⟩ := h
              exact Tr.trans (signTapKey_tr _ _ _ _ _ _ _ _ _ _ h1) (signTapDerived_tr _ _ _ _ _ _ _ _ _ h2)
        · split at h
          · cases h
          · split at h
            · cases h
            · rename_i s1 k1 w1 h1
              split at h
              · cases h
              · rename_i s2 k2 w2 h2
                simp only [Option.some.injEq, Prod.mk.injEq] at h; obtain ⟨rfl, rfl, rfl⟩ := h
                exact Tr.trans (signEcdsaRoot_tr _ _ _ _ _ _ _ _ _ _ _ h1) (signEcdsaDerived_tr _ _ _ _ _ _ _ _ _ _ h2)

/-! ### PSBT level -/

theorem slotsOf_append_same (G : List (Nat × Slot)) (i : Nat) (l : List Slot) :
    slotsOf (G ++ l.map (fun sl => (i, sl))) i = slotsOf G i ++ l := by
  induction l generalizing G with
  | nil => simp [slotsOf]
  | cons x r ih =>
    have : G ++ List.map (fun sl => (i, sl)) (x :: r) = (G ++ [(i, x)]) ++ r.map (fun sl => (i, sl)) := by simp
    rw [this, ih]
    simp [slotsOf, List.filterMap_append]

theorem mem_slotsOf (G : List (Nat × Slot)) (i : Nat) (sl : Slot) : sl ∈ slotsOf G i ↔ (i, sl) ∈ G := by
  simp only [slotsOf, List.mem_filterMap]
  constructor
  · rintro ⟨⟨j, sl'⟩, hm, h⟩
    dsimp only at h
    split at h
    · rename_i hj; cases h; subst hj; exact hm
    · cases h
  · intro h
    exact ⟨(i, sl), h, by simp⟩

theorem newCount_input (G : List (Nat × Slot)) (i : Nat) (l : List Slot) :
    newCount G (l.map (fun sl => (i, sl))) = newCount (slotsOf G i) l := by
  induction l generalizing G with
  | nil => rfl
  | cons x r ih =>
    simp only [List.map_cons, newCount, ih]
    have h1 : slotsOf (G ++ [(i, x)]) i = slotsOf G i ++ [x] := by
      have := slotsOf_append_same G i [x]
      simpa using this
    rw [h1]
    congr 1
    by_cases hm : (i, x) ∈ G
    · have : x ∈ slotsOf G i := (mem_slotsOf G i x).mpr hm
      simp [countSlot, hm, this]
    · have : x ∉ slotsOf G i := fun h => hm ((mem_slotsOf G i x).mp h)
      simp [countSlot, hm, this]

/-- PSBT-level link; `G` = the slots signed earlier in the call -/
structure PTr (G : List (Nat × Slot)) (p p' : Psbt) (n : Nat) (ws : List Write) : Prop where
  app : p' = applyWrites p ws
  cnt : n = newCount G (ws.map Write.slot)

theorem PTr.refl (G : List (Nat × Slot)) (p : Psbt) : PTr G p p 0 [] := ⟨rfl, rfl⟩

theorem PTr.trans {G : List (Nat × Slot)} {p p1 p2 : Psbt} {k1 k2 : Nat} {w1 w2 : List Write}
    (h1 : PTr G p p1 k1 w1) (h2 : PTr (G ++ w1.map Write.slot) p1 p2 k2 w2) : PTr G p p2 (k1 + k2) (w1 ++ w2) := by
  refine ⟨?_, ?_⟩
  · rw [applyWrites_append, ← h1.app]; exact h2.app
  · rw [List.map_append, newCount_append, ← h1.cnt, ← h2.cnt]

theorem PTr.ofInput {G : List (Nat × Slot)} {p : Psbt} {i : Nat} {s s' : InScope} {k : Nat}
    {ws : List (Slot × Bytes)} (h : p.inputs[i]? = some s) (t : Tr (slotsOf G i) s s' k ws) :
    PTr G p (Psbt.setInput p i s') k (ws.map (fun w => (i, w))) := by
  refine ⟨?_, ?_⟩
  · rw [applyWrites_input p i s ws h, t.app]
  · rw [t.cnt, ← newCount_input]
    simp [List.map_map, Write.slot, Function.comp_def]

theorem slots_of_input (i : Nat) (ws : List (Slot × Bytes)) :
    (ws.map (fun w => ((i, w) : Write))).map Write.slot = ws.map (fun w => (i, w.1)) := by
  simp [List.map_map, Write.slot, Function.comp_def]

theorem signInputs_tr (O : Ops HD) (sg : Single HD) (auth : Option Nat) (idxs : List Nat) (G : List (Nat × Slot))
    (p p' : Psbt) (n : Nat) (ws : List Write) (h : signInputs O sg auth idxs G p = some (p', n, ws)) :
    PTr G p p' n ws := by
  induction idxs generalizing G p p' n ws with
  | nil => simp only [signInputs, Option.some.injEq, Prod.mk.injEq] at h; obtain ⟨rfl, rfl, rfl⟩ := h; exact PTr.refl _ _
  | cons i r ih =>
    unfold signInputs at h
    split at h
    · cases h
    · rename_i s hs
      split at h
      · cases h
      · rename_i s' k w1 h1
        split at h
        · cases h
        · rename_i p2 k2 w2 h2
          simp only [Option.some.injEq, Prod.mk.injEq] at h; obtain ⟨rfl, rfl, rfl⟩ := h
          refine PTr.trans (PTr.ofInput hs (signInput_tr _ _ _ _ _ _ _ _ _ h1)) ?_
          rw [slots_of_input]
          exact ih _ _ _ _ _ h2

theorem signSingle_tr (O : Ops HD) (sg : Single HD) (auth : Option Nat) (G : List (Nat × Slot)) (p p' : Psbt) (n : Nat)
    (ws : List Write) (h : signSingle O sg auth G p = some (p', n, ws)) : PTr G p p' n ws := by
  unfold signSingle at h
  split at h
  · simp only [Option.some.injEq, Prod.mk.injEq] at h; obtain ⟨rfl, rfl, rfl⟩ := h; exact PTr.refl _ _
  · exact signInputs_tr _ _ _ _ _ _ _ _ _ h

theorem signKeys_tr (O : Ops HD) (auth : Option Nat) (keys : List (Single HD)) (G : List (Nat × Slot)) (p p' : Psbt)
    (n : Nat) (ws : List Write) (h : signKeys O auth keys G p = some (p', n, ws)) : PTr G p p' n ws := by
  induction keys generalizing G p p' n ws with
  | nil => simp only [signKeys, Option.some.injEq, Prod.mk.injEq] at h; obtain ⟨rfl, rfl, rfl⟩ := h; exact PTr.refl _ _
  | cons k r ih =>
    unfold signKeys at h
    split at h
    · cases h
    · rename_i p1 n1 w1 h1
      split at h
      · cases h
      · rename_i p2 n2 w2 h2
        simp only [Option.some.injEq, Prod.mk.injEq] at h; obtain ⟨rfl, rfl, rfl⟩ := h
        exact PTr.trans (signSingle_tr _ _ _ _ _ _ _ _ h1) (ih _ _ _ _ _ h2)

theorem signWith_tr (O : Ops HD) (signer : Signer HD) (auth : Option Nat) (p p' : Psbt) (n : Nat)
    (ws : List Write) (h : signWith O signer auth p = some (p', n, ws)) : PTr [] p p' n ws := by
  unfold signWith at h
  split at h
  · exact signSingle_tr _ _ _ _ _ _ _ _ h
  · exact signKeys_tr _ _ _ _ _ _ _ _ h

end Embit.Model.SignWith
