import EmbitModel.Proofs.Bip32Child
/-
  Neutering (`to_public`) and its commutation with non-hardened child derivation.
-/
namespace Embit.Keys
open Embit Embit.Spec.Bip32

variable {E : EcOps}

/-- `to_public()` of a well-formed private HD key whose version has a public counterpart in NETWORKS -/
theorem toPublic_some (env : Env) (k : HDKey E) (pk : PrivateKey) (hk : k.key = .priv pk)
    (hc : pk.compressed = true) (hv : seckeyValid E pk.secret = true)
    (hcc : k.chainCode.length = 32) (hfp : k.fingerprint.length = 4) (hd : k.depth < 256)
    (hcn : k.childNumber < 2 ^ 32) (pv : Bytes) (hpv : detectPubVersion k.version = some pv)
    (hB : VersionSays env pv tPub) :
    k.toPublic env = some { key := .pub ⟨E.mulG pk.secret, true⟩, chainCode := k.chainCode, version := pv,
                            depth := k.depth, fingerprint := k.fingerprint, childNumber := k.childNumber } := by
  unfold HDKey.toPublic
  simp only [hk, pubVersion, hpv, PrivateKey.getPublicKey, pubkeyCreate, hv, if_true, Option.map_some, hc]
  exact init_some env _ _ _ _ _ _ (by simp [KeyObj.Canon]) hcc hfp hd hcn (by simpa [kindText, KeyObj.isPrivate] using hB)

/-- `to_public()` fails when NETWORKS has no public counterpart of the version -/
theorem toPublic_unknown_version (env : Env) (k : HDKey E) (h : detectPubVersion k.version = none) :
    k.toPublic env = none := by
  unfold HDKey.toPublic
  cases hk : k.key with
  | pub _ => rfl
  | priv pk => simp [pubVersion, h]

theorem neuter_commutes_aux (L : EcLaws E) (env : Env) (hlen : ∀ key msg, (env.hmac512 key msg).length = 64)
    (hh160 : ∀ msg, 4 ≤ (env.hash160 msg).length)
    (k : HDKey E) (pk : PrivateKey) (hk : k.key = .priv pk) (hc : pk.compressed = true)
    (hv : seckeyValid E pk.secret = true)
    (hcc : k.chainCode.length = 32) (hfp : k.fingerprint.length = 4) (hd : k.depth < 255)
    (hcn : k.childNumber < 2 ^ 32) (pv : Bytes) (hpv : detectPubVersion k.version = some pv)
    (hA : VersionSays env k.version tPrv) (hB : VersionSays env pv tPub) (i : Nat) (hi : i < 2 ^ 31) :
    (k.child env i).bind (fun c => c.toPublic env) = (k.toPublic env).bind (fun K => K.child env i) := by
  have hi32 : i < 2 ^ 32 := by omega
  rw [child_priv L env hlen k pk hk hc hv i hi32]
  rw [toPublic_some env k pk hk hc hv hcc hfp (by omega) hcn pv hpv hB]
  simp only [Option.bind_some]
  rw [child_pub L env hlen _ ⟨E.mulG pk.secret, true⟩ rfl rfl i hi32]
  unfold CKDpriv CKDpub
  have hnh : ¬ i ≥ 2 ^ 31 := by omega
  simp only [hnh, if_false]
  have hl := hlen k.chainCode (serP E (point E pk.secret) ++ ser32 i)
  have hfl : ((env.hash160 (serP E (point E pk.secret))).take 4).length = 4 := by
    have := hh160 (serP E (point E pk.secret)); simp; omega
  generalize hfpe : (env.hash160 (serP E (point E pk.secret))).take 4 = fp' at hfl
  generalize env.hmac512 k.chainCode (serP E (point E pk.secret) ++ ser32 i) = I at hl ⊢
  simp only [split, parse256, fingerprint, point, hfpe]
  have hsum : E.add (E.mulG (ofBe (I.take 32))) (E.mulG pk.secret) = E.mulG ((ofBe (I.take 32) + pk.secret) % E.n) := by
    rw [L.mulG_add, L.mulG_mod]
  have hinf : E.isInf (E.add (E.mulG (ofBe (I.take 32))) (E.mulG pk.secret)) = true
      ↔ (ofBe (I.take 32) + pk.secret) % E.n = 0 := by
    rw [L.mulG_add]; exact L.mulG_inf _
  by_cases hge : ofBe (I.take 32) ≥ E.n
  · simp [hge]
  · by_cases hz : (ofBe (I.take 32) + pk.secret) % E.n = 0
    · have := hinf.mpr hz
      simp [hz, this]
    · have hni : ¬ E.isInf (E.add (E.mulG (ofBe (I.take 32))) (E.mulG pk.secret)) = true := fun h => hz (hinf.mp h)
      have hs : seckeyValid E ((ofBe (I.take 32) + pk.secret) % E.n) = true := by
        rw [seckeyValid_iff]; exact ⟨Nat.pos_of_ne_zero hz, Nat.mod_lt _ L.n_pos⟩
      rw [if_neg (by simp [hge, hz]), if_neg (by simp [hge, hni])]
      simp only [Option.bind_some]
      have hIR : (I.drop 32).length = 32 := by simp [hl]
      rw [init_some env _ _ _ _ _ _ (by simp [KeyObj.Canon]) hIR hfl (by omega) hi32
            (by simpa [kindText, KeyObj.isPrivate] using hA)]
      simp only [Option.bind_some]
      have hT := toPublic_some (E := E) env
        { key := KeyObj.priv ⟨(ofBe (I.take 32) + pk.secret) % E.n, true, Generated.privDefaultNet⟩,
          chainCode := I.drop 32, version := k.version, depth := k.depth + 1, fingerprint := fp', childNumber := i }
        ⟨(ofBe (I.take 32) + pk.secret) % E.n, true, Generated.privDefaultNet⟩ rfl rfl hs
        hIR hfl (by simp only; omega) hi32 pv hpv hB
      rw [hT]
      rw [init_some env _ _ _ _ _ _ (by simp [KeyObj.Canon]) hIR hfl (by omega) hi32
            (by simpa [kindText, KeyObj.isPrivate] using hB)]
      simp only [hsum]

/-- a child carries the parent's version and is one level deeper -/
theorem child_fields (env : Env) (k c : HDKey E) (i : Nat) (h : Bool) (hc : k.child env i h = some c) :
    c.version = k.version ∧ c.depth = k.depth + 1 ∧ c.childNumber = normIndex i h := by
  unfold HDKey.child at hc
  split at hc
  · cases hc
  · split at hc
    · cases hc
    · split at hc
      · cases hc
      · split at hc
        · cases hc
        · split at hc
          · cases hc
          · have := init_fields env _ _ _ _ _ _ _ hc
            subst this
            exact ⟨rfl, rfl, rfl⟩

theorem toPublic_fields (env : Env) (k K : HDKey E) (v : Option Bytes) (h : k.toPublic env v = some K) :
    K.depth = k.depth ∧ K.chainCode = k.chainCode ∧ K.fingerprint = k.fingerprint ∧ K.childNumber = k.childNumber := by
  unfold HDKey.toPublic at h
  split at h
  · cases h
  · split at h
    · cases h
    · split at h
      · cases h
      · have := init_fields env _ _ _ _ _ _ _ h
        subst this
        exact ⟨rfl, rfl, rfl, rfl⟩

/-- derive-then-neuter equals neuter-then-derive for every non-hardened index, including the cases in which both
    fail (I_L ≥ n, zero sum, depth 255, a version without public counterpart) -/
theorem neuter_commutes_gen (L : EcLaws E) (env : Env) (hlen : ∀ key msg, (env.hmac512 key msg).length = 64)
    (hh160 : ∀ msg, 4 ≤ (env.hash160 msg).length)
    (k : HDKey E) (pk : PrivateKey) (hk : k.key = .priv pk) (hc : pk.compressed = true)
    (hv : seckeyValid E pk.secret = true)
    (hcc : k.chainCode.length = 32) (hfp : k.fingerprint.length = 4) (hcn : k.childNumber < 2 ^ 32)
    (hA : VersionSays env k.version tPrv)
    (hB : ∀ pv, detectPubVersion k.version = some pv → VersionSays env pv tPub) (i : Nat) (hi : i < 2 ^ 31) :
    (k.child env i).bind (fun c => c.toPublic env) = (k.toPublic env).bind (fun K => K.child env i) := by
  by_cases hd : k.depth < 255
  · cases hpv : detectPubVersion k.version with
    | some pv => exact neuter_commutes_aux L env hlen hh160 k pk hk hc hv hcc hfp hd hcn pv hpv hA (hB pv hpv) i hi
    | none =>
      rw [toPublic_unknown_version env k hpv]
      cases hch : k.child env i with
      | none => rfl
      | some c =>
        have := (child_fields env k c i false hch).1
        simp only [Option.bind_some, Option.bind_none]
        exact toPublic_unknown_version env c (by rw [this]; exact hpv)
  · rw [child_depth_overflow env k (by omega)]
    cases hT : k.toPublic env with
    | none => rfl
    | some K =>
      have := (toPublic_fields env k K none hT).1
      simp only [Option.bind_some, Option.bind_none]
      exact (child_depth_overflow env K (by omega) i false).symm

end Embit.Keys
