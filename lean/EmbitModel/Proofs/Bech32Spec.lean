import EmbitModel.Proofs.Address
/-
  The model's bech32 / segwit encoder equals the BIP173/BIP350 specification text (`Spec.Bech32`), and the
  model's address texts equal `Spec.Address.addressOf`.
-/
namespace Embit.Model.Bech32
open Embit Digits

theorem hrpExpand_eq_spec (hrp : List Char) : Spec.Bech32.hrpExpand hrp = hrpExpand hrp := by
  unfold Spec.Bech32.hrpExpand hrpExpand
  congr 1
  · congr 1
    apply List.map_congr_left; intro c _
    rw [Nat.shiftRight_eq_div_pow]
  · apply List.map_congr_left; intro c _
    exact (Nat.and_two_pow_sub_one_eq_mod c.toNat 5).symm

theorem testBit_iff (b i : Nat) : b.testBit i = true ↔ (b >>> i) &&& 1 = 1 := by
  unfold Nat.testBit
  rw [Nat.and_comm, Nat.and_one_is_mod]
  simp only [bne_iff_ne, ne_eq]
  omega

theorem sel_eq (b i g c : Nat) : (if b.testBit i then c ^^^ g else c) = c ^^^ (if (b >>> i) &&& 1 = 1 then g else 0) := by
  by_cases h : b.testBit i = true
  · rw [if_pos h, if_pos ((testBit_iff b i).mp h)]
  · have : ¬ ((b >>> i) &&& 1 = 1) := fun e => h ((testBit_iff b i).mpr e)
    rw [if_neg h, if_neg this, Nat.xor_zero]

theorem step_eq_spec (chk v : Nat) : Spec.Bech32.step chk v = polymodStep chk v := by
  unfold Spec.Bech32.step
  rw [polymodStep_eq]
  have : List.range 5 = [0, 1, 2, 3, 4] := by decide
  simp only [this, List.foldl_cons, List.foldl_nil, Spec.Bech32.gen, List.getD_cons_zero, List.getD_cons_succ, sel_eq,
    gsel, Nat.xor_assoc]

theorem polymod_eq_spec (vs : List Nat) : Spec.Bech32.polymod vs = polymod vs := by
  unfold Spec.Bech32.polymod polymod polymodFrom
  congr 1
  funext a b
  exact step_eq_spec a b

theorem checksum_eq_spec (e : Encoding) (hrp : List Char) (data : List Nat) :
    Spec.Bech32.checksum e.const hrp data = createChecksum e hrp data := by
  rw [createChecksum_eq]
  unfold Spec.Bech32.checksum
  simp only [polymod_eq_spec, hrpExpand_eq_spec, fixedBE, List.nil_append, List.cons_append,
    Nat.div_div_eq_div_mul]
  rfl

theorem charset_eq_spec : Spec.Bech32.charset = charset := by decide

theorem chr_eq_spec (d : Nat) (h : d < 32) : Spec.Bech32.charset.getD d '?' = chr d := by
  have hl : d < charset.length := by rw [charset_length]; exact h
  simp [chr, charset_eq_spec, List.getD_eq_getElem?_getD, hl]

theorem encode_eq_spec (e : Encoding) (hrp : List Char) (data : List Nat) (hd : ∀ d ∈ data, d < 32) :
    Spec.Bech32.encode e.const hrp data = hrp ++ ['1'] ++ (data ++ createChecksum e hrp data).map chr := by
  unfold Spec.Bech32.encode
  rw [checksum_eq_spec]
  congr 1
  apply List.map_congr_left
  intro d hd'
  apply chr_eq_spec
  simp only [List.mem_append] at hd'
  rcases hd' with h | h
  · exact hd d h
  · exact createChecksum_lt e hrp data d h

theorem digitsFixed_eq (B k n : Nat) : Spec.Bech32.digitsFixed B k n = fixedBE B k n := by
  induction k generalizing n with
  | zero => rfl
  | succ k ih => simp [Spec.Bech32.digitsFixed, fixedBE, ih]

theorem value_eq_spec (b : Bytes) : Spec.Bech32.value b = ofBE 256 (b.map UInt8.toNat) := by
  unfold Spec.Bech32.value ofBE
  rw [List.foldl_map]
  congr 1
  funext a x
  rw [Nat.mul_comm]

theorem toBase32_eq (prog : Bytes) : Spec.Bech32.toBase32 prog = Address.convOf prog := by
  have hb : ∀ v ∈ prog.map UInt8.toNat, v < 256 := by
    intro v hv; simp at hv; obtain ⟨x, _, rfl⟩ := hv; exact x.toNat_lt
  obtain ⟨k, p, hk, hp, hc⟩ := convertbits_8_5 (prog.map UInt8.toNat) hb
  simp only [List.length_map] at hk
  unfold Address.convOf Spec.Bech32.toBase32
  rw [hc]
  simp only [Option.getD_some, digitsFixed_eq, value_eq_spec]
  have e1 : (8 * prog.length + 4) / 5 = k := by omega
  have e2 : 5 * k - 8 * prog.length = p := by omega
  rw [e1, e2]

theorem variantOf_eq (ver : Nat) : Spec.Bech32.variantOf ver = (encOf ver).const := by
  unfold Spec.Bech32.variantOf encOf
  by_cases h : ver = 0 <;> simp [h, Encoding.const, Spec.Bech32.bech32, Spec.Bech32.bech32m, bech32Const, bech32mConst]

theorem convOf_lt (prog : Bytes) : ∀ x ∈ Address.convOf prog, x < 32 := by
  have hb : ∀ v ∈ prog.map UInt8.toNat, v < 256 := by
    intro v hv; simp at hv; obtain ⟨x, _, rfl⟩ := hv; exact x.toNat_lt
  obtain ⟨k, p, _, _, hc⟩ := convertbits_8_5 (prog.map UInt8.toNat) hb
  unfold Address.convOf
  rw [hc]
  exact fixedBE_lt (by decide) k _

/-- the model's segwit text is the BIP173/BIP350 encoding -/
theorem segwitText_eq_spec (hrp : List Char) (ver : Nat) (prog : Bytes) (hv : ver < 32) :
    segwitText hrp ver (Address.convOf prog) = Spec.Bech32.segwitEncode hrp ver prog := by
  unfold Spec.Bech32.segwitEncode segwitText
  rw [variantOf_eq, toBase32_eq, encode_eq_spec]
  intro d hd
  simp at hd
  rcases hd with rfl | hd
  · exact hv
  · exact convOf_lt prog d hd

end Embit.Model.Bech32

namespace Embit.Model.Address
open Embit Spec.Address

theorem textOf_eq_spec (sha : Bytes → Bytes) (net : Network) (hn : NetOk net) (s : Std) :
    textOf (fun x => sha (sha x)) net s = addressOf sha (paramsOf net) s := by
  have hp : net.p2pkh = [net.p2pkh.headD 0] := by
    have := hn.pkh1
    match h : net.p2pkh with
    | [a] => rfl
    | [] => simp [h] at this
    | _ :: _ :: _ => simp [h] at this
  have hs : net.p2sh = [net.p2sh.headD 0] := by
    have := hn.sh1
    match h : net.p2sh with
    | [a] => rfl
    | [] => simp [h] at this
    | _ :: _ :: _ => simp [h] at this
  cases s with
  | p2pkh h =>
    simp only [textOf, addressOf, paramsOf]
    rw [Base58.encodeCheck_eq_spec]
    conv => lhs; rw [hp]
    rfl
  | p2sh h =>
    simp only [textOf, addressOf, paramsOf]
    rw [Base58.encodeCheck_eq_spec]
    conv => lhs; rw [hs]
    rfl
  | p2wpkh h => simp only [textOf, addressOf, paramsOf]; exact Bech32.segwitText_eq_spec _ 0 h (by decide)
  | p2wsh h => simp only [textOf, addressOf, paramsOf]; exact Bech32.segwitText_eq_spec _ 0 h (by decide)
  | p2tr h => simp only [textOf, addressOf, paramsOf]; exact Bech32.segwitText_eq_spec _ 1 h (by decide)

end Embit.Model.Address
