import EmbitModel.Proofs.Slip39Bits
/-
  `Share.mnemonic` / `Share.parse` (integer arithmetic) versus the bit-list layout of the SLIP-0039 text
  (`Spec.Slip39.encodeShare` / `decodeShare`).
-/
namespace Embit.Model.Slip39
open Embit Embit.Spec.Slip39

/-- the fields of the standard's layout carried by a share object of embit: embit's five-bit `exponent` is the
    extendable-backup flag followed by the four-bit iteration exponent -/
def Share.toFields (s : Share) : ShareFields :=
  ⟨s.id, s.exponent / 16, s.exponent % 16, s.groupIndex, s.groupThreshold, s.groupCount, s.memberIndex,
   s.memberThreshold, s.bytes⟩

theorem headerBits_length (f : ShareFields) : (headerBits f).length = 40 := by
  simp [headerBits, bitsBE_length]

theorem natOfBits_headerBits (f : ShareFields) :
    natOfBitsBE (headerBits f) =
      ((((((f.id % 2 ^ 15 * 2 + f.ext % 2) * 16 + f.e % 16) * 16 + f.GI % 16) * 16 + (f.Gt - 1) % 16) * 16 +
        (f.g - 1) % 16) * 16 + f.I % 16) * 16 + (f.t - 1) % 16 := by
  simp only [headerBits, natOfBits_append, natOfBits_bitsBE, bitsBE_length]
  norm_num

theorem allBits_eq (s : Share) (h : s.WF) (m : Nat) (hm : (10 - s.shareBitLength % 10) % 10 + s.shareBitLength = 10 * m) :
    s.value < 2 ^ s.shareBitLength ∧
    s.allBits = natOfBitsBE (headerBits s.toFields) * 1024 ^ m + s.value := by
  obtain ⟨hinit, hid, he, h16, h128⟩ := h
  obtain ⟨L, id, e, gi, gt, gc, mi, mt, value⟩ := s
  simp only [Share.initOk, Bool.and_eq_true, Bool.not_eq_true', decide_eq_false_iff_not, Bool.or_eq_false_iff,
    decide_eq_true_eq, Nat.not_lt] at hinit
  simp only at hid he h16 h128 hm
  obtain ⟨⟨⟨⟨⟨hgi, hgt1, hgt2⟩, hgc1, hgc2⟩, hmi⟩, hmt1, hmt2⟩, hval⟩ := hinit
  have hval2 : value < 2 ^ L := by
    have h8 : 8 * (L / 8) = L := by omega
    rw [pow256, h8] at hval; exact hval
  have hvalue : value < 1024 ^ m := by
    rw [← pow1024]
    exact Nat.lt_of_lt_of_le hval2 (Nat.pow_le_pow_right (by decide) (by omega))
  refine ⟨hval2, ?_⟩
  rw [natOfBits_headerBits]
  simp only [Share.allBits, Share.toFields]
  rw [or_eq_add id e 5 he, or_eq_add _ gi 4 (by omega), or_eq_add _ (gt - 1) 4 (by omega),
    or_eq_add _ (gc - 1) 4 (by omega), or_eq_add _ mi 4 (by omega), or_eq_add _ (mt - 1) 4 (by omega), hm]
  rw [or_eq_add _ value (10 * m) (by rw [pow1024]; exact hvalue), pow1024]
  refine congrArg (fun x => x * 1024 ^ m + value) ?_
  omega


/-- the data words of the standard's layout (header bits, zero padding, value bits, chopped into ten-bit words)
    are the words embit computes with shifts on one big integer -/
theorem dataWords_toFields (s : Share) (h : s.WF) :
    dataWords s.toFields =
      wordsOfBits s.allBits (4 + ((10 - s.shareBitLength % 10) % 10 + s.shareBitLength) / 10) := by
  obtain ⟨m, hm⟩ : ∃ m, (10 - s.shareBitLength % 10) % 10 + s.shareBitLength = 10 * m :=
    ⟨((10 - s.shareBitLength % 10) % 10 + s.shareBitLength) / 10, by omega⟩
  obtain ⟨hval, hA⟩ := allBits_eq s h m hm
  have hL8 : 8 * (s.shareBitLength / 8) = s.shareBitLength := by have := h.sbl16; omega
  have hvlen : (s.toFields.value.flatMap fun b => bitsBE 8 b.toNat).length = s.shareBitLength := by
    rw [flatMap_bits8_length]; simp [Share.toFields, Share.bytes, hL8]
  have hvnat : natOfBitsBE (s.toFields.value.flatMap fun b => bitsBE 8 b.toNat) = s.value := by
    rw [natOfBits_flatMap8]
    simp only [Share.toFields, Share.bytes]
    exact ofBe_beN _ _ (by rw [pow256, hL8]; exact hval)
  unfold dataWords
  simp only [hvlen]
  generalize hvb : (s.toFields.value.flatMap fun b => bitsBE 8 b.toNat) = vbits at hvlen hvnat
  have hlen : (headerBits s.toFields ++ List.replicate ((10 - s.shareBitLength % 10) % 10) false ++ vbits).length
      = 10 * (4 + m) := by
    simp only [List.length_append, headerBits_length, List.length_replicate, hvlen]; omega
  have hq : ((10 - s.shareBitLength % 10) % 10 + s.shareBitLength) / 10 = m := by omega
  rw [hlen, hq, show 10 * (4 + m) / 10 = 4 + m by omega, words10_eq _ _ hlen]
  refine congrArg (fun x => wordsOfBits x (4 + m)) ?_
  rw [natOfBits_append, natOfBits_append, natOfBits_replicate_false, hvnat, hvlen, hA, Nat.add_zero,
    Nat.mul_assoc, ← Nat.pow_add, List.length_replicate, hm, pow1024]

/-- `Share.mnemonic` = the standard's data words followed by embit's checksum (customisation string "shamir"
    whatever the extendable-backup bit says) -/
theorem mnemonic_eq_dataWords (s : Share) (h : s.WF) :
    s.mnemonic = dataWords s.toFields ++ rs1024Create csShamir (dataWords s.toFields) := by
  rw [dataWords_toFields s h]; rfl

theorem dataWords_lt (s : Share) (h : s.WF) : ∀ w ∈ dataWords s.toFields, w < 1024 := by
  rw [dataWords_toFields s h]; exact wordsOfBits_lt _ _

/-- **`Share.mnemonic` is the standard's `encodeShare`** for iteration exponents below 16 (extendable flag 0) -/
theorem mnemonic_eq_encodeShare (s : Share) (h : s.WF) (he : s.exponent < 16) :
    s.mnemonic = encodeShare s.toFields := by
  rw [mnemonic_eq_dataWords s h, create_eq_spec _ (dataWords_lt s h)]
  unfold encodeShare
  have : s.toFields.ext = 0 := by simp only [Share.toFields]; omega
  rw [this]

/-! ### decoding -/

/-- embit's share object for the fields of the standard -/
def Share.ofFields (f : ShareFields) : Share :=
  ⟨8 * f.value.length, f.id, 16 * f.ext + f.e, f.GI, f.Gt, f.g, f.I, f.t, ofBe f.value⟩

theorem fld_eq (bits : List Bool) (m : Nat) (hlen : bits.length = 40 + 10 * m) (off w : Nat) (h : off + w ≤ 40) :
    natOfBitsBE ((bits.drop off).take w) = natOfBitsBE bits / 2 ^ (10 * m + (40 - off - w)) % 2 ^ w := by
  rw [natOfBits_slice bits off w (by omega), hlen]
  congr 3; omega

/-- the value bytes the standard reads from the value bits = big-endian bytes of their number -/
theorem valueBytes_eq (vbits : List Bool) (n : Nat) (hlen : vbits.length = 8 * n) :
    ((List.range (vbits.length / 8)).map fun k => UInt8.ofNat (natOfBitsBE ((vbits.drop (8 * k)).take 8)))
      = beN n (natOfBitsBE vbits) := by
  rw [beN_eq_map, hlen, show 8 * n / 8 = n by omega]
  apply List.map_congr_left
  intro k hk
  rw [List.mem_range] at hk
  rw [natOfBits_slice vbits (8 * k) 8 (by omega), hlen, pow256]
  congr 4; omega

/-- the part of `decodeShare` after the checksum test, as arithmetic on the number spelled by the data bits -/
theorem decode_body (ext : Nat) (bits : List Bool) (m : Nat) (hlen : bits.length = 40 + 10 * m) :
    (let fld (off w : Nat) : Nat := natOfBitsBE ((bits.drop off).take w)
     let vbitsPadded := bits.drop 40
     let pad := vbitsPadded.length % 16
     if pad > 8 then none else
     if (vbitsPadded.take pad).any id then none else
     let vbits := vbitsPadded.drop pad
     let Gt := fld 24 4 + 1
     let g := fld 28 4 + 1
     if Gt > g then none else
     some (ShareFields.mk (fld 0 15) ext (fld 16 4) (fld 20 4) Gt g (fld 32 4) (fld 36 4 + 1)
            ((List.range (vbits.length / 8)).map fun k =>
              UInt8.ofNat (natOfBitsBE ((vbits.drop (8 * k)).take 8)))))
    = (let N := natOfBitsBE bits
       let pad := 10 * m % 16
       let sbl := 10 * m - pad
       if pad > 8 then none else
       if N / 2 ^ sbl % 2 ^ pad ≠ 0 then none else
       if N / 2 ^ (10 * m + 12) % 16 + 1 > N / 2 ^ (10 * m + 8) % 16 + 1 then none else
       some ⟨N / 2 ^ (10 * m + 25) % 2 ^ 15, ext, N / 2 ^ (10 * m + 20) % 16, N / 2 ^ (10 * m + 16) % 16,
             N / 2 ^ (10 * m + 12) % 16 + 1, N / 2 ^ (10 * m + 8) % 16 + 1, N / 2 ^ (10 * m + 4) % 16,
             N / 2 ^ (10 * m) % 16 + 1, beN (sbl / 8) (N % 2 ^ sbl)⟩) := by
  have hd : (bits.drop 40).length = 10 * m := by rw [List.length_drop]; omega
  simp only [hd]
  by_cases hp : 10 * m % 16 > 8
  · simp only [hp, if_true]
  simp only [hp, if_false]
  have hpad : natOfBitsBE ((bits.drop 40).take (10 * m % 16)) =
      natOfBitsBE bits / 2 ^ (10 * m - 10 * m % 16) % 2 ^ (10 * m % 16) := by
    rw [natOfBits_slice bits 40 _ (by omega), hlen]
    congr 3; omega
  have hany : ((bits.drop 40).take (10 * m % 16)).any id = true ↔
      natOfBitsBE bits / 2 ^ (10 * m - 10 * m % 16) % 2 ^ (10 * m % 16) ≠ 0 := by
    rw [← hpad, ne_eq, natOfBits_eq_zero]; simp
  by_cases hz : natOfBitsBE bits / 2 ^ (10 * m - 10 * m % 16) % 2 ^ (10 * m % 16) ≠ 0
  · rw [if_pos (hany.mpr hz), if_pos hz]
  rw [if_neg (fun h => hz (hany.mp h)), if_neg hz]
  have hvl : ((bits.drop 40).drop (10 * m % 16)).length = 8 * ((10 * m - 10 * m % 16) / 8) := by
    rw [List.length_drop, hd]; omega
  have hvn : natOfBitsBE ((bits.drop 40).drop (10 * m % 16)) = natOfBitsBE bits % 2 ^ (10 * m - 10 * m % 16) := by
    rw [List.drop_drop, natOfBits_drop bits _ (by omega), hlen]
    congr 2; omega
  rw [valueBytes_eq _ _ hvl, hvn]
  rw [fld_eq bits m hlen 24 4 (by omega), fld_eq bits m hlen 28 4 (by omega), fld_eq bits m hlen 0 15 (by omega),
    fld_eq bits m hlen 16 4 (by omega), fld_eq bits m hlen 20 4 (by omega), fld_eq bits m hlen 32 4 (by omega),
    fld_eq bits m hlen 36 4 (by omega)]
  rfl


theorem div_header (H v m j : Nat) (hv : v < 1024 ^ m) : (H * 1024 ^ m + v) / 2 ^ (10 * m + j) = H / 2 ^ j := by
  rw [Nat.pow_add, pow1024, ← Nat.div_div_eq_div_mul, Nat.add_comm, Nat.add_mul_div_right _ _ (Nat.pow_pos (by decide)),
    Nat.div_eq_of_lt hv, Nat.zero_add]

theorem headerOf_arith (i0 i1 i2 i3 L V : Nat) (_h0 : i0 < 1024) (h1 : i1 < 1024) (_h2 : i2 < 1024) (h3 : i3 < 1024) :
    headerOf i0 i1 i2 i3 L V =
      ⟨L, i0 * 32 + i1 / 32, i1 % 32, i2 / 64, i2 / 4 % 16 + 1, i2 % 4 * 4 + i3 / 256 + 1, i3 / 16 % 16, i3 % 16 + 1, V⟩ := by
  have a31 : ∀ x : Nat, x &&& 31 = x % 32 := fun x => Nat.and_two_pow_sub_one_eq_mod x 5
  have a15 : ∀ x : Nat, x &&& 15 = x % 16 := fun x => Nat.and_two_pow_sub_one_eq_mod x 4
  have a3 : ∀ x : Nat, x &&& 3 = x % 4 := fun x => Nat.and_two_pow_sub_one_eq_mod x 2
  have fid : (i0 <<< 5) ||| (i1 >>> 5) = i0 * 32 + i1 / 32 := by
    rw [or_eq_add _ _ 5 (by rw [Nat.shiftRight_eq_div_pow]; omega), Nat.shiftRight_eq_div_pow]; norm_num
  have fgc : ((i2 &&& 3) <<< 2) ||| (i3 >>> 8) = i2 % 4 * 4 + i3 / 256 := by
    rw [a3, or_eq_add _ _ 2 (by rw [Nat.shiftRight_eq_div_pow]; omega), Nat.shiftRight_eq_div_pow]; norm_num
  simp only [headerOf, fid, fgc, a31, a15]
  simp only [Nat.shiftRight_eq_div_pow]

/-- fewer than 20 words are never parsed -/
theorem parse_short (idx : List Nat) (h : idx.length < 20) : Share.parse idx = none := by
  cases hp : Share.parse idx with
  | none => rfl
  | some s =>
    obtain ⟨i0, i1, i2, i3, rest, rfl, _, hl, _, h128, _⟩ := parse_inv idx s hp
    simp only [List.length_cons] at h
    omega

theorem exists_four {α : Type} (l : List α) (h : 4 ≤ l.length) : ∃ a b c d r, l = a :: b :: c :: d :: r := by
  match l, h with
  | a :: b :: c :: d :: r, _ => exact ⟨a, b, c, d, r, rfl⟩

/-- **`Share.parse` is the standard's `decodeShare`** on every word sequence whose extendable-backup bit (bit 4 of
    the second word) is 0 -/
theorem parse_eq_decodeShare (idx : List Nat) (hw : ∀ w ∈ idx, w < 1024) (hext : (idx.getD 1 0 >>> 4) &&& 1 = 0) :
    Share.parse idx = (decodeShare idx).map Share.ofFields := by
  by_cases hlen : idx.length < 20
  · rw [parse_short idx hlen]; unfold decodeShare; simp [hlen]
  obtain ⟨i0, i1, i2, i3, rest, rfl⟩ := exists_four idx (by omega)
  unfold decodeShare
  simp only [hlen, if_false, hext, ← verify_eq_spec _ hw]
  cases hv : rs1024Verify csShamir (i0 :: i1 :: i2 :: i3 :: rest) with
  | false => unfold Share.parse; simp [hv]
  | true =>
    simp only [Bool.not_true, Bool.false_eq_true, if_false]
    · have h0 : i0 < 1024 := hw i0 (by simp)
      have h1 : i1 < 1024 := hw i1 (by simp)
      have h2 : i2 < 1024 := hw i2 (by simp)
      have h3 : i3 < 1024 := hw i3 (by simp)
      have hrest : ∀ w ∈ rest, w < 1024 := fun w hm => hw w (by simp [hm])
      simp only [List.length_cons] at hlen
      obtain ⟨m, hm⟩ : ∃ m, rest.length = m + 3 := ⟨rest.length - 3, by omega⟩
      have hm13 : 13 ≤ m := by omega
      have htake : (i0 :: i1 :: i2 :: i3 :: rest).take ((i0 :: i1 :: i2 :: i3 :: rest).length - 3) =
          i0 :: i1 :: i2 :: i3 :: rest.take m := by
        simp only [List.length_cons, hm, show m + 3 + 1 + 1 + 1 + 1 - 3 = m + 4 by omega, List.take_succ_cons]
      have hvw : ∀ w ∈ rest.take m, w < 1024 := fun w hm' => hrest w (List.mem_of_mem_take hm')
      have hvwl : (rest.take m).length = m := by rw [List.length_take]; omega
      have hdata : ∀ w ∈ i0 :: i1 :: i2 :: i3 :: rest.take m, w < 1024 := by
        intro w hw'; simp only [List.mem_cons] at hw'
        rcases hw' with rfl | rfl | rfl | rfl | h
        · exact h0
        · exact h1
        · exact h2
        · exact h3
        · exact hvw w h
      rw [htake]
      have hbl : ((i0 :: i1 :: i2 :: i3 :: rest.take m).flatMap (bitsBE 10)).length = 40 + 10 * m := by
        rw [flatMap_bits10_length]; simp only [List.length_cons, hvwl]; omega
      rw [decode_body _ _ m hbl, natOfBits_flatMap10 _ hdata]
      generalize hV : valueOfWords (rest.take m) = V
      have hVlt : V < 1024 ^ m := by rw [← hV, ← hvwl]; rw [hvwl]; have := valueOfWords_lt _ hvw; rwa [hvwl] at this
      obtain ⟨H, hH⟩ : ∃ H, H = ((i0 * 1024 + i1) * 1024 + i2) * 1024 + i3 := ⟨_, rfl⟩
      have hN : valueOfWords (i0 :: i1 :: i2 :: i3 :: rest.take m) = H * 1024 ^ m + V := by
        rw [valueOfWords_cons i0 _ h0 (fun w hw' => hdata w (List.mem_cons_of_mem _ hw')),
          valueOfWords_cons i1 _ h1 (fun w hw' => hdata w (List.mem_cons_of_mem _ (List.mem_cons_of_mem _ hw'))),
          valueOfWords_cons i2 _ h2 (fun w hw' => hdata w (List.mem_cons_of_mem _ (List.mem_cons_of_mem _ (List.mem_cons_of_mem _ hw')))),
          valueOfWords_cons i3 _ h3 hvw, hV, hH]
        simp only [List.length_cons, hvwl, Nat.pow_succ]
        ring
      rw [hN]
      -- arithmetic on the number spelled by the data words
      have hpadle : 10 * m % 16 ≤ 10 * m := Nat.mod_le _ _
      have hsplit : 1024 ^ m = 2 ^ (10 * m % 16) * 2 ^ (10 * m - 10 * m % 16) := by
        rw [← Nat.pow_add, ← pow1024]; congr 1; omega
      have hq : V / 2 ^ (10 * m - 10 * m % 16) < 2 ^ (10 * m % 16) := by
        rw [Nat.div_lt_iff_lt_mul (Nat.pow_pos (by decide)), ← hsplit]; exact hVlt
      have hpadv : (H * 1024 ^ m + V) / 2 ^ (10 * m - 10 * m % 16) % 2 ^ (10 * m % 16) =
          V / 2 ^ (10 * m - 10 * m % 16) := by
        rw [hsplit, ← Nat.mul_assoc, Nat.add_comm, Nat.add_mul_div_right _ _ (Nat.pow_pos (by decide)),
          Nat.add_mul_mod_self_right, Nat.mod_eq_of_lt hq]
      have hmodv : (H * 1024 ^ m + V) % 2 ^ (10 * m - 10 * m % 16) = V % 2 ^ (10 * m - 10 * m % 16) := by
        rw [hsplit, ← Nat.mul_assoc, Nat.add_comm, Nat.add_mul_mod_self_right]
      have hd0 : (H * 1024 ^ m + V) / 2 ^ (10 * m) = H := by
        have := div_header H V m 0 hVlt; simpa using this
      simp only [div_header H V m _ hVlt, hd0, hpadv, hmodv]
      -- the model side
      have e7 : (i0 :: i1 :: i2 :: i3 :: rest).length - 7 = m := by simp only [List.length_cons]; omega
      have c0 : ¬ ((i0 :: i1 :: i2 :: i3 :: rest).length < 7) := by simp only [List.length_cons]; omega
      have hr3 : rest.length - 3 = m := by omega
      have hsbl : m * 10 / 16 * 16 = 10 * m - 10 * m % 16 := by omega
      unfold Share.parse
      simp only [hv, Bool.not_true, Bool.false_eq_true, if_false, c0, e7, hr3, hV, hsbl, Nat.shiftRight_eq_div_pow]
      generalize hS : 10 * m - 10 * m % 16 = sbl at *
      have hi1 : i1 / 16 % 2 = 0 := by
        have := hext
        simp only [List.getD_cons_succ, List.getD_cons_zero, Nat.shiftRight_eq_div_pow] at this
        rw [Nat.and_one_is_mod] at this
        simpa using this
      by_cases hp : 10 * m % 16 > 8
      · rw [if_pos hp, Option.map_none]
        split_ifs <;> first | rfl | omega
      rw [if_neg hp]
      by_cases hz : V / 2 ^ sbl ≠ 0
      · rw [if_pos hz, if_pos hz, Option.map_none]
      rw [if_neg hz, if_neg hz, if_neg (by omega), if_neg (by omega)]
      have hVs : V < 2 ^ sbl := by
        have : V / 2 ^ sbl = 0 := by simpa using hz
        exact (Nat.div_eq_zero_iff.mp this).resolve_left (Nat.ne_of_gt (Nat.pow_pos (by decide)))
      rw [headerOf_arith i0 i1 i2 i3 sbl V h0 h1 h2 h3, Nat.mod_eq_of_lt hVs]
      have hs8 : 8 * (sbl / 8) = sbl := by omega
      have hV256 : V < 256 ^ (sbl / 8) := by rw [pow256, hs8]; exact hVs
      have hgt : H / 2 ^ 12 % 16 = i2 / 4 % 16 := by
        have : H / 2 ^ 12 = i0 * 262144 + i1 * 256 + i2 / 4 := by rw [hH]; omega
        rw [this]; omega
      have hgc : H / 2 ^ 8 % 16 = i2 % 4 * 4 + i3 / 256 := by
        have : H / 2 ^ 8 = i0 * 4194304 + i1 * 4096 + i2 * 4 + i3 / 256 := by rw [hH]; omega
        rw [this]; omega
      rw [hgt, hgc]
      by_cases hg : i2 / 4 % 16 + 1 > i2 % 4 * 4 + i3 / 256 + 1
      · rw [if_pos hg, Option.map_none]
        unfold Share.new?
        rw [if_neg]
        simp only [Share.initOk, Bool.and_eq_true, Bool.not_eq_true', decide_eq_false_iff_not, Bool.or_eq_false_iff,
          decide_eq_true_eq, Nat.not_lt]
        omega
      · rw [if_neg hg, Option.map_some]
        unfold Share.new?
        rw [if_pos]
        · simp only [Share.ofFields, beN_length, ofBe_beN _ _ hV256, hs8, Option.some.injEq, Share.mk.injEq, true_and,
            and_true]
          omega
        · simp only [Share.initOk, Bool.and_eq_true, Bool.not_eq_true', decide_eq_false_iff_not, Bool.or_eq_false_iff,
            decide_eq_true_eq, Nat.not_lt]
          omega


theorem decodeShare_fields (idx : List Nat) (f : ShareFields) (h : decodeShare idx = some f) :
    f.ext = (idx.getD 1 0 >>> 4) &&& 1 ∧ f.e < 16 := by
  unfold decodeShare at h
  simp only at h
  split at h
  · simp at h
  split at h
  · simp at h
  split at h
  · simp at h
  split at h
  · simp at h
  split at h
  · simp at h
  simp only [Option.some.injEq] at h
  subst h
  refine ⟨rfl, ?_⟩
  have := natOfBits_lt (((List.take (idx.length - 3) idx).flatMap (bitsBE 10)).drop 16 |>.take 4)
  have hl : (((List.take (idx.length - 3) idx).flatMap (bitsBE 10)).drop 16 |>.take 4).length ≤ 4 := by
    rw [List.length_take]; omega
  exact Nat.lt_of_lt_of_le this (Nat.pow_le_pow_right (by decide) hl)

theorem beN_ofBe_bytes (b : Bytes) : beN b.length (ofBe b) = b := by
  unfold beN ofBe
  have := leN_ofLe b.reverse
  rw [List.length_reverse] at this
  rw [this, List.reverse_reverse]

theorem toFields_ofFields (f : ShareFields) (he : f.e < 16) : (Share.ofFields f).toFields = f := by
  obtain ⟨id, ext, e, GI, Gt, g, I, t, value⟩ := f
  simp only [Share.toFields, Share.ofFields, Share.bytes, ShareFields.mk.injEq, true_and]
  simp only at he
  refine ⟨by omega, by omega, ?_⟩
  rw [show 8 * value.length / 8 = value.length by omega]
  exact beN_ofBe_bytes value

/-- … and conversely the standard's decoder is embit's parser followed by the field mapping -/
theorem decodeShare_eq_parse (idx : List Nat) (hw : ∀ w ∈ idx, w < 1024) (hext : (idx.getD 1 0 >>> 4) &&& 1 = 0) :
    decodeShare idx = (Share.parse idx).map Share.toFields := by
  rw [parse_eq_decodeShare idx hw hext]
  cases hd : decodeShare idx with
  | none => rfl
  | some f =>
    simp only [Option.map_some, Option.some.injEq]
    exact (toFields_ofFields f (decodeShare_fields idx f hd).2).symm

theorem create_lt (cs data : List Nat) : ∀ w ∈ rs1024Create cs data, w < 1024 := by
  intro w hw
  simp only [rs1024Create, List.mem_cons, List.not_mem_nil, or_false] at hw
  rcases hw with rfl | rfl | rfl <;> (rw [and1023]; exact Nat.mod_lt _ (by decide))

theorem mnemonic_lt (s : Share) : ∀ w ∈ s.mnemonic, w < 1024 := by
  intro w hw
  simp only [Share.mnemonic, List.mem_append] at hw
  rcases hw with h | h
  · exact wordsOfBits_lt _ _ w h
  · exact create_lt _ _ w h

/-- the extendable-backup bit of a printed share is bit 4 of embit's `exponent` field -/
theorem mnemonic_extbit (s : Share) (h : s.WF) : (s.mnemonic.getD 1 0 >>> 4) &&& 1 = s.exponent / 16 := by
  have hp := share_text_roundtrip s h
  obtain ⟨i0, i1, i2, i3, rest, hidx, _, _, _, _, _, hs, _⟩ := parse_inv _ s hp
  have hlt := mnemonic_lt s
  rw [hidx] at hlt ⊢
  have h1 : i1 < 1024 := hlt i1 (by simp)
  have he : s.exponent = i1 % 32 := by
    rw [hs]; simp only [headerOf]; exact Nat.and_two_pow_sub_one_eq_mod i1 5
  simp only [List.getD_cons_succ, List.getD_cons_zero, Nat.shiftRight_eq_div_pow]
  rw [Nat.and_one_is_mod, he]
  omega

/-- the standard's decoder inverts the standard's encoder on the fields of every well-formed share with
    extendable flag 0 (a statement about the spec alone, obtained through the model) -/
theorem decode_encodeShare (s : Share) (h : s.WF) (he : s.exponent < 16) :
    decodeShare (encodeShare s.toFields) = some s.toFields := by
  rw [← mnemonic_eq_encodeShare s h he,
    decodeShare_eq_parse _ (mnemonic_lt s) (by rw [mnemonic_extbit s h]; omega), share_text_roundtrip s h]
  rfl

end Embit.Model.Slip39
