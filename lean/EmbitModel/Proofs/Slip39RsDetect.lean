import EmbitModel.Proofs.Slip39RsRank0
import EmbitModel.Proofs.Slip39RsRank1
import EmbitModel.Proofs.Slip39RsRank2
import EmbitModel.Proofs.Slip39RsRank3
import EmbitModel.Proofs.Slip39RsRank4
import EmbitModel.Proofs.Slip39RsRank5
import EmbitModel.Proofs.Slip39RsRank6
import EmbitModel.Proofs.Slip39RsRank7
import EmbitModel.Proofs.Slip39RsRank8
import EmbitModel.Proofs.Slip39RsRank9
import EmbitModel.Proofs.Slip39RsRank10
/-
  RS1024 detects every error pattern touching at most three words of a share of at most 33 words:
  two word sequences that both verify and agree outside three positions are equal.
  Syndrome of an error pattern = XOR of T^d(e_j) (XOR-linearity of the step); for every position triple the 30
  vectors T^d(2^i) are linearly independent over GF(2) (5 456 kernel-evaluated eliminations, Slip39RsRank*).
-/
namespace Embit.Model.Slip39

theorem eq_of_xor_eq_zero' {a b : Nat} (h : a ^^^ b = 0) : a = b := by
  have : (a ^^^ b) ^^^ b = 0 ^^^ b := by rw [h]
  rwa [Nat.xor_assoc, Nat.xor_self, Nat.xor_zero, Nat.zero_xor] at this

theorem rs1024Step_eq (a v : Nat) : rs1024Step a v = T a ^^^ v := by
  have := rs1024Step_xor a 0 0 v
  rw [Nat.xor_zero, Nat.zero_xor, rs1024Step_zero_left] at this
  exact this

theorem T_xor (x y : Nat) : T (x ^^^ y) = T x ^^^ T y := by
  have := rs1024Step_xor x y 0 0
  simpa [T] using this

theorem T_zero : T 0 = 0 := rs1024Step_zero

theorem Tpow_xor (d x y : Nat) : Tpow d (x ^^^ y) = Tpow d x ^^^ Tpow d y := by
  induction d generalizing x y with
  | zero => rfl
  | succ d ih => simp only [Tpow, T_xor, ih]

theorem Tpow_zero (d : Nat) : Tpow d 0 = 0 := by
  induction d with
  | zero => rfl
  | succ d ih => simp only [Tpow, T_zero, ih]

theorem Tpow_add (a b c : Nat) : Tpow (a + b) c = Tpow a (Tpow b c) := by
  induction b generalizing c with
  | zero => rfl
  | succ b ih => rw [← Nat.add_assoc]; simp only [Tpow]; exact ih (T c)

theorem foldl_zeros (n : Nat) (a : Nat) (l : List Nat) :
    (List.replicate n 0 ++ l).foldl rs1024Step a = l.foldl rs1024Step (Tpow n a) := by
  induction n generalizing a with
  | zero => rfl
  | succ n ih => simp only [List.replicate_succ, List.cons_append, List.foldl_cons, Tpow]; exact ih (T a)

/-- syndrome of an error pattern with (at most) three non-zero symbols -/
theorem syndrome3 (e1 e2 e3 b c d : Nat) :
    (e1 :: (List.replicate b 0 ++ e2 :: (List.replicate c 0 ++ e3 :: List.replicate d 0))).foldl rs1024Step 0 =
      Tpow (b + 1 + c + 1 + d) e1 ^^^ Tpow (c + 1 + d) e2 ^^^ Tpow d e3 := by
  rw [List.foldl_cons, rs1024Step_zero_left, foldl_zeros, List.foldl_cons, rs1024Step_eq, foldl_zeros,
    List.foldl_cons, rs1024Step_eq]
  have h := foldl_zeros d (T (Tpow c (T (Tpow b e1) ^^^ e2)) ^^^ e3) []
  rw [List.append_nil] at h
  rw [h]
  have t1 : ∀ n x, Tpow n (T x) = Tpow (n + 1) x := fun n x => rfl
  simp only [List.foldl_nil, Tpow_xor, t1, ← Tpow_add]
  rw [show d + 1 + (c + 1 + b) = b + 1 + c + 1 + d by omega, show d + 1 + c = c + 1 + d by omega]

/-! ### bits -/

def bits10 (e : Nat) : List Bool :=
  [e.testBit 0, e.testBit 1, e.testBit 2, e.testBit 3, e.testBit 4, e.testBit 5, e.testBit 6, e.testBit 7,
   e.testBit 8, e.testBit 9]

set_option maxRecDepth 100000 in
theorem comb_bits10 : ∀ e < 1024, comb (bits10 e) pow2s = e := by decide +kernel

set_option maxRecDepth 100000 in
theorem bits10_false : ∀ e < 1024, (∀ b ∈ bits10 e, b = false) → e = 0 := by decide +kernel

theorem comb_map (f : Nat → Nat) (f0 : f 0 = 0) (fx : ∀ x y, f (x ^^^ y) = f x ^^^ f y) (bs : List Bool) (cs : List Nat) :
    f (comb bs cs) = comb bs (cs.map f) := by
  induction bs generalizing cs with
  | nil => simp [comb, f0]
  | cons b bs ih =>
    cases cs with
    | nil => simp [comb, f0]
    | cons c cs =>
      simp only [comb, List.map_cons, fx, ih]
      cases b <;> simp [f0]

theorem comb_append (b1 b2 : List Bool) (c1 c2 : List Nat) (h : b1.length = c1.length) :
    comb (b1 ++ b2) (c1 ++ c2) = comb b1 c1 ^^^ comb b2 c2 := by
  induction b1 generalizing c1 with
  | nil => cases c1 with
    | nil => simp [comb]
    | cons _ _ => simp at h
  | cons b b1 ih => cases c1 with
    | nil => simp at h
    | cons c c1 =>
      simp only [List.length_cons, Nat.add_right_cancel_iff] at h
      simp only [List.cons_append, comb, ih c1 h, Nat.xor_assoc]

theorem Tpow_eq_comb (d e : Nat) (hd : d < 33) (he : e < 1024) : Tpow d e = comb (bits10 e) (colsTbl d) := by
  rw [tpowTable_correct d hd, ← comb_map (Tpow d) (Tpow_zero d) (Tpow_xor d), comb_bits10 e he]

theorem tripleOk_all : ∀ d1 < 33, tripleOk d1 = true := by
  intro d1 h
  have : d1 = 0 ∨ d1 = 1 ∨ d1 = 2 ∨ d1 = 3 ∨ d1 = 4 ∨ d1 = 5 ∨ d1 = 6 ∨ d1 = 7 ∨ d1 = 8 ∨ d1 = 9 ∨ d1 = 10 ∨
      d1 = 11 ∨ d1 = 12 ∨ d1 = 13 ∨ d1 = 14 ∨ d1 = 15 ∨ d1 = 16 ∨ d1 = 17 ∨ d1 = 18 ∨ d1 = 19 ∨ d1 = 20 ∨
      d1 = 21 ∨ d1 = 22 ∨ d1 = 23 ∨ d1 = 24 ∨ d1 = 25 ∨ d1 = 26 ∨ d1 = 27 ∨ d1 = 28 ∨ d1 = 29 ∨ d1 = 30 ∨
      d1 = 31 ∨ d1 = 32 := by omega
  rcases this with h | h | h | h | h | h | h | h | h | h | h | h | h | h | h | h | h | h | h | h | h | h | h | h |
    h | h | h | h | h | h | h | h | h <;> subst h
  · exact tripleOk_0
  · exact tripleOk_1
  · exact tripleOk_2
  · exact tripleOk_3
  · exact tripleOk_4
  · exact tripleOk_5
  · exact tripleOk_6
  · exact tripleOk_7
  · exact tripleOk_8
  · exact tripleOk_9
  · exact tripleOk_10
  · exact tripleOk_11
  · exact tripleOk_12
  · exact tripleOk_13
  · exact tripleOk_14
  · exact tripleOk_15
  · exact tripleOk_16
  · exact tripleOk_17
  · exact tripleOk_18
  · exact tripleOk_19
  · exact tripleOk_20
  · exact tripleOk_21
  · exact tripleOk_22
  · exact tripleOk_23
  · exact tripleOk_24
  · exact tripleOk_25
  · exact tripleOk_26
  · exact tripleOk_27
  · exact tripleOk_28
  · exact tripleOk_29
  · exact tripleOk_30
  · exact tripleOk_31
  · exact tripleOk_32

theorem colsTbl_length (d : Nat) (hd : d < 33) : (colsTbl d).length = 10 := by
  rw [tpowTable_correct d hd]; rfl

/-- no non-trivial error pattern on three positions has syndrome zero -/
theorem syndrome_nonzero (d1 d2 d3 e1 e2 e3 : Nat) (h1 : d1 < 33) (h2 : d2 < d1) (h3 : d3 < d2)
    (he1 : e1 < 1024) (he2 : e2 < 1024) (he3 : e3 < 1024)
    (h0 : Tpow d1 e1 ^^^ Tpow d2 e2 ^^^ Tpow d3 e3 = 0) : e1 = 0 ∧ e2 = 0 ∧ e3 = 0 := by
  have hok := tripleOk_all d1 h1
  simp only [tripleOk, List.all_eq_true, List.mem_range] at hok
  have hel := hok d2 h2 d3 h3
  rw [Tpow_eq_comb d1 e1 h1 he1, Tpow_eq_comb d2 e2 (by omega) he2, Tpow_eq_comb d3 e3 (by omega) he3,
    ← comb_append _ _ _ _ (by simp [bits10, colsTbl_length d1 h1]),
    ← comb_append _ _ _ _ (by simp [bits10, colsTbl_length d1 h1, colsTbl_length d2 (by omega)])] at h0
  have hall := elimF_sound 30 _ hel (bits10 e1 ++ bits10 e2 ++ bits10 e3)
    (by simp [bits10, colsTbl_length d1 h1, colsTbl_length d2 (by omega), colsTbl_length d3 (by omega)]) h0
  refine ⟨bits10_false e1 he1 ?_, bits10_false e2 he2 ?_, bits10_false e3 he3 ?_⟩
  · intro b hb; exact hall b (by simp [hb])
  · intro b hb; exact hall b (by simp [hb])
  · intro b hb; exact hall b (by simp [hb])

theorem xorList_self (l : List Nat) : xorList l l = List.replicate l.length 0 := by
  induction l with
  | nil => rfl
  | cons a l ih =>
    simp only [xorList] at ih
    simp only [xorList, List.zipWith_cons_cons, Nat.xor_self, List.length_cons, List.replicate_succ, ih]

theorem xorList_append (a b c d : List Nat) (h : a.length = c.length) :
    xorList (a ++ b) (c ++ d) = xorList a c ++ xorList b d := by
  simp only [xorList]; exact List.zipWith_append h

theorem xorList_cons (a c : Nat) (b d : List Nat) : xorList (a :: b) (c :: d) = (a ^^^ c) :: xorList b d := rfl

/-- **RS1024 detects up to three substituted words** in a sequence of at most 33 words: if both sequences
    verify (same customisation string) and agree outside three positions, they are equal -/
theorem rs1024_agree_off_three (cs A B C D : List Nat) (w1 w2 w3 v1 v2 v3 : Nat)
    (hw1 : w1 < 1024) (hw2 : w2 < 1024) (hw3 : w3 < 1024) (hv1 : v1 < 1024) (hv2 : v2 < 1024) (hv3 : v3 < 1024)
    (hlen : A.length + B.length + C.length + D.length + 3 ≤ 33)
    (hW : rs1024Verify cs (A ++ w1 :: (B ++ w2 :: (C ++ w3 :: D))) = true)
    (hV : rs1024Verify cs (A ++ v1 :: (B ++ v2 :: (C ++ v3 :: D))) = true) :
    v1 = w1 ∧ v2 = w2 ∧ v3 = w3 := by
  simp only [rs1024Verify, rs1024Polymod, beq_iff_eq, ← List.append_assoc, List.foldl_append] at hW hV
  generalize List.foldl rs1024Step (List.foldl rs1024Step 1 cs) A = c0 at hW hV
  have lin := foldl_step_xor (w1 :: (B ++ w2 :: (C ++ w3 :: D))) (v1 :: (B ++ v2 :: (C ++ v3 :: D)))
    (by simp) c0 c0
  rw [hW, hV, Nat.xor_self, Nat.xor_self] at lin
  rw [xorList_cons, xorList_append _ _ _ _ rfl, xorList_cons, xorList_append _ _ _ _ rfl, xorList_cons,
    xorList_self, xorList_self, xorList_self, syndrome3] at lin
  have lt : ∀ {a b : Nat}, a < 1024 → b < 1024 → a ^^^ b < 1024 := fun ha hb => Nat.xor_lt_two_pow (n := 10) ha hb
  have := syndrome_nonzero _ _ _ _ _ _ (by omega) (by omega) (by omega) (lt hw1 hv1) (lt hw2 hv2) (lt hw3 hv3) lin
  exact ⟨(eq_of_xor_eq_zero' this.1).symm, (eq_of_xor_eq_zero' this.2.1).symm, (eq_of_xor_eq_zero' this.2.2).symm⟩

theorem split3 (l : List Nat) (p1 p2 p3 : Nat) (h12 : p1 < p2) (h23 : p2 < p3) (h3 : p3 < l.length) :
    l = l.take p1 ++ l[p1] :: (((l.drop (p1 + 1)).take (p2 - p1 - 1)) ++ l[p2] ::
      (((l.drop (p2 + 1)).take (p3 - p2 - 1)) ++ l[p3] :: l.drop (p3 + 1))) := by
  have e3 : l.drop p3 = l[p3] :: l.drop (p3 + 1) := List.drop_eq_getElem_cons h3
  have e2 : l.drop p2 = l[p2] :: l.drop (p2 + 1) := List.drop_eq_getElem_cons (by omega)
  have e1 : l.drop p1 = l[p1] :: l.drop (p1 + 1) := List.drop_eq_getElem_cons (by omega)
  have d2 : (l.drop (p2 + 1)).drop (p3 - p2 - 1) = l.drop p3 := by
    rw [List.drop_drop]; congr 1; omega
  have d1 : (l.drop (p1 + 1)).drop (p2 - p1 - 1) = l.drop p2 := by
    rw [List.drop_drop]; congr 1; omega
  rw [← e3, ← d2, List.take_append_drop, ← e2, ← d1, List.take_append_drop, ← e1, List.take_append_drop]

/-- positional form: two verifying word sequences of equal length ≤ 33 that agree outside three positions are
    equal — so substituting 1, 2 or 3 words of a valid share always breaks the checksum -/
theorem rs1024_detects_le3_pos (cs ws ws' : List Nat) (hl : ws'.length = ws.length) (hlen : ws.length ≤ 33)
    (hw : ∀ w ∈ ws, w < 1024) (hw' : ∀ w ∈ ws', w < 1024)
    (p1 p2 p3 : Nat) (h12 : p1 < p2) (h23 : p2 < p3) (h3 : p3 < ws.length)
    (hagree : ∀ i, i ≠ p1 → i ≠ p2 → i ≠ p3 → ws'[i]? = ws[i]?)
    (hW : rs1024Verify cs ws = true) (hV : rs1024Verify cs ws' = true) : ws' = ws := by
  have h3' : p3 < ws'.length := by omega
  have sW := split3 ws p1 p2 p3 h12 h23 h3
  have sV := split3 ws' p1 p2 p3 h12 h23 h3'
  have eA : ws'.take p1 = ws.take p1 := by
    apply List.ext_getElem?; intro i
    simp only [List.getElem?_take]
    split
    · exact hagree i (by omega) (by omega) (by omega)
    · rfl
  have eB : (ws'.drop (p1 + 1)).take (p2 - p1 - 1) = (ws.drop (p1 + 1)).take (p2 - p1 - 1) := by
    apply List.ext_getElem?; intro i
    simp only [List.getElem?_take, List.getElem?_drop]
    split
    · exact hagree _ (by omega) (by omega) (by omega)
    · rfl
  have eC : (ws'.drop (p2 + 1)).take (p3 - p2 - 1) = (ws.drop (p2 + 1)).take (p3 - p2 - 1) := by
    apply List.ext_getElem?; intro i
    simp only [List.getElem?_take, List.getElem?_drop]
    split
    · exact hagree _ (by omega) (by omega) (by omega)
    · rfl
  have eD : ws'.drop (p3 + 1) = ws.drop (p3 + 1) := by
    apply List.ext_getElem?; intro i
    simp only [List.getElem?_drop]
    exact hagree _ (by omega) (by omega) (by omega)
  rw [eA, eB, eC, eD] at sV
  rw [sW] at hW
  rw [sV] at hV
  have hlen' : (ws.take p1).length + ((ws.drop (p1 + 1)).take (p2 - p1 - 1)).length +
      ((ws.drop (p2 + 1)).take (p3 - p2 - 1)).length + (ws.drop (p3 + 1)).length + 3 ≤ 33 := by
    simp only [List.length_take, List.length_drop]; omega
  have := rs1024_agree_off_three cs _ _ _ _ ws[p1] ws[p2] ws[p3] ws'[p1] ws'[p2] ws'[p3]
    (hw _ (List.getElem_mem _)) (hw _ (List.getElem_mem _)) (hw _ (List.getElem_mem _))
    (hw' _ (List.getElem_mem _)) (hw' _ (List.getElem_mem _)) (hw' _ (List.getElem_mem _)) hlen' hW hV
  rw [sV, this.1, this.2.1, this.2.2]
  exact sW.symm


end Embit.Model.Slip39
