import EmbitModel.Model.Base58Check
import EmbitModel.Proofs.HdInit
/-
  The version bytes of an extended key fix the characters [1:4] of its Base58Check text: for every SLIP-132
  version of the generated table, EVERY 78-byte payload with that version renders as `?prv…` / `?pub…`
  (whatever the checksum function). Proof: the 82-byte number lies in [V·256^78, (V+1)·256^78), both ends have the
  same quotient by 58^107, and that quotient is the value of the four leading base-58 digits.
-/
namespace Embit.Keys.B58
open Embit Embit.Keys

theorem digitsLsd_zero : digitsLsd 0 = [] := by rw [digitsLsd]; simp

theorem digitsLsd_pos (n : Nat) (h : n ≠ 0) : digitsLsd n = n % 58 :: digitsLsd (n / 58) := by
  rw [digitsLsd]; simp [h]

/-- the digits of `n` are `k` low digits followed by the digits of `n / 58^k` -/
theorem digitsLsd_split (k : Nat) : ∀ n, n / 58 ^ k ≠ 0 →
    ∃ low : List Nat, low.length = k ∧ digitsLsd n = low ++ digitsLsd (n / 58 ^ k) := by
  induction k with
  | zero => intro n _; exact ⟨[], rfl, by simp⟩
  | succ k ih =>
    intro n h
    have hn : n ≠ 0 := by
      intro h0; subst h0; simp at h
    have hdiv : n / 58 / 58 ^ k = n / 58 ^ (k + 1) := by
      rw [Nat.div_div_eq_div_mul, Nat.pow_succ, Nat.mul_comm]
    obtain ⟨low, hl, hd⟩ := ih (n / 58) (by rw [hdiv]; exact h)
    refine ⟨n % 58 :: low, by simp [hl], ?_⟩
    rw [digitsLsd_pos n hn, hd, hdiv]
    rfl

theorem digits4 (T : Nat) (h1 : 58 ^ 3 ≤ T) (h2 : T < 58 ^ 4) :
    digitsLsd T = [T % 58, T / 58 % 58, T / 58 ^ 2 % 58, T / 58 ^ 3] := by
  have e3 : (58:Nat) ^ 3 = 195112 := by decide
  have e4 : (58:Nat) ^ 4 = 11316496 := by decide
  have e2 : (58:Nat) ^ 2 = 3364 := by decide
  rw [e3] at h1 ⊢; rw [e4] at h2; rw [e2]
  have a1 : T ≠ 0 := by omega
  have a2 : T / 58 ≠ 0 := by omega
  have a3 : T / 58 / 58 ≠ 0 := by omega
  have a4 : T / 58 / 58 / 58 ≠ 0 := by omega
  have a5 : T / 58 / 58 / 58 / 58 = 0 := by omega
  rw [digitsLsd_pos T a1, digitsLsd_pos _ a2, digitsLsd_pos _ a3, digitsLsd_pos _ a4, a5, digitsLsd_zero]
  have b1 : T / 58 / 58 = T / 3364 := by omega
  have b2 : T / 58 / 58 / 58 = T / 195112 := by omega
  have b3 : T / 195112 % 58 = T / 195112 := by omega
  rw [b2, b1, b3]

theorem ofLe_append (x y : Bytes) : ofLe (x ++ y) = ofLe x + 256 ^ x.length * ofLe y := by
  induction x with
  | nil => simp [ofLe]
  | cons a r ih =>
    simp only [List.cons_append, ofLe, ih, List.length_cons, Nat.pow_succ]
    rw [Nat.mul_add, Nat.mul_comm (256 ^ r.length) 256, Nat.mul_assoc]
    omega

theorem ofBe_append (a b : Bytes) : ofBe (a ++ b) = ofBe a * 256 ^ b.length + ofBe b := by
  simp only [ofBe, List.reverse_append, ofLe_append, List.length_reverse]
  rw [Nat.mul_comm]; omega

/-- the decidable test: all numbers `V·256^78 + R` (`R < 256^78`) share the four leading base-58 digits, and the
    last three of those spell `t` -/
def versionFixes (V : Nat) (t : Text) : Bool :=
  decide (((V + 1) * 256 ^ 78 - 1) / 58 ^ 107 = V * 256 ^ 78 / 58 ^ 107) &&
  decide (58 ^ 3 ≤ V * 256 ^ 78 / 58 ^ 107) && decide (V * 256 ^ 78 / 58 ^ 107 < 58 ^ 4) &&
  ([digitChar (V * 256 ^ 78 / 58 ^ 107 / 58 ^ 2 % 58), digitChar (V * 256 ^ 78 / 58 ^ 107 / 58 % 58),
    digitChar (V * 256 ^ 78 / 58 ^ 107 % 58)] == t)

theorem sub14_encode (b : Bytes) (c : UInt8) (r : Bytes) (hb : b = c :: r) (hc : c ≠ 0) (T : Nat)
    (hT : ofBe b / 58 ^ 107 = T) (h1 : 58 ^ 3 ≤ T) (h2 : T < 58 ^ 4) :
    sub14 (encode b) = [digitChar (T / 58 ^ 2 % 58), digitChar (T / 58 % 58), digitChar (T % 58)] := by
  have hne : ofBe b / 58 ^ 107 ≠ 0 := by
    rw [hT]; intro h0; rw [h0] at h1; simp at h1
  obtain ⟨low, _, hd⟩ := digitsLsd_split 107 (ofBe b) hne
  unfold encode
  have hpad : (b.takeWhile (· = 0)) = [] := by
    rw [hb]; simp [List.takeWhile, hc]
  rw [hpad, hd, hT, digits4 T h1 h2]
  simp [sub14]

theorem versionSays_of_fixes (dsha : Bytes → Bytes) (hd : ∀ b, 4 ≤ (dsha b).length) (ver : Bytes) (t : Text)
    (c : UInt8) (r : Bytes) (hv : ver = c :: r) (hc : c ≠ 0) (hl : ver.length = 4)
    (hf : versionFixes (ofBe ver) t = true) :
    ∀ rest : Bytes, rest.length = 74 → sub14 (encodeCheck dsha (ver ++ rest)) = t := by
  intro rest hr
  unfold versionFixes at hf
  simp only [Bool.and_eq_true, decide_eq_true_eq, beq_iff_eq] at hf
  obtain ⟨⟨⟨hhi, h1⟩, h2⟩, ht⟩ := hf
  unfold encodeCheck
  have hlen : (rest ++ (dsha (ver ++ rest)).take 4).length = 78 := by
    have := hd (ver ++ rest); simp [hr]; omega
  have hN : ofBe (ver ++ rest ++ (dsha (ver ++ rest)).take 4)
      = ofBe ver * 256 ^ 78 + ofBe (rest ++ (dsha (ver ++ rest)).take 4) := by
    rw [List.append_assoc, ofBe_append, hlen]
  have hR : ofBe (rest ++ (dsha (ver ++ rest)).take 4) < 256 ^ 78 := by
    have := ofBe_lt (rest ++ (dsha (ver ++ rest)).take 4); rwa [hlen] at this
  have hT : ofBe (ver ++ rest ++ (dsha (ver ++ rest)).take 4) / 58 ^ 107 = ofBe ver * 256 ^ 78 / 58 ^ 107 := by
    rw [hN]
    apply Nat.le_antisymm
    · rw [← hhi]
      apply Nat.div_le_div_right
      have : (ofBe ver + 1) * 256 ^ 78 = ofBe ver * 256 ^ 78 + 256 ^ 78 := by rw [Nat.add_mul, Nat.one_mul]
      omega
    · apply Nat.div_le_div_right; omega
  rw [sub14_encode _ c (r ++ rest ++ (dsha (ver ++ rest)).take 4) (by rw [hv]; simp) hc _ hT h1 h2]
  exact ht

/-- the whole generated table: every SLIP-132 version of every network has four bytes, a non-zero first byte and
    fixes `prv` / `pub` according to its name -/
def tableOk : Bool :=
  Generated.keyNets.all fun net => net.versions.all fun e =>
    e.2.1.length == 4 && (match e.2.1 with | c :: _ => c != 0 | [] => false) &&
      versionFixes (ofBe e.2.1) (if e.2.2 then tPrv else tPub)

set_option maxRecDepth 100000 in
theorem table_ok : tableOk = true := by decide

/-- every SLIP-132 version prefix of the generated NETWORKS table says its kind, for every payload and every
    checksum function -/
theorem table_versionSays (env : Env) (dsha : Bytes → Bytes) (hd : ∀ b, 4 ≤ (dsha b).length)
    (henc : env.b58enc = encodeCheck dsha) (net : Generated.KeyNet) (hn : net ∈ Generated.keyNets)
    (e : String × Bytes × Bool) (he : e ∈ net.versions) :
    VersionSays env e.2.1 (kindText e.2.2) := by
  have := table_ok
  unfold tableOk at this
  rw [List.all_eq_true] at this
  have := this net hn
  rw [List.all_eq_true] at this
  have := this e he
  simp only [Bool.and_eq_true, beq_iff_eq] at this
  obtain ⟨⟨hl, hc⟩, hf⟩ := this
  intro rest hr
  rw [henc]
  cases hv : e.2.1 with
  | nil => rw [hv] at hc; simp at hc
  | cons c r =>
    rw [hv] at hc hl hf
    simp only [bne_iff_ne, ne_eq] at hc
    have := versionSays_of_fixes dsha hd (c :: r) (if e.2.2 then tPrv else tPub) c r rfl hc hl hf rest hr
    simpa [kindText] using this

end Embit.Keys.B58
