import EmbitModel.Proofs.Slip39Tables
/- the spec's inverse a^254 (carry-less arithmetic) = inversion through the exp/log tables, all 256 bytes -/
namespace Embit.Model.Slip39

/-- inverse through the tables -/
def invL (a : Nat) : Nat := if a = 0 then 0 else expL ((255 - logL a) % 255)

set_option maxRecDepth 1000000 in
theorem gfInv_eq_invL : ∀ a < 256, Spec.Slip39.gfInv a = invL a := by decide +kernel

end Embit.Model.Slip39
