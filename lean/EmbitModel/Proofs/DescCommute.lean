import EmbitModel.Proofs.DescTop
/-
  C12: `to_public()` first / `branch()` first never changes a derived script.
  Scripts are a function of a small view of the descriptor (flags, compiled miniscript, SEC bytes of the key,
  merkle root); two chains of key transformations that agree key by key give the same view.
-/
namespace Embit.Model.Descriptor
open Embit Embit.Miniscript Embit.Spec.Descriptor Embit.Model.Miniscript

variable {K : Type}

/-! ### keys of a transformed expression -/

theorem mapOpt_append {α β : Type} {f : α → Option β} {a b : List α} {a' b' : List β}
    (ha : mapOpt f a = some a') (hb : mapOpt f b = some b') : mapOpt f (a ++ b) = some (a' ++ b') := by
  induction a generalizing a' with
  | nil => simp [mapOpt] at ha; subst ha; simpa using hb
  | cons x r ih =>
    simp only [mapOpt] at ha
    cases hx : f x with
    | none => simp [hx] at ha
    | some x' =>
      cases hr : mapOpt f r with
      | none => simp [hx, hr] at ha
      | some r' =>
        simp [hx, hr] at ha; subst ha
        simp [mapOpt, hx, ih hr]

theorem mapOpt_mem {α β : Type} {f : α → Option β} : ∀ {l : List α} {l' : List β},
    mapOpt f l = some l' → ∀ x ∈ l, ∃ x' ∈ l', f x = some x' := by
  intro l
  induction l with
  | nil => intro _ _ x hx; cases hx
  | cons a r ih =>
    intro l' h x hx
    simp only [mapOpt] at h
    cases ha : f a with
    | none => simp [ha] at h
    | some a' =>
      cases hr : mapOpt f r with
      | none => simp [ha, hr] at h
      | some r' =>
        simp [ha, hr] at h; subst h
        cases hx with
        | head => exact ⟨a', List.mem_cons_self, ha⟩
        | tail _ hm =>
          obtain ⟨x', hx', hf⟩ := ih hr x hm
          exact ⟨x', List.mem_cons_of_mem _ hx', hf⟩

theorem keysL_mapKeysL (f : KeyExpr K → Option (KeyExpr K)) : ∀ (xs l : List (DMs K)),
    (∀ x ∈ xs, ∀ x', x.mapKeys f = some x' → mapOpt f x.keys = some x'.keys) →
    DMs.mapKeysL f xs = some l → mapOpt f (DMs.keysL xs) = some (DMs.keysL l) := by
  intro xs
  induction xs with
  | nil => intro l _ h; simp [DMs.mapKeysL] at h; subst h; rfl
  | cons a r ih =>
    intro l hx h
    simp only [DMs.mapKeysL] at h
    cases ha : a.mapKeys f with
    | none => simp [ha] at h
    | some a' =>
      cases hr : DMs.mapKeysL f r with
      | none => simp [ha, hr] at h
      | some r' =>
        simp [ha, hr] at h; subst h
        simp only [DMs.keysL]
        exact mapOpt_append (hx a List.mem_cons_self a' ha)
          (ih r' (fun x hx' => hx x (List.mem_cons_of_mem _ hx')) hr)

theorem DMs.mapKeys_keys (f : KeyExpr K → Option (KeyExpr K)) :
    ∀ (e e' : DMs K), e.mapKeys f = some e' → mapOpt f e.keys = some e'.keys := by
  intro e
  induction e using DMs.ind with
  | key fr k =>
    intro e' h
    simp only [DMs.mapKeys] at h
    cases hf : f k with
    | none => simp [hf] at h
    | some k' => simp [hf] at h; subst h; simp [DMs.keys, mapOpt, hf]
  | time _ _ => intro e' h; simp [DMs.mapKeys] at h; subst h; rfl
  | hash _ _ => intro e' h; simp [DMs.mapKeys] at h; subst h; rfl
  | andor x y z ihx ihy ihz =>
    intro e' h
    simp only [DMs.mapKeys] at h
    cases hx : x.mapKeys f with
    | none => simp [hx] at h
    | some a =>
      cases hy : y.mapKeys f with
      | none => simp [hx, hy] at h
      | some b =>
        cases hz : z.mapKeys f with
        | none => simp [hx, hy, hz] at h
        | some c =>
          simp [hx, hy, hz] at h; subst h
          simp only [DMs.keys]
          exact mapOpt_append (mapOpt_append (ihx a hx) (ihy b hy)) (ihz c hz)
  | bin fr x y ihx ihy =>
    intro e' h
    simp only [DMs.mapKeys] at h
    cases hx : x.mapKeys f with
    | none => simp [hx] at h
    | some a =>
      cases hy : y.mapKeys f with
      | none => simp [hx, hy] at h
      | some b =>
        simp [hx, hy] at h; subst h
        simp only [DMs.keys]
        exact mapOpt_append (ihx a hx) (ihy b hy)
  | thresh n xs ih =>
    intro e' h
    simp only [DMs.mapKeys] at h
    cases hl : DMs.mapKeysL f xs with
    | none => simp [hl] at h
    | some l =>
      simp [hl] at h; subst h
      simp only [DMs.keys]
      exact keysL_mapKeysL f xs l ih hl
  | multi fr n keys =>
    intro e' h
    simp only [DMs.mapKeys] at h
    cases hl : mapOpt f keys with
    | none => simp [hl] at h
    | some l => simp [hl] at h; subst h; simpa [DMs.keys] using hl
  | wrap w x ih =>
    intro e' h
    simp only [DMs.mapKeys] at h
    cases hx : x.mapKeys f with
    | none => simp [hx] at h
    | some a => simp [hx] at h; subst h; simpa [DMs.keys] using ih a hx

theorem TapTree.mapKeys_keys (f : KeyExpr K → Option (KeyExpr K)) :
    ∀ (t t' : TapTree K), t.mapKeys f = some t' → mapOpt f t.keys = some t'.keys := by
  intro t
  induction t with
  | empty => intro t' h; simp [TapTree.mapKeys] at h; subst h; rfl
  | leaf ms =>
    intro t' h
    simp only [TapTree.mapKeys] at h
    cases hm : ms.mapKeys f with
    | none => simp [hm] at h
    | some ms' =>
      simp only [hm] at h
      split at h
      · cases h; simpa [TapTree.keys] using DMs.mapKeys_keys f ms ms' hm
      · cases h
  | node l r ihl ihr =>
    intro t' h
    simp only [TapTree.mapKeys] at h
    cases hl : l.mapKeys f with
    | none => simp [hl] at h
    | some l' =>
      cases hr : r.mapKeys f with
      | none => simp [hl, hr] at h
      | some r' =>
        simp [hl, hr] at h; subst h
        simp only [TapTree.keys]
        exact mapOpt_append (ihl l' hl) (ihr r' hr)

/-! ### scripts as a function of a view -/

/-- `script_pubkey()` from: the four flags, the compiled miniscript (outer `none`: no miniscript; inner: compile
    raised), the SEC bytes of the key object (if there is one), the tap tree's tweak -/
def scriptFromView (h : Hashes) (tweakAdd : Bytes → Bytes → Option Bytes)
    (taproot sh wsh wpkh : Bool) (ms : Option (Option Bytes)) (keySec : Option Bytes) (tw : Option Bytes) :
    Option Bytes :=
  if taproot then
    match keySec, tw with
    | some sec, some t =>
      (tweakAdd (xonlyOf sec) (h.tagged "TapTweak" (xonlyOf sec ++ t))).map fun x => [0x51, 0x20] ++ x
    | _, _ => none
  else if sh then
    match ms with
    | some c => (match c with
      | some sc => if !wsh then some (p2shOf h sc) else some (p2shOf h (p2wshOf h sc))
      | none => none)
    | none => keySec.map fun sec => p2shOf h (p2wpkhOf h sec)
  else if wsh then
    match ms with
    | some (some sc) => some (p2wshOf h sc)
    | _ => none
  else
    match ms with
    | some c => c
    | none => keySec.map fun sec => if wpkh then p2wpkhOf h sec else p2pkhOf h sec

theorem scriptPubkey_eq_view {ops : KeyOps K} {h : Hashes} {tweakAdd : Bytes → Bytes → Option Bytes}
    (laws : KeyLaws ops h tweakAdd) (d : Desc K) :
    d.scriptPubkey ops h = scriptFromView h tweakAdd d.taproot d.sh d.wsh d.wpkh
      (d.miniscript.map (compileMs ops h d.taproot)) ((d.key.bind KeyExpr.obj?).map ops.sec)
      (d.taptree.tweak ops h) := by
  unfold Desc.scriptPubkey scriptFromView Desc.redeemScript Desc.witnessScript
  cases d.taproot <;> cases d.sh <;> cases d.wsh <;> cases d.wpkh <;> cases d.miniscript <;>
    cases d.key.bind KeyExpr.obj? <;>
    simp [laws.tweak_eq] <;>
    (try (cases d.taptree.tweak ops h <;> simp)) <;>
    (try (rename_i ms; cases compileMs ops h false ms <;> simp)) <;>
    (try (rename_i ms _; cases compileMs ops h false ms <;> simp))

/-! ### two chains of key transformations that agree key by key -/

/-- two key expressions contribute the same bytes to every script -/
def KeyAgree (ops : KeyOps K) (h : Hashes) (k1 k2 : KeyExpr K) : Prop :=
  (∀ tap fr, fragPayload ops h tap fr k1 = fragPayload ops h tap fr k2) ∧
    (k1.obj?).map ops.sec = (k2.obj?).map ops.sec

theorem compile_agree {ops : KeyOps K} {h : Hashes} (tap : Bool) (f1 f2 g : KeyExpr K → Option (KeyExpr K))
    (e ep e1 e2 : DMs K) (h1 : e.mapKeys f1 = some ep) (h2 : ep.mapKeys f2 = some e1) (hg : e.mapKeys g = some e2)
    (hag : ∀ k kp k1 k2, k ∈ e.keys → f1 k = some kp → f2 kp = some k1 → g k = some k2 → KeyAgree ops h k1 k2) :
    compileMs ops h tap e1 = compileMs ops h tap e2 := by
  unfold compileMs
  congr 1
  have a1 : e1.toMs (fragPayload ops h tap) = e.toMs (fuse f1 (fuse f2 (fragPayload ops h tap))) := by
    have t2 := DMs.toMs_mapKeys f2 (fragPayload ops h tap) ep
    rw [h2] at t2
    have t1 := DMs.toMs_mapKeys f1 (fuse f2 (fragPayload ops h tap)) e
    rw [h1] at t1
    simp only [Option.bind_some] at t1 t2
    rw [t2, t1]
  have a2 : e2.toMs (fragPayload ops h tap) = e.toMs (fuse g (fragPayload ops h tap)) := by
    have t := DMs.toMs_mapKeys g (fragPayload ops h tap) e
    rw [hg] at t
    exact t
  rw [a1, a2]
  apply DMs.toMs_congr
  intro fr k hk
  obtain ⟨kp, hkp, hf1⟩ := mapOpt_mem (DMs.mapKeys_keys f1 e ep h1) k hk
  have hs2 := DMs.mapKeys_some_all f2 ep (by rw [h2]; rfl) kp hkp
  have hsg := DMs.mapKeys_some_all g e (by rw [hg]; rfl) k hk
  cases hf2 : f2 kp with
  | none => rw [hf2] at hs2; cases hs2
  | some k1 =>
    cases hgk : g k with
    | none => rw [hgk] at hsg; cases hsg
    | some k2 =>
      simp only [fuse, hf1, hf2, hgk, Option.bind_some]
      exact (hag k kp k1 k2 hk hf1 hf2 hgk).1 tap fr

theorem TapTree.mapKeys_leaf_mem (f : KeyExpr K → Option (KeyExpr K)) :
    ∀ (t t' : TapTree K), t.mapKeys f = some t' → ∀ ms ms', ms ∈ t.leaves → ms.mapKeys f = some ms' →
      ms' ∈ t'.leaves := by
  intro t
  induction t with
  | empty => intro _ _ ms _ hm; cases hm
  | leaf ms0 =>
    intro t' ht ms ms' hm hmm
    simp only [TapTree.leaves, List.mem_singleton] at hm
    subst hm
    simp only [TapTree.mapKeys, hmm] at ht
    split at ht
    · cases ht; simp [TapTree.leaves]
    · cases ht
  | node l r ihl ihr =>
    intro t' ht ms ms' hm hmm
    simp only [TapTree.mapKeys] at ht
    cases hl : l.mapKeys f with
    | none => simp [hl] at ht
    | some l' =>
      cases hr : r.mapKeys f with
      | none => simp [hl, hr] at ht
      | some r' =>
        simp [hl, hr] at ht; subst ht
        simp only [TapTree.leaves, List.mem_append] at hm ⊢
        cases hm with
        | inl hh => exact Or.inl (ihl l' hl ms ms' hh hmm)
        | inr hh => exact Or.inr (ihr r' hr ms ms' hh hmm)

theorem tweak_agree {ops : KeyOps K} {h : Hashes} (f1 f2 g : KeyExpr K → Option (KeyExpr K))
    (t tp t1 t2 : TapTree K) (h1 : t.mapKeys f1 = some tp) (h2 : tp.mapKeys f2 = some t1)
    (hg : t.mapKeys g = some t2)
    (hag : ∀ k kp k1 k2, k ∈ t.keys → f1 k = some kp → f2 kp = some k1 → g k = some k2 → KeyAgree ops h k1 k2) :
    t1.tweak ops h = t2.tweak ops h := by
  by_cases he : t = .empty
  · subst he
    simp [TapTree.mapKeys] at h1 hg
    subst h1 hg
    simp [TapTree.mapKeys] at h2
    subst h2
    rfl
  · have hep : tp ≠ .empty := fun hh => he ((TapTree.mapKeys_empty_iff f1 t tp h1).mp hh)
    have he1 : t1 ≠ .empty := fun hh => hep ((TapTree.mapKeys_empty_iff f2 tp t1 h2).mp hh)
    have he2 : t2 ≠ .empty := fun hh => he ((TapTree.mapKeys_empty_iff g t t2 hg).mp hh)
    have tw : ∀ x : TapTree K, x ≠ .empty → x.tweak ops h = (tweakHelper ops h x).map (·.2) := by
      intro x hx
      cases x with
      | empty => exact absurd rfl hx
      | leaf _ => rfl
      | node _ _ => rfl
    rw [tw t1 he1, tw t2 he2, tweakHelper_root, tweakHelper_root, treeRoot_mapKeys h _ f2 tp t1 h2,
      treeRoot_mapKeys h _ f1 t tp h1, treeRoot_mapKeys h _ g t t2 hg]
    apply treeRoot_congr
    intro ms hms
    obtain ⟨msp, hmp, _⟩ := TapTree.mapKeys_leaves f1 t tp h1 ms hms
    obtain ⟨ms2, hm2, _⟩ := TapTree.mapKeys_leaves g t t2 hg ms hms
    have hleafp := TapTree.mapKeys_leaf_mem f1 t tp h1 ms msp hms hmp
    obtain ⟨ms1, hm1, _⟩ := TapTree.mapKeys_leaves f2 tp t1 h2 msp hleafp
    rw [hmp, hm2]
    simp only [Option.bind_some, hm1]
    exact compile_agree true f1 f2 g ms msp ms1 ms2 hmp hm1 hm2
      (fun k kp k1 k2 hk => hag k kp k1 k2 (TapTree.mem_keys_of_leaf hms hk))

end Embit.Model.Descriptor

namespace Embit.Model.Descriptor
open Embit Embit.Miniscript Embit.Spec.Descriptor Embit.Model.Miniscript

variable {K : Type}

theorem mem_desc_keys_of_tree {d : Desc K} {k0 k : KeyExpr K} (hms : d.miniscript = none) (hkey : d.key = some k0)
    (hk : k ∈ d.taptree.keys) : k ∈ d.keys := by
  unfold Desc.keys
  simp only [hkey]
  cases ht : d.taptree with
  | empty => rw [ht] at hk; simp [TapTree.keys] at hk
  | leaf ms => rw [ht] at hk; simp [TapTree.truthy, hk]
  | node l r => rw [ht] at hk; simp [TapTree.truthy, hk]

/-- two chains of key transformations (`f1` then `f2`, against `g`) that agree key by key produce descriptors with
    the same `script_pubkey()` -/
theorem Desc.scripts_agree {ops : KeyOps K} {h : Hashes} {tweakAdd : Bytes → Bytes → Option Bytes}
    (laws : KeyLaws ops h tweakAdd) (f1 f2 g : KeyExpr K → Option (KeyExpr K)) (d dp d1 d2 : Desc K)
    (hs : d.Shaped) (h1 : d.mapKeys f1 = some dp) (h2 : dp.mapKeys f2 = some d1) (hg : d.mapKeys g = some d2)
    (hag : ∀ k kp k1 k2, k ∈ d.keys → f1 k = some kp → f2 kp = some k1 → g k = some k2 → KeyAgree ops h k1 k2) :
    d1.scriptPubkey ops h = d2.scriptPubkey ops h := by
  rw [scriptPubkey_eq_view laws d1, scriptPubkey_eq_view laws d2]
  unfold Desc.mapKeys at h1 hg
  cases hms : d.miniscript with
  | some ms =>
    have hk : d.key = none ∧ d.taptree = .empty := by
      cases hs with
      | inl h0 => rw [hms] at h0; cases h0
      | inr hh => exact hh
    simp only [hms] at h1 hg
    cases hm1 : ms.mapKeys f1 with
    | none => simp [hm1] at h1
    | some msp =>
      simp only [hm1] at h1
      split at h1
      · cases h1
        unfold Desc.mapKeys at h2
        simp only at h2
        cases hm2 : msp.mapKeys f2 with
        | none => simp [hm2] at h2
        | some ms1 =>
          simp only [hm2] at h2
          split at h2
          · cases h2
            cases hmg : ms.mapKeys g with
            | none => simp [hmg] at hg
            | some ms2 =>
              simp only [hmg] at hg
              split at hg
              · cases hg
                have hkeys : d.keys = ms.keys := by simp [Desc.keys, hk.1, hk.2, hms, TapTree.truthy]
                have := compile_agree (ops := ops) (h := h) d.taproot f1 f2 g ms msp ms1 ms2 hm1 hm2 hmg
                  (fun k kp k1 k2 hkm => hag k kp k1 k2 (by rw [hkeys]; exact hkm))
                simp only [Option.map_some, this]
              · cases hg
          · cases h2
      · cases h1
  | none =>
    simp only [hms] at h1 hg
    cases hkey : d.key with
    | none => simp [hkey] at h1
    | some k =>
      simp only [hkey] at h1 hg
      cases hf1 : f1 k with
      | none => simp [hf1] at h1
      | some kp =>
        cases ht1 : d.taptree.mapKeys f1 with
        | none => simp [hf1, ht1] at h1
        | some tp =>
          simp only [hf1, ht1, Option.some.injEq] at h1
          subst h1
          unfold Desc.mapKeys at h2
          simp only at h2
          cases hf2 : f2 kp with
          | none => simp [hf2] at h2
          | some k1 =>
            cases ht2 : tp.mapKeys f2 with
            | none => simp [hf2, ht2] at h2
            | some t1 =>
              simp only [hf2, ht2, Option.some.injEq] at h2
              subst h2
              cases hgk : g k with
              | none => simp [hgk] at hg
              | some k2 =>
                cases htg : d.taptree.mapKeys g with
                | none => simp [hgk, htg] at hg
                | some t2 =>
                  simp only [hgk, htg, Option.some.injEq] at hg
                  subst hg
                  have hkmem : k ∈ d.keys := by
                    unfold Desc.keys
                    simp only [hkey]
                    split <;> simp
                  have hsec := (hag k kp k1 k2 hkmem hf1 hf2 hgk).2
                  have htw := tweak_agree (ops := ops) (h := h) f1 f2 g d.taptree tp t1 t2 ht1 ht2 htg
                    (fun k' kp' k1' k2' hk' => hag k' kp' k1' k2' (mem_desc_keys_of_tree hms hkey hk'))
                  simp only [Option.map_none, Option.bind_some, hsec, htw]

/-! ### key level: neutering, branching -/

theorem fragPayload_of_sec {ops : KeyOps K} {h : Hashes} (k1 k2 : KeyExpr K) (a b : K)
    (h1 : k1.key = .obj a) (h2 : k2.key = .obj b) (hsec : ops.sec a = ops.sec b) :
    KeyAgree ops h k1 k2 := by
  refine ⟨?_, ?_⟩
  · intro tap fr
    cases fr <;> simp [fragPayload, keyBytes, keyHashBytes, h1, h2, hsec]
  · simp [KeyExpr.obj?, h1, h2, hsec]

theorem KeyAgree.refl' {ops : KeyOps K} {h : Hashes} (k1 k2 : KeyExpr K) (hk : k1.key = k2.key) :
    KeyAgree ops h k1 k2 := by
  refine ⟨?_, ?_⟩
  · intro tap fr
    cases fr <;> simp [fragPayload, hk]
  · simp [KeyExpr.obj?, hk]

/-- `to_public()` then `derive(i, b)` against `derive(i, b)` -/
theorem toPublic_derive_agree {ops : KeyOps K} {h : Hashes} {tweakAdd : Bytes → Bytes → Option Bytes}
    (laws : KeyLaws ops h tweakAdd) (idx : Option Nat) (br : Option Nat) (k kp k1 k2 : KeyExpr K)
    (hp : k.toPublic ops = some kp) (h1 : kp.derive ops h idx br = some k1) (h2 : k.derive ops h idx br = some k2) :
    KeyAgree ops h k1 k2 := by
  unfold KeyExpr.toPublic at hp
  cases hk : k.key with
  | raw s =>
    simp only [hk, Option.some.injEq] at hp
    subst hp
    rw [h1] at h2
    cases h2
    exact KeyAgree.refl' _ _ rfl
  | obj key =>
    simp only [hk] at hp
    split at hp
    · cases hp
      rw [h1] at h2
      cases h2
      exact KeyAgree.refl' _ _ rfl
    · cases hpub : ops.toPublic key with
      | none => simp [hpub] at hp
      | some p =>
        simp only [hpub, Option.map_some, Option.some.injEq] at hp
        subst hp
        unfold KeyExpr.derive at h1 h2
        cases hdv : k.deriv with
        | none =>
          simp only [hdv, Option.some.injEq] at h1 h2
          subst h1 h2
          exact fragPayload_of_sec _ _ p key rfl hk (laws.sec_toPublic key p hpub)
        | some ix =>
          simp only [hdv, hk] at h1 h2
          cases hf : fill ix idx br with
          | none => simp [hf] at h1
          | some der =>
            simp only [hf] at h1 h2
            cases hc1 : ops.derive p der with
            | none => simp [hc1] at h1
            | some c' =>
              cases hc2 : ops.derive key der with
              | none => simp [hc2] at h2
              | some c =>
                simp only [hc1, hc2, Option.some.injEq] at h1 h2
                subst h1 h2
                exact fragPayload_of_sec _ _ c' c rfl rfl (laws.derive_toPublic key p der c c' hpub hc2 hc1)

theorem fillSteps_branch (i : Nat) (b : Option Nat) (bn : Option Nat) : ∀ (ix : List Step) (arr der : List (Option Nat)),
    fillSteps none b ix = some arr → fillSteps (some i) b ix = some der → (∀ x ∈ der, x ≠ none) →
    fillSteps (some i) bn (arr.map stepOfFilled) = some der := by
  intro ix
  induction ix with
  | nil => intro arr der h1 h2 _; simp [fillSteps] at h1 h2; subst h1 h2; rfl
  | cons s r ih =>
    intro arr der h1 h2 hn
    cases s with
    | idx n =>
      simp only [fillSteps] at h1 h2
      cases hr1 : fillSteps none b r with
      | none => simp [hr1] at h1
      | some a =>
        cases hr2 : fillSteps (some i) b r with
        | none => simp [hr2] at h2
        | some d =>
          simp [hr1] at h1; simp [hr2] at h2; subst h1 h2
          simp [stepOfFilled, fillSteps, ih a d hr1 hr2 (fun x hx => hn x (List.mem_cons_of_mem _ hx))]
    | wild =>
      simp only [fillSteps] at h1 h2
      cases hr1 : fillSteps none b r with
      | none => simp [hr1] at h1
      | some a =>
        cases hr2 : fillSteps (some i) b r with
        | none => simp [hr2] at h2
        | some d =>
          simp [hr1] at h1; simp [hr2] at h2; subst h1 h2
          simp [stepOfFilled, fillSteps, ih a d hr1 hr2 (fun x hx => hn x (List.mem_cons_of_mem _ hx))]
    | set l =>
      simp only [fillSteps] at h1 h2
      cases b with
      | none =>
        cases l with
        | nil => simp at h1
        | cons x _ =>
          simp only at h1 h2
          cases hr1 : fillSteps none none r with
          | none => simp [hr1] at h1
          | some a =>
            cases hr2 : fillSteps (some i) none r with
            | none => simp [hr2] at h2
            | some d =>
              simp [hr1] at h1; simp [hr2] at h2; subst h1 h2
              have hx := hn x List.mem_cons_self
              cases x with
              | none => exact absurd rfl hx
              | some n =>
                simp [stepOfFilled, fillSteps, ih a d hr1 hr2 (fun x hx => hn x (List.mem_cons_of_mem _ hx))]
      | some bb =>
        simp only at h1 h2
        split at h1
        · cases h1
        · rw [if_neg (by assumption)] at h2
          cases hr1 : fillSteps none (some bb) r with
          | none => simp [hr1] at h1
          | some a =>
            cases hr2 : fillSteps (some i) (some bb) r with
            | none => simp [hr2] at h2
            | some d =>
              simp [hr1] at h1; simp [hr2] at h2; subst h1 h2
              have hx := hn (l.getD bb none) List.mem_cons_self
              cases hg : l.getD bb none with
              | none => exact absurd hg hx
              | some n =>
                have hg' : l[bb]?.getD none = some n := by simpa using hg
                have := ih a d hr1 hr2 (fun x hx => hn x (List.mem_cons_of_mem _ hx))
                simp [stepOfFilled, fillSteps, hg', this]

/-- `branch(b)` then `derive(i, anything)` against `derive(i, b)` -/
theorem branch_derive_agree {ops : KeyOps K} {h : Hashes} {tweakAdd : Bytes → Bytes → Option Bytes}
    (laws : KeyLaws ops h tweakAdd) (i : Nat) (br bn : Option Nat) (k kb k1 k2 : KeyExpr K)
    (hb : k.branch br = some kb) (h1 : kb.derive ops h (some i) bn = some k1)
    (h2 : k.derive ops h (some i) br = some k2) :
    KeyAgree ops h k1 k2 := by
  unfold KeyExpr.branch at hb
  unfold KeyExpr.derive at h1 h2
  cases hdv : k.deriv with
  | none =>
    simp only [hdv, Option.some.injEq] at hb h2
    subst hb h2
    simp only [Option.some.injEq] at h1
    subst h1
    exact KeyAgree.refl' _ _ rfl
  | some ix =>
    simp only [hdv] at hb h2
    cases hab : allowedBranch ix br with
    | none => simp [hab] at hb
    | some ix' =>
      simp only [hab, Option.map_some, Option.some.injEq] at hb
      subst hb
      simp only at h1
      cases hf2 : fill ix (some i) br with
      | none => simp [hf2] at h2
      | some der =>
        simp only [hf2] at h2
        cases hk : k.key with
        | raw s => simp [hk] at h2
        | obj key =>
          simp only [hk] at h1 h2
          cases hc : ops.derive key der with
          | none => simp [hc] at h2
          | some c =>
            simp only [hc, Option.some.injEq] at h2
            subst h2
            have hnn : ∀ x ∈ der, x ≠ none := by
              intro x hx hxn
              subst hxn
              rw [laws.derive_none key der hx] at hc
              cases hc
            -- the branched steps fill to the same path
            have hfill : fill ix' (some i) bn = some der := by
              unfold allowedBranch at hab
              cases hfa : fill ix none br with
              | none => simp [hfa] at hab
              | some arr =>
                simp only [hfa] at hab
                unfold mkAllowed at hab
                split at hab
                · cases hab
                · split at hab
                  · cases hab
                  · cases hab
                    unfold fill at hf2 hfa ⊢
                    simp only at hf2 hfa ⊢
                    split at hf2
                    · cases hf2
                    · rename_i hlt
                      rw [if_neg hlt]
                      exact fillSteps_branch i br bn ix arr der hfa hf2 hnn
            simp only [hfill, hc, Option.some.injEq] at h1
            subst h1
            exact KeyAgree.refl' _ _ rfl

end Embit.Model.Descriptor
