import EmbitModel.Model.Bip32
/-
  Helper lemmas for C09 / C10: byte codecs, the binding layer, SEC round trip, the HDKey constructor.
-/
namespace Embit.Keys
open Embit

theorem pow_256_32 : (256:Nat)^32 = 2^256 := by decide
theorem pow_256_4 : (256:Nat)^4 = 2^32 := by decide

theorem beN_ofBe (b : Bytes) : beN b.length (ofBe b) = b := by
  have := leN_ofLe b.reverse
  simp only [List.length_reverse] at this
  simp [beN, ofBe, this]

theorem ofBe_lt (b : Bytes) : ofBe b < 256 ^ b.length := by
  have := ofLe_lt b.reverse
  simpa [ofBe] using this

theorem take_len_append {α : Type} (a b : List α) (k : Nat) (h : a.length = k) : (a ++ b).take k = a := by
  subst h; simp

theorem drop_len_append {α : Type} (a b : List α) (k : Nat) (h : a.length = k) : (a ++ b).drop k = b := by
  subst h; simp

theorem take_len {α : Type} (a : List α) (k : Nat) (h : a.length = k) : a.take k = a := by
  subst h; simp

theorem ofBe_beN32 (x : Nat) (h : x < 2^256) : ofBe (beN 32 x) = x := by
  apply ofBe_beN; rw [pow_256_32]; exact h

theorem ofBe_beN4 (x : Nat) (h : x < 2^32) : ofBe (beN 4 x) = x := by
  apply ofBe_beN; rw [pow_256_4]; exact h

theorem beN32_ofBe (b : Bytes) (h : b.length = 32) : beN 32 (ofBe b) = b := by
  have := beN_ofBe b; rwa [h] at this

/-! ### binding layer -/

theorem seckeyValid_iff (E : EcOps) (d : Nat) : seckeyValid E d = true ↔ 0 < d ∧ d < E.n := by
  simp [seckeyValid]

theorem valid_lt (E : EcOps) (L : EcLaws E) {d : Nat} (h : seckeyValid E d = true) : d < 2^256 := by
  have := (seckeyValid_iff E d).mp h
  have := L.n_le
  omega

theorem privInit_beN' (E : EcOps) (L : EcLaws E) (s : Nat) (hs : seckeyValid E s = true) :
    PrivateKey.init E (beN 32 s) = some ⟨s, true, Generated.privDefaultNet⟩ := by
  have := valid_lt E L hs
  simp [PrivateKey.init, ofBe_beN32 _ this, hs]

variable {E : EcOps}

theorem yOdd_eq (P : E.Pt) : E.yOdd P = true ↔ E.y P % 2 = 1 := by simp [EcOps.yOdd]
theorem yOdd_false (P : E.Pt) : E.yOdd P = false ↔ E.y P % 2 = 0 := by
  simp [EcOps.yOdd]

/-- parsing the compressed encoding of a finite point gives the point back -/
theorem pubkeyParse_compressed (L : EcLaws E) (P : E.Pt) (hP : E.isInf P = false) :
    pubkeyParse E (pubkeySerialize E P true) = some P := by
  have hx := (L.coord_lt P hP).1
  have hl := L.liftX_of P hP
  cases hodd : E.yOdd P
  · simp [pubkeySerialize, pubkeyParse, hodd, ofBe_beN32 _ hx, hl]
  · simp [pubkeySerialize, pubkeyParse, hodd, ofBe_beN32 _ hx, hl, L.neg_neg]

theorem pubkeyParse_uncompressed (L : EcLaws E) (P : E.Pt) (hP : E.isInf P = false) :
    pubkeyParse E (pubkeySerialize E P false) = some P := by
  have hx := (L.coord_lt P hP).1
  have hy := (L.coord_lt P hP).2
  simp [pubkeySerialize, pubkeyParse, ofBe_beN32 _ hx, ofBe_beN32 _ hy, L.ofXY_of P hP]

theorem pubkeySerialize_length (P : E.Pt) (c : Bool) :
    (pubkeySerialize E P c).length = if c then 33 else 65 := by
  cases c <;> simp [pubkeySerialize]

/-- the x-only slice of either encoding is the X coordinate -/
theorem xslice_serialize (P : E.Pt) (c : Bool) :
    ((pubkeySerialize E P c).drop 1).take 32 = beN 32 (E.x P) := by
  cases c
  · simp [pubkeySerialize, take_len_append]
  · simp [pubkeySerialize, take_len]

theorem readFrom_sec (L : EcLaws E) (k : PublicKey E) (hP : E.isInf k.point = false) (rest : Bytes) :
    PublicKey.readFrom E (k.sec ++ rest) = some (k, rest) := by
  obtain ⟨P, c⟩ := k
  cases c
  · have h := pubkeyParse_uncompressed L P hP
    simp only [PublicKey.sec, pubkeySerialize, Bool.false_eq_true, if_false] at h ⊢
    have ht : ((beN 32 (E.x P) ++ beN 32 (E.y P)) ++ rest).take 64 = beN 32 (E.x P) ++ beN 32 (E.y P) :=
      take_len_append _ _ _ (by simp)
    have hd : ((beN 32 (E.x P) ++ beN 32 (E.y P)) ++ rest).drop 64 = rest :=
      drop_len_append _ _ _ (by simp)
    simp only [List.cons_append, PublicKey.readFrom]
    rw [if_pos (by simp)]
    simp only [if_true, ht, hd, h]
    rfl
  · have h := pubkeyParse_compressed L P hP
    simp only [PublicKey.sec, pubkeySerialize, if_true] at h ⊢
    have ht : (beN 32 (E.x P) ++ rest).take 32 = beN 32 (E.x P) := take_len_append _ _ _ (by simp)
    have hd : (beN 32 (E.x P) ++ rest).drop 32 = rest := drop_len_append _ _ _ (by simp)
    simp only [List.cons_append, PublicKey.readFrom]
    cases hodd : E.yOdd P
    · simp only [hodd, Bool.false_eq_true, if_false] at h ⊢
      rw [if_pos (by simp)]
      have : ((2:UInt8) = 4) = False := by simp
      simp only [this, if_false, ht, hd, h]
      rfl
    · simp only [hodd, if_true] at h ⊢
      rw [if_pos (by simp)]
      have : ((3:UInt8) = 4) = False := by simp
      simp only [this, if_false, ht, hd, h]
      rfl

theorem parse_sec (L : EcLaws E) (k : PublicKey E) (hP : E.isInf k.point = false) :
    PublicKey.parse E k.sec = some k := by
  have := readFrom_sec L k hP []
  simp only [List.append_nil] at this
  simp [PublicKey.parse, this]

end Embit.Keys
