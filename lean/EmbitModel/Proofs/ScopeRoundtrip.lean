import EmbitModel.Proofs.ScopeCanon
/-
  C05Y helpers (2/2): a canonical scope object survives `write_to` followed by `read_from` (KEEP_ALL) unchanged:
  `InScope.addPairs seed (s.pairs ver) = some s`, field group by field group in the order `write_to` emits them.
-/
set_option linter.unusedSimpArgs false
set_option linter.unusedVariables false
namespace Embit
open Model

theorem InScope.addPairs_append_c (ko : KeyOps) (sha : Bytes → Bytes) (c : Nat) : ∀ (l1 l2 : List KV) (s : InScope),
    InScope.addPairs ko sha c s (l1 ++ l2)
      = (InScope.addPairs ko sha c s l1).bind (fun s' => InScope.addPairs ko sha c s' l2) := by
  intro l1
  induction l1 with
  | nil => intro l2 s; simp [InScope.addPairs]
  | cons kv l1 ih =>
    intro l2 s
    obtain ⟨k, v⟩ := kv
    simp only [List.cons_append, InScope.addPairs]
    cases InScope.addPair ko sha c s k v with
    | none => rfl
    | some s1 => exact ih l2 s1

theorem InScope.addPairs_step_c (ko : KeyOps) (sha : Bytes → Bytes) (c : Nat) (l1 l2 : List KV) (s s1 : InScope)
    (h : InScope.addPairs ko sha c s l1 = some s1) :
    InScope.addPairs ko sha c s (l1 ++ l2) = InScope.addPairs ko sha c s1 l2 := by
  rw [InScope.addPairs_append_c, h]; rfl

theorem OutScope.addPairs_append_c (ko : KeyOps) : ∀ (l1 l2 : List KV) (s : OutScope),
    OutScope.addPairs ko s (l1 ++ l2) = (OutScope.addPairs ko s l1).bind (fun s' => OutScope.addPairs ko s' l2) := by
  intro l1
  induction l1 with
  | nil => intro l2 s; simp [OutScope.addPairs]
  | cons kv l1 ih =>
    intro l2 s
    obtain ⟨k, v⟩ := kv
    simp only [List.cons_append, OutScope.addPairs]
    cases OutScope.addPair ko s k v with
    | none => rfl
    | some s1 => exact ih l2 s1

theorem OutScope.addPairs_step_c (ko : KeyOps) (l1 l2 : List KV) (s s1 : OutScope)
    (h : OutScope.addPairs ko s l1 = some s1) :
    OutScope.addPairs ko s (l1 ++ l2) = OutScope.addPairs ko s1 l2 := by
  rw [OutScope.addPairs_append_c, h]; rfl

/-- a key not among the keys of `a`, given that the keys of `a ++ (k, v) :: l` are pairwise different -/
theorem lookup_none_of_nodup_c {β : Type} (a l : List (Bytes × β)) (k : Bytes) (v : β)
    (hn : ((a ++ (k, v) :: l).map Prod.fst).Nodup) : lookup k a = none := by
  rw [lookup_eq_none_iff_c]
  intro q hq e
  simp only [List.map_append, List.map_cons] at hn
  rw [List.nodup_append] at hn
  exact hn.2.2 q.1 (List.mem_map_of_mem hq) k (by simp) e

/-! ### input scope, one field group at a time -/

section segIn
variable (ko : KeyOps) (sha : Bytes → Bytes)

-- `ht`: since `fixes/fix-compress-dup-utxo.diff` a scope that already holds `_txhash` refuses key 00 (the caller
-- starts from a scope whose `txhash` is the default `none`)
theorem rtI_nwu (s : InScope) (o : Option Tx) (h0 : s.nonWitnessUtxo = none) (ht : s.txhash = none)
    (hc : ∀ t, o = some t → Tx.parse (Tx.ser t) = some t) :
    InScope.addPairs ko sha 0 s (optKV [0x00] (o.map Tx.ser)) = some { s with nonWitnessUtxo := o } := by
  cases o with
  | none => cases s; simp_all [optKV, InScope.addPairs]
  | some t => simp [optKV, InScope.addPairs, InScope.addPair, h0, ht, hc t rfl]

theorem rtI_wu (s : InScope) (o : Option TxOut) (h0 : s.witnessUtxo = none)
    (hc : ∀ t, o = some t → parseAll TxOut.read (TxOut.ser t) = some t) :
    InScope.addPairs ko sha 0 s (optKV [0x01] (o.map TxOut.ser)) = some { s with witnessUtxo := o } := by
  cases o with
  | none => cases s; simp_all [optKV, InScope.addPairs]
  | some t => simp [optKV, InScope.addPairs, InScope.addPair, h0, hc t rfl]

theorem rtI_psigs : ∀ (l : List (Bytes × Bytes)) (s : InScope), (∀ x ∈ l, ko.validSec x.1 = true) →
    ((s.partialSigs ++ l).map Prod.fst).Nodup →
    InScope.addPairs ko sha 0 s (l.map fun (p, v) => (0x02 :: p, v))
      = some { s with partialSigs := s.partialSigs ++ l } := by
  intro l
  induction l with
  | nil => intro s _ _; cases s; simp [InScope.addPairs]
  | cons x l ih =>
    intro s hv hn
    obtain ⟨p, v⟩ := x
    have hl := lookup_none_of_nodup_c s.partialSigs l p v hn
    simp only [List.map_cons, InScope.addPairs]
    have h1 : InScope.addPair ko sha 0 s (0x02 :: p) v
        = some { s with partialSigs := s.partialSigs ++ [(p, v)] } := by
      simp [InScope.addPair, hv (p, v) (by simp), hl]
    rw [h1]
    simp only []
    rw [ih _ (fun y hy => hv y (by simp [hy])) (by simpa [List.append_assoc] using hn)]
    simp [List.append_assoc]

theorem rtI_sighash (s : InScope) (o : Option Nat) (h0 : s.sighashType = none) (hc : ∀ n, o = some n → n < 2^32) :
    InScope.addPairs ko sha 0 s (optKV [0x03] (o.map (leN 4))) = some { s with sighashType := o } := by
  cases o with
  | none => cases s; simp_all [optKV, InScope.addPairs]
  | some n =>
    have := ofLe_leN 4 n (by have := hc n rfl; omega)
    simp [optKV, InScope.addPairs, InScope.addPair, h0, this]

theorem rtI_redeem (s : InScope) (o : Option Bytes) (h0 : s.redeemScript = none) :
    InScope.addPairs ko sha 0 s (optKV [0x04] o) = some { s with redeemScript := o } := by
  cases o with
  | none => cases s; simp_all [optKV, InScope.addPairs]
  | some n => simp [optKV, InScope.addPairs, InScope.addPair, h0]

theorem rtI_witness (s : InScope) (o : Option Bytes) (h0 : s.witnessScript = none) :
    InScope.addPairs ko sha 0 s (optKV [0x05] o) = some { s with witnessScript := o } := by
  cases o with
  | none => cases s; simp_all [optKV, InScope.addPairs]
  | some n => simp [optKV, InScope.addPairs, InScope.addPair, h0]

theorem rtI_bip32 : ∀ (l : List (Bytes × Deriv)) (s : InScope),
    (∀ x ∈ l, ko.validSec x.1 = true ∧ Deriv.parse (Deriv.ser x.2) = some x.2) →
    ((s.bip32 ++ l).map Prod.fst).Nodup →
    InScope.addPairs ko sha 0 s (l.map fun (p, d) => (0x06 :: p, Deriv.ser d)) = some { s with bip32 := s.bip32 ++ l } := by
  intro l
  induction l with
  | nil => intro s _ _; cases s; simp [InScope.addPairs]
  | cons x l ih =>
    intro s hv hn
    obtain ⟨p, d⟩ := x
    have hl := lookup_none_of_nodup_c s.bip32 l p d hn
    obtain ⟨v1, v2⟩ := hv (p, d) (by simp)
    simp only [List.map_cons, InScope.addPairs]
    have h1 : InScope.addPair ko sha 0 s (0x06 :: p) (Deriv.ser d) = some { s with bip32 := s.bip32 ++ [(p, d)] } := by
      simp only [] at v1 v2
      simp [InScope.addPair, v1, v2, hl]
    rw [h1]
    simp only []
    rw [ih _ (fun y hy => hv y (by simp [hy])) (by simpa [List.append_assoc] using hn)]
    simp [List.append_assoc]

theorem rtI_fss (s : InScope) (o : Option Bytes) (h0 : s.finalScriptSig = none) :
    InScope.addPairs ko sha 0 s (optKV [0x07] o) = some { s with finalScriptSig := o } := by
  cases o with
  | none => cases s; simp_all [optKV, InScope.addPairs]
  | some n => simp [optKV, InScope.addPairs, InScope.addPair, h0]

theorem rtI_fw (s : InScope) (o : Option (List Bytes)) (h0 : s.finalWitness = none)
    (hc : ∀ t, o = some t → parseAll witnessRead (witnessSer t) = some t) :
    InScope.addPairs ko sha 0 s (optKV [0x08] (o.map witnessSer)) = some { s with finalWitness := o } := by
  cases o with
  | none => cases s; simp_all [optKV, InScope.addPairs]
  | some t => simp [optKV, InScope.addPairs, InScope.addPair, h0, hc t rfl]

theorem rtI_txid (s : InScope) (o : Option Bytes) (h0 : s.txid = none) (hc : ∀ t, o = some t → t.length = 32) :
    InScope.addPairs ko sha 0 s (optKV [0x0e] (o.map List.reverse)) = some { s with txid := o } := by
  cases o with
  | none => cases s; simp_all [optKV, InScope.addPairs]
  | some t => simp [optKV, InScope.addPairs, InScope.addPair, h0, hc t rfl]

theorem rtI_vout (s : InScope) (o : Option Nat) (h0 : s.vout = none) (hc : ∀ n, o = some n → n < 2^32) :
    InScope.addPairs ko sha 0 s (optKV [0x0f] (o.map (leN 4))) = some { s with vout := o } := by
  cases o with
  | none => cases s; simp_all [optKV, InScope.addPairs]
  | some n =>
    have := ofLe_leN 4 n (by have := hc n rfl; omega)
    simp [optKV, InScope.addPairs, InScope.addPair, h0, this]

theorem rtI_seq (s : InScope) (o : Option Nat) (h0 : s.sequence = none) (hc : ∀ n, o = some n → n < 2^32) :
    InScope.addPairs ko sha 0 s (optKV [0x10] (o.map (leN 4))) = some { s with sequence := o } := by
  cases o with
  | none => cases s; simp_all [optKV, InScope.addPairs]
  | some n =>
    have := ofLe_leN 4 n (by have := hc n rfl; omega)
    simp [optKV, InScope.addPairs, InScope.addPair, h0, this]

theorem rtI_tapSigs : ∀ (l : List (Bytes × Bytes)) (s : InScope),
    (∀ x ∈ l, x.1.length = 64 ∧ ko.validX (x.1.take 32) = true) →
    ((s.tapSigs ++ l).map Prod.fst).Nodup →
    InScope.addPairs ko sha 0 s (l.map fun (p, v) => (0x14 :: p, v)) = some { s with tapSigs := s.tapSigs ++ l } := by
  intro l
  induction l with
  | nil => intro s _ _; cases s; simp [InScope.addPairs]
  | cons x l ih =>
    intro s hv hn
    obtain ⟨p, v⟩ := x
    have hl := lookup_none_of_nodup_c s.tapSigs l p v hn
    obtain ⟨v1, v2⟩ := hv (p, v) (by simp)
    simp only [List.map_cons, InScope.addPairs]
    have h1 : InScope.addPair ko sha 0 s (0x14 :: p) v = some { s with tapSigs := s.tapSigs ++ [(p, v)] } := by
      simp only [] at v1 v2
      simp [InScope.addPair, v1, v2, hl]
    rw [h1]
    simp only []
    rw [ih _ (fun y hy => hv y (by simp [hy])) (by simpa [List.append_assoc] using hn)]
    simp [List.append_assoc]

theorem rtI_tapScripts : ∀ (l : List (Bytes × Bytes)) (s : InScope),
    ((s.tapScripts ++ l).map Prod.fst).Nodup →
    InScope.addPairs ko sha 0 s (l.map fun (p, v) => (0x15 :: p, v))
      = some { s with tapScripts := s.tapScripts ++ l } := by
  intro l
  induction l with
  | nil => intro s _; cases s; simp [InScope.addPairs]
  | cons x l ih =>
    intro s hn
    obtain ⟨p, v⟩ := x
    have hl := lookup_none_of_nodup_c s.tapScripts l p v hn
    simp only [List.map_cons, InScope.addPairs]
    have h1 : InScope.addPair ko sha 0 s (0x15 :: p) v = some { s with tapScripts := s.tapScripts ++ [(p, v)] } := by
      simp [InScope.addPair, hl]
    rw [h1]
    simp only []
    rw [ih _ (by simpa [List.append_assoc] using hn)]
    simp [List.append_assoc]

theorem rtI_tapBip32 : ∀ (l : List (Bytes × (List Bytes × Deriv))) (s : InScope),
    (∀ x ∈ l, x.1.length = 32 ∧ ko.validX x.1 = true ∧ tapDerivParse (tapDerivSer x.2) = some x.2) →
    ((s.tapBip32 ++ l).map Prod.fst).Nodup →
    InScope.addPairs ko sha 0 s (l.map fun (p, x) => (0x16 :: p, tapDerivSer x))
      = some { s with tapBip32 := s.tapBip32 ++ l } := by
  intro l
  induction l with
  | nil => intro s _ _; cases s; simp [InScope.addPairs]
  | cons x l ih =>
    intro s hv hn
    obtain ⟨p, d⟩ := x
    have hl := lookup_none_of_nodup_c s.tapBip32 l p d hn
    obtain ⟨v1, v2, v3⟩ := hv (p, d) (by simp)
    simp only [List.map_cons, InScope.addPairs]
    have h1 : InScope.addPair ko sha 0 s (0x16 :: p) (tapDerivSer d)
        = some { s with tapBip32 := s.tapBip32 ++ [(p, d)] } := by
      simp only [] at v1 v2 v3
      simp [InScope.addPair, v1, v2, v3, hl]
    rw [h1]
    simp only []
    rw [ih _ (fun y hy => hv y (by simp [hy])) (by simpa [List.append_assoc] using hn)]
    simp [List.append_assoc]

theorem rtI_tik (s : InScope) (o : Option Bytes) (h0 : s.tapInternalKey = none)
    (hc : ∀ k, o = some k → k.length = 32 ∧ ko.validX k = true) :
    InScope.addPairs ko sha 0 s (optKV [0x17] o) = some { s with tapInternalKey := o } := by
  cases o with
  | none => cases s; simp_all [optKV, InScope.addPairs]
  | some k => simp [optKV, InScope.addPairs, InScope.addPair, h0, (hc k rfl).1, (hc k rfl).2]

theorem rtI_tmr (s : InScope) (o : Option Bytes) (h0 : s.tapMerkleRoot = none) :
    InScope.addPairs ko sha 0 s (optKV [0x18] o) = some { s with tapMerkleRoot := o } := by
  cases o with
  | none => cases s; simp_all [optKV, InScope.addPairs]
  | some n => simp [optKV, InScope.addPairs, InScope.addPair, h0]

theorem rtI_unknown : ∀ (l : List KV) (s : InScope), (∀ x ∈ l, UnkKeyIn x.1) →
    ((s.unknown ++ l).map Prod.fst).Nodup →
    InScope.addPairs ko sha 0 s l = some { s with unknown := s.unknown ++ l } := by
  intro l
  induction l with
  | nil => intro s _ _; cases s; simp [InScope.addPairs]
  | cons x l ih =>
    intro s hv hn
    obtain ⟨k, v⟩ := x
    have hl := lookup_none_of_nodup_c s.unknown l k v hn
    obtain ⟨k0, kr, hk, ht, hx⟩ := hv (k, v) (by simp)
    simp only [] at hk
    subst hk
    simp only [InScope.addPairs]
    have h1 : InScope.addPair ko sha 0 s (k0 :: kr) v = some { s with unknown := s.unknown ++ [(k0 :: kr, v)] } := by
      simp only [typedIn, Bool.or_eq_false_iff, beq_eq_false_iff_ne, ne_eq] at ht
      simp only [txFieldKey, Bool.or_eq_false_iff, beq_eq_false_iff_ne, ne_eq] at hx
      obtain ⟨⟨⟨⟨⟨⟨⟨⟨⟨⟨⟨⟨⟨t0, t1⟩, t2⟩, t3⟩, t4⟩, t5⟩, t6⟩, t7⟩, t8⟩, t14⟩, t15⟩, t16⟩, t17⟩, t18⟩ := ht
      obtain ⟨⟨x1, x2⟩, x3⟩ := hx
      simp only [InScope.addPair, t0, t1, t2, t3, t4, t5, t6, t7, t8, t14, t15, t16, t17, t18, x1, x2, x3, if_false, hl]
      simp
    rw [h1]
    simp only []
    rw [ih _ (fun y hy => hv y (by simp [hy])) (by simpa [List.append_assoc] using hn)]
    simp [List.append_assoc]

end segIn

/-- a canonical input scope (without the never-written `_utxo` / `_txhash` attributes) written by
    `write_to(version=ver)` and read back from the seed the parser uses (the transaction's fields for version 0,
    nothing for version 2) is the same object -/
theorem InScope.canon_roundtrip (ko : KeyOps) (sha : Bytes → Bytes) (ver : Option Nat) (s : InScope)
    (a : Option Bytes) (b c : Option Nat) (hc : InScope.Canon ko s) (hh : InScope.NoHidden s)
    (htx : if ver = some 2 then (a = none ∧ b = none ∧ c = none) else (s.txid = a ∧ s.vout = b ∧ s.sequence = c)) :
    InScope.addPairs ko sha 0 { txid := a, vout := b, sequence := c } (s.pairs ver) = some s := by
  unfold InScope.pairs
  simp only [List.append_assoc]
  refine (InScope.addPairs_step_c ko sha 0 _ _ _ _
    (rtI_nwu ko sha _ s.nonWitnessUtxo (by rfl) (by rfl) (fun t h => (hc.nwu t h).1))).trans ?_
  refine (InScope.addPairs_step_c ko sha 0 _ _ _ _
    (rtI_wu ko sha _ s.witnessUtxo (by rfl) (fun t h => (hc.wu t h).1))).trans ?_
  refine (InScope.addPairs_step_c ko sha 0 _ _ _ _
    (rtI_psigs ko sha s.partialSigs _ (fun x hx => (hc.psigs.1 x hx).1) (by simpa using hc.psigs.2))).trans ?_
  refine (InScope.addPairs_step_c ko sha 0 _ _ _ _
    (rtI_sighash ko sha _ s.sighashType (by rfl) hc.sighash)).trans ?_
  refine (InScope.addPairs_step_c ko sha 0 _ _ _ _ (rtI_redeem ko sha _ s.redeemScript (by rfl))).trans ?_
  refine (InScope.addPairs_step_c ko sha 0 _ _ _ _ (rtI_witness ko sha _ s.witnessScript (by rfl))).trans ?_
  refine (InScope.addPairs_step_c ko sha 0 _ _ _ _
    (rtI_bip32 ko sha s.bip32 _ (fun x hx => ⟨(hc.bip32.1 x hx).1, (hc.bip32.1 x hx).2.2.1⟩)
      (by simpa using hc.bip32.2))).trans ?_
  refine (InScope.addPairs_step_c ko sha 0 _ _ _ _ (rtI_fss ko sha _ s.finalScriptSig (by rfl))).trans ?_
  refine (InScope.addPairs_step_c ko sha 0 _ _ _ _
    (rtI_fw ko sha _ s.finalWitness (by rfl) (fun t h => (hc.fw t h).1))).trans ?_
  by_cases hv : ver = some 2
  · simp only [hv, if_true] at htx ⊢
    obtain ⟨rfl, rfl, rfl⟩ := htx
    simp only [List.append_assoc]
    refine (InScope.addPairs_step_c ko sha 0 _ _ _ _ (rtI_txid ko sha _ s.txid (by rfl) hc.txid)).trans ?_
    refine (InScope.addPairs_step_c ko sha 0 _ _ _ _ (rtI_vout ko sha _ s.vout (by rfl) hc.vout)).trans ?_
    refine (InScope.addPairs_step_c ko sha 0 _ _ _ _ (rtI_seq ko sha _ s.sequence (by rfl) hc.seq)).trans ?_
    refine (InScope.addPairs_step_c ko sha 0 _ _ _ _
      (rtI_tapSigs ko sha s.tapSigs _ (fun x hx => ⟨(hc.tapSigs.1 x hx).1, (hc.tapSigs.1 x hx).2.1⟩)
        (by simpa using hc.tapSigs.2))).trans ?_
    refine (InScope.addPairs_step_c ko sha 0 _ _ _ _
      (rtI_tapScripts ko sha s.tapScripts _ (by simpa using hc.tapScripts.2))).trans ?_
    refine (InScope.addPairs_step_c ko sha 0 _ _ _ _
      (rtI_tapBip32 ko sha s.tapBip32 _
        (fun x hx => ⟨(hc.tapBip32.1 x hx).1, (hc.tapBip32.1 x hx).2.1, (hc.tapBip32.1 x hx).2.2.1⟩)
        (by simpa using hc.tapBip32.2))).trans ?_
    refine (InScope.addPairs_step_c ko sha 0 _ _ _ _ (rtI_tik ko sha _ s.tapInternalKey (by rfl) hc.tik)).trans ?_
    refine (InScope.addPairs_step_c ko sha 0 _ _ _ _ (rtI_tmr ko sha _ s.tapMerkleRoot (by rfl))).trans ?_
    refine (rtI_unknown ko sha s.unknown _ (fun x hx => (hc.unk.1 x hx).1) (by simpa using hc.unk.2)).trans ?_
    have h1 := hh.1; have h2 := hh.2; have h3 := hc.verified
    cases s; simp_all
  · simp only [hv, if_false] at htx ⊢
    obtain ⟨rfl, rfl, rfl⟩ := htx
    simp only [List.nil_append]
    refine (InScope.addPairs_step_c ko sha 0 _ _ _ _
      (rtI_tapSigs ko sha s.tapSigs _ (fun x hx => ⟨(hc.tapSigs.1 x hx).1, (hc.tapSigs.1 x hx).2.1⟩)
        (by simpa using hc.tapSigs.2))).trans ?_
    refine (InScope.addPairs_step_c ko sha 0 _ _ _ _
      (rtI_tapScripts ko sha s.tapScripts _ (by simpa using hc.tapScripts.2))).trans ?_
    refine (InScope.addPairs_step_c ko sha 0 _ _ _ _
      (rtI_tapBip32 ko sha s.tapBip32 _
        (fun x hx => ⟨(hc.tapBip32.1 x hx).1, (hc.tapBip32.1 x hx).2.1, (hc.tapBip32.1 x hx).2.2.1⟩)
        (by simpa using hc.tapBip32.2))).trans ?_
    refine (InScope.addPairs_step_c ko sha 0 _ _ _ _ (rtI_tik ko sha _ s.tapInternalKey (by rfl) hc.tik)).trans ?_
    refine (InScope.addPairs_step_c ko sha 0 _ _ _ _ (rtI_tmr ko sha _ s.tapMerkleRoot (by rfl))).trans ?_
    refine (rtI_unknown ko sha s.unknown _ (fun x hx => (hc.unk.1 x hx).1) (by simpa using hc.unk.2)).trans ?_
    have h1 := hh.1; have h2 := hh.2; have h3 := hc.verified
    cases s; simp_all

/-! ### output scope -/

section segOut
variable (ko : KeyOps)

theorem rtO_redeem (s : OutScope) (o : Option Bytes) (h0 : s.redeemScript = none) :
    OutScope.addPairs ko s (optKV [0x00] o) = some { s with redeemScript := o } := by
  cases o with
  | none => cases s; simp_all [optKV, OutScope.addPairs]
  | some n => simp [optKV, OutScope.addPairs, OutScope.addPair, h0]

theorem rtO_witness (s : OutScope) (o : Option Bytes) (h0 : s.witnessScript = none) :
    OutScope.addPairs ko s (optKV [0x01] o) = some { s with witnessScript := o } := by
  cases o with
  | none => cases s; simp_all [optKV, OutScope.addPairs]
  | some n => simp [optKV, OutScope.addPairs, OutScope.addPair, h0]

theorem rtO_bip32 : ∀ (l : List (Bytes × Deriv)) (s : OutScope),
    (∀ x ∈ l, ko.validSec x.1 = true ∧ Deriv.parse (Deriv.ser x.2) = some x.2) →
    ((s.bip32 ++ l).map Prod.fst).Nodup →
    OutScope.addPairs ko s (l.map fun (p, d) => (0x02 :: p, Deriv.ser d)) = some { s with bip32 := s.bip32 ++ l } := by
  intro l
  induction l with
  | nil => intro s _ _; cases s; simp [OutScope.addPairs]
  | cons x l ih =>
    intro s hv hn
    obtain ⟨p, d⟩ := x
    have hl := lookup_none_of_nodup_c s.bip32 l p d hn
    obtain ⟨v1, v2⟩ := hv (p, d) (by simp)
    simp only [List.map_cons, OutScope.addPairs]
    have h1 : OutScope.addPair ko s (0x02 :: p) (Deriv.ser d) = some { s with bip32 := s.bip32 ++ [(p, d)] } := by
      simp only [] at v1 v2
      simp [OutScope.addPair, v1, v2, hl]
    rw [h1]
    simp only []
    rw [ih _ (fun y hy => hv y (by simp [hy])) (by simpa [List.append_assoc] using hn)]
    simp [List.append_assoc]

theorem rtO_value (s : OutScope) (o : Option Nat) (h0 : s.value = none) (hc : ∀ n, o = some n → n < 2^64) :
    OutScope.addPairs ko s (optKV [0x03] (o.map (leN 8))) = some { s with value := o } := by
  cases o with
  | none => cases s; simp_all [optKV, OutScope.addPairs]
  | some n =>
    have := ofLe_leN 8 n (by have := hc n rfl; omega)
    simp [optKV, OutScope.addPairs, OutScope.addPair, h0, this]

theorem rtO_spk (s : OutScope) (o : Option Bytes) (h0 : s.spk = none) :
    OutScope.addPairs ko s (optKV [0x04] o) = some { s with spk := o } := by
  cases o with
  | none => cases s; simp_all [optKV, OutScope.addPairs]
  | some n => simp [optKV, OutScope.addPairs, OutScope.addPair, h0]

theorem rtO_tik (s : OutScope) (o : Option Bytes) (h0 : s.tapInternalKey = none)
    (hc : ∀ k, o = some k → k.length = 32 ∧ ko.validX k = true) :
    OutScope.addPairs ko s (optKV [0x05] o) = some { s with tapInternalKey := o } := by
  cases o with
  | none => cases s; simp_all [optKV, OutScope.addPairs]
  | some k => simp [optKV, OutScope.addPairs, OutScope.addPair, h0, (hc k rfl).1, (hc k rfl).2]

theorem rtO_tapBip32 : ∀ (l : List (Bytes × (List Bytes × Deriv))) (s : OutScope),
    (∀ x ∈ l, x.1.length = 32 ∧ ko.validX x.1 = true ∧ tapDerivParse (tapDerivSer x.2) = some x.2) →
    ((s.tapBip32 ++ l).map Prod.fst).Nodup →
    OutScope.addPairs ko s (l.map fun (p, x) => (0x07 :: p, tapDerivSer x))
      = some { s with tapBip32 := s.tapBip32 ++ l } := by
  intro l
  induction l with
  | nil => intro s _ _; cases s; simp [OutScope.addPairs]
  | cons x l ih =>
    intro s hv hn
    obtain ⟨p, d⟩ := x
    have hl := lookup_none_of_nodup_c s.tapBip32 l p d hn
    obtain ⟨v1, v2, v3⟩ := hv (p, d) (by simp)
    simp only [List.map_cons, OutScope.addPairs]
    have h1 : OutScope.addPair ko s (0x07 :: p) (tapDerivSer d)
        = some { s with tapBip32 := s.tapBip32 ++ [(p, d)] } := by
      simp only [] at v1 v2 v3
      simp [OutScope.addPair, v1, v2, v3, hl]
    rw [h1]
    simp only []
    rw [ih _ (fun y hy => hv y (by simp [hy])) (by simpa [List.append_assoc] using hn)]
    simp [List.append_assoc]

theorem rtO_unknown : ∀ (l : List KV) (s : OutScope), (∀ x ∈ l, UnkKeyOut x.1) →
    ((s.unknown ++ l).map Prod.fst).Nodup →
    OutScope.addPairs ko s l = some { s with unknown := s.unknown ++ l } := by
  intro l
  induction l with
  | nil => intro s _ _; cases s; simp [OutScope.addPairs]
  | cons x l ih =>
    intro s hv hn
    obtain ⟨k, v⟩ := x
    have hl := lookup_none_of_nodup_c s.unknown l k v hn
    obtain ⟨k0, kr, hk, ht, hx⟩ := hv (k, v) (by simp)
    simp only [] at hk
    subst hk
    simp only [OutScope.addPairs]
    have h1 : OutScope.addPair ko s (k0 :: kr) v = some { s with unknown := s.unknown ++ [(k0 :: kr, v)] } := by
      simp only [typedOut, Bool.or_eq_false_iff, beq_eq_false_iff_ne, ne_eq] at ht
      simp only [txFieldKeyOut, Bool.or_eq_false_iff, beq_eq_false_iff_ne, ne_eq] at hx
      obtain ⟨⟨⟨⟨t0, t1⟩, t2⟩, t5⟩, t7⟩ := ht
      obtain ⟨x1, x2⟩ := hx
      simp only [OutScope.addPair, t0, t1, t2, t5, t7, x1, x2, if_false, hl]
      simp
    rw [h1]
    simp only []
    rw [ih _ (fun y hy => hv y (by simp [hy])) (by simpa [List.append_assoc] using hn)]
    simp [List.append_assoc]

end segOut

theorem OutScope.canon_roundtrip (ko : KeyOps) (ver : Option Nat) (s : OutScope) (a : Option Nat) (b : Option Bytes)
    (hc : OutScope.Canon ko s)
    (htx : if ver = some 2 then (a = none ∧ b = none) else (s.value = a ∧ s.spk = b)) :
    OutScope.addPairs ko { value := a, spk := b } (s.pairs ver) = some s := by
  unfold OutScope.pairs
  simp only [List.append_assoc]
  refine (OutScope.addPairs_step_c ko _ _ _ _ (rtO_redeem ko _ s.redeemScript (by rfl))).trans ?_
  refine (OutScope.addPairs_step_c ko _ _ _ _ (rtO_witness ko _ s.witnessScript (by rfl))).trans ?_
  refine (OutScope.addPairs_step_c ko _ _ _ _
    (rtO_bip32 ko s.bip32 _ (fun x hx => ⟨(hc.bip32.1 x hx).1, (hc.bip32.1 x hx).2.2.1⟩)
      (by simpa using hc.bip32.2))).trans ?_
  by_cases hv : ver = some 2
  · simp only [hv, if_true] at htx ⊢
    obtain ⟨rfl, rfl⟩ := htx
    simp only [List.append_assoc]
    refine (OutScope.addPairs_step_c ko _ _ _ _ (rtO_value ko _ s.value (by rfl) hc.value)).trans ?_
    refine (OutScope.addPairs_step_c ko _ _ _ _ (rtO_spk ko _ s.spk (by rfl))).trans ?_
    refine (OutScope.addPairs_step_c ko _ _ _ _ (rtO_tik ko _ s.tapInternalKey (by rfl) hc.tik)).trans ?_
    refine (OutScope.addPairs_step_c ko _ _ _ _
      (rtO_tapBip32 ko s.tapBip32 _
        (fun x hx => ⟨(hc.tapBip32.1 x hx).1, (hc.tapBip32.1 x hx).2.1, (hc.tapBip32.1 x hx).2.2.1⟩)
        (by simpa using hc.tapBip32.2))).trans ?_
    refine (rtO_unknown ko s.unknown _ (fun x hx => (hc.unk.1 x hx).1) (by simpa using hc.unk.2)).trans ?_
    cases s; simp_all
  · simp only [hv, if_false] at htx ⊢
    obtain ⟨rfl, rfl⟩ := htx
    simp only [List.nil_append]
    refine (OutScope.addPairs_step_c ko _ _ _ _ (rtO_tik ko _ s.tapInternalKey (by rfl) hc.tik)).trans ?_
    refine (OutScope.addPairs_step_c ko _ _ _ _
      (rtO_tapBip32 ko s.tapBip32 _
        (fun x hx => ⟨(hc.tapBip32.1 x hx).1, (hc.tapBip32.1 x hx).2.1, (hc.tapBip32.1 x hx).2.2.1⟩)
        (by simpa using hc.tapBip32.2))).trans ?_
    refine (rtO_unknown ko s.unknown _ (fun x hx => (hc.unk.1 x hx).1) (by simpa using hc.unk.2)).trans ?_
    cases s; simp_all

/-! ### every pair a canonical scope writes is well-framed (non-empty key, lengths below 2^64) -/

theorem InScope.canon_pairs_wf (ko : KeyOps) (ver : Option Nat) (s : InScope) (hc : InScope.Canon ko s) :
    ∀ kv ∈ s.pairs ver, KVWF kv := by
  intro kv hkv
  unfold InScope.pairs at hkv
  simp only [List.mem_append, List.mem_map, optKV] at hkv
  rcases hkv with ((((((((((((((h | h) | h) | h) | h) | h) | h) | h) | h) | h) | h) | h) | h) | h) | h) | h
  · cases hn : s.nonWitnessUtxo with
    | none => simp [hn] at h
    | some t => simp [hn] at h; subst h; exact ⟨by simp, by simp, (hc.nwu t hn).2⟩
  · cases hn : s.witnessUtxo with
    | none => simp [hn] at h
    | some t => simp [hn] at h; subst h; exact ⟨by simp, by simp, (hc.wu t hn).2⟩
  · obtain ⟨x, hx, rfl⟩ := h
    obtain ⟨_, a, b⟩ := hc.psigs.1 x hx
    exact ⟨by simp, by simpa using a, b⟩
  · cases hn : s.sighashType with
    | none => simp [hn] at h
    | some t => simp [hn] at h; subst h; exact ⟨by simp, by simp, by simp⟩
  · cases hn : s.redeemScript with
    | none => simp [hn] at h
    | some t => simp [hn] at h; subst h; exact ⟨by simp, by simp, hc.redeem t hn⟩
  · cases hn : s.witnessScript with
    | none => simp [hn] at h
    | some t => simp [hn] at h; subst h; exact ⟨by simp, by simp, hc.witness t hn⟩
  · obtain ⟨x, hx, rfl⟩ := h
    obtain ⟨_, a, _, b⟩ := hc.bip32.1 x hx
    exact ⟨by simp, by simpa using a, b⟩
  · cases hn : s.finalScriptSig with
    | none => simp [hn] at h
    | some t => simp [hn] at h; subst h; exact ⟨by simp, by simp, hc.fss t hn⟩
  · cases hn : s.finalWitness with
    | none => simp [hn] at h
    | some t => simp [hn] at h; subst h; exact ⟨by simp, by simp, (hc.fw t hn).2⟩
  · split at h
    · simp only [List.mem_append] at h
      rcases h with (h | h) | h
      · cases hn : s.txid with
        | none => simp [hn] at h
        | some t =>
          simp [hn] at h; subst h
          exact ⟨by simp, by simp, by simp [hc.txid t hn]⟩
      · cases hn : s.vout with
        | none => simp [hn] at h
        | some t => simp [hn] at h; subst h; exact ⟨by simp, by simp, by simp⟩
      · cases hn : s.sequence with
        | none => simp [hn] at h
        | some t => simp [hn] at h; subst h; exact ⟨by simp, by simp, by simp⟩
    · simp at h
  · obtain ⟨x, hx, rfl⟩ := h
    obtain ⟨a, _, b⟩ := hc.tapSigs.1 x hx
    exact ⟨by simp, by simp [a], b⟩
  · obtain ⟨x, hx, rfl⟩ := h
    obtain ⟨a, b⟩ := hc.tapScripts.1 x hx
    exact ⟨by simp, by simpa using a, b⟩
  · obtain ⟨x, hx, rfl⟩ := h
    obtain ⟨a, _, _, b⟩ := hc.tapBip32.1 x hx
    exact ⟨by simp, by simp [a], b⟩
  · cases hn : s.tapInternalKey with
    | none => simp [hn] at h
    | some t => simp [hn] at h; subst h; exact ⟨by simp, by simp, by simp [(hc.tik t hn).1]⟩
  · cases hn : s.tapMerkleRoot with
    | none => simp [hn] at h
    | some t => simp [hn] at h; subst h; exact ⟨by simp, by simp, hc.tmr t hn⟩
  · obtain ⟨⟨k0, kr, e, _, _⟩, a, b⟩ := hc.unk.1 kv h
    exact ⟨by rw [e]; simp, a, b⟩

theorem OutScope.canon_pairs_wf (ko : KeyOps) (ver : Option Nat) (s : OutScope) (hc : OutScope.Canon ko s) :
    ∀ kv ∈ s.pairs ver, KVWF kv := by
  intro kv hkv
  unfold OutScope.pairs at hkv
  simp only [List.mem_append, List.mem_map, optKV] at hkv
  rcases hkv with (((((h | h) | h) | h) | h) | h) | h
  · cases hn : s.redeemScript with
    | none => simp [hn] at h
    | some t => simp [hn] at h; subst h; exact ⟨by simp, by simp, hc.redeem t hn⟩
  · cases hn : s.witnessScript with
    | none => simp [hn] at h
    | some t => simp [hn] at h; subst h; exact ⟨by simp, by simp, hc.witness t hn⟩
  · obtain ⟨x, hx, rfl⟩ := h
    obtain ⟨_, a, _, b⟩ := hc.bip32.1 x hx
    exact ⟨by simp, by simpa using a, b⟩
  · split at h
    · simp only [List.mem_append] at h
      rcases h with h | h
      · cases hn : s.value with
        | none => simp [hn] at h
        | some t => simp [hn] at h; subst h; exact ⟨by simp, by simp, by simp⟩
      · cases hn : s.spk with
        | none => simp [hn] at h
        | some t => simp [hn] at h; subst h; exact ⟨by simp, by simp, hc.spk t hn⟩
    · simp at h
  · cases hn : s.tapInternalKey with
    | none => simp [hn] at h
    | some t => simp [hn] at h; subst h; exact ⟨by simp, by simp, by simp [(hc.tik t hn).1]⟩
  · obtain ⟨x, hx, rfl⟩ := h
    obtain ⟨a, _, _, b⟩ := hc.tapBip32.1 x hx
    exact ⟨by simp, by simp [a], b⟩
  · obtain ⟨⟨k0, kr, e, _, _⟩, a, b⟩ := hc.unk.1 kv h
    exact ⟨by rw [e]; simp, a, b⟩

end Embit
