/-
  Byte strings, little/big-endian integer codecs, hex.
  Mathlib-free and executable (used by the native driver).
-/
namespace Embit

abbrev Bytes := List UInt8

/-- `k` little-endian bytes of `v` (Python: `v.to_bytes(k, "little")`, which raises when `v ≥ 256^k`;
    callers state `v < 256^k` as well-formedness). -/
def leN : Nat → Nat → Bytes
  | 0, _ => []
  | k+1, v => UInt8.ofNat (v % 256) :: leN k (v / 256)

/-- Python `int.from_bytes(b, "little")`. -/
def ofLe : Bytes → Nat
  | [] => 0
  | b :: bs => b.toNat + 256 * ofLe bs

def beN (k v : Nat) : Bytes := (leN k v).reverse
def ofBe (b : Bytes) : Nat := ofLe b.reverse

@[simp] theorem leN_length (k v : Nat) : (leN k v).length = k := by
  induction k generalizing v with
  | zero => rfl
  | succ k ih => simp [leN, ih]

@[simp] theorem beN_length (k v : Nat) : (beN k v).length = k := by simp [beN]

theorem ofLe_leN (k v : Nat) (h : v < 256 ^ k) : ofLe (leN k v) = v := by
  induction k generalizing v with
  | zero => simp at h; simp [leN, ofLe, h]
  | succ k ih =>
    have h2 : v / 256 < 256 ^ k := by
      rw [Nat.div_lt_iff_lt_mul (by decide)]; rw [Nat.pow_succ] at h; exact h
    simp only [leN, ofLe, ih _ h2]
    have : (UInt8.ofNat (v % 256)).toNat = v % 256 := by
      simp [UInt8.toNat_ofNat']
    rw [this]; omega

theorem ofLe_lt (b : Bytes) : ofLe b < 256 ^ b.length := by
  induction b with
  | nil => simp [ofLe]
  | cons x xs ih =>
    simp only [ofLe, List.length_cons, Nat.pow_succ]
    have := x.toNat_lt
    omega

theorem leN_ofLe (b : Bytes) : leN b.length (ofLe b) = b := by
  induction b with
  | nil => rfl
  | cons x xs ih =>
    simp only [List.length_cons, leN, ofLe]
    have hx := x.toNat_lt
    have h1 : (x.toNat + 256 * ofLe xs) % 256 = x.toNat := by omega
    have h2 : (x.toNat + 256 * ofLe xs) / 256 = ofLe xs := by omega
    rw [h1, h2, ih]; simp

theorem ofBe_beN (k v : Nat) (h : v < 256 ^ k) : ofBe (beN k v) = v := by
  simp [ofBe, beN, ofLe_leN k v h]

/-! ### hex -/

def hexDigit (n : Nat) : Char :=
  if n < 10 then Char.ofNat (48 + n) else Char.ofNat (87 + n)

def toHex (b : Bytes) : String :=
  String.ofList (b.flatMap fun x => [hexDigit (x.toNat / 16), hexDigit (x.toNat % 16)])

def hexVal (c : Char) : Option Nat :=
  if '0' ≤ c ∧ c ≤ '9' then some (c.toNat - 48)
  else if 'a' ≤ c ∧ c ≤ 'f' then some (c.toNat - 87)
  else if 'A' ≤ c ∧ c ≤ 'F' then some (c.toNat - 55)
  else none

def ofHexChars : List Char → Option Bytes
  | [] => some []
  | [_] => none
  | a :: b :: rest => do
    let x ← hexVal a
    let y ← hexVal b
    let r ← ofHexChars rest
    pure (UInt8.ofNat (16 * x + y) :: r)

/-- `-` denotes the empty byte string on the wire protocol. -/
def ofHex (s : String) : Option Bytes :=
  if s == "-" then some [] else ofHexChars s.toList

def toHexP (b : Bytes) : String := if b.isEmpty then "-" else toHex b

end Embit
