import EmbitModel.Basic.Bytes
/-
  Miniscript: the syntax of the expressions embit supports (23 fragments, 10 wrappers), the four base
  types and the five properties the property C13 speaks about. Syntax only — no rule lives here.
  Shared by `Model/Miniscript.lean` (embit's rules) and `Spec/MiniscriptSpec.lean` (the published table).

  Key arguments are represented by the byte string the key contributes to the script (33-byte SEC key in
  P2WSH, 32-byte x-only key in tapscript); `pk_h`/`pkh` carry the 20-byte HASH160; hashes are raw digests.
-/
namespace Embit.Miniscript

/-- script context: `wsh(…)` (segwit v0) or a `tr(KEY, …)` leaf (tapscript) -/
inductive Ctx | wsh | tap
deriving DecidableEq, Repr, Inhabited

inductive Ty | B | V | K | W
deriving DecidableEq, Repr, Inhabited

structure Props where
  z : Bool := false
  o : Bool := false
  n : Bool := false
  d : Bool := false
  u : Bool := false
deriving DecidableEq, Repr, Inhabited

/-- `pk_k pk_h pk pkh` (embit classes `PkK PkH Pk Pkh`) -/
inductive KeyFrag | pk_k | pk_h | pk | pkh
deriving DecidableEq, Repr
/-- `older after` -/
inductive TimeFrag | older | after
deriving DecidableEq, Repr
/-- `sha256 hash256 ripemd160 hash160` -/
inductive HashFrag | sha256 | hash256 | ripemd160 | hash160
deriving DecidableEq, Repr
/-- the two-argument combinators -/
inductive BinFrag | and_v | and_b | and_n | or_b | or_c | or_d | or_i
deriving DecidableEq, Repr
/-- `multi sortedmulti multi_a sortedmulti_a` -/
inductive MultiFrag | multi | sortedmulti | multi_a | sortedmulti_a
deriving DecidableEq, Repr
/-- the wrappers `a s c t d v j n l u` -/
inductive Wrap | a | s | c | t | d | v | j | n | l | u
deriving DecidableEq, Repr

inductive Ms where
  | key (f : KeyFrag) (arg : Bytes)
  | time (f : TimeFrag) (n : Nat)
  | hash (f : HashFrag) (h : Bytes)
  | andor (x y z : Ms)
  | bin (f : BinFrag) (x y : Ms)
  | thresh (k : Nat) (xs : List Ms)
  | multi (f : MultiFrag) (k : Nat) (keys : List Bytes)
  | wrap (w : Wrap) (x : Ms)
deriving Repr, Inhabited

/-! ### lexicographic order and sorting of byte strings (Python `sorted` on `bytes`, BIP67 key order) -/

/-- `a <= b` on Python `bytes` / lexicographic order with a proper prefix first -/
def bytesLe : Bytes → Bytes → Bool
  | [], _ => true
  | _ :: _, [] => false
  | a :: as, b :: bs => if a < b then true else if a = b then bytesLe as bs else false

def insertSorted (x : Bytes) : List Bytes → List Bytes
  | [] => [x]
  | y :: ys => if bytesLe x y then x :: y :: ys else y :: insertSorted x ys

/-- the ascending arrangement of a list of byte strings -/
def sortBytes : List Bytes → List Bytes
  | [] => []
  | x :: xs => insertSorted x (sortBytes xs)

/-! ### arguments as a descriptor parser can produce them -/

def sameLen : List Bytes → Bool
  | [] => true
  | k :: ks => ks.all (fun x => x.length == k.length)

mutual
/-- what the script ENCODING of an expression depends on: every pushed key / hash is shorter than 76 bytes (keys
    are 32, 33 or 65 bytes, hashes 20 or 32: a direct push), the `k` of a `thresh` is below 2^256 (embit's `Number.compile`
    raises above; every other number is bounded by `verify`), and the keys of a `sortedmulti*` have one length (so that ordering the pushes orders the keys). -/
def Ms.argsOk : Ms → Bool
  | .key _ a => a.length < 76
  | .time _ _ => true
  | .hash _ h => h.length < 76
  | .andor x y z => x.argsOk && y.argsOk && z.argsOk
  | .bin _ x y => x.argsOk && y.argsOk
  | .thresh k xs => decide (k < 2 ^ 256) && Ms.argsOkL xs
  | .multi f _ keys =>
    keys.all (fun a => a.length < 76) &&
    (match f with
      | .sortedmulti => sameLen keys
      | .sortedmulti_a => sameLen keys
      | _ => true)
  | .wrap _ x => x.argsOk
def Ms.argsOkL : List Ms → Bool
  | [] => true
  | x :: xs => x.argsOk && Ms.argsOkL xs
end

mutual
/-- what `len()` depends on: hash arguments have the length their class reads (`Raw32` 32, `Raw20` and
    `KeyHash` 20), every key is shorter than 253 bytes (one-byte length prefix), and `thresh` / `multi_a` have at
    least one sub-expression / key (`compile()` raises IndexError otherwise). -/
def Ms.lensOk : Ms → Bool
  | .key f a =>
    (match f with
      | .pk_h => a.length == 20
      | .pkh => a.length == 20
      | _ => a.length < 253)
  | .time _ _ => true
  | .hash f h =>
    (match f with
      | .sha256 => h.length == 32
      | .hash256 => h.length == 32
      | .ripemd160 => h.length == 20
      | .hash160 => h.length == 20)
  | .andor x y z => x.lensOk && y.lensOk && z.lensOk
  | .bin _ x y => x.lensOk && y.lensOk
  | .thresh _ xs => !xs.isEmpty && Ms.lensOkL xs
  | .multi f _ keys =>
    keys.all (fun a => a.length < 253) &&
    (match f with
      | .multi_a => !keys.isEmpty
      | .sortedmulti_a => !keys.isEmpty
      | _ => true)
  | .wrap _ x => x.lensOk
def Ms.lensOkL : List Ms → Bool
  | [] => true
  | x :: xs => x.lensOk && Ms.lensOkL xs
end

/-- induction principle for the nested type (sub-expressions of `thresh` through list membership) -/
theorem Ms.ind {P : Ms → Prop}
    (key : ∀ f a, P (.key f a)) (time : ∀ f n, P (.time f n)) (hash : ∀ f h, P (.hash f h))
    (andor : ∀ x y z, P x → P y → P z → P (.andor x y z))
    (bin : ∀ f x y, P x → P y → P (.bin f x y))
    (thresh : ∀ k xs, (∀ x ∈ xs, P x) → P (.thresh k xs))
    (multi : ∀ f k keys, P (.multi f k keys))
    (wrap : ∀ w x, P x → P (.wrap w x)) : ∀ e, P e := by
  intro e
  exact Ms.rec (motive_1 := P) (motive_2 := fun xs => ∀ x ∈ xs, P x)
    key time hash (fun x y z => andor x y z) (fun f x y => bin f x y) (fun k xs => thresh k xs) multi
    (fun w x => wrap w x)
    (by intro x hx; cases hx)
    (by
      intro h t ph pt x hx
      cases hx with
      | head => exact ph
      | tail _ h' => exact pt x h')
    e

end Embit.Miniscript
