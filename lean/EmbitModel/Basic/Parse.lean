import EmbitModel.Basic.Compact
/-
  Counted-list combinator and its two generic lemmas (encode-then-read, read-is-sound).
-/
namespace Embit

/-- `for i in range(n): xs.append(p(stream))` -/
def readMany {α : Type} (p : Parser α) : Nat → Parser (List α)
  | 0 => fun b => some ([], b)
  | n+1 => fun b =>
    match p b with
    | some (x, r) =>
      match readMany p n r with
      | some (xs, r') => some (x :: xs, r')
      | none => none
    | none => none

theorem readMany_enc {α : Type} (p : Parser α) (e : α → Bytes) (xs : List α) (r : Bytes)
    (h : ∀ x ∈ xs, ∀ r, p (e x ++ r) = some (x, r)) :
    readMany p xs.length (xs.flatMap e ++ r) = some (xs, r) := by
  induction xs with
  | nil => simp [readMany]
  | cons x xs ih =>
    have hx := h x (by simp) (xs.flatMap e ++ r)
    have ih' := ih (fun y hy => h y (by simp [hy]))
    simp [readMany, List.flatMap_cons, List.append_assoc, hx, ih']

theorem readMany_sound {α : Type} (p : Parser α) (e : α → Bytes) (P : α → Prop)
    (hp : ∀ b x r, p b = some (x, r) → b = e x ++ r ∧ P x) :
    ∀ n b xs r, readMany p n b = some (xs, r) →
      b = xs.flatMap e ++ r ∧ xs.length = n ∧ ∀ x ∈ xs, P x := by
  intro n
  induction n with
  | zero =>
    intro b xs r h
    simp [readMany] at h
    obtain ⟨h1, h2⟩ := h; subst h1; subst h2; simp
  | succ n ih =>
    intro b xs r h
    simp only [readMany] at h
    split at h
    · rename_i x r1 hx
      split at h
      · rename_i xs' r2 hxs
        simp at h; obtain ⟨h1, h2⟩ := h; subst h1; subst h2
        obtain ⟨hb, hP⟩ := hp _ _ _ hx
        obtain ⟨hb2, hl, hall⟩ := ih _ _ _ hxs
        subst hb; subst hb2
        refine ⟨by simp [List.append_assoc], by simp [hl], ?_⟩
        intro y hy
        simp at hy
        rcases hy with rfl | hy
        · exact hP
        · exact hall y hy
      · simp at h
    · simp at h

/-- only the number of elements read is attacker-visible: at most one per remaining byte when every
    element consumes at least one byte (used for the C17 cost bound). -/
theorem readMany_length {α : Type} (p : Parser α) (n : Nat) (b : Bytes) (xs : List α) (r : Bytes)
    (h : readMany p n b = some (xs, r)) : xs.length = n := by
  induction n generalizing b xs r with
  | zero => simp [readMany] at h; simp [h.1.symm]
  | succ n ih =>
    simp only [readMany] at h
    split at h
    · split at h
      · rename_i hxs
        simp at h; rw [← h.1]; simp [ih _ _ _ hxs]
      · simp at h
    · simp at h

end Embit

namespace Embit

theorem readMany_enc_map {α : Type} (p : Parser α) (e : α → Bytes) (f : α → α) (xs : List α)
    (r : Bytes) (h : ∀ x ∈ xs, ∀ r, p (e x ++ r) = some (f x, r)) :
    readMany p xs.length (xs.flatMap e ++ r) = some (xs.map f, r) := by
  induction xs with
  | nil => simp [readMany]
  | cons x xs ih =>
    have hx := h x (by simp) (xs.flatMap e ++ r)
    have ih' := ih (fun y hy => h y (by simp [hy]))
    simp [readMany, List.flatMap_cons, List.append_assoc, hx, ih']

end Embit
