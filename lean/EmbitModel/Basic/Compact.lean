import EmbitModel.Basic.Bytes
/-
  Parsers over byte strings and Bitcoin's CompactSize.
  A parser consumes a prefix and returns the value with the remaining bytes; `none` = the Python raises.
-/
namespace Embit

abbrev Parser (α : Type) := Bytes → Option (α × Bytes)

/-- exactly `n` bytes (`read_exact` / `stream.read(n)` followed by a length check). -/
def takeN (n : Nat) : Parser Bytes := fun b =>
  if n ≤ b.length then some (b.take n, b.drop n) else none

/-- Python `stream.read(n)` without a length check: up to `n` bytes. -/
def takeUpTo (n : Nat) (b : Bytes) : Bytes × Bytes := (b.take n, b.drop n)

def readLe (k : Nat) : Parser Nat := fun b =>
  match takeN k b with
  | some (x, r) => some (ofLe x, r)
  | none => none

theorem takeN_append (x r : Bytes) : takeN x.length (x ++ r) = some (x, r) := by
  simp [takeN]

theorem takeN_sound {n : Nat} {b x r : Bytes} (h : takeN n b = some (x, r)) :
    b = x ++ r ∧ x.length = n := by
  unfold takeN at h
  split at h
  · simp at h; obtain ⟨h1, h2⟩ := h; subst h1; subst h2
    simp [List.take_append_drop]; omega
  · simp at h

theorem readLe_leN (k v : Nat) (r : Bytes) (h : v < 256 ^ k) :
    readLe k (leN k v ++ r) = some (v, r) := by
  have := takeN_append (leN k v) r
  simp only [leN_length] at this
  simp [readLe, this, ofLe_leN k v h]

theorem readLe_sound {k v : Nat} {b r : Bytes} (h : readLe k b = some (v, r)) :
    b = leN k v ++ r ∧ v < 256 ^ k := by
  unfold readLe at h
  split at h
  · rename_i x r' hx
    simp at h; obtain ⟨h1, h2⟩ := h; subst h1; subst h2
    obtain ⟨hb, hl⟩ := takeN_sound hx
    subst hl
    refine ⟨by rw [leN_ofLe]; exact hb, ofLe_lt x⟩
  · simp at h

namespace Compact

/-- `compact.to_bytes` (defined for `n < 2^64`; Python raises above). -/
def enc (n : Nat) : Bytes :=
  if n < 0xfd then [UInt8.ofNat n]
  else if n < 2^16 then 0xfd :: leN 2 n
  else if n < 2^32 then 0xfe :: leN 4 n
  else 0xff :: leN 8 n

/-- Strict CompactSize reader (Bitcoin Core's `ReadCompactSize` without the MAX_SIZE range check):
    full payload required, shortest encoding only. -/
def read : Parser Nat := fun b =>
  match b with
  | [] => none
  | c :: rest =>
    if c.toNat < 0xfd then some (c.toNat, rest)
    else if c.toNat = 0xfd then
      match readLe 2 rest with
      | some (v, r) => if v < 0xfd then none else some (v, r)
      | none => none
    else if c.toNat = 0xfe then
      match readLe 4 rest with
      | some (v, r) => if v < 2^16 then none else some (v, r)
      | none => none
    else
      match readLe 8 rest with
      | some (v, r) => if v < 2^32 then none else some (v, r)
      | none => none

/-- The reader embit had before the `fix:` commit for C03: a short payload is accepted and so is any
    non-minimal encoding (kept to state the defect as a theorem). -/
def readLenient : Parser Nat := fun b =>
  match b with
  | [] => none
  | c :: rest =>
    if c.toNat < 0xfd then some (c.toNat, rest)
    else
      let k := 2 ^ (c.toNat - 0xfc)
      some (ofLe (rest.take k), rest.drop k)

theorem read_enc (n : Nat) (r : Bytes) (h : n < 2^64) : read (enc n ++ r) = some (n, r) := by
  unfold enc
  split
  · rename_i h1
    have : (UInt8.ofNat n).toNat = n := by simp [UInt8.toNat_ofNat']; omega
    simp [read, this, h1]
  · split
    · rename_i h1 h2
      have := readLe_leN 2 n r (by omega)
      simp [read, this]; omega
    · split
      · rename_i h1 h2 h3
        have := readLe_leN 4 n r (by omega)
        simp [read, this]; omega
      · rename_i h1 h2 h3
        have := readLe_leN 8 n r (by omega)
        simp [read, this]; omega

theorem read_sound {b r : Bytes} {n : Nat} (h : read b = some (n, r)) :
    b = enc n ++ r ∧ n < 2^64 := by
  match b, h with
  | c :: rest, h =>
    simp only [read] at h
    split at h
    · rename_i h1
      simp at h; obtain ⟨h2, h3⟩ := h; subst h2; subst h3
      refine ⟨?_, by omega⟩
      simp [enc, h1]
    · split at h
      · rename_i hc
        split at h
        · rename_i v r' hv
          split at h
          · simp at h
          · simp at h; obtain ⟨h2, h3⟩ := h; subst h2; subst h3
            obtain ⟨hb, hl⟩ := readLe_sound hv
            have hc' : c = 0xfd := by
              apply UInt8.toNat_inj.mp; simpa using hc
            refine ⟨?_, by omega⟩
            have h1 : ¬ v < 0xfd := by omega
            have h16 : v < 2^16 := by omega
            simp [enc, h1, h16, hb, hc']
        · simp at h
      · split at h
        · rename_i hc
          split at h
          · rename_i v r' hv
            split at h
            · simp at h
            · simp at h; obtain ⟨h2, h3⟩ := h; subst h2; subst h3
              obtain ⟨hb, hl⟩ := readLe_sound hv
              have hc' : c = 0xfe := by
                apply UInt8.toNat_inj.mp; simpa using hc
              refine ⟨?_, by omega⟩
              have h1 : ¬ v < 0xfd := by omega
              have h2 : ¬ v < 2^16 := by omega
              have h3 : v < 2^32 := by omega
              simp [enc, h1, h2, h3, hb, hc']
          · simp at h
        · rename_i hc1 hc2 hc3
          split at h
          · rename_i v r' hv
            split at h
            · simp at h
            · simp at h; obtain ⟨h2, h3⟩ := h; subst h2; subst h3
              obtain ⟨hb, hl⟩ := readLe_sound hv
              have hc' : c = 0xff := by
                apply UInt8.toNat_inj.mp
                have := c.toNat_lt
                simp; omega
              refine ⟨?_, by omega⟩
              have h1 : ¬ v < 0xfd := by omega
              have h2 : ¬ v < 2^16 := by omega
              have h3 : ¬ v < 2^32 := by omega
              simp [enc, h1, h2, h3, hb, hc']
          · simp at h

theorem enc_length_pos (n : Nat) : 0 < (enc n).length := by
  unfold enc; split <;> (try split) <;> (try split) <;> simp

end Compact
end Embit
