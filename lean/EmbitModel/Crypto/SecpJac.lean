import EmbitModel.Crypto.Secp256k1
/-
  Scalar multiplication on secp256k1 in Jacobian coordinates (one field inversion per multiplication) for the
  driver only: long derivation paths need a few hundred multiplications per case. Every run cross-checks it
  against the affine reference `Secp.mul` (op `ec.mulcheck`) and against embit. No theorem depends on it.
-/
namespace Embit.Crypto.SecpJac
open Embit.Crypto.Secp

/-- (X, Y, Z) ~ (X/Z², Y/Z³); Z = 0 is the point at infinity -/
structure J where
  x : Nat
  y : Nat
  z : Nat

def inf : J := ⟨0, 1, 0⟩
@[inline] def sub (a b : Nat) : Nat := (a + p - b % p) % p

def dbl (P : J) : J :=
  if P.z = 0 ∨ P.y = 0 then inf
  else
    let yy := P.y * P.y % p
    let s := 4 * (P.x * yy % p) % p
    let m := 3 * (P.x * P.x % p) % p
    let x3 := sub (m * m % p) (2 * s % p)
    let y3 := sub (m * sub s x3 % p) (8 * (yy * yy % p) % p)
    ⟨x3, y3, 2 * (P.y * P.z % p) % p⟩

def add (P Q : J) : J :=
  if P.z = 0 then Q
  else if Q.z = 0 then P
  else
    let z1z1 := P.z * P.z % p
    let z2z2 := Q.z * Q.z % p
    let u1 := P.x * z2z2 % p
    let u2 := Q.x * z1z1 % p
    let s1 := P.y * (z2z2 * Q.z % p) % p
    let s2 := Q.y * (z1z1 * P.z % p) % p
    if u1 = u2 then (if s1 = s2 then dbl P else inf)
    else
      let h := sub u2 u1
      let r := sub s2 s1
      let hh := h * h % p
      let hhh := hh * h % p
      let v := u1 * hh % p
      let x3 := sub (sub (r * r % p) hhh) (2 * v % p)
      let y3 := sub (r * sub v x3 % p) (s1 * hhh % p)
      ⟨x3, y3, h * (P.z * Q.z % p) % p⟩

def ofAffine : Pt → J
  | none => inf
  | some (x, y) => ⟨x, y, 1⟩

def toAffine (P : J) : Pt :=
  if P.z = 0 then none
  else
    let zi := invP P.z
    let zi2 := zi * zi % p
    some (P.x * zi2 % p, P.y * (zi2 * zi % p) % p)

/-- double-and-add, most significant bit first -/
def mul (k : Nat) (q : Pt) : Pt :=
  let qj := ofAffine q
  let rec go : Nat → J → J
    | 0, acc => acc
    | i+1, acc =>
      let acc2 := dbl acc
      go i (if k.testBit i then add acc2 qj else acc2)
  toAffine (go (k.log2 + 1) inf)

def mulG (k : Nat) : Pt := mul k G

end Embit.Crypto.SecpJac
