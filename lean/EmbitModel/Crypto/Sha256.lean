import EmbitModel.Basic.Bytes
/-
  Executable reference SHA-256 (FIPS 180-4) for the driver. No theorem depends on it: theorems quantify
  over arbitrary hash functions. It is validated against hashlib by the correspondence on every run.
-/
namespace Embit.Crypto

def sha256K : Array UInt32 := #[
  0x428a2f98, 0x71374491, 0xb5c0fbcf, 0xe9b5dba5, 0x3956c25b, 0x59f111f1, 0x923f82a4, 0xab1c5ed5,
  0xd807aa98, 0x12835b01, 0x243185be, 0x550c7dc3, 0x72be5d74, 0x80deb1fe, 0x9bdc06a7, 0xc19bf174,
  0xe49b69c1, 0xefbe4786, 0x0fc19dc6, 0x240ca1cc, 0x2de92c6f, 0x4a7484aa, 0x5cb0a9dc, 0x76f988da,
  0x983e5152, 0xa831c66d, 0xb00327c8, 0xbf597fc7, 0xc6e00bf3, 0xd5a79147, 0x06ca6351, 0x14292967,
  0x27b70a85, 0x2e1b2138, 0x4d2c6dfc, 0x53380d13, 0x650a7354, 0x766a0abb, 0x81c2c92e, 0x92722c85,
  0xa2bfe8a1, 0xa81a664b, 0xc24b8b70, 0xc76c51a3, 0xd192e819, 0xd6990624, 0xf40e3585, 0x106aa070,
  0x19a4c116, 0x1e376c08, 0x2748774c, 0x34b0bcb5, 0x391c0cb3, 0x4ed8aa4a, 0x5b9cca4f, 0x682e6ff3,
  0x748f82ee, 0x78a5636f, 0x84c87814, 0x8cc70208, 0x90befffa, 0xa4506ceb, 0xbef9a3f7, 0xc67178f2]

@[inline] def rotr32 (x : UInt32) (n : UInt32) : UInt32 := (x >>> n) ||| (x <<< (32 - n))

def be32 (a b c d : UInt8) : UInt32 :=
  (a.toUInt32 <<< 24) ||| (b.toUInt32 <<< 16) ||| (c.toUInt32 <<< 8) ||| d.toUInt32

def wordsOf : Bytes → List UInt32
  | a :: b :: c :: d :: rest => be32 a b c d :: wordsOf rest
  | _ => []

def u32be (w : UInt32) : Bytes :=
  [(w >>> 24).toUInt8, (w >>> 16).toUInt8, (w >>> 8).toUInt8, w.toUInt8]

def sha256Pad (msg : Bytes) : Bytes :=
  let l := msg.length
  let padLen := (119 - l % 64) % 64 + 1   -- 0x80 plus zeros so that total ≡ 56 mod 64
  msg ++ (0x80 :: List.replicate (padLen - 1) 0) ++ beN 8 (8 * l % 2^64)

def sha256Compress (h : Array UInt32) (block : Array UInt32) : Array UInt32 := Id.run do
  let mut w := block
  for i in [16:64] do
    let w15 := w[i-15]!
    let w2 := w[i-2]!
    let s0 := rotr32 w15 7 ^^^ rotr32 w15 18 ^^^ (w15 >>> 3)
    let s1 := rotr32 w2 17 ^^^ rotr32 w2 19 ^^^ (w2 >>> 10)
    w := w.push (w[i-16]! + s0 + w[i-7]! + s1)
  let mut a := h[0]!; let mut b := h[1]!; let mut c := h[2]!; let mut d := h[3]!
  let mut e := h[4]!; let mut f := h[5]!; let mut g := h[6]!; let mut hh := h[7]!
  for i in [0:64] do
    let s1 := rotr32 e 6 ^^^ rotr32 e 11 ^^^ rotr32 e 25
    let ch := (e &&& f) ^^^ ((~~~ e) &&& g)
    let t1 := hh + s1 + ch + sha256K[i]! + w[i]!
    let s0 := rotr32 a 2 ^^^ rotr32 a 13 ^^^ rotr32 a 22
    let mj := (a &&& b) ^^^ (a &&& c) ^^^ (b &&& c)
    let t2 := s0 + mj
    hh := g; g := f; f := e; e := d + t1; d := c; c := b; b := a; a := t1 + t2
  return #[h[0]! + a, h[1]! + b, h[2]! + c, h[3]! + d, h[4]! + e, h[5]! + f, h[6]! + g, h[7]! + hh]

def sha256Init : Array UInt32 :=
  #[0x6a09e667, 0xbb67ae85, 0x3c6ef372, 0xa54ff53a, 0x510e527f, 0x9b05688c, 0x1f83d9ab, 0x5be0cd19]

partial def sha256Blocks (h : Array UInt32) (ws : List UInt32) : Array UInt32 :=
  if ws.isEmpty then h else
    sha256Blocks (sha256Compress h (ws.take 16).toArray) (ws.drop 16)

def sha256 (msg : Bytes) : Bytes :=
  let h := sha256Blocks sha256Init (wordsOf (sha256Pad msg))
  h.toList.flatMap u32be

end Embit.Crypto
