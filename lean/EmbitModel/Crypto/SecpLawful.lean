import EmbitModel.Model.PyCurveOps
import EmbitModel.Crypto.Secp256k1
/-
  `Crypto.secpLawful`: the secp256k1 record the native driver evaluates (ops `py.*`, `contract.*`, `sig.*`,
  `sigcheck.*`, `sign.*`, and — through `toKeys` — the key ops of C09 / C10 and everything built on them).

  Why it replaced `Crypto.secpOps` (second audit, finding A-1): `secpOps` has `Pt := Option (Nat × Nat)` and
  `xy := id`, so its carrier contains junk values such as `some (0, 0)`; `EcLaws Crypto.secpOps → False` is provable
  (`Props/C02Z.old_driver_record_unlawful`) and every theorem instantiated at it was vacuous. The carrier here is
  `{ q // okPt secp256k1 q = true }` — infinity or reduced on-curve coordinates — and the operations are the modelled
  arithmetic of `embit/util/key.py` (Model/PyCurve.lean, corresponded with the real functions on every run of
  `./check C08`). `EcLaws Crypto.secpLawful` and `InfUnique Crypto.secpLawful` are THEOREMS with no hypothesis
  (Proofs/SecpLawful.lean: isomorphism with `pyEcOps secp256k1 secp256k1N secpG`, laws of Props/C08Z transported).
  Executable, Mathlib-free; a scalar multiplication costs ≈ 2 ms in the native driver.
-/
namespace Embit.Crypto
open Embit.Model.PyCurve

set_option maxRecDepth 100000 in
/-- the generator: `(Gx, Gy)` is a reduced pair that `on_curve` accepts (kernel evaluation of the model) -/
def secpLawfulG : CPt secp256k1 := ⟨some (Secp.gx, Secp.gy), by decide +kernel⟩

/-- secp256k1 over canonical points with key.py's arithmetic -/
def secpLawful : EcOps := lawfulOps secp256k1 secp256k1N secpLawfulG

namespace SecpLawful

/-- a protocol-level affine value (`Secp.Pt`) as a point of the record; `none` for a non-canonical value -/
def ofPt (q : Secp.Pt) : Option secpLawful.Pt := CPt.ofOption secp256k1 q

/-- the protocol-level value of a point -/
def toPt (P : secpLawful.Pt) : Secp.Pt := P.1

/-- strict SEC decoding INTO the record: `02/03 ‖ X` through `liftX` (and `neg` for the odd root), `04 ‖ X ‖ Y` through
    `ofXY` (both are the branches of `ECPubKey.set`, which make the range and curve checks) -/
def secParse (b : Bytes) : Option secpLawful.Pt :=
  match b with
  | 0x02 :: r => if r.length = 32 then secpLawful.liftX (ofBe r) else none
  | 0x03 :: r => if r.length = 32 then (secpLawful.liftX (ofBe r)).map secpLawful.neg else none
  | 0x04 :: r => if r.length = 64 then secpLawful.ofXY (ofBe (r.take 32)) (ofBe (r.drop 32)) else none
  | _ => none

end SecpLawful

end Embit.Crypto
