import EmbitModel.Crypto.Sha256
import EmbitModel.Crypto.Sha512
/-
  HMAC (RFC 2104) and PBKDF2 (RFC 8018) generic in the hash function; executable, driver only.
-/
namespace Embit.Crypto

def xorBytes (a b : Bytes) : Bytes := List.zipWith (· ^^^ ·) a b

def hmac (hash : Bytes → Bytes) (blockLen : Nat) (key msg : Bytes) : Bytes :=
  let k0 := if key.length > blockLen then hash key else key
  let k := k0 ++ List.replicate (blockLen - k0.length) 0
  let ipad := k.map (· ^^^ 0x36)
  let opad := k.map (· ^^^ 0x5c)
  hash (opad ++ hash (ipad ++ msg))

def hmacSha256 (key msg : Bytes) : Bytes := hmac sha256 64 key msg
def hmacSha512 (key msg : Bytes) : Bytes := hmac sha512 128 key msg

def pbkdf2Block (prf : Bytes → Bytes → Bytes) (pw salt : Bytes) (iters : Nat) (idx : Nat) : Bytes :=
  let u1 := prf pw (salt ++ beN 4 idx)
  let rec go : Nat → Bytes → Bytes → Bytes
    | 0, _, acc => acc
    | n+1, u, acc => let u' := prf pw u; go n u' (xorBytes acc u')
  go (iters - 1) u1 u1

/-- PBKDF2 with a 64-byte-output PRF producing `dkLen ≤ 64·k` bytes -/
def pbkdf2 (prf : Bytes → Bytes → Bytes) (hLen : Nat) (pw salt : Bytes) (iters dkLen : Nat) : Bytes :=
  let nblocks := (dkLen + hLen - 1) / hLen
  ((List.range nblocks).flatMap fun i => pbkdf2Block prf pw salt iters (i + 1)).take dkLen

def pbkdf2HmacSha512 (pw salt : Bytes) (iters dkLen : Nat) : Bytes :=
  pbkdf2 hmacSha512 64 pw salt iters dkLen

end Embit.Crypto
