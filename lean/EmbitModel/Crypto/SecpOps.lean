import EmbitModel.Crypto.Secp256k1
import EmbitModel.Crypto.Hmac
import EmbitModel.Model.EcOps
/-
  The concrete instances of the abstract `EcOps` / `HashOps` records used by the driver:
  affine secp256k1 over `Nat` and the reference SHA-256 / HMAC-SHA256.
-/
namespace Embit.Crypto

namespace Secp

/-- Jacobian point `(X, Y, Z)`, `Z = 0` for infinity (driver speed only: one field inversion per scalar
    multiplication instead of one per addition) -/
abbrev JPt := Nat × Nat × Nat

def sub (a b : Nat) : Nat := (a + (p - b % p)) % p

def jDouble : JPt → JPt
  | (x, y, z) =>
    if z = 0 ∨ y = 0 then (0, 1, 0) else
    let y2 := y * y % p
    let s := 4 * x % p * y2 % p
    let m := 3 * (x * x % p) % p
    let x' := sub (m * m % p) (2 * s % p)
    let y' := sub (m * sub s x' % p) (8 * (y2 * y2 % p) % p)
    (x', y', 2 * y % p * z % p)

def jAddAffine : JPt → Nat × Nat → JPt
  | (x1, y1, z1), (x2, y2) =>
    if z1 = 0 then (x2, y2, 1) else
    let z2 := z1 * z1 % p
    let u2 := x2 * z2 % p
    let s2 := y2 * (z2 * z1 % p) % p
    let h := sub u2 x1
    let r := sub s2 y1
    if h = 0 then (if r = 0 then jDouble (x1, y1, z1) else (0, 1, 0)) else
    let h2 := h * h % p
    let h3 := h2 * h % p
    let v := x1 * h2 % p
    let x3 := sub (sub (r * r % p) h3) (2 * v % p)
    let y3 := sub (r * sub v x3 % p) (y1 * h3 % p)
    (x3, y3, h * z1 % p)

def jToAffine : JPt → Pt
  | (x, y, z) =>
    if z = 0 then none else
    let zi := invP z
    let zi2 := zi * zi % p
    some (x * zi2 % p, y * (zi2 * zi % p) % p)

/-- double-and-add, most significant bit first, in Jacobian coordinates -/
def mulFast (k : Nat) : Pt → Pt
  | none => none
  | some q =>
    let rec go : Nat → JPt → JPt
      | 0, acc => acc
      | i + 1, acc =>
        let acc2 := jDouble acc
        go i (if k.testBit i then jAddAffine acc2 q else acc2)
    jToAffine (go (k.log2 + 1) (0, 1, 0))

end Secp

/-- the FORMER curve record of the driver (fast affine / Jacobian arithmetic over `Option (Nat × Nat)`). Its carrier
    contains junk values (`some (0, 0)`, unreduced or off-curve pairs) and `xy` is the identity, so `EcLaws secpOps → False`
    (`Props/C02Z.old_driver_record_unlawful`; second audit A-1). Since then the driver evaluates `Crypto.secpLawful`
    (Crypto/SecpLawful.lean); this record is kept only for the differential ops `ecops.*` (Driver/PyCurve.lean). -/
def secpOps : EcOps where
  Pt := Secp.Pt
  add := Secp.add
  neg := Secp.neg
  mul := Secp.mulFast
  g := Secp.G
  n := Secp.n
  p := Secp.p
  xy := fun P => P
  ofXY := fun x y =>
    if (y * y) % Secp.p == (x * x % Secp.p * x + 7) % Secp.p then some (some (x % Secp.p, y % Secp.p)) else none
  liftX := fun x =>
    match Secp.liftX x false with
    | none => none
    | some pt => some (some pt)
  invN := Secp.invN

def shaOps : HashOps where
  sha256 := sha256
  hmac256 := hmacSha256

end Embit.Crypto
