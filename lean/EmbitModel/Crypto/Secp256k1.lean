import EmbitModel.Basic.Bytes
/-
  Executable affine secp256k1 over `Nat` for the driver (and as the concrete instance of abstract curve
  operations). No theorem depends on these being a group; theorems quantify over an abstract curve structure.
-/
namespace Embit.Crypto.Secp

def p : Nat := 0xFFFFFFFFFFFFFFFFFFFFFFFFFFFFFFFFFFFFFFFFFFFFFFFFFFFFFFFEFFFFFC2F
def n : Nat := 0xFFFFFFFFFFFFFFFFFFFFFFFFFFFFFFFEBAAEDCE6AF48A03BBFD25E8CD0364141
def gx : Nat := 0x79BE667EF9DCBBAC55A06295CE870B07029BFCDB2DCE28D959F2815B16F81798
def gy : Nat := 0x483ADA7726A3C4655DA4FBFC0E1108A8FD17B448A68554199C47D08FFB10D4B8

/-- modular exponentiation by squaring (fuel = bit length) -/
def powMod (b e m : Nat) : Nat :=
  let rec go : Nat → Nat → Nat → Nat → Nat
    | 0, _, _, acc => acc
    | fuel+1, b, e, acc =>
      if e = 0 then acc else
      go fuel (b * b % m) (e / 2) (if e % 2 = 1 then acc * b % m else acc)
  go (e.log2 + 1) (b % m) e (1 % m)

def invP (a : Nat) : Nat := powMod a (p - 2) p
def invN (a : Nat) : Nat := powMod a (n - 2) n

/-- affine point; `none` is the point at infinity -/
abbrev Pt := Option (Nat × Nat)

def G : Pt := some (gx, gy)

def onCurve (x y : Nat) : Bool := x < p && y < p && (y * y) % p == (x * x % p * x + 7) % p

def neg : Pt → Pt
  | none => none
  | some (x, y) => some (x, (p - y) % p)

def add : Pt → Pt → Pt
  | none, q => q
  | q, none => q
  | some (x1, y1), some (x2, y2) =>
    if x1 = x2 then
      if (y1 + y2) % p = 0 then none
      else
        let l := 3 * x1 % p * x1 % p * invP (2 * y1 % p) % p
        let x3 := (l * l + 2 * (p - x1)) % p
        some (x3, (l * ((x1 + (p - x3)) % p) + (p - y1)) % p)
    else
      let l := (y2 + (p - y1)) % p * invP ((x2 + (p - x1)) % p) % p
      let x3 := (l * l + (p - x1) + (p - x2)) % p
      some (x3, (l * ((x1 + (p - x3)) % p) + (p - y1)) % p)

/-- double-and-add, most significant bit first (fuel = bit length) -/
def mul (k : Nat) (q : Pt) : Pt :=
  let rec go : Nat → Pt → Pt
    | 0, acc => acc
    | i+1, acc =>
      let acc2 := add acc acc
      go i (if k.testBit i then add acc2 q else acc2)
  go (k.log2 + 1) none

def mulG (k : Nat) : Pt := mul k G

/-- square root mod p (p ≡ 3 mod 4); `none` when not a square -/
def sqrtP (a : Nat) : Option Nat :=
  let r := powMod a ((p + 1) / 4) p
  if r * r % p = a % p then some r else none

/-- the point with this x and the given Y parity -/
def liftX (x : Nat) (odd : Bool) : Pt :=
  if x ≥ p then none else
  match sqrtP ((x * x % p * x + 7) % p) with
  | none => none
  | some y => if (y % 2 = 1) = odd then some (x, y) else some (x, (p - y) % p)

/-- SEC encoding -/
def secCompressed : Pt → Bytes
  | none => []
  | some (x, y) => (if y % 2 = 0 then 0x02 else 0x03) :: beN 32 x

def secUncompressed : Pt → Bytes
  | none => []
  | some (x, y) => 0x04 :: (beN 32 x ++ beN 32 y)

/-- strict SEC decoding (x,y < p, on curve) -/
def secParse (b : Bytes) : Option (Nat × Nat) :=
  match b with
  | 0x02 :: r => if r.length = 32 then liftX (ofBe r) false else none
  | 0x03 :: r => if r.length = 32 then liftX (ofBe r) true else none
  | 0x04 :: r =>
    if r.length = 64 then
      let x := ofBe (r.take 32); let y := ofBe (r.drop 32)
      if onCurve x y then some (x, y) else none
    else none
  | _ => none

end Embit.Crypto.Secp
