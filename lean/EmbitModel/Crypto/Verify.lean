import EmbitModel.Crypto.Secp256k1
import EmbitModel.Crypto.Sha256
/-
  Independent executable signature verifiers for the driver (ECDSA with strict DER + low-S, BIP340).
  Used as the oracle for "every added signature verifies" (C02); no theorem depends on them.
-/
namespace Embit.Crypto

/-- strict DER (BIP66) → (r, s) -/
def parseDerStrict (b : Bytes) : Option (Nat × Nat) :=
  match b with
  | 0x30 :: l :: rest =>
    if l.toNat ≠ rest.length then none else
    match rest with
    | 0x02 :: lr :: r1 =>
      let lr := lr.toNat
      if lr = 0 || lr > r1.length then none else
      let rb := r1.take lr
      match r1.drop lr with
      | 0x02 :: ls :: s1 =>
        let ls := ls.toNat
        if ls = 0 || ls ≠ s1.length then none else
        let okInt (x : Bytes) : Bool :=
          match x with
          | [] => false
          | a :: [] => a.toNat < 0x80
          | a :: b :: _ => a.toNat < 0x80 && !(a.toNat = 0 && b.toNat < 0x80)
        if okInt rb && okInt s1 then some (ofBe rb, ofBe s1) else none
      | _ => none
    | _ => none
  | _ => none

def ecdsaVerify (pub : Secp.Pt) (z r s : Nat) : Bool :=
  if r = 0 || r ≥ Secp.n || s = 0 || s ≥ Secp.n then false else
  let w := Secp.invN s
  let u1 := z * w % Secp.n
  let u2 := r * w % Secp.n
  match Secp.add (Secp.mulG u1) (Secp.mul u2 pub) with
  | none => false
  | some (x, _) => x % Secp.n == r

def taggedHash256 (tag : String) (m : Bytes) : Bytes :=
  let t := sha256 tag.toUTF8.toList
  sha256 (t ++ t ++ m)

/-- BIP340 verification: 32-byte x-only key, 32-byte message, 64-byte signature -/
def bip340Verify (pk msg sig : Bytes) : Bool :=
  if pk.length ≠ 32 || msg.length ≠ 32 || sig.length ≠ 64 then false else
  match Secp.liftX (ofBe pk) false with
  | none => false
  | some P =>
    let r := ofBe (sig.take 32)
    let s := ofBe (sig.drop 32)
    if r ≥ Secp.p || s ≥ Secp.n then false else
    let e := ofBe (taggedHash256 "BIP0340/challenge" (sig.take 32 ++ pk ++ msg)) % Secp.n
    match Secp.add (Secp.mulG s) (Secp.neg (Secp.mul e (some P))) with
    | none => false
    | some (x, y) => y % 2 == 0 && x == r

end Embit.Crypto
