import EmbitModel.Props.C04
import EmbitModel.Props.C06
/-
  C17 — every parser terminates promptly on hostile input (the part that is logic).
  On the models of the parsers: every function is total (structural recursion or fuel = input length), the number
  of loop iterations a count field can cause is at most the number of remaining bytes + 1, and what a successful
  parse builds has at most as many elements as the input has bytes. CPython's actual time and memory are observed
  by the monitor in harness/props/c17.py, not proved.
-/
set_option linter.unusedSimpArgs false
set_option linter.unusedVariables false
namespace Embit.Props.C17
open Embit Model

/-- a parser that consumes at least one byte whenever it succeeds -/
def Consuming {α : Type} (p : Parser α) : Prop := ∀ b x r, p b = some (x, r) → r.length < b.length

/-- iterations of `for i in range(n): p(stream)` including the failing one that ends the loop. A stand-alone counter
    (audit A5): what links it to the parsers is `C17Y.iterations_le_steps` (it is a lower bound of the step count of the
    instrumented loop `readManyC`, whose value part is `readMany`), and the parsers' own bounds are in `Props/C17Y.lean` -/
def readManySteps {α : Type} (p : Parser α) : Nat → Bytes → Nat
  | 0, _ => 0
  | n+1, b => match p b with
    | some (_, r) => 1 + readManySteps p n r
    | none => 1

/-- **no count-driven loop**: whatever the count field says, the loop body runs at most |input| + 1 times -/
theorem steps_le_input {α : Type} (p : Parser α) (hp : Consuming p) (n : Nat) (b : Bytes) :
    readManySteps p n b ≤ b.length + 1 := by
  induction n generalizing b with
  | zero => simp [readManySteps]
  | succ n ih =>
    simp only [readManySteps]
    split
    · rename_i x r h
      have := hp _ _ _ h
      have := ih r
      omega
    · omega

/-- **no count-driven allocation**: a successful counted read returns at most as many elements as bytes consumed -/
theorem output_le_input {α : Type} (p : Parser α) (hp : Consuming p) (n : Nat) (b : Bytes) (xs : List α) (r : Bytes)
    (h : readMany p n b = some (xs, r)) : xs.length + r.length ≤ b.length := by
  induction n generalizing b xs r with
  | zero => simp [readMany] at h; obtain ⟨rfl, rfl⟩ := h; simp
  | succ n ih =>
    simp only [readMany] at h
    split at h
    · rename_i x r1 h1
      split at h
      · rename_i xs' r2 h2
        simp at h; obtain ⟨rfl, rfl⟩ := h
        have := hp _ _ _ h1
        have := ih _ _ _ h2
        simp; omega
      · simp at h
    · simp at h

theorem compact_consuming : Consuming Compact.read := by
  intro b x r h
  obtain ⟨e, _⟩ := Compact.read_sound h
  have := Compact.enc_length_pos x
  rw [e]; simp; omega

theorem script_consuming : Consuming scriptRead := by
  intro b x r h
  obtain ⟨e, _⟩ := scriptRead_sound h
  have := Compact.enc_length_pos x.length
  rw [e]; simp [scriptSer]; omega

theorem witness_consuming : Consuming witnessRead := by
  intro b x r h
  obtain ⟨e, _, _⟩ := witnessRead_sound h
  have := Compact.enc_length_pos x.length
  rw [e]; simp [witnessSer]; omega

theorem txin_consuming : Consuming TxIn.read := by
  intro b x r h
  obtain ⟨e, hw, _⟩ := TxIn.read_sound h
  rw [e]; simp [TxIn.ser, hw.txid]; omega

theorem txout_consuming : Consuming TxOut.read := by
  intro b x r h
  obtain ⟨e, _⟩ := TxOut.read_sound h
  rw [e]; simp [TxOut.ser]; omega

/-- a parsed transaction has at most as many inputs + outputs as its encoding has bytes -/
theorem tx_size_le_input (b : Bytes) (t : Tx) (r : Bytes) (h : Tx.read b = some (t, r)) :
    t.vin.length + t.vout.length ≤ b.length := by
  obtain ⟨e, hwf⟩ := Tx.read_sound h
  have h41 : ∀ i ∈ t.vin, 41 ≤ (TxIn.ser i).length := by
    intro i hi
    have h1 := Compact.enc_length_pos i.scriptSig.length
    have h2 : (TxIn.ser i).length = 32 + (4 + ((Compact.enc i.scriptSig.length).length + i.scriptSig.length + 4)) := by
      simp [TxIn.ser, scriptSer, (hwf.ins i hi).txid]; omega
    omega
  have h9 : ∀ o ∈ t.vout, 9 ≤ (TxOut.ser o).length := by
    intro o ho
    have h1 := Compact.enc_length_pos o.spk.length
    have h2 : (TxOut.ser o).length = 8 + ((Compact.enc o.spk.length).length + o.spk.length) := by
      simp [TxOut.ser, scriptSer]
    omega
  have l1 : ∀ (l : List TxIn), (∀ i ∈ l, 41 ≤ (TxIn.ser i).length) → l.length ≤ (l.flatMap TxIn.ser).length := by
    intro l; induction l with
    | nil => simp
    | cons x xs ih =>
      intro hh; have := ih (fun i hi => hh i (by simp [hi])); have := hh x (by simp)
      simp only [List.flatMap_cons, List.length_append, List.length_cons]; omega
  have l2 : ∀ (l : List TxOut), (∀ i ∈ l, 9 ≤ (TxOut.ser i).length) → l.length ≤ (l.flatMap TxOut.ser).length := by
    intro l; induction l with
    | nil => simp
    | cons x xs ih =>
      intro hh; have := ih (fun i hi => hh i (by simp [hi])); have := hh x (by simp)
      simp only [List.flatMap_cons, List.length_append, List.length_cons]; omega
  have a := l1 t.vin h41
  have c := l2 t.vout h9
  rw [e]
  simp only [Tx.ser, List.length_append]
  omega

/-- a scope has fewer pairs than bytes -/
theorem scope_pairs_lt_input (b : Bytes) (kvs : List KV) (r : Bytes) (h : readKVs b = some (kvs, r)) :
    kvs.length < b.length := by
  obtain ⟨e, _⟩ := readKVs_sound h
  have := writeKVs_length kvs
  rw [e]; simp; omega

/-- **PSBT (also version 2, where the counts are attacker-chosen fields)**: an accepted PSBT has at most as many
    input + output scopes as the byte string has bytes -/
theorem psbt_scopes_le_input (ko : KeyOps) (sha : Bytes → Bytes) (b : Bytes) (p : Psbt)
    (h : Psbt.parse ko sha 0 b = some p) : p.inputs.length + p.outputs.length ≤ b.length := by
  obtain ⟨g, ins, outs, e, li, lo, _⟩ := Props.C04.parse_lossless ko sha b p h
  have l1 : ∀ (l : List (List KV)), l.length ≤ (l.flatMap writeKVs).length := by
    intro l; induction l with
    | nil => simp
    | cons x xs ih =>
      have := writeKVs_length x
      simp only [List.flatMap_cons, List.length_append, List.length_cons]; omega
  have a := l1 ins
  have c := l1 outs
  rw [e, ← li, ← lo]
  simp only [List.length_append]
  omega

/-- taproot leaf hashes: the count field cannot exceed what the value holds -/
theorem leaf_hashes_le_value (v : Bytes) (hs : List Bytes) (d : Deriv) (h : tapDerivParse v = some (hs, d)) :
    32 * hs.length ≤ v.length := by
  unfold tapDerivParse at h
  split at h
  · simp at h
  · rename_i n r hn
    obtain ⟨e1, _⟩ := Compact.read_sound hn
    split at h
    · simp at h
    · rename_i hs' r2 hh
      split at h
      · simp at h
      · simp at h; obtain ⟨rfl, _⟩ := h
        have key : ∀ (n : Nat) (b : Bytes) (xs : List Bytes) (r : Bytes),
            readMany (takeN 32) n b = some (xs, r) → 32 * xs.length + r.length ≤ b.length := by
          intro n
          induction n with
          | zero => intro b xs r h; simp [readMany] at h; obtain ⟨rfl, rfl⟩ := h; simp
          | succ n ih =>
            intro b xs r h
            simp only [readMany] at h
            split at h
            · rename_i x r1 h1
              split at h
              · rename_i xs' r2' h2
                simp at h; obtain ⟨rfl, rfl⟩ := h
                obtain ⟨e, l⟩ := takeN_sound h1
                have := ih _ _ _ h2
                rw [e]; simp [l]; omega
              · simp at h
            · simp at h
        have := key _ _ _ _ hh
        rw [e1]; simp; omega

/-- the streamed previous-transaction reader does no more work than the full parser accepts -/
theorem readVout_total (sha : Bytes → Bytes) (idx : Nat) (b : Bytes) :
    (Tx.readVout sha idx b).isSome → (Tx.read b).isSome := by
  rw [Props.C06.readVout_eq_parse]
  cases Tx.read b <;> simp

-- The text parsers (descriptor / miniscript / taptree: termination, steps, recursion depth; Base58, bech32, mnemonics,
-- shares), the Liquid parsers and the key parsers are in Props/C17X.lean, with what remains unproved stated there.

/-! ### non-vacuity -/
example : readManySteps Compact.read 1000000 [1, 2, 3] = 4 := by decide
example : readManySteps Compact.read 1000000 [] = 1 := by decide

end Embit.Props.C17
